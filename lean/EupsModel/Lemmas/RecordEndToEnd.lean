import EupsModel.Lemmas.RecordText
import EupsModel.Lemmas.RecordReloc
/-! Paths and their strings; the relocation theorem through the printed text of the record (C16). -/
set_option linter.unusedSimpArgs false
set_option linter.unusedVariables false
namespace EupsModel.Record

/-! ## Paths and their strings -/

theorem splitOn_none (c : Nat) (l : Str) (h : c ∉ l) : splitOn c l = [l] := by
  induction l with
  | nil => rfl
  | cons x r ih =>
    have hx : x ≠ c := fun e => h (by simp [e])
    have hr : c ∉ r := fun m => h (by simp [m])
    simp [splitOn, hx, ih hr]

theorem splitOn_joinWith (c : Nat) (segs : List Str) (hne : segs ≠ []) (h : ∀ s ∈ segs, c ∉ s) :
    splitOn c (joinWith c segs) = segs := by
  induction segs with
  | nil => exact absurd rfl hne
  | cons s r ih =>
    cases r with
    | nil => simp [joinWith, splitOn_none c s (h s (by simp))]
    | cons s' r' =>
      simp only [joinWith]
      rw [splitOn_append c s _ (h s (by simp)), ih (by simp) (fun x hx => h x (by simp [hx]))]

/-- a segment of a path as it can stand in a record: non-empty, no `/` -/
def SegP (s : Str) : Prop := s ≠ [] ∧ 47 ∉ s

theorem filter_nonempty_id (segs : List Str) (h : ∀ s ∈ segs, SegP s) : segs.filter (!·.isEmpty) = segs := by
  rw [List.filter_eq_self]
  intro s hs
  have := (h s hs).1
  cases s <;> simp_all

theorem head_joinWith (segs : List Str) (h : ∀ s ∈ segs, SegP s) : (joinWith 47 segs).head? ≠ some 47 := by
  cases segs with
  | nil => simp [joinWith]
  | cons s r =>
    have hs := h s (by simp)
    cases s with
    | nil => exact absurd rfl hs.1
    | cons x xs =>
      have hx : x ≠ 47 := fun e => hs.2 (by simp [e])
      cases r with
      | nil => simp [joinWith, hx]
      | cons s' r' => simp [joinWith, hx]

theorem ofStr_toStr (p : Path) (h : ∀ s ∈ p.segs, SegP s) : Path.ofStr p.toStr = p := by
  obtain ⟨abs, segs⟩ := p
  simp only at h
  have h47 : ∀ s ∈ segs, 47 ∉ s := fun s hs => (h s hs).2
  cases abs with
  | true =>
    simp only [Path.toStr, Path.ofStr, if_true, List.singleton_append, List.head?_cons]
    cases hsegs : segs with
    | nil => simp [joinWith, splitOn]
    | cons s r =>
      have hne : segs ≠ [] := by simp [hsegs]
      have := splitOn_joinWith 47 segs hne h47
      rw [hsegs] at this
      simp only [splitOn, if_true, this]
      have hf := filter_nonempty_id segs h
      rw [hsegs] at hf
      simp [List.filter_cons, hf]
  | false =>
    simp only [Path.toStr, Path.ofStr, Bool.false_eq_true, if_false, List.nil_append]
    have hh := head_joinWith segs h
    have hb : ((joinWith 47 segs).head? == some 47) = false := by
      cases hx : (joinWith 47 segs).head? with
      | none => simp
      | some x =>
        have : x ≠ 47 := fun e => hh (by rw [hx, e])
        simp [this]
    rw [hb]
    cases hsegs : segs with
    | nil => simp [joinWith, splitOn]
    | cons s r =>
      have hne : segs ≠ [] := by simp [hsegs]
      have := splitOn_joinWith 47 segs hne h47
      have hf := filter_nonempty_id segs h
      rw [← hsegs, this, hf]

/-- a path value written to a record and read back is the same value -/
theorem pval_roundtrip (v : PVal)
    (h : match v with
      | .null => True
      | .ph s => isRealStr s = false
      | .path p => (∀ s ∈ p.segs, SegP s) ∧ isRealStr p.toStr = true) :
    pOfFld (fldOfP (some v)) = some v := by
  cases v with
  | null => rfl
  | ph s => simp only at h; simp [fldOfP, PVal.toStr, pOfFld, PVal.ofStr, h]
  | path p =>
    simp only at h
    simp [fldOfP, PVal.toStr, pOfFld, PVal.ofStr, h.2, ofStr_toStr p h.1]

/-- a segment that can stand in a clean record value -/
def SegC (s : Str) : Prop := Clean s ∧ 47 ∉ s
def SegsC (l : List Str) : Prop := ∀ s ∈ l, SegC s

theorem SegC.segP {s : Str} (h : SegC s) : SegP s := ⟨h.1.ne, h.2⟩

theorem mem_joinWith (c : Nat) (segs : List Str) (x : Nat) (h : x ∈ joinWith c segs) : x = c ∨ ∃ s ∈ segs, x ∈ s := by
  induction segs with
  | nil => simp [joinWith] at h
  | cons s r ih =>
    cases r with
    | nil => simp [joinWith] at h; exact Or.inr ⟨s, by simp, h⟩
    | cons s' r' =>
      simp only [joinWith, List.mem_append, List.mem_cons] at h
      rcases h with h | h | h
      · exact Or.inr ⟨s, by simp, h⟩
      · exact Or.inl h
      · rcases ih h with h' | ⟨t, ht, hx⟩
        · exact Or.inl h'
        · exact Or.inr ⟨t, by simp [ht], hx⟩

theorem joinWith_ne_nil (c : Nat) (segs : List Str) (hne : segs ≠ []) (h : ∀ s ∈ segs, s ≠ []) : joinWith c segs ≠ [] := by
  cases segs with
  | nil => exact absurd rfl hne
  | cons s r =>
    cases r with
    | nil => simpa [joinWith] using h s (by simp)
    | cons s' r' => simp [joinWith]

theorem head_joinWith' (c : Nat) (s : Str) (r : List Str) (hs : s ≠ []) : (joinWith c (s :: r)).head? = s.head? := by
  cases r with
  | nil => simp [joinWith]
  | cons s' r' => cases s <;> simp_all [joinWith]

theorem getLast_joinWith (c : Nat) (segs : List Str) (hne : segs ≠ []) (h : ∀ s ∈ segs, s ≠ []) :
    ∃ s ∈ segs, (joinWith c segs).getLast? = s.getLast? := by
  induction segs with
  | nil => exact absurd rfl hne
  | cons s r ih =>
    cases r with
    | nil => exact ⟨s, by simp, by simp [joinWith]⟩
    | cons s' r' =>
      obtain ⟨t, ht, hl⟩ := ih (by simp) (fun x hx => h x (by simp [hx]))
      refine ⟨t, by simp [ht], ?_⟩
      simp only [joinWith]
      have hne' : joinWith c (s' :: r') ≠ [] := joinWith_ne_nil c _ (by simp) (fun x hx => h x (by simp [hx]))
      have : s ++ c :: joinWith c (s' :: r') = (s ++ [c]) ++ joinWith c (s' :: r') := by simp
      rw [this, getLast?_append_ne _ _ hne', hl]

/-- the string of a relative path with clean segments is clean -/
theorem clean_joinWith (segs : List Str) (hne : segs ≠ []) (h : SegsC segs) : Clean (joinWith 47 segs) := by
  have hnn : ∀ s ∈ segs, s ≠ [] := fun s hs => (h s hs).1.ne
  have no : ∀ x, x ≠ 47 → (∀ s ∈ segs, x ∉ s) → x ∉ joinWith 47 segs := by
    intro x hx hs hm
    rcases mem_joinWith 47 segs x hm with h1 | ⟨s, hs', hxs⟩
    · exact hx h1
    · exact hs s hs' hxs
  refine ⟨joinWith_ne_nil 47 segs hne hnn, no 35 (by decide) (fun s hs => (h s hs).1.no35),
    no 10 (by decide) (fun s hs => (h s hs).1.no10), no 13 (by decide) (fun s hs => (h s hs).1.no13),
    no 34 (by decide) (fun s hs => (h s hs).1.no34), ?_, ?_⟩
  · cases segs with
    | nil => exact absurd rfl hne
    | cons s r =>
      intro c hc
      rw [head_joinWith' 47 s r (hnn s (by simp))] at hc
      exact (h s (by simp)).1.headNS c hc
  · intro c hc
    obtain ⟨s, hs, hl⟩ := getLast_joinWith 47 segs hne hnn
    rw [hl] at hc
    exact (h s hs).1.lastNS c hc

/-- … and so is the string of an absolute one -/
theorem clean_abs (segs : List Str) (h : SegsC segs) : Clean (47 :: joinWith 47 segs) := by
  cases hs : segs with
  | nil =>
    simp only [joinWith]
    exact ⟨by simp, by decide, by decide, by decide, by decide, by intro c hc; simp at hc; subst hc; decide,
      by intro c hc; simp at hc; subst hc; decide⟩
  | cons s r =>
    have hne : segs ≠ [] := by simp [hs]
    have hc := clean_joinWith segs hne h
    rw [hs] at hc
    refine ⟨by simp, ?_, ?_, ?_, ?_, ?_, ?_⟩
    · intro hm; simp at hm; exact hc.no35 hm
    · intro hm; simp at hm; exact hc.no10 hm
    · intro hm; simp at hm; exact hc.no13 hm
    · intro hm; simp at hm; exact hc.no34 hm
    · intro c hcc; simp at hcc; subst hcc; decide
    · intro c hcc
      have : (47 :: joinWith 47 (s :: r)) = [47] ++ joinWith 47 (s :: r) := rfl
      rw [this, getLast?_append_ne _ _ hc.ne] at hcc
      exact hc.lastNS c hcc

theorem isRealStr_head (s : Str) (c : Nat) (h : s.head? = some c) (h1 : c ≠ 110) (h2 : c ≠ 63) (h3 : c ≠ 40) :
    isRealStr s = true := by
  cases s with
  | nil => simp at h
  | cons x r =>
    simp at h; subst h
    have a : ¬ (x = 110) := h1
    have b : ¬ (x = 63) := h2
    have c' : ¬ (x = 40) := h3
    simp [isRealStr, sNone, sQQQ, sPNone, a, b, c']

theorem isRealStr_long (s : Str) (h : 7 ≤ s.length) : isRealStr s = true := by
  have a : s ≠ sNone := by intro e; rw [e] at h; simp [sNone] at h
  have b : s ≠ sQQQ := by intro e; rw [e] at h; simp [sQQQ] at h
  have c : s ≠ sPNone := by intro e; rw [e] at h; simp [sPNone] at h
  simp [isRealStr, a, b, c]

/-- a path-valued entry as the end-to-end theorem covers it -/
def GoodPV : PVal → Prop
  | .null => False
  | .ph s => s = sNone
  | .path p => SegsC p.segs ∧ (p.abs = false → p.segs ≠ [] ∧ isRealStr (joinWith 47 p.segs) = true)

theorem clean_sNone : Clean sNone :=
  ⟨by decide, by decide, by decide, by decide, by decide, by intro c hc; simp [sNone] at hc; subst hc; decide,
    by intro c hc; simp [sNone] at hc; subst hc; decide⟩

theorem goodPV_fld (v : PVal) (h : GoodPV v) :
    (∃ str, fldOfP (some v) = .val str ∧ Clean str) ∧ pOfFld (fldOfP (some v)) = some v := by
  cases v with
  | null => exact absurd h (by simp [GoodPV])
  | ph s =>
    simp only [GoodPV] at h; subst h
    exact ⟨⟨sNone, rfl, clean_sNone⟩, pval_roundtrip _ (by decide)⟩
  | path p =>
    obtain ⟨abs, segs⟩ := p
    simp only [GoodPV] at h
    obtain ⟨hc, hrel⟩ := h
    have hp : ∀ s ∈ segs, SegP s := fun s hs => (hc s hs).segP
    cases abs with
    | true =>
      have hcl : Clean (Path.toStr ⟨true, segs⟩) := by simpa [Path.toStr] using clean_abs segs hc
      have hreal : isRealStr (Path.toStr ⟨true, segs⟩) = true :=
        isRealStr_head _ 47 (by simp [Path.toStr]) (by decide) (by decide) (by decide)
      exact ⟨⟨_, rfl, hcl⟩, pval_roundtrip _ ⟨hp, hreal⟩⟩
    | false =>
      obtain ⟨hne, hreal⟩ := hrel rfl
      have hcl : Clean (Path.toStr ⟨false, segs⟩) := by simpa [Path.toStr] using clean_joinWith segs hne hc
      have hreal' : isRealStr (Path.toStr ⟨false, segs⟩) = true := by simpa [Path.toStr] using hreal
      exact ⟨⟨_, rfl, hcl⟩, pval_roundtrip _ ⟨hp, hreal'⟩⟩

theorem clean_table (name : Str) (h : Clean name) : Clean (name ++ sDotTable) := by
  refine ⟨by simp [sDotTable], ?_, ?_, ?_, ?_, ?_, ?_⟩
  · intro hm; rcases List.mem_append.mp hm with h1 | h1
    · exact h.no35 h1
    · revert h1; decide
  · intro hm; rcases List.mem_append.mp hm with h1 | h1
    · exact h.no10 h1
    · revert h1; decide
  · intro hm; rcases List.mem_append.mp hm with h1 | h1
    · exact h.no13 h1
    · revert h1; decide
  · intro hm; rcases List.mem_append.mp hm with h1 | h1
    · exact h.no34 h1
    · revert h1; decide
  · intro c hc
    cases name with
    | nil => exact absurd rfl h.ne
    | cons x r => exact h.headNS c (by simpa using hc)
  · intro c hc
    rw [getLast?_append_ne _ _ (by decide)] at hc
    simp [sDotTable] at hc; subst hc; decide

/-- what the end-to-end theorem needs beyond `PlaceOK`: everything that is written into the record is clean text -/
structure TextOK (name version flavor who now : Str) (d : DirPl) (t : TabPl) : Prop where
  nameC : Clean name
  versionC : Clean version
  notLocal : sLOCAL.isPrefixOf version = false
  flavorC : CleanKey flavor
  whoC : Clean who
  nowC : Clean now
  dirC : match d with
    | .inside rel => SegsC rel ∧ isRealStr (joinWith 47 rel) = true
    | .outside s => SegsC s
    | .none => True
  tabC : match t with
    | .absInside trel => SegsC trel ∧ isRealStr (joinWith 47 trel) = true
    | .absOutside s => SegsC s
    | _ => True

theorem canonInfo_good (root : List Str) (name version flavor who now : Str) (d : DirPl) (t : TabPl)
    (hp : PlaceOK root name version flavor d t) (ht : TextOK name version flavor who now d t) :
    GoodPV (canonDir d) ∧ GoodPV (canonTab name version flavor t).1 ∧ GoodPV (canonTab name version flavor t).2 := by
  have hnt : SegC (name ++ sDotTable) := ⟨clean_table name ht.nameC, hp.name_ok.2.1⟩
  have hups : SegC sUps := ⟨⟨by decide, by decide, by decide, by decide, by decide,
    by intro c hc; simp [sUps] at hc; subst hc; decide, by intro c hc; simp [sUps] at hc; subst hc; decide⟩, by decide⟩
  have hdb : SegC mUPS_DB := ⟨⟨by decide, by decide, by decide, by decide, by decide,
    by intro c hc; simp [mUPS_DB] at hc; subst hc; decide, by intro c hc; simp [mUPS_DB] at hc; subst hc; decide⟩, by decide⟩
  have hfl : SegC flavor := ⟨ht.flavorC.clean, hp.flavor_ok.2.1⟩
  have hnm : SegC name := ⟨ht.nameC, hp.name_ok'.2.1⟩
  have hvs : SegC version := ⟨ht.versionC, hp.version_ok.2.1⟩
  have htn : GoodPV (.path (tableName name)) := by
    refine ⟨?_, fun _ => ⟨by simp [tableName, Path.rel], ?_⟩⟩
    · intro s hs; simp [tableName, Path.rel] at hs; subst hs; exact hnt
    · simp only [tableName, Path.rel, joinWith]
      apply isRealStr_long
      have := ht.nameC.ne
      cases name <;> simp_all [sDotTable]
  have hu : GoodPV (.path (Path.rel [sUps])) := by
    refine ⟨?_, fun _ => ⟨by simp [Path.rel], by decide⟩⟩
    intro s hs; simp [Path.rel] at hs; subst hs; exact hups
  have hn : GoodPV (.ph sNone) := rfl
  refine ⟨?_, ?_⟩
  · cases d with
    | inside rel =>
      have h1 := ht.dirC
      have h2 := hp.dir_ok
      simp only at h1 h2
      exact ⟨h1.1, fun _ => ⟨h2.2.1, h1.2⟩⟩
    | outside s =>
      have h1 := ht.dirC
      simp only at h1
      exact ⟨h1, fun h => by simp [absP] at h⟩
    | none => rfl
  · cases t with
    | inUps => exact ⟨htn, hu⟩
    | absInside trel =>
      have h1 := ht.tabC
      have h2 := hp.tab_ok
      simp only at h1 h2
      exact ⟨⟨h1.1, fun _ => ⟨h2.2.1, h1.2⟩⟩, hu⟩
    | absOutside s =>
      have h1 := ht.tabC
      simp only at h1
      exact ⟨⟨h1, fun h => by simp [absP] at h⟩, hu⟩
    | interned =>
      refine ⟨htn, ⟨?_, fun _ => ⟨by simp [Path.rel], ?_⟩⟩⟩
      · intro s hs
        simp [Path.rel] at hs
        rcases hs with rfl | rfl | rfl | rfl | rfl <;> assumption
      · simp only [Path.rel]
        exact isRealStr_head _ 36 (by simp [joinWith, mUPS_DB]) (by decide) (by decide) (by decide)
    | none => exact ⟨hn, hn⟩

/-- **Relocation through the text of the record** (end to end): declare into an empty version file with the
stack at `root`; the record is printed; the printed text is read back as the same record; a reader whose stack is at
`root'` makes of it the product at the relocated directory and table file. -/
theorem relocate_via_text (ex ex' : Path → Bool) (root root' : List Str) (name version flavor who now : Str)
    (d : DirPl) (t : TabPl) (hp : PlaceOK root name version flavor d t) (hroot' : SegsOK root')
    (ht : TextOK name version flavor who now d t)
    (hd : DeclEx ex root name version flavor d t) (hr : ReadEx ex' root' name version flavor d t) :
    ∃ vr text,
      declareRec ex who now { name := some name, version := some version, flavors := [] }
        (declaredProd root name version flavor d t) = .ok vr ∧
      printVersion vr = .ok (some text) ∧
      parseVersion (some name) (some version) text = .ok vr ∧
      (makeProduct ex' vr flavor (absP (root' ++ [sUpsDb]))).map (fun p => (p.dir, p.table))
        = .ok (d.at root', t.at root' name version flavor d) := by
  -- what is stored
  have h1 := canon_spec ex root name version flavor d t hp hd
  cases hdp : declarePaths ex (declaredProd root name version flavor d t) none with
  | error e => simp [hdp, Except.map] at h1
  | ok cp =>
    obtain ⟨c, pi⟩ := cp
    simp only [hdp, Except.map, Except.ok.injEq] at h1
    subst h1
    obtain ⟨gd, gt, gu⟩ := canonInfo_good root name version flavor who now d t hp ht
    obtain ⟨⟨s1, hs1, hc1⟩, hr1⟩ := goodPV_fld _ gd
    obtain ⟨⟨s2, hs2, hc2⟩, hr2⟩ := goodPV_fld _ gt
    obtain ⟨⟨s3, hs3, hc3⟩, hr3⟩ := goodPV_fld _ gu
    -- the record
    let info : Info := { declarer := .val who, declared := .val now, productDir := .val s1, tableFile := .val s2,
                         upsDir := .val s3 }
    have hflav : (declaredProd root name version flavor d t).flavor = flavor := by
      cases t <;> rfl
    have hrec : declareRec ex who now { name := some name, version := some version, flavors := [] }
        (declaredProd root name version flavor d t)
        = .ok { name := some name, version := some version, flavors := [(flavor, info)] } := by
      simp only [declareRec, hflav, dget, Option.map_none, hdp, List.map_nil, dset, stamp, Info.withPaths, canonInfo,
        hs1, hs2, hs3]
      rfl
    have hpaths : info.paths = canonInfo name version flavor d t := by
      simp only [Info.paths, canonInfo, info]
      rw [← hs1, ← hs2, ← hs3, hr1, hr2, hr3]
    have hgood : GoodVRec { name := some name, version := some version, flavors := [(flavor, info)] } := by
      refine ⟨⟨name, rfl, ht.nameC⟩, ⟨version, rfl, ht.versionC⟩, by simp, by simp, ?_⟩
      intro x hx
      simp at hx; subst hx
      refine ⟨ht.flavorC, ⟨⟨?_, ?_, ?_, ?_, ?_, ?_, ?_⟩, by simp [info], by simp [info], Or.inl (by simp [info])⟩⟩
      · exact Or.inr ⟨who, rfl, ht.whoC⟩
      · exact Or.inr ⟨now, rfl, ht.nowC⟩
      · exact Or.inl rfl
      · exact Or.inl rfl
      · exact Or.inr ⟨s1, rfl, hc1⟩
      · exact Or.inr ⟨s3, rfl, hc3⟩
      · exact Or.inr ⟨s2, rfl, hc2⟩
    obtain ⟨text, hprint, hparse⟩ := text_roundtrip_version _ hgood (some name) (some version) (Or.inr rfl) (Or.inr rfl)
    refine ⟨_, text, hrec, hprint, hparse, ?_⟩
    have h2 := resolve_spec ex' root root' name version flavor d t hp hroot' hr
    simp only [makeProduct, dget, if_true, strOf, ht.notLocal, Bool.false_eq_true, if_false, hpaths]
    exact h2

end EupsModel.Record
