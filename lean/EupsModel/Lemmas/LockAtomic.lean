import EupsModel.Lemmas.LockStep
/-! C09 — phase-atomic clause.  A *phase* is a run of `Lock.step` for one process from one resting point to the
next: an acquisition attempt (`mkdir` … up to the lock, the refusal, or the `sleep` before the next attempt) or a
release (end of the command body … `giveLocks` returns).  If phases do not overlap, exclusive holders are alone
among unrelated processes, readers share, a child re-enters its parent's lock, and nothing is left behind. -/
namespace EupsModel.Lock

/-- resting points: the process is not in the middle of `takeLocks` or `giveLocks` (the `sleep` between two
attempts of an exclusive request counts as one) -/
def quiet : PC → Bool
  | .mkdir _ | .hold | .unlocked | .done | .failedAcq _ | .failedRel _ => true
  | _ => false

/-- run process `i` until it rests, at most `fuel` calls -/
def runTo : Nat → St → Pid → St
  | 0, s, _ => s
  | f + 1, s, i => if quiet (s.pc i) then s else runTo f (step s i) i

/-- One phase of process `i`: its next call, then on to its next resting point (a phase has at most 6 calls;
`ainv_phase` shows the result rests, i.e. the fuel suffices). -/
def phase (s : St) (i : Pid) : St := runTo 6 (step s i) i

theorem runTo_quiet {f : Nat} {s : St} {i : Pid} (h : quiet (s.pc i) = true) : runTo f s i = s := by
  cases f <;> simp [runTo, h]

theorem runTo_step {f : Nat} {s : St} {i : Pid} (h : quiet (s.pc i) = false) :
    runTo (f + 1) s i = runTo f (step s i) i := by
  simp [runTo, h]

/-- phases are runs of the very same `step` the correspondence check validates -/
theorem runTo_is_run (f : Nat) (s : St) (i : Pid) : ∃ n, runTo f s i = run s (List.replicate n i) := by
  induction f generalizing s with
  | zero => exact ⟨0, rfl⟩
  | succ f ih =>
    by_cases hq : quiet (s.pc i) = true
    · exact ⟨0, by simp [runTo, hq]⟩
    · obtain ⟨n, hn⟩ := ih (step s i)
      exact ⟨n + 1, by simp [runTo, hq, hn, List.replicate_succ]⟩

theorem phase_is_run (s : St) (i : Pid) : ∃ n, phase s i = run s (List.replicate n i) := by
  obtain ⟨n, hn⟩ := runTo_is_run 6 (step s i) i
  exact ⟨n + 1, by simp [phase, hn, List.replicate_succ]⟩

/-- a whole phase-atomic order is one schedule of `step` -/
theorem phases_is_run (s : St) (ps : List Pid) : ∃ sched, ps.foldl phase s = run s sched := by
  induction ps generalizing s with
  | nil => exact ⟨[], rfl⟩
  | cons i r ih =>
    obtain ⟨n, hn⟩ := phase_is_run s i
    obtain ⟨sched, hs⟩ := ih (phase s i)
    exact ⟨List.replicate n i ++ sched, by rw [List.foldl_cons, hs, hn, run_append]⟩

/-! ### closed forms of the phases -/

section closed
variable {s : St} {i : Pid}

theorem phase_idle (h : s.pc i = .done ∨ ∃ e, s.pc i = .failedAcq e) : phase s i = s := by
  rcases h with h | ⟨e, h⟩
  · simp [phase, step_done h, runTo, quiet, h]
  · simp [phase, step_failedAcq h, runTo, quiet, h]

/-- the directory is free: the request (of either kind) is granted -/
theorem acquire_free {l : Nat} (hpc : s.pc i = .mkdir l) (hd : s.dir = false) (hf : s.files = []) :
    phase s i = { s with dir := true, files := [(s.kind i, i)], pc := upd s.pc i .hold } := by
  simp [phase, runTo, quiet, step_mkdir hpc, hd, step_scan, step_create, setPC, hf, exFiles]

/-- an exclusive request meets an existing directory whose one lock file belongs to `$EUPS_LOCK_PID`: re-entry -/
theorem acquire_ex_reenter {l : Nat} {k : Kind} {q : Pid} (hpc : s.pc i = .mkdir l) (hd : s.dir = true)
    (hk : s.kind i = .ex) (hf : s.files = [(k, q)]) (hl : s.lp i = some q) (hne : q ≠ i) :
    phase s i = { s with files := (.ex, i) :: s.files, pc := upd s.pc i .hold } := by
  have hne' : ¬ (i = q) := fun e => hne e.symm
  cases k <;>
    simp [phase, runTo, quiet, step_mkdir hpc, hd, hk, step_scanAll, step_scan, step_scan2, step_create, setPC, hf,
      hl, exFiles, parentHolds, hne']

/-- an exclusive request meets an existing directory that is not just its parent's: refused (retry later, or raise) -/
theorem acquire_ex_refused {l : Nat} (hpc : s.pc i = .mkdir l) (hd : s.dir = true) (hk : s.kind i = .ex)
    (hp : parentHolds (s.lp i) s.files = false) :
    phase s i = setPC s i (match l with | 0 => .failedAcq .runtime | n + 1 => .mkdir n) := by
  cases l with
  | zero => simp [phase, runTo, quiet, step_mkdir hpc, hd, hk, step_scanAll, step_scanMsg_zero, setPC, hp]
  | succ n => simp [phase, runTo, quiet, step_mkdir hpc, hd, hk, step_scanAll, step_scanMsg_succ, setPC, hp]

/-- a shared request, no exclusive lock file: joins -/
theorem acquire_sh_join {l : Nat} (hpc : s.pc i = .mkdir l) (hd : s.dir = true) (hk : s.kind i = .sh)
    (hn : exFiles s.files = []) (hnm : (Kind.sh, i) ∉ s.files) :
    phase s i = { s with files := (.sh, i) :: s.files, pc := upd s.pc i .hold } := by
  simp [phase, runTo, quiet, step_mkdir hpc, hd, hk, step_existsChk, step_scan, step_create, setPC, hn, hnm]

/-- a shared request, the one exclusive lock file belongs to `$EUPS_LOCK_PID`: re-entry -/
theorem acquire_sh_reenter {l : Nat} {q : Pid} (hpc : s.pc i = .mkdir l) (hd : s.dir = true) (hk : s.kind i = .sh)
    (hn : exFiles s.files = [(.ex, q)]) (hl : s.lp i = some q) (hnm : (Kind.sh, i) ∉ s.files) :
    phase s i = { s with files := (.sh, i) :: s.files, pc := upd s.pc i .hold } := by
  simp [phase, runTo, quiet, step_mkdir hpc, hd, hk, step_existsChk, step_scan, step_scan2, step_create, setPC, hn,
    hl, hnm]

/-- a shared request, an exclusive lock file that is not its parent's (or several): refused -/
theorem acquire_sh_refused {l : Nat} (hpc : s.pc i = .mkdir l) (hd : s.dir = true) (hk : s.kind i = .sh)
    (hn : exFiles s.files ≠ []) (hnp : ∀ q, exFiles s.files = [(.ex, q)] → s.lp i ≠ some q) :
    phase s i = setPC s i (.failedAcq .runtime) := by
  cases hx : exFiles s.files with
  | nil => exact absurd hx hn
  | cons a rest =>
    have ha : a.1 = .ex := by
      have : a ∈ exFiles s.files := by rw [hx]; simp
      simpa [exFiles] using (List.mem_filter.mp this).2
    cases rest with
    | nil =>
      have : a = (.ex, a.2) := by cases a; simp_all
      have hq := hnp a.2 (by rw [hx, ← this])
      simp [phase, runTo, quiet, step_mkdir hpc, hd, hk, step_existsChk, step_scan, step_scan2, setPC, hx, hq]
    | cons b rest2 =>
      simp [phase, runTo, quiet, step_mkdir hpc, hd, hk, step_existsChk, step_scan, setPC, hx]

/-- release by a holder whose file is there -/
theorem release_eq (hpc : s.pc i = .hold) (hd : s.dir = true) (hm : (s.kind i, i) ∈ s.files) :
    phase s i =
      { s with dir := !(s.files.filter (· != (s.kind i, i))).isEmpty,
               files := s.files.filter (· != (s.kind i, i)),
               pc := upd s.pc i .done } := by
  by_cases he : (s.files.filter (· != (s.kind i, i))) = []
  · simp [phase, runTo, quiet, step_hold hpc, step_isdir, step_rexists, step_remove, step_count, step_rmdir,
      setPC, hd, hm, he]
  · simp [phase, runTo, quiet, step_hold hpc, step_isdir, step_rexists, step_remove, step_count,
      setPC, hd, hm, he]

end closed

/-! ### the invariant between phases -/

/-- program counters seen between non-overlapping phases -/
def resting : PC → Bool
  | .mkdir _ | .hold | .done | .failedAcq .runtime => true
  | _ => false

structure AInv (s : St) : Prop where
  rest   : ∀ i, resting (s.pc i) = true
  files  : ∀ k i, (k, i) ∈ s.files ↔ (s.pc i = .hold ∧ s.kind i = k)
  nodup  : s.files.Nodup
  dirIff : s.dir = true ↔ s.files ≠ []
  mutex  : ∀ i j, s.pc i = .hold → s.pc j = .hold → s.kind i = .ex → i ≠ j → related s i j

theorem ainv_init (kind : Pid → Kind) (lp : Pid → Option Pid) (tries : Pid → Nat) : AInv (init kind lp tries) := by
  constructor <;> simp [init, resting]


namespace AInv
variable {s : St}

theorem holds_of_mem (h : AInv s) {k : Kind} {j : Pid} (hm : (k, j) ∈ s.files) : s.pc j = .hold ∧ s.kind j = k :=
  (h.files k j).mp hm

theorem mem_of_holds (h : AInv s) {j : Pid} (hj : s.pc j = .hold) : (s.kind j, j) ∈ s.files :=
  (h.files _ j).mpr ⟨hj, rfl⟩

theorem files_nil_of_noDir (h : AInv s) (hd : s.dir = false) : s.files = [] := by
  cases hfs : s.files with
  | nil => rfl
  | cons x xs => have := h.dirIff.mpr (by simp [hfs]); rw [hd] at this; exact absurd this (by simp)

/-- a process that does not hold moves to another resting point that is not `hold` -/
theorem setPC_nonhold (h : AInv s) (i : Pid) (v : PC) (hi : s.pc i ≠ .hold) (hv : v ≠ .hold)
    (hr : resting v = true) : AInv (setPC s i v) := by
  refine ⟨?_, ?_, h.nodup, h.dirIff, ?_⟩
  · intro j; by_cases hj : j = i
    · subst hj; simpa [setPC] using hr
    · simpa [setPC, upd, hj] using h.rest j
  · intro k j; by_cases hj : j = i
    · subst hj
      simp only [setPC_files, setPC_pc, upd_same, setPC_kind]
      constructor
      · intro hm; exact absurd (h.holds_of_mem hm).1 hi
      · intro hh; exact absurd hh.1 hv
    · simpa [setPC, upd, hj] using h.files k j
  · intro a b ha hb hka hab
    have ha' : a ≠ i := by intro e; subst e; simp [setPC] at ha; exact hv ha
    have hb' : b ≠ i := by intro e; subst e; simp [setPC] at hb; exact hv hb
    simp [setPC, upd, ha'] at ha; simp [setPC, upd, hb'] at hb
    exact h.mutex a b ha hb hka hab

/-- a process that does not hold obtains the lock: its file is added; the directory exists afterwards.
Condition: every holder it must exclude (one of the two exclusive) is related to it. -/
theorem grant (h : AInv s) (i : Pid) (hi : s.pc i ≠ .hold)
    (hc : ∀ j, s.pc j = .hold → (s.kind i = .ex ∨ s.kind j = .ex) → related s i j) :
    AInv { s with dir := true, files := (s.kind i, i) :: s.files, pc := upd s.pc i .hold } := by
  have hni : ∀ k, (k, i) ∉ s.files := fun k hm => hi (h.holds_of_mem hm).1
  refine ⟨?_, ?_, ?_, ?_, ?_⟩
  · intro j; by_cases hj : j = i
    · subst hj; simp [resting]
    · simpa [upd, hj] using h.rest j
  · intro k j
    simp only [List.mem_cons]
    by_cases hj : j = i
    · subst hj
      simp only [upd_same, true_and]
      constructor
      · rintro (he | hm)
        · simp only [Prod.mk.injEq] at he; exact he.1.symm
        · exact absurd hm (hni k)
      · intro e; left; rw [e]
    · simp only [upd, hj, if_false]
      constructor
      · rintro (he | hm)
        · simp only [Prod.mk.injEq] at he; exact absurd he.2 hj
        · exact (h.files k j).mp hm
      · intro hh; right; exact (h.files k j).mpr hh
  · exact List.nodup_cons.mpr ⟨hni _, h.nodup⟩
  · simp
  · intro a b ha hb hka hab
    by_cases haa : a = i
    · subst haa
      have hbb : b ≠ a := fun e => hab e.symm
      simp [upd, hbb] at hb
      exact hc b hb (Or.inl hka)
    · simp [upd, haa] at ha
      by_cases hbb : b = i
      · subst hbb
        have := hc a ha (Or.inr hka)
        exact this.symm
      · simp [upd, hbb] at hb
        exact h.mutex a b ha hb hka hab

/-- a holder releases -/
theorem release (h : AInv s) (i : Pid) :
    AInv { s with dir := !(s.files.filter (· != (s.kind i, i))).isEmpty,
                  files := s.files.filter (· != (s.kind i, i)),
                  pc := upd s.pc i .done } := by
  refine ⟨?_, ?_, ?_, ?_, ?_⟩
  · intro j; by_cases hj : j = i
    · subst hj; simp [resting]
    · simpa [upd, hj] using h.rest j
  · intro k j
    simp only [List.mem_filter]
    by_cases hj : j = i
    · subst hj
      simp only [upd_same]
      constructor
      · rintro ⟨hmem, hne⟩
        have := (h.files k j).mp hmem
        rw [← this.2] at hne; simp at hne
      · intro hh; simp at hh
    · simp only [upd, hj, if_false]
      constructor
      · rintro ⟨hmem, _⟩; exact (h.files k j).mp hmem
      · intro hh; exact ⟨(h.files k j).mpr hh, by simp [hj]⟩
  · exact h.nodup.filter _
  · simp
  · intro a b ha hb hka hab
    have ha' : a ≠ i := by intro e; subst e; simp at ha
    have hb' : b ≠ i := by intro e; subst e; simp at hb
    simp [upd, ha'] at ha; simp [upd, hb'] at hb
    exact h.mutex a b ha hb hka hab

end AInv

theorem related_symm {s : St} {i j : Pid} (h : related s i j) : related s j i := Or.symm h

/-- a member of the "exclusive*" listing is an exclusive holder's file -/
theorem mem_exFiles {fs : List (Kind × Pid)} {f : Kind × Pid} : f ∈ exFiles fs ↔ f ∈ fs ∧ f.1 = .ex := by
  simp [exFiles]

theorem ainv_phase (s : St) (h : AInv s) (i : Pid) : AInv (phase s i) := by
  have hr := h.rest i
  cases hpc : s.pc i with
  | mkdir l =>
    have hi : s.pc i ≠ .hold := by rw [hpc]; simp
    have hni : ∀ k, (k, i) ∉ s.files := fun k hm => hi (h.holds_of_mem hm).1
    by_cases hd : s.dir = true
    · cases hk : s.kind i with
      | ex =>
        by_cases hp : parentHolds (s.lp i) s.files = true
        · obtain ⟨k, q, hf, hl⟩ := parentHolds_iff.mp hp
          have hqi : q ≠ i := by intro e; subst e; exact hni k (by rw [hf]; simp)
          rw [acquire_ex_reenter hpc hd hk hf hl hqi]
          have := h.grant i hi (by
            intro j hj _
            have hm := h.mem_of_holds hj
            rw [hf] at hm; simp at hm
            exact Or.inl (by rw [hl, hm.2]))
          simpa [hd, hk] using this
        · have hp' : parentHolds (s.lp i) s.files = false := by simpa using hp
          rw [acquire_ex_refused hpc hd hk hp']
          apply h.setPC_nonhold i _ hi
          · cases l <;> simp
          · cases l <;> simp [resting]
      | sh =>
        by_cases hn : exFiles s.files = []
        · rw [acquire_sh_join hpc hd hk hn (hni _)]
          have := h.grant i hi (by
            intro j hj hor
            rcases hor with hor | hor
            · rw [hk] at hor; exact absurd hor (by simp)
            · have hm := h.mem_of_holds hj
              rw [hor] at hm
              have : (Kind.ex, j) ∈ exFiles s.files := mem_exFiles.mpr ⟨hm, rfl⟩
              rw [hn] at this; simp at this)
          simpa [hd, hk] using this
        · by_cases hre : ∃ q, exFiles s.files = [(.ex, q)] ∧ s.lp i = some q
          · obtain ⟨q, hx, hl⟩ := hre
            rw [acquire_sh_reenter hpc hd hk hx hl (hni _)]
            have := h.grant i hi (by
              intro j hj hor
              rcases hor with hor | hor
              · rw [hk] at hor; exact absurd hor (by simp)
              · have hm := h.mem_of_holds hj
                rw [hor] at hm
                have : (Kind.ex, j) ∈ exFiles s.files := mem_exFiles.mpr ⟨hm, rfl⟩
                rw [hx] at this; simp at this
                exact Or.inl (by rw [hl, this]))
            simpa [hd, hk] using this
          · rw [acquire_sh_refused hpc hd hk hn (by
              intro q hx hl; exact hre ⟨q, hx, hl⟩)]
            exact h.setPC_nonhold i _ hi (by simp) (by simp [resting])
    · have hd' : s.dir = false := by simpa using hd
      have hf := h.files_nil_of_noDir hd'
      rw [acquire_free hpc hd' hf]
      have := h.grant i hi (by
        intro j hj _
        have hm := h.mem_of_holds hj
        rw [hf] at hm; simp at hm)
      simpa [hf] using this
  | hold =>
    have hm := h.mem_of_holds hpc
    have hd : s.dir = true := h.dirIff.mpr (by intro e; rw [e] at hm; simp at hm)
    rw [release_eq hpc hd hm]
    exact h.release i
  | done => rw [phase_idle (Or.inl hpc)]; exact h
  | failedAcq e => rw [phase_idle (Or.inr ⟨e, hpc⟩)]; exact h
  | existsChk => rw [hpc] at hr; simp [resting] at hr
  | scanAll l => rw [hpc] at hr; simp [resting] at hr
  | scanMsg l => rw [hpc] at hr; simp [resting] at hr
  | scan => rw [hpc] at hr; simp [resting] at hr
  | scan2 => rw [hpc] at hr; simp [resting] at hr
  | create => rw [hpc] at hr; simp [resting] at hr
  | unlocked => rw [hpc] at hr; simp [resting] at hr
  | isdir => rw [hpc] at hr; simp [resting] at hr
  | rexists => rw [hpc] at hr; simp [resting] at hr
  | remove => rw [hpc] at hr; simp [resting] at hr
  | count => rw [hpc] at hr; simp [resting] at hr
  | rmdir => rw [hpc] at hr; simp [resting] at hr
  | failedRel e => rw [hpc] at hr; simp [resting] at hr

theorem ainv_phases (s : St) (h : AInv s) (ps : List Pid) : AInv (ps.foldl phase s) := by
  induction ps generalizing s with
  | nil => exact h
  | cons i r ih => exact ih _ (ainv_phase s h i)

/-- a phase of `i` changes nobody else's program counter -/
theorem phase_pc_other (s : St) (i j : Pid) (h : j ≠ i) : (phase s i).pc j = s.pc j := by
  obtain ⟨n, hn⟩ := phase_is_run s i
  rw [hn]; exact run_replicate_pc_other s i j n h

@[simp] theorem phase_kind (s : St) (i : Pid) : (phase s i).kind = s.kind := by
  obtain ⟨n, hn⟩ := phase_is_run s i
  rw [hn]; simp

@[simp] theorem phase_lp (s : St) (i : Pid) : (phase s i).lp = s.lp := by
  obtain ⟨n, hn⟩ := phase_is_run s i
  rw [hn]; simp

end EupsModel.Lock
