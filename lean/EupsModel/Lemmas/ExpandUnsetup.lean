import EupsModel.Lemmas.Expand
/-! The repair of D73 at the level of the text: a line `unsetupRequired(args)` / `unsetupOptional(args)` is, for every
argument text without quote, parenthesis, `#` and newline, kept by the reader exactly as written and registers no product. -/
set_option linter.unusedSimpArgs false
namespace EupsModel.Expand
open EupsModel

def unName (opt : Bool) : Str := [117, 110] ++ cmdName opt

theorem takeWhile_all {p : Nat → Bool} {l : List Nat} (h : ∀ x ∈ l, p x = true) : l.takeWhile p = l := by
  induction l with
  | nil => rfl
  | cons a r ih => simp [List.takeWhile_cons, h a (by simp), ih (fun x hx => h x (by simp [hx]))]

theorem lastIdx_none {c : Nat} {l : Str} (h : c ∉ l) : lastIdx c l = none := by
  induction l with
  | nil => rfl
  | cons a r ih =>
    have ha : a ≠ c := fun e => h (by simp [e])
    have hr : c ∉ r := fun m => h (by simp [m])
    simp [lastIdx, ih hr, ha]

theorem lastIdx_append {c : Nat} (xs : Str) {ys : Str} (hy : c ∉ ys) : lastIdx c (xs ++ c :: ys) = some xs.length := by
  induction xs with
  | nil => simp [lastIdx, lastIdx_none hy]
  | cons a r ih => simp [lastIdx, ih]

theorem bodyMatch_plain {args : Str} (hq : 34 ∉ args) :
    bodyMatch (args ++ [41, 10]) = some (args, args.length + 1) := by
  have hall : ∀ x ∈ args ++ [41, 10], (x != cQuote) = true := by
    intro x hx
    simp only [List.mem_append, List.mem_cons, List.mem_singleton, List.not_mem_nil, or_false] at hx
    rcases hx with hx | rfl | rfl
    · have : x ≠ 34 := fun e => hq (e ▸ hx)
      simpa [cQuote] using this
    · decide
    · decide
  unfold bodyMatch
  simp only [takeWhile_all hall, List.drop_length]
  have hl : lastIdx cRpar (args ++ [41, 10]) = some args.length :=
    lastIdx_append (c := cRpar) args (ys := [10]) (by decide)
  simp only [hl]
  simp

theorem matchSetupAt_plain (opt : Bool) {args : Str} (hq : 34 ∉ args) :
    matchSetupAt (cmdName opt ++ [40] ++ args ++ [41, 10]) = some ⟨opt, args, 14 + (args.length + 1), false⟩ := by
  have hhead : ∀ r, (args ++ [41, 10]) ≠ 34 :: r := by
    intro r e
    cases args with
    | nil => simp at e
    | cons a tl =>
      simp only [List.cons_append, List.cons.injEq] at e
      exact hq (by simp [e.1])
  have hb := bodyMatch_plain hq
  cases opt with
  | false =>
    have e : cmdName false ++ [40] ++ args ++ [41, 10] = sReqP ++ (args ++ [41, 10]) := by
      rw [show sReqP = cmdName false ++ [40] by decide]; simp [List.append_assoc]
    rw [e]
    unfold matchSetupAt
    have hp1 : sReqP.isPrefixOf (sReqP ++ (args ++ [41, 10])) = true := by simp
    have hd : (sReqP ++ (args ++ [41, 10])).drop 14 = args ++ [41, 10] := by rw [sReqP_eq]; rfl
    simp only [hp1, if_true, hd]
    simp [hb]
  | true =>
    have e : cmdName true ++ [40] ++ args ++ [41, 10] = sOptP ++ (args ++ [41, 10]) := by
      rw [show sOptP = cmdName true ++ [40] by decide]; simp [List.append_assoc]
    rw [e]
    unfold matchSetupAt
    have hp0 : sReqP.isPrefixOf (sOptP ++ (args ++ [41, 10])) = false := by rw [sReqP_eq, sOptP_eq]; rfl
    have hp1 : sOptP.isPrefixOf (sOptP ++ (args ++ [41, 10])) = true := by simp
    have hd : (sOptP ++ (args ++ [41, 10])).drop 14 = args ++ [41, 10] := by rw [sOptP_eq]; rfl
    simp only [hp0, hp1, Bool.false_eq_true, if_false, if_true, hd]
    simp [hb]

/-- the line `unsetupX(args)` followed by a newline: `u`, then `tailOf`, then the newline -/
def tailOf (opt : Bool) (args : Str) : Str := 110 :: (cmdName opt ++ [40] ++ args ++ [41])
def unsetupLine (opt : Bool) (args : Str) : Str := 117 :: (tailOf opt args ++ [10])

theorem cmdName_length (opt : Bool) : (cmdName opt).length = 13 := by cases opt <;> decide

theorem tailOf_length (opt : Bool) (args : Str) : (tailOf opt args).length + 1 = 14 + (args.length + 1) + 2 := by
  simp only [tailOf, List.length_cons, List.length_append, cmdName_length, List.length_nil]
  omega

theorem matchRexAt_unsetupLine (opt : Bool) {args : Str} (hq : 34 ∉ args) :
    matchRexAt (unsetupLine opt args) = some ⟨false, args, (tailOf opt args).length + 1, true⟩ := by
  have e : unsetupLine opt args = 117 :: 110 :: (cmdName opt ++ [40] ++ args ++ [41, 10]) := by
    simp [unsetupLine, tailOf, List.append_assoc]
  rw [e, tailOf_length]
  unfold matchRexAt
  simp only [matchSetupAt_plain opt hq, Option.map_some]

theorem subGo_skip (A : Answers) (o : Opts) : ∀ (xs ys : Str), subGo A o xs.length (xs ++ ys) = subGo A o 0 ys := by
  intro xs
  induction xs with
  | nil => intro ys; rfl
  | cons a r ih => intro ys; simp only [List.length_cons, List.cons_append, subGo]; exact ih ys

theorem take_len_append (xs ys : Str) : (xs ++ ys).take xs.length = xs := by
  induction xs with
  | nil => simp
  | cons a r ih => simp [ih]

theorem tailOf_chars (opt : Bool) {args : Str} (hh : 35 ∉ args) (hn : 10 ∉ args) :
    ∀ x ∈ 117 :: tailOf opt args, x ≠ 35 ∧ x ≠ 10 := by
  have hc : ∀ x ∈ cmdName opt, x ≠ 35 ∧ x ≠ 10 := by cases opt <;> decide
  intro x hx
  simp only [tailOf, List.mem_cons, List.mem_append, List.mem_singleton, List.not_mem_nil, or_false] at hx
  rcases hx with rfl | rfl | ((hx | rfl) | hx) | rfl
  · decide
  · decide
  · exact hc x hx
  · decide
  · exact ⟨fun e => hh (e ▸ hx), fun e => hn (e ▸ hx)⟩
  · decide

/-- **An unsetup line is kept as written and names no product** — for every argument text without a double quote, `#` or
newline (parentheses, blanks, flags, versions, anything else allowed), whatever the environment answers. -/
theorem classify_unsetupLine (A : Answers) (o : Opts) (opt : Bool) {args : Str} (hq : 34 ∉ args) (hh : 35 ∉ args) (hn : 10 ∉ args) :
    classify A o (unsetupLine opt args) = .ok (.setup (unsetupLine opt args) none) := by
  have hm := matchRexAt_unsetupLine opt hq
  have hchars := tailOf_chars opt hh hn
  -- not blank, no comment
  have hblank : isBlankOrComment (unsetupLine opt args) = false := by
    simp [isBlankOrComment, lstrip, unsetupLine, List.dropWhile_cons, Str.isSpace, cHash]
  have hstrip : stripComment (unsetupLine opt args) = unsetupLine opt args := by
    have hrev : (unsetupLine opt args).reverse = 10 :: (117 :: tailOf opt args).reverse := by
      simp [unsetupLine, List.reverse_append]
    have hall : ∀ x ∈ 117 :: tailOf opt args, (x != cHash) = true := fun x hx => by
      have := (hchars x hx).1; simpa [cHash] using this
    unfold stripComment
    simp only [hrev, List.reverse_reverse, takeWhile_all hall, beq_self_eq_true, if_true]
  -- the substitution leaves the line alone
  have hsub : subAll A o (unsetupLine opt args) = .ok (unsetupLine opt args) := by
    unfold subAll
    show subGo A o 0 (117 :: (tailOf opt args ++ [10])) = _
    have hm' : matchRexAt (117 :: (tailOf opt args ++ [10])) = some ⟨false, args, (tailOf opt args).length + 1, true⟩ := hm
    have hrest : subGo A o (tailOf opt args).length (tailOf opt args ++ [10]) = .ok [10] := by
      rw [subGo_skip]; rfl
    simp only [subGo, hm', if_true, Nat.add_sub_cancel, hrest, bind, Except.bind, pure, Except.pure]
    have : List.take ((tailOf opt args).length + 1) (117 :: (tailOf opt args ++ [10])) = 117 :: tailOf opt args := by
      simp [List.take_succ_cons, take_len_append]
    rw [this]; simp [unsetupLine]
  have hsearch : searchRex (unsetupLine opt args) = some ⟨false, args, (tailOf opt args).length + 1, true⟩ := by
    show searchRex (117 :: (tailOf opt args ++ [10])) = _
    unfold searchRex
    have hm' : matchRexAt (117 :: (tailOf opt args ++ [10])) = some ⟨false, args, (tailOf opt args).length + 1, true⟩ := hm
    simp only [hm']
  unfold classify
  simp [hblank, hstrip, hsub, hsearch, bind, Except.bind, pure, Except.pure]

end EupsModel.Expand
