import EupsModel.Lemmas.SetupFrame
import EupsModel.Lemmas.SetupKeep
import EupsModel.Lemmas.SetupInverse
/-! Line-by-line reasoning about one table (round 3): an environment invariant goes through `acts` when every
non-dependency action keeps it and every dependency *line* of the list keeps it (`acts_lines`) — no closure condition
over the other declared versions of the product, unlike `acts_subj`.  Instances:

* `install_top_record_noSelf`: a successful top-level request leaves the chosen product recorded provided the requested
  *name* is not reachable from itself (the weakest static reading of "the requested product is not requested again in
  another version along the traversal"); `NameDag` is not needed (C01 clauses 4/5).
* `unwind_sameFor`: unwinding the set-up version `sd` touches only what the dependency lines of `sd`'s own table reach
  (C04 keep: the exact complement of D21's class). -/
namespace EupsModel.Setup

theorem acts_lines (cfg : Cfg) (P : Env → Prop) (rec : Rec) (hal : AlOK cfg rec) (fwd : Bool) (k : Nat)
    (noRec : Bool) (vro : List VroEnt) (d : Decl) (l : List Act)
    (happly : ∀ a ∈ l, ∀ s : St, P s.env → P (a.apply fwd d.prod s).env)
    (hline : ∀ n o j v x t kl, Act.dep n o j v x t kl ∈ l → cfg.maxDepth ≠ some k →
      ∀ vro' ver' vx' (s s' : St), AlreadyOK cfg.db s.already → P s.env →
        rec fwd (k + 1) j vro' n ver' vx' s = .ok s' → P s'.env) :
    ∀ s s', AlreadyOK cfg.db s.already → P s.env → acts rec cfg fwd k noRec vro d l s = .ok s' → P s'.env := by
  induction l with
  | nil => intro s s' _ hp h; simp [acts] at h; subst h; exact hp
  | cons a rest ih =>
    have happly' : ∀ a ∈ rest, ∀ s : St, P s.env → P (a.apply fwd d.prod s).env :=
      fun a hm => happly a (List.mem_cons_of_mem _ hm)
    have hline' : ∀ n o j v x t kl, Act.dep n o j v x t kl ∈ rest → cfg.maxDepth ≠ some k →
        ∀ vro' ver' vx' (s s' : St), AlreadyOK cfg.db s.already → P s.env →
          rec fwd (k + 1) j vro' n ver' vx' s = .ok s' → P s'.env :=
      fun n o j v x t kl hm => hline n o j v x t kl (List.mem_cons_of_mem _ hm)
    intro s s' ha hp h
    by_cases hdep : ∃ n o j v x t kl, a = .dep n o j v x t kl
    · obtain ⟨n, o, j, v, x, t, kl, rfl⟩ := hdep
      simp only [acts] at h
      split at h
      · exact ih happly' hline' s s' ha hp h
      · rename_i hgo
        have hmd : cfg.maxDepth ≠ some k := by
          intro e; apply hgo; simp [e]
        split at h
        · rename_i s1 hr
          exact ih happly' hline' s1 s' (hal _ _ _ _ _ _ _ _ _ ha (by rw [hr]; rfl))
            (hline n o j v x t kl List.mem_cons_self hmd _ _ _ s s1 ha hp hr) h
        · cases h
        · rename_i s1 hr
          have h1 : AlreadyOK cfg.db s1.already := hal _ _ _ _ _ _ _ _ _ ha (by rw [hr]; rfl)
          split at h
          · cases h
          · exact ih happly' hline' ⟨s.env, s.aliases, s.unaliased, s1.already, s1.cache⟩ s' h1 hp h
        · rename_i s1 hr
          have h1 : AlreadyOK cfg.db s1.already := hal _ _ _ _ _ _ _ _ _ ha (by rw [hr]; rfl)
          split at h
          · cases h
          · exact ih happly' hline' ⟨s.env, s.aliases, s.unaliased, s1.already, s1.cache⟩ s' h1 hp h
    · have hnd : ∀ n o j v x t kl, a ≠ .dep n o j v x t kl := fun n o j v x t kl e => hdep ⟨n, o, j, v, x, t, kl, e⟩
      rw [acts_cons_nondep rec cfg fwd k noRec vro d a rest s hnd] at h
      exact ih happly' hline' _ s' (by simpa using ha) (happly a List.mem_cons_self s hp) h

/-- `m` is reachable from the dependency lines of the table of the declared version `d` (first edge: a line of `d`'s
own table, under any guard; further edges: lines of any declared version) -/
def ReachFrom (db : Db) (d : Decl) (m : Name) : Prop :=
  ∃ g n o j v x t kl k, (g, Act.dep n o j v x t kl) ∈ d.table ∧ Within db n k m

/-- the requested name is not reachable from itself through one or more dependency lines -/
def NoSelfReach (db : Db) (n : Name) : Prop := ∀ k, ¬ Within db n (k + 1) n

theorem within_trans (db : Db) (a b c : Name) (k1 : Nat) (h1 : Within db a k1 b) :
    ∀ k2, Within db b k2 c → Within db a (k1 + k2) c := by
  intro k2 h2
  induction h2 with
  | root => exact h1
  | step _ hd hn hg ih => exact Within.step ih hd hn hg

theorem reachFrom_within (db : Db) (d : Decl) (hd : d ∈ db.decls) (m : Name) (h : ReachFrom db d m) :
    ∃ k, Within db d.name (k + 1) m := by
  obtain ⟨g, n, o, j, v, x, t, kl, k, hg, hw⟩ := h
  have h1 : Within db d.name 1 n := Within.step Within.root hd rfl hg
  exact ⟨k, by have := within_trans db d.name n m 1 h1 k hw; rwa [Nat.add_comm] at this⟩

/-- `NameDag` gives `NoSelfReach` for every name -/
theorem noSelfReach_of_nameDag (db : Db) (rank : Name → Nat) (hdag : NameDag db rank) (n : Name) : NoSelfReach db n := by
  have key : ∀ k m, Within db n k m → rank m + k ≤ rank n := by
    intro k m hw
    induction hw with
    | root => omega
    | step _ hd hn hg ih =>
      have := hdag _ hd _ _ _ _ _ _ _ _ hg
      rw [hn] at this
      omega
  intro k hw
  have := key _ _ hw
  omega

/-- everything done for a dependency line naming `n` keeps what belongs to a name `m` that `n` does not reach -/
theorem line_sameFor (cfg : Cfg) (n m : Name) (hm : ∀ k, ¬ Within cfg.db n k m) (e0 : Env) (fuel : Nat)
    (fwd : Bool) (k : Nat) (noRec : Bool) (vro : List VroEnt) (ver : Option VerReq) (vx : Option VExpr) (s s' : St)
    (ha : AlreadyOK cfg.db s.already) (hp : SameFor m e0 s.env)
    (h : setup cfg fuel fwd k noRec vro n ver vx s = .ok s') : SameFor m e0 s'.env :=
  setup_subjInv cfg (fun _ x => ∃ k, Within cfg.db n k x) (SameFor m e0) (within_closedAt_unbounded cfg n)
    (sameFor_subjInv cfg _ m (fun _ ⟨k, hk⟩ => hm k hk) e0) fuel fwd k noRec vro n ver vx s s' ⟨0, Within.root⟩ ha hp h

/-- the table of `d` runs (either direction) without touching what belongs to a name `m ≠ d.name` that the dependency
lines of `d`'s table do not reach -/
theorem acts_sameFor (cfg : Cfg) (fuel : Nat) (fwd : Bool) (k : Nat) (noRec : Bool) (vro : List VroEnt) (d : Decl)
    (m : Name) (hne : m ≠ d.name) (hm : ¬ ReachFrom cfg.db d m) (e0 : Env) (s s' : St)
    (ha : AlreadyOK cfg.db s.already) (hp : SameFor m e0 s.env)
    (h : acts (setup cfg fuel) cfg fwd k noRec vro d (d.actions cfg.exact) s = .ok s') : SameFor m e0 s'.env := by
  refine acts_lines cfg (SameFor m e0) (setup cfg fuel) (setup_alOK cfg fuel) fwd k noRec vro d (d.actions cfg.exact)
    ?_ ?_ s s' ha hp h
  · intro a _ s0 hp0
    have hne' : d.prod.1 ≠ m := fun e => hne e.symm
    exact ⟨by rw [apply_rec?]; exact hp0.record, by rw [apply_dirs]; exact hp0.dir,
           fun var => by rw [ownPart_apply m fwd d.prod a s0 hne']; exact hp0.path var⟩
  · intro n o j v x t kl hmem _ vro' ver' vx' s0 s1 ha0 hp0 hr
    obtain ⟨g, hg⟩ := mem_actions d cfg.exact _ hmem
    have hnm : ∀ k, ¬ Within cfg.db n k m := fun k hw => hm ⟨g, n, o, j, v, x, t, kl, k, hg, hw⟩
    exact line_sameFor cfg n m hnm e0 fuel fwd (k + 1) j vro' ver' vx' s0 s1 ha0 hp0 hr

/-- a top-level request that succeeds leaves the chosen product recorded — provided its name is not reachable from
itself (no `NameDag` on the rest of the database) -/
theorem install_top_record_noSelf (cfg : Cfg) (fuel : Nat) (noRec : Bool) (vro : List VroEnt) (d : Decl)
    (reason : Option VroEnt) (hc : Canon cfg.db d) (hself : NoSelfReach cfg.db d.name) (s s' : St)
    (ha : AlreadyOK cfg.db s.already)
    (h : install (setup cfg fuel) cfg 0 noRec vro d reason s = .ok s') : s'.env.rec? d.name = some d.ver := by
  have hd : d ∈ cfg.db.decls := (lookup_some cfg.db d.prod d hc).1
  have tail : ∀ s1 : St, AlreadyOK cfg.db s1.already →
      acts (setup cfg fuel) cfg true 0 noRec vro d (d.actions cfg.exact) (record d reason s1) = .ok s' →
      s'.env.rec? d.name = some d.ver := by
    intro s1 h1 hacts
    refine acts_lines cfg (fun e => e.rec? d.name = some d.ver) (setup cfg fuel) (setup_alOK cfg fuel) true 0 noRec vro d
      (d.actions cfg.exact) ?_ ?_ (record d reason s1) s' (alreadyOK_aset cfg.db _ h1 d reason hc)
      (record_rec?_same d reason s1) hacts
    · intro a _ s0 hp0; rw [apply_rec?]; exact hp0
    · intro n o j v x t kl hmem _ vro' ver' vx' s0 s2 ha0 hp0 hr
      obtain ⟨g, hg⟩ := mem_actions d cfg.exact _ hmem
      have hnm : ∀ k, ¬ Within cfg.db n k d.name := by
        intro k hw
        have h1 : Within cfg.db d.name 1 n := Within.step Within.root hd rfl hg
        have := within_trans cfg.db d.name n d.name 1 h1 k hw
        rw [Nat.add_comm] at this
        exact hself k this
      have := line_sameFor cfg n d.name hnm s0.env fuel true 1 j vro' ver' vx' s0 s2 ha0 (SameFor.refl _ _) hr
      rw [this.record]; exact hp0
  have hal := setup_alOK cfg fuel
  unfold install at h
  cases hsp : setupProd cfg.db s.env d.name with
  | none => rw [hsp] at h; exact tail s ha h
  | some sd =>
    rw [hsp] at h
    simp only [Nat.lt_irrefl, gt_iff_lt, decide_false, Bool.and_false, Bool.false_eq_true, if_false] at h
    split at h
    · cases h
    · rename_i s1 hr1
      exact tail s1 (hal _ _ _ _ _ _ _ _ _ ha (by rw [hr1]; rfl)) h
    · rename_i s1 hr1
      exact tail s1 (hal _ _ _ _ _ _ _ _ _ ha (by rw [hr1]; rfl)) h
    · rename_i s1 hr1
      exact tail s1 (hal _ _ _ _ _ _ _ _ _ ha (by rw [hr1]; rfl)) h

/-! ### unsetup direction: `alreadySetupProducts` is not touched and no record appears (every database, no hypothesis) -/

def RecSub (s' s : St) : Prop := s'.already = s.already ∧ ∀ m v, s'.env.rec? m = some v → s.env.rec? m = some v

def UnKeep (rec : Rec) : Prop :=
  ∀ depth noRec vro n ver vexpr s s', (rec false depth noRec vro n ver vexpr s).st? = some s' → RecSub s' s

theorem acts_false_recSub (rec : Rec) (hrec : UnKeep rec) (cfg : Cfg) (depth : Nat) (noRec : Bool) (vro : List VroEnt)
    (d : Decl) (l : List Act) :
    ∀ s s', (acts rec cfg false depth noRec vro d l s).st? = some s' → RecSub s' s := by
  induction l with
  | nil => intro s s' h; simp [acts, Res.st?] at h; subst h; exact ⟨rfl, fun _ _ h => h⟩
  | cons a rest ih =>
    intro s s' h
    by_cases hdep : ∃ n o j v x t kl, a = .dep n o j v x t kl
    · obtain ⟨n, o, j, v, x, t, kl, rfl⟩ := hdep
      simp only [acts] at h
      split at h
      · exact ih s s' h
      · split at h
        · rename_i s1 hr
          obtain ⟨h1, h2⟩ := hrec _ _ _ _ _ _ s s1 (by rw [hr]; rfl)
          obtain ⟨h3, h4⟩ := ih s1 s' h
          exact ⟨h3.trans h1, fun m w hw => h2 m w (h4 m w hw)⟩
        · simp [Res.st?] at h
        · rename_i s1 hr
          simp only [Bool.false_and, Bool.false_eq_true, if_false] at h
          obtain ⟨h1, _⟩ := hrec _ _ _ _ _ _ s s1 (by rw [hr]; rfl)
          obtain ⟨h3, h4⟩ := ih _ s' h
          exact ⟨h3.trans h1, h4⟩
        · rename_i s1 hr
          simp only [Bool.false_and, Bool.false_eq_true, if_false] at h
          obtain ⟨h1, _⟩ := hrec _ _ _ _ _ _ s s1 (by rw [hr]; rfl)
          obtain ⟨h3, h4⟩ := ih _ s' h
          exact ⟨h3.trans h1, h4⟩
    · have hnd : ∀ n o j v x t kl, a ≠ .dep n o j v x t kl := fun n o j v x t kl e => hdep ⟨n, o, j, v, x, t, kl, e⟩
      rw [acts_cons_nondep rec cfg false depth noRec vro d a rest s hnd] at h
      obtain ⟨h3, h4⟩ := ih _ s' h
      exact ⟨by rw [h3, apply_already], fun m w hw => by have := h4 m w hw; rwa [apply_rec?] at this⟩

theorem setup_unKeep (cfg : Cfg) : ∀ fuel, UnKeep (setup cfg fuel) := by
  intro fuel
  induction fuel with
  | zero => intro depth noRec vro n ver vexpr s s' h; simp [setup_zero, Res.st?] at h
  | succ k ih =>
    intro depth noRec vro n ver vexpr s s' h
    rw [setup_succ_false] at h
    cases hsp : setupProd cfg.db s.env n with
    | none => rw [hsp] at h; simp [Res.st?] at h; subst h; exact ⟨rfl, fun _ _ h => h⟩
    | some d =>
      rw [hsp] at h
      obtain ⟨h1, h2⟩ := acts_false_recSub (setup cfg k) ih cfg depth noRec vro d _ _ s' h
      refine ⟨h1, fun m w hw => ?_⟩
      have := h2 m w hw
      exact (aget_aunset_some s.env.recs d.name m w this).1

/-! ### keep at the top level: the exact complement of D21's class -/

/-- With `keep` in the VRO, a successful top-level `install` keeps the record of every product other than the chosen
one — except what the dependency lines of the table of the *set-up version of the requested product* (the one that is
unwound first) reach. -/
theorem install_keep_top (cfg : Cfg) (fuel : Nat) (noRec : Bool) (vro : List VroEnt) (hk : VroEnt.keep ∈ vro) (d : Decl)
    (reason : Option VroEnt) (hc : Canon cfg.db d) (s s' : St) (ha : AlreadyOK cfg.db s.already)
    (hmir : ∀ m v, m ≠ d.name → s.env.rec? m = some v → ∃ d' r', aget s.already m = some (d', r') ∧ d'.ver = v)
    (h : install (setup cfg fuel) cfg 0 noRec vro d reason s = .ok s') :
    ∀ m v, m ≠ d.name → s.env.rec? m = some v →
      (∀ sd, setupProd cfg.db s.env d.name = some sd → ¬ ReachFrom cfg.db sd m) → s'.env.rec? m = some v := by
  have hal := setup_alOK cfg fuel
  have tail : ∀ s1 : St, AlreadyOK cfg.db s1.already →
      (∀ m v, m ≠ d.name → s1.env.rec? m = some v → ∃ d' r', aget s1.already m = some (d', r') ∧ d'.ver = v) →
      acts (setup cfg fuel) cfg true 0 noRec vro d (d.actions cfg.exact) (record d reason s1) = .ok s' →
      ∀ m v, m ≠ d.name → s1.env.rec? m = some v → s'.env.rec? m = some v := by
    intro s1 h1 hm1 hacts m v hne hr
    have hmir1 : Mirror (record d reason s1) := by
      intro m' v' h'
      by_cases hmd : m' = d.name
      · subst hmd
        rw [record_rec?_same] at h'
        exact ⟨d, reason, by simp [record, aget_aset_same], Option.some.inj h'⟩
      · rw [record_rec?_other d reason s1 m' hmd] at h'
        obtain ⟨d', r', hg, hv⟩ := hm1 m' v' hmd h'
        refine ⟨d', r', ?_, hv⟩
        show aget (aset s1.already d.name (d, reason)) m' = _
        rw [aget_aset_other _ _ _ _ hmd]; exact hg
    have hpost := acts_keep cfg (setup cfg fuel) hal (setup_keepSpec cfg fuel) 0 noRec vro hk d (d.actions cfg.exact)
      (record d reason s1) (alreadyOK_aset cfg.db _ h1 d reason hc) hmir1
    rw [hacts] at hpost
    exact hpost.2.1 m v (by rw [record_rec?_other d reason s1 m hne]; exact hr)
  intro m v hne hr hreach
  unfold install at h
  cases hsp : setupProd cfg.db s.env d.name with
  | none => rw [hsp] at h; exact tail s ha hmir h m v hne hr
  | some sd =>
    rw [hsp] at h
    simp only [Nat.lt_irrefl, gt_iff_lt, decide_false, Bool.and_false, Bool.false_eq_true, if_false] at h
    obtain ⟨hcsd, hsdn, _⟩ := setupProd_some cfg.db s.env d.name sd hsp
    have hun : ∀ s1, setup cfg fuel false 0 noRec vro d.name none none s = .ok s1 →
        acts (setup cfg fuel) cfg true 0 noRec vro d (d.actions cfg.exact) (record d reason s1) = .ok s' →
        s'.env.rec? m = some v := by
      intro s1 hr1 hacts
      obtain ⟨hal1, hsub⟩ := setup_unKeep cfg fuel 0 noRec vro d.name none none s s1 (by rw [hr1]; rfl)
      have hsame : SameFor m s.env s1.env := by
        cases fuel with
        | zero => simp [setup_zero] at hr1
        | succ f =>
          rw [setup_succ_false, hsp] at hr1
          simp only at hr1
          refine acts_sameFor cfg f false 0 noRec vro sd m (by rw [hsdn]; exact hne) (hreach sd hsp) s.env
            ⟨{ s.env with dirs := aunset s.env.dirs sd.name, recs := aunset s.env.recs sd.name }, s.aliases, s.unaliased, s.already, s.cache⟩
            s1 ha ?_ hr1
          have hne' : m ≠ sd.name := by rw [hsdn]; exact hne
          refine ⟨?_, ?_, fun _ => rfl⟩
          · show aget (aunset s.env.recs sd.name) m = _
            rw [aget_aunset_other _ _ _ hne']; rfl
          · show aget (aunset s.env.dirs sd.name) m = _
            rw [aget_aunset_other _ _ _ hne']
      refine tail s1 (hal _ _ _ _ _ _ _ _ _ ha (by rw [hr1]; rfl)) ?_ hacts m v hne (by rw [hsame.record]; exact hr)
      intro m' v' hne' hr'
      rw [hal1]
      exact hmir m' v' hne' (hsub m' v' hr')
    split at h
    · cases h
    · rename_i s1 hr1
      exact hun s1 hr1 h
    · rename_i s1 hr1
      have := (setup_unfail cfg fuel 0 noRec vro d.name none none s s1).2 hr1
      rw [hsp] at this; cases this
    · rename_i s1 hr1
      exact absurd hr1 (setup_unfail cfg fuel 0 noRec vro d.name none none s s1).1

/-! ### path variables: what is not owned by a subject is never touched (depth-indexed form of `partBy_subjInv`) -/

theorem partBy_subjInvAt (cfg : Cfg) (S : Nat → Name → Prop) (hown : OwnTables cfg.db) (f : Elem → Bool)
    (hf : ∀ k p rel, S k p.1 → f (.own p rel) = false) (e0 : Env) :
    SubjInv cfg S (fun e => ∀ var, partBy f e var = partBy f e0 var) := by
  refine ⟨?_, fun _ _ _ _ _ _ hp => hp, fun _ _ _ _ _ hp => hp⟩
  intro fwd k d a s hc ha hS hp var
  obtain ⟨hd, g, hg⟩ := canon_table_mem cfg.db d hc cfg.exact a ha
  rw [partBy_apply f fwd d.prod a s ?_ var]
  · exact hp var
  · intro v vals app he val hval
    obtain ⟨rel, rfl⟩ := (hown d hd g a hg).1 v vals app he val hval
    exact hf k d.prod rel hS

/-! ### aliases: an invariant of (`Eups.aliases`, marks for `unset -f`) kept by everything done for a subject -/

/-- `addAlias(key, …)` occurs in the table of a declared version of a name that may be a subject at some depth -/
def AliasOf (db : Db) (S : Nat → Name → Prop) (key : Str) : Prop :=
  ∃ d ∈ db.decls, (∃ k, S k d.name) ∧ ∃ g val, (g, Act.alias key val) ∈ d.table

/-- the key is neither defined nor marked for removal -/
def AliasFree (key : Str) (s : St) : Prop := aget s.aliases key = none ∧ key ∉ s.unaliased

def AliasSpec (cfg : Cfg) (S : Nat → Name → Prop) (key : Str) (rec : Rec) : Prop :=
  ∀ fwd k noRec vro n ver vexpr s s', S k n → AlreadyOK cfg.db s.already → AliasFree key s →
    rec fwd k noRec vro n ver vexpr s = .ok s' → AliasFree key s'

theorem apply_aliasFree (key : Str) (fwd : Bool) (p : Prod) (a : Act) (s : St) (ha : ∀ val, a ≠ .alias key val)
    (h : AliasFree key s) : AliasFree key (a.apply fwd p s) := by
  cases a with
  | prepend var vals app => exact h
  | set var val => exact h
  | dep n o j v x t kl => exact h
  | alias k2 val =>
    have hne : key ≠ k2 := fun e => ha val (by rw [e])
    cases fwd
    · refine ⟨?_, ?_⟩
      · show aget (aunset s.aliases k2) key = none
        rw [aget_aunset_other _ _ _ hne]; exact h.1
      · show key ∉ k2 :: s.unaliased.filter (· ≠ k2)
        intro hm
        rcases List.mem_cons.1 hm with hm | hm
        · exact hne hm
        · exact h.2 (List.mem_filter.1 hm).1
    · refine ⟨?_, h.2⟩
      show aget (aset s.aliases k2 val) key = none
      rw [aget_aset_other _ _ _ _ hne]; exact h.1

theorem acts_aliasFree (cfg : Cfg) (S : Nat → Name → Prop) (key : Str) (hcl : ClosedAt cfg S)
    (hkey : ¬ AliasOf cfg.db S key) (rec : Rec) (hal : AlOK cfg rec) (hrec : AliasSpec cfg S key rec) (fwd : Bool)
    (k : Nat) (noRec : Bool) (vro : List VroEnt) (d : Decl) (hc : Canon cfg.db d) (hS : S k d.name) (l : List Act)
    (hl : ∀ a ∈ l, a ∈ d.actions cfg.exact) :
    ∀ s s', AlreadyOK cfg.db s.already → AliasFree key s → acts rec cfg fwd k noRec vro d l s = .ok s' →
      AliasFree key s' := by
  induction l with
  | nil => intro s s' _ hp h; simp [acts] at h; subst h; exact hp
  | cons a rest ih =>
    have hl' : ∀ a ∈ rest, a ∈ d.actions cfg.exact := fun a hm => hl a (List.mem_cons_of_mem _ hm)
    intro s s' ha hp h
    by_cases hdep : ∃ n o j v x t kl, a = .dep n o j v x t kl
    · obtain ⟨n, o, j, v, x, t, kl, rfl⟩ := hdep
      simp only [acts] at h
      split at h
      · exact ih hl' s s' ha hp h
      · rename_i hgo
        have hmd : cfg.maxDepth ≠ some k := by
          intro e; apply hgo; simp [e]
        obtain ⟨g, hg⟩ := mem_actions d cfg.exact _ (hl _ (List.mem_cons_self))
        have hSn : S (k + 1) n := hcl d (lookup_some cfg.db d.prod d hc).1 k hS hmd g n o j v x t kl hg
        split at h
        · rename_i s1 hr
          exact ih hl' s1 s' (hal _ _ _ _ _ _ _ _ _ ha (by rw [hr]; rfl)) (hrec _ _ _ _ _ _ _ _ _ hSn ha hp hr) h
        · cases h
        · rename_i s1 hr
          have h1 : AlreadyOK cfg.db s1.already := hal _ _ _ _ _ _ _ _ _ ha (by rw [hr]; rfl)
          split at h
          · cases h
          · exact ih hl' ⟨s.env, s.aliases, s.unaliased, s1.already, s1.cache⟩ s' h1 hp h
        · rename_i s1 hr
          have h1 : AlreadyOK cfg.db s1.already := hal _ _ _ _ _ _ _ _ _ ha (by rw [hr]; rfl)
          split at h
          · cases h
          · exact ih hl' ⟨s.env, s.aliases, s.unaliased, s1.already, s1.cache⟩ s' h1 hp h
    · have hnd : ∀ n o j v x t kl, a ≠ .dep n o j v x t kl := fun n o j v x t kl e => hdep ⟨n, o, j, v, x, t, kl, e⟩
      rw [acts_cons_nondep rec cfg fwd k noRec vro d a rest s hnd] at h
      refine ih hl' _ s' (by simpa using ha) (apply_aliasFree key fwd d.prod a s ?_ hp) h
      intro val e
      obtain ⟨g, hg⟩ := mem_actions d cfg.exact _ (hl _ (List.mem_cons_self))
      exact hkey ⟨d, (lookup_some cfg.db d.prod d hc).1, ⟨k, hS⟩, g, val, e ▸ hg⟩

theorem setup_aliasFree (cfg : Cfg) (S : Nat → Name → Prop) (key : Str) (hcl : ClosedAt cfg S)
    (hkey : ¬ AliasOf cfg.db S key) : ∀ fuel, AliasSpec cfg S key (setup cfg fuel) := by
  intro fuel
  induction fuel with
  | zero => intro fwd k noRec vro n ver vexpr s s' _ _ _ h; simp [setup_zero] at h
  | succ f ih =>
    intro fwd k noRec vro n ver vexpr s s' hS ha hp h
    have hal := setup_alOK cfg f
    cases fwd with
    | true =>
      rw [setup_succ_true] at h
      cases hres : resolve cfg.db cfg.path cfg.keep s.already n ver vexpr k vro.length vro with
      | none => rw [hres] at h; cases h
      | error => rw [hres] at h; cases h
      | found d reason =>
        rw [hres] at h
        obtain ⟨hc, hname⟩ := resolve_spec cfg.db cfg.path cfg.keep s.already ha n ver vexpr k _ _ _ _ hres
        try simp only at h
        obtain ⟨hc, hname⟩ := pickDecl_spec cfg.db s.cache d _ hc hname
        revert h hc hname; generalize pickDecl cfg.db s.cache d = d; intro h hc hname
        have hSd : S k d.name := by rw [hname]; exact hS
        have ha0 := register_already cfg k d reason (s.afterResolve cfg k vro n ver vexpr) ha hc
        have hp0 : AliasFree key (register cfg k d reason (s.afterResolve cfg k vro n ver vexpr)) := by
          unfold register St.afterResolve; split <;> exact hp
        revert h ha0 hp0
        generalize register cfg k d reason (s.afterResolve cfg k vro n ver vexpr) = s0
        intro h ha0 hp0
        have tail : ∀ s1 : St, AlreadyOK cfg.db s1.already → AliasFree key s1 →
            acts (setup cfg f) cfg true k noRec vro d (d.actions cfg.exact) (record d reason s1) = .ok s' →
            AliasFree key s' := by
          intro s1 h1 hp1 hacts
          exact acts_aliasFree cfg S key hcl hkey (setup cfg f) hal ih true k noRec vro d hc hSd _ (fun _ hm => hm)
            (record d reason s1) s' (alreadyOK_aset cfg.db _ h1 d reason hc) hp1 hacts
        unfold install at h
        split at h
        · exact tail s0 ha0 hp0 h
        · split at h
          · simp at h; subst h; exact hp0
          · split at h
            · cases h
            · rename_i s1 hr1
              exact tail s1 (hal _ _ _ _ _ _ _ _ _ ha0 (by rw [hr1]; rfl)) (ih _ _ _ _ _ _ _ _ _ hSd ha0 hp0 hr1) h
            · rename_i s1 hr1
              have := setup_notFound_unchanged cfg f false k noRec vro d.name none none s0 s1 hr1
              subst this
              exact tail s1 ha0 hp0 h
            · rename_i s1 hr1
              exact absurd hr1 (setup_unfail cfg f k noRec vro d.name none none s0 s1).1
    | false =>
      rw [setup_succ_false] at h
      cases hsp : setupProd cfg.db s.env n with
      | none => rw [hsp] at h; cases h
      | some d =>
        rw [hsp] at h
        obtain ⟨hc, hname, _⟩ := setupProd_some cfg.db s.env n d hsp
        have hS' : S k d.name := by rw [hname]; exact hS
        exact acts_aliasFree cfg S key hcl hkey (setup cfg f) hal ih false k noRec vro d hc hS' _
          (fun _ hm => hm)
          ⟨{ s.env with dirs := aunset s.env.dirs d.name, recs := aunset s.env.recs d.name }, s.aliases, s.unaliased, s.already, s.cache⟩
          s' ha hp h

/-! ### `setup --type t`: the tables resolved for a list of setup types keep their lines' targets -/

theorem within_withTypes (db : Db) (types : List Str) (top : Name) :
    ∀ k n, Within (db.withTypes types) top k n → Within db top k n := by
  intro k n hw
  induction hw with
  | root => exact Within.root
  | step _ hd hn hg ih =>
    simp only [Db.withTypes, List.mem_map] at hd
    obtain ⟨d0, hd0, rfl⟩ := hd
    simp only [Decl.withTypes, List.mem_map] at hg
    obtain ⟨ga, hga, he⟩ := hg
    obtain ⟨g0, a0⟩ := ga
    simp only [Prod.mk.injEq] at he
    obtain ⟨_, rfl⟩ := he
    exact Within.step ih hd0 hn hga

end EupsModel.Setup
