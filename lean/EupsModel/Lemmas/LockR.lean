import EupsModel.Model.LockR
/-! C09, repaired protocol — the invariant behind `C09_mutex` and `C09_no_residue`, for EVERY configuration (kinds,
`EUPS_LOCK_PID` maps, retries) and EVERY schedule.

`Inv`: a process whose program counter says it has a lock file has one (`own`); every lock file belongs to such a
process (`owner`); files exist only inside the directory (`inDir`); while the directory exists somebody is engaged
with it (`resp`); two unrelated holders are both shared (`excl`).

Why `excl` is preserved needs no history: a requester becomes a holder by a listing taken while its own file is
already there; every holder's file is there as well (`own`); so the listing shows an incompatible unrelated holder
and the requester does not pass. -/
namespace EupsModel.LockR
open EupsModel.Lock (Pid Kind Err exFiles parentHolds)

@[simp] theorem hasFile_afterPC (a : After) : hasFile (afterPC a) = false := by cases a <;> rfl
@[simp] theorem engaged_afterPC (a : After) : engaged (afterPC a) = false := by cases a <;> rfl
theorem afterPC_ne_hold (a : After) : afterPC a ≠ .hold := by cases a <;> simp [afterPC]

theorem hasFile_engaged {pc : PC} (h : hasFile pc = true) : engaged pc = true := by
  cases pc <;> simp_all [hasFile, engaged]

structure Inv (s : St) : Prop where
  own   : ∀ i, hasFile (s.pc i) = true → (s.kind i, i) ∈ s.files
  owner : ∀ f ∈ s.files, f.1 = s.kind f.2 ∧ hasFile (s.pc f.2) = true
  inDir : s.files ≠ [] → s.dir = true
  resp  : s.dir = true → ∃ q, engaged (s.pc q) = true
  excl  : ∀ i j, i ≠ j → s.pc i = .hold → s.pc j = .hold → ¬ related s i j →
            (s.kind i = .ex ∨ s.kind j = .ex) → False

theorem inv_init (kind : Pid → Kind) (lp : Pid → Option Pid) (tries : Pid → Nat) :
    Inv (init kind lp tries) := by
  constructor <;> simp [init, hasFile]

theorem others_nonempty {i : Pid} {lp : Option Pid} {l : List (Kind × Pid)} {f : Kind × Pid}
    (hf : f ∈ l) (h1 : f.2 ≠ i) (h2 : lp ≠ some f.2) : (others i lp l).isEmpty = false := by
  have hm : f ∈ others i lp l := by
    simp only [others, List.mem_filter]
    refine ⟨hf, ?_⟩
    simp [h1, h2]
  cases hl : others i lp l with
  | nil => rw [hl] at hm; simp at hm
  | cons x xs => rfl

namespace Inv
variable {s : St}

theorem noFile (h : Inv s) {p : Pid} (hp : hasFile (s.pc p) = false) : (s.kind p, p) ∉ s.files := by
  intro hm
  have := (h.owner _ hm).2
  simp [hp] at this

theorem fileOwner (h : Inv s) (hf : s.files ≠ []) : ∃ q, hasFile (s.pc q) = true := by
  cases hfs : s.files with
  | nil => exact absurd hfs hf
  | cons x xs => exact ⟨x.2, (h.owner x (by rw [hfs]; simp)).2⟩

/-- the general step: process `p` moves to `v`; directory flag and file list change as given; other people's
files are untouched -/
theorem update (h : Inv s) (p : Pid) (v : PC) (d' : Bool) (fs' : List (Kind × Pid))
    (hother : ∀ f : Kind × Pid, f.2 ≠ p → (f ∈ fs' ↔ f ∈ s.files))
    (hown1 : hasFile v = true → (s.kind p, p) ∈ fs')
    (hown2 : ∀ f ∈ fs', f.2 = p → f.1 = s.kind p ∧ hasFile v = true)
    (hdir : fs' ≠ [] → d' = true)
    (hresp : d' = true → engaged v = true ∨ ∃ q, q ≠ p ∧ engaged (s.pc q) = true)
    (hmx : v = .hold → ∀ j, j ≠ p → s.pc j = .hold → ¬ related s p j →
            (s.kind p = .ex ∨ s.kind j = .ex) → False) :
    Inv { s with dir := d', files := fs', pc := upd s.pc p v } := by
  refine ⟨?_, ?_, hdir, ?_, ?_⟩
  · intro i hi
    by_cases hip : i = p
    · subst hip
      have hi' : hasFile v = true := by simpa using hi
      exact hown1 hi'
    · have hi' : hasFile (s.pc i) = true := by simpa [upd, hip] using hi
      exact (hother (s.kind i, i) hip).2 (h.own i hi')
  · intro f hf
    have hf' : f ∈ fs' := hf
    by_cases hfp : f.2 = p
    · have := hown2 f hf' hfp
      refine ⟨by rw [hfp]; exact this.1, ?_⟩
      show hasFile (upd s.pc p v f.2) = true
      rw [hfp]; simpa using this.2
    · have := h.owner f ((hother f hfp).1 hf')
      refine ⟨this.1, ?_⟩
      show hasFile (upd s.pc p v f.2) = true
      simpa [upd, hfp] using this.2
  · intro hd
    rcases hresp hd with hv | ⟨q, hqp, hq⟩
    · exact ⟨p, by simpa using hv⟩
    · exact ⟨q, by simpa [upd, hqp] using hq⟩
  · intro i j hij hi hj hrel hk
    have hi' : upd s.pc p v i = .hold := hi
    have hj' : upd s.pc p v j = .hold := hj
    have hrel' : ¬ related s i j := hrel
    have hk' : s.kind i = .ex ∨ s.kind j = .ex := hk
    by_cases hip : i = p
    · subst hip
      have hjp : j ≠ i := fun e => hij e.symm
      have hv : v = .hold := by simpa using hi'
      have hj'' : s.pc j = .hold := by simpa [upd, hjp] using hj'
      exact hmx hv j hjp hj'' hrel' hk'
    · have hi'' : s.pc i = .hold := by simpa [upd, hip] using hi'
      by_cases hjp : j = p
      · subst hjp
        have hv : v = .hold := by simpa using hj'
        have hrel'' : ¬ related s j i := fun r => hrel' (Or.symm r)
        exact hmx hv i hip hi'' hrel'' (Or.symm hk')
      · have hj'' : s.pc j = .hold := by simpa [upd, hjp] using hj'
        exact h.excl i j hij hi'' hj'' hrel' hk'

/-- the existing directory has a responsible process other than `p` when `p` is not engaged itself, or when
there is a file and `p` has none -/
theorem respOther (h : Inv s) (p : Pid)
    (hc : engaged (s.pc p) = false ∨ (s.files ≠ [] ∧ hasFile (s.pc p) = false)) (hd : s.dir = true) :
    ∃ q, q ≠ p ∧ engaged (s.pc q) = true := by
  rcases hc with hc | ⟨hf, hp⟩
  · obtain ⟨q, hq⟩ := h.resp hd
    exact ⟨q, by intro e; subst e; simp [hc] at hq, hq⟩
  · obtain ⟨q, hq⟩ := h.fileOwner hf
    exact ⟨q, by intro e; subst e; simp [hp] at hq, hasFile_engaged hq⟩

/-- `p` moves to `v`, nothing else changes -/
theorem move (h : Inv s) (p : Pid) (v : PC)
    (hown1 : hasFile v = true → (s.kind p, p) ∈ s.files)
    (hown2 : (s.kind p, p) ∈ s.files → hasFile v = true)
    (hresp : s.dir = true → engaged v = true ∨ ∃ q, q ≠ p ∧ engaged (s.pc q) = true)
    (hmx : v = .hold → ∀ j, j ≠ p → s.pc j = .hold → ¬ related s p j →
            (s.kind p = .ex ∨ s.kind j = .ex) → False) :
    Inv (setPC s p v) := by
  have := h.update p v s.dir s.files (fun _ _ => Iff.rfl) hown1
    (fun f hf hfp => by
      have h1 := (h.owner f hf).1
      rw [hfp] at h1
      refine ⟨h1, hown2 ?_⟩
      have : f = (s.kind p, p) := Prod.ext h1 hfp
      rw [← this]; exact hf)
    h.inDir hresp hmx
  exact this

end Inv

theorem step_kind (s : St) (p : Pid) : (step s p).kind = s.kind := by
  unfold step
  repeat' split
  all_goals rfl

theorem step_lp (s : St) (p : Pid) : (step s p).lp = s.lp := by
  unfold step
  repeat' split
  all_goals rfl

theorem inv_step (s : St) (p : Pid) (h : Inv s) : Inv (step s p) := by
  have nh : ∀ v : PC, v ≠ .hold → v = .hold → ∀ j, j ≠ p → s.pc j = .hold → ¬ related s p j →
      (s.kind p = .ex ∨ s.kind j = .ex) → False := fun v hv e => absurd e hv
  cases hpc : s.pc p with
  | mkdir left =>
    have hne : engaged (s.pc p) = false := by simp [hpc, engaged]
    have hnf : (s.kind p, p) ∉ s.files := h.noFile (by simp [hpc, hasFile])
    by_cases hd : s.dir = true
    · cases hk : s.kind p with
      | ex =>
        have : step s p = setPC s p (.scanAll left) := by simp [step, hpc, hd, hk]
        rw [this]
        exact h.move p _ (by simp [hasFile]) (fun hm => absurd (hk ▸ hm) hnf)
          (fun hd => Or.inr (h.respOther p (Or.inl hne) hd)) (nh _ (by simp))
      | sh =>
        have : step s p = setPC s p (.create left) := by simp [step, hpc, hd, hk]
        rw [this]
        exact h.move p _ (by simp [hasFile]) (fun hm => absurd (hk ▸ hm) hnf)
          (fun _ => Or.inl rfl) (nh _ (by simp))
    · have hd' : s.dir = false := by simpa using hd
      have : step s p = { s with dir := true, files := s.files, pc := upd s.pc p (.create left) } := by
        simp [step, hpc, hd']
      rw [this]
      exact h.update p _ true s.files (fun _ _ => Iff.rfl) (by simp [hasFile])
        (fun f hf hfp => by
          have h1 := (h.owner f hf).1
          rw [hfp] at h1
          exact absurd (show (s.kind p, p) ∈ s.files by rw [← (Prod.ext h1 hfp : f = (s.kind p, p))]; exact hf) hnf)
        (fun _ => rfl) (fun _ => Or.inl rfl) (nh _ (by simp))
  | scanAll left =>
    have hne : engaged (s.pc p) = false := by simp [hpc, engaged]
    have hnf : (s.kind p, p) ∉ s.files := h.noFile (by simp [hpc, hasFile])
    by_cases hph : parentHolds (s.lp p) s.files = true
    · have : step s p = setPC s p (.create left) := by simp [step, hpc, hph]
      rw [this]
      exact h.move p _ (by simp [hasFile]) (fun hm => absurd hm hnf) (fun _ => Or.inl rfl) (nh _ (by simp))
    · have : step s p = setPC s p (.scanMsg left) := by simp [step, hpc, hph]
      rw [this]
      exact h.move p _ (by simp [hasFile]) (fun hm => absurd hm hnf)
        (fun hd => Or.inr (h.respOther p (Or.inl hne) hd)) (nh _ (by simp))
  | scanMsg left =>
    have hne : engaged (s.pc p) = false := by simp [hpc, engaged]
    have hnf : (s.kind p, p) ∉ s.files := h.noFile (by simp [hpc, hasFile])
    cases left with
    | zero =>
      have : step s p = setPC s p (.failedAcq .runtime) := by simp [step, hpc]
      rw [this]
      exact h.move p _ (by simp [hasFile]) (fun hm => absurd hm hnf)
        (fun hd => Or.inr (h.respOther p (Or.inl hne) hd)) (nh _ (by simp))
    | succ n =>
      have : step s p = setPC s p (.mkdir n) := by simp [step, hpc]
      rw [this]
      exact h.move p _ (by simp [hasFile]) (fun hm => absurd hm hnf)
        (fun hd => Or.inr (h.respOther p (Or.inl hne) hd)) (nh _ (by simp))
  | create left =>
    have hnf : (s.kind p, p) ∉ s.files := h.noFile (by simp [hpc, hasFile])
    by_cases hd : s.dir = true
    · have hc : s.files.contains (s.kind p, p) = false := by simpa using hnf
      have : step s p = { s with dir := s.dir, files := (s.kind p, p) :: s.files, pc := upd s.pc p (.look left) } := by
        simp [step, hpc, hd, hnf]
      rw [this]
      refine h.update p _ s.dir _ ?_ (fun _ => by simp) ?_ (fun _ => hd) (fun _ => Or.inl rfl) (nh _ (by simp))
      · intro f hfp
        constructor
        · intro hm
          rcases List.mem_cons.1 hm with e | hm
          · exact absurd (by rw [e]) hfp
          · exact hm
        · intro hm; exact List.mem_cons_of_mem _ hm
      · intro f hm hfp
        rcases List.mem_cons.1 hm with e | hm
        · subst e; exact ⟨rfl, rfl⟩
        · have h1 := (h.owner f hm).1
          rw [hfp] at h1
          exact absurd (show (s.kind p, p) ∈ s.files by rw [← (Prod.ext h1 hfp : f = (s.kind p, p))]; exact hm) hnf
    · have hd' : s.dir = false := by simpa using hd
      cases left with
      | zero =>
        have : step s p = setPC s p (.failedAcq .enoent) := by simp [step, hpc, hd']
        rw [this]
        exact h.move p _ (by simp [hasFile]) (fun hm => absurd hm hnf) (fun e => absurd e hd) (nh _ (by simp))
      | succ n =>
        have : step s p = setPC s p (.mkdir n) := by simp [step, hpc, hd']
        rw [this]
        exact h.move p _ (by simp [hasFile]) (fun hm => absurd hm hnf) (fun e => absurd e hd) (nh _ (by simp))
  | look left =>
    have hf : (s.kind p, p) ∈ s.files := h.own p (by simp [hpc, hasFile])
    by_cases he : (others p (s.lp p) (lookList (s.kind p) s.files)).isEmpty = true
    · have : step s p = setPC s p .hold := by simp [step, hpc, he]
      rw [this]
      refine h.move p _ (fun _ => hf) (fun _ => rfl) (fun _ => Or.inl rfl) ?_
      intro _ j hjp hj hrel hk
      have hjf : (s.kind j, j) ∈ s.files := h.own j (by simp [hj, hasFile])
      have hl : (s.kind j, j) ∈ lookList (s.kind p) s.files := by
        cases hkp : s.kind p with
        | ex => simpa [lookList] using hjf
        | sh =>
          have hkj : s.kind j = .ex := by
            rcases hk with hk | hk
            · rw [hkp] at hk; cases hk
            · exact hk
          have hjf' : (Kind.ex, j) ∈ s.files := hkj ▸ hjf
          simp [lookList, exFiles, hjf', hkj]
      have := others_nonempty (i := p) (lp := s.lp p) hl hjp (fun e => hrel (Or.inl e))
      rw [he] at this; cases this
    · have : step s p = setPC s p (.lookMsg left) := by simp [step, hpc, he]
      rw [this]
      exact h.move p _ (fun _ => hf) (fun _ => rfl) (fun _ => Or.inl rfl) (nh _ (by simp))
  | lookMsg left =>
    have hf : (s.kind p, p) ∈ s.files := h.own p (by simp [hpc, hasFile])
    have : ∃ a, step s p = setPC s p (.isdir a) := by
      cases hk : s.kind p <;> cases left <;> exact ⟨_, by simp only [step, hpc, hk]; rfl⟩
    obtain ⟨a, this⟩ := this
    rw [this]
    exact h.move p _ (fun _ => hf) (fun _ => rfl) (fun _ => Or.inl rfl) (nh _ (by simp))
  | hold =>
    have hf : (s.kind p, p) ∈ s.files := h.own p (by simp [hpc, hasFile])
    have : step s p = setPC s p (.isdir .fin) := by simp [step, hpc]
    rw [this]
    exact h.move p _ (fun _ => hf) (fun _ => rfl) (fun _ => Or.inl rfl) (nh _ (by simp))
  | isdir a =>
    have hf : (s.kind p, p) ∈ s.files := h.own p (by simp [hpc, hasFile])
    have hd : s.dir = true := h.inDir (by intro e; rw [e] at hf; simp at hf)
    have : step s p = setPC s p (.rexists a) := by simp [step, hpc, hd]
    rw [this]
    exact h.move p _ (fun _ => hf) (fun _ => rfl) (fun _ => Or.inl rfl) (nh _ (by simp))
  | rexists a =>
    have hf : (s.kind p, p) ∈ s.files := h.own p (by simp [hpc, hasFile])
    have hc : s.files.contains (s.kind p, p) = true := by simpa using hf
    have : step s p = setPC s p (.remove a) := by simp [step, hpc, hf]
    rw [this]
    exact h.move p _ (fun _ => hf) (fun _ => rfl) (fun _ => Or.inl rfl) (nh _ (by simp))
  | remove a =>
    have hf : (s.kind p, p) ∈ s.files := h.own p (by simp [hpc, hasFile])
    have hc : s.files.contains (s.kind p, p) = true := by simpa using hf
    have hd : s.dir = true := h.inDir (by intro e; rw [e] at hf; simp at hf)
    have : step s p = { s with dir := s.dir, files := s.files.filter (· != (s.kind p, p)),
                               pc := upd s.pc p (.rmdir a) } := by
      simp [step, hpc, hf]
    rw [this]
    refine h.update p _ s.dir _ ?_ (by simp [hasFile]) ?_ (fun _ => hd) (fun _ => Or.inl rfl) (nh _ (by simp))
    · intro f hfp
      have hne : f ≠ (s.kind p, p) := fun e => hfp (by rw [e])
      simp [List.mem_filter, hne]
    · intro f hm hfp
      have hm' := List.mem_filter.1 hm
      have h1 := (h.owner f hm'.1).1
      rw [hfp] at h1
      have : f = (s.kind p, p) := Prod.ext h1 hfp
      simp [this] at hm'
  | rmdir a =>
    have hnf : (s.kind p, p) ∉ s.files := h.noFile (by simp [hpc, hasFile])
    by_cases hc : (s.dir && s.files.isEmpty) = true
    · have : step s p = { s with dir := false, files := s.files, pc := upd s.pc p (afterPC a) } := by
        simp [step, hpc, hc]
      rw [this]
      have he : s.files = [] := by
        cases hd : s.dir <;> simp [hd] at hc
        exact hc
      refine h.update p _ false s.files (fun _ _ => Iff.rfl) (by simp) ?_ (fun hn => absurd he hn)
        (fun e => by cases e) (nh _ (afterPC_ne_hold a))
      intro f hm; rw [he] at hm; simp at hm
    · have : step s p = setPC s p (afterPC a) := by simp [step, hpc, hc]
      rw [this]
      refine h.move p _ (by simp) (fun hm => absurd hm hnf) ?_ (nh _ (afterPC_ne_hold a))
      intro hd
      have hne : s.files ≠ [] := by
        intro e; apply hc; simp [hd, e]
      exact Or.inr (h.respOther p (Or.inr ⟨hne, by simp [hpc, hasFile]⟩) hd)
  | done => have : step s p = s := by simp [step, hpc]
            rw [this]; exact h
  | failedAcq e => have : step s p = s := by simp [step, hpc]
                   rw [this]; exact h
  | failedRel e => have : step s p = s := by simp [step, hpc]
                   rw [this]; exact h
  | killed => have : step s p = s := by simp [step, hpc]
              rw [this]; exact h

theorem inv_interrupt (s : St) (p : Pid) (h : Inv s) : Inv (interrupt s p) := by
  unfold interrupt
  split
  · rename_i hpc
    have hf : (s.kind p, p) ∈ s.files := h.own p (by simp [hpc, hasFile])
    exact h.move p _ (fun _ => hf) (fun _ => rfl) (fun _ => Or.inl rfl) (fun e => by cases e)
  · rename_i hpc
    have hf : (s.kind p, p) ∈ s.files := h.own p (by simp [hpc, hasFile])
    exact h.move p _ (fun _ => hf) (fun _ => rfl) (fun _ => Or.inl rfl) (fun e => by cases e)
  · rename_i l hpc
    exact h.move p _ (by simp [hasFile]) (fun hm => absurd hm (h.noFile (by simp [hpc, hasFile])))
      (fun hd => Or.inr (h.respOther p (Or.inl (by simp [hpc, engaged])) hd)) (fun e => by cases e)
  · exact h

theorem inv_stepE (s : St) (e : Ev) (h : Inv s) : Inv (stepE s e) := by
  cases e with
  | call i => exact inv_step s i h
  | intr i => exact inv_interrupt s i h

theorem inv_runE (s : St) (evs : List Ev) (h : Inv s) : Inv (runE s evs) := by
  induction evs generalizing s with
  | nil => exact h
  | cons e r ih => exact ih (stepE s e) (inv_stepE s e h)

theorem inv_run (s : St) (sched : List Pid) (h : Inv s) : Inv (run s sched) := by
  induction sched generalizing s with
  | nil => exact h
  | cons i r ih => exact ih (step s i) (inv_step s i h)

theorem step_pc_other (s : St) (p j : Pid) (h : j ≠ p) : (step s p).pc j = s.pc j := by
  unfold step
  repeat' split
  all_goals simp [setPC, upd, h]

theorem run_replicate_pc_other (s : St) (p j : Pid) (n : Nat) (h : j ≠ p) :
    (run s (List.replicate n p)).pc j = s.pc j := by
  induction n generalizing s with
  | zero => rfl
  | succ n ih => rw [List.replicate_succ, run_cons, ih, step_pc_other s p j h]

@[simp] theorem run_kind (s : St) (sched : List Pid) : (run s sched).kind = s.kind := by
  induction sched generalizing s with
  | nil => rfl
  | cons i r ih => rw [run_cons, ih, step_kind]

@[simp] theorem run_lp (s : St) (sched : List Pid) : (run s sched).lp = s.lp := by
  induction sched generalizing s with
  | nil => rfl
  | cons i r ih => rw [run_cons, ih, step_lp]

/-- `giveLocks` never raises: its own lock file cannot vanish between `exists` and `remove` -/
theorem noRelFail_step (s : St) (p : Pid) (h : Inv s) (hn : ∀ i e, s.pc i ≠ .failedRel e) :
    ∀ i e, (step s p).pc i ≠ .failedRel e := by
  intro i e
  by_cases hip : i = p
  · subst hip
    cases hpc : s.pc i with
    | remove a =>
      have hf : (s.kind i, i) ∈ s.files := h.own i (by simp [hpc, hasFile])
      simp [step, hpc, hf]
    | failedRel e' => exact absurd hpc (hn i e')
    | rmdir a =>
      unfold step; simp only [hpc]; split <;> cases a <;> simp [setPC, afterPC]
    | isdir a =>
      unfold step; simp only [hpc]; split <;> cases a <;> simp [setPC, afterPC]
    | _ =>
      unfold step; simp only [hpc]
      repeat' split
      all_goals simp [setPC]
  · rw [step_pc_other s p i hip]; exact hn i e

theorem noRelFail_stepE (s : St) (ev : Ev) (h : Inv s) (hn : ∀ i e, s.pc i ≠ .failedRel e) :
    ∀ i e, (stepE s ev).pc i ≠ .failedRel e := by
  cases ev with
  | call p => exact noRelFail_step s p h hn
  | intr p =>
    intro i e
    by_cases hip : i = p
    · subst hip
      simp only [stepE, interrupt]
      split
      · simp [setPC]
      · simp [setPC]
      · simp [setPC]
      · exact hn i e
    · have : (stepE s (.intr p)).pc i = s.pc i := by
        simp only [stepE, interrupt]
        split <;> simp [setPC, upd, hip]
      rw [this]; exact hn i e

theorem noRelFail_runE (s : St) (evs : List Ev) (h : Inv s) (hn : ∀ i e, s.pc i ≠ .failedRel e) :
    ∀ i e, (runE s evs).pc i ≠ .failedRel e := by
  induction evs generalizing s with
  | nil => exact hn
  | cons ev r ih => exact ih (stepE s ev) (inv_stepE s ev h) (noRelFail_stepE s ev h hn)

theorem noRelFail_run (s : St) (sched : List Pid) (h : Inv s) (hn : ∀ i e, s.pc i ≠ .failedRel e) :
    ∀ i e, (run s sched).pc i ≠ .failedRel e := by
  induction sched generalizing s with
  | nil => exact hn
  | cons i r ih => exact ih (step s i) (inv_step s i h) (noRelFail_step s i h hn)

end EupsModel.LockR
