import EupsModel.Model.LockPath
import EupsModel.Lemmas.LockEx
/-! C09, several stacks — every component of a path run is a run of the single-directory model (projection), and the
exclusive-only invariant of the path model: a process in its command body holds every stack of its path, and a
process is "inside" a stack only while its control state still owes that stack a release. -/
namespace EupsModel.LockPath
open EupsModel.Lock

variable {S : PSt} {i : Pid}

@[simp] theorem setCtl_comp (S : PSt) (i : Pid) (c : Ctl) : (setCtl S i c).comp = S.comp := rfl
@[simp] theorem setCtl_path (S : PSt) (i : Pid) (c : Ctl) : (setCtl S i c).path = S.path := rfl
@[simp] theorem setCtl_explicit (S : PSt) (i : Pid) (c : Ctl) : (setCtl S i c).explicit = S.explicit := rfl
@[simp] theorem setCtl_ctl_same (S : PSt) (i : Pid) (c : Ctl) : (setCtl S i c).ctl i = c := by simp [setCtl]
theorem setCtl_ctl_other (S : PSt) (i j : Pid) (c : Ctl) (h : j ≠ i) : (setCtl S i c).ctl j = S.ctl j := by
  simp [setCtl, h]
@[simp] theorem setComp_ctl (S : PSt) (d : Dir) (s : St) : (setComp S d s).ctl = S.ctl := rfl
@[simp] theorem setComp_path (S : PSt) (d : Dir) (s : St) : (setComp S d s).path = S.path := rfl
@[simp] theorem setComp_explicit (S : PSt) (d : Dir) (s : St) : (setComp S d s).explicit = S.explicit := rfl
@[simp] theorem setComp_comp_same (S : PSt) (d : Dir) (s : St) : (setComp S d s).comp d = s := by simp [setComp]
theorem setComp_comp_other (S : PSt) (d x : Dir) (s : St) (h : x ≠ d) : (setComp S d s).comp x = S.comp x := by
  simp [setComp, h]

theorem relComp_is_run (s : St) (i : Pid) : ∃ n, relComp s i = run s (List.replicate n i) := by
  unfold relComp
  split
  · exact ⟨2, rfl⟩
  · exact ⟨1, rfl⟩

/-- What one transition of the path model does: the control state of `i` may change, and at most one component
changes — by a run of `Lock.step` of process `i`. -/
structure Effect (S S' : PSt) (i : Pid) : Prop where
  path     : S'.path = S.path
  explicit : S'.explicit = S.explicit
  ctlOther : ∀ q, q ≠ i → S'.ctl q = S.ctl q
  comp     : ∃ d0 n, ∀ d, S'.comp d = if d = d0 then run (S.comp d) (List.replicate n i) else S.comp d

theorem effect_refl (S : PSt) (i : Pid) : Effect S S i :=
  ⟨rfl, rfl, fun _ _ => rfl, ⟨0, 0, fun d => by simp⟩⟩

theorem effect_setCtl (S : PSt) (i : Pid) (c : Ctl) : Effect S (setCtl S i c) i :=
  ⟨rfl, rfl, fun q h => setCtl_ctl_other S i q c h, ⟨0, 0, fun d => by simp⟩⟩

theorem effect_setComp (S : PSt) (i : Pid) (d0 : Dir) (n : Nat) :
    Effect S (setComp S d0 (run (S.comp d0) (List.replicate n i))) i :=
  ⟨rfl, rfl, fun _ _ => rfl, ⟨d0, n, fun d => by
    by_cases h : d = d0
    · subst h; simp
    · simp [h, setComp_comp_other S d0 d _ h]⟩⟩

theorem effect_setComp_setCtl (S : PSt) (i : Pid) (d0 : Dir) (n : Nat) (c : Ctl) :
    Effect S (setCtl (setComp S d0 (run (S.comp d0) (List.replicate n i))) i c) i := by
  have h := effect_setComp S i d0 n
  exact ⟨h.path, h.explicit, fun q hq => by rw [setCtl_ctl_other _ _ _ _ hq]; exact h.ctlOther q hq, h.comp⟩

theorem mstep_effect (S : PSt) (i : Pid) : Effect S (mstep S i) i := by
  unfold mstep
  split
  · -- acq
    split
    · exact effect_refl S i
    · rename_i d _
      have e1 : step (S.comp d) i = run (S.comp d) (List.replicate 1 i) := rfl
      simp only [e1]
      repeat' split
      all_goals first | exact effect_setComp_setCtl S i d 1 _ | exact effect_setComp S i d 1
  · -- unw
    split
    · exact effect_refl S i
    · rename_i d _
      obtain ⟨n, hn⟩ := relComp_is_run (S.comp d) i
      simp only [hn]
      repeat' split
      all_goals first | exact effect_setComp_setCtl S i d n _ | exact effect_setComp S i d n
  · -- body
    repeat' split
    all_goals exact effect_setCtl S i _
  · -- rel
    split
    · exact effect_refl S i
    · rename_i d _
      obtain ⟨n, hn⟩ := relComp_is_run (S.comp d) i
      simp only [hn]
      repeat' split
      all_goals first | exact effect_setComp_setCtl S i d n _ | exact effect_setComp S i d n
  · exact effect_refl S i

/-- Projection: each stack's component of a path run is a run of the single-directory model. -/
theorem mrun_comp_is_run (S : PSt) (sched : List Pid) (d : Dir) :
    ∃ sd, (mrun S sched).comp d = run (S.comp d) sd := by
  induction sched generalizing S with
  | nil => exact ⟨[], rfl⟩
  | cons i r ih =>
    obtain ⟨sd, hsd⟩ := ih (mstep S i)
    obtain ⟨d0, n, hc⟩ := (mstep_effect S i).comp
    by_cases h : d = d0
    · subst h
      refine ⟨List.replicate n i ++ sd, ?_⟩
      rw [mrun_cons, hsd, hc d, run_append]; simp
    · refine ⟨sd, ?_⟩
      rw [mrun_cons, hsd, hc d]; simp [h]

theorem Effect.pc_other {S S' : PSt} {i : Pid} (h : Effect S S' i) (q : Pid) (hq : q ≠ i) (d : Dir) :
    (S'.comp d).pc q = (S.comp d).pc q := by
  obtain ⟨d0, n, hc⟩ := h.comp
  rw [hc d]
  split
  · exact run_replicate_pc_other _ i q n hq
  · rfl

theorem Effect.kind {S S' : PSt} {i : Pid} (h : Effect S S' i) (d : Dir) : (S'.comp d).kind = (S.comp d).kind := by
  obtain ⟨d0, n, hc⟩ := h.comp
  rw [hc d]; split <;> simp

theorem Effect.lp {S S' : PSt} {i : Pid} (h : Effect S S' i) (d : Dir) : (S'.comp d).lp = (S.comp d).lp := by
  obtain ⟨d0, n, hc⟩ := h.comp
  rw [hc d]; split <;> simp

theorem Effect.exInv {S S' : PSt} {i : Pid} (h : Effect S S' i) (hex : ∀ d, ExInv (S.comp d)) :
    ∀ d, ExInv (S'.comp d) := by
  intro d
  obtain ⟨d0, n, hc⟩ := h.comp
  rw [hc d]
  split
  · exact exInv_run _ (hex d) _
  · exact hex d

/-! ### the exclusive-only invariant of the path model -/

/-- stacks to which the control state still owes a release (or on which it is working) -/
def owed : Ctl → List Dir → List Dir
  | .acq k, path => path.take (k + 1)
  | .unw j k _, path => (path.take k).drop j
  | .body n _, path => path.take n
  | .rel j n _ _, path => (path.take n).drop j
  | .fin _, _ => []

def Held (S : PSt) (p : Pid) : Prop :=
  match S.ctl p with
  | .acq k => k < (S.path p).length ∧ ∀ j d, j < k → (S.path p)[j]? = some d → (S.comp d).pc p = .hold
  | .unw j k _ => j < k ∧ k ≤ (S.path p).length
  | .body n reg => reg = true ∧ n = (S.path p).length ∧
      ∀ j d, j < n → (S.path p)[j]? = some d → (S.comp d).pc p = .hold
  | .rel j n _ _ => j < n ∧ n ≤ (S.path p).length
  | .fin _ => True

structure PInv (S : PSt) : Prop where
  ex    : ∀ d, ExInv (S.comp d)
  nodup : ∀ p, (S.path p).Nodup
  owes  : ∀ p d, inside ((S.comp d).pc p) = true → d ∈ owed (S.ctl p) (S.path p)
  held  : ∀ p, Held S p

theorem pinv_init (kind : Pid → Kind) (lp : Pid → Option Pid) (tries : Pid → Nat) (path : Pid → List Dir)
    (explicit : Pid → Bool) (hk : ∀ i, kind i = .ex) (hl : ∀ i, lp i = none) (hn : ∀ p, (path p).Nodup) :
    PInv (minit kind lp tries path explicit) := by
  refine ⟨fun _ => exInv_init kind lp tries hk hl, hn, ?_, ?_⟩
  · intro p d h; simp [minit, init, inside] at h
  · intro p
    unfold Held
    simp only [minit]
    by_cases he : (path p).isEmpty = true
    · simp only [he, if_true]
      have : path p = [] := by simpa using he
      simp [this]
    · simp only [he]
      have : path p ≠ [] := by simpa using he
      exact ⟨List.length_pos_iff.mpr this, fun j d hj => absurd hj (by omega)⟩

/-! list facts -/

theorem mem_take_succ_of_getElem? {l : List Dir} {k : Nat} {d : Dir} (h : l[k]? = some d) : d ∈ l.take (k + 1) := by
  rw [List.mem_take_iff_getElem]
  obtain ⟨hk, hd⟩ := List.getElem?_eq_some_iff.mp h
  exact ⟨k, by omega, hd⟩

theorem mem_take_mono {l : List Dir} {a b : Nat} {d : Dir} (hab : a ≤ b) (h : d ∈ l.take a) : d ∈ l.take b := by
  rw [List.mem_take_iff_getElem] at h ⊢
  obtain ⟨j, hj, hd⟩ := h
  exact ⟨j, by omega, hd⟩

theorem mem_take_of_succ {l : List Dir} {k : Nat} {d d0 : Dir} (h0 : l[k]? = some d0) (h : d ∈ l.take (k + 1))
    (hne : d ≠ d0) : d ∈ l.take k := by
  rw [List.mem_take_iff_getElem] at h ⊢
  obtain ⟨j, hj, hd⟩ := h
  obtain ⟨hk, hd0⟩ := List.getElem?_eq_some_iff.mp h0
  by_cases hjk : j = k
  · subst hjk; rw [hd0] at hd; exact absurd hd.symm hne
  · exact ⟨j, by omega, hd⟩

theorem drop_take_cons {l : List Dir} {j k : Nat} {d0 : Dir} (h0 : l[j]? = some d0) (hjk : j < k) :
    (l.take k).drop j = d0 :: (l.take k).drop (j + 1) := by
  obtain ⟨hj, hd0⟩ := List.getElem?_eq_some_iff.mp h0
  have hlen : j < (l.take k).length := by simp; omega
  rw [List.drop_eq_getElem_cons hlen]
  simp [hd0]

theorem drop_take_nil {l : List Dir} {j k : Nat} (h : k ≤ j) : (l.take k).drop j = [] := by
  apply List.drop_eq_nil_of_le; simp; omega

theorem ne_of_nodup_getElem? {l : List Dir} (hn : l.Nodup) {a b : Nat} {x y : Dir} (ha : l[a]? = some x)
    (hb : l[b]? = some y) (hab : a ≠ b) : x ≠ y := by
  intro e; subst e
  obtain ⟨ha', _⟩ := List.getElem?_eq_some_iff.mp ha
  exact hab ((List.getElem?_inj ha' hn).mp (ha.trans hb.symm))

/-! preservation -/

theorem setComp_pc (S : PSt) (d0 d : Dir) (s' : St) (p : Pid) :
    ((setComp S d0 s').comp d).pc p = if d = d0 then s'.pc p else (S.comp d).pc p := by
  by_cases h : d = d0
  · subst h; simp
  · simp [h, setComp_comp_other S d0 d s' h]

theorem held_congr {S S' : PSt} {p : Pid} (hc : S'.ctl p = S.ctl p) (hp : S'.path = S.path)
    (hpc : ∀ d, (S'.comp d).pc p = (S.comp d).pc p) (h : Held S p) : Held S' p := by
  unfold Held at h ⊢
  rw [hc, hp]
  simp only [hpc]
  exact h

theorem pinv_of_effect {S S' : PSt} {i : Pid} (h : PInv S) (e : Effect S S' i)
    (howes : ∀ d, inside ((S'.comp d).pc i) = true → d ∈ owed (S'.ctl i) (S'.path i))
    (hheld : Held S' i) : PInv S' := by
  refine ⟨e.exInv h.ex, fun p => by rw [e.path]; exact h.nodup p, ?_, ?_⟩
  · intro p d hin
    by_cases hp : p = i
    · subst hp; exact howes d hin
    · rw [e.pc_other p hp d] at hin
      rw [e.ctlOther p hp, e.path]
      exact h.owes p d hin
  · intro p
    by_cases hp : p = i
    · subst hp; exact hheld
    · exact held_congr (e.ctlOther p hp) e.path (fun d => e.pc_other p hp d) (h.held p)

theorem step_effect_ctl (S : PSt) (i : Pid) (d0 : Dir) (c : Ctl) :
    Effect S (setCtl (setComp S d0 (step (S.comp d0) i)) i c) i := effect_setComp_setCtl S i d0 1 c

theorem step_effect (S : PSt) (i : Pid) (d0 : Dir) : Effect S (setComp S d0 (step (S.comp d0) i)) i :=
  effect_setComp S i d0 1

theorem rel_effect_ctl (S : PSt) (i : Pid) (d0 : Dir) (c : Ctl) :
    Effect S (setCtl (setComp S d0 (relComp (S.comp d0) i)) i c) i := by
  obtain ⟨n, hn⟩ := relComp_is_run (S.comp d0) i
  rw [hn]; exact effect_setComp_setCtl S i d0 n c

theorem rel_effect (S : PSt) (i : Pid) (d0 : Dir) : Effect S (setComp S d0 (relComp (S.comp d0) i)) i := by
  obtain ⟨n, hn⟩ := relComp_is_run (S.comp d0) i
  rw [hn]; exact effect_setComp S i d0 n

theorem exInv_relComp {s : St} (h : ExInv s) (i : Pid) : ExInv (relComp s i) := by
  obtain ⟨n, hn⟩ := relComp_is_run s i
  rw [hn]; exact exInv_run _ h _

/-- facts shared by the cases of a release step on lock `j` of `k` (control states `mk j'`) -/
structure RelCtx (S : PSt) (i : Pid) (j k : Nat) (d0 : Dir) (mk : Nat → Ctl) : Prop where
  hctl  : S.ctl i = mk j
  hj    : j < k
  hp    : (S.path i)[j]? = some d0
  howed : ∀ j', owed (mk j') (S.path i) = ((S.path i).take k).drop j'

theorem RelCtx.in0 {S : PSt} {i : Pid} {j k : Nat} {d0 : Dir} {mk : Nat → Ctl} (c : RelCtx S i j k d0 mk)
    (h : PInv S) : ∀ d, inside ((S.comp d).pc i) = true → d ∈ ((S.path i).take k).drop j := by
  intro d hd; have := h.owes i d hd; rw [c.hctl, c.howed] at this; exact this

/-- the call leaves the lock unfinished: same control state -/
theorem pinv_release_stay {S : PSt} {i : Pid} {j k : Nat} {d0 : Dir} {mk : Nat → Ctl} (h : PInv S)
    (c : RelCtx S i j k d0 mk) (hheld : Held (setComp S d0 (relComp (S.comp d0) i)) i) :
    PInv (setComp S d0 (relComp (S.comp d0) i)) := by
  refine pinv_of_effect h (rel_effect S i d0) ?_ hheld
  intro d hd
  rw [setComp_pc] at hd
  rw [setComp_ctl, setComp_path, c.hctl, c.howed]
  by_cases hdd : d = d0
  · subst hdd; rw [drop_take_cons c.hp c.hj]; simp
  · simp only [hdd, if_false] at hd; exact c.in0 h d hd

/-- the call finishes the lock (`done`): on to the next lock, or to the state after the last one -/
theorem pinv_release_done {S : PSt} {i : Pid} {j k : Nat} {d0 : Dir} {mk : Nat → Ctl} (h : PInv S)
    (c : RelCtx S i j k d0 mk) (hpc : (relComp (S.comp d0) i).pc i = .done) (next : Ctl)
    (hnext : owed next (S.path i) = ((S.path i).take k).drop (j + 1))
    (hheld : Held (setCtl (setComp S d0 (relComp (S.comp d0) i)) i next) i) :
    PInv (setCtl (setComp S d0 (relComp (S.comp d0) i)) i next) := by
  refine pinv_of_effect h (rel_effect_ctl S i d0 _) ?_ hheld
  intro d hd
  rw [setCtl_comp, setComp_pc] at hd
  rw [setCtl_ctl_same, setCtl_path, setComp_path, hnext]
  by_cases hdd : d = d0
  · subst hdd; simp [hpc, inside] at hd
  · simp only [hdd, if_false] at hd
    have := c.in0 h d hd
    rw [drop_take_cons c.hp c.hj] at this
    simpa [hdd] using this

theorem pinv_mstep (S : PSt) (h : PInv S) (i : Pid) : PInv (mstep S i) := by
  have hheld := h.held i
  cases hc : S.ctl i with
  | acq k =>
    unfold Held at hheld; rw [hc] at hheld
    obtain ⟨hk, hprev⟩ := hheld
    obtain ⟨d0, hp⟩ : ∃ d0, (S.path i)[k]? = some d0 := ⟨_, List.getElem?_eq_getElem hk⟩
    have hex' : ExInv (step (S.comp d0) i) := exInv_step _ _ (h.ex d0)
    have hok := hex'.noSh i
    have hin0 : ∀ d, inside ((S.comp d).pc i) = true → d ∈ (S.path i).take (k + 1) := by
      intro d hd; have := h.owes i d hd; rw [hc] at this; exact this
    have hprev' : ∀ (s' : St) j d, j < k → (S.path i)[j]? = some d →
        ((setComp S d0 s').comp d).pc i = .hold := by
      intro s' j d hj hjd
      have hne : d ≠ d0 := ne_of_nodup_getElem? (h.nodup i) hjd hp (by omega)
      rw [setComp_pc]; simp [hne, hprev j d hj hjd]
    unfold mstep
    simp only [hc, hp]
    cases hpc : (step (S.comp d0) i).pc i with
    | hold =>
      simp only []
      have hall : ∀ j d, j < k + 1 → (S.path i)[j]? = some d →
          ((setComp S d0 (step (S.comp d0) i)).comp d).pc i = .hold := by
        intro j d hj hjd
        by_cases hjk : j = k
        · subst hjk; rw [hp] at hjd; cases hjd; rw [setComp_pc]; simp [hpc]
        · exact hprev' _ j d (by omega) hjd
      by_cases hlast : k + 1 < (S.path i).length
      · simp only [hlast, if_true]
        refine pinv_of_effect h (step_effect_ctl S i d0 _) ?_ ?_
        · intro d hd
          rw [setCtl_comp, setComp_pc] at hd
          rw [setCtl_ctl_same, setCtl_path, setComp_path]
          show d ∈ (S.path i).take (k + 1 + 1)
          by_cases hdd : d = d0
          · subst hdd; exact mem_take_mono (by omega) (mem_take_succ_of_getElem? hp)
          · simp only [hdd, if_false] at hd; exact mem_take_mono (by omega) (hin0 d hd)
        · unfold Held; rw [setCtl_ctl_same]
          exact ⟨hlast, hall⟩
      · simp only [hlast, if_false]
        refine pinv_of_effect h (step_effect_ctl S i d0 _) ?_ ?_
        · intro d hd
          rw [setCtl_comp, setComp_pc] at hd
          rw [setCtl_ctl_same, setCtl_path, setComp_path]
          show d ∈ (S.path i).take (k + 1)
          by_cases hdd : d = d0
          · subst hdd; exact mem_take_succ_of_getElem? hp
          · simp only [hdd, if_false] at hd; exact hin0 d hd
        · unfold Held; rw [setCtl_ctl_same]
          exact ⟨rfl, by simp only [setCtl_path, setComp_path]; omega, hall⟩
    | unlocked => rw [hpc] at hok; exact absurd rfl hok.2.2.1
    | failedAcq e =>
      simp only []
      have hrest : ∀ d, inside (((setComp S d0 (step (S.comp d0) i)).comp d).pc i) = true →
          d ∈ (S.path i).take k := by
        intro d hd
        rw [setComp_pc] at hd
        by_cases hdd : d = d0
        · subst hdd; simp [hpc, inside] at hd
        · simp only [hdd, if_false] at hd; exact mem_take_of_succ hp (hin0 d hd) hdd
      by_cases hk0 : k = 0
      · simp only [hk0, if_true]
        refine pinv_of_effect h (step_effect_ctl S i d0 _) ?_ (by unfold Held; rw [setCtl_ctl_same]; trivial)
        intro d hd
        have := hrest d (by simpa using hd)
        rw [hk0] at this; simp at this
      · simp only [hk0, if_false]
        refine pinv_of_effect h (step_effect_ctl S i d0 _) ?_ ?_
        · intro d hd
          rw [setCtl_ctl_same, setCtl_path, setComp_path]
          show d ∈ ((S.path i).take k).drop 0
          simpa using hrest d (by simpa using hd)
        · unfold Held; rw [setCtl_ctl_same]
          exact ⟨by omega, by simp only [setCtl_path, setComp_path]; omega⟩
    | failedRel e => rw [hpc] at hok; exact absurd rfl (hok.2.2.2 e)
    | _ =>
      simp only []
      refine pinv_of_effect h (step_effect S i d0) ?_ ?_
      · intro d hd
        rw [setComp_pc] at hd
        rw [setComp_ctl, setComp_path, hc]
        show d ∈ (S.path i).take (k + 1)
        by_cases hdd : d = d0
        · subst hdd; exact mem_take_succ_of_getElem? hp
        · simp only [hdd, if_false] at hd; exact hin0 d hd
      · unfold Held; rw [setComp_ctl, hc]
        exact ⟨hk, fun j d hj hjd => hprev' _ j d hj hjd⟩
  | unw j k e =>
    unfold Held at hheld; rw [hc] at hheld
    obtain ⟨hj, hk⟩ := hheld
    obtain ⟨d0, hp⟩ : ∃ d0, (S.path i)[j]? = some d0 := ⟨_, List.getElem?_eq_getElem (by omega)⟩
    have hok := (exInv_relComp (h.ex d0) i).noSh i
    have c : RelCtx S i j k d0 (fun j' => .unw j' k e) := ⟨hc, hj, hp, fun _ => rfl⟩
    unfold mstep
    simp only [hc, hp]
    cases hpc : (relComp (S.comp d0) i).pc i with
    | done =>
      simp only []
      by_cases hjk : j + 1 < k
      · simp only [hjk, if_true]
        exact pinv_release_done h c hpc _ rfl (by unfold Held; rw [setCtl_ctl_same]; exact ⟨hjk, hk⟩)
      · simp only [hjk, if_false]
        exact pinv_release_done h c hpc _ (by simp [owed, drop_take_nil (show k ≤ j + 1 by omega)])
          (by unfold Held; rw [setCtl_ctl_same]; trivial)
    | failedRel e' => rw [hpc] at hok; exact absurd rfl (hok.2.2.2 e')
    | _ =>
      simp only []
      exact pinv_release_stay h c (by unfold Held; rw [setComp_ctl, hc]; exact ⟨hj, hk⟩)
  | body n reg =>
    unfold Held at hheld; rw [hc] at hheld
    obtain ⟨hreg, hn, _⟩ := hheld
    have hin0 : ∀ d, inside ((S.comp d).pc i) = true → d ∈ (S.path i).take n := by
      intro d hd; have := h.owes i d hd; rw [hc] at this; exact this
    unfold mstep
    simp only [hc]
    have key : ∀ c : Ctl, (n = 0 ∧ c = .fin .done) ∨ (n ≠ 0 ∧ ∃ m, c = .rel 0 n m .done) → PInv (setCtl S i c) := by
      intro c hcases
      refine pinv_of_effect h (effect_setCtl S i c) ?_ ?_
      · intro d hd
        rw [setCtl_ctl_same, setCtl_path]
        have := hin0 d hd
        rcases hcases with ⟨h0, rfl⟩ | ⟨_, m, rfl⟩
        · rw [h0] at this; simp at this
        · show d ∈ ((S.path i).take n).drop 0
          simpa using this
      · unfold Held; rw [setCtl_ctl_same]
        rcases hcases with ⟨_, rfl⟩ | ⟨h0, m, rfl⟩
        · trivial
        · exact ⟨by omega, by simp only [setCtl_path]; omega⟩
    by_cases hn0 : n = 0
    · by_cases hx : S.explicit i = true
      · simp only [hx, if_true, hn0]; exact key _ (Or.inl ⟨hn0, rfl⟩)
      · simp only [hx, hn0]; simp only [bne_self_eq_false, Bool.and_false, Bool.false_eq_true, if_false]
        exact key _ (Or.inl ⟨hn0, rfl⟩)
    · by_cases hx : S.explicit i = true
      · simp only [hx, if_true, hn0, if_false]; exact key _ (Or.inr ⟨hn0, _, rfl⟩)
      · have hb : (reg && n != 0) = true := by simp [hreg, hn0]
        simp only [hx, hb, if_true]; simp only [Bool.false_eq_true, if_false]
        exact key _ (Or.inr ⟨hn0, _, rfl⟩)
  | rel j n more o =>
    unfold Held at hheld; rw [hc] at hheld
    obtain ⟨hj, hk⟩ := hheld
    obtain ⟨d0, hp⟩ : ∃ d0, (S.path i)[j]? = some d0 := ⟨_, List.getElem?_eq_getElem (by omega)⟩
    have hok := (exInv_relComp (h.ex d0) i).noSh i
    have c : RelCtx S i j n d0 (fun j' => .rel j' n more o) := ⟨hc, hj, hp, fun _ => rfl⟩
    unfold mstep
    simp only [hc, hp]
    cases hpc : (relComp (S.comp d0) i).pc i with
    | done =>
      simp only []
      by_cases hjk : j + 1 < n
      · simp only [hjk, if_true]
        exact pinv_release_done h c hpc _ rfl (by unfold Held; rw [setCtl_ctl_same]; exact ⟨hjk, hk⟩)
      · simp only [hjk, if_false]
        exact pinv_release_done h c hpc _ (by simp [owed, drop_take_nil (show n ≤ j + 1 by omega)])
          (by unfold Held; rw [setCtl_ctl_same]; trivial)
    | failedRel e' => rw [hpc] at hok; exact absurd rfl (hok.2.2.2 e')
    | _ =>
      simp only []
      exact pinv_release_stay h c (by unfold Held; rw [setComp_ctl, hc]; exact ⟨hj, hk⟩)
  | fin o =>
    have : mstep S i = S := by unfold mstep; simp only [hc]
    rw [this]; exact h

theorem pinv_mrun (S : PSt) (h : PInv S) (sched : List Pid) : PInv (mrun S sched) := by
  induction sched generalizing S with
  | nil => exact h
  | cons i r ih => exact ih _ (pinv_mstep S h i)

end EupsModel.LockPath
