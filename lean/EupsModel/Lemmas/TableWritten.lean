import EupsModel.Lemmas.TableText
import EupsModel.Lemmas.TableArgs
/-! C11: a command line as written is a line of the kind `C11_blocks_text` quantifies over, standing for the
action its command and its written arguments denote. -/
namespace EupsModel.TableParse
open EupsModel.Cond EupsModel.C11Spec

/-! ## the command word is none of the reader's other keywords -/

theorem isPrefixOf_take {a b : Str} (h : a.isPrefixOf b = true) : b.take a.length = a := by
  induction a generalizing b with
  | nil => simp
  | cons x xs ih =>
    cases b with
    | nil => simp [List.isPrefixOf] at h
    | cons y ys =>
      simp only [List.isPrefixOf, Bool.and_eq_true, beq_iff_eq] at h
      simp [h.1, ih h.2]

theorem take_isPrefixOf {a b : Str} (h : b.take a.length = a) : a.isPrefixOf b = true := by
  induction a generalizing b with
  | nil => simp [List.isPrefixOf]
  | cons x xs ih =>
    cases b with
    | nil => simp at h
    | cons y ys =>
      simp only [List.length_cons, List.take_succ_cons, List.cons.injEq] at h
      simp [List.isPrefixOf, h.1, ih h.2]

/-- a word whose lower-case form and the keyword are not prefixes of one another does not start with the keyword -/
theorem lowerPrefix_none_key {name k target : Str} (hk : Str.lower name = k) (h1 : k.isPrefixOf target = false)
    (h2 : target.isPrefixOf k = false) (rest : Str) : lowerPrefix target (name ++ rest) = none := by
  have hlen : name.length = k.length := by rw [← hk, lower_length]
  have : (Str.lower ((name ++ rest).take target.length) == target) = false := by
    simp only [beq_eq_false_iff_ne, ne_eq]
    intro e
    by_cases hle : target.length ≤ name.length
    · rw [List.take_append_of_le_length hle] at e
      have : k.take target.length = target := by
        rw [← hk, ← e]; simp [Str.lower, List.map_take]
      rw [take_isPrefixOf this] at h2; cases h2
    · have hgt : name.length < target.length := by omega
      have e' : target.take k.length = k := by
        rw [← e, ← hlen, ← hk]
        simp only [Str.lower, ← List.map_take]
        congr 1
        rw [List.take_take, Nat.min_eq_left (by omega), List.take_left']
        rfl
      rw [take_isPrefixOf e'] at h1; cases h1
  unfold lowerPrefix
  rw [this]; rfl

theorem lookup_mem {k : Str} {c : Cmd} : ∀ {l : List (Str × Cmd)}, l.lookup k = some c → k ∈ l.map Prod.fst := by
  intro l
  induction l with
  | nil => intro h; simp [List.lookup] at h
  | cons p ps ih =>
    intro h
    obtain ⟨a, b⟩ := p
    simp only [List.lookup] at h
    split at h
    · rename_i heq; have : k = a := by simpa using heq
      subst this; simp
    · simp [ih h]

/-- no command word is a prefix of, or has as a prefix, one of the keywords of `_rewrite` and of the block pattern -/
theorem keys_vs_keywords : ∀ k ∈ cmdTable.map Prod.fst, ∀ t ∈ [sFile, sProduct, sAction, sQualifiers, sGroupC, sFlavorKw,
    sCommonC, sEndC, sIf], k.isPrefixOf t = false ∧ t.isPrefixOf k = false := by decide +kernel

theorem name_vs_keyword {name : Str} {cmd : Cmd} (hc : cmdTable.lookup (Str.lower name) = some cmd) {t : Str}
    (ht : t ∈ [sFile, sProduct, sAction, sQualifiers, sGroupC, sFlavorKw, sCommonC, sEndC, sIf]) (rest : Str) :
    lowerPrefix t (name ++ rest) = none := by
  have := keys_vs_keywords _ (lookup_mem hc) t ht
  exact lowerPrefix_none_key rfl this.1 this.2 rest

/-! ## `_rewrite`'s replacement of old variable names -/

theorem replGo_noinfix {pat rep : Str} (hp : pat ≠ []) : ∀ (s : Str), isInfix pat s = false → replGo pat rep 0 s = s := by
  intro s
  induction s with
  | nil => intro _; rfl
  | cons c cs ih =>
    intro h
    simp only [isInfix, Bool.or_eq_false_iff] at h
    simp [replGo, h.1, ih h.2]

theorem synonyms_noinfix {l : Str} (h : synonyms.all (fun p => !isInfix p.1 l) = true) :
    synonyms.foldl (fun l p => replaceAll p.1 p.2 l) l = l := by
  have hne : ∀ p ∈ synonyms, p.1 ≠ [] := by decide +kernel
  have : ∀ (ps : List (Str × Str)), (∀ p ∈ ps, replaceAll p.1 p.2 l = l) →
      ps.foldl (fun l p => replaceAll p.1 p.2 l) l = l := by
    intro ps
    induction ps with
    | nil => intro _; rfl
    | cons p ps ih =>
      intro hps
      simp only [List.foldl_cons, hps p (List.mem_cons_self ..)]
      exact ih (fun q hq => hps q (List.mem_cons_of_mem _ hq))
  apply this
  intro p hp
  have := List.all_eq_true.mp h p hp
  exact replGo_noinfix (hne p hp) l (by simpa using this)

/-! ## the argument list -/

theorem parseArgs_pad {pad : Str} (h : padOK pad = true) : parseArgs repaired pad = [] := by
  have h32 := padOK_32 h
  have hs : sepCh pad := fun c hc => Or.inl (h32 c hc)
  have h34 : 34 ∉ pad := sepCh_noq hs
  have h1 : stripOuter true pad = pad := stripOuter_id (Or.inl (by
    cases pad with
    | nil => simp
    | cons c cs => have := h32 c (List.mem_cons_self ..); simp [this]))
  have h2 : replaceAll [92, 34] [2] pad = pad := by
    have := rg_no92 (s := pad) (no92_of_sep hs) []
    simpa [replaceAll, replGo] using this
  have h4 : ∀ f, mapQuoted true f none pad = pad := by
    intro f
    have := mq_noq (f := f) h34 []
    simpa [mapQuoted] using this
  have h6 : splitArgs [] pad = [] := by
    have := sa_sep_empty hs []
    simpa [splitArgs] using this
  simp [parseArgs, repaired_d20, repaired_d32, repaired_d33, h1, h2, h4, h6]

theorem parseArgs_wargs {a : WArgs} (h : a.ok = true) : parseArgs repaired a.text = a.vals := by
  cases a with
  | none pad => exact parseArgs_pad h
  | some p1 f r p2 =>
    simp only [WArgs.ok, Bool.and_eq_true] at h
    obtain ⟨⟨⟨h1, h2⟩, hf⟩, hr⟩ := h
    have hr' : ∀ p ∈ r, sepOK p.1 = true ∧ p.2.ok = true := fun p hp => by
      have := List.all_eq_true.mp hr p hp; simpa using this
    cases hw : wholeQuoted p1 f r p2 with
    | false => simp only [WArgs.text, WArgs.vals, hw]; exact parseArgs_written h1 h2 hf hr' hw
    | true =>
      simp only [wholeQuoted, Bool.and_eq_true, List.isEmpty_iff, Bool.not_eq_true'] at hw
      obtain ⟨⟨⟨⟨e1, e2⟩, e3⟩, hq⟩, h34⟩ := hw
      subst e1 e2 e3
      have hqv : quotedVal f.val = true := by simpa [WArg.ok, hq] using hf
      have h34' : 34 ∉ f.val := fun m => by rw [List.contains_iff_mem.mpr m] at h34; cases h34
      have hv : ∀ c ∈ f.val, c ≠ 92 ∧ c ≠ 1 ∧ c ≠ 2 ∧ c ≠ 3 := by
        intro c m
        have := List.all_eq_true.mp hqv c m
        simpa [Bool.and_eq_true, and_assoc] using this
      have : argsText [] f [] [] = 34 :: f.val ++ [34] := by simp [argsText, WArg.text, hq, escQ_noquote h34']
      simp only [WArgs.text, WArgs.vals, wholeQuoted, hq, h34, List.isEmpty_nil, Bool.and_self, Bool.not_false, if_true, this]
      exact parseArgs_whole h34' hv

/-! ## a written command line is a line of the table -/

theorem wordCh_tokCh {c : Nat} (h : isWordCh c = true) : isTokCh c = true := by simp [isTokCh, h]

theorem wordCh_facts {c : Nat} (h : isWordCh c = true) : Str.isSpace c = false ∧ c ≠ 125 ∧ lineCh c = true := by
  have ht := wordCh_tokCh h
  refine ⟨?_, ?_, lineCh_of_tokCh ht⟩
  · cases hs : Str.isSpace c with
    | false => rfl
    | true => rw [space_not_tokCh hs] at ht; cases ht
  · intro e; subst e; revert h; decide

theorem wcmd_body {pdir : Option Str} {c : WCmd} (hok : c.ok = true) {res : Option Action}
    (hd : c.denote pdir = some res) : BodyLineT.ok pdir ⟨c.raw, res⟩ = true := by
  simp only [WCmd.ok, Bool.and_eq_true, Bool.not_eq_true', List.isEmpty_eq_false_iff, beq_iff_eq] at hok
  obtain ⟨⟨⟨⟨⟨⟨⟨⟨hw, hne⟩, hn⟩, hc⟩, hg⟩, ha⟩, htl⟩, htail⟩, htext⟩ := hok
  simp only [WCmd.textOK, Bool.and_eq_true] at htext
  obtain ⟨hargs, hsyn⟩ := htext
  obtain ⟨c0, cs0, hname⟩ : ∃ c0 cs0, c.name = c0 :: cs0 := by
    cases hnm : c.name with
    | nil => exact absurd hnm hne
    | cons a as => exact ⟨a, as, rfl⟩
  have hc0 : isWordCh c0 = true := by
    have := List.all_eq_true.mp hn c0 (by rw [hname]; exact List.mem_cons_self ..); exact this
  obtain ⟨hsp0, h125, _⟩ := wordCh_facts hc0
  have e : c.core = c.name ++ (c.gap ++ 40 :: (c.args.text ++ 41 :: c.tl)) := by simp [WCmd.core, List.append_assoc]
  have ecore : c.core = c0 :: (cs0 ++ (c.gap ++ 40 :: (c.args.text ++ 41 :: c.tl))) := by rw [e, hname]; rfl
  -- characters
  have htl' : ∀ x ∈ c.tl, x = 32 ∨ x = 9 ∨ x = 59 := fun x hx => by
    have := List.all_eq_true.mp htl x hx; simpa [or_assoc] using this
  have h41 : 41 ∉ c.tl := fun m => by rcases htl' 41 m with h | h | h <;> omega
  have hall : c.core.all (fun x => x != 10 && x != 35) = true := by
    have a1 : c.name.all (fun x => x != 10 && x != 35) = true := List.all_eq_true.mpr fun x hx => by
      have := (wordCh_facts (List.all_eq_true.mp hn x hx)).2.2
      simp only [lineCh, Bool.and_eq_true] at this; simp [this.1.1, this.1.2]
    have a2 : c.gap.all (fun x => x != 10 && x != 35) = true := List.all_eq_true.mpr fun x hx => by
      have := List.all_eq_true.mp (lineCh_of_hblank hg) x hx
      simp only [lineCh, Bool.and_eq_true] at this; simp [this.1.1, this.1.2]
    have a3 : c.tl.all (fun x => x != 10 && x != 35) = true := List.all_eq_true.mpr fun x hx => by
      rcases htl' x hx with h | h | h <;> subst h <;> decide
    simp [e, List.all_append, a1, a2, a3, hargs]
  have hcoreOK : coreOK c.core = true := by
    simp only [coreOK, Bool.and_eq_true]
    exact ⟨by rw [ecore]; simp [nsp, hsp0], hall⟩
  have hstrip : strip c.raw = c.core := strip_wrap hw hcoreOK
  have hnonempty : c.core.isEmpty = false := by rw [ecore]; rfl
  -- no keyword of `_rewrite` or of the block pattern
  have kw : ∀ t ∈ [sFile, sProduct, sAction, sQualifiers, sGroupC, sFlavorKw, sCommonC, sEndC, sIf],
      lowerPrefix t c.core = none := fun t ht => by rw [e]; exact name_vs_keyword hc ht _
  have k1 := kw sFile (by simp)
  have k2 := kw sProduct (by simp)
  have k3 := kw sAction (by simp)
  have k4 := kw sQualifiers (by simp)
  have k5 := kw sGroupC (by simp)
  have k6 := kw sFlavorKw (by simp)
  have k7 := kw sCommonC (by simp)
  have k8 := kw sEndC (by simp)
  have k9 := kw sIf (by simp)
  have hneutral : neutral c.core = true := by
    simp [neutral, hnonempty, kwEqCap, kwEq, kwLine, qualLine, k1, k2, k3, k4, k5, k6, k7, k8, synonyms_noinfix hsyn]
  -- classification
  have hblock : blockLine repaired c.core = none := by
    have hif : ∀ after, ifCond c.core after = none := fun after => by simp [ifCond, k9]
    simp only [blockLine, hif]
    rw [ecore]
    split
    · rename_i r heq; simp only [List.cons.injEq] at heq; exact absurd heq.1 h125
    · rfl
  have hcmd : commandLine repaired pdir c.core = normalise pdir c.cmd c.args.vals := by
    unfold commandLine
    have := cmdLine_written (name := c.name) (gap := c.gap) (argText := c.args.text) (tl := c.tl) hne hn
      (blank_of_hblank hg) htail h41
    simp only [WCmd.core] at this ⊢
    rw [this]
    simp only [hc, parseArgs_wargs ha]
  have hclass : classify repaired pdir c.core = .ok (lineOf res) := by
    simp only [classify, hblock, hcmd]
    simp only [WCmd.denote] at hd
    split at hd
    · rename_i a heq; cases hd; rw [heq]; rfl
    · rename_i heq; cases hd; rw [heq]; rfl
    · cases hd
  -- the raw line holds no newline
  have hraw : c.raw.all (· != 10) = true := by
    have hw' := hw
    simp only [Wrap.ok, Bool.and_eq_true] at hw'
    have i10 : c.wrap.indent.all (· != 10) = true := List.all_eq_true.mpr fun a ha => by
      have := hblank_ne hw'.1.1 (d := 10) (by omega); simp only [bne_iff_ne, ne_eq]; intro e; exact this (e ▸ ha)
    have c10 : c.core.all (· != 10) = true := List.all_eq_true.mpr fun a ha => by
      have := List.all_eq_true.mp hall a ha; simp only [Bool.and_eq_true] at this; exact this.1
    simp [WCmd.raw, Wrap.around, List.all_append, i10, c10, hw'.1.2]
  simp only [BodyLineT.ok, hraw, hstrip, hnonempty, hneutral, hclass, Bool.true_and, Bool.false_eq_true, if_false,
    decide_true, Bool.and_self]

end EupsModel.TableParse
