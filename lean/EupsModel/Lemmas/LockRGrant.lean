import EupsModel.Lemmas.LockR
/-! C09, repaired protocol — what the lock GRANTS (a protocol that refused everybody would be safe too).

The grants are stated for a requester that runs its `takeLocks` while the other processes are *at rest* (not in
the middle of a `takeLocks` / `giveLocks` of their own): in ANY reachable state — whatever interleaving led to
it — with the others at rest, a request compatible with the holders is granted within four calls, and a request
incompatible with an unrelated holder is never granted while that holder stays. -/
namespace EupsModel.LockR
open EupsModel.Lock (Pid Kind Err exFiles parentHolds)

/-- resting points: the process is not in the middle of `takeLocks` or `giveLocks` (the `sleep` between two
attempts of an exclusive request counts as one) -/
def quiet : PC → Bool
  | .mkdir _ | .hold | .done | .failedAcq _ | .failedRel _ | .killed => true
  | _ => false

theorem hold_of_quiet_hasFile {pc : PC} (hq : quiet pc = true) (hf : hasFile pc = true) : pc = .hold := by
  cases pc <;> simp_all [quiet, hasFile]

theorem hold_of_quiet_engaged {pc : PC} (hq : quiet pc = true) (he : engaged pc = true) : pc = .hold := by
  cases pc <;> simp_all [quiet, engaged]

/-- the file list has no duplicates -/
theorem nodup_step (s : St) (p : Pid) (h : Inv s) (hn : s.files.Nodup) : (step s p).files.Nodup := by
  cases hpc : s.pc p with
  | create left =>
    have hnf : (s.kind p, p) ∉ s.files := h.noFile (by simp [hpc, hasFile])
    unfold step; simp only [hpc]
    split
    · split
      · exact hn
      · exact List.nodup_cons.2 ⟨hnf, hn⟩
    · split <;> exact hn
  | remove a =>
    unfold step; simp only [hpc]
    split
    · exact hn.filter _
    · exact hn
  | rmdir a => unfold step; simp only [hpc]; split <;> exact hn
  | mkdir l => unfold step; simp only [hpc]; repeat' split
               all_goals exact hn
  | scanAll l => unfold step; simp only [hpc]; split <;> exact hn
  | scanMsg l => unfold step; simp only [hpc]; split <;> exact hn
  | look l => unfold step; simp only [hpc]; split <;> exact hn
  | lookMsg l => unfold step; simp only [hpc]; split <;> exact hn
  | hold => unfold step; simp only [hpc]; exact hn
  | isdir a => unfold step; simp only [hpc]; split <;> exact hn
  | rexists a => unfold step; simp only [hpc]; split <;> exact hn
  | done => unfold step; simp only [hpc]; exact hn
  | failedAcq e => unfold step; simp only [hpc]; exact hn
  | failedRel e => unfold step; simp only [hpc]; exact hn
  | killed => unfold step; simp only [hpc]; exact hn

theorem nodup_run (s : St) (sched : List Pid) (h : Inv s) (hn : s.files.Nodup) : (run s sched).files.Nodup := by
  induction sched generalizing s with
  | nil => exact hn
  | cons i r ih => exact ih (step s i) (inv_step s i h) (nodup_step s i h hn)

/-- where a refused request ends: an exclusive one with attempts left sleeps before its next `mkdir`, any other raises -/
def refusedPC : Kind → Nat → PC
  | .ex, m + 1 => .mkdir m
  | _, _ => .failedAcq .runtime

section rest
variable {s : St} {i : Pid} {l : Nat}

/-- with the others at rest, every lock file is a holder's -/
theorem rest_file_holder (h : Inv s) (hq : ∀ j, j ≠ i → quiet (s.pc j) = true) (hpc : s.pc i = .mkdir l)
    {f : Kind × Pid} (hf : f ∈ s.files) : s.pc f.2 = .hold ∧ f.1 = s.kind f.2 ∧ f.2 ≠ i := by
  have ho := h.owner f hf
  have hne : f.2 ≠ i := by
    intro e; rw [e, hpc] at ho; simp [hasFile] at ho
  exact ⟨hold_of_quiet_hasFile (hq f.2 hne) ho.2, ho.1, hne⟩

/-- with the others at rest, an existing directory holds a holder's file -/
theorem rest_dir_holder (h : Inv s) (hq : ∀ j, j ≠ i → quiet (s.pc j) = true) (hpc : s.pc i = .mkdir l)
    (hd : s.dir = true) : ∃ q, q ≠ i ∧ s.pc q = .hold ∧ (s.kind q, q) ∈ s.files := by
  obtain ⟨q, hq'⟩ := h.resp hd
  have hne : q ≠ i := by intro e; rw [e, hpc] at hq'; simp [engaged] at hq'
  have hh := hold_of_quiet_engaged (hq q hne) hq'
  exact ⟨q, hne, hh, h.own q (by simp [hh, hasFile])⟩

/-- nobody holds, the others are at rest: the lock directory does not exist -/
theorem rest_free (h : Inv s) (hq : ∀ j, j ≠ i → quiet (s.pc j) = true) (hpc : s.pc i = .mkdir l)
    (hfree : ∀ j, s.pc j ≠ .hold) : s.dir = false ∧ s.files = [] := by
  constructor
  · cases hd : s.dir with
    | false => rfl
    | true =>
      obtain ⟨q, _, hh, _⟩ := rest_dir_holder h hq hpc hd
      exact absurd hh (hfree q)
  · cases hf : s.files with
    | nil => rfl
    | cons x xs =>
      have := (rest_file_holder h hq hpc (f := x) (by rw [hf]; simp)).1
      exact absurd this (hfree x.2)

/-- a free lock is granted, to a request of either kind, in three calls: mkdir, create, look -/
theorem grant_free (hpc : s.pc i = .mkdir l) (hd : s.dir = false) (hf : s.files = []) :
    (run s [i, i, i]).pc i = .hold := by
  cases hk : s.kind i <;>
    simp [run, step, hpc, hd, hf, hk, setPC, others, lookList, exFiles]

/-- a shared request beside shared files only: granted in three calls -/
theorem grant_share (hpc : s.pc i = .mkdir l) (hk : s.kind i = .sh) (hex : exFiles s.files = [])
    (hnf : (Kind.sh, i) ∉ s.files) (hdf : s.dir = false → s.files = []) :
    (run s [i, i, i]).pc i = .hold := by
  cases hd : s.dir with
  | false => exact grant_free hpc hd (hdf hd)
  | true =>
    have hex' : List.filter (fun f => f.1 == Kind.ex) s.files = [] := hex
    simp [run, step, hpc, hd, hk, setPC, others, lookList, exFiles, hnf]
    simp [hk, hex']

/-- the one lock file is the parent's (either kind): an exclusive request re-enters in four calls (mkdir, the parent
test, create, look), a shared one in three -/
theorem grant_reenter {k : Kind} {q : Pid} (hpc : s.pc i = .mkdir l) (hd : s.dir = true)
    (hf : s.files = [(k, q)]) (hl : s.lp i = some q) (hne : q ≠ i) :
    (run s (match s.kind i with | .ex => [i, i, i, i] | .sh => [i, i, i])).pc i = .hold := by
  have hne' : ¬ (i = q) := fun e => hne e.symm
  cases hk : s.kind i <;> cases k <;>
    simp [run, step, hpc, hd, hf, hk, hl, setPC, others, lookList, exFiles, parentHolds, hne, hne']

/-- a shared request that meets the lock file of an unrelated exclusive holder (the others at rest): announced,
seen, withdrawn, refused — eight calls, after which directory and lock files are exactly as they were -/
theorem refuse_shared {q : Pid} (hpc : s.pc i = .mkdir l) (hk : s.kind i = .sh) (hd : s.dir = true)
    (hq : (Kind.ex, q) ∈ s.files) (hqi : q ≠ i) (hlp : s.lp i ≠ some q) (hnf : (Kind.sh, i) ∉ s.files) :
    run s [i, i, i, i, i, i, i, i] = setPC s i (.failedAcq .runtime) := by
  have hne : s.files ≠ [] := by intro e; rw [e] at hq; simp at hq
  have hoth : (others i (s.lp i) (exFiles ((Kind.sh, i) :: s.files))).isEmpty = false := by
    apply others_nonempty (f := (Kind.ex, q))
    · simp [exFiles, hq]
    · exact hqi
    · exact hlp
  have hfilt : List.filter (fun x => x != (Kind.sh, i)) s.files = s.files := by
    apply List.filter_eq_self.2
    intro a ha
    simp only [bne_iff_ne, ne_eq]
    intro e; rw [e] at ha; exact hnf ha
  have hem : s.files.isEmpty = false := by
    cases hf : s.files with
    | nil => exact absurd hf hne
    | cons a b => rfl
  simp [run, step, hpc, hk, hd, hnf, setPC, lookList, hoth, afterPC, hfilt, hem]
  funext j; by_cases hj : j = i <;> simp [upd, hj]

/-- an exclusive request that meets a directory which is not just its parent's: refused at the gate in three calls
(mkdir, the listing, the listing for the message), nothing touched; it will try again if it has attempts left -/
theorem refuse_exclusive (hpc : s.pc i = .mkdir l) (hk : s.kind i = .ex) (hd : s.dir = true)
    (hp : parentHolds (s.lp i) s.files = false) :
    run s [i, i, i] = setPC s i (refusedPC .ex l) := by
  cases l with
  | zero =>
    simp [run, step, hpc, hk, hd, hp, setPC, refusedPC]
    funext j; by_cases hj : j = i <;> simp [upd, hj]
  | succ n =>
    simp [run, step, hpc, hk, hd, hp, setPC, refusedPC]
    funext j; by_cases hj : j = i <;> simp [upd, hj]

end rest

end EupsModel.LockR
