import EupsModel.Lemmas.PathAlgRef
import EupsModel.Lemmas.PathAlgSeq
/-! The sequence theorems of `PathAlgSeq` at the STRING level of one environment variable: all the
`envPrepend` / `envAppend` lines of a table on one variable `var` (single-character delimiter `c`), run through
the real string-manipulating action `envPrepend` one after the other. -/
namespace EupsModel.PathAlg

/-- the table's lines on `var`, (append?, value) in table order, executed in direction `fwd`; stops at the first
refusal -/
def pathRun (c : Nat) (var : Str) (fwd : Bool) : List (Bool × Str) → Env → Outcome
  | [], env => .ok env
  | (app, v) :: rest, env => match envPrepend app fwd var v [c] env with
    | .ok env' => pathRun c var fwd rest env'
    | .runtimeError => .runtimeError

/-- a value piece may also serve as a piece of the list the variable already holds -/
theorem GoodPiece.old {c : Nat} {e : Str} (h : GoodPiece c e) : OldPiece c e := ⟨h.1, h.2.1⟩

/-- the pieces after one action are again pieces a list may hold -/
theorem applyL_old (c : Nat) (app fwd : Bool) (v : Str) (oldl : List Str)
    (hold : ∀ e ∈ oldl, OldPiece c e) (hv : GoodPiece c v) :
    ∀ e ∈ applyL app fwd [v] oldl, OldPiece c e := by
  intro e he
  rcases applyL_mem app fwd v oldl e he with rfl | h
  · exact hv.old
  · exact hold e h

/-- the pieces after a whole table's setup are again pieces a list may hold -/
theorem setupAll_old (c : Nat) (acts : List (Bool × Str)) (oldl : List Str)
    (hgood : ∀ a ∈ acts, GoodPiece c a.2) (hold : ∀ e ∈ oldl, OldPiece c e) :
    ∀ e ∈ setupAll acts oldl, OldPiece c e := by
  intro e he
  rcases (mem_setupAll acts oldl e).mp he with h | h
  · obtain ⟨a, ha, rfl⟩ := List.mem_map.mp h
    exact (hgood a ha).old
  · exact hold e h

/-- General direction, all tables (also the empty one): the run never refuses, the variable ends up holding the
joined list-level fold, no other variable is touched.  When the table is not empty the variable is bound. -/
theorem pathRun_fold (c : Nat) (var : Str) (fwd : Bool) (acts : List (Bool × Str)) (oldl : List Str) (env : Env)
    (hgood : ∀ a ∈ acts, GoodPiece c a.2) (hold : ∀ e ∈ oldl, OldPiece c e)
    (henv : (env.get var).getD [] = join [c] oldl) :
    ∃ env', pathRun c var fwd acts env = .ok env'
      ∧ (env'.get var).getD [] = join [c] (acts.foldl (fun l a => applyL a.1 fwd [a.2] l) oldl)
      ∧ (acts ≠ [] → env'.get var = some (join [c] (acts.foldl (fun l a => applyL a.1 fwd [a.2] l) oldl)))
      ∧ ∀ k, k ≠ var → env'.get k = env.get k := by
  induction acts generalizing oldl env with
  | nil => exact ⟨env, rfl, henv, fun h => absurd rfl h, fun _ _ => rfl⟩
  | cons a rest ih =>
    obtain ⟨app, v⟩ := a
    have hv : GoodPiece c v := hgood (app, v) (by simp)
    have hstep := envPrepend_lifts_old c app fwd var v oldl env hold hv henv
    have hold' := applyL_old c app fwd v oldl hold hv
    have henv' : ((env.set var (join [c] (applyL app fwd [v] oldl))).get var).getD []
        = join [c] (applyL app fwd [v] oldl) := by
      rw [Env.get_set_same]; rfl
    obtain ⟨env', hrun, hval, hsome, hframe⟩ :=
      ih (applyL app fwd [v] oldl) (env.set var (join [c] (applyL app fwd [v] oldl)))
        (fun b hb => hgood b (by simp [hb])) hold' henv'
    refine ⟨env', ?_, hval, ?_, ?_⟩
    · simp only [pathRun, hstep]; exact hrun
    · intro _
      by_cases hr : rest = []
      · subst hr
        simp only [pathRun] at hrun
        injection hrun with hrun
        subst hrun
        rw [Env.get_set_same]; rfl
      · exact hsome hr
    · intro k hk
      rw [hframe k hk, Env.get_set_other _ _ _ _ hk]

/-- 1. Setup of a whole table on one variable, at string level. -/
theorem pathRun_setup (c : Nat) (var : Str) (acts : List (Bool × Str)) (oldl : List Str) (env : Env)
    (hgood : ∀ a ∈ acts, GoodPiece c a.2) (hold : ∀ e ∈ oldl, OldPiece c e)
    (henv : (env.get var).getD [] = join [c] oldl) (hne : acts ≠ []) :
    ∃ env', pathRun c var true acts env = .ok env'
      ∧ env'.get var = some (join [c] (setupAll acts oldl))
      ∧ ∀ k, k ≠ var → env'.get k = env.get k := by
  obtain ⟨env', hrun, _, hsome, hframe⟩ := pathRun_fold c var true acts oldl env hgood hold henv
  exact ⟨env', hrun, hsome hne, hframe⟩

/-- 2. Unsetup of a whole table on one variable, at string level. -/
theorem pathRun_unsetup (c : Nat) (var : Str) (acts : List (Bool × Str)) (oldl : List Str) (env : Env)
    (hgood : ∀ a ∈ acts, GoodPiece c a.2) (hold : ∀ e ∈ oldl, OldPiece c e)
    (henv : (env.get var).getD [] = join [c] oldl) (hne : acts ≠ []) :
    ∃ env', pathRun c var false acts env = .ok env'
      ∧ env'.get var = some (join [c] (unsetupAll acts oldl))
      ∧ ∀ k, k ≠ var → env'.get k = env.get k := by
  obtain ⟨env', hrun, _, hsome, hframe⟩ := pathRun_fold c var false acts oldl env hgood hold henv
  exact ⟨env', hrun, hsome hne, hframe⟩

/-- the two without the side condition on the table (an empty table leaves the variable as it is, bound or not) -/
theorem pathRun_setup_getD (c : Nat) (var : Str) (acts : List (Bool × Str)) (oldl : List Str) (env : Env)
    (hgood : ∀ a ∈ acts, GoodPiece c a.2) (hold : ∀ e ∈ oldl, OldPiece c e)
    (henv : (env.get var).getD [] = join [c] oldl) :
    ∃ env', pathRun c var true acts env = .ok env'
      ∧ (env'.get var).getD [] = join [c] (setupAll acts oldl)
      ∧ ∀ k, k ≠ var → env'.get k = env.get k := by
  obtain ⟨env', hrun, hval, _, hframe⟩ := pathRun_fold c var true acts oldl env hgood hold henv
  exact ⟨env', hrun, hval, hframe⟩

theorem pathRun_unsetup_getD (c : Nat) (var : Str) (acts : List (Bool × Str)) (oldl : List Str) (env : Env)
    (hgood : ∀ a ∈ acts, GoodPiece c a.2) (hold : ∀ e ∈ oldl, OldPiece c e)
    (henv : (env.get var).getD [] = join [c] oldl) :
    ∃ env', pathRun c var false acts env = .ok env'
      ∧ (env'.get var).getD [] = join [c] (unsetupAll acts oldl)
      ∧ ∀ k, k ≠ var → env'.get k = env.get k := by
  obtain ⟨env', hrun, hval, _, hframe⟩ := pathRun_fold c var false acts oldl env hgood hold henv
  exact ⟨env', hrun, hval, hframe⟩

/-- a run never refuses (values free of `$`), whatever the direction -/
theorem pathRun_ok (c : Nat) (var : Str) (fwd : Bool) (acts : List (Bool × Str)) (oldl : List Str) (env : Env)
    (hgood : ∀ a ∈ acts, GoodPiece c a.2) (hold : ∀ e ∈ oldl, OldPiece c e)
    (henv : (env.get var).getD [] = join [c] oldl) :
    pathRun c var fwd acts env ≠ .runtimeError := by
  obtain ⟨env', hrun, _⟩ := pathRun_fold c var fwd acts oldl env hgood hold henv
  rw [hrun]; intro h; cases h

/-- setup then unsetup, in terms of the list-level composition -/
theorem pathRun_setup_unsetup (c : Nat) (var : Str) (acts : List (Bool × Str)) (oldl : List Str) (env : Env)
    (hgood : ∀ a ∈ acts, GoodPiece c a.2) (hold : ∀ e ∈ oldl, OldPiece c e)
    (henv : (env.get var).getD [] = join [c] oldl) (hne : acts ≠ []) :
    ∃ env1 env2, pathRun c var true acts env = .ok env1 ∧ pathRun c var false acts env1 = .ok env2
      ∧ env2.get var = some (join [c] (unsetupAll acts (setupAll acts oldl)))
      ∧ ∀ k, k ≠ var → env2.get k = env.get k := by
  obtain ⟨env1, hrun1, hval1, hframe1⟩ := pathRun_setup c var acts oldl env hgood hold henv hne
  have henv1 : (env1.get var).getD [] = join [c] (setupAll acts oldl) := by rw [hval1]; rfl
  obtain ⟨env2, hrun2, hval2, hframe2⟩ :=
    pathRun_unsetup c var acts (setupAll acts oldl) env1 hgood (setupAll_old c acts oldl hgood hold) henv1 hne
  exact ⟨env1, env2, hrun1, hrun2, hval2, fun k hk => by rw [hframe2 k hk, hframe1 k hk]⟩

/-- 3. String-level inverse, unconditional form: after setup and unsetup of a table the variable holds the first
occurrences of the prior pieces that no line of the table names (also those named that were there before are gone);
every other variable is as before. -/
theorem pathRun_roundtrip_filter (c : Nat) (var : Str) (acts : List (Bool × Str)) (oldl : List Str) (env : Env)
    (hgood : ∀ a ∈ acts, GoodPiece c a.2) (hold : ∀ e ∈ oldl, OldPiece c e)
    (henv : (env.get var).getD [] = join [c] oldl) (hne : acts ≠ []) :
    ∃ env1 env2, pathRun c var true acts env = .ok env1 ∧ pathRun c var false acts env1 = .ok env2
      ∧ env2.get var
          = some (join [c] ((uniq oldl).filter (fun x => decide (x ∉ acts.map (·.2)))))
      ∧ ∀ k, k ≠ var → env2.get k = env.get k := by
  obtain ⟨env1, env2, h1, h2, hval, hframe⟩ := pathRun_setup_unsetup c var acts oldl env hgood hold henv hne
  rw [unsetupAll_setupAll_filter acts oldl hne] at hval
  refine ⟨env1, env2, h1, h2, ?_, hframe⟩
  rw [hval]
  congr 2
  apply List.filter_congr
  intro x _
  exact decide_eq_decide.mpr Iff.rfl

/-- 3. String-level inverse: when none of the table's values was in the variable before, setup followed by unsetup
gives back the (de-duplicated) prior value; every other variable is as before. -/
theorem pathRun_roundtrip (c : Nat) (var : Str) (acts : List (Bool × Str)) (oldl : List Str) (env : Env)
    (hgood : ∀ a ∈ acts, GoodPiece c a.2) (hold : ∀ e ∈ oldl, OldPiece c e)
    (henv : (env.get var).getD [] = join [c] oldl) (hne : acts ≠ [])
    (hfresh : ∀ a ∈ acts, a.2 ∉ oldl) :
    ∃ env1 env2, pathRun c var true acts env = .ok env1 ∧ pathRun c var false acts env1 = .ok env2
      ∧ env2.get var = some (join [c] (uniq oldl))
      ∧ ∀ k, k ≠ var → env2.get k = env.get k := by
  obtain ⟨env1, env2, h1, h2, hval, hframe⟩ := pathRun_setup_unsetup c var acts oldl env hgood hold henv hne
  rw [unsetupAll_setupAll acts oldl hne hfresh] at hval
  exact ⟨env1, env2, h1, h2, hval, hframe⟩

/-- … and when the prior value had no duplicate piece the very string is back -/
theorem pathRun_roundtrip_nodup (c : Nat) (var : Str) (acts : List (Bool × Str)) (oldl : List Str) (env : Env)
    (hgood : ∀ a ∈ acts, GoodPiece c a.2) (hold : ∀ e ∈ oldl, OldPiece c e)
    (henv : env.get var = some (join [c] oldl)) (hne : acts ≠ [])
    (hfresh : ∀ a ∈ acts, a.2 ∉ oldl) (hnd : oldl.Nodup) :
    ∃ env1 env2, pathRun c var true acts env = .ok env1 ∧ pathRun c var false acts env1 = .ok env2
      ∧ ∀ k, env2.get k = env.get k := by
  obtain ⟨env1, env2, h1, h2, hval, hframe⟩ :=
    pathRun_roundtrip c var acts oldl env hgood hold (by rw [henv]; rfl) hne hfresh
  refine ⟨env1, env2, h1, h2, fun k => ?_⟩
  by_cases hk : k = var
  · subst hk; rw [hval, henv, uniq_of_nodup _ hnd]
  · exact hframe k hk

/-- 4. Idempotence at string level: running the setup of a table a second time changes no variable. -/
theorem pathRun_twice (c : Nat) (var : Str) (acts : List (Bool × Str)) (oldl : List Str) (env : Env)
    (hgood : ∀ a ∈ acts, GoodPiece c a.2) (hold : ∀ e ∈ oldl, OldPiece c e)
    (henv : (env.get var).getD [] = join [c] oldl) :
    ∃ env1 env2, pathRun c var true acts env = .ok env1 ∧ pathRun c var true acts env1 = .ok env2
      ∧ ∀ k, env2.get k = env1.get k := by
  by_cases hne : acts = []
  · subst hne; exact ⟨env, env, rfl, rfl, fun _ => rfl⟩
  · obtain ⟨env1, hrun1, hval1, _⟩ := pathRun_setup c var acts oldl env hgood hold henv hne
    have henv1 : (env1.get var).getD [] = join [c] (setupAll acts oldl) := by rw [hval1]; rfl
    obtain ⟨env2, hrun2, hval2, hframe2⟩ :=
      pathRun_setup c var acts (setupAll acts oldl) env1 hgood (setupAll_old c acts oldl hgood hold) henv1 hne
    refine ⟨env1, env2, hrun1, hrun2, fun k => ?_⟩
    by_cases hk : k = var
    · subst hk; rw [hval2, hval1, setupAll_idem]
    · exact hframe2 k hk

/-- the value of the variable after two setups, written out -/
theorem pathRun_twice_value (c : Nat) (var : Str) (acts : List (Bool × Str)) (oldl : List Str) (env : Env)
    (hgood : ∀ a ∈ acts, GoodPiece c a.2) (hold : ∀ e ∈ oldl, OldPiece c e)
    (henv : (env.get var).getD [] = join [c] oldl) (hne : acts ≠ []) :
    ∃ env1 env2, pathRun c var true acts env = .ok env1 ∧ pathRun c var true acts env1 = .ok env2
      ∧ env1.get var = some (join [c] (setupAll acts oldl))
      ∧ env2.get var = some (join [c] (setupAll acts oldl))
      ∧ ∀ k, k ≠ var → env2.get k = env.get k := by
  obtain ⟨env1, hrun1, hval1, hframe1⟩ := pathRun_setup c var acts oldl env hgood hold henv hne
  have henv1 : (env1.get var).getD [] = join [c] (setupAll acts oldl) := by rw [hval1]; rfl
  obtain ⟨env2, hrun2, hval2, hframe2⟩ :=
    pathRun_setup c var acts (setupAll acts oldl) env1 hgood (setupAll_old c acts oldl hgood hold) henv1 hne
  rw [setupAll_idem] at hval2
  exact ⟨env1, env2, hrun1, hrun2, hval1, hval2, fun k hk => by rw [hframe2 k hk, hframe1 k hk]⟩

/-! ## concrete strings (`:` = 58, `/` = 47, `P` = 80)

`P = /usr/bin:/usr/bin:/bin`, the table says `envPrepend(P, /a/bin)` then `envAppend(P, /b/bin)`. -/

/-- `/usr/bin` -/ private def usrbin : Str := [47, 117, 115, 114, 47, 98, 105, 110]
/-- `/bin` -/ private def bin : Str := [47, 98, 105, 110]
/-- `/a/bin` -/ private def abin : Str := [47, 97, 47, 98, 105, 110]
/-- `/b/bin` -/ private def bbin : Str := [47, 98, 47, 98, 105, 110]
private def env0 : Env := [([80], usrbin ++ [58] ++ usrbin ++ [58] ++ bin)]
private def acts0 : List (Bool × Str) := [(false, abin), (true, bbin)]

/-- setup: `P = /a/bin:/usr/bin:/bin:/b/bin` -/
example : pathRun 58 [80] true acts0 env0
    = .ok [([80], abin ++ [58] ++ usrbin ++ [58] ++ bin ++ [58] ++ bbin)] := by decide

/-- setup then unsetup: `P = /usr/bin:/bin` (the prior value, de-duplicated) -/
example : pathRun 58 [80] false acts0 [([80], abin ++ [58] ++ usrbin ++ [58] ++ bin ++ [58] ++ bbin)]
    = .ok [([80], usrbin ++ [58] ++ bin)] := by decide

/-- setup a second time: nothing changes -/
example : pathRun 58 [80] true acts0 [([80], abin ++ [58] ++ usrbin ++ [58] ++ bin ++ [58] ++ bbin)]
    = .ok [([80], abin ++ [58] ++ usrbin ++ [58] ++ bin ++ [58] ++ bbin)] := by decide

/-- a value that was there before is gone after the round trip (the unconditional form): `P = /bin` -/
example : (match pathRun 58 [80] true [(false, usrbin)] env0 with
      | .ok e => pathRun 58 [80] false [(false, usrbin)] e
      | .runtimeError => .runtimeError)
    = .ok [([80], bin)] := by decide

/-- the hypotheses of the theorems hold of the example -/
example : (∀ a ∈ acts0, GoodPiece 58 a.2) ∧ (∀ e ∈ [usrbin, usrbin, bin], OldPiece 58 e)
    ∧ (env0.get [80]).getD [] = join [58] [usrbin, usrbin, bin] := by
  refine ⟨?_, ?_, by decide⟩
  · intro a ha
    simp only [acts0, List.mem_cons, List.not_mem_nil, or_false] at ha
    rcases ha with rfl | rfl <;> exact ⟨by decide, by decide, by decide⟩
  · intro e he
    simp only [List.mem_cons, List.not_mem_nil, or_false] at he
    rcases he with rfl | rfl | rfl <;> exact ⟨by decide, by decide⟩

end EupsModel.PathAlg
