import EupsModel.Lemmas.SetupFrame
/-! C01 clause (b): after a successful request every set-up product has the own path contributions of its table in
place.  `Present cfg Y e`: clause (b) for the products whose name is not in `Y` (the names whose tables are currently
being executed).  Unsetup direction: elements disappear only together with their product's record (`Kept`).  Forward
direction under `NameDag`: a request for `n` keeps the elements of every name of higher rank (`KeepHigher`), so the
elements a table has already contributed survive its dependencies. -/
namespace EupsModel.Setup

def Present (cfg : Cfg) (Y : Name → Prop) (e : Env) : Prop :=
  ∀ n v, ¬ Y n → e.rec? n = some v → ∀ var vals app rel,
    Act.prepend var vals app ∈ tableOf cfg (n, v) → Val.own rel ∈ vals → Elem.own (n, v) rel ∈ e.pathOf var

/-- an own element of `e` is still in `e'` unless its product has no record there -/
def Kept (e e' : Env) : Prop :=
  ∀ var p rel, Elem.own p rel ∈ e.pathOf var → Elem.own p rel ∈ e'.pathOf var ∨ e'.rec? p.1 = none

theorem Kept.refl (e : Env) : Kept e e := fun _ _ _ h => Or.inl h

theorem Kept.trans {a b c : Env} (h1 : Kept a b) (h2 : Kept b c) (hs : Sub c b) : Kept a c := by
  intro var p rel hm
  rcases h1 var p rel hm with h | h
  · exact h2 var p rel h
  · right
    cases hc : c.rec? p.1 with
    | none => rfl
    | some v => rw [hs.recs p.1 v hc] at h; cases h

theorem present_of_kept {cfg : Cfg} {Y : Name → Prop} {e e' : Env} (hp : Present cfg Y e) (hs : Sub e' e)
    (hk : Kept e e') : Present cfg Y e' := by
  intro n v hy hr var vals app rel hline hval
  rcases hk var (n, v) rel (hp n v hy (hs.recs n v hr) var vals app rel hline hval) with h | h
  · exact h
  · rw [hr] at h; cases h

theorem mem_addPath_of_mem (e : Env) (var var2 : Str) (xs : List Elem) (y : Elem) (b : Bool) (h : y ∈ e.pathOf var2) :
    y ∈ (e.addPath var xs b).pathOf var2 := by
  by_cases hv : var2 = var
  · subst hv; exact (mem_pathOf_addPath_same e var2 xs y b).2 (Or.inr h)
  · rw [pathOf_addPath_other e var var2 xs b hv]; exact h

theorem mem_removePath_of_mem (e : Env) (var var2 : Str) (xs : List Elem) (y : Elem) (h : y ∈ e.pathOf var2)
    (hne : y ∉ xs) : y ∈ (e.removePath var xs).pathOf var2 := by
  by_cases hv : var2 = var
  · subst hv; exact (mem_pathOf_removePath_same e var2 xs y).2 ⟨h, hne⟩
  · rw [pathOf_removePath_other e var var2 xs hv]; exact h

theorem pathOf_apply_set (fwd : Bool) (p : Prod) (v : Str) (val : Val) (s : St) (var : Str) :
    ((Act.set v val).apply fwd p s).env.pathOf var = s.env.pathOf var := by cases fwd <;> rfl

theorem pathOf_apply_alias (fwd : Bool) (p : Prod) (k v : Str) (s : St) (var : Str) :
    ((Act.alias k v).apply fwd p s).env.pathOf var = s.env.pathOf var := by cases fwd <;> rfl

/-- forward actions only add -/
theorem mem_apply_true_of_mem (p : Prod) (a : Act) (s : St) (var : Str) (y : Elem) (h : y ∈ s.env.pathOf var) :
    y ∈ (a.apply true p s).env.pathOf var := by
  cases a with
  | prepend v val app => exact mem_addPath_of_mem s.env v var _ y app h
  | set v val => rw [pathOf_apply_set]; exact h
  | alias k v => rw [pathOf_apply_alias]; exact h
  | dep n o j v x t kl => exact h

/-- an own element of another product survives any action done for `p` -/
theorem mem_apply_of_mem_other (fwd : Bool) (p : Prod) (a : Act) (s : St) (var : Str) (q : Prod) (rel : Str)
    (hq : q ≠ p) (h : Elem.own q rel ∈ s.env.pathOf var) : Elem.own q rel ∈ (a.apply fwd p s).env.pathOf var := by
  cases fwd with
  | true => exact mem_apply_true_of_mem p a s var _ h
  | false =>
    cases a with
    | prepend v vals app =>
      refine mem_removePath_of_mem s.env v var _ _ h ?_
      intro hm
      obtain ⟨val, _, he⟩ := List.mem_map.1 hm
      cases val with
      | own r => simp [Val.elem] at he; exact hq he.1.symm
      | lit t => simp [Val.elem] at he
    | set v val => rw [pathOf_apply_set]; exact h
    | alias k v => rw [pathOf_apply_alias]; exact h
    | dep n o j v x t kl => exact h

/-! ### unsetup direction: `Kept` -/

def UnKept (cfg : Cfg) (rec : Rec) : Prop :=
  ∀ depth noRec vro n ver vexpr s s', WellOwned cfg s.env → rec false depth noRec vro n ver vexpr s = .ok s' →
    Kept s.env s'.env

theorem noResidue_true (e : Env) : NoResidue (fun _ => True) e :=
  ⟨fun _ _ _ _ => Or.inl trivial, fun _ _ _ _ => Or.inl trivial, fun _ _ _ _ => Or.inl trivial⟩

theorem acts_false_kept (cfg : Cfg) (rec : Rec) (hun : UnSpec cfg rec) (hrec : UnKept cfg rec) (depth : Nat)
    (noRec : Bool) (vro : List VroEnt) (d : Decl) (l : List Act) :
    ∀ s s', WellOwned cfg s.env → s.env.rec? d.name = none → acts rec cfg false depth noRec vro d l s = .ok s' →
      Kept s.env s'.env := by
  induction l with
  | nil => intro s s' _ _ h; simp [acts] at h; subst h; exact Kept.refl _
  | cons a rest ih =>
    intro s s' hw hr h
    by_cases hdep : ∃ n o j v x t kl, a = .dep n o j v x t kl
    · obtain ⟨n, o, j, v, x, t, kl, rfl⟩ := hdep
      simp only [acts] at h
      split at h
      · exact ih s s' hw hr h
      · split at h
        · rename_i s1 hr1
          obtain ⟨_, hs1⟩ := hun (fun _ => True) _ _ _ _ _ _ _ _ hw (noResidue_true _) hr1
          have hw1 := hw.of_sub hs1
          have hr1' : s1.env.rec? d.name = none := by
            cases hc : s1.env.rec? d.name with
            | none => rfl
            | some v => rw [hs1.recs _ _ hc] at hr; cases hr
          obtain ⟨_, hs2, _, _⟩ := acts_false_spec cfg rec hun (fun _ => True) depth noRec vro d rest s1 s' hw1 (noResidue_true _) h
          exact (hrec _ _ _ _ _ _ _ _ hw hr1).trans (ih s1 s' hw1 hr1' h) hs2
        · cases h
        · rename_i s1 hr1
          simp only [Bool.false_and, Bool.false_eq_true, if_false] at h
          exact ih ⟨s.env, s.aliases, s.unaliased, s1.already, s1.cache⟩ s' hw hr h
        · rename_i s1 hr1
          simp only [Bool.false_and, Bool.false_eq_true, if_false] at h
          exact ih ⟨s.env, s.aliases, s.unaliased, s1.already, s1.cache⟩ s' hw hr h
    · have hnd : ∀ n o j v x t kl, a ≠ .dep n o j v x t kl := fun n o j v x t kl e => hdep ⟨n, o, j, v, x, t, kl, e⟩
      rw [acts_cons_nondep rec cfg false depth noRec vro d a rest s hnd] at h
      obtain ⟨hs1, hrec1, _, _⟩ := apply_false_spec d.prod a s
      have hw1 := hw.of_sub hs1
      have hr1 : (a.apply false d.prod s).env.rec? d.name = none := by rw [hrec1]; exact hr
      obtain ⟨_, hs2, _, _⟩ := acts_false_spec cfg rec hun (fun _ => True) depth noRec vro d rest _ s' hw1 (noResidue_true _) h
      have hk1 : Kept s.env (a.apply false d.prod s).env := by
        intro var p rel hm
        by_cases hp : p = d.prod
        · right; rw [hp, hrec1]; exact hr
        · left; exact mem_apply_of_mem_other false d.prod a s var p rel hp hm
      exact hk1.trans (ih _ s' hw1 hr1 h) hs2

theorem setup_false_kept (cfg : Cfg) : ∀ fuel, UnKept cfg (setup cfg fuel) := by
  intro fuel
  induction fuel with
  | zero => intro depth noRec vro n ver vexpr s s' _ h; simp [setup_zero] at h
  | succ k ih =>
    intro depth noRec vro n ver vexpr s s' hw h
    rw [setup_succ_false] at h
    cases hsp : setupProd cfg.db s.env n with
    | none => rw [hsp] at h; cases h
    | some d =>
      rw [hsp] at h
      have hs0 : Sub ({ s.env with dirs := aunset s.env.dirs d.name, recs := aunset s.env.recs d.name } : Env) s.env :=
        ⟨fun _ _ h => h, fun _ _ h => h, fun n x h => (aget_aunset_some _ _ _ _ h).1,
         fun n v h => (aget_aunset_some _ _ _ _ h).1⟩
      have := acts_false_kept cfg (setup cfg k) (setup_false_spec cfg k) ih depth noRec vro d (d.actions cfg.exact)
        ⟨{ s.env with dirs := aunset s.env.dirs d.name, recs := aunset s.env.recs d.name }, s.aliases, s.unaliased, s.already, s.cache⟩
        s' (hw.of_sub hs0) (aget_aunset_same _ _) h
      intro var p rel hm
      exact this var p rel hm

/-! ### forward direction: elements of names of higher rank survive a request -/

def KeepHigher (cfg : Cfg) (rank : Name → Nat) (rec : Rec) : Prop :=
  ∀ fwd depth noRec vro n ver vexpr s s', AlreadyOK cfg.db s.already → rec fwd depth noRec vro n ver vexpr s = .ok s' →
    ∀ var p rel, rank n < rank p.1 → Elem.own p rel ∈ s.env.pathOf var → Elem.own p rel ∈ s'.env.pathOf var

theorem setup_keepHigher (cfg : Cfg) (rank : Name → Nat) (hdag : NameDag cfg.db rank) :
    ∀ fuel, KeepHigher cfg rank (setup cfg fuel) := by
  intro fuel fwd depth noRec vro n ver vexpr s s' ha h var p rel hp hm
  have hcl : ClosedAt cfg (fun _ m => rank m ≤ rank n) := by
    intro d hd k hS _ g n' o j v x t kl hg
    have := hdag d hd g n' o j v x t kl hg
    omega
  have hP : SubjInv cfg (fun _ m => rank m ≤ rank n) (fun e => Elem.own p rel ∈ e.pathOf var) := by
    refine ⟨?_, fun _ _ _ _ _ _ hp => hp, fun _ _ _ _ _ hp => hp⟩
    intro fwd' k d a s0 _ _ hS hp0
    refine mem_apply_of_mem_other fwd' d.prod a s0 var p rel ?_ hp0
    intro e
    have : p.1 = d.name := by rw [e]; rfl
    rw [this] at hp; omega
  exact setup_subjInv cfg _ _ hcl hP fuel fwd depth noRec vro n ver vexpr s s' (Nat.le_refl _) ha hm h

end EupsModel.Setup

namespace EupsModel.Setup

/-! ### forward direction: `Present` -/

def PresSpec (cfg : Cfg) (rank : Name → Nat) (rec : Rec) : Prop :=
  ∀ (Y : Name → Prop) fwd depth noRec vro n ver vexpr s s', (∀ y, Y y → rank n < rank y) →
    AlreadyOK cfg.db s.already → WellOwned cfg s.env → NoResidue Empty s.env → Present cfg Y s.env →
    rec fwd depth noRec vro n ver vexpr s = .ok s' → Present cfg Y s'.env

theorem present_apply_true (cfg : Cfg) (Y : Name → Prop) (p : Prod) (a : Act) (s : St) (h : Present cfg Y s.env) :
    Present cfg Y (a.apply true p s).env := by
  intro n v hy hr var vals app rel hline hval
  rw [apply_rec?] at hr
  exact mem_apply_true_of_mem p a s var _ (h n v hy hr var vals app rel hline hval)

theorem acts_true_present (cfg : Cfg) (rank : Name → Nat) (rec : Rec) (hrec : RecOK cfg rank rec)
    (hkh : KeepHigher cfg rank rec) (hps : PresSpec cfg rank rec) (Y : Name → Prop) (depth : Nat) (noRec : Bool)
    (vro : List VroEnt) (d : Decl) (hY : ∀ y, Y y → rank d.name < rank y) (l : List Act)
    (hl : ∀ n o j v x t kl, Act.dep n o j v x t kl ∈ l → rank n < rank d.name) :
    ∀ s s', AlreadyOK cfg.db s.already → WellOwned cfg s.env → NoResidue Empty s.env →
      s.env.rec? d.name = some d.ver → Present cfg (fun m => Y m ∨ m = d.name) s.env →
      (∀ a ∈ l, a ∈ tableOf cfg d.prod) →
      acts rec cfg true depth noRec vro d l s = .ok s' →
      Present cfg (fun m => Y m ∨ m = d.name) s'.env ∧
      (∀ var rel, Elem.own d.prod rel ∈ s.env.pathOf var → Elem.own d.prod rel ∈ s'.env.pathOf var) ∧
      (∀ var vals app rel, Act.prepend var vals app ∈ l → Val.own rel ∈ vals → Elem.own d.prod rel ∈ s'.env.pathOf var) := by
  induction l with
  | nil =>
    intro s s' _ _ _ _ hp _ h
    simp [acts] at h; subst h
    exact ⟨hp, fun _ _ h => h, by simp⟩
  | cons a rest ih =>
    have hl' : ∀ n o j v x t kl, Act.dep n o j v x t kl ∈ rest → rank n < rank d.name :=
      fun n o j v x t kl hm => hl n o j v x t kl (List.mem_cons_of_mem _ hm)
    intro s s' ha hw hn hr hp hc h
    have hc' : ∀ a ∈ rest, a ∈ tableOf cfg d.prod := fun a hm => hc a (List.mem_cons_of_mem _ hm)
    by_cases hdep : ∃ n o j v x t kl, a = .dep n o j v x t kl
    · obtain ⟨n, o, j, v, x, t, kl, rfl⟩ := hdep
      have hnr : rank n < rank d.name := hl n o j v x t kl (by simp)
      have tail : ∀ s1 : St, AlreadyOK cfg.db s1.already → WellOwned cfg s1.env → NoResidue Empty s1.env →
          s1.env.rec? d.name = some d.ver → Present cfg (fun m => Y m ∨ m = d.name) s1.env →
          (∀ var rel, Elem.own d.prod rel ∈ s.env.pathOf var → Elem.own d.prod rel ∈ s1.env.pathOf var) →
          acts rec cfg true depth noRec vro d rest s1 = .ok s' →
          Present cfg (fun m => Y m ∨ m = d.name) s'.env ∧
          (∀ var rel, Elem.own d.prod rel ∈ s.env.pathOf var → Elem.own d.prod rel ∈ s'.env.pathOf var) ∧
          (∀ var vals app rel, Act.prepend var vals app ∈ Act.dep n o j v x t kl :: rest → Val.own rel ∈ vals →
            Elem.own d.prod rel ∈ s'.env.pathOf var) := by
        intro s1 h1 hw1 hn1 hr1 hp1 hk1 hacts
        obtain ⟨hp2, hk2, ha2⟩ := ih hl' s1 s' h1 hw1 hn1 hr1 hp1 hc' hacts
        exact ⟨hp2, fun var rel hm => hk2 var rel (hk1 var rel hm),
               fun var vals app rel hm hval => ha2 var vals app rel (by simpa using hm) hval⟩
      simp only [acts] at h
      split at h
      · exact tail s ha hw hn hr hp (fun _ _ h => h) h
      · split at h
        · rename_i s1 hr1
          obtain ⟨hn1, hw1⟩ := hrec.spec _ _ _ _ _ _ _ _ _ ha hw hn hr1
          have hrec1 : s1.env.rec? d.name = some d.ver := by
            rw [hrec.frame _ _ _ _ _ _ _ _ _ ha hr1 d.name (by intro e; rw [e] at hnr; omega) (by omega)]; exact hr
          have hp1 := hps (fun m => Y m ∨ m = d.name) _ _ _ _ _ _ _ _ _
            (by intro y hy; rcases hy with hy | hy
                · have := hY y hy; omega
                · rw [hy]; exact hnr) ha hw hn hp hr1
          exact tail s1 (hrec.already _ _ _ _ _ _ _ _ _ ha (by rw [hr1]; rfl)) hw1 hn1 hrec1 hp1
            (fun var rel hm => hkh _ _ _ _ _ _ _ _ _ ha hr1 var d.prod rel hnr hm) h
        · cases h
        · rename_i s1 hr1
          have h1 : AlreadyOK cfg.db s1.already := hrec.already _ _ _ _ _ _ _ _ _ ha (by rw [hr1]; rfl)
          split at h
          · cases h
          · exact tail ⟨s.env, s.aliases, s.unaliased, s1.already, s1.cache⟩ h1 hw hn hr hp (fun _ _ h => h) h
        · rename_i s1 hr1
          have h1 : AlreadyOK cfg.db s1.already := hrec.already _ _ _ _ _ _ _ _ _ ha (by rw [hr1]; rfl)
          split at h
          · cases h
          · exact tail ⟨s.env, s.aliases, s.unaliased, s1.already, s1.cache⟩ h1 hw hn hr hp (fun _ _ h => h) h
    · have hnd : ∀ n o j v x t kl, a ≠ .dep n o j v x t kl := fun n o j v x t kl e => hdep ⟨n, o, j, v, x, t, kl, e⟩
      rw [acts_cons_nondep rec cfg true depth noRec vro d a rest s hnd] at h
      obtain ⟨hn1, hw1⟩ := apply_true_spec cfg d.prod a s (hc a (by simp)) hr hw hn
      obtain ⟨hp2, hk2, ha2⟩ := ih hl' (a.apply true d.prod s) s' (by simpa using ha) hw1 hn1
        (by rw [apply_rec?]; exact hr) (present_apply_true cfg _ d.prod a s hp) hc' h
      refine ⟨hp2, fun var rel hm => hk2 var rel (mem_apply_true_of_mem d.prod a s var _ hm), ?_⟩
      intro var vals app rel hm hval
      simp only [List.mem_cons] at hm
      rcases hm with hm | hm
      · subst hm
        exact hk2 var rel ((mem_pathOf_addPath_same s.env var _ _ app).2
          (Or.inl (List.mem_map.2 ⟨Val.own rel, hval, rfl⟩)))
      · exact ha2 var vals app rel hm hval

theorem present_record (cfg : Cfg) (Y : Name → Prop) (d : Decl) (r : Option VroEnt) (s : St) (h : Present cfg Y s.env) :
    Present cfg (fun m => Y m ∨ m = d.name) (record d r s).env := by
  intro n v hy hr var vals app rel hline hval
  have hne : n ≠ d.name := fun e => hy (Or.inr e)
  rw [record_rec?_other d r s n hne] at hr
  exact h n v (fun hyn => hy (Or.inl hyn)) hr var vals app rel hline hval

theorem install_present (cfg : Cfg) (rank : Name → Nat) (hdag : NameDag cfg.db rank) (rec : Rec)
    (hrec : RecOK cfg rank rec) (hkh : KeepHigher cfg rank rec) (huk : UnKept cfg rec) (hps : PresSpec cfg rank rec)
    (Y : Name → Prop) (depth : Nat) (noRec : Bool) (vro : List VroEnt) (d : Decl) (reason : Option VroEnt)
    (hc : Canon cfg.db d) (hY : ∀ y, Y y → rank d.name < rank y) (s s' : St) (ha : AlreadyOK cfg.db s.already)
    (hw : WellOwned cfg s.env) (hn : NoResidue Empty s.env) (hp : Present cfg Y s.env)
    (h : install rec cfg depth noRec vro d reason s = .ok s') : Present cfg Y s'.env := by
  have hdeps := canon_deps_rank cfg.db rank hdag d hc cfg.exact
  have htab := tableOf_canon cfg d hc
  -- from a state whose invariants hold: write the records, run the table, collect
  have tail : ∀ s2 : St, AlreadyOK cfg.db s2.already → WellOwned cfg s2.env → NoResidue Empty s2.env →
      s2.env.rec? d.name = some d.ver → Present cfg (fun m => Y m ∨ m = d.name) s2.env →
      acts rec cfg true depth noRec vro d (d.actions cfg.exact) s2 = .ok s' → Present cfg Y s'.env := by
    intro s2 h2 hw2 hn2 hr2 hp2 hacts
    obtain ⟨hp3, _, ha3⟩ := acts_true_present cfg rank rec hrec hkh hps Y depth noRec vro d hY (d.actions cfg.exact)
      hdeps s2 s' h2 hw2 hn2 hr2 hp2 (fun a hm => by rw [htab]; exact hm) hacts
    have hr3 : s'.env.rec? d.name = some d.ver := by
      rw [acts_frame cfg rank rec hrec true depth noRec vro d (rank d.name) (d.actions cfg.exact) hdeps s2 s' h2 hacts
        d.name (Nat.le_refl _)]; exact hr2
    intro n v hy hr var vals app rel hline hval
    by_cases hnd : n = d.name
    · subst hnd
      rw [hr3] at hr
      have hv : d.ver = v := Option.some.inj hr
      subst hv
      have : tableOf cfg (d.name, d.ver) = d.actions cfg.exact := htab
      rw [this] at hline
      exact ha3 var vals app rel hline hval
    · exact hp3 n v (fun h => h.elim hy hnd) hr var vals app rel hline hval
  unfold install at h
  cases hsp : setupProd cfg.db s.env d.name with
  | none =>
    rw [hsp] at h
    obtain ⟨hn2, hw2⟩ := record_spec_gen cfg d reason s hw hn hsp
    exact tail (record d reason s) (alreadyOK_aset cfg.db _ ha d reason hc) hw2 hn2 (record_rec?_same d reason s)
      (present_record cfg Y d reason s hp) h
  | some sd =>
    rw [hsp] at h
    simp only at h
    split at h
    · simp at h; subst h; exact hp
    · split at h
      · cases h
      · rename_i s1 hr1
        obtain ⟨hn1, hs1⟩ := hrec.unspec Empty _ _ _ _ _ _ _ _ hw hn hr1
        have hw1 := hw.of_sub hs1
        have hp1 : Present cfg Y s1.env := present_of_kept hp hs1 (huk _ _ _ _ _ _ _ _ hw hr1)
        have hnone := hrec.unsets _ _ _ _ _ _ _ _ hw hr1
        obtain ⟨hn2, hw2⟩ := record_spec cfg d reason s1 hw1 hn1 hnone
        exact tail (record d reason s1)
          (alreadyOK_aset cfg.db _ (hrec.already _ _ _ _ _ _ _ _ _ ha (by rw [hr1]; rfl)) d reason hc) hw2 hn2
          (record_rec?_same d reason s1) (present_record cfg Y d reason s1 hp1) h
      · rename_i s1 hr1
        have := (hrec.unfail _ _ _ _ _ _ _ _).2 hr1
        rw [hsp] at this; cases this
      · rename_i s1 hr1
        exact absurd hr1 (hrec.unfail _ _ _ _ _ _ _ _).1

/-- C01 clause (b) for the products outside `Y`, by induction on fuel -/
theorem setup_presSpec (cfg : Cfg) (rank : Name → Nat) (hdag : NameDag cfg.db rank) :
    ∀ fuel, PresSpec cfg rank (setup cfg fuel) := by
  intro fuel
  induction fuel with
  | zero => intro Y fwd depth noRec vro n ver vexpr s s' _ _ _ _ _ h; simp [setup_zero] at h
  | succ k ih =>
    intro Y fwd depth noRec vro n ver vexpr s s' hY ha hw hn hp h
    cases fwd with
    | false =>
      obtain ⟨_, hs⟩ := setup_false_spec cfg (k + 1) Empty depth noRec vro n ver vexpr s s' hw hn h
      exact present_of_kept hp hs (setup_false_kept cfg (k + 1) depth noRec vro n ver vexpr s s' hw h)
    | true =>
      rw [setup_succ_true] at h
      cases hres : resolve cfg.db cfg.path cfg.keep s.already n ver vexpr depth vro.length vro with
      | none => rw [hres] at h; cases h
      | error => rw [hres] at h; cases h
      | found d reason =>
        rw [hres] at h
        obtain ⟨hc, hname⟩ := resolve_spec cfg.db cfg.path cfg.keep s.already ha n ver vexpr depth _ _ _ _ hres
        try simp only at h
        obtain ⟨hc, hname⟩ := pickDecl_spec cfg.db s.cache d _ hc hname
        revert h hc hname; generalize pickDecl cfg.db s.cache d = d; intro h hc hname
        exact install_present cfg rank hdag (setup cfg k) (setup_recOK cfg rank hdag k) (setup_keepHigher cfg rank hdag k)
          (setup_false_kept cfg k) ih Y depth noRec vro d reason hc (by rw [hname]; exact hY) _ s'
          (register_already cfg depth d reason (s.afterResolve cfg depth vro n ver vexpr) ha hc) (by rw [register_env]; exact hw)
          (by rw [register_env]; exact hn) (by rw [register_env]; exact hp) h

end EupsModel.Setup
