import EupsModel.Lemmas.VroSelectGen
/-! `selectVRO` on an arbitrary VRO dictionary list that may hold `warn` / `warn:N` entries: the two
placement theorems of `Lemmas/VroSelectGen.lean` without the simplifying hypothesis `ShapedBase.noWarn`.
The cleaning step `mergeWarnings none (dedupe [] l)` is characterised on any list: its entries are the
non-warning entries of `l` (first occurrences, in order) and entries `warn:<digits>` (`IsW`), which are
not version-type entries and are accepted by `_kindlySetPreferredTags`. -/
namespace EupsModel.Vro

theorem natToStr_digit (m : Nat) : ∀ d ∈ natToStr m, Str.isDigit d = true := by
  intro d hd
  unfold natToStr at hd
  obtain ⟨ch, hch, rfl⟩ := List.mem_map.mp hd
  have h := Nat.isDigit_of_mem_toDigits (by decide) (by decide) hch
  simp only [Char.isDigit, Bool.and_eq_true, decide_eq_true_eq] at h
  obtain ⟨h1, h2⟩ := h
  have h1' : 48 ≤ ch.toNat := by
    have := UInt32.le_iff_toNat_le.mp h1
    simpa using this
  have h2' : ch.toNat ≤ 57 := by
    have := UInt32.le_iff_toNat_le.mp h2
    simpa using this
  simp [Str.isDigit, h1', h2']

theorem natToStr_ne_nil (m : Nat) : natToStr m ≠ [] := by
  unfold natToStr
  intro h
  exact Nat.toDigits_ne_nil (List.map_eq_nil_iff.mp h)

/-- a `warn:<digits>` entry -/
def IsW (x : Str) : Prop := ∃ s, x = kWarnColon ++ s ∧ s ≠ [] ∧ ∀ d ∈ s, Str.isDigit d = true

theorem IsW.isVT {x : Str} (h : IsW x) : isVT x = false := by
  obtain ⟨s, rfl, _, _⟩ := h
  simp [Vro.isVT, kWarnColon, kVersion, kVersionBang, kVersionExpr]

theorem IsW.ne_typeExact {x : Str} (h : IsW x) : x ≠ kTypeExact := by
  obtain ⟨s, rfl, _, _⟩ := h
  simp [kWarnColon, kTypeExact]

theorem allDigits_of {s : Str} (hne : s ≠ []) (hd : ∀ d ∈ s, Str.isDigit d = true) : allDigits s = true := by
  unfold allDigits
  cases s with
  | nil => exact absurd rfl hne
  | cons a s => simpa using hd

theorem IsW.warnLevel {x : Str} (h : IsW x) : (warnLevel x).isSome = true := by
  obtain ⟨s, rfl, hne, hd⟩ := h
  unfold Vro.warnLevel
  have h1 : kWarnColon.isPrefixOf (kWarnColon ++ s) = true := by simp [kWarnColon]
  have h2 : (kWarnColon ++ s).drop kWarnColon.length = s := by simp
  simp [h1, h2, allDigits_of hne hd]

theorem IsW.isWarn {x : Str} (h : IsW x) : isWarn x = true := by
  obtain ⟨s, rfl, hne, hd⟩ := h
  unfold Vro.isWarn
  have h1 : kWarnColon.isPrefixOf (kWarnColon ++ s) = true := by simp [kWarnColon]
  have h2 : (kWarnColon ++ s).drop kWarnColon.length = s := by simp
  simp [h1, h2, allDigits_of hne hd]

theorem digit_ne_colon {d : Nat} (h : Str.isDigit d = true) : d ≠ colon := by
  intro hc; subst hc; revert h; decide

theorem IsW.kindly (c : VroCfg) {x : Str} (h : IsW x) : kindlyOne c x = .ok true := by
  obtain ⟨s, rfl, hne, hd⟩ := h
  have hnc : ∀ d ∈ s, d ≠ colon := fun d hm => digit_ne_colon (hd d hm)
  have h1 : kFileColon.isPrefixOf (kWarnColon ++ s) = false := by simp [kFileColon, kWarnColon, List.isPrefixOf]
  have h2 : (kWarnColon ++ s).contains colon = true := by simp [kWarnColon, colon]
  have h3 : ((kWarnColon ++ s).getLast? != some colon) = true := by
    rw [List.getLast?_append]
    cases hl : s.getLast? with
    | none => exact absurd (List.getLast?_eq_none_iff.mp hl) hne
    | some d =>
      have : d ∈ s := List.mem_of_getLast? hl
      have := hnc d this
      simpa using this
  have h4 : countColons (kWarnColon ++ s) = 1 := by
    unfold countColons
    have : s.filter (· == colon) = [] := by
      apply List.filter_eq_nil_iff.mpr
      intro d hm; simpa using hnc d hm
    rw [List.filter_append, this]; decide
  have h5 : splitColon0 (kWarnColon ++ s) = kWarn := by
    simp [splitColon0, kWarnColon, kWarn, colon, List.takeWhile]
  have h6 : c.recognized kWarn = true := by
    have : kWarn ∈ pseudoTags := by decide
    simp [VroCfg.recognized, this]
  have h23 : ((kWarnColon ++ s).contains colon && (kWarnColon ++ s).getLast? != some colon) = true := by
    rw [h2, h3]; rfl
  have h4' : (countColons (kWarnColon ++ s) != 1) = false := by rw [h4]; rfl
  unfold kindlyOne
  simp only [h1, h23, h4', h5, h6]
  rfl


theorem isW_natToStr (m : Nat) : IsW (kWarnColon ++ natToStr m) :=
  ⟨natToStr m, rfl, natToStr_ne_nil m, natToStr_digit m⟩

theorem isW_warn1 : IsW kWarn1 := ⟨[49], rfl, by decide, by decide⟩

/-! ## `dedupe` on any list -/

/-- the entries remembered after processing `A`: warn entries are never remembered -/
def seenW (seen : List Str) : List Str → List Str
  | [] => seen
  | e :: rest => seenW (if seen.contains e || isWarn e then seen else e :: seen) rest

theorem mem_seenW {x : Str} {seen A : List Str} (h : x ∈ seenW seen A) : x ∈ seen ∨ x ∈ A := by
  induction A generalizing seen with
  | nil => exact Or.inl h
  | cons e rest ih =>
    simp only [seenW] at h
    rcases ih h with h | h
    · split at h
      · exact Or.inl h
      · rcases List.mem_cons.mp h with h | h
        · exact Or.inr (by simp [h])
        · exact Or.inl h
    · exact Or.inr (List.mem_cons_of_mem _ h)

theorem dedupe_appendW (seen A rest : List Str) :
    dedupe seen (A ++ rest) = dedupe seen A ++ dedupe (seenW seen A) rest := by
  induction A generalizing seen with
  | nil => simp [dedupe, seenW]
  | cons e A ih =>
    simp only [List.cons_append, dedupe, seenW]
    by_cases hc : seen.contains e = true
    · simp only [hc, if_true, Bool.true_or]
      exact ih seen
    · have hc' : seen.contains e = false := by simpa using hc
      by_cases hw : isWarn e = true
      · simp only [hc', hw, Bool.false_eq_true, if_false, if_true, Bool.or_true, List.cons_append]
        rw [ih seen]
      · have hw' : isWarn e = false := by simpa using hw
        simp only [hc', hw', Bool.false_eq_true, if_false, Bool.or_false, List.cons_append]
        rw [ih (e :: seen)]

theorem mem_dedupeW {x : Str} {seen l : List Str} (h : x ∈ dedupe seen l) :
    (x ∈ l ∧ x ∉ seen ∧ isWarn x = false) ∨ (warnLevel x).isSome = true := by
  induction l generalizing seen with
  | nil => simp [dedupe] at h
  | cons e rest ih =>
    simp only [dedupe] at h
    have lift : ∀ {s : List Str}, (x ∈ rest ∧ x ∉ s ∧ isWarn x = false) ∨ (warnLevel x).isSome = true →
        (∀ z, z ∈ seen → z ∈ s) →
        (x ∈ e :: rest ∧ x ∉ seen ∧ isWarn x = false) ∨ (warnLevel x).isSome = true := by
      intro s h hs
      rcases h with ⟨h1, h2, h3⟩ | h
      · exact Or.inl ⟨List.mem_cons_of_mem _ h1, fun hm => h2 (hs x hm), h3⟩
      · exact Or.inr h
    by_cases hc : seen.contains e = true
    · simp only [hc, if_true] at h
      exact lift (ih h) (fun z hz => hz)
    · have hc' : seen.contains e = false := by simpa using hc
      have hes : e ∉ seen := by simpa using hc'
      simp only [hc', Bool.false_eq_true, if_false] at h
      by_cases hw : isWarn e = true
      · simp only [hw, if_true] at h
        rcases List.mem_cons.mp h with h | h
        · right
          rw [h]
          by_cases hl : (warnLevel e).isSome = true
          · simp [hl]
          · simp only [hl, Bool.false_eq_true, if_false]; decide
        · exact lift (ih h) (fun z hz => hz)
      · have hw' : isWarn e = false := by simpa using hw
        simp only [hw', Bool.false_eq_true, if_false] at h
        rcases List.mem_cons.mp h with h | h
        · subst h
          exact Or.inl ⟨by simp, hes, hw'⟩
        · exact lift (ih h) (fun z hz => List.mem_cons_of_mem _ hz)

theorem mem_dedupeW_of_mem {x : Str} {seen l : List Str} (hx : x ∈ l) (hs : x ∉ seen)
    (hw : isWarn x = false) : x ∈ dedupe seen l := by
  induction l generalizing seen with
  | nil => cases hx
  | cons e rest ih =>
    simp only [dedupe]
    by_cases hxe : x = e
    · subst hxe
      simp [hs, hw]
    · have hxr : x ∈ rest := by
        rcases List.mem_cons.mp hx with h | h
        · exact absurd h hxe
        · exact h
      by_cases hc : seen.contains e = true
      · simp only [hc, if_true]
        exact ih hxr hs
      · have hc' : seen.contains e = false := by simpa using hc
        simp only [hc', Bool.false_eq_true, if_false]
        by_cases hwe : isWarn e = true
        · simp only [hwe, if_true]
          exact List.mem_cons_of_mem _ (ih hxr hs)
        · have hwe' : isWarn e = false := by simpa using hwe
          simp only [hwe', Bool.false_eq_true, if_false]
          apply List.mem_cons_of_mem
          apply ih hxr
          intro hm
          rcases List.mem_cons.mp hm with hm | hm
          · exact hxe hm
          · exact hs hm

/-! ## `mergeWarnings` on any list -/

/-- the pending warning, written out -/
def flushW : Option Nat → List Str
  | some m => [kWarnColon ++ natToStr m]
  | none => []

def pendMin : Option Nat → Nat → Nat
  | some m, n => min m n
  | none, n => n

theorem mem_flushW {x : Str} {pend : Option Nat} (h : x ∈ flushW pend) : IsW x := by
  cases pend with
  | none => cases h
  | some m =>
    simp only [flushW, List.mem_singleton] at h
    exact h ▸ isW_natToStr m

theorem mergeW_nil (pend : Option Nat) : mergeWarnings pend [] = flushW pend := by
  cases pend <;> rfl

theorem mergeW_cons_some {e : Str} {n : Nat} (h : warnLevel e = some n) (pend : Option Nat) (rest : List Str) :
    mergeWarnings pend (e :: rest) = mergeWarnings (some (pendMin pend n)) rest := by
  cases pend <;> simp [mergeWarnings, h, pendMin]

theorem mergeW_cons_none {e : Str} (h : warnLevel e = none) (pend : Option Nat) (rest : List Str) :
    mergeWarnings pend (e :: rest) = flushW pend ++ e :: mergeWarnings none rest := by
  cases pend <;> simp [mergeWarnings, h, flushW]

theorem mem_mergeW {x : Str} {pend : Option Nat} {l : List Str} (h : x ∈ mergeWarnings pend l) :
    (x ∈ l ∧ warnLevel x = none) ∨ IsW x := by
  induction l generalizing pend with
  | nil =>
    rw [mergeW_nil] at h
    exact Or.inr (mem_flushW h)
  | cons e rest ih =>
    cases hl : warnLevel e with
    | some n =>
      rw [mergeW_cons_some hl] at h
      rcases ih h with ⟨h1, h2⟩ | h
      · exact Or.inl ⟨List.mem_cons_of_mem _ h1, h2⟩
      · exact Or.inr h
    | none =>
      rw [mergeW_cons_none hl] at h
      rcases List.mem_append.mp h with h | h
      · exact Or.inr (mem_flushW h)
      · rcases List.mem_cons.mp h with h | h
        · subst h; exact Or.inl ⟨by simp, hl⟩
        · rcases ih h with ⟨h1, h2⟩ | h
          · exact Or.inl ⟨List.mem_cons_of_mem _ h1, h2⟩
          · exact Or.inr h

theorem mem_mergeW_of_mem {x : Str} {pend : Option Nat} {l : List Str} (hx : x ∈ l)
    (hw : warnLevel x = none) : x ∈ mergeWarnings pend l := by
  induction l generalizing pend with
  | nil => cases hx
  | cons e rest ih =>
    cases hl : warnLevel e with
    | some n =>
      rw [mergeW_cons_some hl]
      have hxe : x ≠ e := by intro h; rw [h, hl] at hw; cases hw
      rcases List.mem_cons.mp hx with h | h
      · exact absurd h hxe
      · exact ih h
    | none =>
      rw [mergeW_cons_none hl]
      apply List.mem_append_right
      rcases List.mem_cons.mp hx with h | h
      · simp [h]
      · exact List.mem_cons_of_mem _ (ih h)

/-- `mergeWarnings` around an entry that is not a `warn:N` -/
theorem mergeW_split {t : Str} (ht : warnLevel t = none) (pend : Option Nat) (X Y : List Str) :
    ∃ X', mergeWarnings pend (X ++ t :: Y) = X' ++ t :: mergeWarnings none Y ∧
      ∀ x ∈ X', (x ∈ X ∧ warnLevel x = none) ∨ IsW x := by
  induction X generalizing pend with
  | nil =>
    refine ⟨flushW pend, by rw [List.nil_append, mergeW_cons_none ht], ?_⟩
    intro x hx
    exact Or.inr (mem_flushW hx)
  | cons e X ih =>
    cases hl : warnLevel e with
    | some n =>
      obtain ⟨X', h1, h2⟩ := ih (some (pendMin pend n))
      refine ⟨X', by rw [List.cons_append, mergeW_cons_some hl, h1], ?_⟩
      intro x hx
      rcases h2 x hx with ⟨h3, h4⟩ | h3
      · exact Or.inl ⟨List.mem_cons_of_mem _ h3, h4⟩
      · exact Or.inr h3
    | none =>
      obtain ⟨X', h1, h2⟩ := ih none
      refine ⟨flushW pend ++ e :: X', by rw [List.cons_append, mergeW_cons_none hl, h1]; simp, ?_⟩
      intro x hx
      rcases List.mem_append.mp hx with hx | hx
      · exact Or.inr (mem_flushW hx)
      · rcases List.mem_cons.mp hx with hx | hx
        · subst hx; exact Or.inl ⟨by simp, hl⟩
        · rcases h2 x hx with ⟨h3, h4⟩ | h3
          · exact Or.inl ⟨List.mem_cons_of_mem _ h3, h4⟩
          · exact Or.inr h3

/-! ## duplicates out, warnings merged: `mergeWarnings none (dedupe [] l)` on any list -/

theorem mem_mergeDedupe {x : Str} {pend : Option Nat} {seen l : List Str}
    (h : x ∈ mergeWarnings pend (dedupe seen l)) : (x ∈ l ∧ x ∉ seen ∧ isWarn x = false) ∨ IsW x := by
  rcases mem_mergeW h with ⟨h1, h2⟩ | h
  · rcases mem_dedupeW h1 with h3 | h3
    · exact Or.inl h3
    · rw [h2] at h3; cases h3
  · exact Or.inr h

theorem mem_mergeDedupe_of_mem {x : Str} {pend : Option Nat} {seen l : List Str} (hx : x ∈ l)
    (hs : x ∉ seen) (hw : isWarn x = false) : x ∈ mergeWarnings pend (dedupe seen l) :=
  mem_mergeW_of_mem (mem_dedupeW_of_mem hx hs hw) (warnLevel_none_of_not_isWarn hw)

/-- the cleaned list around the first occurrence of an entry that is not a warning -/
theorem clean4_split {t : Str} {A : List Str} (B : List Str) (ht : isWarn t = false) (hA : t ∉ A) :
    ∃ X', mergeWarnings none (dedupe [] (A ++ t :: B)) =
        X' ++ t :: mergeWarnings none (dedupe (t :: seenW [] A) B) ∧
      ∀ x ∈ X', (x ∈ A ∧ isWarn x = false) ∨ IsW x := by
  have hS : t ∉ seenW [] A := by
    intro hm
    rcases mem_seenW hm with h | h
    · cases h
    · exact hA h
  have hd : dedupe [] (A ++ t :: B) = dedupe [] A ++ t :: dedupe (t :: seenW [] A) B := by
    rw [dedupe_appendW]; simp [dedupe, hS, ht]
  obtain ⟨X', h1, h2⟩ := mergeW_split (warnLevel_none_of_not_isWarn ht) none (dedupe [] A)
    (dedupe (t :: seenW [] A) B)
  refine ⟨X', by rw [hd, h1], ?_⟩
  intro x hx
  rcases h2 x hx with ⟨h3, h4⟩ | h3
  · rcases mem_dedupeW h3 with ⟨h5, _, h6⟩ | h5
    · exact Or.inl ⟨h5, h6⟩
    · rw [h4] at h5; cases h5
  · exact Or.inr h3

/-- (I1) -/
theorem beforeP_clean4 {P : Str → Prop} {t : Str} {l : List Str} (hP : ∀ x, IsW x → P x)
    (ht : isWarn t = false) (h : BeforeP P t l) : BeforeP P t (mergeWarnings none (dedupe [] l)) := by
  obtain ⟨A, B, rfl, hA, hvt⟩ := beforeP_first h
  obtain ⟨X', h1, h2⟩ := clean4_split B ht hA
  refine ⟨X', _, h1, ?_⟩
  intro x hx
  rcases h2 x hx with ⟨h3, _⟩ | h3
  · exact hvt x h3
  · exact hP x h3

/-- (I2) -/
theorem noVTBehind_clean4 {y : Str} {l : List Str} (hy : isWarn y = false) (h : NoVTBehind y l) :
    NoVTBehind y (mergeWarnings none (dedupe [] l)) := by
  intro pre post hsplit
  have hnW : ¬ IsW y := fun hw => by rw [hw.isWarn] at hy; cases hy
  have hyl : y ∈ l := by
    rcases mem_mergeDedupe (x := y) (by rw [hsplit]; simp) with ⟨h1, _, _⟩ | h1
    · exact h1
    · exact absurd h1 hnW
  obtain ⟨A, B, rfl, hA⟩ := first_occurrence hyl
  obtain ⟨X', h1, h2⟩ := clean4_split B hy hA
  have hX : y ∉ X' := by
    intro hm
    rcases h2 y hm with ⟨h3, _⟩ | h3
    · exact hA h3
    · exact hnW h3
  have hY : y ∉ mergeWarnings none (dedupe (y :: seenW [] A) B) := by
    intro hm
    rcases mem_mergeDedupe hm with ⟨_, h3, _⟩ | h3
    · exact h3 (by simp)
    · exact hnW h3
  have hpre : pre = X' := unique_split (h1.symm.trans hsplit) hX hY
  subst hpre
  have hpost : post = mergeWarnings none (dedupe (y :: seenW [] A) B) := by
    have := h1.symm.trans hsplit
    simpa using (List.append_cancel_left this).symm
  intro x hx
  rw [hpost] at hx
  rcases mem_mergeDedupe hx with ⟨h3, _, _⟩ | h3
  · exact h A B rfl x h3
  · exact h3.isVT

/-! ## `cleanVro` on any list (`userVRO = false`) -/

theorem cleanVro_eq {c : VroCfg} (hu : c.userVRO = false) (cmd : List Str) (inexact : Bool) (l : List Str) :
    cleanVro c cmd inexact l =
      (fun x => if inexact then x.filter (· != kTypeExact) else x)
        (if c.exact then makeVroExact c cmd (mergeWarnings none (dedupe [] l))
         else mergeWarnings none (dedupe [] l)) := by
  unfold cleanVro
  simp only [hu, Bool.false_eq_true, if_false]

/-- (I3) every entry of the cleaned list is a non-warning entry of the list, or a `warn:<digits>` -/
theorem mem_cleanVroW {c : VroCfg} (hu : c.userVRO = false) (cmd : List Str) (inexact : Bool) {l : List Str}
    {x : Str} (hx : x ∈ cleanVro c cmd inexact l) : (x ∈ l ∧ isWarn x = false) ∨ IsW x := by
  rw [cleanVro_eq hu] at hx
  have h0 : ∀ x, x ∈ mergeWarnings none (dedupe [] l) → (x ∈ l ∧ isWarn x = false) ∨ IsW x := by
    intro x hx
    rcases mem_mergeDedupe hx with ⟨h1, _, h2⟩ | h1
    · exact Or.inl ⟨h1, h2⟩
    · exact Or.inr h1
  have h2 : ∀ x, x ∈ (if c.exact then makeVroExact c cmd (mergeWarnings none (dedupe [] l))
      else mergeWarnings none (dedupe [] l)) → (x ∈ l ∧ isWarn x = false) ∨ IsW x := by
    intro x hx
    cases hc : c.exact
    · simp only [hc, Bool.false_eq_true, if_false] at hx
      exact h0 x hx
    · simp only [hc, if_true] at hx
      rcases mem_makeVroExact hu hx with h | h
      · exact h0 x h
      · exact Or.inr (h ▸ isW_warn1)
  cases inexact
  · exact h2 x hx
  · exact h2 x (List.mem_filter.mp hx).1

/-- (I3) a non-warning entry other than `type:exact` survives `cleanVro` -/
theorem mem_cleanVroW_of_mem {c : VroCfg} (hu : c.userVRO = false) (cmd : List Str) (inexact : Bool)
    {l : List Str} {x : Str} (hx : x ∈ l) (hw : isWarn x = false) (hne : x ≠ kTypeExact) :
    x ∈ cleanVro c cmd inexact l := by
  rw [cleanVro_eq hu]
  have hd : x ∈ mergeWarnings none (dedupe [] l) := mem_mergeDedupe_of_mem hx (by simp) hw
  have h2 : x ∈ (if c.exact then makeVroExact c cmd (mergeWarnings none (dedupe [] l))
      else mergeWarnings none (dedupe [] l)) := by
    cases hc : c.exact
    · simpa [hc] using hd
    · simp only [if_true]
      cases hm : movedByExact c cmd x
      · exact mem_makeVroExact_of_kept hu hd hm
      · exact mem_makeVroExact_of_moved hu hd hm
  cases inexact
  · exact h2
  · exact List.mem_filter.mpr ⟨h2, by simpa using hne⟩

theorem beforeP_cleanVroW {c : VroCfg} (hu : c.userVRO = false) (cmd : List Str) (inexact : Bool) {l : List Str}
    {P : Str → Prop} {t : Str} (hP : ∀ x, IsW x → P x) (hw : isWarn t = false)
    (hm : movedByExact c cmd t = false) (hne : t ≠ kTypeExact)
    (h : BeforeP P t l) : BeforeP P t (cleanVro c cmd inexact l) := by
  rw [cleanVro_eq hu]
  have h1 := beforeP_clean4 hP hw h
  have h2 : BeforeP P t (if c.exact then makeVroExact c cmd (mergeWarnings none (dedupe [] l))
      else mergeWarnings none (dedupe [] l)) := by
    cases hc : c.exact
    · simpa [hc] using h1
    · simpa [hc] using beforeP_makeVroExact c cmd hu hm h1
  cases inexact
  · exact h2
  · exact beforeP_filter _ (by simpa using hne) h2

theorem noVTBehind_cleanVroW {c : VroCfg} (hu : c.userVRO = false) (cmd : List Str) (inexact : Bool)
    {l : List Str} {y : Str} (hw : isWarn y = false)
    (hvt : ∀ x, isVT x = true → movedByExact c cmd x = false)
    (h : NoVTBehind y l) : NoVTBehind y (cleanVro c cmd inexact l) := by
  rw [cleanVro_eq hu]
  have hy1 : y ≠ kWarn1 := by intro h; rw [h] at hw; revert hw; decide
  have h1 := noVTBehind_clean4 hw h
  have h2 : NoVTBehind y (if c.exact then makeVroExact c cmd (mergeWarnings none (dedupe [] l))
      else mergeWarnings none (dedupe [] l)) := by
    cases hc : c.exact
    · simpa [hc] using h1
    · simpa [hc] using noVTBehind_makeVroExact_any c cmd hu hy1 hvt h1
  cases inexact
  · exact h2
  · exact noVTBehind_filter _ h2

/-! ## the shape hypothesis, without `noWarn` -/

/-- shape of a dictionary list for which the placement clauses hold; `warn` / `warn:N` entries allowed -/
structure ShapedBaseW (c : VroCfg) (base : List Str) : Prop where
  /-- every entry is accepted by `_kindlySetPreferredTags` -/
  kindly : ∀ x ∈ base, kindlyOne c x = .ok true
  /-- no version-type entry stands before the last `commandLine` / `type:*` entry -/
  split : ∃ H T, base = H ++ T ∧ (∀ x ∈ H, isVT x = false) ∧
    (∀ x ∈ T, (x == kCommandLine || isType x) = false)

theorem ShapedBase.toW {c : VroCfg} {base : List Str} (h : ShapedBase c base) : ShapedBaseW c base :=
  ⟨h.kindly, h.split⟩

theorem selectVRO_of_placedW (c : VroCfg) (a : VroArgs) (hu : c.userVRO = false) (base : List Str)
    (store : List Str → List (Str × VroVal)) (hcb : chooseBase c a a.tags = .ok (base, store))
    (v3 : List Str) (hpl : placeTags c.keep base a.tags a.postTags = .ok v3)
    (hk : ∀ x ∈ v3, kindlyOne c x = .ok true) :
    ∃ out, selectVRO c a = .ok out ∧
      out.vro = if (cleanVro c (cmdOf c a) a.inexact v3).isEmpty then c.prevPreferred
                else cleanVro c (cmdOf c a) a.inexact v3 := by
  have hok : ∀ x ∈ cleanVro c (cmdOf c a) a.inexact v3, kindlyOne c x = .ok true := by
    intro x hx
    rcases mem_cleanVroW hu _ a.inexact hx with h | h
    · exact hk x h.1
    · exact h.kindly c
  have hkk := kindly_all_ok' c _ hok
  unfold cmdOf at hkk
  unfold selectVRO cmdOf
  simp only [hu, Bool.false_and, Bool.false_eq_true, if_false, hcb, hpl, hkk]
  exact ⟨_, rfl, rfl⟩

theorem shaped_placedW (c : VroCfg) (a : VroArgs) (base : List Str) (hs : ShapedBaseW c base)
    (ht : ∀ t ∈ a.tags, GoodTag c t) (hp : ∀ t ∈ a.postTags, GoodTag c t)
    (hpost : a.postTags = [] ∨ a.tags ≠ [] ∨ ∃ x ∈ base, isVT x = true) :
    ∃ A1 B i, keepPart c.keep ++ base = A1 ++ B ∧ (∀ x ∈ A1, isVT x = false) ∧
      placeTags c.keep base a.tags a.postTags = .ok (insertAt (A1 ++ a.tags ++ B) i a.postTags) ∧
      (∀ x ∈ insertAt (A1 ++ a.tags ++ B) i a.postTags, kindlyOne c x = .ok true) ∧
      ((∃ x ∈ base, isVT x = true) → ∃ l1 e l2, A1 ++ a.tags ++ B = l1 ++ e :: l2 ∧
          i = l1.length + 1 ∧ isVT e = true ∧ ∀ x ∈ l2, isVT x = false) := by
  obtain ⟨H, T, rfl, hH, hT⟩ := hs.split
  obtain ⟨A1, A2, i, hA, hpl, hlast⟩ := placeTags_shaped c.keep H T a.tags a.postTags hT hpost
  have hKB : keepPart c.keep ++ (H ++ T) = A1 ++ (A2 ++ T) := by
    rw [← List.append_assoc, hA, List.append_assoc]
  have hmem : ∀ x ∈ insertAt (A1 ++ a.tags ++ (A2 ++ T)) i a.postTags,
      x = kKeep ∨ x ∈ H ++ T ∨ x ∈ a.tags ∨ x ∈ a.postTags := by
    intro x hx
    rcases mem_insertAt.mp hx with h | h
    · rcases mem_mid.mp h with h | h
      · rw [← hKB] at h
        rcases List.mem_append.mp h with h | h
        · left
          cases hk : c.keep
          · simp [keepPart, hk] at h
          · simpa [keepPart, hk] using h
        · exact Or.inr (Or.inl h)
      · exact Or.inr (Or.inr (Or.inl h))
    · exact Or.inr (Or.inr (Or.inr h))
  refine ⟨A1, A2 ++ T, i, hKB, ?_, hpl, ?_, hlast⟩
  · intro x hx
    have : x ∈ keepPart c.keep ++ H := by rw [hA]; exact List.mem_append_left _ hx
    rcases List.mem_append.mp this with h | h
    · cases hk : c.keep
      · simp [keepPart, hk] at h
      · have : x = kKeep := by simpa [keepPart, hk] using h
        rw [this]; decide
    · exact hH x h
  · intro x hx
    rcases hmem x hx with h | h | h | h
    · rw [h]; exact fixed_kindly (by simp [fixedWords])
    · exact hs.kindly x h
    · exact (ht x h).kindly
    · exact (hp x h).kindly

/-! ## the two placement theorems, warnings allowed -/

/-- **-t tags**, on a dictionary list that may hold `warn` / `warn:N` entries -/
theorem selectVRO_shapedW_pretag (c : VroCfg) (a : VroArgs) (hu : c.userVRO = false) (base : List Str)
    (store : List Str → List (Str × VroVal))
    (hcb : chooseBase c a a.tags = .ok (base, store)) (hs : ShapedBaseW c base)
    (ht : ∀ t ∈ a.tags, GoodTag c t) (hp : ∀ t ∈ a.postTags, GoodTag c t)
    (hpost : a.postTags = [] ∨ a.tags ≠ [] ∨ ∃ x ∈ base, isVT x = true) :
    ∃ out, selectVRO c a = .ok out ∧
      ∀ t ∈ a.tags, ∃ pre post, out.vro = pre ++ t :: post ∧ ∀ x ∈ pre, isVT x = false := by
  obtain ⟨A1, B, i, _, hA1, hpl, hk, _⟩ := shaped_placedW c a base hs ht hp hpost
  obtain ⟨out, hsel, hvro⟩ := selectVRO_of_placedW c a hu base store hcb _ hpl hk
  refine ⟨out, hsel, ?_⟩
  intro t htm
  have hcmd : cmdOf c a = a.tags := by
    unfold cmdOf
    cases hta : a.tags with
    | nil => rw [hta] at htm; cases htm
    | cons t ts => simp
  rw [hcmd] at hvro
  have hm : movedByExact c a.tags t = false := by
    rw [(ht t htm).moved]; simp [htm]
  have hb2 : BeforeP (fun x => isVT x = false) t (A1 ++ a.tags ++ B) := by
    obtain ⟨ta, tb, htab⟩ := List.append_of_mem htm
    refine ⟨A1 ++ ta, tb ++ B, by rw [htab]; simp, ?_⟩
    intro x hx
    rcases List.mem_append.mp hx with h | h
    · exact hA1 x h
    · exact (ht x (by rw [htab]; simp [h])).isVT
  have hb3 := beforeP_insertAt i a.postTags (fun x hx => (hp x hx).isVT) hb2
  obtain ⟨pre, post, h1, h2⟩ := beforeP_cleanVroW hu a.tags a.inexact (fun x hx => hx.isVT)
    (ht t htm).isWarn hm (ht t htm).ne_typeExact hb3
  refine ⟨pre, post, ?_, h2⟩
  rw [hvro, h1]
  simp

/-- **-T tags**, on a dictionary list that may hold `warn` / `warn:N` entries -/
theorem selectVRO_shapedW_posttag (c : VroCfg) (a : VroArgs) (g : GenCfg c) (base : List Str)
    (store : List Str → List (Str × VroVal))
    (hcb : chooseBase c a a.tags = .ok (base, store)) (hs : ShapedBaseW c base)
    (ht : ∀ t ∈ a.tags, GoodTag c t) (hp : ∀ t ∈ a.postTags, GoodTag c t)
    (hvt : ∃ x ∈ base, isVT x = true) :
    ∃ out, selectVRO c a = .ok out ∧ (∀ x ∈ base, isVT x = true → x ∈ out.vro) ∧
      ∀ y ∈ a.postTags, y ∉ a.tags → NoVTBehind y base →
        y ∈ out.vro ∧ ∀ pre post, out.vro = pre ++ y :: post → ∀ x ∈ post, isVT x = false := by
  obtain ⟨A1, B, i, hKB, hA1, hpl, hk, hlast⟩ :=
    shaped_placedW c a base hs ht hp (Or.inr (Or.inr hvt))
  obtain ⟨out, hsel, hvro⟩ := selectVRO_of_placedW c a g.user base store hcb _ hpl hk
  obtain ⟨l1, e, l2, hv2, hi, he, hl2⟩ := hlast hvt
  have vt_nw : ∀ x, isVT x = true → isWarn x = false ∧ x ≠ kTypeExact := by
    intro x hv
    have h3 : (x = kVersion ∨ x = kVersionBang) ∨ x = kVersionExpr := by simpa [isVT] using hv
    rcases h3 with (rfl | rfl) | rfl <;> exact ⟨by decide, by decide⟩
  have hbase : ∀ x ∈ base, x ∈ insertAt (A1 ++ a.tags ++ B) i a.postTags := by
    intro x hx
    apply mem_insertAt.mpr; left
    apply mem_mid.mpr; left
    rw [← hKB]; exact List.mem_append_right _ hx
  have hsurv : ∀ x ∈ base, isVT x = true →
      x ∈ cleanVro c (cmdOf c a) a.inexact (insertAt (A1 ++ a.tags ++ B) i a.postTags) := by
    intro x hx hv
    exact mem_cleanVroW_of_mem g.user _ a.inexact (hbase x hx) (vt_nw x hv).1 (vt_nw x hv).2
  have hne : (cleanVro c (cmdOf c a) a.inexact (insertAt (A1 ++ a.tags ++ B) i a.postTags)).isEmpty = false := by
    obtain ⟨x, hx, hv⟩ := hvt
    have := hsurv x hx hv
    cases hc : cleanVro c (cmdOf c a) a.inexact (insertAt (A1 ++ a.tags ++ B) i a.postTags) with
    | nil => rw [hc] at this; cases this
    | cons _ _ => rfl
  rw [hne] at hvro
  simp only [Bool.false_eq_true, if_false] at hvro
  refine ⟨out, hsel, ?_, ?_⟩
  · intro x hx hv; rw [hvro]; exact hsurv x hx hv
  · intro y hy hyt hyb
    have gy := hp y hy
    have hv3 : insertAt (A1 ++ a.tags ++ B) i a.postTags = (l1 ++ [e]) ++ a.postTags ++ l2 := by
      have e1 : l1 ++ e :: l2 = (l1 ++ [e]) ++ l2 := by simp
      have e2 : i = (l1 ++ [e]).length := by simp [hi]
      rw [hv2, e1, e2, insertAt_length]
    have hnv2 : NoVTBehind y (A1 ++ a.tags ++ B) := by
      apply noVTBehind_insert_mid _ hyt (fun z hz => (ht z hz).isVT)
      rw [← hKB]
      intro pre post hsplit x hx
      have hyk : y ∉ keepPart c.keep := by
        cases hkp : c.keep
        · simp [keepPart]
        · simp only [keepPart, if_true, List.mem_singleton]
          exact gy.ne_pseudo (by decide)
      obtain ⟨R, _, hb⟩ := suffix_of_not_mem hsplit hyk
      exact hyb R post hb x hx
    have hyl : y ∉ l1 ++ [e] := by
      intro hm
      rcases List.mem_append.mp hm with hm | hm
      · obtain ⟨p1, p2, rfl⟩ := List.append_of_mem hm
        have := hnv2 p1 (p2 ++ e :: l2) (by rw [hv2]; simp) e (by simp)
        rw [he] at this; cases this
      · simp only [List.mem_singleton] at hm
        have := gy.isVT
        rw [hm, he] at this; cases this
    have hnv3 : NoVTBehind y (insertAt (A1 ++ a.tags ++ B) i a.postTags) := by
      rw [hv3, List.append_assoc]
      intro pre post hsplit x hx
      obtain ⟨R, _, hrest⟩ := suffix_of_not_mem hsplit hyl
      have hxm : x ∈ a.postTags ++ l2 := by rw [hrest]; simp [hx]
      rcases List.mem_append.mp hxm with h | h
      · exact (hp x h).isVT
      · exact hl2 x h
    constructor
    · rw [hvro]
      exact mem_cleanVroW_of_mem g.user _ a.inexact (mem_insertAt.mpr (Or.inr hy)) gy.isWarn gy.ne_typeExact
    · rw [hvro]
      exact noVTBehind_cleanVroW g.user _ a.inexact gy.isWarn
        (fun x hx => vt_not_moved g.disjoint _ hx) hnv3

/-! ## the earlier theorems are special cases -/

example (c : VroCfg) (a : VroArgs) (hu : c.userVRO = false) (base : List Str)
    (store : List Str → List (Str × VroVal))
    (hcb : chooseBase c a a.tags = .ok (base, store)) (hs : ShapedBase c base)
    (ht : ∀ t ∈ a.tags, GoodTag c t) (hp : ∀ t ∈ a.postTags, GoodTag c t)
    (hpost : a.postTags = [] ∨ a.tags ≠ [] ∨ ∃ x ∈ base, isVT x = true) :
    ∃ out, selectVRO c a = .ok out ∧
      ∀ t ∈ a.tags, ∃ pre post, out.vro = pre ++ t :: post ∧ ∀ x ∈ pre, isVT x = false :=
  selectVRO_shapedW_pretag c a hu base store hcb hs.toW ht hp hpost

example (c : VroCfg) (a : VroArgs) (g : GenCfg c) (base : List Str)
    (store : List Str → List (Str × VroVal))
    (hcb : chooseBase c a a.tags = .ok (base, store)) (hs : ShapedBase c base)
    (ht : ∀ t ∈ a.tags, GoodTag c t) (hp : ∀ t ∈ a.postTags, GoodTag c t)
    (hvt : ∃ x ∈ base, isVT x = true) :
    ∃ out, selectVRO c a = .ok out ∧ (∀ x ∈ base, isVT x = true → x ∈ out.vro) ∧
      ∀ y ∈ a.postTags, y ∉ a.tags → NoVTBehind y base →
        y ∈ out.vro ∧ ∀ pre post, out.vro = pre ++ y :: post → ∀ x ∈ post, isVT x = false :=
  selectVRO_shapedW_posttag c a g base store hcb hs.toW ht hp hvt

/-! ## non-vacuity: dictionaries with warnings -/

def kWarn2 : Str := kWarnColon ++ [50]  -- 'warn:2'
def kWarn3 : Str := kWarnColon ++ [51]  -- 'warn:3'

/-- (3) a site dictionary with warnings:
`default: commandLine warn:2 warn version warn:3 warn:1 versionExpr current current latest` -/
def wBase : List Str :=
  [kCommandLine, kWarn2, kWarn, kVersion, kWarn3, kWarn1, kVersionExpr, kCurrent, kCurrent, kLatest]
def wCfg (keep exact : Bool) : VroCfg := gCfg [(kDefault, .flat wBase)] keep exact gGlobals []

/-- it is not a `ShapedBase` ... -/
example (keep exact : Bool) : ¬ ShapedBase (wCfg keep exact) wBase := by
  intro h
  have := h.noWarn kWarn2 (by decide)
  revert this; decide

/-- ... but it is a `ShapedBaseW` (the bare `warn` is accepted by `kindlyOne`: `warn` is a pseudo tag) -/
theorem wShaped (keep exact : Bool) : ShapedBaseW (wCfg keep exact) wBase :=
  ⟨by cases keep <;> cases exact <;> decide,
    ⟨[kCommandLine, kWarn2, kWarn], [kVersion, kWarn3, kWarn1, kVersionExpr, kCurrent, kCurrent, kLatest],
      rfl, by decide, by decide⟩⟩

/-- `setup -t beta -T stable p 1.0` on dictionary (3): both theorems apply ... -/
example (keep exact : Bool) : ∃ out, selectVRO (wCfg keep exact) (gArgs [gBeta] [gStable] none) = .ok out ∧
    (∀ t ∈ [gBeta], ∃ pre post, out.vro = pre ++ t :: post ∧ ∀ x ∈ pre, isVT x = false) ∧
    (∀ x ∈ wBase, isVT x = true → x ∈ out.vro) ∧
    (∀ y ∈ [gStable], y ∈ out.vro ∧ ∀ pre post, out.vro = pre ++ y :: post → ∀ x ∈ post, isVT x = false) := by
  have ht : ∀ t ∈ (gArgs [gBeta] [gStable] none).tags, GoodTag (wCfg keep exact) t :=
    fun t h => gGoodTag _ _ _ _ (by simp only [gArgs, List.mem_singleton] at h; simp [h])
  have hp : ∀ t ∈ (gArgs [gBeta] [gStable] none).postTags, GoodTag (wCfg keep exact) t :=
    fun t h => gGoodTag _ _ _ _ (by simp only [gArgs, List.mem_singleton] at h; simp [h])
  obtain ⟨o1, h1, p1⟩ := selectVRO_shapedW_pretag _ _ rfl wBase _ rfl (wShaped keep exact)
    ht hp (Or.inr (Or.inl (by decide)))
  obtain ⟨o2, h2, p2, p3⟩ := selectVRO_shapedW_posttag (wCfg keep exact) _ (gGenCfg _ keep exact []) wBase _ rfl (wShaped keep exact)
    ht hp ⟨kVersion, by decide, by decide⟩
  rw [h1] at h2
  cases h2
  refine ⟨o1, h1, p1, p2, fun y hy => p3 y hy ?_ ?_⟩
  · simp only [List.mem_singleton] at hy; subst hy; decide
  · intro pre post hsplit
    simp only [List.mem_singleton] at hy; subst hy
    exact absurd (by rw [hsplit]; simp) (by decide : gStable ∉ wBase)

/-- ... and the VRO is `commandLine beta warn:1 version warn:1 versionExpr stable current latest`
(`warn:2 warn` merged into `warn:1`, `warn:3 warn:1` into `warn:1`, the second `current` dropped):
`beta` precedes `version`, nothing version-type follows `stable` -/
example : (selectVRO (wCfg false false) (gArgs [gBeta] [gStable] none)).map (·.vro)
    = .ok [kCommandLine, gBeta, kWarn1, kVersion, kWarn1, kVersionExpr, gStable, kCurrent, kLatest] := by decide
/-- with `--keep --exact` -/
example : (selectVRO (wCfg true true) (gArgs [gBeta] [gStable] none)).map (·.vro)
    = .ok [kKeep, kCommandLine, gBeta, kWarn1, kVersion, kWarn1, kVersionExpr, gStable, kCurrent, kLatest] := by decide

/-- (4) `default: commandLine warn:2 version warn:3 warn:1 versionExpr current current latest`: a level other
than 1 survives the merge -/
def wBase2 : List Str :=
  [kCommandLine, kWarn2, kVersion, kWarn3, kWarn1, kVersionExpr, kCurrent, kCurrent, kLatest]
def wCfg2 (keep exact : Bool) : VroCfg := gCfg [(kDefault, .flat wBase2)] keep exact gGlobals []

theorem wShaped2 (keep exact : Bool) : ShapedBaseW (wCfg2 keep exact) wBase2 :=
  ⟨by cases keep <;> cases exact <;> decide,
    ⟨[kCommandLine, kWarn2], [kVersion, kWarn3, kWarn1, kVersionExpr, kCurrent, kCurrent, kLatest],
      rfl, by decide, by decide⟩⟩

example : (selectVRO (wCfg2 false false) (gArgs [gBeta] [gStable] none)).map (·.vro)
    = .ok [kCommandLine, gBeta, kWarn2, kVersion, kWarn1, kVersionExpr, gStable, kCurrent, kLatest] := by decide


end EupsModel.Vro
