import EupsModel.Model.Record
/-! Text-level round trip of the record printer and parser (C16). -/
set_option linter.unusedSimpArgs false
set_option linter.unusedVariables false
namespace EupsModel.Record

/-! ## String-level lemmas for the record printer / parser -/

/-- a value the round-trip theorem covers: non-empty, free of `#`, newline, carriage return and quote characters,
no blank at either end -/
structure Clean (s : Str) : Prop where
  ne : s ≠ []
  no35 : 35 ∉ s
  no10 : 10 ∉ s
  no13 : 13 ∉ s
  no34 : 34 ∉ s
  headNS : ∀ c, s.head? = some c → Str.isSpace c = false
  lastNS : ∀ c, s.getLast? = some c → Str.isSpace c = false

def Word (k : Str) : Prop := ∀ c ∈ k, isWord c = true
instance (k : Str) : Decidable (Word k) := by unfold Word; infer_instance

theorem dropWhile_all {p : Nat → Bool} (s : Str) (h : ∀ x ∈ s, p x = true) : s.dropWhile p = [] := by
  induction s with
  | nil => rfl
  | cons x r ih => simp [List.dropWhile, h x (by simp), ih (fun y hy => h y (by simp [hy]))]

theorem isWord_not_space (c : Nat) (h : isWord c = true) : Str.isSpace c = false := by
  simp only [isWord, Str.isAlnum, Str.isAlpha, Str.isUpper, Str.isLower, Str.isDigit, Str.isSpace,
    Bool.or_eq_true, Bool.and_eq_true, decide_eq_true_eq, beq_iff_eq] at h ⊢
  simp only [Bool.or_eq_false_iff, Bool.and_eq_false_iff, decide_eq_false_iff_not, beq_eq_false_iff_ne]
  omega

theorem takeWhile_append_stop {p : Nat → Bool} (k : Str) (c : Nat) (rest : Str) (hk : ∀ x ∈ k, p x = true) (hc : p c = false) :
    (k ++ c :: rest).takeWhile p = k := by
  induction k with
  | nil => simp [List.takeWhile, hc]
  | cons x r ih => simp [List.takeWhile, hk x (by simp), ih (fun y hy => hk y (by simp [hy]))]

theorem dropWhile_append_stop {p : Nat → Bool} (k : Str) (c : Nat) (rest : Str) (hk : ∀ x ∈ k, p x = true) (hc : p c = false) :
    (k ++ c :: rest).dropWhile p = c :: rest := by
  induction k with
  | nil => simp [List.dropWhile, hc]
  | cons x r ih => simp [List.dropWhile, hk x (by simp), ih (fun y hy => hk y (by simp [hy]))]

theorem takeWhile_all {p : Nat → Bool} (s : Str) (h : ∀ x ∈ s, p x = true) : s.takeWhile p = s := by
  induction s with
  | nil => rfl
  | cons x r ih => simp [List.takeWhile, h x (by simp), ih (fun y hy => h y (by simp [hy]))]

theorem dropWhile_head {p : Nat → Bool} (s : Str) (h : ∀ c, s.head? = some c → p c = false) : s.dropWhile p = s := by
  cases s with
  | nil => rfl
  | cons x r => simp [List.dropWhile, h x rfl]

theorem removeComment_id (s : Str) (h : 35 ∉ s) : removeComment s = s := by
  apply takeWhile_all
  intro x hx
  have : x ≠ 35 := fun e => h (e ▸ hx)
  simp [this]

theorem stripR_id (s : Str) (h : ∀ c, s.getLast? = some c → Str.isSpace c = false) : stripR s = s := by
  unfold stripR
  rw [dropWhile_head]
  · simp
  · intro c hc
    apply h c
    simpa [List.head?_reverse] using hc

theorem getLast?_append_ne (a b : Str) (hb : b ≠ []) : (a ++ b).getLast? = b.getLast? := by
  simp [List.getLast?_append, hb]
  cases h : b.getLast? with
  | none => simp [List.getLast?_eq_none_iff] at h; exact absurd h hb
  | some x => simp

/-- `strip` of an indented `KEY = value` line -/
theorem strip_kv (n : Nat) (K v : Str) (hK : Word K) (hKne : K ≠ []) (hv : v ≠ [])
    (hl : ∀ c, v.getLast? = some c → Str.isSpace c = false) :
    strip (List.replicate n 32 ++ (K ++ 32 :: 61 :: 32 :: v)) = K ++ 32 :: 61 :: 32 :: v := by
  unfold strip stripL
  have h1 : (List.replicate n 32 ++ (K ++ 32 :: 61 :: 32 :: v)).dropWhile Str.isSpace = K ++ 32 :: 61 :: 32 :: v := by
    cases K with
    | nil => exact absurd rfl hKne
    | cons c K' =>
      have hc : Str.isSpace c = false := isWord_not_space c (hK c (by simp))
      have := dropWhile_append_stop (p := Str.isSpace) (List.replicate n 32) c (K' ++ 32 :: 61 :: 32 :: v)
        (by intro x hx; simp at hx; rw [hx.2]; decide) hc
      simpa using this
  rw [h1]
  apply stripR_id
  intro c hc
  apply hl c
  have : (K ++ 32 :: 61 :: 32 :: v) = (K ++ [32, 61, 32]) ++ v := by simp
  rw [this, getLast?_append_ne _ _ hv] at hc
  exact hc

/-- `^(\w+)\s*=\s*(.*)` on `KEY = value` -/
theorem keyVal_kv (K v : Str) (hK : Word K) (hKne : K ≠ []) (hh : ∀ c, v.head? = some c → Str.isSpace c = false)
    (h10 : 10 ∉ v) : keyVal (K ++ 32 :: 61 :: 32 :: v) = some (K, v) := by
  unfold keyVal
  have hw32 : isWord 32 = false := by decide
  rw [takeWhile_append_stop K 32 _ hK hw32, dropWhile_append_stop K 32 _ hK hw32]
  have hKe : K.isEmpty = false := by cases K <;> simp_all
  have h2 : (32 :: 61 :: 32 :: v).dropWhile Str.isSpace = 61 :: 32 :: v := by
    have a : Str.isSpace 32 = true := by decide
    have b : Str.isSpace 61 = false := by decide
    simp [List.dropWhile, a, b]
  have h3 : (32 :: v).dropWhile Str.isSpace = v := by
    have a : Str.isSpace 32 = true := by decide
    simp only [List.dropWhile, a]
    exact dropWhile_head v hh
  have h4 : v.takeWhile (· != 10) = v := by
    apply takeWhile_all
    intro x hx
    have : x ≠ 10 := fun e => h10 (e ▸ hx)
    simp [this]
  simp only [hKe, Bool.false_eq_true, if_false, h2, h3, h4]

/-- a `KEY = value` line whose key starts with neither `E` nor `G` is no `End:`/`Group:` line -/
theorem isGroupEnd_kv (c : Nat) (K rest : Str) (h1 : c ≠ 69) (h2 : c ≠ 71) : isGroupEnd (c :: K ++ rest) = false := by
  have a : ¬ (69 = c) := fun e => h1 e.symm
  have b : ¬ (71 = c) := fun e => h2 e.symm
  simp [isGroupEnd, List.isPrefixOf, a, b]

theorem stripQuotePair_id (v : Str) (h : 34 ∉ v) : stripQuotePair v = v := by
  cases v with
  | nil => rfl
  | cons c r =>
    have : c ≠ 34 := fun e => h (by simp [e])
    simp only [stripQuotePair]
    split
    · rename_i heq; simp at heq; exact absurd heq.1 this
    · rfl

theorem stripQuote1_id (v : Str) (h : 34 ∉ v) : stripQuote1 v = v := by
  have hl : v.getLast? ≠ some 34 := by
    intro e
    exact h (List.mem_of_getLast? e)
  cases v with
  | nil => rfl
  | cons c r =>
    have : c ≠ 34 := fun e => h (by simp [e])
    simp only [stripQuote1]
    split
    · rename_i heq; simp at heq; exact absurd heq.1 this
    · simp [dropLastIf, hl]

theorem splitOn_append (c : Nat) (l rest : Str) (h : c ∉ l) : splitOn c (l ++ c :: rest) = l :: splitOn c rest := by
  induction l with
  | nil => simp [splitOn]
  | cons x r ih =>
    have hx : x ≠ c := fun e => h (by simp [e])
    have hr : c ∉ r := fun m => h (by simp [m])
    simp [splitOn, hx, ih hr]

theorem splitOn_unlines (ls : List Str) (h : ∀ l ∈ ls, 10 ∉ l) : splitOn 10 (unlines ls) = ls ++ [[]] := by
  induction ls with
  | nil => simp [unlines, splitOn]
  | cons l r ih =>
    simp only [unlines, List.cons_append]
    rw [splitOn_append 10 l _ (h l (by simp)), ih (fun x hx => h x (by simp [hx]))]

theorem vLines_append (st : VState) (a b : List Str) :
    vLines st (a ++ b) = match vLines st a with | .ok st' => vLines st' b | .error e => .error e := by
  induction a generalizing st with
  | nil => simp [vLines]
  | cons l r ih =>
    simp only [List.cons_append, vLines]
    cases vStep st l with
    | error e => rfl
    | ok st' => exact ih st'

/-- a line that is empty after stripping blanks and comments is skipped -/
theorem vStep_skip (st : VState) (raw : Str) (h : removeComment (strip raw) = []) : vStep st raw = .ok st := by
  simp [vStep, h]

theorem dset_same {β : Type} (l : List (Str × β)) (k : Str) (v : β) (h : dget l k = some v) : dset l k v = l := by
  induction l with
  | nil => simp [dget] at h
  | cons x r ih =>
    obtain ⟨a, b⟩ := x
    by_cases ha : a = k
    · subst ha; simp [dget] at h; subst h; simp [dset]
    · simp [dget, ha] at h; simp [dset, ha, ih h]

/-- `Group:` / `End:` with a current flavor whose block needs no fix-up changes nothing -/
theorem vStep_groupend (st : VState) (raw : Str) (line : Str) (h : removeComment (strip raw) = line) (hne : line ≠ [])
    (hg : isGroupEnd line = true)
    (hfl : st.flavor = none ∨ ∃ f i, st.flavor = some f ∧ f ≠ [] ∧ dget st.cur.flavors f = some i ∧ i.fixup = i) :
    vStep st raw = .ok st := by
  have hne' : line.isEmpty = false := by cases line <;> simp_all
  rcases hfl with h0 | ⟨f, i, hf, hfne, hget, hfix⟩
  · simp [vStep, h, hne', hg, h0, optTruthy]
  · have ht : optTruthy (some f) = true := by cases f <;> simp_all [optTruthy]
    simp only [vStep, h, hne', hg, hf, ht, hget, hfix, dset_same _ _ _ hget]
    simp only [Bool.false_eq_true, if_false, if_true]
    obtain ⟨⟨n, v, fl⟩, fv⟩ := st
    simp only at hf
    subst hf
    rfl

theorem word_no35 (K : Str) (hK : Word K) : 35 ∉ K := by
  intro h
  have := hK 35 h
  revert this; decide

/-- an (indented) `KEY = value` line with a clean value is handled by `vKeyVal` -/
theorem vStep_kv (st : VState) (n : Nat) (c : Nat) (K v : Str) (hK : Word (c :: K)) (h69 : c ≠ 69) (h71 : c ≠ 71)
    (hv : Clean v) : vStep st (List.replicate n 32 ++ ((c :: K) ++ 32 :: 61 :: 32 :: v)) = vKeyVal st (c :: K) v := by
  have hs := strip_kv n (c :: K) v hK (by simp) hv.ne hv.lastNS
  have h35 : 35 ∉ (c :: K) ++ 32 :: 61 :: 32 :: v := by
    intro h
    simp only [List.mem_append, List.mem_cons] at h
    rcases h with h | h | h | h | h
    · exact word_no35 _ hK (by simpa using h)
    · cases h
    · cases h
    · cases h
    · exact hv.no35 h
  have hr := removeComment_id _ h35
  have hg := isGroupEnd_kv c K (32 :: 61 :: 32 :: v) h69 h71
  have hk := keyVal_kv (c :: K) v hK (by simp) hv.headNS hv.no10
  simp only [vStep, hs, hr]
  simp only [List.cons_append] at hg hk ⊢
  simp [hg, hk]

theorem vKeyVal_field (st : VState) (K v f : Str) (i : Info) (key : Str) (hkey : lowerS K = key)
    (h1 : key ≠ kFile) (h2 : key ≠ kProduct) (h3 : key ≠ kVersion) (h4 : key ≠ kFlavor) (h5 : key ≠ kQualifiers)
    (hst : st.flavor = some f) (hget : dget st.cur.flavors f = some i) (h34 : 34 ∉ v) :
    vKeyVal st K v = .ok { st with cur := { st.cur with flavors := dset st.cur.flavors f (i.set key v) } } := by
  simp [vKeyVal, hkey, h1, h2, h3, h4, h5, hst, hget, stripQuotePair_id v h34]

theorem vKeyVal_product (st : VState) (K v : Str) (hkey : lowerS K = kProduct) (h34 : 34 ∉ v) :
    vKeyVal st K v = .ok (if optTruthy st.cur.name then st else { st with cur := { st.cur with name := some v } }) := by
  have h1 : kProduct ≠ kFile := by decide
  simp [vKeyVal, hkey, h1, stripQuote1_id v h34]

theorem vKeyVal_version (st : VState) (K v : Str) (hkey : lowerS K = kVersion) (h34 : 34 ∉ v) :
    vKeyVal st K v = .ok (if optTruthy st.cur.version then st else { st with cur := { st.cur with version := some v } }) := by
  have h1 : kVersion ≠ kFile := by decide
  have h2 : kVersion ≠ kProduct := by decide
  simp [vKeyVal, hkey, h1, h2, stripQuote1_id v h34]

theorem vKeyVal_flavor (st : VState) (K v : Str) (hkey : lowerS K = kFlavor) (h34 : 34 ∉ v) :
    vKeyVal st K v = .ok { cur := { st.cur with flavors :=
        if (dget st.cur.flavors v).isSome then st.cur.flavors else st.cur.flavors ++ [(v, {})] }, flavor := some v } := by
  have h1 : kFlavor ≠ kFile := by decide
  have h2 : kFlavor ≠ kProduct := by decide
  have h3 : kFlavor ≠ kVersion := by decide
  simp [vKeyVal, hkey, h1, h2, h3, stripQuote1_id v h34]

/-- a field label of the writer and the dictionary key the reader derives from it -/
def LabelOK (label key : Str) : Prop :=
  ∃ c K, label = List.replicate 3 32 ++ ((c :: K) ++ [32, 61, 32]) ∧ (∀ x ∈ c :: K, isWord x = true) ∧ c ≠ 69 ∧ c ≠ 71 ∧
    lowerS (c :: K) = key ∧ key ≠ kFile ∧ key ≠ kProduct ∧ key ≠ kVersion ∧ key ≠ kFlavor ∧ key ≠ kQualifiers

theorem labelOK_declarer : LabelOK lDeclarer kDeclarer := ⟨68, [69, 67, 76, 65, 82, 69, 82], by decide⟩
theorem labelOK_declared : LabelOK lDeclared kDeclared := ⟨68, [69, 67, 76, 65, 82, 69, 68], by decide⟩
theorem labelOK_modifier : LabelOK lModifier kModifier := ⟨77, [79, 68, 73, 70, 73, 69, 82], by decide⟩
theorem labelOK_modified : LabelOK lModified kModified := ⟨77, [79, 68, 73, 70, 73, 69, 68], by decide⟩
theorem labelOK_prodDir : LabelOK lProdDir kProdDir := ⟨80, [82, 79, 68, 95, 68, 73, 82], by decide⟩
theorem labelOK_upsDir : LabelOK lUpsDir kUpsDir := ⟨85, [80, 83, 95, 68, 73, 82], by decide⟩
theorem labelOK_tableFile : LabelOK lTableFile kTableFile := ⟨84, [65, 66, 76, 69, 95, 70, 73, 76, 69], by decide⟩

/-- a field line of a block sets that field of the current flavor's dictionary -/
theorem vStep_fld (st : VState) (f : Str) (i : Info) (label key v : Str) (hl : LabelOK label key)
    (hst : st.flavor = some f) (hget : dget st.cur.flavors f = some i) (hv : Clean v) :
    vStep st (label ++ v) = .ok { st with cur := { st.cur with flavors := dset st.cur.flavors f (i.set key v) } } := by
  obtain ⟨c, K, hlab, hw, h69, h71, hkey, h1, h2, h3, h4, h5⟩ := hl
  have hline : label ++ v = List.replicate 3 32 ++ ((c :: K) ++ 32 :: 61 :: 32 :: v) := by
    rw [hlab]; simp
  rw [hline, vStep_kv st 3 c K v hw h69 h71 hv]
  exact vKeyVal_field st (c :: K) v f i key hkey h1 h2 h3 h4 h5 hst hget hv.no34

/-- a field as the round-trip theorem covers it: absent, or a clean string -/
def GoodFld (x : Fld) : Prop := x = .absent ∨ ∃ v, x = .val v ∧ Clean v

def setF (j : Info) (key : Str) : Fld → Info
  | .val v => j.set key v
  | _ => j

theorem vLines_fld (st : VState) (f : Str) (j : Info) (label key : Str) (dflt : Option Str) (x : Fld) (rest : List Str)
    (hl : LabelOK label key) (hst : st.flavor = some f) (hget : dget st.cur.flavors f = some j) (hx : GoodFld x) :
    vLines st (fldLine label dflt x ++ rest) =
      vLines { st with cur := { st.cur with flavors := dset st.cur.flavors f (setF j key x) } } rest := by
  rcases hx with h | ⟨v, h, hv⟩
  · subst h
    simp only [fldLine, setF, List.nil_append, dset_same _ _ _ hget]
  · subst h
    cases v with
    | nil => exact absurd rfl hv.ne
    | cons a r =>
      simp only [fldLine, setF, List.singleton_append, vLines]
      rw [vStep_fld st f j label key (a :: r) hl hst hget hv]

theorem dget_dset_same {β : Type} (l : List (Str × β)) (k : Str) (v : β) (h : (dget l k).isSome) :
    dget (dset l k v) k = some v := by
  induction l with
  | nil => simp [dget] at h
  | cons x r ih =>
    obtain ⟨a, b⟩ := x
    by_cases ha : a = k
    · simp [dset, dget, ha]
    · simp [dget, ha] at h; simp [dset, dget, ha, ih h]

theorem dset_dset {β : Type} (l : List (Str × β)) (k : Str) (v w : β) : dset (dset l k v) k w = dset l k w := by
  induction l with
  | nil => simp [dset]
  | cons x r ih =>
    obtain ⟨a, b⟩ := x
    by_cases ha : a = k
    · simp [dset, ha]
    · simp [dset, ha, ih]

abbrev Spec := Str × Str × Option Str × Fld

def specLines (specs : List Spec) : List Str := specs.flatMap fun (l, _, d, x) => fldLine l d x
def specFold (j : Info) (specs : List Spec) : Info := specs.foldl (fun j (s : Spec) => setF j s.2.1 s.2.2.2) j

theorem vLines_specs (specs : List Spec) (f : Str) (rest : List Str)
    (hs : ∀ s ∈ specs, LabelOK s.1 s.2.1 ∧ GoodFld s.2.2.2) :
    ∀ (st : VState) (j : Info), st.flavor = some f → dget st.cur.flavors f = some j →
      vLines st (specLines specs ++ rest) =
        vLines { st with cur := { st.cur with flavors := dset st.cur.flavors f (specFold j specs) } } rest := by
  induction specs with
  | nil =>
    intro st j _ hget
    simp only [specLines, specFold, List.flatMap_nil, List.nil_append, List.foldl_nil, dset_same _ _ _ hget]
  | cons s r ih =>
    intro st j hst hget
    obtain ⟨l, k, d, x⟩ := s
    have hsome : (dget st.cur.flavors f).isSome := by simp [hget]
    have h1 := hs (l, k, d, x) (by simp)
    simp only [specLines, List.flatMap_cons, List.append_assoc]
    rw [vLines_fld st f j l k d x _ h1.1 hst hget h1.2]
    have := ih (fun s' hs' => hs s' (by simp [hs']))
      { st with cur := { st.cur with flavors := dset st.cur.flavors f (setF j k x) } } (setF j k x) hst
      (dget_dset_same _ _ _ hsome)
    simp only [specLines] at this
    rw [this]
    simp only [dset_dset, specFold, List.foldl_cons]

def fieldSpecs (i : Info) : List Spec :=
  [(lDeclarer, kDeclarer, none, i.declarer), (lDeclared, kDeclared, none, i.declared),
   (lModifier, kModifier, none, i.modifier), (lModified, kModified, none, i.modified),
   (lProdDir, kProdDir, some sNone, i.productDir), (lUpsDir, kUpsDir, none, i.upsDir),
   (lTableFile, kTableFile, some sNone, i.tableFile)]

theorem infoLines_eq (i : Info) : infoLines i = specLines (fieldSpecs i) := by
  simp [infoLines, specLines, fieldSpecs]

structure GoodFields (i : Info) : Prop where
  declarer : GoodFld i.declarer
  declared : GoodFld i.declared
  modifier : GoodFld i.modifier
  modified : GoodFld i.modified
  productDir : GoodFld i.productDir
  upsDir : GoodFld i.upsDir
  tableFile : GoodFld i.tableFile

theorem fieldSpecs_ok (i : Info) (hi : GoodFields i) : ∀ s ∈ fieldSpecs i, LabelOK s.1 s.2.1 ∧ GoodFld s.2.2.2 := by
  intro s hs
  simp only [fieldSpecs, List.mem_cons, List.not_mem_nil, or_false] at hs
  rcases hs with h | h | h | h | h | h | h <;> subst h
  · exact ⟨labelOK_declarer, hi.declarer⟩
  · exact ⟨labelOK_declared, hi.declared⟩
  · exact ⟨labelOK_modifier, hi.modifier⟩
  · exact ⟨labelOK_modified, hi.modified⟩
  · exact ⟨labelOK_prodDir, hi.productDir⟩
  · exact ⟨labelOK_upsDir, hi.upsDir⟩
  · exact ⟨labelOK_tableFile, hi.tableFile⟩

/-- reading back the field lines of a block, starting from the empty dictionary, gives the block -/
theorem specFold_fieldSpecs (i : Info) (hi : GoodFields i) : specFold {} (fieldSpecs i) = i := by
  obtain ⟨a, b, c, d, e, f, g⟩ := i
  obtain ⟨ha, hb, hc, hd, he, hf, hg⟩ := hi
  simp only at ha hb hc hd he hf hg
  rcases ha with rfl | ⟨_, rfl, _⟩ <;> rcases hb with rfl | ⟨_, rfl, _⟩ <;> rcases hc with rfl | ⟨_, rfl, _⟩ <;>
  rcases hd with rfl | ⟨_, rfl, _⟩ <;> rcases he with rfl | ⟨_, rfl, _⟩ <;> rcases hf with rfl | ⟨_, rfl, _⟩ <;>
  rcases hg with rfl | ⟨_, rfl, _⟩ <;> rfl

theorem dget_append_new {β : Type} (l : List (Str × β)) (k : Str) (v : β) (h : dget l k = none) :
    dget (l ++ [(k, v)]) k = some v := by
  induction l with
  | nil => simp [dget]
  | cons x r ih =>
    obtain ⟨a, b⟩ := x
    by_cases ha : a = k
    · simp [dget, ha] at h
    · simp [dget, ha] at h; simp [dget, ha, ih h]

theorem dset_append_new {β : Type} (l : List (Str × β)) (k : Str) (v w : β) (h : dget l k = none) :
    dset (l ++ [(k, v)]) k w = l ++ [(k, w)] := by
  induction l with
  | nil => simp [dset]
  | cons x r ih =>
    obtain ⟨a, b⟩ := x
    by_cases ha : a = k
    · simp [dget, ha] at h
    · simp [dget, ha] at h; simp [dset, ha, ih h]

theorem dget_append_old {β : Type} (l : List (Str × β)) (k k' : Str) (v : β) (h : k' ≠ k) :
    dget (l ++ [(k, v)]) k' = dget l k' := by
  induction l with
  | nil =>
    have : ¬ k = k' := fun e => h e.symm
    simp [dget, this]
  | cons x r ih =>
    obtain ⟨a, b⟩ := x
    by_cases ha : a = k' <;> simp [dget, ha, ih]

/-- a block as the round-trip theorem covers it -/
structure GoodInfo (i : Info) : Prop where
  fields : GoodFields i
  hasDir : i.productDir ≠ .absent
  hasTable : i.tableFile ≠ .absent
  hasUps : i.upsDir ≠ .absent ∨ ∃ t, i.tableFile = .val t ∧ isRealStr t = false

theorem fixup_good (i : Info) (h : GoodInfo i) : i.fixup = i := by
  obtain ⟨a, b, c, d, e, f, g⟩ := i
  obtain ⟨_, h1, h2, h3⟩ := h
  simp only at h1 h2 h3
  unfold Info.fixup
  simp only [h1, h2, if_false]
  rcases h3 with h3 | ⟨t, ht, hr⟩
  · simp [h3]
  · simp [ht, hr]

/-- the state the reader is in between two blocks -/
def PrevOK (st : VState) : Prop :=
  st.flavor = none ∨ ∃ f i, st.flavor = some f ∧ f ≠ [] ∧ dget st.cur.flavors f = some i ∧ i.fixup = i

/-- a flavor name the round-trip theorem covers: clean and without a qualifier -/
structure CleanKey (fq : Str) : Prop where
  clean : Clean fq
  no58 : 58 ∉ fq

theorem splitFlavor_plain (fq : Str) (h : CleanKey fq) : splitFlavor fq = some (fq, []) := by
  have h1 : fq.takeWhile (· != 58) = fq := by
    apply takeWhile_all
    intro x hx
    have : x ≠ 58 := fun e => h.no58 (e ▸ hx)
    simp [this]
  have h2 : fq.dropWhile (· != 58) = [] := by
    apply dropWhile_all
    intro x hx
    have : x ≠ 58 := fun e => h.no58 (e ▸ hx)
    simp [this]
  have h3 : fq.isEmpty = false := by have := h.clean.ne; cases fq <;> simp_all
  simp [splitFlavor, h1, h2, h3]

theorem hasNone_good (i : Info) (h : GoodFields i) : i.hasNone = false := by
  obtain ⟨ha, hb, hc, hd, he, hf, hg⟩ := h
  unfold Info.hasNone
  rcases ha with h | ⟨_, h, _⟩ <;> rcases hb with h' | ⟨_, h', _⟩ <;> rcases hc with h'' | ⟨_, h'', _⟩ <;>
  rcases hd with k | ⟨_, k, _⟩ <;> rcases he with k' | ⟨_, k', _⟩ <;> rcases hf with k'' | ⟨_, k'', _⟩ <;>
  rcases hg with m | ⟨_, m, _⟩ <;> simp [h, h', h'', k, k', k'', m]

/-- the line `   QUALIFIERS = ""` -/
def lQEmpty : Str := [32, 32, 32, 81, 85, 65, 76, 73, 70, 73, 69, 82, 83, 32, 61, 32, 34, 34]

/-- reading one printed block appends it to the dictionary of flavors -/
theorem vLines_block (st : VState) (fq : Str) (i : Info) (rest : List Str) (hk : CleanKey fq) (hi : GoodInfo i)
    (hprev : PrevOK st) (hfresh : dget st.cur.flavors fq = none) :
    blockLines fq i = .ok ([[], lGroup, lFlavor ++ fq, lQualifiers ++ [] ++ [34]] ++ infoLines i) ∧
    vLines st (([[], lGroup, lFlavor ++ fq, lQualifiers ++ [] ++ [34]] ++ infoLines i) ++ rest) =
      vLines { cur := { st.cur with flavors := st.cur.flavors ++ [(fq, i)] }, flavor := some fq } rest := by
  constructor
  · simp [blockLines, splitFlavor_plain fq hk, hasNone_good i hi.fields]
  · -- the empty line and `Group:`
    have h0 : vStep st [] = .ok st := vStep_skip st [] (by decide)
    have hG : vStep st lGroup = .ok st := by
      apply vStep_groupend st lGroup lGroup (by decide) (by decide) (by decide)
      exact hprev
    -- `FLAVOR = fq`
    have hF : vStep st (lFlavor ++ fq) = .ok { cur := { st.cur with flavors := st.cur.flavors ++ [(fq, {})] }, flavor := some fq } := by
      have hline : lFlavor ++ fq = List.replicate 3 32 ++ ((70 :: [76, 65, 86, 79, 82]) ++ 32 :: 61 :: 32 :: fq) := by
        simp [lFlavor]
      rw [hline, vStep_kv st 3 70 _ fq (by decide) (by decide) (by decide) hk.clean]
      rw [vKeyVal_flavor st _ fq (by decide) hk.clean.no34]
      simp [hfresh]
    -- `QUALIFIERS = ""`
    have hqline : lQualifiers ++ [] ++ [34] = lQEmpty := by decide
    have hQ : ∀ st' : VState, st'.flavor = some fq → vStep st' lQEmpty = .ok st' := by
      intro st' hfl
      have hl : removeComment (strip lQEmpty)
          = [81, 85, 65, 76, 73, 70, 73, 69, 82, 83, 32, 61, 32, 34, 34] := by decide
      have hg : isGroupEnd [81, 85, 65, 76, 73, 70, 73, 69, 82, 83, 32, 61, 32, 34, 34] = false := by decide
      have hkv : keyVal [81, 85, 65, 76, 73, 70, 73, 69, 82, 83, 32, 61, 32, 34, 34]
          = some ([81, 85, 65, 76, 73, 70, 73, 69, 82, 83], [34, 34]) := by decide
      have hlow : lowerS [81, 85, 65, 76, 73, 70, 73, 69, 82, 83] = kQualifiers := by decide
      have e1 : kQualifiers ≠ kFile := by decide
      have e2 : kQualifiers ≠ kProduct := by decide
      have e3 : kQualifiers ≠ kVersion := by decide
      have e4 : kQualifiers ≠ kFlavor := by decide
      have hq : stripQuotePair [34, 34] = [] := by decide
      simp [vStep, hl, hg, hkv, vKeyVal, hlow, e1, e2, e3, e4, hq, hfl]
    rw [hqline]
    simp only [List.append_assoc, List.cons_append, List.nil_append, vLines, h0, hG, hF]
    rw [hQ _ rfl]
    -- the field lines
    simp only []
    have hspec := vLines_specs (fieldSpecs i) fq rest (fieldSpecs_ok i hi.fields)
      { cur := { st.cur with flavors := st.cur.flavors ++ [(fq, {})] }, flavor := some fq } {} rfl
      (dget_append_new _ _ _ hfresh)
    rw [infoLines_eq, hspec]
    simp only [specFold_fieldSpecs i hi.fields, dset_append_new _ _ _ _ hfresh]

theorem isWord_ne10 (x : Nat) (h : isWord x = true) : x ≠ 10 := by
  intro e; subst e; revert h; decide

theorem label_no10 (label key : Str) (h : LabelOK label key) : 10 ∉ label := by
  obtain ⟨c, K, hl, hw, _⟩ := h
  rw [hl]
  intro hm
  simp only [List.mem_append, List.mem_replicate, List.mem_cons, List.not_mem_nil, or_false] at hm
  rcases hm with ⟨_, h⟩ | (h | h) | h | h | h
  · cases h
  · exact isWord_ne10 c (hw c (by simp)) h.symm
  · exact isWord_ne10 10 (hw 10 (by simp [h])) rfl
  · cases h
  · cases h
  · cases h

theorem fldLine_no10 (label key : Str) (dflt : Option Str) (x : Fld) (hl : LabelOK label key) (hx : GoodFld x) :
    ∀ l ∈ fldLine label dflt x, 10 ∉ l := by
  rcases hx with h | ⟨v, h, hv⟩
  · subst h; simp [fldLine]
  · subst h
    cases v with
    | nil => exact absurd rfl hv.ne
    | cons a r =>
      intro l hl'
      simp only [fldLine, List.mem_singleton] at hl'
      subst hl'
      intro hm
      rcases List.mem_append.mp hm with h | h
      · exact label_no10 label key hl h
      · exact hv.no10 h

theorem infoLines_no10 (i : Info) (hi : GoodFields i) : ∀ l ∈ infoLines i, 10 ∉ l := by
  intro l hl
  rw [infoLines_eq] at hl
  simp only [specLines, List.mem_flatMap] at hl
  obtain ⟨s, hs, hls⟩ := hl
  have := fieldSpecs_ok i hi s hs
  exact fldLine_no10 s.1 s.2.1 s.2.2.1 s.2.2.2 this.1 this.2 l hls

theorem block_no10 (fq : Str) (i : Info) (hk : CleanKey fq) (hi : GoodInfo i) :
    ∀ l ∈ [[], lGroup, lFlavor ++ fq, lQualifiers ++ [] ++ [34]] ++ infoLines i, 10 ∉ l := by
  intro l hl
  simp only [List.mem_append, List.mem_cons, List.not_mem_nil, or_false] at hl
  rcases hl with (h | h | h | h) | h
  · subst h; simp
  · subst h; decide
  · subst h
    intro hm
    rcases List.mem_append.mp hm with h | h
    · revert h; decide
    · exact hk.clean.no10 h
  · subst h; decide
  · exact infoLines_no10 i hi.fields l h

/-- reading the printed blocks of a list of flavors appends them all -/
theorem vLines_blocks (fl : List (Str × Info)) (rest : List Str) :
    ∀ st : VState, PrevOK st → (∀ x ∈ fl, CleanKey x.1 ∧ GoodInfo x.2) → (fl.map (·.1)).Nodup →
      (∀ x ∈ fl, dget st.cur.flavors x.1 = none) →
      ∃ ls, blocksLines fl = .ok ls ∧ (∀ l ∈ ls, 10 ∉ l) ∧ ∃ st' : VState, vLines st (ls ++ rest) = vLines st' rest ∧
        st'.cur = { st.cur with flavors := st.cur.flavors ++ fl } ∧ PrevOK st' := by
  induction fl with
  | nil =>
    intro st hp _ _ _
    exact ⟨[], rfl, by simp, st, rfl, by simp, hp⟩
  | cons x r ih =>
    intro st hp hgood hnd hfresh
    obtain ⟨fq, i⟩ := x
    have hx := hgood (fq, i) (by simp)
    simp only [List.map_cons, List.nodup_cons] at hnd
    have hb := vLines_block st fq i
    have hfq : dget st.cur.flavors fq = none := hfresh (fq, i) (by simp)
    -- the state after the first block
    have hp1 : PrevOK { cur := { st.cur with flavors := st.cur.flavors ++ [(fq, i)] }, flavor := some fq } := by
      right
      exact ⟨fq, i, rfl, hx.1.clean.ne, dget_append_new _ _ _ hfq, fixup_good i hx.2⟩
    have hfresh1 : ∀ y ∈ r, dget (st.cur.flavors ++ [(fq, i)]) y.1 = none := by
      intro y hy
      have hne : y.1 ≠ fq := by
        intro e
        apply hnd.1
        rw [← e]
        exact List.mem_map_of_mem hy
      rw [dget_append_old _ _ _ _ hne]
      exact hfresh y (by simp [hy])
    obtain ⟨ls, hls, hno, st', hst', hcur, hp'⟩ := ih { cur := { st.cur with flavors := st.cur.flavors ++ [(fq, i)] }, flavor := some fq }
      hp1 (fun y hy => hgood y (by simp [hy])) hnd.2 hfresh1
    obtain ⟨hbl, hbv⟩ := hb (ls ++ rest) hx.1 hx.2 hp hfq
    refine ⟨([[], lGroup, lFlavor ++ fq, lQualifiers ++ [] ++ [34]] ++ infoLines i) ++ ls, ?_, ?_, st', ?_, ?_, hp'⟩
    · simp only [blocksLines, hbl, hls]
    · intro l hl
      rcases List.mem_append.mp hl with h | h
      · exact block_no10 fq i hx.1 hx.2 l h
      · exact hno l h
    · rw [List.append_assoc, hbv, hst']
    · rw [hcur]; simp

/-- a version record as the round-trip theorem covers it -/
structure GoodVRec (r : VRec) : Prop where
  name : ∃ n, r.name = some n ∧ Clean n
  version : ∃ v, r.version = some v ∧ Clean v
  nonempty : r.flavors ≠ []
  nodup : (r.flavors.map (·.1)).Nodup
  blocks : ∀ x ∈ r.flavors, CleanKey x.1 ∧ GoodInfo x.2

theorem vStep_file (st : VState) : vStep st lFileVersion = .ok st := by
  have hl : removeComment (strip lFileVersion) = lFileVersion := by decide
  have hg : isGroupEnd lFileVersion = false := by decide
  have hkv : keyVal lFileVersion = some ([70, 73, 76, 69], kVersion) := by decide
  have hlow : lowerS [70, 73, 76, 69] = kFile := by decide
  have hv : lowerS (stripQuote1 kVersion) = kVersion := by decide
  have hne : lFileVersion.isEmpty = false := by decide
  simp [vStep, hl, hg, hkv, vKeyVal, hlow, hv, hne]

/-- what reading the printed blocks of `fl` after the header must achieve (the conclusion of `vLines_blocks`
for the state after the header lines) -/
def BlocksRead (n v : Str) (fl : List (Str × Info)) : Prop :=
  ∃ ls, blocksLines fl = .ok ls ∧ (∀ l ∈ ls, 10 ∉ l) ∧ ∃ st' : VState,
    vLines { cur := { name := some n, version := some v, flavors := [] }, flavor := none } (ls ++ ([lEnd] ++ [[]]))
      = vLines st' ([lEnd] ++ [[]]) ∧
    st'.cur = { name := some n, version := some v, flavors := [] ++ fl } ∧ PrevOK st'

/-- header + blocks + `End:`: the record reads back once the blocks do (`BlocksRead`) -/
theorem vLines_record_core (n v : Str) (fl : List (Str × Info)) (hcn : Clean n) (hcv : Clean v) (hne : fl ≠ [])
    (hB : BlocksRead n v fl) (nm vs : Option Str)
    (hnm : nm = none ∨ nm = some n) (hvs : vs = none ∨ vs = some v) :
    ∃ ls, printVersionLines { name := some n, version := some v, flavors := fl } = .ok (some ls) ∧ (∀ l ∈ ls, 10 ∉ l) ∧
      ∃ st, vLines { cur := { name := nm, version := vs, flavors := [] }, flavor := none } (ls ++ [[]]) = .ok st ∧
        st.cur = { name := some n, version := some v, flavors := fl } := by
  have hfl : fl.isEmpty = false := by cases fl <;> simp_all
  -- the header
  have hP : ∀ st : VState, vStep st (lProduct ++ n) =
      .ok (if optTruthy st.cur.name then st else { st with cur := { st.cur with name := some n } }) := by
    intro st
    have hline : lProduct ++ n = List.replicate 0 32 ++ ((80 :: [82, 79, 68, 85, 67, 84]) ++ 32 :: 61 :: 32 :: n) := by
      simp [lProduct]
    rw [hline, vStep_kv st 0 80 _ n (by decide) (by decide) (by decide) hcn,
      vKeyVal_product st _ n (by decide) hcn.no34]
  have hV : ∀ st : VState, vStep st (lVersion ++ v) =
      .ok (if optTruthy st.cur.version then st else { st with cur := { st.cur with version := some v } }) := by
    intro st
    have hline : lVersion ++ v = List.replicate 0 32 ++ ((86 :: [69, 82, 83, 73, 79, 78]) ++ 32 :: 61 :: 32 :: v) := by
      simp [lVersion]
    rw [hline, vStep_kv st 0 86 _ v (by decide) (by decide) (by decide) hcv,
      vKeyVal_version st _ v (by decide) hcv.no34]
  have hS : ∀ st : VState, vStep st lStars = .ok st := fun st => vStep_skip st lStars (by decide)
  have hE : ∀ st : VState, vStep st [] = .ok st := fun st => vStep_skip st [] (by decide)
  -- the state after the header
  have hname : ∀ (o : Option Str), (o = none ∨ o = some n) →
      (if optTruthy o then o else some n) = some n := by
    intro o ho
    rcases ho with rfl | rfl
    · simp [optTruthy]
    · have : optTruthy (some n) = true := by have := hcn.ne; cases n <;> simp_all [optTruthy]
      simp [this]
  have hvers : ∀ (o : Option Str), (o = none ∨ o = some v) →
      (if optTruthy o then o else some v) = some v := by
    intro o ho
    rcases ho with rfl | rfl
    · simp [optTruthy]
    · have : optTruthy (some v) = true := by have := hcv.ne; cases v <;> simp_all [optTruthy]
      simp [this]
  obtain ⟨bl, hbl, hbno, st', hst', hcur, hp'⟩ := hB
  refine ⟨[lFileVersion, lProduct ++ n, lVersion ++ v, lStars] ++ bl ++ [lEnd], ?_, ?_, st', ?_, ?_⟩
  · simp [printVersionLines, hfl, hbl]
  · intro l hl
    simp only [List.mem_append, List.mem_cons, List.not_mem_nil, or_false] at hl
    rcases hl with ((h | h | h | h) | h) | h
    · subst h; decide
    · subst h
      intro hm
      rcases List.mem_append.mp hm with h | h
      · revert h; decide
      · exact hcn.no10 h
    · subst h
      intro hm
      rcases List.mem_append.mp hm with h | h
      · revert h; decide
      · exact hcv.no10 h
    · subst h; decide
    · exact hbno l h
    · subst h; decide
  · -- run the reader over the printed lines
    have htail : vLines st' ([lEnd] ++ [[]]) = .ok st' := by
      have hG : vStep st' lEnd = .ok st' :=
        vStep_groupend st' lEnd lEnd (by decide) (by decide) (by decide) hp'
      simp [vLines, hG, hE]
    have hn1 : optTruthy (some n) = true := by have := hcn.ne; cases n <;> simp_all [optTruthy]
    have hv1 : optTruthy (some v) = true := by have := hcv.ne; cases v <;> simp_all [optTruthy]
    have hbody : vLines { cur := { name := some n, version := some v, flavors := [] }, flavor := none }
        (bl ++ ([lEnd] ++ [[]])) = .ok st' := by rw [hst', htail]
    simp only [List.append_assoc, List.cons_append, List.nil_append, vLines, vStep_file]
    have hnone : optTruthy none = false := rfl
    rcases hnm with rfl | rfl <;> rcases hvs with rfl | rfl <;>
      simp only [hP, hV, hS, hnone, hn1, hv1, if_true, if_false, Bool.false_eq_true] <;>
      simpa using hbody
  · rw [hcur]; simp

theorem vLines_record (r : VRec) (h : GoodVRec r) (nm vs : Option Str)
    (hnm : nm = none ∨ nm = r.name) (hvs : vs = none ∨ vs = r.version) :
    ∃ ls, printVersionLines r = .ok (some ls) ∧ (∀ l ∈ ls, 10 ∉ l) ∧
      ∃ st, vLines { cur := { name := nm, version := vs, flavors := [] }, flavor := none } (ls ++ [[]]) = .ok st ∧ st.cur = r := by
  obtain ⟨n, hn, hcn⟩ := h.name
  obtain ⟨v, hv, hcv⟩ := h.version
  obtain ⟨rn, rv, fl⟩ := r
  simp only at hn hv
  subst hn hv
  exact vLines_record_core n v fl hcn hcv h.nonempty
    (vLines_blocks fl ([lEnd] ++ [[]])
      { cur := { name := some n, version := some v, flavors := [] }, flavor := none } (Or.inl rfl) h.blocks h.nodup
      (by intro x _; simp [dget])) nm vs hnm hvs

/-- **Version file round trip**, text level: a good record is printed, and the printed text read back — with
the names taken from the file or preset to the record's own — is the record. -/
theorem text_roundtrip_version (r : VRec) (h : GoodVRec r) (nm vs : Option Str)
    (hnm : nm = none ∨ nm = r.name) (hvs : vs = none ∨ vs = r.version) :
    ∃ text, printVersion r = .ok (some text) ∧ parseVersion nm vs text = .ok r := by
  obtain ⟨ls, hp, hno, st, hst, hcur⟩ := vLines_record r h nm vs hnm hvs
  refine ⟨unlines ls, by simp [printVersion, hp], ?_⟩
  simp only [parseVersion, splitOn_unlines ls hno, hst, hcur]

/-! ## Chain files -/

theorem stripQuotesAll_id (v : Str) (h : 34 ∉ v) : stripQuotesAll v = v := by
  unfold stripQuotesAll
  have h1 : v.dropWhile (· == 34) = v := by
    apply dropWhile_head
    intro c hc
    have : c ≠ 34 := fun e => h (e ▸ List.mem_of_mem_head? hc)
    simp [this]
  rw [h1]
  have h2 : v.reverse.dropWhile (· == 34) = v.reverse := by
    apply dropWhile_head
    intro c hc
    have hm : c ∈ v := by
      have := List.mem_of_mem_head? hc
      simpa using this
    have : c ≠ 34 := fun e => h (e ▸ hm)
    simp [this]
  rw [h2]; simp

theorem cLines_append (st : CState) (a b : List Str) :
    cLines st (a ++ b) = match cLines st a with | .ok st' => cLines st' b | .error e => .error e := by
  induction a generalizing st with
  | nil => simp [cLines]
  | cons l r ih =>
    simp only [List.cons_append, cLines]
    cases cStep st l with
    | error e => rfl
    | ok st' => exact ih st'

/-- a line that is empty or a comment after `lstrip` is skipped -/
theorem cStep_skip (st : CState) (raw : Str) (h : (stripL raw).isEmpty || (stripL raw).head? == some 35) :
    cStep st raw = .ok st := by
  simp only [cStep, h, if_true]

theorem cStep_kv (st : CState) (n : Nat) (c : Nat) (K v : Str) (hK : Word (c :: K)) (hv : Clean v) :
    cStep st (List.replicate n 32 ++ ((c :: K) ++ 32 :: 61 :: 32 :: v)) = cKeyVal st (c :: K) v := by
  have hc : Str.isSpace c = false := isWord_not_space c (hK c (by simp))
  have hs : stripL (List.replicate n 32 ++ ((c :: K) ++ 32 :: 61 :: 32 :: v)) = (c :: K) ++ 32 :: 61 :: 32 :: v := by
    unfold stripL
    have := dropWhile_append_stop (p := Str.isSpace) (List.replicate n 32) c (K ++ 32 :: 61 :: 32 :: v)
      (by intro x hx; simp at hx; rw [hx.2]; decide) hc
    simpa using this
  have hk := keyVal_kv (c :: K) v hK (by simp) hv.headNS hv.no10
  have hc35 : c ≠ 35 := by
    intro e; subst e
    have := hK 35 (by simp)
    revert this; decide
  simp only [cStep, hs]
  simp only [List.cons_append] at hk ⊢
  simp [hk, hc35]

theorem cKeyVal_field (st : CState) (K v f : Str) (i : CInfo) (key : Str) (hkey : lowerS K = key)
    (h1 : key ≠ kFile) (h2 : key ≠ kProduct) (h3 : key ≠ kChain) (h4 : key ≠ kFlavor) (h5 : key ≠ kQualifiers)
    (hst : st.flavor = some f) (hget : dget st.cur.flavors f = some i) (h34 : 34 ∉ v) :
    cKeyVal st K v = .ok { st with cur := { st.cur with flavors := dset st.cur.flavors f (i.set key v) } } := by
  simp [cKeyVal, hkey, h1, h2, h3, h4, h5, hst, hget, stripQuotesAll_id v h34]

/-- a field label of the chain writer and the key the reader derives from it -/
def CLabelOK (label key : Str) : Prop :=
  ∃ c K, label = List.replicate 3 32 ++ ((c :: K) ++ [32, 61, 32]) ∧ (∀ x ∈ c :: K, isWord x = true) ∧
    lowerS (c :: K) = key ∧ key ≠ kFile ∧ key ≠ kProduct ∧ key ≠ kChain ∧ key ≠ kFlavor ∧ key ≠ kQualifiers

theorem clabelOK_version : CLabelOK lIVersion kVersion := ⟨86, [69, 82, 83, 73, 79, 78], by decide⟩
theorem clabelOK_declarer : CLabelOK lDeclarer kDeclarer := ⟨68, [69, 67, 76, 65, 82, 69, 82], by decide⟩
theorem clabelOK_declared : CLabelOK lDeclared kDeclared := ⟨68, [69, 67, 76, 65, 82, 69, 68], by decide⟩
theorem clabelOK_modifier : CLabelOK lModifier kModifier := ⟨77, [79, 68, 73, 70, 73, 69, 82], by decide⟩
theorem clabelOK_modified : CLabelOK lModified kModified := ⟨77, [79, 68, 73, 70, 73, 69, 68], by decide⟩

theorem cStep_fld (st : CState) (f : Str) (i : CInfo) (label key v : Str) (hl : CLabelOK label key)
    (hst : st.flavor = some f) (hget : dget st.cur.flavors f = some i) (hv : Clean v) :
    cStep st (label ++ v) = .ok { st with cur := { st.cur with flavors := dset st.cur.flavors f (i.set key v) } } := by
  obtain ⟨c, K, hlab, hw, hkey, h1, h2, h3, h4, h5⟩ := hl
  have hline : label ++ v = List.replicate 3 32 ++ ((c :: K) ++ 32 :: 61 :: 32 :: v) := by
    rw [hlab]; simp
  rw [hline, cStep_kv st 3 c K v hw hv]
  exact cKeyVal_field st (c :: K) v f i key hkey h1 h2 h3 h4 h5 hst hget hv.no34

def csetF (j : CInfo) (key : Str) : Fld → CInfo
  | .val v => j.set key v
  | _ => j

theorem cLines_fld (st : CState) (f : Str) (j : CInfo) (label key : Str) (dflt : Option Str) (x : Fld) (rest : List Str)
    (hl : CLabelOK label key) (hst : st.flavor = some f) (hget : dget st.cur.flavors f = some j) (hx : GoodFld x) :
    cLines st (fldLine label dflt x ++ rest) =
      cLines { st with cur := { st.cur with flavors := dset st.cur.flavors f (csetF j key x) } } rest := by
  rcases hx with h | ⟨v, h, hv⟩
  · subst h
    simp only [fldLine, csetF, List.nil_append, dset_same _ _ _ hget]
  · subst h
    cases v with
    | nil => exact absurd rfl hv.ne
    | cons a r =>
      simp only [fldLine, csetF, List.singleton_append, cLines]
      rw [cStep_fld st f j label key (a :: r) hl hst hget hv]

def cspecLines (specs : List Spec) : List Str := specs.flatMap fun (l, _, d, x) => fldLine l d x
def cspecFold (j : CInfo) (specs : List Spec) : CInfo := specs.foldl (fun j (s : Spec) => csetF j s.2.1 s.2.2.2) j

theorem cLines_specs (specs : List Spec) (f : Str) (rest : List Str)
    (hs : ∀ s ∈ specs, CLabelOK s.1 s.2.1 ∧ GoodFld s.2.2.2) :
    ∀ (st : CState) (j : CInfo), st.flavor = some f → dget st.cur.flavors f = some j →
      cLines st (cspecLines specs ++ rest) =
        cLines { st with cur := { st.cur with flavors := dset st.cur.flavors f (cspecFold j specs) } } rest := by
  induction specs with
  | nil =>
    intro st j _ hget
    simp only [cspecLines, cspecFold, List.flatMap_nil, List.nil_append, List.foldl_nil, dset_same _ _ _ hget]
  | cons s r ih =>
    intro st j hst hget
    obtain ⟨l, k, d, x⟩ := s
    have hsome : (dget st.cur.flavors f).isSome := by simp [hget]
    have h1 := hs (l, k, d, x) (by simp)
    simp only [cspecLines, List.flatMap_cons, List.append_assoc]
    rw [cLines_fld st f j l k d x _ h1.1 hst hget h1.2]
    have := ih (fun s' hs' => hs s' (by simp [hs']))
      { st with cur := { st.cur with flavors := dset st.cur.flavors f (csetF j k x) } } (csetF j k x) hst
      (dget_dset_same _ _ _ hsome)
    simp only [cspecLines] at this
    rw [this]
    simp only [dset_dset, cspecFold, List.foldl_cons]

def cfieldSpecs (i : CInfo) : List Spec :=
  [(lDeclarer, kDeclarer, none, i.declarer), (lDeclared, kDeclared, none, i.declared),
   (lModifier, kModifier, none, i.modifier), (lModified, kModified, none, i.modified)]

theorem cInfoLines_eq (i : CInfo) : cInfoLines i = cspecLines (cfieldSpecs i) := by
  simp [cInfoLines, cspecLines, cfieldSpecs]

/-- a chain block as the round-trip theorem covers it -/
structure GoodCInfo (i : CInfo) : Prop where
  version : ∃ v, i.version = .val v ∧ Clean v
  declarer : GoodFld i.declarer
  declared : GoodFld i.declared
  modifier : GoodFld i.modifier
  modified : GoodFld i.modified

theorem cfieldSpecs_ok (i : CInfo) (hi : GoodCInfo i) : ∀ s ∈ cfieldSpecs i, CLabelOK s.1 s.2.1 ∧ GoodFld s.2.2.2 := by
  intro s hs
  simp only [cfieldSpecs, List.mem_cons, List.not_mem_nil, or_false] at hs
  rcases hs with h | h | h | h <;> subst h
  · exact ⟨clabelOK_declarer, hi.declarer⟩
  · exact ⟨clabelOK_declared, hi.declared⟩
  · exact ⟨clabelOK_modifier, hi.modifier⟩
  · exact ⟨clabelOK_modified, hi.modified⟩

theorem cspecFold_cfieldSpecs (i : CInfo) (hi : GoodCInfo i) (v : Str) (hv : i.version = .val v) :
    cspecFold (({} : CInfo).set kVersion v) (cfieldSpecs i) = i := by
  obtain ⟨ver, a, b, c, d⟩ := i
  obtain ⟨_, ha, hb, hc, hd⟩ := hi
  simp only at ha hb hc hd hv
  subst hv
  rcases ha with rfl | ⟨_, rfl, _⟩ <;> rcases hb with rfl | ⟨_, rfl, _⟩ <;> rcases hc with rfl | ⟨_, rfl, _⟩ <;>
  rcases hd with rfl | ⟨_, rfl, _⟩ <;> rfl

theorem dset_absent {β : Type} (l : List (Str × β)) (k : Str) (v : β) (h : dget l k = none) : dset l k v = l ++ [(k, v)] := by
  induction l with
  | nil => simp [dset]
  | cons x r ih =>
    obtain ⟨a, b⟩ := x
    by_cases ha : a = k
    · simp [dget, ha] at h
    · simp [dget, ha] at h; simp [dset, ha, ih h]

theorem cKeyVal_flavor (st : CState) (K v : Str) (hkey : lowerS K = kFlavor) (h34 : 34 ∉ v) :
    cKeyVal st K v = .ok { cur := { st.cur with flavors := dset st.cur.flavors v {} }, flavor := some v } := by
  have h1 : kFlavor ≠ kFile := by decide
  have h2 : kFlavor ≠ kProduct := by decide
  have h3 : kFlavor ≠ kChain := by decide
  simp [cKeyVal, hkey, h1, h2, h3, stripQuotesAll_id v h34]

/-- reading one printed chain block appends it to the dictionary of flavors -/
theorem cLines_block (st : CState) (fq v : Str) (i : CInfo) (rest : List Str) (hk : CleanKey fq) (hi : GoodCInfo i)
    (hv : i.version = .val v) (hcv : Clean v) (hfresh : dget st.cur.flavors fq = none) :
    cBlockLines fq i = .ok ([[], lHGroup, lFlavor ++ fq, lIVersion ++ v, lQualifiers ++ [] ++ [34]] ++ cInfoLines i ++ [lHEnd]) ∧
    cLines st (([[], lHGroup, lFlavor ++ fq, lIVersion ++ v, lQualifiers ++ [] ++ [34]] ++ cInfoLines i ++ [lHEnd]) ++ rest) =
      cLines { cur := { st.cur with flavors := st.cur.flavors ++ [(fq, i)] }, flavor := some fq } rest := by
  constructor
  · simp [cBlockLines, splitFlavor_plain fq hk, hv]
  · have h0 : ∀ st' : CState, cStep st' [] = .ok st' := fun st' => cStep_skip st' [] (by decide)
    have hG : ∀ st' : CState, cStep st' lHGroup = .ok st' := fun st' => cStep_skip st' lHGroup (by decide)
    have hE : ∀ st' : CState, cStep st' lHEnd = .ok st' := fun st' => cStep_skip st' lHEnd (by decide)
    have hF : cStep st (lFlavor ++ fq) = .ok { cur := { st.cur with flavors := st.cur.flavors ++ [(fq, {})] }, flavor := some fq } := by
      have hline : lFlavor ++ fq = List.replicate 3 32 ++ ((70 :: [76, 65, 86, 79, 82]) ++ 32 :: 61 :: 32 :: fq) := by
        simp [lFlavor]
      rw [hline, cStep_kv st 3 70 _ fq (by decide) hk.clean, cKeyVal_flavor st _ fq (by decide) hk.clean.no34,
        dset_absent _ _ _ hfresh]
    have hqline : lQualifiers ++ [] ++ [34] = lQEmpty := by decide
    have hQ : ∀ st' : CState, st'.flavor = some fq → cStep st' lQEmpty = .ok st' := by
      intro st' hfl
      have hl : stripL lQEmpty = [81, 85, 65, 76, 73, 70, 73, 69, 82, 83, 32, 61, 32, 34, 34] := by decide
      have hkv : keyVal [81, 85, 65, 76, 73, 70, 73, 69, 82, 83, 32, 61, 32, 34, 34]
          = some ([81, 85, 65, 76, 73, 70, 73, 69, 82, 83], [34, 34]) := by decide
      have hlow : lowerS [81, 85, 65, 76, 73, 70, 73, 69, 82, 83] = kQualifiers := by decide
      have e1 : kQualifiers ≠ kFile := by decide
      have e2 : kQualifiers ≠ kProduct := by decide
      have e3 : kQualifiers ≠ kChain := by decide
      have e4 : kQualifiers ≠ kFlavor := by decide
      have hq : stripQuotesAll [34, 34] = [] := by decide
      simp [cStep, hl, hkv, cKeyVal, hlow, e1, e2, e3, e4, hq, hfl]
    rw [hqline]
    simp only [List.append_assoc, List.cons_append, List.nil_append, cLines, h0, hG, hF]
    -- VERSION = v
    have hget0 : dget (st.cur.flavors ++ [(fq, ({} : CInfo))]) fq = some {} := dget_append_new _ _ _ hfresh
    have hVer := cStep_fld { cur := { st.cur with flavors := st.cur.flavors ++ [(fq, {})] }, flavor := some fq } fq {}
      lIVersion kVersion v clabelOK_version rfl hget0 hcv
    simp only [] at hVer
    rw [hVer]
    simp only [dset_append_new _ _ _ _ hfresh]
    rw [hQ _ rfl]
    simp only []
    have hget1 : dget (st.cur.flavors ++ [(fq, ({} : CInfo).set kVersion v)]) fq = some (({} : CInfo).set kVersion v) :=
      dget_append_new _ _ _ hfresh
    have hspec := cLines_specs (cfieldSpecs i) fq ([lHEnd] ++ rest) (cfieldSpecs_ok i hi)
      { cur := { st.cur with flavors := st.cur.flavors ++ [(fq, ({} : CInfo).set kVersion v)] }, flavor := some fq }
      (({} : CInfo).set kVersion v) rfl hget1
    rw [cInfoLines_eq]
    simp only [List.append_assoc, List.cons_append, List.nil_append] at hspec ⊢
    rw [hspec]
    simp only [cspecFold_cfieldSpecs i hi v hv, dset_append_new _ _ _ _ hfresh, cLines, hE]

theorem clabel_no10 (label key : Str) (h : CLabelOK label key) : 10 ∉ label := by
  obtain ⟨c, K, hl, hw, _⟩ := h
  rw [hl]
  intro hm
  simp only [List.mem_append, List.mem_replicate, List.mem_cons, List.not_mem_nil, or_false] at hm
  rcases hm with ⟨_, h⟩ | (h | h) | h | h | h
  · cases h
  · exact isWord_ne10 c (hw c (by simp)) h.symm
  · exact isWord_ne10 10 (hw 10 (by simp [h])) rfl
  · cases h
  · cases h
  · cases h

theorem cfldLine_no10 (label key : Str) (dflt : Option Str) (x : Fld) (hl : CLabelOK label key) (hx : GoodFld x) :
    ∀ l ∈ fldLine label dflt x, 10 ∉ l := by
  rcases hx with h | ⟨v, h, hv⟩
  · subst h; simp [fldLine]
  · subst h
    cases v with
    | nil => exact absurd rfl hv.ne
    | cons a r =>
      intro l hl'
      simp only [fldLine, List.mem_singleton] at hl'
      subst hl'
      intro hm
      rcases List.mem_append.mp hm with h | h
      · exact clabel_no10 label key hl h
      · exact hv.no10 h

theorem cblock_no10 (fq v : Str) (i : CInfo) (hk : CleanKey fq) (hi : GoodCInfo i) (hcv : Clean v) :
    ∀ l ∈ [[], lHGroup, lFlavor ++ fq, lIVersion ++ v, lQualifiers ++ [] ++ [34]] ++ cInfoLines i ++ [lHEnd], 10 ∉ l := by
  intro l hl
  simp only [List.mem_append, List.mem_cons, List.not_mem_nil, or_false] at hl
  rcases hl with ((h | h | h | h | h) | h) | h
  · subst h; simp
  · subst h; decide
  · subst h
    intro hm
    rcases List.mem_append.mp hm with h | h
    · revert h; decide
    · exact hk.clean.no10 h
  · subst h
    intro hm
    rcases List.mem_append.mp hm with h | h
    · revert h; decide
    · exact hcv.no10 h
  · subst h; decide
  · rw [cInfoLines_eq] at h
    simp only [cspecLines, List.mem_flatMap] at h
    obtain ⟨s, hs, hls⟩ := h
    have := cfieldSpecs_ok i hi s hs
    exact cfldLine_no10 s.1 s.2.1 s.2.2.1 s.2.2.2 this.1 this.2 l hls
  · subst h; decide

theorem cLines_blocks (fl : List (Str × CInfo)) (rest : List Str) :
    ∀ st : CState, (∀ x ∈ fl, CleanKey x.1 ∧ GoodCInfo x.2) → (fl.map (·.1)).Nodup →
      (∀ x ∈ fl, dget st.cur.flavors x.1 = none) →
      ∃ ls, cBlocksLines fl = .ok ls ∧ (∀ l ∈ ls, 10 ∉ l) ∧ ∃ st' : CState, cLines st (ls ++ rest) = cLines st' rest ∧
        st'.cur = { st.cur with flavors := st.cur.flavors ++ fl } := by
  induction fl with
  | nil =>
    intro st _ _ _
    exact ⟨[], rfl, by simp, st, rfl, by simp⟩
  | cons x r ih =>
    intro st hgood hnd hfresh
    obtain ⟨fq, i⟩ := x
    have hx := hgood (fq, i) (by simp)
    obtain ⟨v, hv, hcv⟩ := hx.2.version
    simp only [List.map_cons, List.nodup_cons] at hnd
    have hfq : dget st.cur.flavors fq = none := hfresh (fq, i) (by simp)
    have hfresh1 : ∀ y ∈ r, dget (st.cur.flavors ++ [(fq, i)]) y.1 = none := by
      intro y hy
      have hne : y.1 ≠ fq := by
        intro e
        apply hnd.1
        rw [← e]
        exact List.mem_map_of_mem hy
      rw [dget_append_old _ _ _ _ hne]
      exact hfresh y (by simp [hy])
    obtain ⟨ls, hls, hno, st', hst', hcur⟩ := ih { cur := { st.cur with flavors := st.cur.flavors ++ [(fq, i)] }, flavor := some fq }
      (fun y hy => hgood y (by simp [hy])) hnd.2 hfresh1
    obtain ⟨hbl, hbv⟩ := cLines_block st fq v i (ls ++ rest) hx.1 hx.2 hv hcv hfq
    refine ⟨([[], lHGroup, lFlavor ++ fq, lIVersion ++ v, lQualifiers ++ [] ++ [34]] ++ cInfoLines i ++ [lHEnd]) ++ ls,
      ?_, ?_, st', ?_, ?_⟩
    · simp only [cBlocksLines, hbl, hls]
    · intro l hl
      rcases List.mem_append.mp hl with h | h
      · exact cblock_no10 fq v i hx.1 hx.2 hcv l h
      · exact hno l h
    · rw [List.append_assoc, hbv, hst']
    · rw [hcur]; simp

/-- a chain record as the round-trip theorem covers it -/
structure GoodCRec (r : CRec) : Prop where
  name : ∃ n, r.name = some n ∧ Clean n
  tag : ∃ t, r.tag = some t ∧ Clean t
  nonempty : r.flavors ≠ []
  nodup : (r.flavors.map (·.1)).Nodup
  blocks : ∀ x ∈ r.flavors, CleanKey x.1 ∧ GoodCInfo x.2

theorem cStep_file (st : CState) : cStep st lFileVersion = .ok st := by
  have hl : stripL lFileVersion = lFileVersion := by decide
  have hkv : keyVal lFileVersion = some ([70, 73, 76, 69], kVersion) := by decide
  have hlow : lowerS [70, 73, 76, 69] = kFile := by decide
  have hv : lowerS (stripQuotesAll kVersion) = kVersion := by decide
  have hne : (lFileVersion.isEmpty || lFileVersion.head? == some 35) = false := by decide
  simp [cStep, hl, hkv, cKeyVal, hlow, hv, hne]

theorem cKeyVal_product (st : CState) (K v : Str) (hkey : lowerS K = kProduct) (h34 : 34 ∉ v) :
    cKeyVal st K v = .ok (if optTruthy st.cur.name then st else { st with cur := { st.cur with name := some v } }) := by
  have h1 : kProduct ≠ kFile := by decide
  simp [cKeyVal, hkey, h1, stripQuotesAll_id v h34]

theorem cKeyVal_chain (st : CState) (K v : Str) (hkey : lowerS K = kChain) (h34 : 34 ∉ v) :
    cKeyVal st K v = .ok (if optTruthy st.cur.tag then st else { st with cur := { st.cur with tag := some v } }) := by
  have h1 : kChain ≠ kFile := by decide
  have h2 : kChain ≠ kProduct := by decide
  simp [cKeyVal, hkey, h1, h2, stripQuotesAll_id v h34]

/-- what reading the printed blocks of `fl` after the header of a chain file must achieve -/
def CBlocksRead (n t : Str) (fl : List (Str × CInfo)) : Prop :=
  ∃ ls, cBlocksLines fl = .ok ls ∧ (∀ l ∈ ls, 10 ∉ l) ∧ ∃ st' : CState,
    cLines { cur := { name := some n, tag := some t, flavors := [] }, flavor := none } (ls ++ [[]]) = cLines st' [[]] ∧
    st'.cur = { name := some n, tag := some t, flavors := [] ++ fl }

theorem cLines_record_core (n t : Str) (fl : List (Str × CInfo)) (hcn : Clean n) (hct : Clean t) (hne : fl ≠ [])
    (hB : CBlocksRead n t fl) (nm tg : Option Str)
    (hnm : nm = none ∨ nm = some n) (htg : tg = none ∨ tg = some t) :
    ∃ ls, printChainLines { name := some n, tag := some t, flavors := fl } = .ok (some ls) ∧ (∀ l ∈ ls, 10 ∉ l) ∧
      ∃ st, cLines { cur := { name := nm, tag := tg, flavors := [] }, flavor := none } (ls ++ [[]]) = .ok st ∧
        st.cur = { name := some n, tag := some t, flavors := fl } := by
  have hfl : fl.isEmpty = false := by cases fl <;> simp_all
  have hP : ∀ st : CState, cStep st (lProduct ++ n) =
      .ok (if optTruthy st.cur.name then st else { st with cur := { st.cur with name := some n } }) := by
    intro st
    have hline : lProduct ++ n = List.replicate 0 32 ++ ((80 :: [82, 79, 68, 85, 67, 84]) ++ 32 :: 61 :: 32 :: n) := by
      simp [lProduct]
    rw [hline, cStep_kv st 0 80 _ n (by decide) hcn, cKeyVal_product st _ n (by decide) hcn.no34]
  have hC : ∀ st : CState, cStep st (lChain ++ t) =
      .ok (if optTruthy st.cur.tag then st else { st with cur := { st.cur with tag := some t } }) := by
    intro st
    have hline : lChain ++ t = List.replicate 0 32 ++ ((67 :: [72, 65, 73, 78]) ++ 32 :: 61 :: 32 :: t) := by
      simp [lChain]
    rw [hline, cStep_kv st 0 67 _ t (by decide) hct, cKeyVal_chain st _ t (by decide) hct.no34]
  have hS : ∀ st : CState, cStep st lStars = .ok st := fun st => cStep_skip st lStars (by decide)
  have hE : ∀ st : CState, cStep st [] = .ok st := fun st => cStep_skip st [] (by decide)
  obtain ⟨bl, hbl, hbno, st', hst', hcur⟩ := hB
  refine ⟨[lFileVersion, lProduct ++ n, lChain ++ t, lStars] ++ bl, ?_, ?_, st', ?_, ?_⟩
  · simp [printChainLines, hfl, hbl]
  · intro l hl
    simp only [List.mem_append, List.mem_cons, List.not_mem_nil, or_false] at hl
    rcases hl with (h | h | h | h) | h
    · subst h; decide
    · subst h
      intro hm
      rcases List.mem_append.mp hm with h | h
      · revert h; decide
      · exact hcn.no10 h
    · subst h
      intro hm
      rcases List.mem_append.mp hm with h | h
      · revert h; decide
      · exact hct.no10 h
    · subst h; decide
    · exact hbno l h
  · have htail : cLines st' [[]] = .ok st' := by simp [cLines, hE]
    have hn1 : optTruthy (some n) = true := by have := hcn.ne; cases n <;> simp_all [optTruthy]
    have ht1 : optTruthy (some t) = true := by have := hct.ne; cases t <;> simp_all [optTruthy]
    have hbody : cLines { cur := { name := some n, tag := some t, flavors := [] }, flavor := none }
        (bl ++ [[]]) = .ok st' := by rw [hst', htail]
    have hnone : optTruthy none = false := rfl
    simp only [List.append_assoc, List.cons_append, List.nil_append, cLines, cStep_file]
    rcases hnm with rfl | rfl <;> rcases htg with rfl | rfl <;>
      simp only [hP, hC, hS, hnone, hn1, ht1, if_true, if_false, Bool.false_eq_true] <;>
      simpa using hbody
  · rw [hcur]; simp

theorem cLines_record (r : CRec) (h : GoodCRec r) (nm tg : Option Str)
    (hnm : nm = none ∨ nm = r.name) (htg : tg = none ∨ tg = r.tag) :
    ∃ ls, printChainLines r = .ok (some ls) ∧ (∀ l ∈ ls, 10 ∉ l) ∧
      ∃ st, cLines { cur := { name := nm, tag := tg, flavors := [] }, flavor := none } (ls ++ [[]]) = .ok st ∧ st.cur = r := by
  obtain ⟨n, hn, hcn⟩ := h.name
  obtain ⟨t, ht, hct⟩ := h.tag
  obtain ⟨rn, rt, fl⟩ := r
  simp only at hn ht
  subst hn ht
  exact cLines_record_core n t fl hcn hct h.nonempty
    (cLines_blocks fl [[]]
      { cur := { name := some n, tag := some t, flavors := [] }, flavor := none } h.blocks h.nodup
      (by intro x _; simp [dget])) nm tg hnm htg

/-- **Chain file round trip**, text level. -/
theorem text_roundtrip_chain (r : CRec) (h : GoodCRec r) (nm tg : Option Str)
    (hnm : nm = none ∨ nm = r.name) (htg : tg = none ∨ tg = r.tag) :
    ∃ text, printChain r = .ok (some text) ∧ parseChain nm tg text = .ok r := by
  obtain ⟨ls, hp, hno, st, hst, hcur⟩ := cLines_record r h nm tg hnm htg
  refine ⟨unlines ls, by simp [printChain, hp], ?_⟩
  simp only [parseChain, splitOn_unlines ls hno, hst, hcur]

end EupsModel.Record
