import EupsModel.Lemmas.DepsFuel
/-! Termination of the table walk on **every** database — unsetup lines, dependency cycles and missing table
files included — after the repair of D32 (`_unsetupInProgress`): the nested listing an unsetup line starts adds
its product to the guard, the guard only holds declared products, so listings nest at most `n + 1` deep and each
of them recurses at most `n + 1` deep.  The driver's fuel `(n + 2)²` is therefore never exhausted.

For the pinned walk (no guard) the same statement is false: `Props/C13.lean`, `C13_unsetup_cycle_pinned_witness`. -/
namespace EupsModel.Deps
open EupsModel

/-- every entry that stands for a declared product (flavor set) carries the key of a declared product -/
def RealDecl (db : Db) (l : List Entry) : Prop := ∀ e ∈ l, e.prod.real = true → prodkey e.prod ∈ declKeys db

theorem RealDecl.nil (db : Db) : RealDecl db [] := by intro e he; simp at he

theorem RealDecl.append {db : Db} {a b : List Entry} (ha : RealDecl db a) (hb : RealDecl db b) :
    RealDecl db (a ++ b) := by
  intro e he
  rcases List.mem_append.mp he with h | h
  · exact ha e h
  · exact hb e h

theorem RealDecl.filter {db : Db} {a : List Entry} (ha : RealDecl db a) (p : Entry → Bool) :
    RealDecl db (a.filter p) := fun e he => ha e (List.mem_filter.mp he).1

theorem RealDecl.single_real {db : Db} {p : Prod} {o : Bool} {dp : Option Nat} (h : prodkey p ∈ declKeys db) :
    RealDecl db [⟨p, o, dp⟩] := by
  intro e he
  simp only [List.mem_singleton] at he
  subst he
  exact fun _ => h

theorem RealDecl.single_placeholder {db : Db} {n : Str} {v : Option Str} {o : Bool} {dp : Option Nat} :
    RealDecl db [⟨⟨n, v, false⟩, o, dp⟩] := by
  intro e he
  simp only [List.mem_singleton] at he
  subst he
  intro h; simp at h

/-- the loop over the lines of a table completes when the recursive calls it can make complete and the nested
listing of every declared product does; the visited set only grows -/
theorem depsLoop_total (db : Db) (req : Required)
    (recur : Prod → Nat → St → Option (List Entry × St)) (fresh : Prod → Option (List Str))
    (top : Prod) (recursive : Bool) (depth : Nat) (k : Nat)
    (hrec : ∀ p dp st, unopened db st.seen < k → ∃ out st', recur p dp st = some (out, st') ∧
        (∀ x ∈ st.seen, x ∈ st'.seen) ∧ RealDecl db out)
    (hfresh : ∀ p, p.real = true → prodkey p ∈ declKeys db → ∃ l, fresh p = some l) :
    ∀ ds acc st, RealDecl db acc → unopened db st.seen ≤ k →
      ∃ out st', depsLoop db req recur fresh top recursive depth ds acc st = some (out, st') ∧
        (∀ x ∈ st.seen, x ∈ st'.seen) ∧ RealDecl db out := by
  intro ds
  induction ds with
  | nil => intro acc st ha _; exact ⟨acc, st, rfl, fun _ h => h, ha⟩
  | cons d ds ih =>
    intro acc st ha hk
    rw [depsLoop]
    by_cases hu : d.unsetup = true
    · simp only [hu, if_true]
      cases hf : acc.find? (fun e => e.prod.name == d.name) with
      | none => exact ih acc st ha hk
      | some e =>
        simp only
        have hmem : e ∈ acc := List.mem_of_find?_eq_some hf
        by_cases hc : (e.prod.real && !d.noRec) = true
        · simp only [hc, if_true]
          have hr : e.prod.real = true := by
            simp only [Bool.and_eq_true] at hc; exact hc.1
          obtain ⟨l, hl⟩ := hfresh e.prod hr (ha e hmem hr)
          simp only [hl]
          exact ih _ st (ha.filter _) hk
        · simp only [hc, Bool.false_eq_true, if_false]
          exact ih _ st (ha.filter _) hk
    · have hu' : d.unsetup = false := by simpa using hu
      simp only [hu', Bool.false_eq_true, if_false]
      cases hr : resolve db req d with
      | none =>
        simp only
        obtain ⟨out, st', h1, h2, h3⟩ := ih (acc ++ [⟨⟨d.name, d.ver, false⟩, d.optional, if recursive = true then some depth else none⟩])
          { st with edges := st.edges ++ [(top, ⟨d.name, d.ver, false⟩)] }
          (ha.append RealDecl.single_placeholder) hk
        exact ⟨out, st', h1, h2, h3⟩
      | some p =>
        simp only
        have hkey : prodkey p ∈ declKeys db := resolve_key_mem hr
        by_cases hc : (recursive && !d.noRec && !st.seen.contains (prodkey p)) = true
        · simp only [hc, if_true]
          have hnot : prodkey p ∉ st.seen := by
            simp only [Bool.and_eq_true, Bool.not_eq_true', List.contains_eq_mem,
              decide_eq_false_iff_not] at hc
            exact hc.2
          have hlt : unopened db (prodkey p :: st.seen) < k :=
            Nat.lt_of_lt_of_le (unopened_cons_lt db hkey hnot) hk
          by_cases hm : db.tableMissing p = true
          · simp only [hm, if_true]
            obtain ⟨out, st', h1, h2, h3⟩ := ih
              (acc ++ [⟨p, d.optional, if recursive = true then some depth else none⟩,
                       ⟨⟨d.name, d.ver, false⟩, d.optional, if recursive = true then some depth else none⟩])
              { st with seen := prodkey p :: st.seen, edges := st.edges ++ [(top, ⟨d.name, d.ver, false⟩)] }
              (ha.append (by
                have : [(⟨p, d.optional, if recursive = true then some depth else none⟩ : Entry),
                    ⟨⟨d.name, d.ver, false⟩, d.optional, if recursive = true then some depth else none⟩] =
                    [⟨p, d.optional, if recursive = true then some depth else none⟩] ++
                    [⟨⟨d.name, d.ver, false⟩, d.optional, if recursive = true then some depth else none⟩] := rfl
                rw [this]
                exact (RealDecl.single_real hkey).append RealDecl.single_placeholder))
              (Nat.le_of_lt hlt)
            exact ⟨out, st', h1, fun x hx => h2 x (by simp [hx]), h3⟩
          · simp only [hm, Bool.false_eq_true, if_false]
            obtain ⟨sub, st2, hq, hmono, hsub⟩ := hrec p (depth + 1) { st with seen := prodkey p :: st.seen } hlt
            simp only [hq]
            have hle2 : unopened db st2.seen ≤ k :=
              Nat.le_trans (unopened_mono db hmono) (Nat.le_of_lt hlt)
            obtain ⟨out, st', h1, h2, h3⟩ := ih
              (acc ++ ⟨p, d.optional, if recursive = true then some depth else none⟩ :: sub)
              { st2 with edges := st2.edges ++ [(top, p)] }
              (ha.append (by
                have : (⟨p, d.optional, if recursive = true then some depth else none⟩ : Entry) :: sub =
                    [⟨p, d.optional, if recursive = true then some depth else none⟩] ++ sub := rfl
                rw [this]
                exact (RealDecl.single_real hkey).append hsub))
              hle2
            exact ⟨out, st', h1, fun x hx => h2 x (hmono x (by simp [hx])), h3⟩
        · simp only [hc, Bool.false_eq_true, if_false]
          obtain ⟨out, st', h1, h2, h3⟩ := ih (acc ++ [⟨p, d.optional, if recursive = true then some depth else none⟩])
            { st with edges := st.edges ++ [(top, p)] }
            (ha.append (RealDecl.single_real hkey)) hk
          exact ⟨out, st', h1, h2, h3⟩

/-- **Termination on every database** (guarded walk): a call whose fuel exceeds
`(declared products without an unsetup listing in progress) · (n + 1) + (declared products not yet opened)`
completes. -/
theorem depsOfG_total (db : Db) :
    ∀ f g req top recursive depth st,
      unopened db g * (db.decls.length + 1) + unopened db st.seen < f →
      ∃ out st', depsOfG db f g req top recursive depth st = some (out, st') ∧
        (∀ x ∈ st.seen, x ∈ st'.seen) ∧ RealDecl db out := by
  intro f
  induction f with
  | zero => intro g req top recursive depth st h; omega
  | succ k ih =>
    intro g req top recursive depth st h
    unfold depsOfG
    generalize hM : unopened db g * (db.decls.length + 1) = M at h
    apply depsLoop_total db req _ _ top recursive depth (k - M)
    · intro p dp st1 hlt
      exact ih g req p true dp st1 (by rw [hM]; omega)
    · intro p _ hkey
      by_cases hg : g.contains (prodkey p) = true
      · exact ⟨[], by rw [if_pos hg]⟩
      · simp only [hg, Bool.false_eq_true, if_false]
        have hnot : prodkey p ∉ g := by simpa using hg
        have hlt := unopened_cons_lt db hkey hnot
        have hmul : (unopened db (prodkey p :: g) + 1) * (db.decls.length + 1) ≤ M := by
          rw [← hM]; exact Nat.mul_le_mul_right _ hlt
        have hle := unopened_le db St.empty.seen
        rw [Nat.add_mul] at hmul
        obtain ⟨out, st', hq, _, _⟩ := ih (prodkey p :: g) [] p true 0 St.empty (by omega)
        exact ⟨_, by rw [hq]; rfl⟩
    · exact RealDecl.nil db
    · simp only; omega

theorem fuel_enough_guarded (db : Db) :
    unopened db [] * (db.decls.length + 1) + unopened db St.empty.seen < db.fuel := by
  have h1 := unopened_le db St.empty.seen
  have h2 := unopened_le db []
  have h3 : unopened db [] * (db.decls.length + 1) ≤ db.decls.length * (db.decls.length + 1) :=
    Nat.mul_le_mul_right _ h2
  unfold Db.fuel
  generalize db.decls.length = n at *
  have : (n + 2) * (n + 2) = n * (n + 1) + (3 * n + 4) := by
    simp only [Nat.mul_add, Nat.add_mul]; omega
  omega

/-- **`Table.dependencies` returns on every database with the driver's fuel**: whatever the tables say (unsetup
lines inside dependency cycles, missing table files), recursive or not, with or without required versions. -/
theorem depsOf_total (db : Db) (req : Required) (top : Prod) (recursive : Bool) (depth : Nat) :
    ∃ out st', depsOf db db.fuel req top recursive depth St.empty = some (out, st') := by
  obtain ⟨out, st', h, _, _⟩ := depsOfG_total db db.fuel [] req top recursive depth St.empty (fuel_enough_guarded db)
  exact ⟨out, st', h⟩

end EupsModel.Deps
