import EupsModel.Lemmas.DepsTotal
/-! What the topological listing guarantees when the closure holds a product in several versions (D31), stated
on the graph the code really sorts: the **pinned** graph — the tables opened in the second pass of
`getDependentProducts`, in which every name is resolved to the version of its last entry in the plain listing.

* depths: an entry's depth is `#layers − level` of the pinned node that bears its name (names unique among the
  pinned nodes: `PinnedSingle`, strictly weaker than `SingleVersion`), and levels respect every pinned edge
  between different components;
* `--checkCycles`: the cycle report is raised exactly when the pinned graph has two different nodes that reach
  one another — no hypothesis on versions. -/
namespace EupsModel.Deps
open EupsModel

/-- paths along the lines of the tables opened under the required versions `req` -/
inductive DepPathR (db : Db) (req : Required) (top : Prod) : Prod → Prod → Prop
  | refl (a : Prod) : DepPathR db req top a a
  | step {a b c : Prod} : XReach db req top a → Edge db req a b → DepPathR db req top b c → DepPathR db req top a c

theorem DepPathR.of_depPath {db : Db} {top a b : Prod} (h : DepPath db top a b) : DepPathR db [] top a b := by
  induction h with
  | refl => exact DepPathR.refl _
  | step h1 h2 _ ih => exact DepPathR.step h1 h2 ih

theorem DepPathR.to_depPath {db : Db} {top a b : Prod} (h : DepPathR db [] top a b) : DepPath db top a b := by
  induction h with
  | refl => exact DepPath.refl _
  | step h1 h2 _ ih => exact DepPath.step h1 h2 ih

theorem path_to_depPathR {db : Db} {req : Required} {top : Prod} {out : List Entry} {st : St}
    (C : CallPost db req top St.empty out st) {a b : Prod}
    (h : Topo.Path (Topo.normalise (graphOf st)) a b) : DepPathR db req top a b := by
  induction h with
  | refl => exact DepPathR.refl _
  | step hab _ ih =>
    obtain ⟨_, h1, h2⟩ := (succs_graph_iff C _ _).mp hab
    exact DepPathR.step h1 h2 ih

theorem depPathR_to_path {db : Db} {req : Required} {top : Prod} {out : List Entry} {st : St}
    (C : CallPost db req top St.empty out st) {a b : Prod}
    (h : DepPathR db req top a b) : Topo.Path (Topo.normalise (graphOf st)) a b := by
  induction h with
  | refl => exact Topo.Path.refl _
  | @step a' b' c' h1 h2 _ ih =>
    by_cases hba : b' = a'
    · subst hba; exact ih
    · exact Topo.Path.step ((succs_graph_iff C _ _).mpr ⟨hba, h1, h2⟩) ih

/-- the versions the second pass requires: every name ↦ the version of its entries in the plain listing (the last
one wins, `lookupLast`) -/
def pinsOf (out : List Entry) : Required := out.map fun e => (e.prod.name, e.prod.ver)

/-- the same, computed: the pins `getDependentProducts` derives for `top` (driver's fuel) -/
def pins (db : Db) (top : Prod) : Required :=
  match listing db db.fuel [] top with
  | some (out, _) => pinsOf out
  | none => []

/-- no two different nodes of the pinned closure (the root included) bear the same name -/
def PinnedSingle (db : Db) (req : Required) (top : Prod) : Prop :=
  ∀ u v, (u = top ∨ Listed db req top u) → (v = top ∨ Listed db req top v) → u.name = v.name → u = v

/-- what a successful topological run yields, without any hypothesis on versions: a level for every node of the
**pinned** graph, respected by every pinned edge between different components; and, when names are unique among the
pinned nodes, the depth of every entry whose name has a pinned node -/
theorem topo_levels_pinned {db : Db} (hns : NoUnsetup db) {fuel : Nat} {top : Prod}
    {cc : Bool} {out : List Entry} (h : getDependentProducts db fuel top true cc = .ok out) :
    ∃ (out1 : List Entry) (st1 : St) (o2 : List Entry) (st2 : St) (ls : List (List Prod)) (lvl : Prod → Nat),
      listing db fuel [] top = some (out1, st1) ∧
      CallPost db (pinsOf out1) top St.empty o2 st2 ∧
      Topo.topologicalSort (graphOf st2) cc = .ok ls ∧
      (∀ a ∈ Topo.keys (Topo.normalise (graphOf st2)), lvl a < ls.length) ∧
      (∀ a ∈ Topo.keys (Topo.normalise (graphOf st2)), ∀ b ∈ Topo.succs (Topo.normalise (graphOf st2)) a,
          ¬ Topo.Path (Topo.normalise (graphOf st2)) b a → lvl b < lvl a) ∧
      (∀ e ∈ out, ∃ e1 ∈ out1, e.prod = e1.prod ∧ e.prod ≠ top) ∧
      (PinnedSingle db (pinsOf out1) top → ∀ e ∈ out, ∀ p, (p = top ∨ Listed db (pinsOf out1) top p) →
          p.name = e.prod.name → e.depth = some (ls.length - lvl p)) := by
  obtain ⟨out1, st1, st2, ls, h1, h2, h3, rfl⟩ := getDependentProducts_topo_unfold (tableMissing_false hns top) h
  obtain ⟨o2, hd2, _⟩ := listing_unfold h2
  have C := depsOf_post db hns (pinsOf out1) _ _ _ _ _ _ hd2
  obtain ⟨lvl, hl1, hl2, hl3, _⟩ := Topo.topologicalSort_ok h3
  have hsrc : ∀ e ∈ uniqueLast (sortStable entryLe (out1.map fun e =>
        match depthOfName (depthAssignments (ls.length + 1) 0 ls) e.prod.name with
        | some d => { e with depth := some d }
        | none => e)),
      ∃ e1 ∈ out1, e.prod = e1.prod ∧ e1.prod ≠ top ∧
        e.depth = (match depthOfName (depthAssignments (ls.length + 1) 0 ls) e1.prod.name with
          | some d => some d
          | none => e1.depth) := by
    intro e he
    obtain ⟨e', he', hp, hdep, _⟩ := uniqueLast_sound _ _ he
    rw [mem_sortStable] at he'
    simp only [List.mem_map] at he'
    obtain ⟨e1, he1, rfl⟩ := he'
    obtain ⟨o1, _, rfl⟩ := listing_unfold h1
    have hne : e1.prod ≠ top := by
      have := (List.mem_filter.mp he1).2
      simpa using this
    refine ⟨e1, he1, ?_, hne, ?_⟩
    · rw [hp]; split <;> rfl
    · rw [hdep]; split <;> rfl
  refine ⟨out1, st1, o2, st2.2, ls, lvl, h1, C, h3, fun a ha => (hl1 a ha).1, hl3, ?_, ?_⟩
  · intro e he
    obtain ⟨e1, he1, hp, hne, _⟩ := hsrc e he
    exact ⟨e1, he1, hp, by rw [hp]; exact hne⟩
  · intro hps e he p hp hpn
    obtain ⟨e1, _, hprod, _, hdep⟩ := hsrc e he
    have hkey : p ∈ Topo.keys (Topo.normalise (graphOf st2.2)) := (keys_graph_iff C _).mpr hp
    obtain ⟨hlt, hiff⟩ := hl1 _ hkey
    have hdepth : depthOfName (depthAssignments (ls.length + 1) 0 ls) e1.prod.name
        = some (ls.length + 1 - lvl p - 1) := by
      apply depthOfName_unique hlt
      · exact ⟨p, (hiff _ hlt).mpr rfl, by rw [hpn, hprod]⟩
      · rintro j hj ⟨p', hp', hpn'⟩
        have hpk := hl2 _ (List.getElem_mem hj) p' hp'
        have hpl := (keys_graph_iff C p').mp hpk
        have : p' = p := hps _ _ hpl hp (by rw [hpn', hpn, hprod])
        subst this
        exact (hiff j hj).mp hp'
    rw [hdep, hdepth]
    simp only
    congr 1; omega

/-- the outcome is the cycle report exactly when the sort of the pinned graph says so -/
theorem getDependentProducts_cycle_iff {db : Db} {fuel : Nat} {top : Prod} {topological : Bool}
    (hm : db.tableMissing top = false) {out1 : List Entry} {st1 : St} {o2 : List Entry} {st2 : St}
    (h1 : listing db fuel [] top = some (out1, st1))
    (h2 : listing db fuel (pinsOf out1) top = some (o2, st2)) :
    getDependentProducts db fuel top topological true = .cycle ↔
      Topo.topologicalSort (graphOf st2) true = .cycle := by
  unfold getDependentProducts
  simp only [hm, Bool.false_eq_true, if_false, h1]
  unfold finishListing
  simp only [Bool.or_true, Bool.not_true, Bool.false_eq_true, if_false]
  have h2' : listing db fuel (List.map (fun e => (e.prod.name, e.prod.ver)) out1) top = some (o2, st2) := h2
  simp only [h2']
  cases Topo.topologicalSort (graphOf st2) true with
  | ok ls => simp
  | cycle => simp
  | outOfFuel => simp

/-- **`--checkCycles`, exactly** (database without unsetup lines, driver's fuel, any number of versions): the cycle
report is raised if and only if two different products reach one another along the lines of the tables opened with
every name pinned to the version of its last entry in the plain listing. -/
theorem checkCycles_exact (db : Db) (hns : NoUnsetup db) (top : Prod) (topological : Bool) :
    getDependentProducts db db.fuel top topological true = .cycle ↔
      ∃ a b, a ≠ b ∧ DepPathR db (pins db top) top a b ∧ DepPathR db (pins db top) top b a := by
  obtain ⟨out1, st1, h1⟩ := listing_total db [] top
  obtain ⟨o2, st2, h2⟩ := listing_total db (pinsOf out1) top
  have hp : pins db top = pinsOf out1 := by simp [pins, h1]
  rw [hp, getDependentProducts_cycle_iff (tableMissing_false hns top) h1 h2, Topo.topologicalSort_cycle_iff]
  obtain ⟨o, hd, _⟩ := listing_unfold h2
  have C := depsOf_post db hns (pinsOf out1) _ _ _ _ _ _ hd
  constructor
  · rintro ⟨_, a, b, hne, hab, hba⟩
    exact ⟨a, b, hne, path_to_depPathR C hab, path_to_depPathR C hba⟩
  · rintro ⟨a, b, hne, hab, hba⟩
    exact ⟨rfl, a, b, hne, depPathR_to_path C hab, depPathR_to_path C hba⟩

end EupsModel.Deps
