import EupsModel.Lemmas.SetupForward
/-! `unwind`, `install` generic in a recursive call satisfying `RecOK`; then `setup_recOK`: one induction on fuel. -/
namespace EupsModel.Setup

theorem canon_deps_rank (db : Db) (rank : Name → Nat) (hdag : NameDag db rank) (d : Decl) (hc : Canon db d)
    (exact : Bool) : ∀ n o j v x t kl, Act.dep n o j v x t kl ∈ d.actions exact → rank n < rank d.name := by
  intro n o j v x t kl hm
  obtain ⟨g, hg⟩ := mem_actions d exact _ hm
  exact hdag d (lookup_some db d.prod d hc).1 g n o j v x t kl hg

@[simp] theorem record_rec?_same (d : Decl) (r : Option VroEnt) (s : St) : (record d r s).env.rec? d.name = some d.ver := by
  simp [record, Env.rec?, aget_aset_same]

theorem record_rec?_other (d : Decl) (r : Option VroEnt) (s : St) (m : Name) (h : m ≠ d.name) :
    (record d r s).env.rec? m = s.env.rec? m := by
  simp [record, Env.rec?, aget_aset_other _ _ _ _ h]

theorem register_env (cfg : Cfg) (depth : Nat) (d : Decl) (r : Option VroEnt) (s : St) :
    (register cfg depth d r s).env = s.env := by
  unfold register; split <;> rfl

theorem register_already (cfg : Cfg) (depth : Nat) (d : Decl) (r : Option VroEnt) (s : St)
    (ha : AlreadyOK cfg.db s.already) (hc : Canon cfg.db d) : AlreadyOK cfg.db (register cfg depth d r s).already := by
  unfold register; split
  · exact alreadyOK_aset cfg.db _ (alreadyOfEnv_ok cfg.db s.env) d r hc
  · exact ha

/-- writing the records of a name that has none keeps the environment residue-free -/
theorem record_spec (cfg : Cfg) (d : Decl) (r : Option VroEnt) (s : St) (hw : WellOwned cfg s.env)
    (hn : NoResidue Empty s.env) (hnone : s.env.rec? d.name = none) :
    NoResidue Empty (record d r s).env ∧ WellOwned cfg (record d r s).env := by
  have key : ∀ p : Prod, (Empty p ∨ s.env.rec? p.1 = some p.2) → Empty p ∨ (record d r s).env.rec? p.1 = some p.2 := by
    intro p hp
    rcases hp with hp | hp
    · exact absurd hp (by simp [Empty])
    · right
      by_cases hpn : p.1 = d.name
      · rw [hpn, hnone] at hp; cases hp
      · rw [record_rec?_other d r s p.1 hpn]; exact hp
  have hdirs : ∀ n x, aget (record d r s).env.dirs n = some x → (n = d.name ∧ x = .own d.prod []) ∨ aget s.env.dirs n = some x := by
    intro n x h
    by_cases hnd : n = d.name
    · subst hnd
      simp [record, aget_aset_same] at h
      exact Or.inl ⟨rfl, h.symm⟩
    · simp only [record] at h
      rw [aget_aset_other _ _ _ _ hnd] at h; exact Or.inr h
  constructor
  · refine ⟨fun v p rel hm => key p (hn.path v p rel hm), fun v p rel hm => key p (hn.vars v p rel hm), ?_⟩
    intro n p rel hm
    rcases hdirs n _ hm with ⟨_, he⟩ | h
    · right
      simp at he
      rw [he.1]; exact record_rec?_same d r s
    · exact key p (hn.dirs n p rel h)
  · refine ⟨hw.path, hw.vars, ?_⟩
    intro n p rel hm
    rcases hdirs n _ hm with ⟨hnd, he⟩ | h
    · simp at he; rw [he.1, hnd]; rfl
    · exact hw.dirs n p rel h

/-- the same when the name has a record that names an undeclared version (`findSetupProduct` finds nothing):
nothing in a residue-free, well-owned environment belongs to such a record -/
theorem record_spec_gen (cfg : Cfg) (d : Decl) (reason : Option VroEnt) (s : St) (hw : WellOwned cfg s.env)
    (hn : NoResidue Empty s.env) (hsp : setupProd cfg.db s.env d.name = none) :
    NoResidue Empty (record d reason s).env ∧ WellOwned cfg (record d reason s).env := by
  have hnone : s.env.rec? d.name = none ∨ ∃ v, s.env.rec? d.name = some v ∧ cfg.db.lookup (d.name, v) = none := by
    unfold setupProd at hsp
    split at hsp
    · rename_i v hv; exact Or.inr ⟨v, hv, hsp⟩
    · rename_i hv; exact Or.inl hv
  rcases hnone with hnone | ⟨v, hv, hlk⟩
  · exact record_spec cfg d reason s hw hn hnone
  · have hnoelem : ∀ p : Prod, p.1 = d.name → s.env.rec? p.1 = some p.2 → tableOf cfg p = [] := by
      intro p hp hr
      rw [hp, hv] at hr
      have : p = (d.name, v) := by
        cases p; simp at hp hr; simp [hp, hr]
      unfold tableOf; rw [this, hlk]
    have key : ∀ p : Prod, (Empty p ∨ s.env.rec? p.1 = some p.2) → tableOf cfg p ≠ [] →
        Empty p ∨ (record d reason s).env.rec? p.1 = some p.2 := by
      intro p hp hne
      rcases hp with hp | hp
      · exact absurd hp (by simp [Empty])
      · right
        by_cases hpn : p.1 = d.name
        · exact absurd (hnoelem p hpn hp) hne
        · rw [record_rec?_other d reason s p.1 hpn]; exact hp
    have hdirs : ∀ n x, aget (record d reason s).env.dirs n = some x →
        (n = d.name ∧ x = .own d.prod []) ∨ (n ≠ d.name ∧ aget s.env.dirs n = some x) := by
      intro n x h
      by_cases hnd : n = d.name
      · subst hnd
        simp [record, aget_aset_same] at h
        exact Or.inl ⟨rfl, h.symm⟩
      · simp only [record] at h
        rw [aget_aset_other _ _ _ _ hnd] at h; exact Or.inr ⟨hnd, h⟩
    constructor
    · refine ⟨?_, ?_, ?_⟩
      · intro var p rel hm
        obtain ⟨vals, app, hline, _⟩ := hw.path var p rel hm
        exact key p (hn.path var p rel hm) (by intro e; rw [e] at hline; cases hline)
      · intro var p rel hm
        have hline := hw.vars var p rel hm
        exact key p (hn.vars var p rel hm) (by intro e; rw [e] at hline; cases hline)
      · intro n p rel hm
        rcases hdirs n _ hm with ⟨_, he⟩ | ⟨hnd, h0⟩
        · right
          simp at he
          rw [he.1]; exact record_rec?_same d reason s
        · have hpn : p.1 = n := hw.dirs n p rel h0
          rcases hn.dirs n p rel h0 with hp | hp
          · exact absurd hp (by simp [Empty])
          · right
            rw [record_rec?_other d reason s p.1 (by rw [hpn]; exact hnd)]; exact hp
    · refine ⟨hw.path, hw.vars, ?_⟩
      intro n p rel hm
      rcases hdirs n _ hm with ⟨hnd, he⟩ | ⟨_, h0⟩
      · simp at he; rw [he.1, hnd]; rfl
      · exact hw.dirs n p rel h0

section Generic
variable (cfg : Cfg) (rank : Name → Nat) (hdag : NameDag cfg.db rank) (rec : Rec) (hrec : RecOK cfg rank rec)
include hdag hrec

theorem unwind_already (depth : Nat) (noRec : Bool) (vro : List VroEnt) (d : Decl) (s s' : St)
    (ha : AlreadyOK cfg.db s.already) (h : (unwind rec cfg depth noRec vro d s).st? = some s') :
    AlreadyOK cfg.db s'.already := by
  unfold unwind at h
  exact acts_already cfg rec hrec.already false depth noRec vro d _
    ⟨{ s.env with dirs := aunset s.env.dirs d.name, recs := aunset s.env.recs d.name }, s.aliases, s.unaliased, s.already, s.cache⟩
    s' ha h

theorem unwind_frame (depth : Nat) (noRec : Bool) (vro : List VroEnt) (d : Decl) (hc : Canon cfg.db d) (s s' : St)
    (ha : AlreadyOK cfg.db s.already) (h : unwind rec cfg depth noRec vro d s = .ok s') :
    ∀ m, m ≠ d.name → rank d.name ≤ rank m → s'.env.rec? m = s.env.rec? m := by
  intro m hm hr
  unfold unwind at h
  have := acts_frame cfg rank rec hrec false depth noRec vro d (rank d.name) (d.actions cfg.exact)
    (canon_deps_rank cfg.db rank hdag d hc cfg.exact)
    ⟨{ s.env with dirs := aunset s.env.dirs d.name, recs := aunset s.env.recs d.name }, s.aliases, s.unaliased, s.already, s.cache⟩
    s' ha h m hr
  rw [this]
  exact aget_aunset_other _ _ _ hm

theorem install_already (depth : Nat) (noRec : Bool) (vro : List VroEnt) (d : Decl) (reason : Option VroEnt)
    (hc : Canon cfg.db d) (s s' : St) (ha : AlreadyOK cfg.db s.already)
    (h : (install rec cfg depth noRec vro d reason s).st? = some s') : AlreadyOK cfg.db s'.already := by
  have hrecd : ∀ s1 : St, AlreadyOK cfg.db s1.already → AlreadyOK cfg.db (record d reason s1).already :=
    fun s1 h1 => alreadyOK_aset cfg.db _ h1 d reason hc
  unfold install at h
  split at h
  · exact acts_already cfg rec hrec.already true depth noRec vro d _ _ s' (hrecd s ha) h
  · split at h
    · simp [Res.st?] at h; subst h; exact ha
    · split at h
      · simp [Res.st?] at h
      · rename_i s1 hr
        exact acts_already cfg rec hrec.already true depth noRec vro d _ _ s'
          (hrecd s1 (hrec.already _ _ _ _ _ _ _ _ _ ha (by rw [hr]; rfl))) h
      · rename_i s1 hr
        exact acts_already cfg rec hrec.already true depth noRec vro d _ _ s'
          (hrecd s1 (hrec.already _ _ _ _ _ _ _ _ _ ha (by rw [hr]; rfl))) h
      · rename_i s1 hr
        exact acts_already cfg rec hrec.already true depth noRec vro d _ _ s'
          (hrecd s1 (hrec.already _ _ _ _ _ _ _ _ _ ha (by rw [hr]; rfl))) h

theorem install_frame (depth : Nat) (noRec : Bool) (vro : List VroEnt) (d : Decl) (reason : Option VroEnt)
    (hc : Canon cfg.db d) (s s' : St) (ha : AlreadyOK cfg.db s.already)
    (h : install rec cfg depth noRec vro d reason s = .ok s') :
    ∀ m, m ≠ d.name → rank d.name ≤ rank m → s'.env.rec? m = s.env.rec? m := by
  intro m hm hr
  have tail : ∀ s1 : St, AlreadyOK cfg.db s1.already → s1.env.rec? m = s.env.rec? m →
      acts rec cfg true depth noRec vro d (d.actions cfg.exact) (record d reason s1) = .ok s' →
      s'.env.rec? m = s.env.rec? m := by
    intro s1 h1 he hacts
    have := acts_frame cfg rank rec hrec true depth noRec vro d (rank d.name) (d.actions cfg.exact)
      (canon_deps_rank cfg.db rank hdag d hc cfg.exact) _ s' (alreadyOK_aset cfg.db _ h1 d reason hc) hacts m hr
    rw [this, record_rec?_other d reason s1 m hm, he]
  unfold install at h
  cases hsp : setupProd cfg.db s.env d.name with
  | none => rw [hsp] at h; exact tail s ha rfl h
  | some sd =>
    rw [hsp] at h
    simp only at h
    split at h
    · simp at h; subst h; rfl
    · split at h
      · cases h
      · rename_i s1 hr1
        exact tail s1 (hrec.already _ _ _ _ _ _ _ _ _ ha (by rw [hr1]; rfl))
          (hrec.frame _ _ _ _ _ _ _ _ _ ha hr1 m hm hr) h
      · rename_i s1 hr1
        have := (hrec.unfail _ _ _ _ _ _ _ _).2 hr1
        rw [hsp] at this; cases this
      · rename_i s1 hr1
        exact absurd hr1 (hrec.unfail _ _ _ _ _ _ _ _).1

theorem install_spec (depth : Nat) (noRec : Bool) (vro : List VroEnt) (d : Decl) (reason : Option VroEnt)
    (hc : Canon cfg.db d) (s s' : St) (ha : AlreadyOK cfg.db s.already) (hw : WellOwned cfg s.env)
    (hn : NoResidue Empty s.env) (h : install rec cfg depth noRec vro d reason s = .ok s') :
    NoResidue Empty s'.env ∧ WellOwned cfg s'.env := by
  have tail : ∀ s1 : St, AlreadyOK cfg.db s1.already → WellOwned cfg s1.env → NoResidue Empty s1.env →
      s1.env.rec? d.name = none →
      acts rec cfg true depth noRec vro d (d.actions cfg.exact) (record d reason s1) = .ok s' →
      NoResidue Empty s'.env ∧ WellOwned cfg s'.env := by
    intro s1 h1 hw1 hn1 hnone hacts
    obtain ⟨hn2, hw2⟩ := record_spec cfg d reason s1 hw1 hn1 hnone
    exact acts_true_spec cfg rank rec hrec depth noRec vro d (d.actions cfg.exact)
      (canon_deps_rank cfg.db rank hdag d hc cfg.exact) (fun a hm => by rw [tableOf_canon cfg d hc]; exact hm)
      _ s' (alreadyOK_aset cfg.db _ h1 d reason hc) hw2 hn2 (record_rec?_same d reason s1) hacts
  unfold install at h
  cases hsp : setupProd cfg.db s.env d.name with
  | none =>
    rw [hsp] at h
    simp only at h
    obtain ⟨hn2, hw2⟩ := record_spec_gen cfg d reason s hw hn hsp
    exact acts_true_spec cfg rank rec hrec depth noRec vro d (d.actions cfg.exact)
      (canon_deps_rank cfg.db rank hdag d hc cfg.exact) (fun a hm => by rw [tableOf_canon cfg d hc]; exact hm)
      _ s' (alreadyOK_aset cfg.db _ ha d reason hc) hw2 hn2 (record_rec?_same d reason s) h
  | some sd =>
    rw [hsp] at h
    simp only at h
    split at h
    · simp at h; subst h; exact ⟨hn, hw⟩
    · split at h
      · cases h
      · rename_i s1 hr1
        obtain ⟨hn1, hs1⟩ := hrec.unspec Empty _ _ _ _ _ _ _ _ hw hn hr1
        exact tail s1 (hrec.already _ _ _ _ _ _ _ _ _ ha (by rw [hr1]; rfl)) (hw.of_sub hs1) hn1
          (hrec.unsets _ _ _ _ _ _ _ _ hw hr1) h
      · rename_i s1 hr1
        -- "not found" although a set-up product was found: impossible
        have := (hrec.unfail _ _ _ _ _ _ _ _).2 hr1
        rw [hsp] at this; cases this
      · rename_i s1 hr1
        exact absurd hr1 (hrec.unfail _ _ _ _ _ _ _ _).1

end Generic

end EupsModel.Setup

namespace EupsModel.Setup

theorem setup_unfail (cfg : Cfg) (fuel : Nat) (depth : Nat) (noRec : Bool) (vro : List VroEnt) (n : Name)
    (ver : Option VerReq) (vexpr : Option VExpr) (s s' : St) :
    setup cfg fuel false depth noRec vro n ver vexpr s ≠ .raised s' ∧
    (setup cfg fuel false depth noRec vro n ver vexpr s = .notFound s' → setupProd cfg.db s.env n = none) := by
  cases fuel with
  | zero => simp [setup_zero]
  | succ k =>
    rw [setup_succ_false]
    cases hsp : setupProd cfg.db s.env n with
    | none => simp
    | some d =>
      simp only
      obtain ⟨h1, h2⟩ := acts_false_ne_fail (setup cfg k) cfg depth noRec vro d (d.actions cfg.exact)
        ⟨{ s.env with dirs := aunset s.env.dirs d.name, recs := aunset s.env.recs d.name }, s.aliases, s.unaliased, s.already, s.cache⟩ s'
      exact ⟨h1, fun h => absurd h h2⟩

/-- everything the proofs need of `setup` at every fuel, by one induction -/
theorem setup_recOK (cfg : Cfg) (rank : Name → Nat) (hdag : NameDag cfg.db rank) :
    ∀ fuel, RecOK cfg rank (setup cfg fuel) := by
  intro fuel
  induction fuel with
  | zero =>
    refine ⟨?_, ?_, ?_, setup_false_spec cfg 0, ?_, ?_⟩
    · intro fwd depth noRec vro n ver vexpr s s' _ h; simp [setup_zero, Res.st?] at h
    · intro fwd depth noRec vro n ver vexpr s s' _ h; simp [setup_zero] at h
    · intro depth noRec vro n ver vexpr s s'; exact setup_unfail cfg 0 depth noRec vro n ver vexpr s s'
    · intro depth noRec vro n ver vexpr s s' _ h; simp [setup_zero] at h
    · intro fwd depth noRec vro n ver vexpr s s' _ _ _ h; simp [setup_zero] at h
  | succ k ih =>
    refine ⟨?_, ?_, ?_, setup_false_spec cfg (k + 1), ?_, ?_⟩
    · intro fwd depth noRec vro n ver vexpr s s' ha h
      cases fwd with
      | true =>
        rw [setup_succ_true] at h
        cases hres : resolve cfg.db cfg.path cfg.keep s.already n ver vexpr depth vro.length vro with
        | none => rw [hres] at h; simp [Res.st?] at h; subst h; exact ha
        | error => rw [hres] at h; simp [Res.st?] at h; subst h; exact ha
        | found d reason =>
          rw [hres] at h
          obtain ⟨hc, hname⟩ := resolve_spec cfg.db cfg.path cfg.keep s.already ha n ver vexpr depth _ _ _ _ hres
          try simp only at h
          obtain ⟨hc, hname⟩ := pickDecl_spec cfg.db s.cache d _ hc hname
          revert h hc hname; generalize pickDecl cfg.db s.cache d = d; intro h hc hname
          exact install_already cfg rank hdag (setup cfg k) ih depth noRec vro d reason hc _ s'
            (register_already cfg depth d reason (s.afterResolve cfg depth vro n ver vexpr) ha hc) h
      | false =>
        rw [setup_succ_false] at h
        cases hsp : setupProd cfg.db s.env n with
        | none => rw [hsp] at h; simp [Res.st?] at h; subst h; exact ha
        | some d =>
          rw [hsp] at h
          exact unwind_already cfg rank hdag (setup cfg k) ih depth noRec vro d s s' ha h
    · intro fwd depth noRec vro n ver vexpr s s' ha h m hm hr
      cases fwd with
      | true =>
        rw [setup_succ_true] at h
        cases hres : resolve cfg.db cfg.path cfg.keep s.already n ver vexpr depth vro.length vro with
        | none => rw [hres] at h; cases h
        | error => rw [hres] at h; cases h
        | found d reason =>
          rw [hres] at h
          obtain ⟨hc, hname⟩ := resolve_spec cfg.db cfg.path cfg.keep s.already ha n ver vexpr depth _ _ _ _ hres
          try simp only at h
          obtain ⟨hc, hname⟩ := pickDecl_spec cfg.db s.cache d _ hc hname
          revert h hc hname; generalize pickDecl cfg.db s.cache d = d; intro h hc hname
          have := install_frame cfg rank hdag (setup cfg k) ih depth noRec vro d reason hc _ s'
            (register_already cfg depth d reason (s.afterResolve cfg depth vro n ver vexpr) ha hc) h m (by rw [hname]; exact hm) (by rw [hname]; exact hr)
          rw [this, register_env]; rfl
      | false =>
        rw [setup_succ_false] at h
        cases hsp : setupProd cfg.db s.env n with
        | none => rw [hsp] at h; cases h
        | some d =>
          rw [hsp] at h
          obtain ⟨hc, hname, _⟩ := setupProd_some cfg.db s.env n d hsp
          exact unwind_frame cfg rank hdag (setup cfg k) ih depth noRec vro d hc s s' ha h m
            (by rw [hname]; exact hm) (by rw [hname]; exact hr)
    · intro depth noRec vro n ver vexpr s s'; exact setup_unfail cfg (k + 1) depth noRec vro n ver vexpr s s'
    · intro depth noRec vro n ver vexpr s s' hw h
      exact setup_false_unsets cfg (k + 1) depth noRec vro n ver vexpr s s' hw h
    · intro fwd depth noRec vro n ver vexpr s s' ha hw hn h
      cases fwd with
      | false =>
        obtain ⟨h1, h2⟩ := setup_false_spec cfg (k + 1) Empty depth noRec vro n ver vexpr s s' hw hn h
        exact ⟨h1, hw.of_sub h2⟩
      | true =>
        rw [setup_succ_true] at h
        cases hres : resolve cfg.db cfg.path cfg.keep s.already n ver vexpr depth vro.length vro with
        | none => rw [hres] at h; cases h
        | error => rw [hres] at h; cases h
        | found d reason =>
          rw [hres] at h
          obtain ⟨hc, hname⟩ := resolve_spec cfg.db cfg.path cfg.keep s.already ha n ver vexpr depth _ _ _ _ hres
          try simp only at h
          obtain ⟨hc, hname⟩ := pickDecl_spec cfg.db s.cache d _ hc hname
          revert h hc hname; generalize pickDecl cfg.db s.cache d = d; intro h hc hname
          exact install_spec cfg rank hdag (setup cfg k) ih depth noRec vro d reason hc _ s'
            (register_already cfg depth d reason (s.afterResolve cfg depth vro n ver vexpr) ha hc) (by rw [register_env]; exact hw)
            (by rw [register_env]; exact hn) h

end EupsModel.Setup

namespace EupsModel.Setup

/-- at depth 0 an explicitly named version is the one resolution returns (or nothing) -/
theorem resolve_explicit (db : Db) (path : List Nat) (keep : Bool) (al : Already) (name : Name) (v : VStr)
    (vexpr : Option VExpr) :
    ∀ k vro d r, resolve db path keep al name (some (.explicit v)) vexpr 0 k vro = .found d r → d.ver.1 = v := by
  intro k
  induction k with
  | zero => intro vro d r h; simp [resolve] at h
  | succ k ih =>
    intro vro d r h
    simp only [resolve] at h
    split at h
    · cases h
    · split at h
      · cases h
      · rename_i d' reason _
        split at h
        · rename_i hbad
          split at h
          · cases h
          · split at h
            · exact ih _ _ _ h
            · cases h
        · rename_i hgood
          simp at h
          obtain ⟨rfl, _⟩ := h
          simp at hgood
          exact hgood

/-- under `NameDag`, a top-level request that succeeds leaves the chosen product recorded -/
theorem install_top_record (cfg : Cfg) (rank : Name → Nat) (hdag : NameDag cfg.db rank) (rec : Rec)
    (hrec : RecOK cfg rank rec) (noRec : Bool) (vro : List VroEnt) (d : Decl) (reason : Option VroEnt)
    (hc : Canon cfg.db d) (s s' : St) (ha : AlreadyOK cfg.db s.already)
    (h : install rec cfg 0 noRec vro d reason s = .ok s') : s'.env.rec? d.name = some d.ver := by
  have tail : ∀ s1 : St, AlreadyOK cfg.db s1.already →
      acts rec cfg true 0 noRec vro d (d.actions cfg.exact) (record d reason s1) = .ok s' →
      s'.env.rec? d.name = some d.ver := by
    intro s1 h1 hacts
    have := acts_frame cfg rank rec hrec true 0 noRec vro d (rank d.name) (d.actions cfg.exact)
      (canon_deps_rank cfg.db rank hdag d hc cfg.exact) _ s' (alreadyOK_aset cfg.db _ h1 d reason hc) hacts
      d.name (Nat.le_refl _)
    rw [this]; exact record_rec?_same d reason s1
  unfold install at h
  cases hsp : setupProd cfg.db s.env d.name with
  | none => rw [hsp] at h; exact tail s ha h
  | some sd =>
    rw [hsp] at h
    simp only [Nat.lt_irrefl, gt_iff_lt, decide_false, Bool.and_false, Bool.false_eq_true, if_false] at h
    split at h
    · cases h
    · rename_i s1 hr1
      exact tail s1 (hrec.already _ _ _ _ _ _ _ _ _ ha (by rw [hr1]; rfl)) h
    · rename_i s1 hr1
      exact tail s1 (hrec.already _ _ _ _ _ _ _ _ _ ha (by rw [hr1]; rfl)) h
    · rename_i s1 hr1
      exact tail s1 (hrec.already _ _ _ _ _ _ _ _ _ ha (by rw [hr1]; rfl)) h

end EupsModel.Setup

namespace EupsModel.Setup

/-- executable check of `NameDag` (for concrete databases) -/
def nameDagB (db : Db) (rank : Name → Nat) : Bool :=
  db.decls.all fun d => d.table.all fun ga =>
    match ga.2 with
    | .dep n _ _ _ _ _ _ => decide (rank n < rank d.name)
    | _ => true

theorem nameDag_of_check (db : Db) (rank : Name → Nat) (h : nameDagB db rank = true) : NameDag db rank := by
  intro d hd g n o j v x t kl hg
  unfold nameDagB at h
  rw [List.all_eq_true] at h
  have h1 := h d hd
  rw [List.all_eq_true] at h1
  have h2 := h1 (g, Act.dep n o j v x t kl) hg
  simpa using h2

end EupsModel.Setup

namespace EupsModel.Setup

/-- the table interpreter never answers "not found" itself (a dependency that is not found is either swallowed or
turned into an exception) -/
theorem acts_ne_notFound (rec : Rec) (cfg : Cfg) (fwd : Bool) (depth : Nat) (noRec : Bool) (vro : List VroEnt) (d : Decl)
    (l : List Act) : ∀ s s', acts rec cfg fwd depth noRec vro d l s ≠ .notFound s' := by
  induction l with
  | nil => intro s s'; simp [acts]
  | cons a rest ih =>
    intro s s'
    by_cases hdep : ∃ n o j v x t kl, a = .dep n o j v x t kl
    · obtain ⟨n, o, j, v, x, t, kl, rfl⟩ := hdep
      simp only [acts]
      split
      · exact ih s s'
      · split
        · exact ih _ s'
        · simp
        · split
          · simp
          · exact ih _ s'
        · split
          · simp
          · exact ih _ s'
    · have hnd : ∀ n o j v x t kl, a ≠ .dep n o j v x t kl := fun n o j v x t kl e => hdep ⟨n, o, j, v, x, t, kl, e⟩
      rw [acts_cons_nondep rec cfg fwd depth noRec vro d a rest s hnd]
      exact ih _ s'

/-- when `Eups.setup` returns False (product not found / not set up) nothing has been touched -/
theorem setup_notFound_unchanged (cfg : Cfg) (fuel : Nat) (fwd : Bool) (depth : Nat) (noRec : Bool) (vro : List VroEnt)
    (n : Name) (ver : Option VerReq) (vexpr : Option VExpr) (s s' : St)
    (h : setup cfg fuel fwd depth noRec vro n ver vexpr s = .notFound s') : s' = s := by
  cases fuel with
  | zero => simp [setup_zero] at h
  | succ k =>
    cases fwd with
    | false =>
      rw [setup_succ_false] at h
      cases hsp : setupProd cfg.db s.env n with
      | none => rw [hsp] at h; simp at h; exact h.symm
      | some d => rw [hsp] at h; exact absurd h (acts_ne_notFound _ _ _ _ _ _ _ _ _ _)
    | true =>
      rw [setup_succ_true] at h
      cases hres : resolve cfg.db cfg.path cfg.keep s.already n ver vexpr depth vro.length vro with
      | none => rw [hres] at h; simp at h; exact h.symm
      | error => rw [hres] at h; cases h
      | found d reason =>
        rw [hres] at h
        simp only at h
        unfold install at h
        split at h
        · exact absurd h (acts_ne_notFound _ _ _ _ _ _ _ _ _ _)
        · split at h
          · cases h
          · split at h
            · cases h
            · exact absurd h (acts_ne_notFound _ _ _ _ _ _ _ _ _ _)
            · exact absurd h (acts_ne_notFound _ _ _ _ _ _ _ _ _ _)
            · exact absurd h (acts_ne_notFound _ _ _ _ _ _ _ _ _ _)

end EupsModel.Setup
