import EupsModel.Model.Db
/-! Helper lemmas about `Model/Db.lean`: membership after the primitive updates, the invariants of a
database content and their preservation by every effect, the footprint of an effect. -/
namespace EupsModel.Db

/-! ## keys -/

theorem Decl.hasKey_iff {d : Decl} {s : Nat} {n : Name} {v : Ver} {f : Flav} :
    d.hasKey s n v f = true ↔ d.stack = s ∧ d.name = n ∧ d.ver = v ∧ d.flav = f := by
  simp [Decl.hasKey, and_assoc]

theorem Decl.sameKey_iff {d e : Decl} :
    d.sameKey e = true ↔ d.stack = e.stack ∧ d.name = e.name ∧ d.ver = e.ver ∧ d.flav = e.flav := by
  simp [Decl.sameKey, Decl.hasKey_iff]

theorem TagRec.hasKey_iff {r : TagRec} {s : Nat} {t : Tag} {n : Name} {f : Flav} :
    r.hasKey s t n f = true ↔ r.stack = s ∧ r.tag = t ∧ r.name = n ∧ r.flav = f := by
  simp [TagRec.hasKey, and_assoc]

theorem TagRec.sameKey_iff {r q : TagRec} :
    r.sameKey q = true ↔ r.stack = q.stack ∧ r.tag = q.tag ∧ r.name = q.name ∧ r.flav = q.flav := by
  simp [TagRec.sameKey, TagRec.hasKey_iff]

theorem TagRec.pointsAt_iff {r : TagRec} {s : Nat} {n : Name} {v : Ver} {f : Flav} :
    r.pointsAt s n v f = true ↔ r.stack = s ∧ r.name = n ∧ r.flav = f ∧ r.ver = v := by
  simp [TagRec.pointsAt, and_assoc]

theorem Spec.hasDecl_iff {c : Spec} {s : Nat} {n : Name} {v : Ver} {f : Flav} :
    c.hasDecl s n v f = true ↔ ∃ d ∈ c.decls, d.hasKey s n v f = true := by
  simp [Spec.hasDecl, List.any_eq_true]

theorem Spec.hasTag_iff {c : Spec} {s : Nat} {t : Tag} {n : Name} {f : Flav} :
    c.hasTag s t n f = true ↔ ∃ r ∈ c.tags, r.hasKey s t n f = true := by
  simp [Spec.hasTag, List.any_eq_true]

/-! ## membership after the primitive updates -/

@[simp] theorem Spec.tags_setDecl (c : Spec) (d : Decl) : (c.setDecl d).tags = c.tags := rfl
@[simp] theorem Spec.decls_setTag (c : Spec) (r : TagRec) : (c.setTag r).decls = c.decls := rfl
@[simp] theorem Spec.decls_delTag (c : Spec) (s : Nat) (t : Tag) (n : Name) (f : Flav) :
    (c.delTag s t n f).decls = c.decls := rfl

theorem Spec.mem_setDecl {c : Spec} {d x : Decl} :
    x ∈ (c.setDecl d).decls ↔ x = d ∨ (x ∈ c.decls ∧ x.sameKey d = false) := by
  simp [Spec.setDecl, List.mem_filter]

theorem Spec.mem_setTag {c : Spec} {r x : TagRec} :
    x ∈ (c.setTag r).tags ↔ x = r ∨ (x ∈ c.tags ∧ x.sameKey r = false) := by
  simp [Spec.setTag, List.mem_filter]

theorem Spec.mem_delTag {c : Spec} {s : Nat} {t : Tag} {n : Name} {f : Flav} {x : TagRec} :
    x ∈ (c.delTag s t n f).tags ↔ x ∈ c.tags ∧ x.hasKey s t n f = false := by
  simp [Spec.delTag, List.mem_filter]

theorem Spec.mem_delDecl_decls {c : Spec} {s : Nat} {n : Name} {v : Ver} {f : Flav} {x : Decl} :
    x ∈ (c.delDecl s n v f).decls ↔ x ∈ c.decls ∧ x.hasKey s n v f = false := by
  simp [Spec.delDecl, List.mem_filter]

theorem Spec.mem_delDecl_tags {c : Spec} {s : Nat} {n : Name} {v : Ver} {f : Flav} {x : TagRec} :
    x ∈ (c.delDecl s n v f).tags ↔ x ∈ c.tags ∧ x.pointsAt s n v f = false := by
  simp [Spec.delDecl, List.mem_filter]

theorem Spec.hasDecl_setDecl_self (c : Spec) (d : Decl) :
    (c.setDecl d).hasDecl d.stack d.name d.ver d.flav = true := by
  rw [Spec.hasDecl_iff]; exact ⟨d, Spec.mem_setDecl.mpr (Or.inl rfl), by simp [Decl.hasKey_iff]⟩

/-- a key that was declared stays declared when some declaration is written -/
theorem Spec.hasDecl_setDecl_of {c : Spec} {d : Decl} {s : Nat} {n : Name} {v : Ver} {f : Flav}
    (h : c.hasDecl s n v f = true) : (c.setDecl d).hasDecl s n v f = true := by
  rw [Spec.hasDecl_iff] at h ⊢
  obtain ⟨x, hx, hk⟩ := h
  by_cases hs : x.sameKey d = true
  · refine ⟨d, Spec.mem_setDecl.mpr (Or.inl rfl), ?_⟩
    rw [Decl.hasKey_iff] at hk ⊢; rw [Decl.sameKey_iff] at hs
    obtain ⟨h1, h2, h3, h4⟩ := hs; obtain ⟨k1, k2, k3, k4⟩ := hk
    exact ⟨h1 ▸ k1, h2 ▸ k2, h3 ▸ k3, h4 ▸ k4⟩
  · exact ⟨x, Spec.mem_setDecl.mpr (Or.inr ⟨hx, by simpa using hs⟩), hk⟩

/-! ## invariants of a database content -/

/-- no tag points at an undeclared version -/
def NoDangling (c : Spec) : Prop := ∀ r ∈ c.tags, c.hasDecl r.stack r.name r.ver r.flav = true

/-- within a stack a tag names at most one version per product and flavor, and a (stack, name, version,
flavor) is declared at most once -/
structure KeysUnique (c : Spec) : Prop where
  decl : ∀ d ∈ c.decls, ∀ e ∈ c.decls, d.sameKey e = true → d = e
  tag : ∀ r ∈ c.tags, ∀ q ∈ c.tags, r.sameKey q = true → r = q

theorem noDangling_empty : NoDangling Spec.empty := by intro r h; simp [Spec.empty] at h
theorem keysUnique_empty : KeysUnique Spec.empty :=
  ⟨by intro d h; simp [Spec.empty] at h, by intro r h; simp [Spec.empty] at h⟩

theorem NoDangling.setDecl {c : Spec} (h : NoDangling c) (d : Decl) : NoDangling (c.setDecl d) := by
  intro r hr
  exact Spec.hasDecl_setDecl_of (h r hr)

theorem NoDangling.setTag {c : Spec} (h : NoDangling c) (r : TagRec)
    (hr : c.hasDecl r.stack r.name r.ver r.flav = true) : NoDangling (c.setTag r) := by
  intro x hx
  rcases Spec.mem_setTag.mp hx with rfl | ⟨hx, _⟩
  · exact hr
  · exact h x hx

theorem NoDangling.delTag {c : Spec} (h : NoDangling c) (s : Nat) (t : Tag) (n : Name) (f : Flav) :
    NoDangling (c.delTag s t n f) := by
  intro x hx
  exact h x (Spec.mem_delTag.mp hx).1

theorem NoDangling.delDecl {c : Spec} (h : NoDangling c) (s : Nat) (n : Name) (v : Ver) (f : Flav) :
    NoDangling (c.delDecl s n v f) := by
  intro r hr
  obtain ⟨hr, hp⟩ := Spec.mem_delDecl_tags.mp hr
  have := h r hr
  rw [Spec.hasDecl_iff] at this ⊢
  obtain ⟨x, hx, hk⟩ := this
  refine ⟨x, Spec.mem_delDecl_decls.mpr ⟨hx, ?_⟩, hk⟩
  cases hxk : x.hasKey s n v f with
  | false => rfl
  | true =>
    exfalso
    rw [Decl.hasKey_iff] at hk hxk
    have : r.pointsAt s n v f = true := by
      rw [TagRec.pointsAt_iff]
      obtain ⟨a1, a2, a3, a4⟩ := hk; obtain ⟨b1, b2, b3, b4⟩ := hxk
      exact ⟨a1 ▸ b1, a2 ▸ b2, a4 ▸ b4, a3 ▸ b3⟩
    rw [this] at hp; exact Bool.noConfusion hp

theorem NoDangling.assign {c : Spec} (h : NoDangling c) (s : Nat) (t : Tag) (n : Name) (f : Flav) (v : Ver) :
    NoDangling (c.assign s t n f v) := by
  unfold Spec.assign
  split
  · rename_i hd; exact h.setTag ⟨s, t, n, f, v⟩ hd
  · exact h

theorem NoDangling.addDecl {c : Spec} (h : NoDangling c) (d : Decl) (tag : Option Tag) :
    NoDangling (c.addDecl d tag) := by
  cases tag with
  | none => exact h.setDecl d
  | some t => exact (h.setDecl d).setTag _ (Spec.hasDecl_setDecl_self c d)

/-- every effect keeps the database free of dangling tags -/
theorem NoDangling.apply {c : Spec} (h : NoDangling c) (e : Eff) : NoDangling (applyDb e c) := by
  cases e with
  | declare d tag => exact h.addDecl d tag
  | undeclare s n v f => exact h.delDecl s n v f
  | assign s t n f v => exact h.assign s t n f v
  | unassign s t n f => exact h.delTag s t n f
  | rmTree _ => exact h
  | copyExtra _ => exact h

theorem KeysUnique.setDecl {c : Spec} (h : KeysUnique c) (d : Decl) : KeysUnique (c.setDecl d) := by
  refine ⟨?_, h.tag⟩
  intro x hx y hy hxy
  rcases Spec.mem_setDecl.mp hx with rfl | ⟨hx, hxd⟩ <;> rcases Spec.mem_setDecl.mp hy with rfl | ⟨hy, hyd⟩
  · rfl
  · exfalso
    have : y.sameKey x = true := by
      rw [Decl.sameKey_iff] at hxy ⊢; obtain ⟨a, b, c', d'⟩ := hxy; exact ⟨a.symm, b.symm, c'.symm, d'.symm⟩
    rw [this] at hyd; exact Bool.noConfusion hyd
  · exfalso; rw [hxy] at hxd; exact Bool.noConfusion hxd
  · exact h.decl x hx y hy hxy

theorem KeysUnique.setTag {c : Spec} (h : KeysUnique c) (r : TagRec) : KeysUnique (c.setTag r) := by
  refine ⟨h.decl, ?_⟩
  intro x hx y hy hxy
  rcases Spec.mem_setTag.mp hx with rfl | ⟨hx, hxd⟩ <;> rcases Spec.mem_setTag.mp hy with rfl | ⟨hy, hyd⟩
  · rfl
  · exfalso
    have : y.sameKey x = true := by
      rw [TagRec.sameKey_iff] at hxy ⊢; obtain ⟨a, b, c', d'⟩ := hxy; exact ⟨a.symm, b.symm, c'.symm, d'.symm⟩
    rw [this] at hyd; exact Bool.noConfusion hyd
  · exfalso; rw [hxy] at hxd; exact Bool.noConfusion hxd
  · exact h.tag x hx y hy hxy

theorem KeysUnique.delTag {c : Spec} (h : KeysUnique c) (s : Nat) (t : Tag) (n : Name) (f : Flav) :
    KeysUnique (c.delTag s t n f) :=
  ⟨h.decl, fun x hx y hy => h.tag x (Spec.mem_delTag.mp hx).1 y (Spec.mem_delTag.mp hy).1⟩

theorem KeysUnique.delDecl {c : Spec} (h : KeysUnique c) (s : Nat) (n : Name) (v : Ver) (f : Flav) :
    KeysUnique (c.delDecl s n v f) :=
  ⟨fun x hx y hy => h.decl x (Spec.mem_delDecl_decls.mp hx).1 y (Spec.mem_delDecl_decls.mp hy).1,
   fun x hx y hy => h.tag x (Spec.mem_delDecl_tags.mp hx).1 y (Spec.mem_delDecl_tags.mp hy).1⟩

theorem KeysUnique.assign {c : Spec} (h : KeysUnique c) (s : Nat) (t : Tag) (n : Name) (f : Flav) (v : Ver) :
    KeysUnique (c.assign s t n f v) := by
  unfold Spec.assign; split
  · exact h.setTag _
  · exact h

theorem KeysUnique.addDecl {c : Spec} (h : KeysUnique c) (d : Decl) (tag : Option Tag) :
    KeysUnique (c.addDecl d tag) := by
  cases tag with
  | none => exact h.setDecl d
  | some t => exact (h.setDecl d).setTag _

theorem KeysUnique.apply {c : Spec} (h : KeysUnique c) (e : Eff) : KeysUnique (applyDb e c) := by
  cases e with
  | declare d tag => exact h.addDecl d tag
  | undeclare s n v f => exact h.delDecl s n v f
  | assign s t n f v => exact h.assign s t n f v
  | unassign s t n f => exact h.delTag s t n f
  | rmTree _ => exact h
  | copyExtra _ => exact h

/-- the invariant of the database content -/
structure DbInv (c : Spec) : Prop where
  nd : NoDangling c
  ku : KeysUnique c

theorem dbInv_empty : DbInv Spec.empty := ⟨noDangling_empty, keysUnique_empty⟩
theorem DbInv.apply {c : Spec} (h : DbInv c) (e : Eff) : DbInv (applyDb e c) := ⟨h.nd.apply e, h.ku.apply e⟩

theorem DbInv.foldl {c : Spec} (h : DbInv c) (es : List Eff) : DbInv (es.foldl (fun c e => applyDb e c) c) := by
  induction es generalizing c with
  | nil => exact h
  | cons e es ih => exact ih (h.apply e)

/-! ## the footprint of an effect -/

def Eff.touchesDecl : Eff → Decl → Bool
  | .declare d _, x => x.sameKey d
  | .undeclare s n v f, x => x.hasKey s n v f
  | _, _ => false

def Eff.touchesTag : Eff → TagRec → Bool
  | .declare d (some t), r => r.hasKey d.stack t d.name d.flav
  | .undeclare s n v f, r => r.pointsAt s n v f
  | .assign s t n f _, r => r.hasKey s t n f
  | .unassign s t n f, r => r.hasKey s t n f
  | _, _ => false

theorem Spec.mem_setTag_of_not_sameKey {c : Spec} {r x : TagRec} (h : x.sameKey r = false) :
    x ∈ (c.setTag r).tags ↔ x ∈ c.tags := by
  have hx : x ≠ r := by
    rintro rfl
    have : x.sameKey x = true := by simp [TagRec.sameKey_iff]
    rw [this] at h; exact Bool.noConfusion h
  rw [Spec.mem_setTag]; simp [hx, h]

theorem Spec.mem_setDecl_of_not_sameKey {c : Spec} {d x : Decl} (h : x.sameKey d = false) :
    x ∈ (c.setDecl d).decls ↔ x ∈ c.decls := by
  have hx : x ≠ d := by
    rintro rfl
    have : x.sameKey x = true := by simp [Decl.sameKey_iff]
    rw [this] at h; exact Bool.noConfusion h
  rw [Spec.mem_setDecl]; simp [hx, h]

@[simp] theorem Spec.decls_addDecl_some (c : Spec) (d : Decl) (t : Tag) :
    (c.addDecl d (some t)).decls = (c.setDecl d).decls := rfl
@[simp] theorem Spec.addDecl_none (c : Spec) (d : Decl) : c.addDecl d none = c.setDecl d := rfl

theorem applyDb_frame_decl (e : Eff) (c : Spec) (x : Decl) (h : e.touchesDecl x = false) :
    x ∈ (applyDb e c).decls ↔ x ∈ c.decls := by
  cases e with
  | declare d tag =>
    simp only [Eff.touchesDecl] at h
    cases tag <;> simpa [applyDb] using Spec.mem_setDecl_of_not_sameKey h
  | undeclare s n v f =>
    simp only [Eff.touchesDecl] at h
    simp [applyDb, Spec.mem_delDecl_decls, h]
  | assign s t n f v => simp only [applyDb, Spec.assign]; split <;> simp
  | unassign s t n f => simp [applyDb]
  | rmTree _ => simp [applyDb]
  | copyExtra _ => simp [applyDb]

theorem applyDb_frame_tag (e : Eff) (c : Spec) (x : TagRec) (h : e.touchesTag x = false) :
    x ∈ (applyDb e c).tags ↔ x ∈ c.tags := by
  cases e with
  | declare d tag =>
    cases tag with
    | none => simp [applyDb]
    | some t =>
      simp only [Eff.touchesTag] at h
      simp only [applyDb, Spec.addDecl]
      rw [Spec.mem_setTag_of_not_sameKey (by simpa [TagRec.sameKey] using h)]
      simp
  | undeclare s n v f =>
    simp only [Eff.touchesTag] at h
    simp [applyDb, Spec.mem_delDecl_tags, h]
  | assign s t n f v =>
    simp only [Eff.touchesTag] at h
    simp only [applyDb, Spec.assign]; split
    · exact Spec.mem_setTag_of_not_sameKey (by simpa [TagRec.sameKey] using h)
    · exact Iff.rfl
  | unassign s t n f =>
    simp only [Eff.touchesTag] at h
    simp [applyDb, Spec.mem_delTag, h]
  | rmTree _ => simp [applyDb]
  | copyExtra _ => simp [applyDb]

/-- an effect that stays within product `n`, flavor `f`, the versions `vs` and the tags `ts` -/
def Within (n : Name) (f : Flav) (vs : Ver → Prop) (ts : Tag → Prop) : Eff → Prop
  | .declare d tag => d.name = n ∧ d.flav = f ∧ vs d.ver ∧ ∀ t, tag = some t → ts t
  | .undeclare _ n' v f' => n' = n ∧ f' = f ∧ vs v
  | .assign _ t n' f' _ => n' = n ∧ f' = f ∧ ts t
  | .unassign _ t n' f' => n' = n ∧ f' = f ∧ ts t
  | .rmTree _ => True
  | .copyExtra _ => True

theorem Within.touchesDecl {n : Name} {f : Flav} {vs : Ver → Prop} {ts : Tag → Prop} {e : Eff}
    (h : Within n f vs ts e) {x : Decl} (hx : e.touchesDecl x = true) : x.name = n ∧ x.flav = f ∧ vs x.ver := by
  cases e with
  | declare d tag =>
    simp only [Eff.touchesDecl, Decl.sameKey_iff] at hx
    obtain ⟨h1, h2, h3, _⟩ := h
    exact ⟨hx.2.1 ▸ h1, hx.2.2.2 ▸ h2, hx.2.2.1 ▸ h3⟩
  | undeclare s n' v f' =>
    simp only [Eff.touchesDecl, Decl.hasKey_iff] at hx
    obtain ⟨h1, h2, h3⟩ := h
    exact ⟨hx.2.1 ▸ h1, hx.2.2.2 ▸ h2, hx.2.2.1 ▸ h3⟩
  | assign _ _ _ _ _ => simp [Eff.touchesDecl] at hx
  | unassign _ _ _ _ => simp [Eff.touchesDecl] at hx
  | rmTree _ => simp [Eff.touchesDecl] at hx
  | copyExtra _ => simp [Eff.touchesDecl] at hx

theorem Within.touchesTag {n : Name} {f : Flav} {vs : Ver → Prop} {ts : Tag → Prop} {e : Eff}
    (h : Within n f vs ts e) {x : TagRec} (hx : e.touchesTag x = true) :
    x.name = n ∧ x.flav = f ∧ (ts x.tag ∨ vs x.ver) := by
  cases e with
  | declare d tag =>
    cases tag with
    | none => simp [Eff.touchesTag] at hx
    | some t =>
      simp only [Eff.touchesTag, TagRec.hasKey_iff] at hx
      obtain ⟨h1, h2, _, h4⟩ := h
      exact ⟨hx.2.2.1 ▸ h1, hx.2.2.2 ▸ h2, Or.inl (hx.2.1 ▸ h4 t rfl)⟩
  | undeclare s n' v f' =>
    simp only [Eff.touchesTag, TagRec.pointsAt_iff] at hx
    obtain ⟨h1, h2, h3⟩ := h
    exact ⟨hx.2.1 ▸ h1, hx.2.2.1 ▸ h2, Or.inr (hx.2.2.2 ▸ h3)⟩
  | assign s t n' f' v =>
    simp only [Eff.touchesTag, TagRec.hasKey_iff] at hx
    obtain ⟨h1, h2, h3⟩ := h
    exact ⟨hx.2.2.1 ▸ h1, hx.2.2.2 ▸ h2, Or.inl (hx.2.1 ▸ h3)⟩
  | unassign s t n' f' =>
    simp only [Eff.touchesTag, TagRec.hasKey_iff] at hx
    obtain ⟨h1, h2, h3⟩ := h
    exact ⟨hx.2.2.1 ▸ h1, hx.2.2.2 ▸ h2, Or.inl (hx.2.1 ▸ h3)⟩
  | rmTree _ => simp [Eff.touchesTag] at hx
  | copyExtra _ => simp [Eff.touchesTag] at hx

/-! ## what the commands emit -/

/-- every effect of the trace satisfies `Q` -/
def TrOK (Q : Eff → Prop) (p : Proc) : Prop := ∀ e ∈ p.tr, Q e

theorem TrOK.emit {Q : Eff → Prop} {p : Proc} (h : TrOK Q p) {e : Eff} (he : Q e) : TrOK Q (p.emit e) := by
  intro x hx
  simp only [Proc.emit, List.mem_append, List.mem_singleton] at hx
  rcases hx with hx | rfl
  · exact h x hx
  · exact he

section emitted
variable {n : Name} {f : Flav} {vs : Ver → Prop} {ts : Tag → Prop}

theorem doUnassign_trOK {t : Tag} {s : Nat} {na : Bool} {p : Proc} (ht : ts t)
    (h : TrOK (Within n f vs ts) p) : TrOK (Within n f vs ts) (doUnassign f t n s na p).2 := by
  unfold doUnassign
  split
  · exact h
  · exact h.emit (e := .unassign s t n f) ⟨rfl, rfl, ht⟩

theorem purge_trOK {t : Tag} (ht : ts t) (ds : List Decl) {p : Proc}
    (h : TrOK (Within n f vs ts) p) : TrOK (Within n f vs ts) (purge f t n ds p) := by
  induction ds generalizing p with
  | nil => exact h
  | cons d ds ih => exact ih (doUnassign_trOK ht h)

theorem purgeAll_trOK {nst : Nat} {t : Tag} (ht : ts t) (ss : List Nat) {p : Proc}
    (h : TrOK (Within n f vs ts) p) : TrOK (Within n f vs ts) (purgeAll nst f t n ss p) := by
  induction ss generalizing p with
  | nil => exact h
  | cons s ss ih => exact ih (purge_trOK ht _ h)

theorem assignTag_trOK {t : Tag} {v : Ver} {stacks : List Nat} {p : Proc} (ht : ts t)
    (h : TrOK (Within n f vs ts) p) : TrOK (Within n f vs ts) (assignTag f t n v stacks p).2 := by
  unfold assignTag
  split
  · exact h
  · split
    · exact h
    · exact h.emit (e := .assign _ t n f v) ⟨rfl, rfl, ht⟩

theorem unassignTag_trOK {nst : Nat} {t : Tag} {v : Option Ver} {st : Option Nat} {na : Bool} {p : Proc} (ht : ts t)
    (h : TrOK (Within n f vs ts) p) : TrOK (Within n f vs ts) (unassignTag nst f t n v st na p).2 := by
  unfold unassignTag
  split
  · split
    · exact h
    · split
      · exact doUnassign_trOK ht h
      · exact h
  · split
    · exact doUnassign_trOK ht h
    · split
      · exact doUnassign_trOK ht h
      · split <;> exact h

end emitted

/-! ## the footprint of a command -/

def Cmd.name : Cmd → Name
  | .declare a => a.name
  | .undeclare a => a.name
  | .assignTag _ _ n _ _ => n
  | .unassignTag _ _ n _ _ _ => n
  | .remove _ n _ _ _ _ _ => n
  | .query _ => []

/-- the versions whose declaration the command may change -/
def Cmd.fpVer : Cmd → Ver → Prop
  | .declare a, v => v = a.ver
  | .undeclare a, v => (a.tag = none ∨ a.versionAndTag = true) ∧ ∀ v', a.ver = some v' → v = v'
  | .remove _ _ v' _ _ _ _, v => v = v'
  | _, _ => False

/-- the tags the command may assign or unassign -/
def Cmd.fpTag : Cmd → Tag → Prop
  | .declare a, t => t = a.tag.getD current
  | .undeclare a, t => a.tag = some t
  | .assignTag _ t' _ _ _, t => t = t'
  | .unassignTag _ t' _ _ _ _, t => t = t'
  | .remove .., _ => False
  | .query _, _ => False

theorem declareTag_spec {nst : Nat} {a : DeclareArgs} {m : Spec} :
    ∀ t, declareTag nst a m = some t → t = a.tag.getD current := by
  intro t ht
  unfold declareTag at ht
  split at ht
  · rename_i t' hat; cases ht; simp [hat]
  · rename_i hat
    split at ht
    · cases ht; simp [hat]
    · cases ht

theorem declareCore_trOK {nst : Nat} {a : DeclareArgs} {r : Resolved} {tag : Option Tag} {rd : Redeclare}
    {p : Proc} {ts : Tag → Prop} (ht : ∀ t, tag = some t → ts t)
    (h : TrOK (Within a.name a.self (fun v => v = a.ver) ts) p) :
    TrOK (Within a.name a.self (fun v => v = a.ver) ts) (declareCore nst a r tag rd p).2 := by
  unfold declareCore
  dsimp only
  have h1 : TrOK (Within a.name a.self (fun v => v = a.ver) ts)
      (if (rd == .write && !a.noaction) = true then
        p.emit (.declare ⟨r.target, a.name, a.ver, a.self, r.d, r.table⟩ tag)
       else p) := by
    split
    · exact h.emit (e := .declare _ tag) ⟨rfl, rfl, rfl, ht⟩
    · exact h
  split
  · exact h1
  · rename_i t
    split
    · exact h1
    · exact assignTag_trOK (ht t rfl) (purgeAll_trOK (ht t rfl) _ h1)

theorem saveExtras_trOK {a : DeclareArgs} {target : Nat} {Q : Eff → Prop} (hQ : ∀ x, Q (.copyExtra x))
    (es : List (Str × Nat)) {p : Proc} (h : TrOK Q p) : TrOK Q (saveExtras a target es p) := by
  induction es generalizing p with
  | nil => exact h
  | cons e es ih => exact ih (h.emit (hQ _))

theorem declareFinish_trOK {nst : Nat} {a : DeclareArgs} {r : Resolved} {tag : Option Tag} {rd : Redeclare}
    {p : Proc} {ts : Tag → Prop} (ht : ∀ t, tag = some t → ts t)
    (h : TrOK (Within a.name a.self (fun v => v = a.ver) ts) p) :
    TrOK (Within a.name a.self (fun v => v = a.ver) ts) (declareFinish nst a r tag rd p).2 := by
  have hc := declareCore_trOK (nst := nst) (r := r) (rd := rd) ht h
  unfold declareFinish
  split
  · rename_i p2 heq
    rw [heq] at hc
    split
    · exact hc
    · exact saveExtras_trOK (fun _ => trivial) _ hc
  · exact hc

theorem declare_trOK {nst : Nat} {a : DeclareArgs} {p : Proc}
    (h : TrOK (Within a.name a.self (fun v => v = a.ver) (fun t => t = a.tag.getD current)) p) :
    TrOK (Within a.name a.self (fun v => v = a.ver) (fun t => t = a.tag.getD current)) (declare nst a p).2 := by
  unfold declare
  split
  · exact h
  · dsimp only
    split
    · exact h
    · exact declareFinish_trOK declareTag_spec h

theorem inferVersion_some {nst : Nat} {a : UndeclareArgs} {ver : Option Ver} {m : Spec} {v : Ver}
    (h : inferVersion nst a ver m = .ok v) : ∀ v', ver = some v' → v = v' := by
  intro v' hv
  subst hv
  simp [inferVersion] at h
  exact h.symm

theorem untagFirst_trOK {nst : Nat} {a : UndeclareArgs} {v : Ver} {s : Nat} {p : Proc} {vs : Ver → Prop}
    (h : TrOK (Within a.name a.self vs (fun t => a.tag = some t)) p) :
    TrOK (Within a.name a.self vs (fun t => a.tag = some t)) (untagFirst nst a v s p) := by
  unfold untagFirst
  split
  · rename_i t ht; exact unassignTag_trOK ht h
  · exact h

theorem removeVersion_trOK {a : UndeclareArgs} {v : Ver} {s : Nat} {p : Proc} {vs : Ver → Prop} {ts : Tag → Prop}
    (hv : vs v) (h : TrOK (Within a.name a.self vs ts) p) :
    TrOK (Within a.name a.self vs ts) (removeVersion a v s p).2 := by
  unfold removeVersion
  split
  · exact h
  · split
    · exact h
    · exact h.emit (e := .undeclare s a.name v a.self) ⟨rfl, rfl, hv⟩

theorem undeclareVersion_trOK {nst : Nat} {a : UndeclareArgs} {ver : Option Ver} {p : Proc}
    {vs : Ver → Prop} (hv : ∀ v, (∀ v', ver = some v' → v = v') → vs v)
    (h : TrOK (Within a.name a.self vs (fun t => a.tag = some t)) p) :
    TrOK (Within a.name a.self vs (fun t => a.tag = some t)) (undeclareVersion nst a ver p).2 := by
  unfold undeclareVersion
  split
  · exact h
  · rename_i v hvr
    split
    · exact h
    · split
      · exact h
      · exact removeVersion_trOK (hv v (inferVersion_some hvr)) (untagFirst_trOK h)

theorem undeclare_trOK {nst : Nat} {a : UndeclareArgs} {p : Proc}
    (h : TrOK (Within a.name a.self (Cmd.fpVer (.undeclare a)) (fun t => a.tag = some t)) p) :
    TrOK (Within a.name a.self (Cmd.fpVer (.undeclare a)) (fun t => a.tag = some t)) (undeclare nst a p).2 := by
  unfold undeclare
  split
  · rename_i hnone
    exact undeclareVersion_trOK (fun v hv => ⟨Or.inl hnone, hv⟩) h
  · rename_i t ht
    split
    · rename_i hvat
      refine undeclareVersion_trOK (fun v hv => ⟨Or.inr hvat, ?_⟩) h
      intro v' hver
      apply hv
      simp [hver]
    · exact unassignTag_trOK ht h

theorem remove_trOK {nst : Nat} {f : Flav} {n : Name} {v : Ver} {rc na fo : Bool} {su : Option (Ver × Flav × Nat)}
    {p : Proc} (h : TrOK (Within n f (fun v' => v' = v) (fun _ => False)) p) :
    TrOK (Within n f (fun v' => v' = v) (fun _ => False)) (remove nst f n v rc na fo su p).2 := by
  unfold remove
  split
  · exact h
  · split
    · exact h
    have hu : TrOK (Within n f (fun v' => v' = v) (fun _ => False))
        (undeclare nst ⟨f, n, some v, none, none, false, na, fo, su⟩ p).2 := by
      have := undeclareVersion_trOK (nst := nst) (a := ⟨f, n, some v, none, none, false, na, fo, su⟩) (ver := some v)
        (p := p) (vs := fun v' => v' = v) (fun v' hv => hv v rfl)
        (by intro e he; have := h e he; revert this; cases e <;> simp [Within])
      intro e he
      have h2 := this e (by simpa [undeclare] using he)
      revert h2; cases e <;> simp [Within]
    split
    · rename_i p1 heq
      have hp1 : TrOK (Within n f (fun v' => v' = v) (fun _ => False)) p1 := by
        have := hu; rw [heq] at this; exact this
      split
      · exact hp1
      · split
        · exact hp1.emit (by trivial)
        · exact hp1
    · exact hu

/-- every effect a command emits stays within its footprint -/
theorem run_trOK (nst : Nat) (c : Cmd) (p : Proc)
    (h : TrOK (Within c.name c.self c.fpVer c.fpTag) p) :
    TrOK (Within c.name c.self c.fpVer c.fpTag) (run nst c p).2 := by
  cases c with
  | declare a => exact declare_trOK h
  | undeclare a => exact undeclare_trOK h
  | assignTag f t n v st => exact assignTag_trOK (ts := fun t' => t' = t) rfl h
  | unassignTag f t n v st na => exact unassignTag_trOK (ts := fun t' => t' = t) rfl h
  | remove f n v rc na fo su => exact remove_trOK h
  | query f => exact h

/-! ## dry runs emit nothing -/

theorem doUnassign_noaction (f : Flav) (t : Tag) (n : Name) (s : Nat) (p : Proc) :
    doUnassign f t n s true p = (.ok, p) := by simp [doUnassign]

theorem unassignTag_noaction (nst : Nat) (f : Flav) (t : Tag) (n : Name) (v : Option Ver) (st : Option Nat)
    (p : Proc) : (unassignTag nst f t n v st true p).2 = p := by
  unfold unassignTag
  split
  · split
    · rfl
    · split
      · rw [doUnassign_noaction]
      · rfl
  · split
    · rw [doUnassign_noaction]
    · split
      · rw [doUnassign_noaction]
      · split <;> rfl

theorem declareCore_noaction {nst : Nat} {a : DeclareArgs} (h : a.noaction = true) (r : Resolved)
    (tag : Option Tag) (rd : Redeclare) (p : Proc) : declareCore nst a r tag rd p = (.ok, p) := by
  unfold declareCore
  simp only [h, Bool.not_true, Bool.and_false, Bool.false_eq_true, if_false, if_true]
  split <;> rfl

theorem declareFinish_noaction {nst : Nat} {a : DeclareArgs} (h : a.noaction = true) (r : Resolved)
    (tag : Option Tag) (rd : Redeclare) (p : Proc) : (declareFinish nst a r tag rd p).2 = p := by
  unfold declareFinish
  rw [declareCore_noaction h]
  simp [h]

theorem declare_noaction {nst : Nat} {a : DeclareArgs} (h : a.noaction = true) (p : Proc) :
    (declare nst a p).2 = p := by
  unfold declare
  split
  · rfl
  · dsimp only
    split
    · rfl
    · exact declareFinish_noaction h _ _ _ _

theorem untagFirst_noaction {nst : Nat} {a : UndeclareArgs} (h : a.noaction = true) (v : Ver) (s : Nat) (p : Proc) :
    untagFirst nst a v s p = p := by
  unfold untagFirst
  split
  · rw [h]; exact unassignTag_noaction _ _ _ _ _ _ _
  · rfl

theorem removeVersion_noaction {a : UndeclareArgs} (h : a.noaction = true) (v : Ver) (s : Nat) (p : Proc) :
    (removeVersion a v s p).2 = p := by
  simp [removeVersion, h]

theorem undeclareVersion_noaction {nst : Nat} {a : UndeclareArgs} (h : a.noaction = true) (ver : Option Ver)
    (p : Proc) : (undeclareVersion nst a ver p).2 = p := by
  unfold undeclareVersion
  split
  · rfl
  · split
    · rfl
    · split
      · rfl
      · rw [removeVersion_noaction h, untagFirst_noaction h]

theorem undeclare_noaction {nst : Nat} {a : UndeclareArgs} (h : a.noaction = true) (p : Proc) :
    (undeclare nst a p).2 = p := by
  unfold undeclare
  split
  · exact undeclareVersion_noaction h _ _
  · split
    · exact undeclareVersion_noaction h _ _
    · rw [h]; exact unassignTag_noaction _ _ _ _ _ _ _

theorem remove_noaction (nst : Nat) (f : Flav) (n : Name) (v : Ver) (rc fo : Bool) (su : Option (Ver × Flav × Nat))
    (p : Proc) : (remove nst f n v rc true fo su p).2 = p := by
  unfold remove
  split
  · rfl
  · split
    · rfl
    have hu := undeclare_noaction (nst := nst) (a := ⟨f, n, some v, none, none, false, true, fo, su⟩) rfl p
    split
    · rename_i p1 heq
      rw [heq] at hu
      simpa using hu
    · exact hu

/-- A dry run emits no effect at all: not on the database, not on the in-memory stacks, not on the cache
files, not on the installation directories. -/
theorem run_noaction (nst : Nat) (c : Cmd) (h : c.noaction = true) (p : Proc) : (run nst c p).2 = p := by
  cases c with
  | declare a => exact declare_noaction h p
  | undeclare a => exact undeclare_noaction h p
  | assignTag f t n v st => simp [Cmd.noaction] at h
  | unassignTag f t n v st na =>
    simp only [Cmd.noaction] at h; subst h; exact unassignTag_noaction _ _ _ _ _ _ _
  | remove f n v rc na fo su =>
    simp only [Cmd.noaction] at h; subst h; exact remove_noaction _ _ _ _ _ _ _ _
  | query f => rfl

/-! ## outcomes -/

@[simp] theorem Proc.db_emit (p : Proc) (e : Eff) : (p.emit e).db = applyDb e p.db := by
  simp [Proc.db, Proc.emit, List.foldl_append]

@[simp] theorem Proc.mem_emit (p : Proc) (e : Eff) : (p.emit e).mem = applyMem e p.mem := by
  simp [Proc.mem, Proc.emit, List.foldl_append]

theorem assignTag_outcome (f : Flav) (t : Tag) (n : Name) (v : Ver) (stacks : List Nat) (p : Proc) :
    (assignTag f t n v stacks p).1 = .ok ∨ (assignTag f t n v stacks p).1 = .notFound := by
  unfold assignTag
  split
  · exact Or.inr rfl
  · split
    · exact Or.inr rfl
    · exact Or.inl rfl

theorem unassignTag_outcome (nst : Nat) (f : Flav) (t : Tag) (n : Name) (v : Option Ver) (st : Option Nat) (na : Bool)
    (p : Proc) : (unassignTag nst f t n v st na p).1 = .ok ∨ (unassignTag nst f t n v st na p).1 = .notFound := by
  have hd : ∀ s, (doUnassign f t n s na p).1 = .ok := by intro s; unfold doUnassign; split <;> rfl
  unfold unassignTag
  split
  · split
    · exact Or.inr rfl
    · split
      · exact Or.inl (hd _)
      · exact Or.inl rfl
  · split
    · exact Or.inl (hd _)
    · split
      · exact Or.inl (hd _)
      · split
        · exact Or.inl rfl
        · exact Or.inr rfl

theorem declareCore_outcome (nst : Nat) (a : DeclareArgs) (r : Resolved) (tag : Option Tag) (rd : Redeclare) (p : Proc) :
    (declareCore nst a r tag rd p).1 = .ok ∨ (declareCore nst a r tag rd p).1 = .notFound := by
  unfold declareCore
  dsimp only
  split
  · exact Or.inl rfl
  · split
    · exact Or.inl rfl
    · exact assignTag_outcome _ _ _ _ _ _

theorem declareFinish_fst (nst : Nat) (a : DeclareArgs) (r : Resolved) (tag : Option Tag) (rd : Redeclare) (p : Proc) :
    (declareFinish nst a r tag rd p).1 = (declareCore nst a r tag rd p).1 := by
  unfold declareFinish
  split
  · rename_i p2 heq; rw [heq]; split <;> rfl
  · rfl

theorem declareFinish_outcome (nst : Nat) (a : DeclareArgs) (r : Resolved) (tag : Option Tag) (rd : Redeclare) (p : Proc) :
    (declareFinish nst a r tag rd p).1 = .ok ∨ (declareFinish nst a r tag rd p).1 = .notFound := by
  rw [declareFinish_fst]; exact declareCore_outcome _ _ _ _ _ _

theorem saveExtras_db (a : DeclareArgs) (target : Nat) (es : List (Str × Nat)) (p : Proc) :
    (saveExtras a target es p).db = p.db := by
  induction es generalizing p with
  | nil => rfl
  | cons e es ih => simp only [saveExtras]; rw [ih]; simp [Proc.db, Proc.emit, List.foldl_append, applyDb]

/-- the extra files do not touch the database: the database after `declareFinish` is the one after `declareCore` -/
theorem declareFinish_db (nst : Nat) (a : DeclareArgs) (r : Resolved) (tag : Option Tag) (rd : Redeclare) (p : Proc) :
    (declareFinish nst a r tag rd p).2.db = (declareCore nst a r tag rd p).2.db := by
  unfold declareFinish
  split
  · rename_i p2 heq; rw [heq]; split
    · rfl
    · exact saveExtras_db _ _ _ _
  · rfl

/-- `declare` either refuses before doing anything, or acts as `declareFinish` on what it resolved -/
theorem declare_cases (nst : Nat) (a : DeclareArgs) (p : Proc) :
    declare nst a p = (.refused, p) ∨
    ∃ r rd, resolveDeclare nst a p = some r ∧
      redeclare (p.mem.findDecl r.target a.name a.ver a.self)
        ((p.mem.findDecl r.target a.name a.ver a.self).bind p.tableContent) r.d r.content
        (declareTag nst a p.mem).isSome a.force (extDiff p a r.target r.diffList) = rd ∧
      rd ≠ .refuse ∧ declare nst a p = declareFinish nst a r (declareTag nst a p.mem) rd p := by
  unfold declare
  cases hr : resolveDeclare nst a p with
  | none => exact Or.inl rfl
  | some r =>
    dsimp only
    cases hrd : redeclare (p.mem.findDecl r.target a.name a.ver a.self)
        ((p.mem.findDecl r.target a.name a.ver a.self).bind p.tableContent) r.d r.content
        (declareTag nst a p.mem).isSome a.force (extDiff p a r.target r.diffList) with
    | refuse => exact Or.inl rfl
    | write => exact Or.inr ⟨r, .write, rfl, hrd, by simp, rfl⟩
    | keep => exact Or.inr ⟨r, .keep, rfl, hrd, by simp, rfl⟩

/-- a refused `declare` has done nothing -/
theorem declare_refused {nst : Nat} {a : DeclareArgs} {p : Proc} (h : (declare nst a p).1 = .refused) :
    (declare nst a p).2 = p := by
  rcases declare_cases nst a p with hc | ⟨r, rd, _, _, _, hc⟩
  · rw [hc]
  · exfalso
    rw [hc] at h
    rcases declareFinish_outcome nst a r (declareTag nst a p.mem) rd p with h' | h' <;> rw [h'] at h <;> cases h

theorem removeVersion_outcome (a : UndeclareArgs) (v : Ver) (s : Nat) (p : Proc) :
    (removeVersion a v s p).1 = .ok ∨ (removeVersion a v s p).1 = .notFound := by
  unfold removeVersion
  split
  · exact Or.inl rfl
  · split
    · exact Or.inr rfl
    · exact Or.inl rfl

theorem undeclareVersion_refused {nst : Nat} {a : UndeclareArgs} {ver : Option Ver} {p : Proc}
    (h : (undeclareVersion nst a ver p).1 = .refused) : (undeclareVersion nst a ver p).2 = p := by
  unfold undeclareVersion at h ⊢
  cases hi : inferVersion nst a ver p.mem with
  | error o => rfl
  | ok v =>
    rw [hi] at h
    dsimp only at h ⊢
    cases hf : p.mem.findIn (stacksOf nst a.stack) a.name v a.self with
    | none => rfl
    | some prod =>
      rw [hf] at h
      dsimp only at h ⊢
      split
      · rfl
      · rename_i hset
        rw [if_neg hset] at h
        exfalso
        rcases removeVersion_outcome a v prod.stack (untagFirst nst a v prod.stack p) with h' | h' <;>
          rw [h'] at h <;> cases h

theorem undeclare_refused {nst : Nat} {a : UndeclareArgs} {p : Proc} (h : (undeclare nst a p).1 = .refused) :
    (undeclare nst a p).2 = p := by
  unfold undeclare at h ⊢
  cases ht : a.tag with
  | none => rw [ht] at h; exact undeclareVersion_refused h
  | some t =>
    rw [ht] at h
    dsimp only at h ⊢
    cases hv : a.versionAndTag with
    | true => rw [hv] at h; simp only [if_true] at h ⊢; exact undeclareVersion_refused h
    | false =>
      rw [hv] at h
      simp only [Bool.false_eq_true, if_false] at h ⊢
      exfalso
      rcases unassignTag_outcome nst a.self t a.name a.ver a.stack a.noaction p with h' | h' <;> rw [h'] at h <;> cases h

theorem remove_refused {nst : Nat} {f : Flav} {n : Name} {v : Ver} {rc na fo : Bool} {su : Option (Ver × Flav × Nat)}
    {p : Proc} (h : (remove nst f n v rc na fo su p).1 = .refused) : (remove nst f n v rc na fo su p).2 = p := by
  unfold remove at h ⊢
  cases hf : p.mem.findIn (allStacks nst) n v f with
  | none => rfl
  | some prod =>
    rw [hf] at h
    dsimp only at h ⊢
    split
    · rfl
    · rename_i hrc
      rw [if_neg hrc] at h
      cases hu : undeclare nst ⟨f, n, some v, none, none, false, na, fo, su⟩ p with
      | mk o p1 =>
        rw [hu] at h
        cases o with
        | ok =>
          exfalso
          dsimp only at h
          split at h
          · cases h
          · split at h <;> cases h
        | refused =>
          have := undeclare_refused (nst := nst) (a := ⟨f, n, some v, none, none, false, na, fo, su⟩) (p := p) (by rw [hu])
          rw [hu] at this
          simpa using this
        | notFound => cases h
        | failed => cases h
        | tableMissing => cases h

/-- **A refused command has done nothing**: whenever the outcome is `EupsException` (a conflicting
redeclaration without force, no directory, no table file, several versions to choose from) the trace is the one
the command started with. -/
theorem run_refused (nst : Nat) (c : Cmd) (p : Proc) (h : (run nst c p).1 = .refused) : (run nst c p).2 = p := by
  cases c with
  | declare a => exact declare_refused h
  | undeclare a => exact undeclare_refused h
  | assignTag f t n v st =>
    exfalso; simp only [run] at h
    rcases assignTag_outcome f t n v (stacksOf nst st) p with h' | h' <;> rw [h'] at h <;> cases h
  | unassignTag f t n v st na =>
    exfalso; simp only [run] at h
    rcases unassignTag_outcome nst f t n v st na p with h' | h' <;> rw [h'] at h <;> cases h
  | remove f n v rc na fo su => exact remove_refused h
  | query f => rfl

/-- a conflicting redeclaration — another directory, or a table file whose content is not that of the declared
one (which may be `none`, or missing) — without force and without a tag is refused -/
theorem declare_conflict_refused {nst : Nat} {a : DeclareArgs} {p : Proc} {r : Resolved} {o : Decl}
    (hr : resolveDeclare nst a p = some r) (hold : p.mem.findDecl r.target a.name a.ver a.self = some o)
    (hforce : a.force = false) (htag : declareTag nst a p.mem = none)
    (hdiff : o.dir ≠ r.d ∨ ∃ c, r.content = some c ∧ p.tableContent o ≠ some c) :
    declare nst a p = (.refused, p) := by
  unfold declare
  rw [hr]
  dsimp only
  have : redeclare (p.mem.findDecl r.target a.name a.ver a.self)
      ((p.mem.findDecl r.target a.name a.ver a.self).bind p.tableContent) r.d r.content
      (declareTag nst a p.mem).isSome a.force (extDiff p a r.target r.diffList) = .refuse := by
    rw [hold, htag, hforce]
    simp only [redeclare, Bool.false_eq_true, if_false, Option.isSome_none, Option.bind_some]
    rcases hdiff with h | ⟨c, h1, h2⟩
    · simp [h]
    · simp [h1, tableDiff, h2]
  rw [this]

/-! ## what a successful command has done -/

theorem Spec.hasDecl_delDecl_self (c : Spec) (s : Nat) (n : Name) (v : Ver) (f : Flav) :
    (c.delDecl s n v f).hasDecl s n v f = false := by
  cases h : (c.delDecl s n v f).hasDecl s n v f with
  | false => rfl
  | true =>
    exfalso
    obtain ⟨d, hd, hk⟩ := Spec.hasDecl_iff.mp h
    have := (Spec.mem_delDecl_decls.mp hd).2
    rw [hk] at this; exact Bool.noConfusion this

theorem Spec.tagVer_setTag_self (c : Spec) (r : TagRec) :
    (c.setTag r).tagVer r.stack r.tag r.name r.flav = some r.ver := by
  have : r.hasKey r.stack r.tag r.name r.flav = true := by simp [TagRec.hasKey_iff]
  simp [Spec.tagVer, Spec.setTag, this]

theorem Spec.hasDecl_setTag (c : Spec) (r : TagRec) (s : Nat) (n : Name) (v : Ver) (f : Flav) :
    (c.setTag r).hasDecl s n v f = c.hasDecl s n v f := rfl

theorem untagFirst_hasDecl (nst : Nat) (a : UndeclareArgs) (v : Ver) (s : Nat) (p : Proc)
    (s' : Nat) (n' : Name) (v' : Ver) (f' : Flav) :
    (untagFirst nst a v s p).db.hasDecl s' n' v' f' = p.db.hasDecl s' n' v' f' := by
  have hd : ∀ (t : Tag) (s0 : Nat) (na : Bool), (doUnassign a.self t a.name s0 na p).2.db.hasDecl s' n' v' f'
      = p.db.hasDecl s' n' v' f' := by
    intro t s0 na
    unfold doUnassign
    split
    · rfl
    · simp [applyDb, Spec.hasDecl]
  unfold untagFirst
  split
  · unfold unassignTag
    dsimp only
    split
    · rfl
    · split
      · exact hd _ _ _
      · rfl
  · rfl

/-- **`undeclare` of a version**: when it succeeds (not a dry run, not the tag-only form) the version it chose —
the one given, when one is given — was declared in the files of the stack, and afterwards neither the
declaration nor any tag pointing at it is left in that stack. -/
theorem undeclare_ok {nst : Nat} {a : UndeclareArgs} {p : Proc}
    (hok : (undeclare nst a p).1 = .ok) (hna : a.noaction = false)
    (hform : a.tag = none ∨ a.versionAndTag = true) :
    ∃ s v, (∀ v', a.ver = some v' → v = v') ∧ p.db.hasDecl s a.name v a.self = true ∧
      (undeclare nst a p).2.db.hasDecl s a.name v a.self = false ∧
      ∀ r ∈ (undeclare nst a p).2.db.tags, r.pointsAt s a.name v a.self = false := by
  have key : ∀ ver : Option Ver, (undeclareVersion nst a ver p).1 = .ok →
      ∃ s v, (∀ v', ver = some v' → v = v') ∧ p.db.hasDecl s a.name v a.self = true ∧
        (undeclareVersion nst a ver p).2.db.hasDecl s a.name v a.self = false ∧
        ∀ r ∈ (undeclareVersion nst a ver p).2.db.tags, r.pointsAt s a.name v a.self = false := by
    intro ver hk
    unfold undeclareVersion at hk ⊢
    cases hi : inferVersion nst a ver p.mem with
    | error o =>
      rw [hi] at hk; dsimp only at hk
      exfalso
      cases ver with
      | some v => simp [inferVersion] at hi
      | none =>
        simp only [inferVersion] at hi
        split at hi <;> cases hi <;> cases hk
    | ok v =>
      rw [hi] at hk; dsimp only at hk ⊢
      cases hf : p.mem.findIn (stacksOf nst a.stack) a.name v a.self with
      | none => rw [hf] at hk; cases hk
      | some prod =>
        rw [hf] at hk; dsimp only at hk ⊢
        by_cases hset : (isSetup a p.mem prod.stack v && !a.force) = true
        · rw [if_pos hset] at hk; cases hk
        rw [if_neg hset] at hk ⊢
        unfold removeVersion at hk ⊢
        rw [hna] at hk ⊢
        simp only [Bool.false_eq_true, if_false] at hk ⊢
        by_cases hd : (untagFirst nst a v prod.stack p).db.hasDecl prod.stack a.name v a.self = true
        · simp only [hd, Bool.not_true, Bool.false_eq_true, if_false, Proc.db_emit, applyDb]
          refine ⟨prod.stack, v, inferVersion_some hi, ?_, Spec.hasDecl_delDecl_self _ _ _ _ _, ?_⟩
          · rw [← untagFirst_hasDecl nst a v prod.stack p]; exact hd
          · intro r hr; exact (Spec.mem_delDecl_tags.mp hr).2
        · simp only [hd, Bool.not_false, if_true] at hk
          cases hk
  unfold undeclare at hok ⊢
  cases ht : a.tag with
  | none => rw [ht] at hok; exact key _ hok
  | some t =>
    rw [ht] at hok
    dsimp only at hok ⊢
    have hvat : a.versionAndTag = true := by
      rcases hform with h | h
      · rw [ht] at h; cases h
      · exact h
    rw [hvat] at hok ⊢
    simp only [if_true] at hok ⊢
    obtain ⟨s, v, h1, h2, h3, h4⟩ := key _ hok
    refine ⟨s, v, ?_, h2, h3, h4⟩
    intro v' hv'
    apply h1
    simp [hv']

/-- **Direct `assignTag`**: when it succeeds the tag names the version in the stack where the product was
found (the first of `stacks` that the in-memory view shows it in). -/
theorem assignTag_ok {f : Flav} {t : Tag} {n : Name} {v : Ver} {stacks : List Nat} {p : Proc}
    (hok : (assignTag f t n v stacks p).1 = .ok) :
    ∃ s, (∃ prod, p.mem.findIn stacks n v f = some prod ∧ prod.stack = s) ∧
      (assignTag f t n v stacks p).2.db.tagVer s t n f = some v ∧
      (assignTag f t n v stacks p).2.db.hasDecl s n v f = true := by
  unfold assignTag at hok ⊢
  cases hf : p.mem.findIn stacks n v f with
  | none => rw [hf] at hok; cases hok
  | some prod =>
    rw [hf] at hok
    dsimp only at hok ⊢
    by_cases hd : p.db.hasDecl prod.stack n v f = true
    · simp only [hd, Bool.not_true, Bool.false_eq_true, if_false, Proc.db_emit, applyDb, Spec.assign, if_true]
      exact ⟨prod.stack, ⟨prod, rfl, rfl⟩, Spec.tagVer_setTag_self p.db ⟨prod.stack, t, n, f, v⟩, hd⟩
    · simp only [hd, Bool.not_false, if_true] at hok
      cases hok

theorem findIn_singleton {c : Spec} {s : Nat} {n : Name} {v : Ver} {f : Flav} {d : Decl}
    (h : c.findIn [s] n v f = some d) : d.stack = s := by
  simp only [Spec.findIn, List.findSome?_cons, List.findSome?_nil] at h
  cases hd : c.findDecl s n v f with
  | none => rw [hd] at h; cases h
  | some x =>
    rw [hd] at h
    cases h
    unfold Spec.findDecl at hd
    have := List.find?_some hd
    exact (Decl.hasKey_iff.mp this).1

/-- **`declare` with a tag** — the one given, or `current` for the first version of the product: when it
succeeds (not a dry run) the version is declared in the stack it resolved to and the tag names it there. -/
theorem declare_ok_tag {nst : Nat} {a : DeclareArgs} {p : Proc} {t : Tag}
    (hok : (declare nst a p).1 = .ok) (hna : a.noaction = false) (htag : declareTag nst a p.mem = some t) :
    ∃ r, resolveDeclare nst a p = some r ∧
      (declare nst a p).2.db.tagVer r.target t a.name a.self = some a.ver ∧
      (declare nst a p).2.db.hasDecl r.target a.name a.ver a.self = true := by
  rcases declare_cases nst a p with hc | ⟨r, rd, hr, _, _, hc⟩
  · rw [hc] at hok; cases hok
  · rw [hc] at hok ⊢
    refine ⟨r, hr, ?_⟩
    rw [declareFinish_fst] at hok
    rw [declareFinish_db]
    unfold declareCore at hok ⊢
    rw [htag, hna] at hok ⊢
    simp only [Bool.false_eq_true, if_false] at hok ⊢
    obtain ⟨s, ⟨prod, hfind, hs⟩, h1, h2⟩ := assignTag_ok hok
    have : s = r.target := by rw [← hs]; exact findIn_singleton hfind
    rw [this] at h1 h2
    exact ⟨h1, h2⟩

/-! ## commands only extend the trace -/

/-- `q` runs from the same start as `p` -/
def SameBase (p q : Proc) : Prop := q.db0 = p.db0 ∧ q.mem0 = p.mem0 ∧ q.dirs = p.dirs ∧ q.extras = p.extras ∧ q.tfiles = p.tfiles

theorem SameBase.refl (p : Proc) : SameBase p p := ⟨rfl, rfl, rfl, rfl, rfl⟩
theorem SameBase.emit {p q : Proc} (h : SameBase p q) (e : Eff) : SameBase p (q.emit e) := h
theorem SameBase.trans {p q r : Proc} (h : SameBase p q) (k : SameBase q r) : SameBase p r :=
  ⟨k.1.trans h.1, k.2.1.trans h.2.1, k.2.2.1.trans h.2.2.1, k.2.2.2.1.trans h.2.2.2.1, k.2.2.2.2.trans h.2.2.2.2⟩

theorem doUnassign_base (f : Flav) (t : Tag) (n : Name) (s : Nat) (na : Bool) (p : Proc) :
    SameBase p (doUnassign f t n s na p).2 := by
  unfold doUnassign; split
  · exact SameBase.refl p
  · exact (SameBase.refl p).emit _

theorem purge_base (f : Flav) (t : Tag) (n : Name) (ds : List Decl) (p : Proc) : SameBase p (purge f t n ds p) := by
  induction ds generalizing p with
  | nil => exact SameBase.refl p
  | cons d ds ih => exact (doUnassign_base f t n d.stack false p).trans (ih _)

theorem purgeAll_base (nst : Nat) (f : Flav) (t : Tag) (n : Name) (ss : List Nat) (p : Proc) :
    SameBase p (purgeAll nst f t n ss p) := by
  induction ss generalizing p with
  | nil => exact SameBase.refl p
  | cons s ss ih => exact (purge_base f t n _ p).trans (ih _)

theorem assignTag_base (f : Flav) (t : Tag) (n : Name) (v : Ver) (stacks : List Nat) (p : Proc) :
    SameBase p (assignTag f t n v stacks p).2 := by
  unfold assignTag
  split
  · exact SameBase.refl p
  · split
    · exact SameBase.refl p
    · exact (SameBase.refl p).emit _

theorem unassignTag_base (nst : Nat) (f : Flav) (t : Tag) (n : Name) (v : Option Ver) (st : Option Nat) (na : Bool)
    (p : Proc) : SameBase p (unassignTag nst f t n v st na p).2 := by
  unfold unassignTag
  split
  · split
    · exact SameBase.refl p
    · split
      · exact doUnassign_base _ _ _ _ _ _
      · exact SameBase.refl p
  · split
    · exact doUnassign_base _ _ _ _ _ _
    · split
      · exact doUnassign_base _ _ _ _ _ _
      · split <;> exact SameBase.refl p

theorem declareCore_base (nst : Nat) (a : DeclareArgs) (r : Resolved) (tag : Option Tag) (rd : Redeclare) (p : Proc) :
    SameBase p (declareCore nst a r tag rd p).2 := by
  unfold declareCore
  dsimp only
  have h1 : SameBase p (if (rd == .write && !a.noaction) = true then
      p.emit (.declare ⟨r.target, a.name, a.ver, a.self, r.d, r.table⟩ tag) else p) := by
    split
    · exact (SameBase.refl p).emit _
    · exact SameBase.refl p
  split
  · exact h1
  · split
    · exact h1
    · exact (h1.trans (purgeAll_base _ _ _ _ _ _)).trans (assignTag_base _ _ _ _ _ _)

theorem saveExtras_base (a : DeclareArgs) (target : Nat) (es : List (Str × Nat)) (p : Proc) :
    SameBase p (saveExtras a target es p) := by
  induction es generalizing p with
  | nil => exact SameBase.refl p
  | cons e es ih => exact ((SameBase.refl p).emit _).trans (ih _)

theorem declareFinish_base (nst : Nat) (a : DeclareArgs) (r : Resolved) (tag : Option Tag) (rd : Redeclare) (p : Proc) :
    SameBase p (declareFinish nst a r tag rd p).2 := by
  have hc := declareCore_base nst a r tag rd p
  unfold declareFinish
  split
  · rename_i p2 heq
    rw [heq] at hc
    split
    · exact hc
    · exact hc.trans (saveExtras_base _ _ _ _)
  · exact hc

theorem declare_base (nst : Nat) (a : DeclareArgs) (p : Proc) : SameBase p (declare nst a p).2 := by
  rcases declare_cases nst a p with hc | ⟨r, rd, _, _, _, hc⟩
  · rw [hc]; exact SameBase.refl p
  · rw [hc]; exact declareFinish_base _ _ _ _ _ _

theorem undeclareVersion_base (nst : Nat) (a : UndeclareArgs) (ver : Option Ver) (p : Proc) :
    SameBase p (undeclareVersion nst a ver p).2 := by
  unfold undeclareVersion
  split
  · exact SameBase.refl p
  · split
    · exact SameBase.refl p
    · split
      · exact SameBase.refl p
      have h1 : ∀ v s, SameBase p (untagFirst nst a v s p) := by
        intro v s; unfold untagFirst; split
        · exact unassignTag_base _ _ _ _ _ _ _ _
        · exact SameBase.refl p
      have h2 : ∀ v s q, SameBase q (removeVersion a v s q).2 := by
        intro v s q; unfold removeVersion; split
        · exact SameBase.refl q
        · split
          · exact SameBase.refl q
          · exact (SameBase.refl q).emit _
      exact (h1 _ _).trans (h2 _ _ _)

theorem undeclare_base (nst : Nat) (a : UndeclareArgs) (p : Proc) : SameBase p (undeclare nst a p).2 := by
  unfold undeclare
  split
  · exact undeclareVersion_base _ _ _ _
  · split
    · exact undeclareVersion_base _ _ _ _
    · exact unassignTag_base _ _ _ _ _ _ _ _

theorem remove_base (nst : Nat) (f : Flav) (n : Name) (v : Ver) (rc na fo : Bool) (su : Option (Ver × Flav × Nat))
    (p : Proc) : SameBase p (remove nst f n v rc na fo su p).2 := by
  unfold remove
  split
  · exact SameBase.refl p
  · split
    · exact SameBase.refl p
    have hu := undeclare_base nst ⟨f, n, some v, none, none, false, na, fo, su⟩ p
    split
    · rename_i p1 heq
      rw [heq] at hu
      split
      · exact hu
      · split
        · exact hu.emit _
        · exact hu
    · exact hu

/-- a command only appends to the trace: the state it started from stays on record -/
theorem run_base (nst : Nat) (c : Cmd) (p : Proc) : SameBase p (run nst c p).2 := by
  cases c with
  | declare a => exact declare_base nst a p
  | undeclare a => exact undeclare_base nst a p
  | assignTag f t n v st => exact assignTag_base _ _ _ _ _ _
  | unassignTag f t n v st na => exact unassignTag_base _ _ _ _ _ _ _ _
  | remove f n v rc na fo su => exact remove_base _ _ _ _ _ _ _ _ _
  | query f => exact SameBase.refl p

/-! ## what `findProducts` lists comes from the view -/

theorem mem_uniqNVF {l : List Decl} {d : Decl} (h : d ∈ uniqNVF l) : d ∈ l := by
  induction l with
  | nil => simp [uniqNVF] at h
  | cons x xs ih =>
    simp only [uniqNVF, List.mem_cons, List.mem_filter] at h
    rcases h with h | h
    · exact List.mem_cons.mpr (Or.inl h)
    · exact List.mem_cons_of_mem _ (ih h.1)

theorem mem_insertByVer {x d : Decl} {l : List Decl} : d ∈ insertByVer x l ↔ d = x ∨ d ∈ l := by
  induction l with
  | nil => simp [insertByVer]
  | cons y ys ih =>
    simp only [insertByVer]
    split
    · simp
    · simp only [List.mem_cons, ih]
      constructor
      · rintro (h | h | h)
        · exact Or.inr (Or.inl h)
        · exact Or.inl h
        · exact Or.inr (Or.inr h)
      · rintro (h | h | h)
        · exact Or.inr (Or.inl h)
        · exact Or.inl h
        · exact Or.inr (Or.inr h)

theorem mem_sortByVer {d : Decl} {l : List Decl} : d ∈ sortByVer l ↔ d ∈ l := by
  induction l with
  | nil => simp [sortByVer]
  | cons y ys ih => simp only [sortByVer, mem_insertByVer, ih, List.mem_cons]

theorem mem_versionsOf {c : Spec} {s : Nat} {n : Name} {f : Flav} {d : Decl} :
    d ∈ c.versionsOf s n f ↔ d ∈ c.decls ∧ d.stack = s ∧ d.name = n ∧ d.flav = f := by
  simp [Spec.versionsOf, mem_sortByVer, List.mem_filter, and_assoc]

theorem findDecl_some {c : Spec} {s : Nat} {n : Name} {v : Ver} {f : Flav} {d : Decl}
    (h : c.findDecl s n v f = some d) : d ∈ c.decls ∧ d.stack = s ∧ d.name = n ∧ d.ver = v ∧ d.flav = f := by
  unfold Spec.findDecl at h
  have hk := List.find?_some h
  exact ⟨List.mem_of_find?_eq_some h, Decl.hasKey_iff.mp hk⟩

theorem findTagged_some {c : Spec} {stacks : List Nat} {n : Name} {t : Tag} {f : Flav} {d : Decl}
    (h : c.findTagged stacks n t f = some d) : d ∈ c.decls ∧ d.name = n ∧ d.flav = f ∧ d.stack ∈ stacks := by
  unfold Spec.findTagged at h
  obtain ⟨s, hs, hd⟩ := List.exists_of_findSome?_eq_some h
  split at hd
  · cases hd
  · have := findDecl_some hd
    exact ⟨this.1, this.2.2.1, this.2.2.2.2, this.2.1 ▸ hs⟩

theorem mem_findProducts {m : Spec} {nst : Nat} {self : Flav} {n : Name} {tag : Option Tag} {stacks : List Nat}
    {d : Decl} (h : d ∈ findProducts m nst self n tag stacks) : d ∈ m.decls ∧ d.name = n := by
  unfold findProducts at h
  have h := mem_uniqNVF h
  simp only [List.mem_flatMap] at h
  obtain ⟨s, _, fl, _, hd⟩ := h
  split at hd
  · simp at hd
  · split at hd
    · have := mem_versionsOf.mp hd; exact ⟨this.1, this.2.2.1⟩
    · simp only [List.mem_append, Option.mem_toList, List.mem_filter] at hd
      rcases hd with hd | hd
      · have := findTagged_some hd; exact ⟨this.1, this.2.1⟩
      · have := mem_versionsOf.mp hd.1; exact ⟨this.1, this.2.2.1⟩

theorem uniqNVF_ne_nil {l : List Decl} (h : l ≠ []) : uniqNVF l ≠ [] := by
  cases l with
  | nil => exact absurd rfl h
  | cons x xs => simp [uniqNVF]

/-- a declaration that the view shows in a stack of the path, in the native flavor, makes the product's
listing non-empty -/
theorem findProducts_ne_nil {m : Spec} {nst : Nat} {self : Flav} {n : Name} {d : Decl}
    (hd : d ∈ m.decls) (hs : d.stack < nst) (hn : d.name = n) (hf : d.flav = self) :
    findProducts m nst self n none (allStacks nst) ≠ [] := by
  unfold findProducts
  apply uniqNVF_ne_nil
  intro hnil
  have hmem : d ∈ (allStacks nst).flatMap fun s => (fallbacks self).flatMap fun fl =>
      if (m.versionsOf s n fl).isEmpty = true then [] else
        match (none : Option Tag) with
        | none => m.versionsOf s n fl
        | some t => (m.findTagged (allStacks nst) n t self).toList ++
            (m.versionsOf s n fl).filter fun d => (m.tagsOf d).contains t := by
    simp only [List.mem_flatMap]
    refine ⟨d.stack, by simpa [allStacks] using hs, self, by simp [fallbacks], ?_⟩
    have hv : d ∈ m.versionsOf d.stack n self := mem_versionsOf.mpr ⟨hd, rfl, hn, hf⟩
    have hne : (m.versionsOf d.stack n self).isEmpty = false := by
      cases hl : m.versionsOf d.stack n self with
      | nil => rw [hl] at hv; cases hv
      | cons _ _ => rfl
    simp [hne, hv]
  rw [hnil] at hmem
  cases hmem

/-- argument resolution for the plain form `declare name version directory`: directory and its table file
exist, no tag, no stack argument, the directory lies in a stack of the path -/
theorem resolveDeclare_explicit {nst : Nat} {a : DeclareArgs} {p : Proc} {d : Dir}
    (hdir : a.dir = some d) (htag : a.tag = none) (htn : a.table = .dflt) (hstack : a.stack = none)
    (hex : p.dirExists d = true) (htab : p.tableExists d a.name = true) (hroot : d.root < nst) :
    resolveDeclare nst a p = some ⟨d, .default, d.root, some 0, a.ext, a.ext⟩ := by
  unfold resolveDeclare resolveDirTable targetOf classifyTable
  simp [hdir, htag, htn, hstack, hex, htab, hroot]

/-- the table classification settles the table only: directory and stack are passed through -/
theorem classifyTable_some {a : DeclareArgs} {d : Dir} {target : Nat} {t : TableArg} {p : Proc} {r : Resolved}
    (h : classifyTable a d target t p = some r) : r.d = d ∧ r.target = target := by
  unfold classifyTable at h
  cases t with
  | none => simp only [Option.some.injEq] at h; subst h; exact ⟨rfl, rfl⟩
  | dflt =>
    dsimp only at h
    split at h
    · simp only [Option.some.injEq] at h; subst h; exact ⟨rfl, rfl⟩
    · cases h
  | stream c => simp only [Option.some.injEq] at h; subst h; exact ⟨rfl, rfl⟩
  | path q =>
    dsimp only at h
    split at h
    · simp only [Option.some.injEq] at h; subst h; exact ⟨rfl, rfl⟩
    · split at h
      · simp only [Option.some.injEq] at h; subst h; exact ⟨rfl, rfl⟩
      · cases h

theorem resolveDeclare_some {nst : Nat} {a : DeclareArgs} {p : Proc} {r : Resolved}
    (h : resolveDeclare nst a p = some r) : r.target = targetOf nst a r.d := by
  unfold resolveDeclare at h
  split at h
  · cases h
  · obtain ⟨h1, h2⟩ := classifyTable_some h
    rw [h2, h1]

/-- argument resolution for `declare name version directory -m <path>`: the directory exists, the path is not
below the database directory of the stack and holds a file with content `c` -/
theorem resolveDeclare_explicit_path {nst : Nat} {a : DeclareArgs} {p : Proc} {d q : Dir} {c : Nat}
    (hdir : a.dir = some d) (htag : a.tag = none) (htn : a.table = .path q) (hstack : a.stack = none)
    (hex : p.dirExists d = true) (hroot : d.root < nst) (hq : underUpsDb d.root q = false)
    (hc : p.fileContent q = some c) :
    resolveDeclare nst a p = some ⟨d, .ext q, d.root, some c, a.ext, a.ext⟩ := by
  unfold resolveDeclare resolveDirTable targetOf classifyTable
  simp [hdir, htag, htn, hstack, hex, hroot, hq, hc]

end EupsModel.Db
