import EupsModel.Lemmas.TableLegacyDenote
import EupsModel.Lemmas.TableLegacyOld
/-! C11: what an old-style legacy table (`Group:` / `Flavor = f`… / `Common:` / lines / `End:`) *denotes*, for
groups whose flavors are plain words other than `ANY`: the lines outside the groups always, a group's lines when
the flavor is one of the group's flavors. -/
namespace EupsModel.C11Spec
open EupsModel.Cond EupsModel.TableParse

/-- an old-style group of the grammar: the lines between `Common:` and `End:` and those after `End:` are command /
blank / comment lines -/
structure OLGroup where
  group : KwLine
  f : FlavLine
  more : List FlavLine
  qual : Option EqLine
  common : KwLine
  action : Option EqLine
  body : List GLine
  end_ : KwLine
  after : List GLine
  deriving Repr

def OLGroup.flavors (g : OLGroup) : List Str := g.f.flavor :: g.more.map (·.flavor)

def OLGroup.toO (g : OLGroup) : OGroup :=
  { group := g.group, f := g.f, more := g.more, qual := g.qual, common := g.common, action := g.action,
    body := g.body.map GLine.raw, end_ := g.end_, after := g.after.map GLine.raw }

/-- the keyword lines are well written (`OGroup.ok`), the flavors are plain words other than `ANY`, the other lines
are lines of the grammar -/
def OLGroup.ok (pdir : Option Str) (g : OLGroup) : Bool :=
  g.toO.ok && g.flavors.all (fun f => plainWord f && Str.lower f != sAny) && g.body.all (GLine.ok pdir)
    && g.after.all (GLine.ok pdir)

def olText (h : Option OHeader) (pre : List GLine) (gs : List OLGroup) (nl : Bool) : Str :=
  oldLegacyText h (pre.map GLine.raw) (gs.map OLGroup.toO) nl

def olDenote (pdir : Option Str) (env : Env) (pre : List GLine) (gs : List OLGroup) : List Action :=
  gBody pdir pre ++ gs.flatMap fun g =>
    (if g.flavors.contains env.flavor then gBody pdir g.body else []) ++ gBody pdir g.after

def OLGroup.items (pdir : Option Str) (g : OLGroup) : List TItem :=
  .chain ⟨flavCExpr g.f.flavor (g.more.map (·.flavor)), [], bodyAbs (g.body.map (GLine.line pdir))⟩ [] none true
    :: (bodyAbs (g.after.map (GLine.line pdir))).map TItem.line

end EupsModel.C11Spec

namespace EupsModel.TableParse
open EupsModel.Cond EupsModel.C11Spec

theorem ogCond_go : ∀ (gs : List Str) (acc : Str), gs.all (fun f => Str.lower f != sAny) = true →
    gs.foldl (fun c g => c ++ sBarBar ++ flavPiece g) acc = gs.foldl (fun c g => c ++ sBarBar ++ sFlavorEq ++ g) acc := by
  intro gs
  induction gs with
  | nil => intro _ _; rfl
  | cons g rest ih =>
    intro acc h
    simp only [List.all_cons, Bool.and_eq_true, bne_iff_ne, ne_eq] at h
    have : flavPiece g = sFlavorEq ++ g := by simp [flavPiece, h.1]
    simp only [List.foldl_cons, this]
    rw [← List.append_assoc]
    exact ih _ (by simpa using h.2)

theorem ogCond_eq {f : Str} {gs : List Str} (h : (f :: gs).all (fun f => Str.lower f != sAny) = true) :
    ogCond f gs = flavCond f gs := by
  simp only [List.all_cons, Bool.and_eq_true, bne_iff_ne, ne_eq] at h
  have : flavPiece f = sFlavorEq ++ f := by simp [flavPiece, h.1]
  simp only [ogCond, flavCond, this]
  exact ogCond_go gs _ (by simpa using h.2)

theorem olgroup_classified {pdir : Option Str} {g : OLGroup} (h : g.ok pdir = true) :
    classifyAll repaired pdir g.toO.block = .ok (tableLines (g.items pdir)) := by
  simp only [OLGroup.ok, Bool.and_eq_true] at h
  obtain ⟨⟨⟨_, hfl⟩, hbody⟩, hafter⟩ := h
  have hany : g.flavors.all (fun f => Str.lower f != sAny) = true := by
    simp only [List.all_eq_true, Bool.and_eq_true] at hfl ⊢
    exact fun f hf => (hfl f hf).2
  have hb := good_body (gbody_ok hbody)
  have ha := good_body (gbody_ok hafter)
  have e1 : (g.body.map (GLine.line pdir)).map (·.raw) = g.body.map GLine.raw := by
    simp [List.map_map, Function.comp_def, gline_raw]
  have e2 : (g.after.map (GLine.line pdir)).map (·.raw) = g.after.map GLine.raw := by
    simp [List.map_map, Function.comp_def, gline_raw]
  rw [e1] at hb; rw [e2] at ha
  have h1 := classify_ifLine pdir (flavCond g.f.flavor (g.more.map FlavLine.flavor))
  have h3 : classifyAll repaired pdir [sClose] = .ok [.blk .close] := by
    simp [classifyAll, classify_close, Res.bind]
  have := classifyAll_cons h1 (classifyAll_append (classifyAll_append hb.2.2 h3) ha.2.2)
  have hc : ogCond g.toO.f.flavor (g.toO.more.map FlavLine.flavor) = flavCond g.f.flavor (g.more.map FlavLine.flavor) :=
    ogCond_eq (by simpa [OLGroup.flavors, OLGroup.toO] using hany)
  have e3 : List.flatMap TItem.lines (List.map TItem.line (bodyAbs (g.after.map (GLine.line pdir))))
      = (bodyAbs (g.after.map (GLine.line pdir))).lines := tableLines_lines _
  simp only [OGroup.block, OGroup.ifLine, hc, stripped_eq]
  simpa [OLGroup.toO, OLGroup.items, tableLines, TItem.lines, Branch.text, flavCExpr_str, e3,
    List.append_assoc] using this

theorem olgroups_classified {pdir : Option Str} : ∀ {gs : List OLGroup}, gs.all (OLGroup.ok pdir) = true →
    classifyAll repaired pdir ((gs.map OLGroup.toO).flatMap OGroup.block)
      = .ok (tableLines (gs.flatMap (OLGroup.items pdir))) := by
  intro gs
  induction gs with
  | nil => intro _; rfl
  | cons g rest ih =>
    intro h
    simp only [List.all_cons, Bool.and_eq_true] at h
    simp only [List.map_cons, List.flatMap_cons, tableLines, List.flatMap_append]
    exact classifyAll_append (olgroup_classified h.1) (ih h.2)

theorem olgroup_denote {pdir : Option Str} (env : Env) {g : OLGroup} (h : g.ok pdir = true) :
    (g.items pdir).flatMap (denoteItem env)
      = (if g.flavors.contains env.flavor then gBody pdir g.body else []) ++ gBody pdir g.after := by
  simp only [OLGroup.ok, Bool.and_eq_true] at h
  simp only [OLGroup.items, List.flatMap_cons, lines_denote, denoteItem, denoteBranches, flavCExpr_denote,
    gbody_acts h.1.2, gbody_acts h.2, OLGroup.flavors]
  rfl

theorem olgroup_items_ok {pdir : Option Str} {g : OLGroup} (h : g.ok pdir = true) : (g.items pdir).all TItem.ok = true := by
  simp only [OLGroup.ok, Bool.and_eq_true] at h
  have hpw : g.flavors.all plainWord = true := by
    have := h.1.1.2
    simp only [List.all_eq_true, Bool.and_eq_true] at this ⊢
    exact fun f hf => (this f hf).1
  simp only [OLGroup.items, List.all_cons, List.all_map, Bool.and_eq_true, List.all_eq_true, Function.comp]
  exact ⟨by simp [TItem.ok, Branch.ok, flavCExpr_ok hpw, blank], fun _ _ => rfl⟩

theorem readLines_of_classified {pdir : Option Str} : ∀ (lines : List Str) (ls : List Line) (st : RdState),
    classifyAll repaired pdir lines = .ok ls → readLines repaired pdir st lines = .ok (runL repaired st ls) := by
  intro lines
  induction lines with
  | nil => intro ls st h; simp only [classifyAll] at h; cases h; rfl
  | cons l rest ih =>
    intro ls st h
    simp only [classifyAll] at h
    cases hc : classify repaired pdir l with
    | ok c =>
      rw [hc] at h; simp only [Res.bind] at h
      cases hr : classifyAll repaired pdir rest with
      | ok cs =>
        rw [hr] at h; simp only [Res.bind] at h; cases h
        simp [readLines, readLine, hc, Res.bind, runL, ih cs _ hr]
      | err e => rw [hr] at h; simp [Res.bind] at h
      | fuel => rw [hr] at h; simp [Res.bind] at h
    | err e => rw [hc] at h; simp [Res.bind] at h
    | fuel => rw [hc] at h; simp [Res.bind] at h

theorem flatMap_flatMap' {α β γ : Type} (l : List α) (f : α → List β) (g : β → List γ) :
    (l.flatMap f).flatMap g = l.flatMap fun x => (f x).flatMap g := by
  induction l with
  | nil => rfl
  | cons a as ih => simp [List.flatMap_cons, List.flatMap_append, ih]

/-- **old-style legacy tables denote.** -/
theorem old_legacy_denotes (env : Env) (hfl : flavorOK env.flavor = true) (pdir : Option Str) (h : Option OHeader)
    (pre : List GLine) (gs : List OLGroup) (hh : ∀ x, h = some x → x.ok = true) (hpre : pre.all (GLine.ok pdir) = true)
    (hgs : gs.all (OLGroup.ok pdir) = true) (nl : Bool) :
    tableActions repaired pdir env (olText h pre gs nl) = .ok (olDenote pdir env pre gs) := by
  have hO : (gs.map OLGroup.toO).all OGroup.ok = true := by
    simp only [List.all_map, List.all_eq_true, Function.comp] at hgs ⊢
    intro g hg
    have := hgs g hg
    simp only [OLGroup.ok, Bool.and_eq_true] at this
    exact this.1.1.1
  have hrw := rewrite_old_legacy h (pre.map GLine.raw) (gs.map OLGroup.toO) nl hh (glines_pass hpre) hO
  have hpreG := good_body (gbody_ok hpre)
  have hraws : (pre.map (GLine.line pdir)).map (·.raw) = pre.map GLine.raw := by
    simp [List.map_map, Function.comp_def, gline_raw]
  rw [hraws] at hpreG
  let t : List TItem := (bodyAbs (pre.map (GLine.line pdir))).map TItem.line ++ gs.flatMap (OLGroup.items pdir)
  have hcl : classifyAll repaired pdir (coresOf (pre.map GLine.raw) ++ (gs.map OLGroup.toO).flatMap OGroup.block)
      = .ok (tableLines t) := by
    have := classifyAll_append hpreG.2.2 (olgroups_classified hgs)
    simpa [t, tableLines, List.flatMap_append, ← tableLines_lines] using this
  have htok : t.all TItem.ok = true := by
    simp only [t, List.all_append, Bool.and_eq_true, List.all_map, List.all_eq_true, Function.comp, List.mem_flatMap]
    refine ⟨fun _ _ => rfl, ?_⟩
    rintro x ⟨g, hg, hx⟩
    exact List.all_eq_true.mp (olgroup_items_ok (List.all_eq_true.mp hgs g hg)) x hx
  have hfin : tableActions repaired pdir env (olText h pre gs nl) = .ok (denoteTable env t) := by
    simp only [tableActions, parse, olText, hrw, Res.bind]
    rw [readLines_of_classified _ _ _ hcl]
    exact blocks_lines hfl t htok
  rw [hfin]
  congr 1
  simp only [t, denoteTable, List.flatMap_append, lines_denote, gbody_acts hpre, olDenote]
  congr 1
  rw [flatMap_flatMap']
  apply flatMap_congr'
  intro g hg
  exact olgroup_denote env (List.all_eq_true.mp hgs g hg)

end EupsModel.TableParse
