import EupsModel.Lemmas.Cache
import EupsModel.Lemmas.Agree
/-! The invariant of C07 (`CacheInv`): a cache file that the load rule would accept agrees with the database on
its (stack, flavor) slice — stated product by product, because the freshness test of `Database.isNewerThan`
only sees the product directories that still exist.  Preservation by loading, by every effect (database part,
write-through, save), by crashes and by cache deletion. -/
namespace EupsModel.Cache
open EupsModel.Db

/-! ## frames by slice -/

/-- does the entry lie in the slice (stack, flavor, product) -/
def inSliceD (x : Decl) (k : Nat × Flav × Name) : Prop := x.stack = k.1 ∧ x.flav = k.2.1 ∧ x.name = k.2.2
def inSliceT (x : TagRec) (k : Nat × Flav × Name) : Prop := x.stack = k.1 ∧ x.flav = k.2.1 ∧ x.name = k.2.2

theorem touchesDecl_slice {e : Eff} {x : Decl} (h : e.touchesDecl x = true) :
    ∃ k, e.slice = some k ∧ inSliceD x k := by
  cases e with
  | declare d tag =>
    simp only [Eff.touchesDecl, Decl.sameKey_iff] at h
    exact ⟨_, rfl, h.1, h.2.2.2, h.2.1⟩
  | undeclare s n v f =>
    simp only [Eff.touchesDecl, Decl.hasKey_iff] at h
    exact ⟨_, rfl, h.1, h.2.2.2, h.2.1⟩
  | assign _ _ _ _ _ => simp [Eff.touchesDecl] at h
  | unassign _ _ _ _ => simp [Eff.touchesDecl] at h
  | rmTree _ => simp [Eff.touchesDecl] at h
  | copyExtra _ => simp [Eff.touchesDecl] at h

theorem touchesTag_slice {e : Eff} {x : TagRec} (h : e.touchesTag x = true) :
    ∃ k, e.slice = some k ∧ inSliceT x k := by
  cases e with
  | declare d tag =>
    cases tag with
    | none => simp [Eff.touchesTag] at h
    | some t =>
      simp only [Eff.touchesTag, TagRec.hasKey_iff] at h
      exact ⟨_, rfl, h.1, h.2.2.2, h.2.2.1⟩
  | undeclare s n v f =>
    simp only [Eff.touchesTag, TagRec.pointsAt_iff] at h
    exact ⟨_, rfl, h.1, h.2.2.1, h.2.1⟩
  | assign s t n f v =>
    simp only [Eff.touchesTag, TagRec.hasKey_iff] at h
    exact ⟨_, rfl, h.1, h.2.2.2, h.2.2.1⟩
  | unassign s t n f =>
    simp only [Eff.touchesTag, TagRec.hasKey_iff] at h
    exact ⟨_, rfl, h.1, h.2.2.2, h.2.2.1⟩
  | rmTree _ => simp [Eff.touchesTag] at h
  | copyExtra _ => simp [Eff.touchesTag] at h

/-- the database part of an effect changes nothing outside the effect's slice -/
theorem applyDb_frame_slice (e : Eff) (c : Spec) :
    (∀ x : Decl, (∀ k, e.slice = some k → ¬ inSliceD x k) → (x ∈ (applyDb e c).decls ↔ x ∈ c.decls)) ∧
    (∀ x : TagRec, (∀ k, e.slice = some k → ¬ inSliceT x k) → (x ∈ (applyDb e c).tags ↔ x ∈ c.tags)) := by
  constructor
  · intro x hx
    apply applyDb_frame_decl
    cases ht : e.touchesDecl x with
    | false => rfl
    | true => obtain ⟨k, hk, hin⟩ := touchesDecl_slice ht; exact absurd hin (hx k hk)
  · intro x hx
    apply applyDb_frame_tag
    cases ht : e.touchesTag x with
    | false => rfl
    | true => obtain ⟨k, hk, hin⟩ := touchesTag_slice ht; exact absurd hin (hx k hk)

theorem memRemove_frame (fixed : Bool) (m : Spec) (s : Nat) (n : Name) (v : Ver) (f : Flav) :
    (∀ x : Decl, ¬ inSliceD x (s, f, n) → (x ∈ (memRemove fixed m s n v f).decls ↔ x ∈ m.decls)) ∧
    (∀ x : TagRec, ¬ inSliceT x (s, f, n) → (x ∈ (memRemove fixed m s n v f).tags ↔ x ∈ m.tags)) := by
  have hdecl : ∀ x : Decl, ¬ inSliceD x (s, f, n) →
      (x ∈ m.decls.filter (fun y => !(y.hasKey s n v f)) ↔ x ∈ m.decls) := by
    intro x hx
    rw [List.mem_filter]
    constructor
    · exact fun h => h.1
    · intro h
      refine ⟨h, ?_⟩
      cases hk : x.hasKey s n v f with
      | false => rfl
      | true => exfalso; have := Decl.hasKey_iff.mp hk; exact hx ⟨this.1, this.2.2.2, this.2.1⟩
  have htag1 : ∀ x : TagRec, ¬ inSliceT x (s, f, n) →
      (x ∈ (if fixed = true then m.tags.filter (fun y => !(y.pointsAt s n v f)) else m.tags) ↔ x ∈ m.tags) := by
    intro x hx
    split
    · rw [List.mem_filter]
      constructor
      · exact fun h => h.1
      · intro h
        refine ⟨h, ?_⟩
        cases hk : x.pointsAt s n v f with
        | false => rfl
        | true => exfalso; have := TagRec.pointsAt_iff.mp hk; exact hx ⟨this.1, this.2.2.1, this.2.1⟩
    · exact Iff.rfl
  have htag2 : ∀ (l : List TagRec) (x : TagRec), ¬ inSliceT x (s, f, n) →
      (x ∈ l.filter (fun y => !(y.stack == s && y.name == n && y.flav == f)) ↔ x ∈ l) := by
    intro l x hx
    rw [List.mem_filter]
    constructor
    · exact fun h => h.1
    · intro h
      refine ⟨h, ?_⟩
      cases hk : (x.stack == s && x.name == n && x.flav == f) with
      | false => rfl
      | true =>
        exfalso
        simp only [Bool.and_eq_true, beq_iff_eq] at hk
        exact hx ⟨hk.1.1, hk.2, hk.1.2⟩
  unfold memRemove
  split
  · exact ⟨fun _ _ => Iff.rfl, fun _ _ => Iff.rfl⟩
  · dsimp only
    split
    · exact ⟨hdecl, htag1⟩
    · exact ⟨hdecl, fun x hx => (htag2 _ x hx).trans (htag1 x hx)⟩

/-- the write-through of an effect changes nothing outside the effect's slice -/
theorem applyMemG_frame_slice (fixed : Bool) (e : Eff) (c : Spec) :
    (∀ x : Decl, (∀ k, e.slice = some k → ¬ inSliceD x k) → (x ∈ (applyMemG fixed e c).decls ↔ x ∈ c.decls)) ∧
    (∀ x : TagRec, (∀ k, e.slice = some k → ¬ inSliceT x k) → (x ∈ (applyMemG fixed e c).tags ↔ x ∈ c.tags)) := by
  cases e with
  | declare d tag => exact applyDb_frame_slice (.declare d tag) c
  | undeclare s n v f =>
    have := memRemove_frame fixed c s n v f
    exact ⟨fun x hx => this.1 x (hx _ rfl), fun x hx => this.2 x (hx _ rfl)⟩
  | assign s t n f v => exact applyDb_frame_slice (.assign s t n f v) c
  | unassign s t n f => exact applyDb_frame_slice (.unassign s t n f) c
  | rmTree d => exact ⟨fun _ _ => Iff.rfl, fun _ _ => Iff.rfl⟩
  | copyExtra d => exact ⟨fun _ _ => Iff.rfl, fun _ _ => Iff.rfl⟩

/-- **Commutation, every slice.**  Agreement of the in-memory stacks with the database on a slice survives
every effect: inside the effect's slice by `commute`, outside because neither side is touched. -/
theorem commute_all (e : Eff) (m db : Spec) (hdb : NoDangling db) (s : Nat) (f : Flav) (n : Name)
    (h : AgreeOnN m db s f n) : AgreeOnN (applyMem e m) (applyDb e db) s f n := by
  by_cases hs : e.slice = some (s, f, n)
  · exact commute e m db hdb s f n h (by intro s' f' n' hk; rw [hs] at hk; cases hk; exact h)
  · have hm := applyMemG_frame_slice true e m
    have hd := applyDb_frame_slice e db
    have hnot : ∀ (a : Nat) (b : Flav) (c : Name), a = s → b = f → c = n → ∀ k, e.slice = some k → ¬ (a = k.1 ∧ b = k.2.1 ∧ c = k.2.2) := by
      intro a b c ha hb hc k hk ⟨h1, h2, h3⟩
      apply hs
      rw [hk]
      obtain ⟨k1, k2, k3⟩ := k
      simp only at h1 h2 h3
      rw [← ha, ← hb, ← hc, h1, h2, h3]
    refine ⟨fun x h1 h2 h3 => ?_, fun x h1 h2 h3 => ?_⟩
    · exact ((hm.1 x (hnot _ _ _ h1 h2 h3)).trans (h.1 x h1 h2 h3)).trans (hd.1 x (hnot _ _ _ h1 h2 h3)).symm
    · exact ((hm.2 x (hnot _ _ _ h1 h2 h3)).trans (h.2 x h1 h2 h3)).trans (hd.2 x (hnot _ _ _ h1 h2 h3)).symm

/-- a `Database` call that finds nothing to write leaves the content as it is -/
theorem applyDb_of_not_writes (e : Eff) (db : Spec) (hdb : NoDangling db) (h : effWrites db e = false)
    (s : Nat) (f : Flav) (n : Name) : AgreeOnN (applyDb e db) db s f n := by
  cases e with
  | declare d tag => simp [effWrites] at h
  | undeclare s' n' v f' =>
    simp only [effWrites] at h
    have := memRemove_agree db s' n' v f' (hdb.toN s' f' n') s f n
    simp only [memRemove, h, Bool.not_false, if_true] at this
    exact this.symm
  | assign s' t n' f' v =>
    simp only [effWrites] at h
    simp only [applyDb, Spec.assign, h]
    exact AgreeOnN.refl _ _ _ _
  | unassign s' t n' f' =>
    simp only [effWrites] at h
    exact ⟨fun x _ _ _ => by simp [applyDb], fun x _ _ _ => Spec.delTag_of_not_hasTag h x⟩
  | rmTree _ => exact AgreeOnN.refl _ _ _ _
  | copyExtra _ => exact AgreeOnN.refl _ _ _ _

/-! ## names -/

theorem mem_dedup (l : List Str) (x : Str) : x ∈ dedup l ↔ x ∈ l := by
  induction l with
  | nil => simp [dedup]
  | cons y ys ih =>
    simp only [dedup, List.mem_cons, List.mem_filter, ih]
    by_cases h : x = y <;> simp [h]

/-- the product directory `ups_db/<n>` of stack `s` holds a version file -/
def ProductExists (db : Spec) (s : Nat) (n : Name) : Prop := ∃ d ∈ db.decls, d.stack = s ∧ d.name = n

theorem mem_dbNames (db : Spec) (s : Nat) (n : Name) : n ∈ dbNames db s ↔ ProductExists db s n := by
  simp only [dbNames, mem_dedup, List.mem_map, List.mem_filter, ProductExists]
  constructor
  · rintro ⟨d, ⟨hd, hs⟩, rfl⟩; exact ⟨d, hd, by simpa using hs, rfl⟩
  · rintro ⟨d, hd, hs, rfl⟩; exact ⟨d, ⟨hd, by simpa using hs⟩, rfl⟩

theorem mem_specNames (c : Spec) (n : Name) : n ∈ specNames c ↔ ∃ d ∈ c.decls, d.name = n := by
  simp only [specNames, mem_dedup, List.mem_map]

theorem sameSet_iff (a b : List Str) : sameSet a b = true ↔ ∀ x, x ∈ a ↔ x ∈ b := by
  simp only [sameSet, Bool.and_eq_true, List.all_eq_true, List.contains_iff_mem]
  constructor
  · rintro ⟨h1, h2⟩ x; exact ⟨h1 x, h2 x⟩
  · intro h; exact ⟨fun x hx => (h x).mp hx, fun x hx => (h x).mpr hx⟩

theorem upToDate_iff (w : World) (s : Nat) (t : Nat) :
    upToDate w s t = true ↔ ∀ x ∈ w.touch, x.stack = s → x.mtime ≤ t := by
  simp only [upToDate, List.all_eq_true, Bool.or_eq_true, bne_iff_ne, ne_eq, decide_eq_true_eq]
  constructor
  · intro h x hx hs; rcases h x hx with h | h; exact absurd hs h; exact h
  · intro h x hx; by_cases hs : x.stack = s; exact Or.inr (h x hx hs); exact Or.inl hs

/-! ## the invariant -/

/-- every entry of the content lies in (stack, flavor) -/
def Confined (c : Spec) (s : Nat) (f : Flav) : Prop :=
  (∀ d ∈ c.decls, d.stack = s ∧ d.flav = f) ∧ (∀ r ∈ c.tags, r.stack = s ∧ r.flav = f)

structure CacheInv (w : World) : Prop where
  dbinv : DbInv w.db
  cache_time : ∀ cf ∈ w.caches, cf.mtime < w.now
  touch_time : ∀ t ∈ w.touch, t.mtime < w.now
  /-- every product directory that exists has a modification time -/
  touch_alive : ∀ s n, ProductExists w.db s n → ∃ t ∈ w.touch, t.stack = s ∧ t.name = n
  /-- a cache file at least as new as a product directory agrees with the database on that product -/
  fresh : ∀ cf ∈ w.caches, cf.stack < w.nst → ∀ n, ProductExists w.db cf.stack n →
            (∀ t ∈ w.touch, t.stack = cf.stack → t.name = n → t.mtime ≤ cf.mtime) →
            AgreeOnN cf.c w.db cf.stack cf.flav n
  /-- a cache file holds its own slice and no dangling tag -/
  wf : ∀ cf ∈ w.caches, cf.stack < w.nst → Confined cf.c cf.stack cf.flav ∧ NoDangling cf.c

theorem cacheInv_init (nst : Nat) (dirs : List DirEnt) (tfs : List TFile) : CacheInv (World.init nst dirs tfs) := by
  refine ⟨dbInv_empty, ?_, ?_, ?_, ?_, ?_⟩ <;> simp [World.init, ProductExists, Spec.empty]

/-- **An accepted cache file agrees with the database** on its whole slice: it is up to date, and it names
only products the database has. -/
theorem accepts_agree {w : World} (h : CacheInv w) {cf : CacheFile} (hc : cf ∈ w.caches) (hs : cf.stack < w.nst)
    (ha : accepts w cf = true) : AgreeOn cf.c w.db cf.stack cf.flav := by
  simp only [accepts, Bool.and_eq_true] at ha
  obtain ⟨hup, hnames⟩ := ha
  rw [upToDate_iff] at hup
  have hnames : ∀ x, x ∈ specNames cf.c → x ∈ dbNames w.db cf.stack := by
    simpa only [List.all_eq_true, List.contains_iff_mem] using hnames
  obtain ⟨hconf, hnd⟩ := h.wf cf hc hs
  intro n
  by_cases hex : ProductExists w.db cf.stack n
  · exact h.fresh cf hc hs n hex (fun t ht h1 _ => hup t ht h1)
  · -- the product is in neither: the cache names only products of the database, and tags need a declaration
    have hnc : ¬ ∃ d ∈ cf.c.decls, d.name = n := by
      intro hh
      exact hex ((mem_dbNames _ _ _).mp (hnames n ((mem_specNames _ _).mpr hh)))
    refine ⟨fun d h1 _ h3 => ?_, fun r h1 _ h3 => ?_⟩
    · constructor
      · intro hd; exact absurd ⟨d, hd, h3⟩ hnc
      · intro hd; exact absurd ⟨d, hd, h1, h3⟩ hex
    · constructor
      · intro hr
        have := hnd r hr
        rw [Spec.hasDecl_iff] at this
        obtain ⟨d, hd, hk⟩ := this
        exact absurd ⟨d, hd, (Decl.hasKey_iff.mp hk).2.1.trans h3⟩ hnc
      · intro hr
        have := h.dbinv.nd r hr
        rw [Spec.hasDecl_iff] at this
        obtain ⟨d, hd, hk⟩ := this
        exact absurd ⟨d, hd, (Decl.hasKey_iff.mp hk).1.trans h1, (Decl.hasKey_iff.mp hk).2.1.trans h3⟩ hex

/-! ## saving -/

theorem mem_restrict_decls (c : Spec) (s : Nat) (f : Flav) (d : Decl) :
    d ∈ (restrict c s f).decls ↔ d ∈ c.decls ∧ d.stack = s ∧ d.flav = f := by
  simp [restrict, List.mem_filter]

theorem mem_restrict_tags (c : Spec) (s : Nat) (f : Flav) (r : TagRec) :
    r ∈ (restrict c s f).tags ↔ r ∈ c.tags ∧ r.stack = s ∧ r.flav = f := by
  simp [restrict, List.mem_filter]

theorem restrict_confined (c : Spec) (s : Nat) (f : Flav) : Confined (restrict c s f) s f :=
  ⟨fun d hd => ((mem_restrict_decls c s f d).mp hd).2, fun r hr => ((mem_restrict_tags c s f r).mp hr).2⟩

theorem restrict_agree (c : Spec) (s : Nat) (f : Flav) : AgreeOn (restrict c s f) c s f := by
  intro n
  refine ⟨fun d h1 h2 _ => ?_, fun r h1 h2 _ => ?_⟩
  · rw [mem_restrict_decls]; exact ⟨fun h => h.1, fun h => ⟨h, h1, h2⟩⟩
  · rw [mem_restrict_tags]; exact ⟨fun h => h.1, fun h => ⟨h, h1, h2⟩⟩

theorem restrict_noDangling {m db : Spec} {s : Nat} {f : Flav} (h : AgreeOn m db s f) (hdb : NoDangling db) :
    NoDangling (restrict m s f) := by
  intro r hr
  obtain ⟨hrm, h1, h2⟩ := (mem_restrict_tags m s f r).mp hr
  have hrd : r ∈ db.tags := ((h r.name).2 r h1 h2 rfl).mp hrm
  have := hdb r hrd
  rw [Spec.hasDecl_iff] at this ⊢
  obtain ⟨d, hd, hk⟩ := this
  have k := Decl.hasKey_iff.mp hk
  refine ⟨d, (mem_restrict_decls m s f d).mpr ⟨((h r.name).1 d (k.1.trans h1) (k.2.2.2.trans h2) k.2.1).mpr hd,
    k.1.trans h1, k.2.2.2.trans h2⟩, hk⟩

theorem mem_setCache {cs : List CacheFile} {c x : CacheFile} (h : x ∈ setCache cs c) : x = c ∨ x ∈ cs := by
  simp only [setCache, List.mem_cons, List.mem_filter] at h
  rcases h with h | h
  · exact Or.inl h
  · exact Or.inr h.1

/-- saving the slice (s, f) of in-memory stacks that agree with the database on it keeps the invariant -/
theorem save_inv {w : World} (h : CacheInv w) (u : User) (s : Nat) (f : Flav) (m : Spec)
    (hm : s < w.nst → AgreeOn m w.db s f) :
    CacheInv { w with caches := setCache w.caches ⟨u, s, f, restrict m s f, w.now⟩, now := w.now + 1 } := by
  refine ⟨h.dbinv, ?_, ?_, h.touch_alive, ?_, ?_⟩
  · intro cf hcf
    rcases mem_setCache hcf with rfl | hcf
    · exact Nat.lt_succ_self _
    · exact Nat.lt_succ_of_lt (h.cache_time cf hcf)
  · intro t ht; exact Nat.lt_succ_of_lt (h.touch_time t ht)
  · intro cf hcf hs n hex htouch
    rcases mem_setCache hcf with rfl | hcf
    · exact ((restrict_agree m s f) n).trans (hm hs n)
    · exact h.fresh cf hcf hs n hex htouch
  · intro cf hcf hs
    rcases mem_setCache hcf with rfl | hcf
    · exact ⟨restrict_confined m s f, restrict_noDangling (hm hs) h.dbinv.nd⟩
    · exact h.wf cf hcf hs

/-! ## loading -/

theorem snapshot_agree {db : Spec} (hdb : NoDangling db) (s : Nat) (f : Flav) : AgreeOn (snapshot db s) db s f := by
  intro n
  refine ⟨fun d h1 _ _ => ?_, fun r h1 _ _ => ?_⟩
  · simp [snapshot, List.mem_filter, h1]
  · simp only [snapshot, List.mem_filter, Bool.and_eq_true, beq_iff_eq]
    exact ⟨fun h => h.1, fun h => ⟨h, h1, hdb r h⟩⟩

theorem snapshot_stack (db : Spec) (s : Nat) :
    (∀ d ∈ (snapshot db s).decls, d.stack = s) ∧ (∀ r ∈ (snapshot db s).tags, r.stack = s) := by
  constructor
  · intro d hd; simp only [snapshot, List.mem_filter, beq_iff_eq] at hd; exact hd.2
  · intro r hr; simp only [snapshot, List.mem_filter, Bool.and_eq_true, beq_iff_eq] at hr; exact hr.2.1

theorem saveAll_inv (u : User) (s : Nat) (m : Spec) (fs : List Flav) {w : World} (h : CacheInv w)
    (hm : ∀ f ∈ fs, s < w.nst → AgreeOn m w.db s f) : CacheInv (saveAll u s m fs w) := by
  induction fs generalizing w with
  | nil => exact h
  | cons f fs ih =>
    simp only [saveAll]
    exact ih (save_inv h u s f m (hm f (by simp))) (fun f' hf' => hm f' (by simp [hf']))

theorem findCaches_some {w : World} {u : User} {s : Nat} {fs : List Flav} {cfs : List CacheFile}
    (h : findCaches w u s fs = some cfs) :
    cfs.map (·.flav) = fs ∧ ∀ cf ∈ cfs, cf ∈ w.caches ∧ cf.stack = s := by
  induction fs generalizing cfs with
  | nil => simp only [findCaches, Option.some.injEq] at h; subst h; exact ⟨rfl, by intro cf hcf; cases hcf⟩
  | cons f fs ih =>
    simp only [findCaches] at h
    cases hf : w.findCache u s f with
    | none => rw [hf] at h; cases h
    | some c =>
      cases hfs : findCaches w u s fs with
      | none => rw [hf, hfs] at h; cases h
      | some cs =>
        rw [hf, hfs] at h
        simp only [Option.some.injEq] at h
        subst h
        obtain ⟨h1, h2⟩ := ih hfs
        have hp := List.find?_some hf
        simp only [Bool.and_eq_true, beq_iff_eq] at hp
        refine ⟨by simp [h1, hp.2], ?_⟩
        intro cf hcf
        rcases List.mem_cons.mp hcf with rfl | hcf
        · exact ⟨List.mem_of_find?_eq_some hf, hp.1.2⟩
        · exact h2 cf hcf

theorem mem_unionAll_decls (l : List Spec) (d : Decl) : d ∈ (unionAll l).decls ↔ ∃ c ∈ l, d ∈ c.decls := by
  induction l with
  | nil => simp [unionAll, Spec.empty]
  | cons c cs ih => simp [unionAll, specUnion, ih]

theorem mem_unionAll_tags (l : List Spec) (r : TagRec) : r ∈ (unionAll l).tags ↔ ∃ c ∈ l, r ∈ c.tags := by
  induction l with
  | nil => simp [unionAll, Spec.empty]
  | cons c cs ih => simp [unionAll, specUnion, ih]

/-- the union of accepted cache files of one stack agrees with the database on each of their flavors -/
theorem unionAll_agree {w : World} (h : CacheInv w) {s : Nat} (hs : s < w.nst) {cfs : List CacheFile}
    (hmem : ∀ cf ∈ cfs, cf ∈ w.caches ∧ cf.stack = s) (hacc : ∀ cf ∈ cfs, accepts w cf = true)
    (f : Flav) (hf : f ∈ cfs.map (·.flav)) : AgreeOn (unionAll (cfs.map (·.c))) w.db s f := by
  obtain ⟨cf0, hcf0, hfl0⟩ := List.mem_map.mp hf
  have hag0 := accepts_agree h (hmem cf0 hcf0).1 ((hmem cf0 hcf0).2 ▸ hs) (hacc cf0 hcf0)
  rw [(hmem cf0 hcf0).2, hfl0] at hag0
  intro n
  refine ⟨fun d h1 h2 h3 => ?_, fun r h1 h2 h3 => ?_⟩
  · rw [mem_unionAll_decls]
    constructor
    · rintro ⟨c, hc, hd⟩
      obtain ⟨cf, hcf, rfl⟩ := List.mem_map.mp hc
      have hag := accepts_agree h (hmem cf hcf).1 ((hmem cf hcf).2 ▸ hs) (hacc cf hcf)
      obtain ⟨hconf, _⟩ := h.wf cf (hmem cf hcf).1 ((hmem cf hcf).2 ▸ hs)
      exact ((hag n).1 d (hconf.1 d hd).1 (hconf.1 d hd).2 h3).mp hd
    · intro hd
      exact ⟨cf0.c, List.mem_map.mpr ⟨cf0, hcf0, rfl⟩, ((hag0 n).1 d h1 h2 h3).mpr hd⟩
  · rw [mem_unionAll_tags]
    constructor
    · rintro ⟨c, hc, hr⟩
      obtain ⟨cf, hcf, rfl⟩ := List.mem_map.mp hc
      have hag := accepts_agree h (hmem cf hcf).1 ((hmem cf hcf).2 ▸ hs) (hacc cf hcf)
      obtain ⟨hconf, _⟩ := h.wf cf (hmem cf hcf).1 ((hmem cf hcf).2 ▸ hs)
      exact ((hag n).2 r (hconf.2 r hr).1 (hconf.2 r hr).2 h3).mp hr
    · intro hr
      exact ⟨cf0.c, List.mem_map.mpr ⟨cf0, hcf0, rfl⟩, ((hag0 n).2 r h1 h2 h3).mpr hr⟩

/-- an accepted cache directory: its view agrees with the database on every needed flavor and holds entries of
that stack only, all of them in the database -/
theorem tryCache_inv {w : World} (h : CacheInv w) (u : User) (self : Flav) {s : Nat} (hs : s < w.nst) {view : Spec}
    (ht : tryCache w u self s = some view) :
    (∀ f ∈ needed self, AgreeOn view w.db s f) ∧
    (∀ d ∈ view.decls, d.stack = s ∧ d ∈ w.db.decls) ∧
    (∀ r ∈ view.tags, r.stack = s) := by
  unfold tryCache at ht
  split at ht
  · cases ht
  · rename_i cfs hfind
    obtain ⟨hmap, hmem⟩ := findCaches_some hfind
    dsimp only at ht
    split at ht
    · rename_i hacc
      simp only [Option.some.injEq] at ht
      subst ht
      simp only [Bool.and_eq_true, List.all_eq_true] at hacc
      refine ⟨?_, ?_, ?_⟩
      · intro f hf
        exact unionAll_agree h hs hmem hacc.1 f (hmap ▸ hf)
      · intro d hd
        obtain ⟨c, hc, hdc⟩ := (mem_unionAll_decls _ d).mp hd
        obtain ⟨cf, hcf, rfl⟩ := List.mem_map.mp hc
        obtain ⟨hconf, _⟩ := h.wf cf (hmem cf hcf).1 ((hmem cf hcf).2 ▸ hs)
        have hag := accepts_agree h (hmem cf hcf).1 ((hmem cf hcf).2 ▸ hs) (hacc.1 cf hcf)
        exact ⟨(hconf.1 d hdc).1.trans (hmem cf hcf).2,
          ((hag d.name).1 d (hconf.1 d hdc).1 (hconf.1 d hdc).2 rfl).mp hdc⟩
      · intro r hr
        obtain ⟨c, hc, hrc⟩ := (mem_unionAll_tags _ r).mp hr
        obtain ⟨cf, hcf, rfl⟩ := List.mem_map.mp hc
        obtain ⟨hconf, _⟩ := h.wf cf (hmem cf hcf).1 ((hmem cf hcf).2 ▸ hs)
        exact (hconf.2 r hrc).1.trans (hmem cf hcf).2
    · cases ht

/-- loading one stack keeps the invariant; the view agrees with the database on every flavor the stack then
holds — the needed flavors (native and fallback) among them — and holds entries of that stack only, all of them
in the database -/
theorem loadStack_inv {w : World} (h : CacheInv w) (u : User) (self : Flav) {s : Nat} (hs : s < w.nst) :
    CacheInv (loadStack w u self s).w ∧
    (∀ f ∈ (loadStack w u self s).flavs, AgreeOn (loadStack w u self s).view w.db s f) ∧
    (∀ f ∈ needed self, f ∈ (loadStack w u self s).flavs) ∧
    (∀ d ∈ (loadStack w u self s).view.decls, d.stack = s ∧ d ∈ w.db.decls) ∧
    (∀ r ∈ (loadStack w u self s).view.tags, r.stack = s) := by
  have hsnapsub : ∀ d ∈ (snapshot w.db s).decls, d.stack = s ∧ d ∈ w.db.decls := by
    intro d hd
    simp only [snapshot, List.mem_filter, beq_iff_eq] at hd
    exact ⟨hd.2, hd.1⟩
  have hneed : ∀ f ∈ needed self, f ∈ specFlavors (snapshot w.db s) ++
      (needed self).filter (fun f => !(specFlavors (snapshot w.db s)).contains f) := by
    intro f hf
    by_cases hc : f ∈ specFlavors (snapshot w.db s)
    · exact List.mem_append_left _ hc
    · exact List.mem_append_right _ (List.mem_filter.mpr ⟨hf, by simpa using hc⟩)
  unfold loadStack
  split
  · rename_i view ht
    obtain ⟨h1, h2, h3⟩ := tryCache_inv h u self hs ht
    exact ⟨h, h1, fun f hf => hf, h2, h3⟩
  · split
    · rename_i view ht
      obtain ⟨h1, h2, h3⟩ := tryCache_inv h sysUser self hs ht
      exact ⟨h, h1, fun f hf => hf, h2, h3⟩
    · exact ⟨saveAll_inv u s _ _ h (fun f _ _ => snapshot_agree h.dbinv.nd s f),
        fun f _ => snapshot_agree h.dbinv.nd s f, hneed, hsnapsub, (snapshot_stack w.db s).2⟩

/-- the in-memory stacks agree with the database on every flavor each stack of the path holds -/
def ViewInv (nst : Nat) (held : Nat → List Flav) (m db : Spec) : Prop :=
  ∀ s, s < nst → ∀ f ∈ held s, AgreeOn m db s f

theorem loadFrom_inv (u : User) (self : Flav) (ss : List Nat) (done : List Nat) (m : Spec)
    (fl : List (Nat × List Flav)) {w : World} (h : CacheInv w) (hss : ∀ s ∈ ss, s < w.nst)
    (hnd : ss.Nodup) (hdisj : ∀ s ∈ ss, s ∉ done)
    (hm1 : ∀ d ∈ m.decls, d.stack ∈ done ∧ d ∈ w.db.decls) (hm2 : ∀ r ∈ m.tags, r.stack ∈ done)
    (hfl : ∀ x ∈ fl, x.1 ∈ done ∧ (∀ f ∈ needed self, f ∈ x.2) ∧ ∀ f ∈ x.2, AgreeOn m w.db x.1 f)
    (hdone : ∀ s ∈ done, ∃ x ∈ fl, x.1 = s) :
    CacheInv (loadFrom u self ss m fl w).2.2 ∧
    (∀ x ∈ (loadFrom u self ss m fl w).2.1, (∀ f ∈ needed self, f ∈ x.2) ∧
        ∀ f ∈ x.2, AgreeOn (loadFrom u self ss m fl w).1 w.db x.1 f) ∧
    (∀ s ∈ done ++ ss, ∃ x ∈ (loadFrom u self ss m fl w).2.1, x.1 = s) ∧
    (∀ d ∈ (loadFrom u self ss m fl w).1.decls, d ∈ w.db.decls) := by
  induction ss generalizing done m fl w with
  | nil =>
    simp only [loadFrom, List.append_nil]
    exact ⟨h, fun x hx => ⟨(hfl x hx).2.1, (hfl x hx).2.2⟩, hdone, fun d hd => (hm1 d hd).2⟩
  | cons s ss ih =>
    simp only [loadFrom]
    have hs := hss s (by simp)
    obtain ⟨hinv, hag, hneed, hd, ht⟩ := loadStack_inv h u self hs
    obtain ⟨kdb, _, knst, _⟩ := loadStack_db w u self s
    have hsnd : s ∉ done := hdisj s (by simp)
    obtain ⟨hsns, hnd'⟩ := List.nodup_cons.mp hnd
    have := ih (s :: done) (specUnion m (loadStack w u self s).view) (fl ++ [(s, (loadStack w u self s).flavs)]) hinv
      (by intro x hx; rw [knst]; exact hss x (by simp [hx]))
      hnd'
      (by
        intro x hx hxd
        rcases List.mem_cons.mp hxd with rfl | hxd
        · exact hsns hx
        · exact hdisj x (by simp [hx]) hxd)
      (by
        intro d hd'
        rw [kdb]
        simp only [specUnion, List.mem_append] at hd'
        rcases hd' with hd' | hd'
        · exact ⟨List.mem_cons_of_mem _ (hm1 d hd').1, (hm1 d hd').2⟩
        · rw [(hd d hd').1]; exact ⟨List.mem_cons_self, (hd d hd').2⟩)
      (by
        intro r hr'
        simp only [specUnion, List.mem_append] at hr'
        rcases hr' with hr' | hr'
        · exact List.mem_cons_of_mem _ (hm2 r hr')
        · rw [ht r hr']; exact List.mem_cons_self)
      (by
        rw [kdb]
        intro x hx
        simp only [List.mem_append, List.mem_singleton] at hx
        rcases hx with hx | rfl
        · -- an earlier stack: the new view holds nothing of it
          obtain ⟨h1, h2, h3⟩ := hfl x hx
          have hne : x.1 ≠ s := fun e => hsnd (e ▸ h1)
          refine ⟨List.mem_cons_of_mem _ h1, h2, ?_⟩
          intro f hf n
          refine ⟨fun d a1 a2 a3 => ?_, fun r a1 a2 a3 => ?_⟩
          · simp only [specUnion, List.mem_append]
            have : d ∉ (loadStack w u self s).view.decls := fun hh => hne (a1 ▸ (hd d hh).1)
            simp [this, ((h3 f hf) n).1 d a1 a2 a3]
          · simp only [specUnion, List.mem_append]
            have : r ∉ (loadStack w u self s).view.tags := fun hh => hne (a1 ▸ ht r hh)
            simp [this, ((h3 f hf) n).2 r a1 a2 a3]
        · -- the stack just loaded: the old view holds nothing of it
          refine ⟨List.mem_cons_self, hneed, ?_⟩
          intro f hf n
          refine ⟨fun d a1 a2 a3 => ?_, fun r a1 a2 a3 => ?_⟩
          · simp only [specUnion, List.mem_append]
            have a1' : d.stack = s := a1
            have : d ∉ m.decls := fun hh => hsnd (a1' ▸ (hm1 d hh).1)
            simp [this, ((hag f hf) n).1 d a1 a2 a3]
          · simp only [specUnion, List.mem_append]
            have a1' : r.stack = s := a1
            have : r ∉ m.tags := fun hh => hsnd (a1' ▸ hm2 r hh)
            simp [this, ((hag f hf) n).2 r a1 a2 a3])
      (by
        intro s' hs'
        rcases List.mem_cons.mp hs' with rfl | hs'
        · exact ⟨(s', (loadStack w u self s').flavs), by simp, rfl⟩
        · obtain ⟨x, hx, hxs⟩ := hdone s' hs'
          exact ⟨x, by simp [hx], hxs⟩)
    rw [kdb] at this
    refine ⟨this.1, this.2.1, ?_, this.2.2.2⟩
    intro s' hs'
    apply this.2.2.1 s'
    simp only [List.mem_append, List.mem_cons] at hs' ⊢
    rcases hs' with h' | h' | h'
    · exact Or.inl (Or.inr h')
    · exact Or.inl (Or.inl h')
    · exact Or.inr h'

theorem mem_heldOf {fl : List (Nat × List Flav)} {s : Nat} {f : Flav} (h : f ∈ heldOf fl s) :
    ∃ x ∈ fl, x.1 = s ∧ f ∈ x.2 := by
  unfold heldOf at h
  cases hf : fl.find? (fun x => x.1 == s) with
  | none => rw [hf] at h; cases h
  | some x =>
    rw [hf] at h
    exact ⟨x, List.mem_of_find?_eq_some hf, by simpa using List.find?_some hf, h⟩

theorem heldOf_of_all {fl : List (Nat × List Flav)} {s : Nat} {f : Flav} (hex : ∃ x ∈ fl, x.1 = s)
    (hall : ∀ x ∈ fl, f ∈ x.2) : f ∈ heldOf fl s := by
  unfold heldOf
  cases hf : fl.find? (fun x => x.1 == s) with
  | none =>
    obtain ⟨x, hx, hxs⟩ := hex
    rw [List.find?_eq_none] at hf
    exact absurd (by simpa using hxs) (hf x hx)
  | some x => exact hall x (List.mem_of_find?_eq_some hf)

/-- **Command start.**  Loading keeps the invariant; the in-memory stacks agree with the database on every
flavor each stack of the path holds, the native flavor and its fallback among them; and they show no declaration
that the files do not hold. -/
theorem load_inv {w : World} (h : CacheInv w) (u : User) (self : Flav) :
    CacheInv (load w u self).2.2 ∧ ViewInv w.nst (heldOf (load w u self).2.1) (load w u self).1 w.db ∧
    (∀ s, s < w.nst → ∀ f ∈ fallbacks self, f ∈ heldOf (load w u self).2.1 s) ∧
    (∀ d ∈ (load w u self).1.decls, d ∈ w.db.decls) := by
  have := loadFrom_inv u self (allStacks w.nst) [] Spec.empty [] h
    (by intro s hs; simpa [allStacks] using hs) (by unfold allStacks; exact List.nodup_range)
    (by intro s _ hs; cases hs)
    (by intro d hd; simp [Spec.empty] at hd) (by intro r hr; simp [Spec.empty] at hr)
    (by intro x hx; cases hx) (by intro s hs; cases hs)
  refine ⟨this.1, ?_, ?_, this.2.2.2⟩
  · intro s _ f hf
    obtain ⟨x, hx, hxs, hfx⟩ := mem_heldOf hf
    have := (this.2.1 x hx).2 f hfx
    rw [hxs] at this
    exact this
  · intro s hs f hf
    apply heldOf_of_all (this.2.2.1 s (by simpa [allStacks] using hs))
    intro x hx
    exact (this.2.1 x hx).1 f (by unfold needed; exact (mem_dedup _ _).mpr hf)

/-! ## effects -/

theorem effKey_slice {e : Eff} {s : Nat} {n : Name} (h : effKey e = some (s, n)) :
    ∃ f, e.slice = some (s, f, n) := by
  cases e with
  | declare d tag => simp only [effKey, Option.some.injEq, Prod.mk.injEq] at h; exact ⟨d.flav, by simp [Eff.slice, h.1, h.2]⟩
  | undeclare s' n' v f => simp only [effKey, Option.some.injEq, Prod.mk.injEq] at h; exact ⟨f, by simp [Eff.slice, h.1, h.2]⟩
  | assign s' t n' f v => simp only [effKey, Option.some.injEq, Prod.mk.injEq] at h; exact ⟨f, by simp [Eff.slice, h.1, h.2]⟩
  | unassign s' t n' f => simp only [effKey, Option.some.injEq, Prod.mk.injEq] at h; exact ⟨f, by simp [Eff.slice, h.1, h.2]⟩
  | rmTree _ => simp [effKey] at h
  | copyExtra _ => simp [effKey] at h

theorem mem_setTouch {ts : List Touch} {s : Nat} {n : Name} {t : Option Nat} {x : Touch} :
    x ∈ setTouch ts s n t ↔ (∃ t0, t = some t0 ∧ x = ⟨s, n, t0⟩) ∨ (x ∈ ts ∧ ¬ (x.stack = s ∧ x.name = n)) := by
  have hdm : ∀ a b : Prop, (¬ a ∨ ¬ b) ↔ ¬ (a ∧ b) := fun a b =>
    ⟨fun h hab => h.elim (fun na => na hab.1) (fun nb => nb hab.2),
     fun h => (Classical.em a).elim (fun ha => Or.inr (fun hb => h ⟨ha, hb⟩)) Or.inl⟩
  unfold setTouch
  cases t with
  | none => simp [List.mem_filter, hdm]
  | some t0 => simp [List.mem_filter, hdm]

/-- outside the product directory an effect writes in, existence of product directories is unchanged -/
theorem productExists_frame (e : Eff) (db : Spec) {s : Nat} {n : Name} (hk : effKey e = some (s, n))
    (s' : Nat) (n' : Name) (hne : ¬ (s' = s ∧ n' = n)) :
    ProductExists (applyDb e db) s' n' ↔ ProductExists db s' n' := by
  obtain ⟨f, hsl⟩ := effKey_slice hk
  have hfr := (applyDb_frame_slice e db).1
  constructor
  · rintro ⟨d, hd, h1, h2⟩
    refine ⟨d, (hfr d ?_).mp hd, h1, h2⟩
    intro k hk' ⟨a, _, c⟩; rw [hsl] at hk'; cases hk'; exact hne ⟨h1 ▸ a, h2 ▸ c⟩
  · rintro ⟨d, hd, h1, h2⟩
    refine ⟨d, (hfr d ?_).mpr hd, h1, h2⟩
    intro k hk' ⟨a, _, c⟩; rw [hsl] at hk'; cases hk'; exact hne ⟨h1 ▸ a, h2 ▸ c⟩

/-- **The database part of an effect keeps the invariant** (whatever the caches hold: a product directory that
was written is newer than every cache file). -/
theorem applyDbW_inv {w : World} (h : CacheInv w) (e : Eff) : CacheInv (applyDbW w e) := by
  unfold applyDbW
  split
  · exact h
  · rename_i s n hk
    dsimp only
    split
    · -- the Database call writes in ups_db/<n> of stack s
      have hex : ProductExists (applyDb e w.db) s n →
          ((applyDb e w.db).decls.any fun d => d.stack == s && d.name == n) = true := by
        rintro ⟨d, hd, h1, h2⟩
        rw [List.any_eq_true]; exact ⟨d, hd, by simp [h1, h2]⟩
      refine ⟨h.dbinv.apply e, fun cf hcf => Nat.lt_succ_of_lt (h.cache_time cf hcf), ?_, ?_, ?_, h.wf⟩
      · intro t ht
        rcases mem_setTouch.mp ht with ⟨t0, ht0, rfl⟩ | ⟨ht, _⟩
        · split at ht0
          · cases ht0; exact Nat.lt_succ_self _
          · cases ht0
        · exact Nat.lt_succ_of_lt (h.touch_time t ht)
      · intro s' n' hpe
        by_cases hsn : s' = s ∧ n' = n
        · obtain ⟨rfl, rfl⟩ := hsn
          exact ⟨⟨s', n', w.now⟩, mem_setTouch.mpr (Or.inl ⟨w.now, by rw [if_pos (hex hpe)], rfl⟩), rfl, rfl⟩
        · obtain ⟨t, ht, h1, h2⟩ := h.touch_alive s' n' ((productExists_frame e w.db hk s' n' hsn).mp hpe)
          exact ⟨t, mem_setTouch.mpr (Or.inr ⟨ht, by rw [h1, h2]; exact hsn⟩), h1, h2⟩
      · intro cf hcf hs n' hpe htouch
        by_cases hsn : cf.stack = s ∧ n' = n
        · -- the product directory is newer than the cache file: the premise is false
          exfalso
          obtain ⟨h1, rfl⟩ := hsn
          have hnew : (⟨s, n', w.now⟩ : Touch) ∈ setTouch w.touch s n'
              (if ((applyDb e w.db).decls.any fun d => d.stack == s && d.name == n') = true then some w.now else none) :=
            mem_setTouch.mpr (Or.inl ⟨w.now, by rw [if_pos (hex (h1 ▸ hpe))], rfl⟩)
          have := htouch _ hnew h1.symm rfl
          exact Nat.lt_irrefl _ (Nat.lt_of_le_of_lt this (h.cache_time cf hcf))
        · have hold := h.fresh cf hcf hs n' ((productExists_frame e w.db hk cf.stack n' hsn).mp hpe)
            (fun t ht h1 h2 => htouch t (mem_setTouch.mpr (Or.inr ⟨ht, by rw [h1, h2]; exact hsn⟩)) h1 h2)
          obtain ⟨f, hsl⟩ := effKey_slice hk
          have hfr := applyDb_frame_slice e w.db
          refine ⟨fun d h1 h2 h3 => (hold.1 d h1 h2 h3).trans (hfr.1 d ?_).symm,
                  fun r h1 h2 h3 => (hold.2 r h1 h2 h3).trans (hfr.2 r ?_).symm⟩
          · intro k hk' ⟨a, _, c⟩; rw [hsl] at hk'; cases hk'; exact hsn ⟨h1 ▸ a, h3 ▸ c⟩
          · intro k hk' ⟨a, _, c⟩; rw [hsl] at hk'; cases hk'; exact hsn ⟨h1 ▸ a, h3 ▸ c⟩
    · exact h

/-- after the database part and the write-through of an effect the in-memory stacks still agree with the
database on every flavor the stacks hold -/
theorem applyW_view {w : World} (h : CacheInv w) {nst : Nat} {held : Nat → List Flav} {m : Spec}
    (hv : ViewInv nst held m w.db) (e : Eff) : ViewInv nst held (applyMem e m) (applyDbW w e).db := by
  intro s hs f hf n
  have hc := commute_all e m w.db h.dbinv.nd s f n (hv s hs f hf n)
  unfold applyDbW
  split
  · rename_i hk
    cases e with
    | rmTree d => exact hv s hs f hf n
    | copyExtra d => exact hv s hs f hf n
    | declare _ _ => simp [effKey] at hk
    | undeclare _ _ _ _ => simp [effKey] at hk
    | assign _ _ _ _ _ => simp [effKey] at hk
    | unassign _ _ _ _ => simp [effKey] at hk
  · dsimp only
    split
    · exact hc
    · rename_i hw
      exact hc.trans (applyDb_of_not_writes e w.db h.dbinv.nd (by simpa using hw) s f n)

theorem applySaveW_inv {w : World} (h : CacheInv w) (u : User) (held : Nat → List Flav) (m m' : Spec) (e : Eff)
    (hm : ∀ s, s < w.nst → ∀ f ∈ held s, AgreeOn m' w.db s f) :
    CacheInv (applySaveW u held w m m' e) := by
  unfold applySaveW
  split
  · exact ⟨h.dbinv, h.cache_time, h.touch_time, h.touch_alive, h.fresh, h.wf⟩
  · exact ⟨h.dbinv, h.cache_time, h.touch_time, h.touch_alive, h.fresh, h.wf⟩
  · split
    · exact h
    · rename_i s _ _
      exact saveAll_inv u s m' (held s) h (fun f hf hs => hm s hs f hf)

theorem applyDbW_nst (w : World) (e : Eff) : (applyDbW w e).nst = w.nst := (applyDbW_dirs w e).2

theorem applySaveW_nst (u : User) (held : Nat → List Flav) (w : World) (m m' : Spec) (e : Eff) :
    (applySaveW u held w m m' e).nst = w.nst := by
  unfold applySaveW
  split
  · rfl
  · rfl
  · split
    · rfl
    · rename_i s _ _; exact (saveAll_db u s m' (held s) w).2.2.1

/-- **A whole effect of a process whose in-memory stacks agree with the database keeps the invariant and the
agreement**: the database part makes every older cache of the product stale, the write-through commutes, and the
cache files saved — one per flavor the stack holds — are slices of a view that agrees with the files. -/
theorem applyW_inv {w : World} (h : CacheInv w) (u : User) {held : Nat → List Flav} {m : Spec}
    (hv : ViewInv w.nst held m w.db) (e : Eff) :
    CacheInv (applyW true u held (w, m) e).1 ∧
    ViewInv w.nst held (applyW true u held (w, m) e).2 (applyW true u held (w, m) e).1.db ∧
    (applyW true u held (w, m) e).1.nst = w.nst := by
  unfold applyW
  dsimp only
  have h1 := applyDbW_inv h e
  have hv1 : ViewInv w.nst held (applyMem e m) (applyDbW w e).db := applyW_view h hv e
  refine ⟨applySaveW_inv h1 u held m _ e ?_, ?_, ?_⟩
  · intro s hs f hf
    exact hv1 s (applyDbW_nst w e ▸ hs) f hf
  · rw [(applySaveW_db _ _ _ _ _ _).1]; exact hv1
  · rw [applySaveW_nst, applyDbW_nst]

theorem foldl_applyW_inv (u : User) {held : Nat → List Flav} (es : List Eff) {w : World} {m : Spec} (h : CacheInv w)
    (hv : ViewInv w.nst held m w.db) : CacheInv (es.foldl (applyW true u held) (w, m)).1 := by
  induction es generalizing w m with
  | nil => exact h
  | cons e es ih =>
    obtain ⟨h1, hv1, hn⟩ := applyW_inv h u hv e
    simp only [List.foldl_cons]
    have : applyW true u held (w, m) e = ((applyW true u held (w, m) e).1, (applyW true u held (w, m) e).2) := rfl
    rw [this]
    exact ih h1 (hn ▸ hv1)

/-- a (possibly cut) replay keeps the invariant: a crash leaves the database part of the last effect, after
which no cache of the product's stack is accepted for it -/
theorem replay_inv (u : User) {held : Nat → List Flav} (es : List Eff) (last : Option Eff) {w : World} {m : Spec}
    (h : CacheInv w) (hv : ViewInv w.nst held m w.db) : CacheInv (replay true u held (w, m) es last) := by
  unfold replay
  have := foldl_applyW_inv u es h hv
  cases last with
  | none => exact this
  | some e => exact applyDbW_inv this e

theorem _root_.EupsModel.Db.Within.slice_flav {n : Name} {f : Flav} {vs : Ver → Prop} {ts : Tag → Prop} {e : Eff}
    (h : Within n f vs ts e) : ∀ k, e.slice = some k → k.2.1 = f := by
  intro k hk
  cases e with
  | declare d tag => simp only [Eff.slice, Option.some.injEq] at hk; subst hk; exact h.2.1
  | undeclare s n' v f' => simp only [Eff.slice, Option.some.injEq] at hk; subst hk; exact h.2.1
  | assign s t n' f' v => simp only [Eff.slice, Option.some.injEq] at hk; subst hk; exact h.2.1
  | unassign s t n' f' => simp only [Eff.slice, Option.some.injEq] at hk; subst hk; exact h.2.1
  | rmTree _ => simp [Eff.slice] at hk
  | copyExtra _ => simp [Eff.slice] at hk

theorem rmCache_inv {w : World} (h : CacheInv w) (u : User) (s : Nat) (f : Flav) :
    CacheInv { w with caches := rmCache w.caches u s f } := by
  have hsub : ∀ cf ∈ rmCache w.caches u s f, cf ∈ w.caches := by
    intro cf hcf; simp only [rmCache, List.mem_filter] at hcf; exact hcf.1
  exact ⟨h.dbinv, fun cf hcf => h.cache_time cf (hsub cf hcf), h.touch_time, h.touch_alive,
    fun cf hcf => h.fresh cf (hsub cf hcf), fun cf hcf => h.wf cf (hsub cf hcf)⟩

/-- **Every command of a history keeps the invariant**: any user, any flavor, killed after any `Database`
mutation or not, and cache deletions. -/
theorem clearCache_inv {w : World} (h : CacheInv w) (u : User) :
    CacheInv { w with caches := w.caches.filter fun x => x.user != u } := by
  have hsub : ∀ cf ∈ w.caches.filter (fun x => x.user != u), cf ∈ w.caches := by
    intro cf hcf; exact (List.mem_filter.mp hcf).1
  exact ⟨h.dbinv, fun cf hcf => h.cache_time cf (hsub cf hcf), h.touch_time, h.touch_alive,
    fun cf hcf => h.fresh cf (hsub cf hcf), fun cf hcf => h.wf cf (hsub cf hcf)⟩

theorem step_inv {w : World} (h : CacheInv w) (c : WCmd) : CacheInv (step w c) := by
  cases c with
  | rmCache u s f => exact rmCache_inv h u s f
  | clearCache u => exact clearCache_inv h u
  | envRmDir d => exact ⟨h.dbinv, h.cache_time, h.touch_time, h.touch_alive, h.fresh, h.wf⟩
  | adminBuild u self =>
    simp only [step, stepG]
    have h1 := (load_inv (clearCache_inv h u) sysUser self).1
    generalize load { w with caches := w.caches.filter fun x => x.user != u } sysUser self = l at h1
    obtain ⟨m, fl, w1⟩ := l
    exact h1
  | run u c crash =>
    simp only [step, stepG]
    obtain ⟨h1, hv, _, _⟩ := load_inv h u c.self
    obtain ⟨hdb, _, hnst⟩ := load_db w u c.self
    generalize load w u c.self = l at h1 hv hdb hnst
    obtain ⟨m, fl, w1⟩ := l
    dsimp only at h1 hv hdb hnst ⊢
    have hv1 : ViewInv w1.nst (heldOf fl) m w1.db := by rw [hnst, hdb]; exact hv
    cases crash with
    | none => exact replay_inv u _ none h1 hv1
    | some k => exact replay_inv u _ _ h1 hv1

theorem history_inv (nst : Nat) (dirs : List DirEnt) (tfs : List TFile) (h : List WCmd) : CacheInv (runHistory (World.init nst dirs tfs) h) := by
  unfold runHistory
  suffices ∀ w : World, CacheInv w → CacheInv (h.foldl step w) from this _ (cacheInv_init nst dirs tfs)
  induction h with
  | nil => intro w hw; exact hw
  | cons c cs ih => intro w hw; exact ih _ (step_inv hw c)

theorem foldl_applyW_nst (fixed : Bool) (u : User) (held : Nat → List Flav) (es : List Eff) (wm : World × Spec) :
    (es.foldl (applyW fixed u held) wm).1.nst = wm.1.nst := by
  induction es generalizing wm with
  | nil => rfl
  | cons e es ih =>
    simp only [List.foldl_cons]
    rw [ih]
    simp only [applyW]
    rw [applySaveW_nst, applyDbW_nst]

/-- the number of stacks on the path never changes -/
theorem step_nst (w : World) (c : WCmd) : (step w c).nst = w.nst := by
  cases c with
  | rmCache u s f => rfl
  | clearCache u => rfl
  | envRmDir d => rfl
  | adminBuild u self => exact (step_adminBuild_db true w u self).2.2.1
  | run u c crash =>
    simp only [step, stepG]
    obtain ⟨_, _, hnst⟩ := load_db w u c.self
    generalize load w u c.self = l at hnst
    obtain ⟨m, fl, w1⟩ := l
    dsimp only at hnst ⊢
    unfold replay
    dsimp only
    split
    · rw [foldl_applyW_nst]; exact hnst
    · rw [applyDbW_nst, foldl_applyW_nst]; exact hnst

theorem history_nst (w : World) (h : List WCmd) : (runHistory w h).nst = w.nst := by
  unfold runHistory
  induction h generalizing w with
  | nil => rfl
  | cons c cs ih => simp only [List.foldl_cons]; rw [ih, step_nst]

/-! ## the database after a command that was not killed is the database of its `Proc` -/

theorem filter_eq_self_of {α : Type} (l : List α) (q : α → Bool) (h : ∀ x ∈ l, q x = true) : l.filter q = l :=
  List.filter_eq_self.mpr h

/-- a `Database` call that finds nothing to write leaves the files as they are, literally -/
theorem applyDb_eq_of_not_writes (e : Eff) (db : Spec) (hdb : NoDangling db) (h : effWrites db e = false)
    (hk : e.isDb = true) : applyDb e db = db := by
  cases e with
  | declare d tag => simp [effWrites] at h
  | undeclare s n v f =>
    simp only [effWrites] at h
    simp only [applyDb, Spec.delDecl]
    have h1 : db.decls.filter (fun x => !(x.hasKey s n v f)) = db.decls := by
      apply filter_eq_self_of
      intro x hx
      cases hxk : x.hasKey s n v f with
      | false => rfl
      | true =>
        exfalso
        have : db.hasDecl s n v f = true := Spec.hasDecl_iff.mpr ⟨x, hx, hxk⟩
        rw [h] at this; cases this
    have h2 : db.tags.filter (fun x => !(x.pointsAt s n v f)) = db.tags := by
      apply filter_eq_self_of
      intro r hr
      cases hp : r.pointsAt s n v f with
      | false => rfl
      | true =>
        exfalso
        have hp' := TagRec.pointsAt_iff.mp hp
        have := hdb r hr
        rw [hp'.1, hp'.2.1, hp'.2.2.1, hp'.2.2.2, h] at this
        cases this
    rw [h1, h2]
  | assign s t n f v => simp only [effWrites] at h; simp [applyDb, Spec.assign, h]
  | unassign s t n f =>
    simp only [effWrites] at h
    simp only [applyDb, Spec.delTag]
    have : db.tags.filter (fun x => !(x.hasKey s t n f)) = db.tags := by
      apply filter_eq_self_of
      intro r hr
      cases hp : r.hasKey s t n f with
      | false => rfl
      | true =>
        exfalso
        have : db.hasTag s t n f = true := Spec.hasTag_iff.mpr ⟨r, hr, hp⟩
        rw [h] at this; cases this
    rw [this]
  | rmTree _ => simp [Eff.isDb] at hk
  | copyExtra _ => simp [Eff.isDb] at hk

theorem applyDbW_db_eq (w : World) (e : Eff) (hdb : NoDangling w.db) : (applyDbW w e).db = applyDb e w.db := by
  unfold applyDbW
  cases e with
  | rmTree d => rfl
  | copyExtra d => rfl
  | declare d tag => simp [effKey, effWrites]
  | undeclare s n v f =>
    simp only [effKey]
    split
    · rfl
    · rename_i hw; exact (applyDb_eq_of_not_writes _ _ hdb (by simpa using hw) rfl).symm
  | assign s t n f v =>
    simp only [effKey]
    split
    · rfl
    · rename_i hw; exact (applyDb_eq_of_not_writes _ _ hdb (by simpa using hw) rfl).symm
  | unassign s t n f =>
    simp only [effKey]
    split
    · rfl
    · rename_i hw; exact (applyDb_eq_of_not_writes _ _ hdb (by simpa using hw) rfl).symm

theorem foldl_applyW_db_eq (fixed : Bool) (u : User) (held : Nat → List Flav) (es : List Eff) (wm : World × Spec)
    (hdb : DbInv wm.1.db) :
    (es.foldl (applyW fixed u held) wm).1.db = es.foldl (fun c e => applyDb e c) wm.1.db := by
  induction es generalizing wm with
  | nil => rfl
  | cons e es ih =>
    simp only [List.foldl_cons]
    have h1 : (applyW fixed u held wm e).1.db = applyDb e wm.1.db := by
      simp only [applyW]
      rw [(applySaveW_db _ _ _ _ _ _).1]
      exact applyDbW_db_eq _ _ hdb.nd
    rw [ih _ (h1 ▸ hdb.apply e), h1]

/-- **The structure of a command that is not killed**: it runs `Db.run` from a view that agrees with the files
on every flavor the stacks of the path hold — the native flavor and its fallback among them — and shows no
declaration that the files do not hold; its outcome is that run's outcome and the files afterwards are that run's
database. -/
theorem step_run_sub {w : World} (h : CacheInv w) (u : User) (c : Cmd) :
    ∃ (m : Spec) (held : Nat → List Flav), ViewInv w.nst held m w.db ∧
      (∀ s, s < w.nst → ∀ f ∈ fallbacks c.self, f ∈ held s) ∧ (∀ d ∈ m.decls, d ∈ w.db.decls) ∧
      (stepG true w (.run u c none)).out = (run w.nst c ⟨w.db, m, w.dirs, [], w.extras, w.tfiles⟩).1 ∧
      (stepG true w (.run u c none)).w.db = (run w.nst c ⟨w.db, m, w.dirs, [], w.extras, w.tfiles⟩).2.db := by
  simp only [stepG]
  obtain ⟨_, hv, hfb, hsub⟩ := load_inv h u c.self
  obtain ⟨hdb, hdirs, _⟩ := load_db w u c.self
  have hex := load_extras w u c.self
  generalize load w u c.self = l at hv hfb hsub hdb hdirs hex
  obtain ⟨m, fl, w1⟩ := l
  dsimp only at hv hfb hsub hdb hdirs hex ⊢
  refine ⟨m, heldOf fl, hv, hfb, hsub, by rw [hdb, hdirs, hex], ?_⟩
  unfold replay
  dsimp only
  rw [foldl_applyW_db_eq true u _ _ (w1, m) (by dsimp only; rw [hdb]; exact h.dbinv)]
  dsimp only
  rw [hdb, hdirs, hex]
  have hb := run_base w.nst c ⟨w.db, m, w.dirs, [], w.extras, w.tfiles⟩
  simp only [Proc.db]
  rw [hb.1]

/-- the in-memory stacks of the process agree with the files on the native flavor of every stack of the path -/
def NativeInv (nst : Nat) (self : Flav) (m db : Spec) : Prop := ∀ s, s < nst → AgreeOn m db s self

theorem step_run {w : World} (h : CacheInv w) (u : User) (c : Cmd) :
    ∃ m : Spec, NativeInv w.nst c.self m w.db ∧
      (stepG true w (.run u c none)).out = (run w.nst c ⟨w.db, m, w.dirs, [], w.extras, w.tfiles⟩).1 ∧
      (stepG true w (.run u c none)).w.db = (run w.nst c ⟨w.db, m, w.dirs, [], w.extras, w.tfiles⟩).2.db := by
  obtain ⟨m, held, hv, hfb, _, h1, h2⟩ := step_run_sub h u c
  exact ⟨m, fun s hs => hv s hs c.self (hfb s hs c.self (by simp [fallbacks])), h1, h2⟩

/-- a command whose `Db.run` leaves the trace empty leaves database, record times and directories alone
(whether it is killed or not) -/
theorem step_of_empty_run (w : World) (u : User) (c : Cmd) (crash : Option Nat)
    (h : ∀ m : Spec, (stepG true w (.run u c crash)).out = (run w.nst c ⟨w.db, m, w.dirs, [], w.extras, w.tfiles⟩).1 →
      (run w.nst c ⟨w.db, m, w.dirs, [], w.extras, w.tfiles⟩).2.tr = []) :
    (stepG true w (.run u c crash)).w.db = w.db ∧ (stepG true w (.run u c crash)).w.dirs = w.dirs ∧
      (stepG true w (.run u c crash)).w.touch = w.touch := by
  revert h
  simp only [stepG]
  obtain ⟨hdb, hdirs, _⟩ := load_db w u c.self
  have ht := load_touch w u c.self
  have hex := load_extras w u c.self
  generalize load w u c.self = l at hdb hdirs ht hex
  obtain ⟨m, fl, w1⟩ := l
  dsimp only at hdb hdirs ht hex ⊢
  intro h
  have htr := h m (by rw [hdb, hdirs, hex])
  rw [hdb, hdirs, hex, htr]
  cases crash with
  | none => exact ⟨hdb, hdirs, ht⟩
  | some k =>
    have : cutAt [] k = ([], none) := cutAt_nil k
    dsimp only
    rw [this]
    exact ⟨hdb, hdirs, ht⟩

/-- the files after a command are its (possibly cut) trace replayed on the files before -/
theorem stepG_db_trace (w : World) (h : DbInv w.db) (c : WCmd) :
    (stepG true w c).w.db = (stepG true w c).trace.foldl (fun c e => applyDb e c) w.db := by
  cases c with
  | rmCache u s f => rfl
  | clearCache u => rfl
  | envRmDir d => rfl
  | adminBuild u self =>
    obtain ⟨h1, _, _, _, _, h6⟩ := step_adminBuild_db true w u self
    rw [h1, h6]; rfl
  | run u c crash =>
    simp only [stepG]
    obtain ⟨hdb, _, _⟩ := load_db w u c.self
    generalize load w u c.self = l at hdb
    obtain ⟨m, fl, w1⟩ := l
    dsimp only at hdb ⊢
    have hrep : ∀ (es : List Eff) (last : Option Eff),
        (replay true u (heldOf fl) (w1, m) es last).db = (es ++ last.toList).foldl (fun c e => applyDb e c) w.db := by
      intro es last
      unfold replay
      have h1 := foldl_applyW_db_eq true u (heldOf fl) es (w1, m) (by dsimp only; rw [hdb]; exact h)
      dsimp only at h1
      cases last with
      | none => simp only [Option.toList_none, List.append_nil]; rw [h1, hdb]
      | some e =>
        dsimp only
        rw [applyDbW_db_eq _ _ (by rw [h1, hdb]; exact (DbInv.foldl h es).nd), h1, hdb]
        simp [List.foldl_append]
    exact hrep _ _

end EupsModel.Cache
