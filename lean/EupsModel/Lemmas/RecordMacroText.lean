import EupsModel.Lemmas.RecordMacro
import EupsModel.Lemmas.RecordEndToEnd
/-! Hand-written macro records through the actual text of the version file (C16): the record a person writes is
printed / parsed by the text layer and resolved by the path layer. -/
set_option linter.unusedSimpArgs false
set_option linter.unusedVariables false
namespace EupsModel.Record

/-- the version record with one block whose three path entries are the given macro expressions -/
def macroRec (name version flavor who now : Str) (md : MDir) (mu : MUps) (mt : MTab) : VRec :=
  { name := some name, version := some version,
    flavors := [(flavor, { declarer := .val who, declared := .val now, productDir := fldOfP (some md.toRec),
                           tableFile := fldOfP (some mt.toRec), upsDir := fldOfP (some mu.toRec) })] }

/-- everything written into the record is clean text (the counterpart of `TextOK` for hand-written entries):
name, version, flavor and stamps clean, the version not a `LOCAL:` one, every path segment clean and free of `/`,
a relative entry not literally `none` / `???` / `(none)`, and a `UPS_DIR` line present -/
structure MacroTextOK (name version flavor who now : Str) (md : MDir) (mu : MUps) (mt : MTab) : Prop where
  nameC : Clean name
  versionC : Clean version
  notLocal : sLOCAL.isPrefixOf version = false
  flavorC : CleanKey flavor
  whoC : Clean who
  nowC : Clean now
  dirG : GoodPV md.toRec
  upsG : GoodPV mu.toRec
  tabG : GoodPV mt.toRec

theorem macro_via_text (ex : Path → Bool) (R : List Str) (name version f who now : Str) (md : MDir) (mu : MUps)
    (mt : MTab) (hR : SegsOK R) (hf : SegOK f) (hwf : MacroWF md mu mt)
    (ht : MacroTextOK name version f who now md mu mt) :
    ∃ text,
      printVersion (macroRec name version f who now md mu mt) = .ok (some text) ∧
      parseVersion (some name) (some version) text = .ok (macroRec name version f who now md mu mt) ∧
      (makeProduct ex (macroRec name version f who now md mu mt) f (absP (R ++ [sUpsDb]))).map
          (fun p => (p.dir, p.table))
        = .ok (md.denote R f, mt.denote ex R f (md.denote R f) (mu.denote R f (md.denote R f))) := by
  obtain ⟨⟨s1, hs1, hc1⟩, hr1⟩ := goodPV_fld _ ht.dirG
  obtain ⟨⟨s2, hs2, hc2⟩, hr2⟩ := goodPV_fld _ ht.tabG
  obtain ⟨⟨s3, hs3, hc3⟩, hr3⟩ := goodPV_fld _ ht.upsG
  have hgood : GoodVRec (macroRec name version f who now md mu mt) := by
    refine ⟨⟨name, rfl, ht.nameC⟩, ⟨version, rfl, ht.versionC⟩, by simp [macroRec], by simp [macroRec], ?_⟩
    intro x hx
    simp [macroRec] at hx; subst hx
    refine ⟨ht.flavorC, ⟨⟨?_, ?_, ?_, ?_, ?_, ?_, ?_⟩, by simp [hs1], by simp [hs2], Or.inl (by simp [hs3])⟩⟩
    · exact Or.inr ⟨who, rfl, ht.whoC⟩
    · exact Or.inr ⟨now, rfl, ht.nowC⟩
    · exact Or.inl rfl
    · exact Or.inl rfl
    · exact Or.inr ⟨s1, hs1, hc1⟩
    · exact Or.inr ⟨s3, hs3, hc3⟩
    · exact Or.inr ⟨s2, hs2, hc2⟩
  obtain ⟨text, hprint, hparse⟩ := text_roundtrip_version _ hgood (some name) (some version) (Or.inr rfl) (Or.inr rfl)
  refine ⟨text, hprint, hparse, ?_⟩
  have h2 := resolve_macro_spec ex R name version f md mu mt hR hf hwf
  simp only [makeProduct, macroRec, dget, if_true, strOf, ht.notLocal, Bool.false_eq_true, if_false, Info.paths,
    hr1, hr2, hr3]
  exact h2

end EupsModel.Record
