import EupsModel.Lemmas.Remove
import EupsModel.Lemmas.DepsTopo
import EupsModel.Lemmas.DepsGuard
/-! Termination of the model of `Eups._remove` (with its visited set) on databases without unsetup lines. -/
namespace EupsModel.Remove
open EupsModel EupsModel.Deps

/-- a non-recursive `Table.dependencies` over a table without unsetup lines makes no nested call -/
theorem depsLoop_nonrec_some (db : Db) (req : Required)
    (recur : Prod → Nat → St → Option (List Entry × St)) (fresh : Prod → Option (List Str))
    (top : Prod) (depth : Nat) (hm : ∀ p, db.tableMissing p = false) :
    ∀ ds acc st, (∀ d ∈ ds, d.unsetup = false) →
      ∃ r, depsLoop db req recur fresh top false depth ds acc st = some r := by
  intro ds
  induction ds with
  | nil => intro acc st _; exact ⟨_, rfl⟩
  | cons d ds ih =>
    intro acc st hu
    rw [depsLoop_cons_setup _ _ _ _ _ _ _ _ _ _ _ (hu d (by simp)) hm]
    have hu' : ∀ d ∈ ds, d.unsetup = false := fun x hx => hu x (by simp [hx])
    cases hr : resolve db req d with
    | none => exact ih _ _ hu'
    | some p => simp only [Bool.false_and, Bool.false_eq_true, if_false]; exact ih _ _ hu'

theorem directDeps_some (db : Db) (hns : NoUnsetup db) (p : Prod) (expand : Bool) :
    ∃ deps, directDeps db p expand = .ok deps := by
  unfold directDeps
  split
  · simp only [tableMissing_false hns p, Bool.false_eq_true, if_false]
    have hpos : 0 < db.fuel := by unfold Db.fuel; exact Nat.mul_pos (by omega) (by omega)
    obtain ⟨k, hk⟩ : ∃ k, db.fuel = k + 1 := ⟨db.fuel - 1, by omega⟩
    rw [hk]
    unfold depsOf depsOfG
    obtain ⟨r, hr⟩ := depsLoop_nonrec_some db [] _ _ p 0 (tableMissing_false hns) (db.table p) [] _ (table_noUnsetup hns p)
    rw [hr]; exact ⟨_, rfl⟩
  · exact ⟨_, rfl⟩

/-- listing the direct dependencies never runs out of fuel, whatever the tables say (tree with the D32 repair) -/
theorem directDeps_not_fuel (db : Db) (p : Prod) (expand : Bool) : directDeps db p expand ≠ .error .outOfFuel := by
  unfold directDeps
  split
  · split
    · simp
    · obtain ⟨o, st, h⟩ := depsOf_total db [] p false 0
      rw [h]; simp
  · simp

/-- the loop does not run out of fuel if the nested calls do not, and the visited set only grows -/
theorem collectLoop_fuel (db : Db) (sb : Option SetupBy) (force : Bool) (top : Str × Str) (recursive : Bool)
    (recur : Prod → Seen → Except Err (List Prod × Seen)) (k : Nat)
    (hrec : ∀ q sn, unopened db sn ≤ k → recur q sn ≠ .error .outOfFuel ∧
        ∀ l sn', recur q sn = .ok (l, sn') → ∀ x ∈ sn, x ∈ sn') :
    ∀ qs acc seen, unopened db seen ≤ k →
      collectLoop sb force top recursive recur qs acc seen ≠ .error .outOfFuel ∧
      ∀ l seen', collectLoop sb force top recursive recur qs acc seen = .ok (l, seen') → ∀ x ∈ seen, x ∈ seen' := by
  intro qs
  induction qs with
  | nil =>
    intro acc seen _
    refine ⟨by simp [collectLoop], ?_⟩
    intro l seen' h
    simp only [collectLoop, Except.ok.injEq, Prod.mk.injEq] at h
    rw [← h.2]; exact fun _ hx => hx
  | cons q qs ih =>
    intro acc seen hk
    rw [collectLoop_cons]
    split
    · exact ⟨by simp, by intro l seen' h; simp at h⟩
    · split
      · obtain ⟨h1, h2⟩ := hrec q seen hk
        cases hq : recur q seen with
        | error e =>
          refine ⟨?_, by intro l seen' h; simp at h⟩
          simp only
          intro h; injection h with h; subst h; exact h1 hq
        | ok r =>
          obtain ⟨sub, sn⟩ := r
          simp only
          have hsub := h2 sub sn hq
          have hk' : unopened db sn ≤ k := Nat.le_trans (unopened_mono db hsub) hk
          obtain ⟨i1, i2⟩ := ih (acc ++ sub ++ [q]) sn hk'
          exact ⟨i1, fun l seen' h x hx => i2 l seen' h x (hsub x hx)⟩
      · exact ih _ _ hk

/-- **`_remove` ends** on every database (unsetup lines, dependency cycles, missing table files): with fuel beyond the
number of products still unopened (+2) the collection does not run out of fuel. -/
theorem collect_fuel (db : Db) (sb : Option SetupBy) (force : Bool) (dn : Option Str)
    (top : Str × Str) :
    ∀ f name ver recursive seen, unopened db seen + 2 ≤ f →
      collect db sb force dn top f name ver recursive seen ≠ .error .outOfFuel ∧
      ∀ l seen', collect db sb force dn top f name ver recursive seen = .ok (l, seen') → ∀ x ∈ seen, x ∈ seen' := by
  intro f
  induction f with
  | zero => intro name ver recursive seen h; omega
  | succ k ih =>
    intro name ver recursive seen hf
    unfold collect
    split
    · refine ⟨by simp, ?_⟩
      intro l seen' h
      simp only [Except.ok.injEq, Prod.mk.injEq] at h
      rw [← h.2]; exact fun _ hx => hx
    · split
      · exact ⟨by simp, by intro l seen' h; simp at h⟩
      · rename_i p hp
        simp only
        cases hdeps : directDeps db p (recursive && !seen.contains (prodkey p)) with
        | error e =>
          simp only
          refine ⟨?_, by intro l seen' h; simp at h⟩
          intro h; injection h with h; subst h; exact directDeps_not_fuel _ _ _ hdeps
        | ok deps =>
        simp only
        by_cases hex : (recursive && !seen.contains (prodkey p)) = true
        · -- the product is opened now: strictly fewer remain for the nested calls
          simp only [hex, if_true]
          have hnot : prodkey p ∉ seen := by
            simp only [Bool.and_eq_true, Bool.not_eq_true', List.contains_eq_mem, decide_eq_false_iff_not] at hex
            exact hex.2
          have hlt : unopened db (prodkey p :: seen) < unopened db seen :=
            unopened_cons_lt db (find_key_mem hp) hnot
          have := collectLoop_fuel db sb force top recursive
            (fun q sn => collect db sb force dn top k q.name q.ver (q.name != name) sn) (unopened db (prodkey p :: seen))
            (fun q sn hsn => ih _ _ _ sn (by omega)) deps [] (prodkey p :: seen) (Nat.le_refl _)
          exact ⟨this.1, fun l seen' h x hx => this.2 l seen' h x (by simp [hx])⟩
        · -- not opened (not recursive, or seen before): the nested calls are not recursive
          have hex' : (recursive && !seen.contains (prodkey p)) = false := by simpa using hex
          simp only [hex', Bool.false_eq_true, if_false]
          have hd : deps = [p] := by
            rw [hex'] at hdeps; simp [directDeps] at hdeps; exact hdeps.symm
          subst hd
          rw [collectLoop_cons]
          split
          · exact ⟨by simp, by intro l seen' h; simp at h⟩
          · split
            · -- recursive, p seen before: one nested call on p itself, not recursive
              have hnr : (p.name != name) = false := by
                have := find_name hp; simp [this]
              simp only [hnr]
              cases k with
              | zero => omega
              | succ k' =>
                -- a non-recursive call returns at once
                have hone : ∀ (sn : Seen), collect db sb force dn top (k' + 1) p.name p.ver false sn ≠ .error .outOfFuel ∧
                    ∀ l sn', collect db sb force dn top (k' + 1) p.name p.ver false sn = .ok (l, sn') → sn' = sn := by
                  intro sn
                  unfold collect
                  split
                  · exact ⟨by simp, by intro l sn' h; simp at h; exact h.2.symm⟩
                  · split
                    · exact ⟨by simp, by intro l sn' h; simp at h⟩
                    · rename_i p' _
                      simp only [Bool.false_and, directDeps, Bool.false_eq_true, if_false]
                      rw [collectLoop_cons]
                      split
                      · exact ⟨by simp, by intro l sn' h; simp at h⟩
                      · simp only [Bool.false_eq_true, if_false, collectLoop]
                        exact ⟨by simp, by intro l sn' h; simp at h; exact h.2.symm⟩
                obtain ⟨h1, h2⟩ := hone seen
                cases hq : collect db sb force dn top (k' + 1) p.name p.ver false seen with
                | error e =>
                  refine ⟨?_, by intro l seen' h; simp at h⟩
                  simp only
                  intro h; injection h with h; subst h; exact h1 hq
                | ok r =>
                  obtain ⟨sub, sn⟩ := r
                  have := h2 sub sn hq
                  subst this
                  simp only [collectLoop]
                  exact ⟨by simp, by intro l seen' h; simp at h; rw [← h.2]; exact fun _ hx => hx⟩
            · simp only [collectLoop]
              exact ⟨by simp, by intro l seen' h; simp at h; rw [← h.2]; exact fun _ hx => hx⟩

/-- on plain tables `_remove` fails only by refusing, by not finding a product, or by running out of fuel -/
theorem collect_error_kinds (db : Db) (hns : NoUnsetup db) (sb : Option SetupBy) (force : Bool) (dn : Option Str)
    (top : Str × Str) :
    ∀ f name ver recursive seen e, collect db sb force dn top f name ver recursive seen = .error e →
      e = .refused ∨ e = .notFound ∨ e = .outOfFuel := by
  intro f
  induction f with
  | zero => intro name ver recursive seen e h; simp [collect] at h; exact Or.inr (Or.inr h.symm)
  | succ k ih =>
    intro name ver recursive seen e h
    unfold collect at h
    split at h
    · simp at h
    · split at h
      · simp at h; exact Or.inr (Or.inl h.symm)
      · rename_i p hp
        simp only at h
        obtain ⟨deps, hdeps⟩ := directDeps_some db hns p (recursive && !seen.contains (prodkey p))
        rw [hdeps] at h
        simp only at h
        have loop : ∀ qs acc sn e', collectLoop sb force top recursive
            (fun q sn' => collect db sb force dn top k q.name q.ver (q.name != name) sn') qs acc sn = .error e' →
            e' = .refused ∨ e' = .notFound ∨ e' = .outOfFuel := by
          intro qs
          induction qs with
          | nil => intro acc sn e' h'; simp [collectLoop] at h'
          | cons q qs ihq =>
            intro acc sn e' h'
            rw [collectLoop_cons] at h'
            split at h'
            · simp at h'; exact Or.inl h'.symm
            · split at h'
              · cases hq : collect db sb force dn top k q.name q.ver (q.name != name) sn with
                | error e'' =>
                  simp only [hq] at h'
                  injection h' with h'
                  subst h'
                  exact ih _ _ _ _ _ hq
                | ok r => obtain ⟨sub, sn2⟩ := r; simp only [hq] at h'; exact ihq _ _ _ h'
              · exact ihq _ _ _ h'
        exact loop _ _ _ _ h

theorem removeFuel_enough (s : State) : unopened s.db ([] : Seen) + 2 ≤ s.removeFuel := by
  have := unopened_le s.db ([] : Seen)
  unfold State.removeFuel
  have hd : s.db.decls = s.decls := rfl
  rw [hd] at this
  omega

end EupsModel.Remove
