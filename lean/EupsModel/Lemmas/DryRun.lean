import EupsModel.Lemmas.Cache
/-! Dry runs against real runs (C15): what the command run with `noaction` *reports* (`Db.wouldDo`, the messages
the harness compares with the captured output of `Eups(noaction=True)`) against what the same command run for real
*does* (the trace of effects of `Db.run`).  `Eff.msg` reads an effect as the message that announces it; the
removal of the old occurrences of a tag inside `declare` has no message of its own ("Assigning tag" stands for
the move).  Main results: `run_report` (the report of the real run's effects is a prefix of what the dry run
says, the whole of it when the real run ends well), `run_dry_outcome` (a dry run that does not end well ends
exactly as the real run). -/
namespace EupsModel.Db

/-- the same command with the dry-run flag set to `b` (`assignTag` and queries have none) -/
def Cmd.withNoaction (b : Bool) : Cmd → Cmd
  | .declare a => .declare { a with noaction := b }
  | .undeclare a => .undeclare { a with noaction := b }
  | .unassignTag f t n v st _ => .unassignTag f t n v st b
  | .remove f n v rc _ fo su => .remove f n v rc b fo su
  | .assignTag f t n v st => .assignTag f t n v st
  | .query f => .query f

/-- the commands the property speaks of: declare, undeclare, tag removal, remove -/
def Cmd.dryable : Cmd → Bool
  | .declare _ => true
  | .undeclare _ => true
  | .unassignTag .. => true
  | .remove .. => true
  | _ => false

def Cmd.isDeclare : Cmd → Bool
  | .declare _ => true
  | _ => false

/-- the message that announces an effect; `inDeclare`: the effect belongs to a `declare`, whose purge of the old
occurrences of the tag is not announced separately -/
def Eff.msg (inDeclare : Bool) : Eff → List Msg
  | .declare d tag => [.declaring d.stack tag]
  | .assign _ t _ _ _ => [.assigning t]
  | .unassign _ t _ _ => if inDeclare then [] else [.untag t]
  | .undeclare s _ v _ => [.removing v s]
  | .rmTree d => [.rmrf d]
  | .copyExtra x => [.copy x.path]

/-- the effects of a command, as announcements -/
def msgs (inDeclare : Bool) (es : List Eff) : List Msg := es.flatMap (Eff.msg inDeclare)

@[simp] theorem msgs_nil (d : Bool) : msgs d [] = [] := rfl
@[simp] theorem msgs_append (d : Bool) (a b : List Eff) : msgs d (a ++ b) = msgs d a ++ msgs d b := by
  simp [msgs]
@[simp] theorem msgs_singleton (d : Bool) (e : Eff) : msgs d [e] = Eff.msg d e := by simp [msgs]

theorem Cmd.withNoaction_self (b : Bool) (c : Cmd) : (c.withNoaction b).self = c.self := by cases c <;> rfl

theorem Cmd.withNoaction_noaction (c : Cmd) (h : c.dryable = true) : (c.withNoaction true).noaction = true := by
  cases c <;> first | rfl | simp [Cmd.dryable] at h

/-! ## `q` continues `p` by effects that read as `ms` -/

def Ext (d : Bool) (p q : Proc) (ms : List Msg) : Prop := ∃ es, q.tr = p.tr ++ es ∧ msgs d es = ms

theorem Ext.refl (d : Bool) (p : Proc) : Ext d p p [] := ⟨[], by simp, rfl⟩

theorem Ext.trans {d : Bool} {p q r : Proc} {a b : List Msg} (h : Ext d p q a) (k : Ext d q r b) :
    Ext d p r (a ++ b) := by
  obtain ⟨es, he, hm⟩ := h
  obtain ⟨fs, hf, hn⟩ := k
  exact ⟨es ++ fs, by rw [hf, he, List.append_assoc], by rw [msgs_append, hm, hn]⟩

theorem Ext.emit (d : Bool) (p : Proc) (e : Eff) : Ext d p (p.emit e) (Eff.msg d e) :=
  ⟨[e], rfl, msgs_singleton d e⟩

theorem Ext.cast {d : Bool} {p q : Proc} {a b : List Msg} (h : Ext d p q a) (e : a = b) : Ext d p q b := e ▸ h

/-! ## tags -/

theorem doUnassign_ext (d : Bool) (f : Flav) (t : Tag) (n : Name) (s : Nat) (p : Proc) :
    Ext d p (doUnassign f t n s false p).2 (if d then [] else [.untag t]) := by
  simp only [doUnassign, Bool.false_eq_true, if_false]
  exact (Ext.emit d p _).cast (by cases d <;> rfl)

theorem unassignTag_ext (nst : Nat) (f : Flav) (t : Tag) (n : Name) (v : Option Ver) (st : Option Nat) (p : Proc) :
    Ext false p (unassignTag nst f t n v st false p).2 (if saysUntag nst f t n v st p.mem then [.untag t] else []) := by
  have hd : ∀ s, Ext false p (doUnassign f t n s false p).2 [.untag t] := fun s =>
    (doUnassign_ext false f t n s p).cast (by simp)
  cases v with
  | some v =>
    simp only [unassignTag, saysUntag]
    rcases Option.eq_none_or_eq_some (p.mem.findIn (stacksOf nst st) n v f) with h | ⟨prod, h⟩
    · simp only [h]; exact Ext.refl _ _
    · simp only [h]
      by_cases hc : (p.mem.tagsOf prod).contains t = true
      · simp only [hc, if_true]; exact hd _
      · simp only [hc, Bool.false_eq_true, if_false]; exact Ext.refl _ _
  | none =>
    cases st with
    | some s => simp only [unassignTag, saysUntag, if_true]; exact hd _
    | none =>
      simp only [unassignTag, saysUntag]
      rcases Option.eq_none_or_eq_some (p.mem.findTagged (allStacks nst) n t f) with h | ⟨prod, h⟩
      · simp only [h, Option.isSome_none, Bool.false_eq_true, if_false]
        split <;> exact Ext.refl _ _
      · simp only [h, Option.isSome_some, if_true]; exact hd _

/-- the outcome of `unassignTag` does not depend on the dry-run flag -/
theorem unassignTag_fst (nst : Nat) (f : Flav) (t : Tag) (n : Name) (v : Option Ver) (st : Option Nat) (b : Bool)
    (p : Proc) : (unassignTag nst f t n v st b p).1 = (unassignTag nst f t n v st true p).1 := by
  unfold unassignTag doUnassign
  cases b
  · repeat' split
    all_goals rfl
  · rfl

theorem purge_ext (f : Flav) (t : Tag) (n : Name) (ds : List Decl) (p : Proc) : Ext true p (purge f t n ds p) [] := by
  induction ds generalizing p with
  | nil => exact Ext.refl _ _
  | cons x ds ih =>
    simp only [purge]
    exact ((doUnassign_ext true f t n x.stack p).trans (ih _)).cast rfl

theorem purgeAll_ext (nst : Nat) (f : Flav) (t : Tag) (n : Name) (ss : List Nat) (p : Proc) :
    Ext true p (purgeAll nst f t n ss p) [] := by
  induction ss generalizing p with
  | nil => exact Ext.refl _ _
  | cons s ss ih =>
    simp only [purgeAll]
    exact ((purge_ext f t n _ p).trans (ih _)).cast rfl

theorem assignTag_ext (d : Bool) (f : Flav) (t : Tag) (n : Name) (v : Ver) (stacks : List Nat) (p : Proc) :
    Ext d p (assignTag f t n v stacks p).2 (if (assignTag f t n v stacks p).1 = .ok then [.assigning t] else []) := by
  unfold assignTag
  split
  · simp only [reduceCtorEq, if_false]; exact Ext.refl _ _
  · split
    · simp only [reduceCtorEq, if_false]; exact Ext.refl _ _
    · simp only [if_true]; exact Ext.emit d p _

/-! ## declare -/

theorem saveExtras_ext (d : Bool) (a : DeclareArgs) (target : Nat) (l : List (Str × Nat)) (p : Proc) :
    Ext d p (saveExtras a target l p) (l.map fun e => Msg.copy e.1) := by
  induction l generalizing p with
  | nil => exact Ext.refl _ _
  | cons e es ih =>
    simp only [saveExtras, List.map_cons]
    exact ((Ext.emit d p _).trans (ih _)).cast rfl

/-- what the dry run of `declare` announces once the redeclaration check has passed -/
def declareSays (r : Resolved) (tag : Option Tag) (rd : Redeclare) : List Msg :=
  (if rd == .write then [.declaring r.target tag] else []) ++
    (match tag with | some t => [.assigning t] | none => []) ++ r.saveList.map (fun e => Msg.copy e.1)

theorem declareFinish_report (nst : Nat) (a : DeclareArgs) (h : a.noaction = false) (r : Resolved) (tag : Option Tag)
    (rd : Redeclare) (p : Proc) :
    ∃ ms rest, Ext true p (declareFinish nst a r tag rd p).2 ms ∧ declareSays r tag rd = ms ++ rest ∧
      ((declareFinish nst a r tag rd p).1 = .ok → rest = []) := by
  unfold declareFinish declareCore declareSays
  simp only [h, Bool.not_false, Bool.and_true, Bool.false_eq_true, if_false]
  -- the version record
  have h1 : Ext true p (if rd == .write then p.emit (.declare ⟨r.target, a.name, a.ver, a.self, r.d, r.table⟩ tag) else p)
      (if rd == .write then [.declaring r.target tag] else []) := by
    split
    · exact Ext.emit true p _
    · exact Ext.refl _ _
  generalize (if rd == .write then p.emit (.declare ⟨r.target, a.name, a.ver, a.self, r.d, r.table⟩ tag) else p) = p1 at h1
  cases tag with
  | none =>
    dsimp only
    refine ⟨_, [], h1.trans (saveExtras_ext true a r.target r.saveList p1), by simp, fun _ => rfl⟩
  | some t =>
    dsimp only
    have h2 := purgeAll_ext nst a.self t a.name (allStacks nst) p1
    generalize purgeAll nst a.self t a.name (allStacks nst) p1 = p2 at h2
    have h3 := assignTag_ext true a.self t a.name a.ver [r.target] p2
    rcases ho : assignTag a.self t a.name a.ver [r.target] p2 with ⟨o, p3⟩
    rw [ho] at h3
    dsimp only at h3
    cases o with
    | ok =>
      dsimp only
      simp only [if_true] at h3
      refine ⟨_, [], (h1.trans (h2.trans h3)).trans (saveExtras_ext true a r.target r.saveList p3), by simp, fun _ => rfl⟩
    | refused =>
      simp only [reduceCtorEq, if_false] at h3
      exact ⟨_, _, h1.trans (h2.trans h3), by simp; rfl, fun k => by simp at k⟩
    | notFound =>
      simp only [reduceCtorEq, if_false] at h3
      exact ⟨_, _, h1.trans (h2.trans h3), by simp; rfl, fun k => by simp at k⟩
    | failed =>
      simp only [reduceCtorEq, if_false] at h3
      exact ⟨_, _, h1.trans (h2.trans h3), by simp; rfl, fun k => by simp at k⟩
    | tableMissing =>
      simp only [reduceCtorEq, if_false] at h3
      exact ⟨_, _, h1.trans (h2.trans h3), by simp; rfl, fun k => by simp at k⟩


theorem declare_report (nst : Nat) (a : DeclareArgs) (p : Proc) :
    ∃ ms rest, Ext true p (declare nst { a with noaction := false } p).2 ms ∧
      wouldDo nst (.declare a) p = ms ++ rest ∧ ((declare nst { a with noaction := false } p).1 = .ok → rest = []) := by
  have hr : resolveDeclare nst { a with noaction := false } p = resolveDeclare nst a p := rfl
  unfold declare
  simp only [wouldDo, hr]
  rcases Option.eq_none_or_eq_some (resolveDeclare nst a p) with h | ⟨r, h⟩
  · simp only [h]; exact ⟨[], [], Ext.refl _ _, rfl, fun _ => rfl⟩
  · simp only [h]
    have hs := declareFinish_report nst { a with noaction := false } rfl r (declareTag nst a p.mem)
    generalize hrd : redeclare (p.mem.findDecl r.target a.name a.ver a.self)
      ((p.mem.findDecl r.target a.name a.ver a.self).bind p.tableContent) r.d r.content (declareTag nst a p.mem).isSome
      a.force (extDiff p a r.target r.diffList) = rd
    have e1 : declareTag nst { a with noaction := false } p.mem = declareTag nst a p.mem := rfl
    have e2 : extDiff p { a with noaction := false } r.target r.diffList = extDiff p a r.target r.diffList := rfl
    simp only [e1, e2, hrd]
    cases rd with
    | refuse => exact ⟨[], [], Ext.refl _ _, rfl, fun _ => rfl⟩
    | write => exact hs .write p
    | keep => exact hs .keep p

/-! ## undeclare -/

theorem removeVersion_ext (a : UndeclareArgs) (h : a.noaction = false) (v : Ver) (s : Nat) (p : Proc) :
    Ext false p (removeVersion a v s p).2 (if (removeVersion a v s p).1 = .ok then [.removing v s] else []) := by
  unfold removeVersion
  simp only [h, Bool.false_eq_true, if_false]
  split
  · simp only [reduceCtorEq, if_false]; exact Ext.refl _ _
  · simp only [if_true]; exact Ext.emit false p _

theorem inferVersion_error_ne_ok {nst : Nat} {a : UndeclareArgs} {ver : Option Ver} {m : Spec} {o : Outcome}
    (h : inferVersion nst a ver m = .error o) : o ≠ .ok := by
  unfold inferVersion at h
  split at h
  · cases h
  · split at h
    · cases h; simp
    · cases h
    · cases h; simp

theorem untagFirst_ext (nst : Nat) (a : UndeclareArgs) (h : a.noaction = false) (v : Ver) (s : Nat) (p : Proc) :
    Ext false p (untagFirst nst a v s p)
      (match a.tag with
       | some t => if saysUntag nst a.self t a.name (some v) (some s) p.mem then [.untag t] else []
       | none => []) := by
  unfold untagFirst
  cases a.tag with
  | none => exact Ext.refl _ _
  | some t => dsimp only; rw [h]; exact unassignTag_ext nst a.self t a.name (some v) (some s) p

theorem undeclareVersion_report (nst : Nat) (a : UndeclareArgs) (h : a.noaction = false) (ver : Option Ver) (p : Proc) :
    ∃ ms rest, Ext false p (undeclareVersion nst a ver p).2 ms ∧ (sayUndeclareVersion nst a ver p.mem).1 = ms ++ rest ∧
      ((undeclareVersion nst a ver p).1 = .ok → rest = [] ∧ (sayUndeclareVersion nst a ver p.mem).2.isSome = true) := by
  unfold undeclareVersion sayUndeclareVersion
  cases hi : inferVersion nst a ver p.mem with
  | error o =>
    exact ⟨[], [], Ext.refl _ _, rfl, fun k => absurd k (inferVersion_error_ne_ok hi)⟩
  | ok v =>
    dsimp only
    rcases Option.eq_none_or_eq_some (p.mem.findIn (stacksOf nst a.stack) a.name v a.self) with hf | ⟨prod, hf⟩
    · simp only [hf]; exact ⟨[], [], Ext.refl _ _, rfl, fun k => by simp at k⟩
    · simp only [hf]
      by_cases hs : (isSetup a p.mem prod.stack v && !a.force) = true
      · simp only [hs, if_true]; exact ⟨[], [], Ext.refl _ _, rfl, fun k => by simp at k⟩
      · simp only [hs, Bool.false_eq_true, if_false]
        have h1 := untagFirst_ext nst a h v prod.stack p
        have h2 := removeVersion_ext a h v prod.stack (untagFirst nst a v prod.stack p)
        by_cases ho : (removeVersion a v prod.stack (untagFirst nst a v prod.stack p)).1 = .ok
        · simp only [ho, if_true] at h2
          refine ⟨_, [], h1.trans h2, ?_, fun _ => ⟨rfl, rfl⟩⟩
          cases a.tag <;> simp
        · simp only [ho, if_false] at h2
          refine ⟨_, [.removing v prod.stack], (h1.trans h2).cast (List.append_nil _), ?_, fun k => absurd k ho⟩
          cases a.tag <;> rfl


/-- what `wouldDo` says of an `undeclare` -/
theorem undeclare_report (nst : Nat) (a : UndeclareArgs) (p : Proc) :
    ∃ ms rest, Ext false p (undeclare nst { a with noaction := false } p).2 ms ∧
      wouldDo nst (.undeclare a) p = ms ++ rest ∧ ((undeclare nst { a with noaction := false } p).1 = .ok → rest = []) := by
  obtain ⟨self, name, ver0, stack, tag, vat, na, force, setup⟩ := a
  have key : ∀ tag ver, ∃ ms rest,
      Ext false p (undeclareVersion nst ⟨self, name, ver0, stack, tag, vat, false, force, setup⟩ ver p).2 ms ∧
      (sayUndeclareVersion nst ⟨self, name, ver0, stack, tag, vat, na, force, setup⟩ ver p.mem).1 = ms ++ rest ∧
      ((undeclareVersion nst ⟨self, name, ver0, stack, tag, vat, false, force, setup⟩ ver p).1 = .ok → rest = []) :=
    fun tag ver => by
    obtain ⟨ms, rest, h1, h2, h3⟩ :=
      undeclareVersion_report nst ⟨self, name, ver0, stack, tag, vat, false, force, setup⟩ rfl ver p
    exact ⟨ms, rest, h1, h2, fun k => (h3 k).1⟩
  unfold undeclare
  simp only [wouldDo]
  cases tag with
  | none => simp only []; exact key _ _
  | some t =>
    simp only []
    cases vat with
    | true => simp only [if_true]; exact key _ _
    | false =>
      simp only [Bool.false_eq_true, if_false]
      exact ⟨_, [], unassignTag_ext nst self t name ver0 stack p, by simp, fun _ => rfl⟩

/-! ## remove -/

theorem remove_report (nst : Nat) (f : Flav) (n : Name) (v : Ver) (rc na fo : Bool) (su : Option (Ver × Flav × Nat))
    (p : Proc) :
    ∃ ms rest, Ext false p (remove nst f n v rc false fo su p).2 ms ∧
      wouldDo nst (.remove f n v rc na fo su) p = ms ++ rest ∧ ((remove nst f n v rc false fo su p).1 = .ok → rest = []) := by
  unfold remove
  simp only [wouldDo]
  rcases Option.eq_none_or_eq_some (p.mem.findIn (allStacks nst) n v f) with hf | ⟨prod, hf⟩
  · simp only [hf]; exact ⟨[], [], Ext.refl _ _, rfl, fun _ => rfl⟩
  · simp only [hf]
    by_cases hm : (rc && prod.table != .none && (p.tableContent prod).isNone) = true
    · simp only [hm, if_true]; exact ⟨[], [], Ext.refl _ _, rfl, fun _ => rfl⟩
    · simp only [hm, Bool.false_eq_true, if_false]
      obtain ⟨ms, rest, h1, h2, h3⟩ :=
        undeclareVersion_report nst ⟨f, n, some v, none, none, false, false, fo, su⟩ rfl (some v) p
      have hu : undeclare nst ⟨f, n, some v, none, none, false, false, fo, su⟩ p =
          undeclareVersion nst ⟨f, n, some v, none, none, false, false, fo, su⟩ (some v) p := rfl
      have hsay : sayUndeclareVersion nst ⟨f, n, some v, none, none, false, true, fo, su⟩ (some v) p.mem =
          sayUndeclareVersion nst ⟨f, n, some v, none, none, false, false, fo, su⟩ (some v) p.mem := rfl
      rw [hu, hsay]
      generalize undeclareVersion nst ⟨f, n, some v, none, none, false, false, fo, su⟩ (some v) p = r at h1 h3
      generalize sayUndeclareVersion nst ⟨f, n, some v, none, none, false, false, fo, su⟩ (some v) p.mem = sy at h2 h3
      obtain ⟨o, p1⟩ := r
      obtain ⟨sm, sd⟩ := sy
      dsimp only at h1 h2 h3 ⊢
      subst h2
      cases o with
      | ok =>
        obtain ⟨hr, hsd⟩ := h3 rfl
        subst hr
        cases sd with
        | none => simp at hsd
        | some d =>
          dsimp only
          by_cases hd : p.dirExists prod.dir = true
          · simp only [hd, if_true]
            exact ⟨_, [], h1.trans (Ext.emit false p1 _), by simp [Eff.msg], fun _ => rfl⟩
          · simp only [hd, Bool.false_eq_true, if_false]
            exact ⟨_, [.rmrf prod.dir], h1, by simp, fun k => by simp at k⟩
      | refused => cases sd <;> exact ⟨_, _, h1, by simp; rfl, fun k => by simp at k⟩
      | notFound => cases sd <;> exact ⟨_, _, h1, by simp; rfl, fun k => by simp at k⟩
      | failed => cases sd <;> exact ⟨_, _, h1, by simp; rfl, fun k => by simp at k⟩
      | tableMissing => cases sd <;> exact ⟨_, _, h1, by simp; rfl, fun k => by simp at k⟩

/-! ## every command -/

/-- **What a dry run reports is what the real run does.**  For each of declare, undeclare, tag removal and remove,
from any state: the effects the command performs when run for real, read as announcements, are a prefix of what
the dry run reports — and the whole of it whenever the real run ends well (the rest is what a real run that fails
half way — `Database` finds nothing to undeclare, the directory is gone — no longer gets to). -/
theorem run_report (nst : Nat) (c : Cmd) (hc : c.dryable = true) (p : Proc) :
    ∃ es rest, (run nst (c.withNoaction false) p).2.tr = p.tr ++ es ∧
      wouldDo nst c p = msgs c.isDeclare es ++ rest ∧ ((run nst (c.withNoaction false) p).1 = .ok → rest = []) := by
  have conv : ∀ {d q ms rest}, Ext d p q ms → wouldDo nst c p = ms ++ rest →
      ∃ es, q.tr = p.tr ++ es ∧ wouldDo nst c p = msgs d es ++ rest := by
    intro d q ms rest h k
    obtain ⟨es, he, hm⟩ := h
    exact ⟨es, he, by rw [hm]; exact k⟩
  cases c with
  | declare a =>
    obtain ⟨ms, rest, h1, h2, h3⟩ := declare_report nst a p
    obtain ⟨es, he, hw⟩ := conv h1 h2
    exact ⟨es, rest, he, hw, h3⟩
  | undeclare a =>
    obtain ⟨ms, rest, h1, h2, h3⟩ := undeclare_report nst a p
    obtain ⟨es, he, hw⟩ := conv h1 h2
    exact ⟨es, rest, he, hw, h3⟩
  | unassignTag f t n v st na =>
    have h1 := unassignTag_ext nst f t n v st p
    have h2 : wouldDo nst (.unassignTag f t n v st na) p =
        (if saysUntag nst f t n v st p.mem then [.untag t] else []) ++ [] := by simp [wouldDo]
    obtain ⟨es, he, hw⟩ := conv h1 h2
    exact ⟨es, [], he, hw, fun _ => rfl⟩
  | remove f n v rc na fo su =>
    obtain ⟨ms, rest, h1, h2, h3⟩ := remove_report nst f n v rc na fo su p
    obtain ⟨es, he, hw⟩ := conv h1 h2
    exact ⟨es, rest, he, hw, h3⟩
  | assignTag f t n v st => simp [Cmd.dryable] at hc
  | query f => simp [Cmd.dryable] at hc

/-- what a dry run reports does not depend on the flag (the report is a function of the arguments and the state) -/
theorem wouldDo_withNoaction (nst : Nat) (b : Bool) (c : Cmd) (p : Proc) :
    wouldDo nst (c.withNoaction b) p = wouldDo nst c p := by
  cases c <;> rfl


/-! ## outcomes: a dry run that does not end well ends exactly as the real run -/

theorem declareFinish_dry_fst {nst : Nat} {a : DeclareArgs} (h : a.noaction = true) (r : Resolved) (tag : Option Tag)
    (rd : Redeclare) (p : Proc) : (declareFinish nst a r tag rd p).1 = .ok := by
  unfold declareFinish
  rw [declareCore_noaction h]
  simp [h]

theorem declare_dry_outcome (nst : Nat) (a : DeclareArgs) (p : Proc)
    (h : (declare nst { a with noaction := true } p).1 ≠ .ok) :
    (declare nst { a with noaction := false } p).1 = (declare nst { a with noaction := true } p).1 := by
  have hr : resolveDeclare nst { a with noaction := true } p = resolveDeclare nst { a with noaction := false } p := rfl
  unfold declare at h ⊢
  rw [hr] at h ⊢
  rcases Option.eq_none_or_eq_some (resolveDeclare nst { a with noaction := false } p) with hf | ⟨r, hf⟩
  · simp only [hf]
  · simp only [hf] at h ⊢
    have e1 : declareTag nst { a with noaction := true } p.mem = declareTag nst { a with noaction := false } p.mem := rfl
    have e2 : extDiff p { a with noaction := true } r.target r.diffList =
        extDiff p { a with noaction := false } r.target r.diffList := rfl
    simp only [e1, e2] at h ⊢
    generalize redeclare (p.mem.findDecl r.target a.name a.ver a.self)
      ((p.mem.findDecl r.target a.name a.ver a.self).bind p.tableContent) r.d r.content
      (declareTag nst { a with noaction := false } p.mem).isSome a.force
      (extDiff p { a with noaction := false } r.target r.diffList) = rd at h ⊢
    cases rd with
    | refuse => rfl
    | write => exact absurd (declareFinish_dry_fst (a := { a with noaction := true }) rfl r _ .write p) h
    | keep => exact absurd (declareFinish_dry_fst (a := { a with noaction := true }) rfl r _ .keep p) h

theorem undeclareVersion_dry_outcome (nst : Nat) (self : Flav) (name : Name) (ver0 : Option Ver) (stack : Option Nat)
    (tag : Option Tag) (vat force : Bool) (setup : Option (Ver × Flav × Nat)) (ver : Option Ver) (p : Proc)
    (h : (undeclareVersion nst ⟨self, name, ver0, stack, tag, vat, true, force, setup⟩ ver p).1 ≠ .ok) :
    (undeclareVersion nst ⟨self, name, ver0, stack, tag, vat, false, force, setup⟩ ver p).1 =
      (undeclareVersion nst ⟨self, name, ver0, stack, tag, vat, true, force, setup⟩ ver p).1 := by
  have hi : inferVersion nst ⟨self, name, ver0, stack, tag, vat, true, force, setup⟩ ver p.mem =
      inferVersion nst ⟨self, name, ver0, stack, tag, vat, false, force, setup⟩ ver p.mem := rfl
  unfold undeclareVersion at h ⊢
  rw [hi] at h ⊢
  generalize inferVersion nst ⟨self, name, ver0, stack, tag, vat, false, force, setup⟩ ver p.mem = iv at h ⊢
  cases iv with
  | error o => rfl
  | ok v =>
    dsimp only at h ⊢
    rcases Option.eq_none_or_eq_some (p.mem.findIn (stacksOf nst stack) name v self) with hf | ⟨prod, hf⟩
    · simp only [hf]
    · simp only [hf] at h ⊢
      have hs : isSetup ⟨self, name, ver0, stack, tag, vat, true, force, setup⟩ p.mem prod.stack v =
          isSetup ⟨self, name, ver0, stack, tag, vat, false, force, setup⟩ p.mem prod.stack v := rfl
      rw [hs] at h ⊢
      by_cases hc : (isSetup ⟨self, name, ver0, stack, tag, vat, false, force, setup⟩ p.mem prod.stack v && !force) = true
      · simp only [hc, if_true]
      · simp only [hc, Bool.false_eq_true, if_false] at h
        exact absurd (by simp [removeVersion]) h

theorem undeclare_dry_outcome (nst : Nat) (a : UndeclareArgs) (p : Proc)
    (h : (undeclare nst { a with noaction := true } p).1 ≠ .ok) :
    (undeclare nst { a with noaction := false } p).1 = (undeclare nst { a with noaction := true } p).1 := by
  obtain ⟨self, name, ver0, stack, tag, vat, na, force, setup⟩ := a
  unfold undeclare at h ⊢
  cases tag with
  | none => exact undeclareVersion_dry_outcome nst self name ver0 stack none vat force setup _ p h
  | some t =>
    dsimp only at h ⊢
    cases vat with
    | true => exact undeclareVersion_dry_outcome nst self name ver0 stack (some t) true force setup _ p h
    | false => exact unassignTag_fst nst self t name ver0 stack false p

theorem remove_dry_outcome (nst : Nat) (f : Flav) (n : Name) (v : Ver) (rc fo : Bool) (su : Option (Ver × Flav × Nat))
    (p : Proc) (h : (remove nst f n v rc true fo su p).1 ≠ .ok) :
    (remove nst f n v rc false fo su p).1 = (remove nst f n v rc true fo su p).1 := by
  unfold remove at h ⊢
  rcases Option.eq_none_or_eq_some (p.mem.findIn (allStacks nst) n v f) with hf | ⟨prod, hf⟩
  · simp only [hf]
  · simp only [hf] at h ⊢
    by_cases hm : (rc && prod.table != .none && (p.tableContent prod).isNone) = true
    · simp only [hm, if_true]
    · simp only [hm, Bool.false_eq_true, if_false] at h ⊢
      have hu := undeclare_dry_outcome nst ⟨f, n, some v, none, none, false, true, fo, su⟩ p
      dsimp only at hu
      rcases hd : undeclare nst ⟨f, n, some v, none, none, false, true, fo, su⟩ p with ⟨od, pd⟩
      rw [hd] at h hu
      cases od with
      | ok => simp at h
      | refused =>
        have := hu (by simp)
        rcases hr : undeclare nst ⟨f, n, some v, none, none, false, false, fo, su⟩ p with ⟨o, pr⟩
        rw [hr] at this; dsimp only at this; subst this; rfl
      | notFound =>
        have := hu (by simp)
        rcases hr : undeclare nst ⟨f, n, some v, none, none, false, false, fo, su⟩ p with ⟨o, pr⟩
        rw [hr] at this; dsimp only at this; subst this; rfl
      | failed =>
        have := hu (by simp)
        rcases hr : undeclare nst ⟨f, n, some v, none, none, false, false, fo, su⟩ p with ⟨o, pr⟩
        rw [hr] at this; dsimp only at this; subst this; rfl
      | tableMissing =>
        have := hu (by simp)
        rcases hr : undeclare nst ⟨f, n, some v, none, none, false, false, fo, su⟩ p with ⟨o, pr⟩
        rw [hr] at this; dsimp only at this; subst this; rfl

/-- **A dry run that is refused, or does not find the product, ends exactly as the real run does**: the refusals
of a command are decided before the first guarded write, so `-n` shows them faithfully. -/
theorem run_dry_outcome (nst : Nat) (c : Cmd) (p : Proc) (h : (run nst (c.withNoaction true) p).1 ≠ .ok) :
    (run nst (c.withNoaction false) p).1 = (run nst (c.withNoaction true) p).1 := by
  cases c with
  | declare a => exact declare_dry_outcome nst a p h
  | undeclare a => exact undeclare_dry_outcome nst a p h
  | unassignTag f t n v st na => exact unassignTag_fst nst f t n v st false p
  | remove f n v rc na fo su => exact remove_dry_outcome nst f n v rc fo su p h
  | assignTag f t n v st => rfl
  | query f => rfl

/-- hence a command that succeeds for real succeeds as a dry run -/
theorem run_real_ok_dry_ok (nst : Nat) (c : Cmd) (p : Proc) (h : (run nst (c.withNoaction false) p).1 = .ok) :
    (run nst (c.withNoaction true) p).1 = .ok :=
  Classical.byContradiction fun k => k ((run_dry_outcome nst c p k).symm.trans h)

end EupsModel.Db
