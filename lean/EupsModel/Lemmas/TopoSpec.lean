import EupsModel.Lemmas.Topo
/-! Specification of the component/condensation part of `Model/Topo.lean`: the reachability sets are the
reflexive-transitive closure of the edge relation, `sccOf` yields a partition into mutual-reachability
classes, and `topologicalSort`'s layers order every edge between different classes. -/
namespace EupsModel.Topo

variable {α : Type} [DecidableEq α]

/-- paths along `succs` (reflexive-transitive closure of the edge relation) -/
inductive Path (g : Graph α) : α → α → Prop
  | refl (a : α) : Path g a a
  | step {a b c : α} : b ∈ succs g a → Path g b c → Path g a c

theorem Path.trans {g : Graph α} {a b c : α} (h1 : Path g a b) (h2 : Path g b c) : Path g a c := by
  induction h1 with
  | refl => exact h2
  | step hab _ ih => exact Path.step hab (ih h2)

theorem Path.single {g : Graph α} {a b : α} (h : b ∈ succs g a) : Path g a b := Path.step h (Path.refl b)

theorem frontier_nil_closed {g : Graph α} {S : List α} (h : frontier g S = []) :
    ∀ x ∈ S, ∀ y ∈ succs g x, y ∈ S := by
  intro x hx y hy
  apply Classical.byContradiction
  intro hn
  have : y ∈ frontier g S := by
    unfold frontier
    rw [mem_dedup]
    simp only [List.mem_filter, List.mem_flatMap]
    exact ⟨⟨x, hx, hy⟩, by simpa using hn⟩
  rw [h] at this; simp at this

theorem mem_frontier {g : Graph α} {S : List α} {y : α} (h : y ∈ frontier g S) :
    y ∉ S ∧ ∃ x ∈ S, y ∈ succs g x := by
  unfold frontier at h
  rw [mem_dedup] at h
  simp only [List.mem_filter, List.mem_flatMap] at h
  exact ⟨by simpa using h.2, h.1⟩

theorem closure_spec (g : Graph α) : ∀ f S T, closure g f S = some T →
    (∀ s ∈ S, s ∈ T) ∧ (∀ x ∈ T, ∀ y ∈ succs g x, y ∈ T) ∧ (∀ t ∈ T, ∃ s ∈ S, Path g s t) := by
  intro f
  induction f with
  | zero => intro S T h; simp [closure] at h
  | succ k ih =>
    intro S T h
    unfold closure at h
    by_cases hf : frontier g S = []
    · simp only [hf, if_true, Option.some.injEq] at h
      subst h
      exact ⟨fun s hs => hs, frontier_nil_closed hf, fun t ht => ⟨t, ht, Path.refl t⟩⟩
    · simp only [hf, if_false] at h
      obtain ⟨h1, h2, h3⟩ := ih _ _ h
      refine ⟨fun s hs => h1 s (by simp [hs]), h2, ?_⟩
      intro t ht
      obtain ⟨s, hs, hp⟩ := h3 t ht
      simp only [List.mem_append] at hs
      rcases hs with hs | hs
      · exact ⟨s, hs, hp⟩
      · obtain ⟨_, x, hx, hxy⟩ := mem_frontier hs
        exact ⟨x, hx, Path.step hxy hp⟩

theorem closed_path {g : Graph α} {T : List α} (hc : ∀ x ∈ T, ∀ y ∈ succs g x, y ∈ T) {a b : α}
    (hp : Path g a b) (ha : a ∈ T) : b ∈ T := by
  induction hp with
  | refl => exact ha
  | step hab _ ih => exact ih (hc _ ha _ hab)

/-- `reachFrom` is exactly path-reachability -/
theorem reachFrom_spec {g : Graph α} {a : α} {r : List α} (h : reachFrom g a = some r) (b : α) :
    b ∈ r ↔ Path g a b := by
  obtain ⟨h1, h2, h3⟩ := closure_spec g _ _ _ h
  constructor
  · intro hb
    obtain ⟨s, hs, hp⟩ := h3 b hb
    simp at hs; subst hs; exact hp
  · intro hp
    exact closed_path h2 hp (h1 a (by simp))

theorem reachRows_spec {g : Graph α} : ∀ (l : List α) (R : List (α × List α)), reachRows g l = some R →
    ∀ a ∈ l, ∀ b, reaches R a b = true ↔ Path g a b := by
  intro l
  induction l with
  | nil => intro R _ a ha; simp at ha
  | cons x xs ih =>
    intro R h a ha b
    unfold reachRows at h
    cases hr : reachFrom g x with
    | none => simp [hr] at h
    | some r =>
      cases hrs : reachRows g xs with
      | none => simp [hr, hrs] at h
      | some rs =>
        simp only [hr, hrs, Option.some.injEq] at h
        subst h
        by_cases hax : x = a
        · subst hax
          simp only [reaches, List.find?_cons, beq_self_eq_true, List.contains_eq_mem, decide_eq_true_eq]
          exact reachFrom_spec hr b
        · have hmem : a ∈ xs := by
            simp only [List.mem_cons] at ha
            rcases ha with ha | ha
            · exact absurd ha.symm hax
            · exact ha
          have := ih rs hrs a hmem b
          simp only [reaches, List.find?_cons] at this ⊢
          have hbeq : (x == a) = false := by simpa using hax
          simp only [hbeq]
          exact this

theorem reachTable_spec {g : Graph α} {R : List (α × List α)} (h : reachTable g = some R) :
    ∀ a ∈ keys g, ∀ b, reaches R a b = true ↔ Path g a b := reachRows_spec _ _ h

/-! ### components -/

theorem mem_sccOf {g : Graph α} {R : List (α × List α)} (h : reachTable g = some R) {a b : α}
    (ha : a ∈ keys g) : b ∈ sccOf R (keys g) a ↔ b ∈ keys g ∧ Path g a b ∧ Path g b a := by
  simp only [sccOf, List.mem_filter, Bool.and_eq_true]
  constructor
  · rintro ⟨hb, h1, h2⟩
    exact ⟨hb, (reachTable_spec h a ha b).mp h1, (reachTable_spec h b hb a).mp h2⟩
  · rintro ⟨hb, h1, h2⟩
    exact ⟨hb, (reachTable_spec h a ha b).mpr h1, (reachTable_spec h b hb a).mpr h2⟩

theorem self_mem_sccOf {g : Graph α} {R : List (α × List α)} (h : reachTable g = some R) {a : α}
    (ha : a ∈ keys g) : a ∈ sccOf R (keys g) a :=
  (mem_sccOf h ha).mpr ⟨ha, Path.refl a, Path.refl a⟩

/-- the components form a partition: a member's component is the component -/
theorem sccOf_eq_of_mem {g : Graph α} {R : List (α × List α)} (h : reachTable g = some R) {a b : α}
    (ha : a ∈ keys g) (hb : b ∈ sccOf R (keys g) a) : sccOf R (keys g) b = sccOf R (keys g) a := by
  obtain ⟨hbk, hab, hba⟩ := (mem_sccOf h ha).mp hb
  unfold sccOf
  apply List.filter_congr
  intro c hc
  have e1 := reachTable_spec h b hbk c
  have e2 := reachTable_spec h c hc b
  have e3 := reachTable_spec h a ha c
  have e4 := reachTable_spec h c hc a
  by_cases hp : Path g a c ∧ Path g c a
  · have h1 : reaches R b c = true := e1.mpr (hba.trans hp.1)
    have h2 : reaches R c b = true := e2.mpr (hp.2.trans hab)
    have h3 : reaches R a c = true := e3.mpr hp.1
    have h4 : reaches R c a = true := e4.mpr hp.2
    simp [h1, h2, h3, h4]
  · have hl : (reaches R b c && reaches R c b) = false := by
      cases hne : (reaches R b c && reaches R c b) with
      | false => rfl
      | true =>
        simp only [Bool.and_eq_true] at hne
        exact absurd ⟨hab.trans (e1.mp hne.1), (e2.mp hne.2).trans hba⟩ hp
    have hr : (reaches R a c && reaches R c a) = false := by
      cases hne : (reaches R a c && reaches R c a) with
      | false => rfl
      | true =>
        simp only [Bool.and_eq_true] at hne
        exact absurd ⟨e3.mp hne.1, e4.mp hne.2⟩ hp
    rw [hl, hr]

theorem sccOf_eq_iff {g : Graph α} {R : List (α × List α)} (h : reachTable g = some R) {a b : α}
    (ha : a ∈ keys g) (hb : b ∈ keys g) :
    sccOf R (keys g) a = sccOf R (keys g) b ↔ Path g a b ∧ Path g b a := by
  constructor
  · intro he
    have : b ∈ sccOf R (keys g) a := by rw [he]; exact self_mem_sccOf h hb
    obtain ⟨_, h1, h2⟩ := (mem_sccOf h ha).mp this
    exact ⟨h1, h2⟩
  · rintro ⟨h1, h2⟩
    exact (sccOf_eq_of_mem h ha ((mem_sccOf h ha).mpr ⟨hb, h1, h2⟩)).symm

/-! ### association lists built by `map` -/

theorem find_map_key {β γ : Type} [DecidableEq β] (f : β → γ) : ∀ (l : List β) (a : β), a ∈ l →
    (l.map fun x => (x, f x)).find? (fun p => p.1 == a) = some (a, f a) := by
  intro l
  induction l with
  | nil => intro a ha; simp at ha
  | cons x xs ih =>
    intro a ha
    by_cases hxa : x = a
    · subst hxa; simp
    · have : a ∈ xs := by
        simp only [List.mem_cons] at ha
        rcases ha with ha | ha
        · exact absurd ha.symm hxa
        · exact ha
      simp only [List.map_cons, List.find?_cons]
      have hb : (x == a) = false := by simpa using hxa
      simp only [hb]
      exact ih a this

theorem find_map_key_none {β γ : Type} [DecidableEq β] (f : β → γ) : ∀ (l : List β) (a : β), a ∉ l →
    (l.map fun x => (x, f x)).find? (fun p => p.1 == a) = none := by
  intro l a ha
  simp only [List.find?_eq_none, List.mem_map]
  rintro p ⟨x, hx, rfl⟩
  simp only [beq_iff_eq]
  intro h; subst h; exact ha hx

theorem succs_map_key (f : α → List α) (l : List α) (a : α) :
    succs (l.map fun x => (x, f x)) a = if a ∈ l then f a else [] := by
  unfold succs
  by_cases ha : a ∈ l
  · rw [find_map_key f l a ha]; simp [ha]
  · rw [find_map_key_none f l a ha]; simp [ha]

theorem keys_map_key {γ : Type} (f : α → γ) (l : List α) : (l.map fun x => (x, f x)).map (·.1) = l := by
  simp [List.map_map, Function.comp_def]

/-! ### `normalise` -/

theorem keys_normalise (g : Graph α) : keys (normalise g) = dedup (keys g ++ g.flatMap (·.2)) := by
  unfold normalise keys
  exact keys_map_key _ _

theorem keys_normalise_nodup (g : Graph α) : (keys (normalise g)).Nodup := by
  rw [keys_normalise]; exact dedup_nodup _

theorem mem_succs_normalise (g : Graph α) (a b : α) :
    b ∈ succs (normalise g) a ↔ b ≠ a ∧ ∃ p ∈ g, p.1 = a ∧ b ∈ p.2 := by
  unfold normalise
  rw [succs_map_key]
  constructor
  · intro h
    split at h
    · simp only [List.mem_filter, mem_dedup, List.mem_flatMap, bne_iff_ne, ne_eq] at h
      obtain ⟨⟨p, hp, hb⟩, hne⟩ := h
      exact ⟨hne, p, hp.1, by simpa using hp.2, hb⟩
    · simp at h
  · rintro ⟨hne, p, hp, rfl, hb⟩
    have hmem : p.1 ∈ dedup (keys g ++ g.flatMap (·.2)) := by
      rw [mem_dedup]; simp only [List.mem_append, keys, List.mem_map]
      exact Or.inl ⟨p, hp, rfl⟩
    simp only [hmem, if_true, List.mem_filter, mem_dedup, List.mem_flatMap, bne_iff_ne, ne_eq]
    exact ⟨⟨p, ⟨hp, by simp⟩, hb⟩, hne⟩

theorem succs_normalise_closed (g : Graph α) (a b : α) (h : b ∈ succs (normalise g) a) :
    b ∈ keys (normalise g) := by
  obtain ⟨_, p, hp, _, hb⟩ := (mem_succs_normalise g a b).mp h
  rw [keys_normalise, mem_dedup]
  simp only [List.mem_append, List.mem_flatMap]
  exact Or.inr ⟨p, hp, hb⟩

/-! ### `condense` -/

theorem keys_condense (g : Graph α) (R : List (α × List α)) :
    keys (condense g R) = components R (keys g) := by
  unfold condense keys
  exact keys_map_key _ _

theorem keys_condense_nodup (g : Graph α) (R : List (α × List α)) : (keys (condense g R)).Nodup := by
  rw [keys_condense]; exact dedup_nodup _

theorem mem_components {R : List (α × List α)} {nodes : List α} {c : List α} :
    c ∈ components R nodes ↔ ∃ a ∈ nodes, c = sccOf R nodes a := by
  unfold components
  rw [mem_dedup]
  simp only [List.mem_map]
  constructor
  · rintro ⟨a, ha, rfl⟩; exact ⟨a, ha, rfl⟩
  · rintro ⟨a, ha, rfl⟩; exact ⟨a, ha, rfl⟩

/-- an edge between members of two different components is an edge of the condensation -/
theorem condense_edge {g : Graph α} {R : List (α × List α)} (h : reachTable g = some R)
    {a b : α} (ha : a ∈ keys g) (hab : b ∈ succs g a)
    (hne : sccOf R (keys g) b ≠ sccOf R (keys g) a) :
    ∃ du, (sccOf R (keys g) a, du) ∈ condense g R ∧ sccOf R (keys g) b ∈ du := by
  refine ⟨dedup ((((sccOf R (keys g) a).flatMap (succs g)).map (sccOf R (keys g))).filter
      (· != sccOf R (keys g) a)), ?_, ?_⟩
  · unfold condense
    simp only [List.mem_map]
    exact ⟨sccOf R (keys g) a, mem_components.mpr ⟨a, ha, rfl⟩, rfl⟩
  · rw [mem_dedup]
    simp only [List.mem_filter, List.mem_map, List.mem_flatMap, bne_iff_ne, ne_eq]
    exact ⟨⟨b, ⟨a, self_mem_sccOf h ha, hab⟩, rfl⟩, hne⟩

/-! ### layers: every key sits in exactly one layer -/

theorem ready_subset_keys (g : Graph α) : ∀ c ∈ ready g, c ∈ keys g := by
  intro c hc
  simp only [ready, List.mem_map, List.mem_filter] at hc
  obtain ⟨p, ⟨hp, _⟩, rfl⟩ := hc
  exact List.mem_map.mpr ⟨p, hp, rfl⟩

theorem layers_subset_keys (f : Nat) : ∀ (g : Graph α) ls rest, layers f g = some (ls, rest) →
    ∀ l ∈ ls, ∀ c ∈ l, c ∈ keys g := by
  induction f with
  | zero => intro g ls rest h; simp [layers] at h
  | succ k ih =>
    intro g ls rest h l hl c hc
    by_cases hr : ready g = []
    · simp only [layers, hr, if_true, Option.some.injEq, Prod.mk.injEq] at h
      rw [← h.1] at hl; simp at hl
    · obtain ⟨ls', hl', rfl⟩ := layers_succ_of_ready hr h
      simp only [List.mem_cons] at hl
      rcases hl with rfl | hl
      · exact ready_subset_keys g c hc
      · exact (keys_strip_sublist g).subset (ih _ _ _ hl' l hl c hc)

theorem ready_not_in_strip {g : Graph α} (hk : (keys g).Nodup) {c : α} (hc : c ∈ ready g) :
    c ∉ keys (strip g) := by
  intro hs
  simp only [keys, strip, List.mem_map, List.mem_filter] at hs
  obtain ⟨_, ⟨⟨c', d⟩, ⟨hp, hne⟩, rfl⟩, rfl⟩ := hs
  have hd : d ≠ [] := by cases d <;> simp_all
  exact not_ready_of_dep hk hp hd hc

/-- with one entry per node, a node that occurs in some layer occurs in that layer only -/
theorem layer_unique (f : Nat) : ∀ (g : Graph α) ls rest, (keys g).Nodup → layers f g = some (ls, rest) →
    ∀ (i : Nat) (hi : i < ls.length) (c : α), c ∈ ls[i] → level ls c = some i := by
  induction f with
  | zero => intro g ls rest _ h; simp [layers] at h
  | succ k ih =>
    intro g ls rest hk h i hi c hc
    by_cases hr : ready g = []
    · simp only [layers, hr, if_true, Option.some.injEq, Prod.mk.injEq] at h
      have : ls = [] := h.1.symm
      subst this; simp at hi
    · obtain ⟨ls', hl', rfl⟩ := layers_succ_of_ready hr h
      cases i with
      | zero =>
        simp only [List.getElem_cons_zero] at hc
        exact level_cons_mem _ _ _ hc
      | succ j =>
        simp only [List.getElem_cons_succ] at hc
        have hj : j < ls'.length := by simpa using hi
        have hcs : c ∈ keys (strip g) := layers_subset_keys _ _ _ _ hl' _ (List.getElem_mem hj) c hc
        have hnr : c ∉ ready g := fun hrd => ready_not_in_strip hk hrd hcs
        rw [level_cons_not _ _ _ hnr, ih _ _ _ (keys_strip_nodup g hk) hl' j hj c hc]
        rfl

theorem level_some_mem {ls : List (List α)} {c : α} {i : Nat} (h : level ls c = some i) :
    ∃ hi : i < ls.length, c ∈ ls[i] := by
  unfold level at h
  have h1 := List.findIdx?_eq_some_iff_getElem.mp h
  obtain ⟨hi, hp, _⟩ := h1
  exact ⟨hi, by simpa using hp⟩

/-! ### the result of `topologicalSort` -/

/-- What a successful `topologicalSort` guarantees: a level function on the nodes of the (normalised) graph
such that every node sits in exactly the layer of its level, layers hold nothing but nodes, every edge
between different mutual-reachability classes goes to a strictly earlier layer, and with `checkCycles`
there is no non-trivial class. -/
theorem topologicalSort_ok {g0 : Graph α} {cc : Bool} {ls : List (List α)}
    (h : topologicalSort g0 cc = .ok ls) :
    ∃ lvl : α → Nat,
      (∀ a ∈ keys (normalise g0), lvl a < ls.length ∧
          ∀ (i : Nat) (hi : i < ls.length), a ∈ ls[i] ↔ i = lvl a) ∧
      (∀ l ∈ ls, ∀ a ∈ l, a ∈ keys (normalise g0)) ∧
      (∀ a ∈ keys (normalise g0), ∀ b ∈ succs (normalise g0) a, ¬ Path (normalise g0) b a → lvl b < lvl a) ∧
      (cc = true → ∀ a ∈ keys (normalise g0), ∀ b ∈ keys (normalise g0),
          Path (normalise g0) a b → Path (normalise g0) b a → a = b) := by
  unfold topologicalSort at h
  simp only at h
  generalize hg : normalise g0 = g at h ⊢
  cases hR : reachTable g with
  | none => simp [hR] at h
  | some R =>
    simp only [hR] at h
    split at h
    · simp at h
    · rename_i hcc
      cases hl : layers ((condense g R).length + 1) (condense g R) with
      | none => simp [hl] at h
      | some r =>
        obtain ⟨lsc, rest⟩ := r
        simp only [hl] at h
        split at h
        · rename_i hrest
          simp only [Result.ok.injEq] at h
          subst h
          have hrest' : rest = [] := by simpa using hrest
          subst hrest'
          have hkn : (keys (condense g R)).Nodup := keys_condense_nodup g R
          have hgk : (keys g).Nodup := by rw [← hg]; exact keys_normalise_nodup g0
          -- every component has a level
          have hlevel : ∀ a ∈ keys g, ∃ i, level lsc (sccOf R (keys g) a) = some i := by
            intro a ha
            have hc : sccOf R (keys g) a ∈ keys (condense g R) := by
              rw [keys_condense]; exact mem_components.mpr ⟨a, ha, rfl⟩
            rcases layered_or_left _ _ _ _ hl _ hc with hx | hx
            · have := level_isSome_of_mem hx
              exact Option.isSome_iff_exists.mp this
            · simp [keys] at hx
          refine ⟨fun a => (level lsc (sccOf R (keys g) a)).getD 0, ?_, ?_, ?_, ?_⟩
          · intro a ha
            obtain ⟨i, hi⟩ := hlevel a ha
            obtain ⟨hil, hmem⟩ := level_some_mem hi
            simp only [hi, Option.getD_some, List.length_map]
            refine ⟨hil, ?_⟩
            intro j hj
            simp only [List.getElem_map, List.mem_flatten]
            constructor
            · rintro ⟨c, hc, hac⟩
              have hck : c ∈ keys (condense g R) := layers_subset_keys _ _ _ _ hl _ (List.getElem_mem hj) c hc
              rw [keys_condense] at hck
              obtain ⟨w, hw, rfl⟩ := mem_components.mp hck
              have := sccOf_eq_of_mem hR hw hac
              rw [← this] at hc
              have := layer_unique _ _ _ _ hkn hl j hj _ hc
              rw [hi] at this
              exact (Option.some.inj this).symm
            · intro hji
              subst hji
              exact ⟨_, hmem, self_mem_sccOf hR ha⟩
          · intro l hl' a ha
            simp only [List.mem_map] at hl'
            obtain ⟨lc, hlc, rfl⟩ := hl'
            simp only [List.mem_flatten] at ha
            obtain ⟨c, hc, hac⟩ := ha
            have hck : c ∈ keys (condense g R) := layers_subset_keys _ _ _ _ hl _ hlc c hc
            rw [keys_condense] at hck
            obtain ⟨w, hw, rfl⟩ := mem_components.mp hck
            exact ((mem_sccOf hR hw).mp hac).1
          · intro a ha b hb hnp
            have hbk : b ∈ keys g := by rw [← hg] at hb ⊢; exact succs_normalise_closed g0 a b hb
            have hne : sccOf R (keys g) b ≠ sccOf R (keys g) a := by
              intro he
              exact hnp ((sccOf_eq_iff hR hbk ha).mp he).1
            obtain ⟨du, hdu, hbdu⟩ := condense_edge hR ha hb hne
            obtain ⟨i, hi⟩ := hlevel a ha
            obtain ⟨j, hj⟩ := hlevel b hbk
            have := edge_order _ _ _ _ hkn hl _ _ _ hdu hbdu i j hi hj
            simpa [hi, hj] using this
          · intro hcct a ha b hb hab hba
            subst hcct
            simp only [Bool.true_and, Bool.not_eq_true] at hcc
            have hlen : ¬ (sccOf R (keys g) a).length > 1 := by
              have hc : sccOf R (keys g) a ∈ keys (condense g R) := by
                rw [keys_condense]; exact mem_components.mpr ⟨a, ha, rfl⟩
              intro hgt
              have : (keys (condense g R)).any (fun c => decide (c.length > 1)) = true :=
                List.any_eq_true.mpr ⟨_, hc, by simpa using hgt⟩
              rw [this] at hcc; exact Bool.noConfusion hcc
            have ha' := self_mem_sccOf hR ha
            have hb' : b ∈ sccOf R (keys g) a := (mem_sccOf hR ha).mpr ⟨hb, hab, hba⟩
            have hnd : (sccOf R (keys g) a).Nodup := by unfold sccOf; exact hgk.filter _
            cases hs : sccOf R (keys g) a with
            | nil => rw [hs] at ha'; simp at ha'
            | cons x xs =>
              cases xs with
              | nil => rw [hs] at ha' hb'; simp at ha' hb'; rw [ha', hb']
              | cons y ys => rw [hs] at hlen; simp at hlen
        · simp at h

end EupsModel.Topo
