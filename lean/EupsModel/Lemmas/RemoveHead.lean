import EupsModel.Lemmas.RemoveFuel
/-! The list `_remove` returns begins with the requested product (it is the first of `deps`, and the nested call for it
is not recursive) — so `eups remove -i` asks about the requested product first. -/
namespace EupsModel.Remove
open EupsModel EupsModel.Deps

/-- the loop only appends -/
theorem collectLoop_prefix (sb : Option SetupBy) (force : Bool) (top : Str × Str) (recursive : Bool)
    (recur : Prod → Seen → Except Err (List Prod × Seen)) :
    ∀ qs acc seen l seen', collectLoop sb force top recursive recur qs acc seen = .ok (l, seen') →
      ∃ t, l = acc ++ t := by
  intro qs
  induction qs with
  | nil =>
    intro acc seen l seen' h
    simp only [collectLoop, Except.ok.injEq, Prod.mk.injEq] at h
    exact ⟨[], by rw [← h.1]; simp⟩
  | cons q qs ih =>
    intro acc seen l seen' h
    rw [collectLoop_cons] at h
    split at h
    · simp at h
    · split at h
      · cases hq : recur q seen with
        | error e => simp [hq] at h
        | ok r =>
          obtain ⟨sub, sn⟩ := r
          simp only [hq] at h
          obtain ⟨t, ht⟩ := ih _ _ _ _ h
          exact ⟨sub ++ [q] ++ t, by rw [ht]; simp⟩
      · obtain ⟨t, ht⟩ := ih _ _ _ _ h
        exact ⟨[q] ++ t, by rw [ht]; simp⟩

theorem directDeps_head {db : Db} {p : Prod} {e : Bool} {deps : List Prod} (h : directDeps db p e = .ok deps) :
    ∃ t, deps = p :: t := by
  unfold directDeps at h
  split at h
  · split at h
    · simp at h
    · split at h
      · simp at h
      · simp only [Except.ok.injEq] at h
        exact ⟨_, h.symm⟩
  · simp only [Except.ok.injEq] at h
    exact ⟨[], h.symm⟩

/-- **the requested product comes first** in what `_remove` collects -/
theorem collect_head (db : Db) (sb : Option SetupBy) (force : Bool) (dn : Option Str) (top : Str × Str)
    (f : Nat) (name : Str) (ver : Option Str) (recursive : Bool) (seen : Seen) (l : List Prod) (seen' : Seen)
    (h : collect db sb force dn top f name ver recursive seen = .ok (l, seen')) (hd : dn ≠ some name) :
    ∃ p t, db.find name ver = some p ∧ l = p :: t := by
  cases f with
  | zero => simp [collect] at h
  | succ k =>
    unfold collect at h
    split at h
    · rename_i hdn
      exact absurd (by simpa using hdn) hd
    · split at h
      · simp at h
      · rename_i p hp
        dsimp only at h
        cases hdeps : directDeps db p (recursive && !seen.contains (prodkey p)) with
        | error e => rw [hdeps] at h; simp at h
        | ok deps =>
          rw [hdeps] at h
          dsimp only at h
          obtain ⟨t0, rfl⟩ := directDeps_head hdeps
          rw [collectLoop_cons] at h
          split at h
          · simp at h
          · split at h
            · -- recursive: the nested call for the product itself is not recursive and returns `[p]`
              have hnr : (p.name != name) = false := by
                have := find_name hp; simp [this]
              simp only [hnr] at h
              cases hq : collect db sb force dn top k p.name p.ver false
                  (if (recursive && !seen.contains (prodkey p)) = true then prodkey p :: seen else seen) with
              | error e => rw [hq] at h; simp at h
              | ok r =>
                obtain ⟨sub, sn⟩ := r
                rw [hq] at h
                dsimp only at h
                rcases collect_nonrecursive _ _ _ _ _ _ _ _ _ _ _ hq with ⟨_, hdn⟩ | ⟨p', hp', rfl⟩
                · exact absurd (by rw [hdn, find_name hp]) hd
                · have : p' = p := by
                    have h1 := find_again hp
                    rw [find_name hp] at hp'
                    rw [hp'] at h1
                    exact Option.some.inj h1
                  subst this
                  obtain ⟨t, ht⟩ := collectLoop_prefix _ _ _ _ _ _ _ _ _ _ h
                  exact ⟨p', [p'] ++ t, hp, by rw [ht]; simp⟩
            · obtain ⟨t, ht⟩ := collectLoop_prefix _ _ _ _ _ _ _ _ _ _ h
              exact ⟨p, t, hp, by rw [ht]; simp⟩

end EupsModel.Remove
