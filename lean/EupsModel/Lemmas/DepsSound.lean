import EupsModel.Lemmas.DepsGuard
/-! What an `unsetupRequired` line may do to a listing: take entries away, never add one.  For every database whose
declared table files exist — unsetup lines anywhere, dependency cycles included — every product listed is reachable
through the *setup* lines of the opened tables (`Listed` over the database with the unsetup lines erased). -/
namespace EupsModel.Deps
open EupsModel

/-- the database with every `unsetupRequired` / `unsetupOptional` line erased -/
def Db.setupOnly (db : Db) : Db :=
  { db with decls := db.decls.map fun d => { d with deps := d.deps.filter fun x => !x.unsetup } }

theorem find?_map_decl (f : Decl → Decl) (hn : ∀ d, (f d).name = d.name) (hv : ∀ d, (f d).ver = d.ver)
    (n v : Str) : ∀ (l : List Decl),
    (l.map f).find? (fun d => d.name == n && d.ver == v) = (l.find? (fun d => d.name == n && d.ver == v)).map f := by
  intro l
  induction l with
  | nil => rfl
  | cons a as ih =>
    simp only [List.map_cons, List.find?_cons, hn, hv]
    split
    · rfl
    · exact ih

theorem declared_setupOnly (db : Db) (n v : Str) : db.setupOnly.declared n v = db.declared n v := by
  simp [Db.declared, Db.setupOnly, List.any_map, Function.comp_def]

theorem find_setupOnly (db : Db) (n : Str) (v : Option Str) : db.setupOnly.find n v = db.find n v := by
  unfold Db.find
  cases v with
  | some v => simp only [declared_setupOnly]
  | none =>
    have : db.setupOnly.current = db.current := rfl
    rw [this]
    cases db.current.lookup n with
    | none => rfl
    | some v => simp only [declared_setupOnly]

theorem resolve_setupOnly (db : Db) (req : Required) (d : Dep) : resolve db.setupOnly req d = resolve db req d := by
  unfold resolve
  split <;> exact find_setupOnly db _ _

theorem target_setupOnly (db : Db) (req : Required) (d : Dep) : target db.setupOnly req d = target db req d := by
  unfold target; rw [resolve_setupOnly]

theorem table_setupOnly (db : Db) (p : Prod) :
    db.setupOnly.table p = (db.table p).filter fun x => !x.unsetup := by
  unfold Db.table
  split
  · rename_i v _ _
    have := find?_map_decl (fun d => { d with deps := d.deps.filter fun x => !x.unsetup }) (fun _ => rfl) (fun _ => rfl)
      p.name v db.decls
    simp only [Db.setupOnly]
    rw [this]
    cases db.decls.find? (fun d => d.name == p.name && d.ver == v) with
    | none => rfl
    | some d =>
      simp only [Option.map_some, List.filter_filter]
      congr 1
      funext x
      exact Bool.and_comm _ _
  · rfl

/-- `Listed` over the setup lines only -/
abbrev ListedS (db : Db) (req : Required) (top v : Prod) : Prop := Listed db.setupOnly req top v

theorem mem_table_setupOnly {db : Db} {p : Prod} {d : Dep} (hd : d ∈ db.table p) (hu : d.unsetup = false) :
    d ∈ db.setupOnly.table p := by
  rw [table_setupOnly]
  exact List.mem_filter.mpr ⟨hd, by simp [hu]⟩

/-- the loop: every entry it adds is denoted by a setup line of an opened table -/
theorem depsLoop_sound (db : Db) (req : Required)
    (recur : Prod → Nat → St → Option (List Entry × St)) (fresh : Prod → Option (List Str))
    (top : Prod) (recursive : Bool) (depth : Nat) (hm : ∀ p, db.tableMissing p = false)
    (hrec : ∀ p dp st out st', recur p dp st = some (out, st') → ∀ e ∈ out, ListedS db req p e.prod) :
    ∀ ds acc st out st', (∀ d ∈ ds, d ∈ db.table top) → (∀ e ∈ acc, ListedS db req top e.prod) →
      depsLoop db req recur fresh top recursive depth ds acc st = some (out, st') →
      ∀ e ∈ out, ListedS db req top e.prod := by
  intro ds
  induction ds with
  | nil =>
    intro acc st out st' _ ha h
    simp only [depsLoop, Option.some.injEq] at h
    rw [← (_root_.Prod.mk.inj h).1]; exact ha
  | cons d ds ih =>
    intro acc st out st' ht ha h
    have ht' : ∀ x ∈ ds, x ∈ db.table top := fun x hx => ht x (by simp [hx])
    have hdt : d ∈ db.table top := ht d (by simp)
    rw [depsLoop] at h
    by_cases hu : d.unsetup = true
    · simp only [hu, if_true] at h
      cases hf : acc.find? (fun e => e.prod.name == d.name) with
      | none => simp only [hf] at h; exact ih _ _ _ _ ht' ha h
      | some e0 =>
        simp only [hf] at h
        split at h
        · simp at h
        · exact ih _ _ _ _ ht' (fun e he => ha e (List.mem_filter.mp he).1) h
    · have hu' : d.unsetup = false := by simpa using hu
      have hds : d ∈ db.setupOnly.table top := mem_table_setupOnly hdt hu'
      have hline : ∀ (e : Entry), e.prod = target db req d → ListedS db req top e.prod := by
        intro e he
        exact ⟨top, XReach.refl _, d, hds, by rw [target_setupOnly, he]⟩
      simp only [hu', Bool.false_eq_true, if_false] at h
      cases hr : resolve db req d with
      | none =>
        simp only [hr] at h
        refine ih _ _ _ _ ht' ?_ h
        intro e he
        rcases List.mem_append.mp he with he | he
        · exact ha e he
        · simp only [List.mem_singleton] at he
          subst he
          exact hline _ (by simp [target, hr])
      | some p =>
        simp only [hr] at h
        by_cases hc : (recursive && !d.noRec && !st.seen.contains (prodkey p)) = true
        · simp only [hc, if_true, hm p, Bool.false_eq_true, if_false] at h
          cases hq : recur p (depth + 1) { st with seen := prodkey p :: st.seen } with
          | none => simp [hq] at h
          | some r =>
            obtain ⟨sub, st2⟩ := r
            simp only [hq] at h
            have hj : d.noRec = false := by
              simp only [Bool.and_eq_true, Bool.not_eq_true'] at hc; exact hc.1.2
            have hx : XEdge db.setupOnly req top p := ⟨d, hds, hj, by rw [resolve_setupOnly]; exact hr⟩
            refine ih _ _ _ _ ht' ?_ h
            intro e he
            rcases List.mem_append.mp he with he | he
            · exact ha e he
            · simp only [List.mem_cons] at he
              rcases he with he | he
              · subst he; exact hline _ (by simp [target, hr])
              · exact Listed.of_head hx (hrec _ _ _ _ _ hq e he)
        · simp only [hc, Bool.false_eq_true, if_false] at h
          refine ih _ _ _ _ ht' ?_ h
          intro e he
          rcases List.mem_append.mp he with he | he
          · exact ha e he
          · simp only [List.mem_singleton] at he
            subst he
            exact hline _ (by simp [target, hr])

/-- **Unsetup lines only take entries away**: on every database whose table files exist, whatever the unsetup lines
and the guard, every entry a completed walk returns is denoted by a setup line of a table opened through setup lines. -/
theorem depsOfG_sound (db : Db) (hm : ∀ p, db.tableMissing p = false) (req : Required) :
    ∀ f g top recursive depth st out st', depsOfG db f g req top recursive depth st = some (out, st') →
      ∀ e ∈ out, ListedS db req top e.prod := by
  intro f
  induction f with
  | zero => intro g top recursive depth st out st' h; simp [depsOfG] at h
  | succ k ih =>
    intro g top recursive depth st out st' h
    unfold depsOfG at h
    exact depsLoop_sound db req _ _ top recursive depth hm
      (fun p dp st1 out1 st1' hq => ih g p true dp st1 out1 st1' hq)
      _ _ _ _ _ (fun _ hd => hd) (by intro e he; simp at he) h

end EupsModel.Deps
