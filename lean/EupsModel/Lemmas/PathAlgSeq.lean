import EupsModel.Lemmas.PathAlg
/-! Sequences of path-variable actions at the list level: a table contributes a sequence of
`envPrepend` / `envAppend` actions to one variable; unsetup runs the same actions in unsetup mode.
Normal forms, inverse, idempotence, order laws, values of several pieces. -/
namespace EupsModel.PathAlg
variable {α : Type} [DecidableEq α]

/-- the contributions of a whole table to one variable: (append?, value) in table order -/
def setupAll (acts : List (Bool × α)) (old : List α) : List α :=
  acts.foldl (fun l a => applyL a.1 true [a.2] l) old
/-- the same actions in unsetup mode (in any order: here table order) -/
def unsetupAll (acts : List (Bool × α)) (l : List α) : List α :=
  acts.foldl (fun l a => applyL a.1 false [a.2] l) l

/-! ## small helpers -/

theorem uniq_applyL (app fwd : Bool) (vals old : List α) :
    uniq (applyL app fwd vals old) = applyL app fwd vals old := by
  unfold applyL; exact uniq_idem _

theorem applyL_nodup (app fwd : Bool) (vals old : List α) : (applyL app fwd vals old).Nodup :=
  uniq_nodup _

theorem filter_ne_notin (v : α) (vs l : List α) :
    (l.filter (· != v)).filter (fun x => decide (x ∉ vs)) = l.filter (fun x => decide (x ∉ v :: vs)) := by
  rw [List.filter_filter]
  apply List.filter_congr
  intro x _
  by_cases h : x = v <;> simp [h]

theorem filter_notin_ne (v : α) (vs l : List α) (hv : v ∈ vs) :
    (l.filter (· != v)).filter (fun x => decide (x ∉ vs)) = l.filter (fun x => decide (x ∉ vs)) := by
  rw [List.filter_filter]
  apply List.filter_congr
  intro x _
  by_cases h : x = v
  · subst h; simp [hv]
  · simp [h]

@[simp] theorem filter_notin_nil (l : List α) : l.filter (fun x => decide (x ∉ ([] : List α))) = l := by
  simp

theorem filter_ne_comm (a b : α) (l : List α) :
    (l.filter (· != a)).filter (· != b) = (l.filter (· != b)).filter (· != a) := by
  rw [List.filter_filter, List.filter_filter]
  apply List.filter_congr
  intro x _
  exact Bool.and_comm _ _

theorem filter_ne_self (v : α) (l : List α) (h : v ∉ l) : l.filter (· != v) = l := by
  apply List.filter_eq_self.mpr
  intro a ha
  simp
  intro e; exact h (e ▸ ha)

theorem filter_notin_self (vs l : List α) (h : ∀ v ∈ vs, v ∉ l) :
    l.filter (fun x => decide (x ∉ vs)) = l := by
  apply List.filter_eq_self.mpr
  intro a ha
  simp
  intro e; exact h a e ha

/-- one setup action with a one-piece value, both kinds at once -/
theorem applyL_setup_single (app : Bool) (v : α) (old : List α) :
    applyL app true [v] old
      = (if app then [] else [v]) ++ (uniq old).filter (· != v) ++ (if app then [v] else []) := by
  cases app
  · simp [applyL_prepend_single]
  · simp [applyL_append_single]

/-! ## A. unsetup: normal form, order does not matter -/

@[simp] theorem unsetupAll_nil (l : List α) : unsetupAll ([] : List (Bool × α)) l = l := rfl

theorem unsetupAll_cons (a : Bool × α) (acts : List (Bool × α)) (l : List α) :
    unsetupAll (a :: acts) l = unsetupAll acts ((uniq l).filter (· != a.2)) := by
  simp [unsetupAll, applyL_remove_single]

theorem unsetupAll_of_nodup (acts : List (Bool × α)) (l : List α) (h : l.Nodup) :
    unsetupAll acts l = l.filter (fun x => decide (x ∉ acts.map (·.2))) := by
  induction acts generalizing l with
  | nil => simp only [unsetupAll_nil, List.map_nil, filter_notin_nil]
  | cons a rest ih =>
    rw [unsetupAll_cons, uniq_of_nodup l h, ih _ (h.filter _), filter_ne_notin]
    rfl

/-- Unsetup of a whole table: what is left are the first occurrences of the elements that no action names. -/
theorem unsetupAll_eq (acts : List (Bool × α)) (l : List α) (hne : acts ≠ []) :
    unsetupAll acts l = (uniq l).filter (fun x => decide (x ∉ acts.map (·.2))) := by
  cases acts with
  | nil => exact absurd rfl hne
  | cons a rest =>
    rw [unsetupAll_cons, unsetupAll_of_nodup _ _ ((uniq_nodup l).filter _), filter_ne_notin]
    rfl

/-- the same without the side condition (an empty table does not even de-duplicate) -/
theorem uniq_unsetupAll (acts : List (Bool × α)) (l : List α) :
    uniq (unsetupAll acts l) = (uniq l).filter (fun x => decide (x ∉ acts.map (·.2))) := by
  cases acts with
  | nil => simp only [unsetupAll_nil, List.map_nil, filter_notin_nil]
  | cons a rest =>
    rw [unsetupAll_eq _ _ (by simp), filter_uniq, uniq_idem]

/-- The unsetup actions may run in any order … -/
theorem unsetupAll_perm (acts acts' : List (Bool × α)) (l : List α) (hp : acts.Perm acts') :
    unsetupAll acts l = unsetupAll acts' l := by
  by_cases hne : acts = []
  · subst hne; rw [List.nil_perm.mp hp]
  · have hne' : acts' ≠ [] := fun e => hne (by subst e; exact List.perm_nil.mp hp)
    rw [unsetupAll_eq _ _ hne, unsetupAll_eq _ _ hne']
    apply List.filter_congr
    intro x _
    have := (hp.map (·.2)).mem_iff (a := x)
    simp only [this]

/-- … in particular in reverse table order. -/
theorem unsetupAll_reverse (acts : List (Bool × α)) (l : List α) :
    unsetupAll acts.reverse l = unsetupAll acts l :=
  unsetupAll_perm _ _ l (List.reverse_perm acts)

/-- the kind of the action (prepend / append) plays no role on unsetup -/
theorem unsetupAll_kind (acts acts' : List (Bool × α)) (l : List α)
    (h : acts.map (·.2) = acts'.map (·.2)) : unsetupAll acts l = unsetupAll acts' l := by
  by_cases hne : acts = []
  · subst hne
    have : acts' = [] := by simpa using h.symm
    rw [this]
  · have hne' : acts' ≠ [] := by intro e; subst e; simp at h; exact hne h
    rw [unsetupAll_eq _ _ hne, unsetupAll_eq _ _ hne', h]

/-! ## B. setup: normal form -/

/-- one action on the pair (front part, back part) contributed so far: a prepend of `v` puts `v` at the
very front, an append puts it at the very end; `v` is deleted elsewhere -/
def fbStep (s : List α × List α) (a : Bool × α) : List α × List α :=
  if a.1 then (s.1.filter (· != a.2), s.2.filter (· != a.2) ++ [a.2])
  else (a.2 :: s.1.filter (· != a.2), s.2.filter (· != a.2))

/-- what a table puts in front of the prior elements … -/
def front (acts : List (Bool × α)) : List α := (acts.foldl fbStep ([], [])).1
/-- … and behind them; both depend on the actions only -/
def back (acts : List (Bool × α)) : List α := (acts.foldl fbStep ([], [])).2

@[simp] theorem setupAll_nil (old : List α) : setupAll ([] : List (Bool × α)) old = old := rfl

theorem setupAll_cons (a : Bool × α) (acts : List (Bool × α)) (old : List α) :
    setupAll (a :: acts) old = setupAll acts (applyL a.1 true [a.2] old) := rfl

theorem setupAll_append (acts acts' : List (Bool × α)) (old : List α) :
    setupAll (acts ++ acts') old = setupAll acts' (setupAll acts old) := by
  simp [setupAll, List.foldl_append]

theorem setupAll_snoc (a : Bool × α) (acts : List (Bool × α)) (old : List α) :
    setupAll (acts ++ [a]) old = applyL a.1 true [a.2] (setupAll acts old) := by
  rw [setupAll_append]; rfl

theorem setupAll_nodup (acts : List (Bool × α)) (old : List α) (hne : acts ≠ []) :
    (setupAll acts old).Nodup := by
  obtain ⟨rest, a, rfl⟩ : ∃ rest a, acts = rest ++ [a] :=
    ⟨acts.dropLast, acts.getLast hne, (List.dropLast_concat_getLast hne).symm⟩
  rw [setupAll_snoc]; exact applyL_nodup _ _ _ _

theorem uniq_setupAll_of_ne (acts : List (Bool × α)) (old : List α) (hne : acts ≠ []) :
    uniq (setupAll acts old) = setupAll acts old :=
  uniq_of_nodup _ (setupAll_nodup acts old hne)

/-- one action on a duplicate-free list cut in three -/
theorem applyL_fbStep (a : Bool × α) (f m b : List α) (h : (f ++ m ++ b).Nodup) :
    applyL a.1 true [a.2] (f ++ m ++ b)
      = (fbStep (f, b) a).1 ++ m.filter (· != a.2) ++ (fbStep (f, b) a).2 := by
  obtain ⟨app, v⟩ := a
  rw [applyL_setup_single, uniq_of_nodup _ h]
  cases app <;> simp [fbStep, List.filter_append]

/-- the invariant: front and back parts evolve by `fbStep`, the middle is only ever filtered -/
theorem setupAll_fb (acts : List (Bool × α)) (f m b : List α) (h : (f ++ m ++ b).Nodup) :
    setupAll acts (f ++ m ++ b)
      = (acts.foldl fbStep (f, b)).1 ++ m.filter (fun x => decide (x ∉ acts.map (·.2)))
          ++ (acts.foldl fbStep (f, b)).2 := by
  induction acts generalizing f m b with
  | nil => simp only [setupAll_nil, List.foldl_nil, List.map_nil, filter_notin_nil]
  | cons a rest ih =>
    have hstep := applyL_fbStep a f m b h
    have hnd : ((fbStep (f, b) a).1 ++ m.filter (· != a.2) ++ (fbStep (f, b) a).2).Nodup := by
      rw [← hstep]; exact applyL_nodup _ _ _ _
    rw [setupAll_cons, hstep, ih _ _ _ hnd, filter_ne_notin]
    rfl

/-- Setup of a whole table: the table's own elements in front and behind, between them the first occurrences of
the prior elements that no action names, in their order. -/
theorem setupAll_eq (acts : List (Bool × α)) (old : List α) (hne : acts ≠ []) :
    setupAll acts old
      = front acts ++ (uniq old).filter (fun x => decide (x ∉ acts.map (·.2))) ++ back acts := by
  cases acts with
  | nil => exact absurd rfl hne
  | cons a rest =>
    have hstep : applyL a.1 true [a.2] old
        = (fbStep ([], []) a).1 ++ (uniq old).filter (· != a.2) ++ (fbStep ([], []) a).2 := by
      obtain ⟨app, v⟩ := a
      rw [applyL_setup_single]
      cases app <;> simp [fbStep]
    have hnd : ((fbStep (([] : List α), ([] : List α)) a).1 ++ (uniq old).filter (· != a.2)
        ++ (fbStep ([], []) a).2).Nodup := by
      rw [← hstep]; exact applyL_nodup _ _ _ _
    rw [setupAll_cons, hstep, setupAll_fb _ _ _ _ hnd, filter_ne_notin]
    rfl

/-- the same without the side condition -/
theorem uniq_setupAll (acts : List (Bool × α)) (old : List α) :
    uniq (setupAll acts old)
      = front acts ++ (uniq old).filter (fun x => decide (x ∉ acts.map (·.2))) ++ back acts := by
  cases acts with
  | nil => simp only [setupAll_nil, front, back, List.foldl_nil, List.map_nil, filter_notin_nil, List.nil_append, List.append_nil]
  | cons a rest => rw [uniq_setupAll_of_ne _ _ (by simp), setupAll_eq _ _ (by simp)]

/-! unfolding `front` / `back` at the last action: the last action wins -/
theorem front_snoc_prepend (acts : List (Bool × α)) (v : α) :
    front (acts ++ [(false, v)]) = v :: (front acts).filter (· != v) := by
  simp [front, List.foldl_append, fbStep]

theorem back_snoc_prepend (acts : List (Bool × α)) (v : α) :
    back (acts ++ [(false, v)]) = (back acts).filter (· != v) := by
  simp [back, List.foldl_append, fbStep]

theorem front_snoc_append (acts : List (Bool × α)) (v : α) :
    front (acts ++ [(true, v)]) = (front acts).filter (· != v) := by
  simp [front, List.foldl_append, fbStep]

theorem back_snoc_append (acts : List (Bool × α)) (v : α) :
    back (acts ++ [(true, v)]) = (back acts).filter (· != v) ++ [v] := by
  simp [back, List.foldl_append, fbStep]

theorem mem_setupAll (acts : List (Bool × α)) (old : List α) (x : α) :
    x ∈ setupAll acts old ↔ x ∈ acts.map (·.2) ∨ x ∈ old := by
  induction acts generalizing old with
  | nil => simp
  | cons a rest ih =>
    obtain ⟨app, v⟩ := a
    rw [setupAll_cons, ih, applyL_setup_single]
    by_cases hx : x = v
    · subst hx; cases app <;> simp
    · cases app <;> simp [hx, mem_uniq]

/-- the front and back parts together hold exactly the values of the actions, each once -/
theorem mem_front_back (acts : List (Bool × α)) (x : α) :
    x ∈ front acts ++ back acts ↔ x ∈ acts.map (·.2) := by
  by_cases hne : acts = []
  · subst hne; simp [front, back]
  · have h := mem_setupAll acts [] x
    rw [setupAll_eq acts [] hne] at h
    simpa [uniq] using h

theorem front_back_nodup (acts : List (Bool × α)) : (front acts ++ back acts).Nodup := by
  by_cases hne : acts = []
  · subst hne; simp [front, back]
  · have h := setupAll_nodup acts ([] : List α) hne
    rw [setupAll_eq acts [] hne] at h
    simpa [uniq] using h

/-! ## C. unsetup after setup -/

/-- the elements that no action names are kept by setup, in the order of their first occurrences -/
theorem setupAll_others (acts : List (Bool × α)) (old vs : List α) (h : ∀ a ∈ acts, a.2 ∈ vs) :
    (uniq (setupAll acts old)).filter (fun x => decide (x ∉ vs))
      = (uniq old).filter (fun x => decide (x ∉ vs)) := by
  induction acts generalizing old with
  | nil => simp only [setupAll_nil]
  | cons a rest ih =>
    have hv : a.2 ∈ vs := h a (by simp)
    rw [setupAll_cons, ih _ (fun b hb => h b (by simp [hb])), uniq_applyL, applyL_setup_single]
    have hd : decide (a.2 ∉ vs) = false := by simp [hv]
    have hf := filter_notin_ne a.2 vs (uniq old) hv
    cases a.1
    · simp only [Bool.false_eq_true, if_false, List.append_nil, List.singleton_append,
        List.filter_cons, hd, hf]
    · simp only [if_true, List.nil_append, List.filter_append, List.filter_cons, List.filter_nil,
        hd, hf, Bool.false_eq_true, if_false, List.append_nil]

/-- Unsetup after setup, unconditional form: the table's values are gone — also those that were there before —
everything else is back in the order of first occurrences. -/
theorem unsetupAll_setupAll_filter (acts : List (Bool × α)) (old : List α) (hne : acts ≠ []) :
    unsetupAll acts (setupAll acts old)
      = (uniq old).filter (fun x => decide (x ∉ acts.map (·.2))) := by
  rw [unsetupAll_eq _ _ hne]
  exact setupAll_others acts old _ (fun a ha => List.mem_map.mpr ⟨a, ha, rfl⟩)

/-- Unsetup after setup restores the (de-duplicated) list when none of the values was there before. -/
theorem unsetupAll_setupAll (acts : List (Bool × α)) (old : List α) (hne : acts ≠ [])
    (h : ∀ a ∈ acts, a.2 ∉ old) :
    unsetupAll acts (setupAll acts old) = uniq old := by
  rw [unsetupAll_setupAll_filter _ _ hne]
  apply filter_notin_self
  intro v hv hm
  obtain ⟨a, ha, rfl⟩ := List.mem_map.mp hv
  exact h a ha ((mem_uniq old _).mp hm)

/-- unsetup in any order (e.g. reversed) restores as well -/
theorem unsetupAll_reverse_setupAll (acts : List (Bool × α)) (old : List α) (hne : acts ≠ [])
    (h : ∀ a ∈ acts, a.2 ∉ old) :
    unsetupAll acts.reverse (setupAll acts old) = uniq old := by
  rw [unsetupAll_reverse]; exact unsetupAll_setupAll acts old hne h

/-! ## D. idempotence -/

theorem applyL_idem (app : Bool) (v : α) (old : List α) :
    applyL app true [v] (applyL app true [v] old) = applyL app true [v] old := by
  rw [applyL_setup_single app v (applyL app true [v] old), uniq_applyL, applyL_setup_single]
  cases app <;> simp [List.filter_append, List.filter_filter]

/-- setting a table up twice is setting it up once -/
theorem setupAll_idem (acts : List (Bool × α)) (old : List α) :
    setupAll acts (setupAll acts old) = setupAll acts old := by
  by_cases hne : acts = []
  · subst hne; rfl
  · rw [setupAll_eq acts (setupAll acts old) hne,
      setupAll_others acts old _ (fun a ha => List.mem_map.mpr ⟨a, ha, rfl⟩), ← setupAll_eq acts old hne]

/-! ## E. order laws for two different values -/

/-- the later prepend wins the front -/
theorem prepend_prepend (a b : α) (hab : a ≠ b) (old : List α) :
    applyL false true [b] (applyL false true [a] old)
      = b :: a :: (uniq old).filter (fun x => x != a && x != b) := by
  rw [applyL_prepend_single b, uniq_applyL, applyL_prepend_single]
  simp [hab, List.filter_filter, Bool.and_comm]

/-- the later append wins the end -/
theorem append_append (a b : α) (hab : a ≠ b) (old : List α) :
    applyL true true [b] (applyL true true [a] old)
      = (uniq old).filter (fun x => x != a && x != b) ++ [a, b] := by
  rw [applyL_append_single b, uniq_applyL, applyL_append_single]
  simp [List.filter_append, hab, List.filter_filter, Bool.and_comm]

/-- a prepend and an append of different values commute -/
theorem prepend_append_comm (a b : α) (hab : a ≠ b) (old : List α) :
    applyL true true [b] (applyL false true [a] old)
      = applyL false true [a] (applyL true true [b] old) := by
  rw [applyL_append_single b, uniq_applyL, applyL_prepend_single a (applyL _ _ _ _), uniq_applyL,
    applyL_prepend_single, applyL_append_single]
  have hba : b ≠ a := fun e => hab e.symm
  simp [List.filter_append, hab, hba, filter_ne_comm a b]

/-- both results written out -/
theorem prepend_append (a b : α) (hab : a ≠ b) (old : List α) :
    applyL true true [b] (applyL false true [a] old)
      = a :: (uniq old).filter (fun x => x != a && x != b) ++ [b] := by
  rw [applyL_append_single b, uniq_applyL, applyL_prepend_single]
  simp [hab, List.filter_filter, Bool.and_comm]

/-- unsetup of `a` does not disturb the setup of another value `b` -/
theorem remove_setup_comm (app app2 : Bool) (a b : α) (hab : a ≠ b) (l : List α) :
    applyL app2 false [a] (applyL app true [b] l)
      = applyL app true [b] (applyL app2 false [a] l) := by
  rw [applyL_remove_single, uniq_applyL, applyL_setup_single app b (applyL _ _ _ _), uniq_applyL,
    applyL_remove_single, applyL_setup_single]
  have hba : b ≠ a := fun e => hab e.symm
  cases app <;> simp [List.filter_append, hba, filter_ne_comm a b]

/-- two unsetup actions commute (any values) -/
theorem remove_remove_comm (app app2 : Bool) (a b : α) (l : List α) :
    applyL app2 false [a] (applyL app false [b] l)
      = applyL app false [b] (applyL app2 false [a] l) := by
  rw [applyL_remove_single, uniq_applyL, applyL_remove_single, applyL_remove_single, uniq_applyL,
    applyL_remove_single, filter_ne_comm]

/-! ## F. values of several pieces -/

omit [DecidableEq α] in
theorem foldl_prependL_reverse (vals old : List α) :
    vals.reverse.foldl (fun np v => prependL v np) old = vals ++ old := by
  induction vals with
  | nil => rfl
  | cons v vs ih =>
    rw [List.reverse_cons, List.foldl_append, ih]; rfl

/-- a prepended value of several pieces: the pieces come first, in the order written -/
theorem applyL_prepend_vals (vals old : List α) : applyL false true vals old = uniq (vals ++ old) := by
  have : loopVals false true vals = vals.reverse := by simp [loopVals]
  simp only [applyL, this, if_true, Bool.false_eq_true, if_false]
  rw [foldl_prependL_reverse]

theorem foldl_removeL (vals old : List α) :
    vals.foldl (fun np v => removeL v np) old = old.filter (fun x => decide (x ∉ vals)) := by
  induction vals generalizing old with
  | nil => simp only [List.foldl_nil, filter_notin_nil]
  | cons v vs ih => rw [List.foldl_cons, ih, removeL, filter_ne_notin]

/-- unsetup of a value of several pieces removes exactly its pieces -/
theorem applyL_remove_vals (app : Bool) (vals old : List α) :
    applyL app false vals old = (uniq old).filter (fun x => decide (x ∉ vals)) := by
  have : loopVals app false vals = vals := by simp [loopVals]
  simp only [applyL, this]
  simp only [Bool.false_eq_true, if_false]
  rw [foldl_removeL, filter_uniq]

theorem uniq_foldl_appendL (vals old : List α) (hnd : vals.Nodup) :
    uniq (vals.foldl (fun np v => appendL v np) old)
      = (uniq old).filter (fun x => decide (x ∉ vals)) ++ vals := by
  induction vals generalizing old with
  | nil => simp only [List.foldl_nil, filter_notin_nil, List.append_nil]
  | cons v vs ih =>
    have hv : v ∉ vs := (List.nodup_cons.mp hnd).1
    rw [List.foldl_cons, ih _ (List.nodup_cons.mp hnd).2, uniq_appendL, List.filter_append,
      filter_ne_notin]
    simp [hv]

/-- an appended value of several (different) pieces: the pieces come last, in the order written -/
theorem applyL_append_vals (vals old : List α) (hnd : vals.Nodup) :
    applyL true true vals old = (uniq old).filter (fun x => decide (x ∉ vals)) ++ vals := by
  have : loopVals true true vals = vals := by simp [loopVals]
  simp only [applyL, this, if_true]
  exact uniq_foldl_appendL vals old hnd

/-- `hnd` is needed: a piece written twice is of course there once -/
theorem applyL_append_vals_dup_witness :
    applyL true true [1, 1] [2] ≠ ([2] : List Nat).filter (fun x => decide (x ∉ [1, 1])) ++ [1, 1] := by
  decide

/-- the pinned rule (before the repair of D121) visited the pieces first to last, so a prepended value of
several pieces came out reversed -/
theorem prepend_multi_reversed_pinned : applyLPinned false true [1, 2] [3] = [2, 1, 3] := by decide

/-- … the repaired rule keeps the order written -/
theorem prepend_multi_in_order : applyL false true [1, 2] [3] = [1, 2, 3] := by decide

/-! ## non-vacuity (prior lists with duplicates) -/

example : setupAll [(false, 5), (true, 6), (false, 7)] [1, 2, 1, 6, 2] = [7, 5, 1, 2, 6] := by decide
example : front [(false, 5), (true, 6), (false, 7)] = [7, 5] := by decide
example : back [(false, 5), (true, 6), (false, 7)] = [6] := by decide
example : front [(false, 5), (true, 5)] = ([] : List Nat) ∧ back [(false, 5), (true, 5)] = [5] := by decide
example : unsetupAll [(false, 5), (true, 6), (false, 7)]
    (setupAll [(false, 5), (true, 6), (false, 7)] [1, 2, 1, 3, 2]) = [1, 2, 3] := by decide
example : unsetupAll [(false, 5), (true, 6)] (setupAll [(false, 5), (true, 6)] [1, 6, 1]) = [1] := by decide
example : unsetupAll [(true, 2), (false, 1)] [1, 3, 1, 2, 3, 4] = [3, 4] := by decide
example : applyL true true [4, 5] [1, 4, 1, 2] = [1, 2, 4, 5] := by decide
example : applyL false true [4, 5] [1, 4, 1, 2] = [4, 5, 1, 2] := by decide
example : applyL false false [4, 1] [1, 4, 1, 2, 2] = [2] := by decide
example : applyL false true [2] (applyL false true [1] [3, 1, 3, 2]) = [2, 1, 3] := by decide

end EupsModel.PathAlg
