import EupsModel.Lemmas.RecordDir
/-! Histories of database-layer operations on the records of one product (C16): blocks of the flavors the history does
not operate on never change, and an undeclared flavor stays gone until it is declared again. -/
set_option linter.unusedSimpArgs false
set_option linter.unusedVariables false
namespace EupsModel.Record

/-- one database-layer operation on the records of a product -/
inductive DbOp where
  | undeclare (version flavor : Str)
  | unassign (tag flavor : Str)
  | assign (name tag version flavor who now : Str)
  /-- `Database.declare` as far as the record is concerned: the block of `flavor` in the record of `version` becomes `i`
  (the record is created if need be) -/
  | declare (name version flavor : Str) (i : Info)
  deriving Repr

def DbOp.flavor : DbOp → Str
  | .undeclare _ f => f
  | .unassign _ f => f
  | .assign _ _ _ f _ _ => f
  | .declare _ _ f _ => f

def PDir.declare (d : PDir) (name version flavor : Str) (i : Info) : PDir :=
  let r : VRec := match dget d.versions version with
    | some r => r
    | none => { name := some name, version := some version, flavors := [] }
  { d with versions := dset d.versions version { r with flavors := dset r.flavors flavor i } }

def PDir.apply (d : PDir) : DbOp → PDir
  | .undeclare v f => d.undeclare v f
  | .unassign t f => d.unassignTag t f
  | .assign n t v f w now => d.assignTag n t v f w now
  | .declare n v f i => d.declare n v f i

def PDir.run (d : PDir) (ops : List DbOp) : PDir := ops.foldl PDir.apply d

theorem declare_blocks (d : PDir) (name version flavor f' : Str) (i : Info) (hf : f' ≠ flavor) :
    (∀ t, (d.declare name version flavor i).blockC t f' = d.blockC t f') ∧
    (∀ v, (d.declare name version flavor i).blockV v f' = d.blockV v f') := by
  refine ⟨fun t => rfl, fun v => ?_⟩
  unfold PDir.declare PDir.blockV
  by_cases hv : v = version
  · subst hv
    simp only [dget_dset_self, Option.bind_some]
    rw [dget_dset_other _ _ _ _ hf]
    cases hg : dget d.versions v with
    | none => simp [dget]
    | some r => simp
  · simp only [dget_dset_other _ _ _ _ hv]

theorem apply_blocks (d : PDir) (op : DbOp) (g : Str) (h : op.flavor ≠ g) :
    (∀ t, (d.apply op).blockC t g = d.blockC t g) ∧ (∀ v, (d.apply op).blockV v g = d.blockV v g) := by
  have h' : g ≠ op.flavor := fun e => h e.symm
  cases op with
  | undeclare v f => exact undeclare_blocks d v f g h'
  | unassign t f =>
    obtain ⟨h1, h2⟩ := unassignTag_blocks d t f g h'
    exact ⟨h1, fun v => by simp only [PDir.apply, PDir.blockV, h2]⟩
  | assign n t v f w now => exact assignTag_blocks d n t v f w now g h'
  | declare n v f i => exact declare_blocks d n v f g i h'

/-- **A history leaves the flavors it does not operate on alone** -/
theorem run_blocks (ops : List DbOp) (g : Str) (h : ∀ op ∈ ops, op.flavor ≠ g) : ∀ d : PDir,
    (∀ t, (d.run ops).blockC t g = d.blockC t g) ∧ (∀ v, (d.run ops).blockV v g = d.blockV v g) := by
  induction ops with
  | nil => intro d; exact ⟨fun _ => rfl, fun _ => rfl⟩
  | cons op r ih =>
    intro d
    simp only [PDir.run, List.foldl_cons]
    obtain ⟨h1, h2⟩ := ih (fun o ho => h o (by simp [ho])) (d.apply op)
    obtain ⟨h3, h4⟩ := apply_blocks d op g (h op (by simp))
    simp only [PDir.run] at h1 h2
    exact ⟨fun t => by rw [h1, h3], fun v => by rw [h2, h4]⟩

/-- `Database.undeclare` removes the block -/
theorem undeclare_gone (d : PDir) (version flavor : Str) : (d.undeclare version flavor).blockV version flavor = none := by
  unfold PDir.undeclare
  cases hg : dget d.versions version with
  | none => simp [PDir.blockV, hg]
  | some vr =>
    simp only
    split
    · rename_i hn
      simp only [PDir.blockV, hg, Option.bind_some]
      simpa using hn
    · have hne : flavor ++ [0] ≠ flavor := by
        intro e
        have := congrArg List.length e
        simp at this
      obtain ⟨_, h2⟩ := unassignAll_blocks (d.findTags version flavor) flavor (flavor ++ [0]) hne d
      simp only [PDir.blockV]
      rw [h2]
      unfold putV
      split
      · rw [dget_ddel_self]; rfl
      · rw [dget_dset_self]
        simp [dget_ddel_self]

/-- **An undeclared flavor stays gone**: after `Database.undeclare` of `(version, flavor)` and any history of
operations on other flavors (declarations of the same version included), the record of `version` has no block for
`flavor`. -/
theorem undeclared_stays_gone (d : PDir) (version flavor : Str) (ops : List DbOp) (h : ∀ op ∈ ops, op.flavor ≠ flavor) :
    ((d.undeclare version flavor).run ops).blockV version flavor = none := by
  rw [(run_blocks ops flavor h (d.undeclare version flavor)).2 version]
  exact undeclare_gone d version flavor

end EupsModel.Record
