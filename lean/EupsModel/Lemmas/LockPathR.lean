import EupsModel.Model.LockPathR
import EupsModel.Lemmas.LockR
/-! C09, repaired protocol, several stacks — every component of a path run is a run of the single-directory model
(projection), so `LockR.Inv` holds of every stack; and the invariant `Held`: a process whose `takeLocks` works on path
element `k` holds the elements before it, a process in its command body holds every element of its path (distinct
elements, as `Eups.setEupsPath` produces them). -/
namespace EupsModel.LockPathR
open EupsModel.Lock (Pid Kind Err)
open EupsModel.LockR

variable {S : PSt} {i : Pid}

@[simp] theorem setCtl_comp (S : PSt) (i : Pid) (c : Ctl) : (setCtl S i c).comp = S.comp := rfl
@[simp] theorem setCtl_path (S : PSt) (i : Pid) (c : Ctl) : (setCtl S i c).path = S.path := rfl
@[simp] theorem setCtl_explicit (S : PSt) (i : Pid) (c : Ctl) : (setCtl S i c).explicit = S.explicit := rfl
@[simp] theorem setCtl_ctl_same (S : PSt) (i : Pid) (c : Ctl) : (setCtl S i c).ctl i = c := by simp [setCtl]
theorem setCtl_ctl_other (S : PSt) (i j : Pid) (c : Ctl) (h : j ≠ i) : (setCtl S i c).ctl j = S.ctl j := by
  simp [setCtl, h]
@[simp] theorem setComp_ctl (S : PSt) (d : Dir) (s : St) : (setComp S d s).ctl = S.ctl := rfl
@[simp] theorem setComp_path (S : PSt) (d : Dir) (s : St) : (setComp S d s).path = S.path := rfl
@[simp] theorem setComp_explicit (S : PSt) (d : Dir) (s : St) : (setComp S d s).explicit = S.explicit := rfl
@[simp] theorem setComp_comp_same (S : PSt) (d : Dir) (s : St) : (setComp S d s).comp d = s := by simp [setComp]
theorem setComp_comp_other (S : PSt) (d x : Dir) (s : St) (h : x ≠ d) : (setComp S d s).comp x = S.comp x := by
  simp [setComp, h]

theorem relComp_is_run (s : St) (i : Pid) : ∃ n, relComp s i = run s (List.replicate n i) := by
  unfold relComp
  split
  · exact ⟨2, rfl⟩
  · exact ⟨1, rfl⟩

/-- What one transition of the path model does: the control state of `i` may change, and at most one component
changes — by a run of `Lock.step` of process `i`. -/
structure Effect (S S' : PSt) (i : Pid) : Prop where
  path     : S'.path = S.path
  explicit : S'.explicit = S.explicit
  ctlOther : ∀ q, q ≠ i → S'.ctl q = S.ctl q
  comp     : ∃ d0 n, ∀ d, S'.comp d = if d = d0 then run (S.comp d) (List.replicate n i) else S.comp d

theorem effect_refl (S : PSt) (i : Pid) : Effect S S i :=
  ⟨rfl, rfl, fun _ _ => rfl, ⟨0, 0, fun d => by simp⟩⟩

theorem effect_setCtl (S : PSt) (i : Pid) (c : Ctl) : Effect S (setCtl S i c) i :=
  ⟨rfl, rfl, fun q h => setCtl_ctl_other S i q c h, ⟨0, 0, fun d => by simp⟩⟩

theorem effect_setComp (S : PSt) (i : Pid) (d0 : Dir) (n : Nat) :
    Effect S (setComp S d0 (run (S.comp d0) (List.replicate n i))) i :=
  ⟨rfl, rfl, fun _ _ => rfl, ⟨d0, n, fun d => by
    by_cases h : d = d0
    · subst h; simp
    · simp [h, setComp_comp_other S d0 d _ h]⟩⟩

theorem effect_setComp_setCtl (S : PSt) (i : Pid) (d0 : Dir) (n : Nat) (c : Ctl) :
    Effect S (setCtl (setComp S d0 (run (S.comp d0) (List.replicate n i))) i c) i := by
  have h := effect_setComp S i d0 n
  exact ⟨h.path, h.explicit, fun q hq => by rw [setCtl_ctl_other _ _ _ _ hq]; exact h.ctlOther q hq, h.comp⟩

theorem mstep_effect (S : PSt) (i : Pid) : Effect S (mstep S i) i := by
  unfold mstep
  split
  · -- acq
    split
    · exact effect_refl S i
    · rename_i d _
      have e1 : step (S.comp d) i = run (S.comp d) (List.replicate 1 i) := rfl
      simp only [e1]
      repeat' split
      all_goals first | exact effect_setComp_setCtl S i d 1 _ | exact effect_setComp S i d 1
  · -- unw
    split
    · exact effect_refl S i
    · rename_i d _
      obtain ⟨n, hn⟩ := relComp_is_run (S.comp d) i
      simp only [hn]
      repeat' split
      all_goals first | exact effect_setComp_setCtl S i d n _ | exact effect_setComp S i d n
  · -- body
    repeat' split
    all_goals exact effect_setCtl S i _
  · -- rel
    split
    · exact effect_refl S i
    · rename_i d _
      obtain ⟨n, hn⟩ := relComp_is_run (S.comp d) i
      simp only [hn]
      repeat' split
      all_goals first | exact effect_setComp_setCtl S i d n _ | exact effect_setComp S i d n
  · exact effect_refl S i

theorem mintr_effect (S : PSt) (i : Pid) : Effect S (mintr S i) i := by
  unfold mintr
  repeat' split
  all_goals first | exact effect_setCtl S i _ | exact effect_refl S i

theorem mstepE_effect (S : PSt) (e : MEv) : ∃ i, Effect S (mstepE S e) i := by
  cases e with
  | call i => exact ⟨i, mstep_effect S i⟩
  | intr i => exact ⟨i, mintr_effect S i⟩

/-- Projection: each stack's component of a path run is a run of the single-directory model. -/
theorem mrun_comp_is_run (S : PSt) (sched : List Pid) (d : Dir) :
    ∃ sd, (mrun S sched).comp d = run (S.comp d) sd := by
  induction sched generalizing S with
  | nil => exact ⟨[], rfl⟩
  | cons i r ih =>
    obtain ⟨sd, hsd⟩ := ih (mstep S i)
    obtain ⟨d0, n, hc⟩ := (mstep_effect S i).comp
    by_cases h : d = d0
    · subst h
      refine ⟨List.replicate n i ++ sd, ?_⟩
      rw [mrun_cons, hsd, hc d, run_append]; simp
    · refine ⟨sd, ?_⟩
      rw [mrun_cons, hsd, hc d]; simp [h]

theorem Effect.pc_other {S S' : PSt} {i : Pid} (h : Effect S S' i) (q : Pid) (hq : q ≠ i) (d : Dir) :
    (S'.comp d).pc q = (S.comp d).pc q := by
  obtain ⟨d0, n, hc⟩ := h.comp
  rw [hc d]
  split
  · exact run_replicate_pc_other _ i q n hq
  · rfl

theorem Effect.kind {S S' : PSt} {i : Pid} (h : Effect S S' i) (d : Dir) : (S'.comp d).kind = (S.comp d).kind := by
  obtain ⟨d0, n, hc⟩ := h.comp
  rw [hc d]; split <;> simp

theorem Effect.lp {S S' : PSt} {i : Pid} (h : Effect S S' i) (d : Dir) : (S'.comp d).lp = (S.comp d).lp := by
  obtain ⟨d0, n, hc⟩ := h.comp
  rw [hc d]; split <;> simp

theorem Effect.inv {S S' : PSt} {i : Pid} (h : Effect S S' i) (hex : ∀ d, Inv (S.comp d)) :
    ∀ d, Inv (S'.comp d) := by
  intro d
  obtain ⟨d0, n, hc⟩ := h.comp
  rw [hc d]
  split
  · exact inv_run _ _ (hex d)
  · exact hex d

theorem Effect.noRelFail {S S' : PSt} {i : Pid} (h : Effect S S' i) (hex : ∀ d, Inv (S.comp d))
    (hn : ∀ d q e, (S.comp d).pc q ≠ .failedRel e) : ∀ d q e, (S'.comp d).pc q ≠ .failedRel e := by
  intro d
  obtain ⟨d0, n, hc⟩ := h.comp
  rw [hc d]
  split
  · exact noRelFail_run _ _ (hex d) (hn d)
  · exact hn d

/-! ### what the control state promises about the stacks of the path -/

def Held (S : PSt) (p : Pid) : Prop :=
  match S.ctl p with
  | .acq k => k < (S.path p).length ∧ ∀ j d, j < k → (S.path p)[j]? = some d → (S.comp d).pc p = .hold
  | .body n _ => n = (S.path p).length ∧ ∀ j d, j < n → (S.path p)[j]? = some d → (S.comp d).pc p = .hold
  | _ => True

theorem held_minit (kind : Pid → Kind) (lp : Pid → Option Pid) (tries : Pid → Nat) (path : Pid → List Dir)
    (explicit : Pid → Bool) (p : Pid) : Held (minit kind lp tries path explicit) p := by
  unfold Held minit
  cases hp : path p with
  | nil => simp [hp]
  | cons x xs => simp [hp]

theorem held_mstep (S : PSt) (i p : Pid) (hnd : (S.path p).Nodup) (h : Held S p) : Held (mstep S i) p := by
  by_cases hpi : p = i
  · subst hpi
    cases hc : S.ctl p with
    | acq k =>
      simp only [Held, hc] at h
      obtain ⟨hk, hh⟩ := h
      have hget : (S.path p)[k]? = some ((S.path p)[k]) := List.getElem?_eq_getElem hk
      generalize (S.path p)[k] = d at hget
      have keep : ∀ j d', j < k → (S.path p)[j]? = some d' →
          ((setComp S d (step (S.comp d) p)).comp d').pc p = .hold := by
        intro j d' hj hjd
        have hne : d' ≠ d := by
          intro e; subst e
          have := (List.getElem?_inj (by omega : j < (S.path p).length) hnd).1 (hjd.trans hget.symm)
          omega
        rw [setComp_comp_other _ _ _ _ hne]; exact hh j d' hj hjd
      have last : ∀ j d', j < k + 1 → (S.path p)[j]? = some d' → (step (S.comp d) p).pc p = .hold →
          ((setComp S d (step (S.comp d) p)).comp d').pc p = .hold := by
        intro j d' hj hjd hs
        by_cases hjk : j < k
        · exact keep j d' hjk hjd
        · have : j = k := by omega
          subst this
          have : d' = d := by rw [hget] at hjd; exact (Option.some.inj hjd).symm
          subst this
          simpa using hs
      unfold mstep
      simp only [hc, hget]
      split
      · rename_i hs
        split
        · simp only [Held, setCtl_ctl_same, setCtl_path, setComp_path, setCtl_comp]
          rename_i hlt
          exact ⟨hlt, fun j d' hj hjd => last j d' hj hjd hs⟩
        · simp only [Held, setCtl_ctl_same, setCtl_path, setComp_path, setCtl_comp]
          rename_i hlt
          exact ⟨by omega, fun j d' hj hjd => last j d' hj hjd hs⟩
      · split <;> simp [Held]
      · simp only [Held, setComp_ctl, hc, setComp_path]
        exact ⟨hk, keep⟩
    | unw j k e =>
      unfold mstep
      simp only [hc]
      repeat' split
      all_goals simp [Held, hc]
    | body n reg =>
      unfold mstep
      simp only [hc]
      repeat' split
      all_goals simp [Held, hc]
    | rel j n more o =>
      unfold mstep
      simp only [hc]
      repeat' split
      all_goals simp [Held, hc]
    | fin o =>
      unfold mstep
      simp only [hc]
      simp [Held, hc]
  · have e := mstep_effect S i
    unfold Held
    rw [e.ctlOther p hpi, e.path]
    unfold Held at h
    cases hc : S.ctl p with
    | acq k =>
      simp only [hc] at h ⊢
      exact ⟨h.1, fun j d hj hjd => by rw [e.pc_other p hpi d]; exact h.2 j d hj hjd⟩
    | body n reg =>
      simp only [hc] at h ⊢
      exact ⟨h.1, fun j d hj hjd => by rw [e.pc_other p hpi d]; exact h.2 j d hj hjd⟩
    | unw j k e => trivial
    | rel j n more o => trivial
    | fin o => trivial

theorem mstep_path (S : PSt) (i : Pid) : (mstep S i).path = S.path := (mstep_effect S i).path

theorem mrunE_comp_is_run (S : PSt) (evs : List MEv) (d : Dir) :
    ∃ sd, (mrunE S evs).comp d = run (S.comp d) sd := by
  induction evs generalizing S with
  | nil => exact ⟨[], rfl⟩
  | cons e r ih =>
    obtain ⟨sd, hsd⟩ := ih (mstepE S e)
    obtain ⟨i, he⟩ := mstepE_effect S e
    obtain ⟨d0, n, hc⟩ := he.comp
    by_cases h : d = d0
    · subst h
      refine ⟨List.replicate n i ++ sd, ?_⟩
      rw [mrunE_cons, hsd, hc d, run_append]; simp
    · refine ⟨sd, ?_⟩
      rw [mrunE_cons, hsd, hc d]; simp [h]

theorem held_mintr (S : PSt) (i p : Pid) (h : Held S p) : Held (mintr S i) p := by
  by_cases hpi : p = i
  · subst hpi
    unfold mintr
    cases hc : S.ctl p with
    | body n reg => simp only []; split <;> simp [Held]
    | acq k =>
      simp only []
      split
      · split <;> simp [Held]
      · exact h
    | unw a b c => simpa [hc] using h
    | rel a b c e =>
      simp only []
      repeat' split
      all_goals simp [Held, hc]
    | fin o => simpa [hc] using h
  · have e := mintr_effect S i
    unfold Held
    rw [e.ctlOther p hpi, e.path]
    unfold Held at h
    cases hc : S.ctl p with
    | acq k =>
      simp only [hc] at h ⊢
      exact ⟨h.1, fun j d hj hjd => by rw [e.pc_other p hpi d]; exact h.2 j d hj hjd⟩
    | body n reg =>
      simp only [hc] at h ⊢
      exact ⟨h.1, fun j d hj hjd => by rw [e.pc_other p hpi d]; exact h.2 j d hj hjd⟩
    | unw j k e => trivial
    | rel j n more o => trivial
    | fin o => trivial

theorem mstepE_path (S : PSt) (e : MEv) : (mstepE S e).path = S.path := by
  obtain ⟨i, he⟩ := mstepE_effect S e; exact he.path

theorem mrunE_path (S : PSt) (evs : List MEv) : (mrunE S evs).path = S.path := by
  induction evs generalizing S with
  | nil => rfl
  | cons e r ih => rw [mrunE_cons, ih, mstepE_path]

theorem held_mrunE (S : PSt) (evs : List MEv) (hnd : ∀ p, (S.path p).Nodup) (h : ∀ p, Held S p) :
    ∀ p, Held (mrunE S evs) p := by
  induction evs generalizing S with
  | nil => exact h
  | cons e r ih =>
    rw [mrunE_cons]
    refine ih (mstepE S e) (by rw [mstepE_path]; exact hnd) (fun p => ?_)
    cases e with
    | call i => exact held_mstep S i p (hnd p) (h p)
    | intr i => exact held_mintr S i p (h p)

theorem inv_mrunE (S : PSt) (evs : List MEv) (h : ∀ d, Inv (S.comp d)) : ∀ d, Inv ((mrunE S evs).comp d) := by
  intro d
  obtain ⟨sd, hsd⟩ := mrunE_comp_is_run S evs d
  rw [hsd]; exact inv_run _ _ (h d)

theorem mrun_path (S : PSt) (sched : List Pid) : (mrun S sched).path = S.path := by
  induction sched generalizing S with
  | nil => rfl
  | cons i r ih => rw [mrun_cons, ih, mstep_path]

theorem held_mrun (S : PSt) (sched : List Pid) (hnd : ∀ p, (S.path p).Nodup) (h : ∀ p, Held S p) :
    ∀ p, Held (mrun S sched) p := by
  induction sched generalizing S with
  | nil => exact h
  | cons i r ih =>
    rw [mrun_cons]
    exact ih (mstep S i) (by rw [mstep_path]; exact hnd) (fun p => held_mstep S i p (hnd p) (h p))

theorem inv_mrun (S : PSt) (sched : List Pid) (h : ∀ d, Inv (S.comp d)) : ∀ d, Inv ((mrun S sched).comp d) := by
  intro d
  obtain ⟨sd, hsd⟩ := mrun_comp_is_run S sched d
  rw [hsd]; exact inv_run _ _ (h d)

end EupsModel.LockPathR
