import EupsModel.Lemmas.ShellEmit
namespace EupsModel.ShellEmit

/-! ### the second layer of the shell model: functions, `echo`, exit status -/

theorem feedF_nil (st : ShF) : feedF st [] = some st := rfl

theorem feedF_cons (st : ShF) (c : Nat) (r : Str) : feedF st (c :: r) = (stepF st c).bind fun s => feedF s r := by
  simp [feedF, List.foldlM_cons]

theorem feedF_append (st : ShF) (a b : Str) : feedF st (a ++ b) = (feedF st a).bind fun s => feedF s b := by
  simp [feedF, List.foldlM_append]

/-- characters the second layer hands to `stepChar` untouched outside quotes -/
def Plain (c : Nat) : Prop := c ≠ 10 ∧ c ≠ 59 ∧ c ≠ 34 ∧ c ≠ 40 ∧ c ≠ 39

instance (c : Nat) : Decidable (Plain c) := by unfold Plain; infer_instance

theorem safe_facts2 {c : Nat} (h : isSafe c = true) : c ≠ 36 ∧ c ≠ 125 ∧ c ≠ 40 ∧ c ≠ 123 ∧ c ≠ 41 ∧ c ≠ 96 ∧ c ≠ 92 := by
  simp only [isSafe, Str.isAlnum, Str.isAlpha, Str.isUpper, Str.isLower, Str.isDigit, Bool.or_eq_true,
    Bool.and_eq_true, decide_eq_true_eq, beq_iff_eq] at h
  omega

theorem safe_plain {c : Nat} (h : isSafe c = true) : Plain c := by
  have f := safe_facts h
  have g := safe_facts2 h
  exact ⟨f.2.2.2.1, f.2.2.2.2.1, f.2.2.2.2.2.1, g.2.2.1, f.1⟩

theorem stepF_plain (st : ShF) (c : Nat) (hm : st.mode = .cmd) (hd : st.dq = false) (hq : st.sh.inq = false)
    (hc : Plain c) : stepF st c = (stepChar st.sh c).map fun s => { st with sh := s } := by
  obtain ⟨h1, h2, h3, h4, h5⟩ := hc
  simp [stepF, hm, hd, hq, h1, h2, h3, h4, h5]

theorem stepF_inq (st : ShF) (c : Nat) (hm : st.mode = .cmd) (hq : st.sh.inq = true) :
    stepF st c = (stepChar st.sh c).map fun s => { st with sh := s } := by
  simp [stepF, hm, hq]

theorem stepChar_keeps_unquoted (st s : Sh) (c : Nat) (hq : st.inq = false) (hc : c ≠ 39)
    (h : stepChar st c = some s) : s.inq = false := by
  simp only [stepChar, hq, Bool.false_eq_true, if_false, beq_iff_eq, hc] at h
  split at h
  · cases h; unfold endWord; split <;> simp [hq]
  · split at h
    · cases he : exec st.env (endWord st).args with
      | none => simp [he] at h
      | some e => simp only [he, Option.map_some, Option.some.injEq] at h; subst h; rfl
    · split at h
      · split at h
        · cases h
        · cases he : exec st.env (endWord st).args with
          | none => simp [he] at h
          | some e => simp only [he, Option.map_some, Option.some.injEq] at h; subst h; rfl
      · split at h
        · cases h; rfl
        · cases h

theorem feedF_plain (text : Str) : ∀ (st : ShF), st.mode = .cmd → st.dq = false → st.sh.inq = false →
    (∀ c ∈ text, Plain c) → feedF st text = (feed st.sh text).map fun s => { st with sh := s } := by
  induction text with
  | nil => intro st _ _ _ _; simp [feedF_nil, feed_nil]
  | cons c r ih =>
    intro st hm hd hq hp
    rw [feedF_cons, feed_cons, stepF_plain st c hm hd hq (hp c (by simp))]
    cases hs : stepChar st.sh c with
    | none => simp
    | some s =>
      simp only [Option.map_some, Option.bind_some]
      have hq' := stepChar_keeps_unquoted st.sh s c hq (hp c (by simp)).2.2.2.2 hs
      rw [ih { st with sh := s } hm hd hq' (fun d hd' => hp d (by simp [hd']))]

theorem feedF_quoted (v : Str) : ∀ (st : ShF) (a : Str), st.mode = .cmd → st.sh.inq = true → st.sh.cur = some a →
    (∀ c ∈ v, c ≠ 39) →
    feedF st (v ++ [39]) = some { st with sh := { st.sh with inq := false, cur := some (a ++ v) } } := by
  intro st a hm hq hc hv
  have h1 : ∀ (text : Str) (st : ShF), st.mode = .cmd → st.sh.inq = true → (∀ c ∈ text, c ≠ 39) →
      feedF st (text ++ [39]) = (feed st.sh (text ++ [39])).map fun s => { st with sh := s } := by
    intro text
    induction text with
    | nil =>
      intro st hm hq _
      simp [feedF_cons, feedF_nil, feed_cons, feed_nil, stepF_inq st 39 hm hq]
    | cons c r ih =>
      intro st hm hq hv
      rw [List.cons_append, feedF_cons, feed_cons, stepF_inq st c hm hq]
      have hne : c ≠ 39 := hv c (by simp)
      cases hs : stepChar st.sh c with
      | none => simp
      | some s =>
        simp only [Option.map_some, Option.bind_some]
        have hq' : s.inq = true := by
          simp only [stepChar, hq, if_true, beq_iff_eq, hne, if_false, Option.some.injEq] at hs
          rw [← hs]
        rw [ih { st with sh := s } hm hq' (fun d hd' => hv d (by simp [hd']))]
  rw [h1 v st hm hq hv, feed_quoted v st.sh a hq hc hv]
  rfl


/-- between two commands -/
def cleanF (env fs : Env) (out : List Str) (stt : Nat) : ShF :=
  { sh := clean env, funcs := fs, out := out, status := stt }

/-- the finished words, with the word being read (if any) -/
def flushW (a : List Str) : Option Str → List Str
  | none => a
  | some x => a ++ [x]

/-- word splitting of a plain command line (blanks separate words) -/
def scanW : List Str × Option Str → Str → List Str × Option Str
  | s, [] => s
  | (a, w), c :: r => if c == 32 || c == 9 then scanW (flushW a w, none) r else scanW (a, push w c) r

/-- the words of an alias value -/
def bodyWords (v : Str) : List Str := flushW (scanW ([], none) v).1 (scanW ([], none) v).2

/-- alias values covered by the theorems: a plain command line — words over the safe characters separated by blanks,
at least one word, the first one not a reserved word of the shell -/
def SimpleBody (v : Str) : Prop :=
  (∀ c ∈ v, isSafe c = true ∨ c = 32 ∨ c = 9) ∧ ∃ w r, bodyWords v = w :: r ∧ reservedWords.contains w = false

/-- effect of an emitted command on the shell's functions -/
def Cmd.applyF : Cmd → Env → Env
  | .aliasDef k v, fs => fs.set k (joinWith [32] (bodyWords v))
  | .aliasDel k, fs => fs.unset k
  | _, fs => fs

def applyAllF (cmds : List Cmd) (fs : Env) : Env := cmds.foldl (fun e c => c.applyF e) fs

theorem applyAllF_cons (c : Cmd) (r : List Cmd) (e : Env) : applyAllF (c :: r) e = applyAllF r (c.applyF e) := rfl
theorem applyAllF_append (a b : List Cmd) (e : Env) : applyAllF (a ++ b) e = applyAllF b (applyAllF a e) := by
  simp [applyAllF, List.foldl_append]

/-- commands whose evaluation `shEvalF` covers, in a shell whose environment is `env` and whose functions are `fs` -/
def Cmd.GoodAt (env fs : Env) : Cmd → Prop
  | .setVar k v => isIdent k = true ∧ Writable v
  | .unsetVar k => isIdent k = true ∧ (env.has k = true ∨ fs.has k = false)
  | .aliasDef k v => fnNameOk k = true ∧ SimpleBody v
  | .aliasDel k => isIdent k = true

def GoodSeq : Env → Env → List Cmd → Prop
  | _, _, [] => True
  | env, fs, c :: r => c.GoodAt env fs ∧ GoodSeq (c.apply env) (c.applyF fs) r

theorem goodSeq_append (a b : List Cmd) : ∀ env fs, GoodSeq env fs (a ++ b) ↔
    GoodSeq env fs a ∧ GoodSeq (applyAll a env) (applyAllF a fs) b := by
  induction a with
  | nil => intro env fs; simp [GoodSeq, applyAll_nil, applyAllF]
  | cons c r ih =>
    intro env fs
    simp only [List.cons_append, GoodSeq, applyAll_cons, applyAllF_cons, ih, and_assoc]

/-! #### the body of a function -/

theorem stepBody_safe (b : Body) (c : Nat) (hq : b.inq = false) (hp : b.pend = 0) (hc : isSafe c = true) :
    stepBody b c = some (.inr { b with cur := push b.cur c }) := by
  have f := safe_facts hc
  have g := safe_facts2 hc
  simp [stepBody, hq, hp, hc, f.1, f.2.1, f.2.2.1, f.2.2.2.1, f.2.2.2.2.1, f.2.2.2.2.2.1, g.1, g.2.1]

theorem stepBody_blank (b : Body) (c : Nat) (hq : b.inq = false) (hp : b.pend = 0) (hc : c = 32 ∨ c = 9) :
    stepBody b c = some (.inr b.endWord) := by
  rcases hc with rfl | rfl <;> simp [stepBody, hq, hp]

theorem feedF_body_simple (k : Str) (v : Str) : ∀ (st : ShF) (cm : List (List Str)) (a : List Str) (w : Option Str),
    st.mode = .body k { cmds := cm, args := a, cur := w } →
    (∀ c ∈ v, isSafe c = true ∨ c = 32 ∨ c = 9) →
    feedF st v = some { st with mode := .body k { cmds := cm, args := (scanW (a, w) v).1, cur := (scanW (a, w) v).2 } } := by
  induction v with
  | nil => intro st cm a w hm _; simp [feedF_nil, scanW, ← hm]
  | cons c r ih =>
    intro st cm a w hm hv
    rw [feedF_cons]
    rcases hv c (by simp) with hc | hc
    · have f := safe_facts hc
      have : stepF st c = some { st with mode := .body k { cmds := cm, args := a, cur := push w c } } := by
        simp [stepF, hm, stepBody_safe { cmds := cm, args := a, cur := w } c rfl rfl hc]
      rw [this]
      simp only [Option.bind_some]
      rw [ih _ cm a (push w c) rfl (fun d hd => hv d (by simp [hd]))]
      simp [scanW, f.2.1, f.2.2.1]
    · have : stepF st c = some { st with mode := .body k { cmds := cm, args := flushW a w, cur := none } } := by
        simp only [stepF, hm, stepBody_blank { cmds := cm, args := a, cur := w } c rfl rfl hc]
        cases w <;> simp [Body.endWord, flushW]
      rw [this]
      simp only [Option.bind_some]
      rw [ih _ cm _ none rfl (fun d hd => hv d (by simp [hd]))]
      have hb : (c == 32 || c == 9) = true := by rcases hc with rfl | rfl <;> rfl
      simp [scanW, hb]

theorem feedF_fn_close (k : Str) (st : ShF) (a : List Str) (w' : Option Str) (w : Str) (r : List Str)
    (hm : st.mode = .body k { cmds := [], args := a, cur := w' }) (hw : flushW a w' = w :: r)
    (hres : reservedWords.contains w = false) :
    feedF st [32, 59, 32, 125] =
      some { st with mode := .afterFn, funcs := st.funcs.set k (joinWith [32] (w :: r)), status := 0 } := by
  have h1 : stepF st 32 = some { st with mode := .body k { cmds := [], args := w :: r, cur := none } } := by
    simp only [stepF, hm, stepBody_blank { cmds := [], args := a, cur := w' } 32 rfl rfl (Or.inl rfl)]
    cases w' <;> simp_all [Body.endWord, flushW]
  have h2 : stepF { st with mode := .body k { cmds := [], args := w :: r, cur := none } } 59 =
      some { st with mode := .body k { cmds := [w :: r], args := [], cur := none } } := by
    have hres' : w ∉ reservedWords := by simpa using hres
    simp [stepF, stepBody, Body.endWord, Body.endCmd, hres']
  have h3 : stepF { st with mode := .body k { cmds := [w :: r], args := [], cur := none } } 32 =
      some { st with mode := .body k { cmds := [w :: r], args := [], cur := none } } := by
    simp [stepF, stepBody, Body.endWord]
  have h4 : stepF { st with mode := .body k { cmds := [w :: r], args := [], cur := none } } 125 =
      some { st with mode := .afterFn, funcs := st.funcs.set k (joinWith [32] (w :: r)), status := 0 } := by
    simp [stepF, stepBody, bodyText, joinWith]
  simp [feedF_cons, feedF_nil, h1, h2, h3, h4]

theorem feedF_fn_open (k : Str) (st : ShF) (hm : st.mode = .cmd) (hd : st.dq = false) (hq : st.q = false)
    (hsh : st.sh = { env := st.sh.env, args := [], cur := some k, inq := false }) (hk : fnNameOk k = true) :
    feedF st [40, 41, 32, 123, 32] = some { st with sh := clean st.sh.env, mode := .body k {} } := by
  have h1 : stepF st 40 = some { st with sh := clean st.sh.env, mode := .fnParen k } := by
    rw [stepF, hm]
    simp only
    rw [hsh]
    simp [hd, hk, hq]
  rw [feedF_cons, h1]
  simp [feedF_cons, feedF_nil, stepF]

/-! #### one emitted command -/

/-- reader state after the words of a variable command, before its terminator -/
def midF (env fs : Env) (out : List Str) (stt : Nat) (qv : Bool) (ws : List Str) (w1 : Str) : ShF :=
  { sh := mid env ws w1, funcs := fs, out := out, status := stt, q := qv }

theorem feed_export_prefix (env : Env) (k : Str) (hk : isIdent k = true) :
    feed (clean env) (sExport ++ [32] ++ k ++ [61]) =
      some { env := env, args := [sExport], cur := some (k ++ [61]), inq := false } := by
  have hks := ident_safe hk
  have hk61 : ∀ c ∈ k ++ [61], isSafe c = true := by
    intro c hc
    rcases List.mem_append.mp hc with h | h
    · exact hks c h
    · simp at h; subst h; decide
  rw [show sExport ++ [32] ++ k ++ [61] = (sExport ++ [32]) ++ (k ++ [61]) by simp,
    feed_append, feed_keyword env sExport (by decide) (by decide)]
  simp only [Option.bind_some]
  rw [feed_safe (k ++ [61]) _ rfl hk61 (by simp)]
  simp

theorem feedF_setVar (env fs : Env) (out : List Str) (stt : Nat) (k v : Str) (hk : isIdent k = true)
    (hv : Writable v) :
    ∃ qv, feedF (cleanF env fs out stt) (Cmd.text (.setVar k v)) =
      some (midF env fs out stt qv [sExport] (k ++ 61 :: v)) := by
  have hks := ident_safe hk
  have hpre : ∀ c ∈ sExport ++ [32] ++ k ++ [61], Plain c := by
    intro c hc
    simp only [List.mem_append, List.mem_singleton] at hc
    rcases hc with ((hc | hc) | hc) | hc
    · revert c; decide
    · subst hc; decide
    · exact safe_plain (hks c hc)
    · subst hc; decide
  simp only [Cmd.text]
  rcases emitVal_writable hv with ⟨h, hnq⟩ | ⟨h, hsafe⟩
  · refine ⟨true, ?_⟩
    rw [h, feedF_append, feedF_plain _ (cleanF env fs out stt) rfl rfl rfl hpre]
    simp only [cleanF, feed_export_prefix env k hk, Option.map_some, Option.bind_some]
    rw [feedF_cons]
    have : stepF ({ sh := { env := env, args := [sExport], cur := some (k ++ [61]), inq := false }, funcs := fs,
                    out := out, status := stt } : ShF) 39 =
        some ({ sh := { env := env, args := [sExport], cur := some (k ++ [61]), inq := true }, funcs := fs, out := out,
                status := stt, q := true } : ShF) := by
      simp [stepF, stepChar]
    rw [this]
    simp only [Option.bind_some]
    rw [feedF_quoted v _ (k ++ [61]) rfl rfl rfl hnq]
    simp [midF, mid]
  · refine ⟨false, ?_⟩
    have hall : ∀ c ∈ sExport ++ [32] ++ k ++ [61] ++ emitVal v, Plain c := by
      intro c hc
      rcases List.mem_append.mp hc with hc | hc
      · exact hpre c hc
      · rw [h] at hc; exact safe_plain (hsafe c hc)
    rw [feedF_plain _ (cleanF env fs out stt) rfl rfl rfl hall]
    have := feed_setVar env k v hk hv
    simp only [Cmd.text] at this
    simp only [cleanF, this, midF, Option.map_some]

theorem feedF_unsetVar (env fs : Env) (out : List Str) (stt : Nat) (k : Str) (hk : isIdent k = true) :
    feedF (cleanF env fs out stt) (Cmd.text (.unsetVar k)) = some (midF env fs out stt false [sUnset] k) := by
  have hks := ident_safe hk
  have hall : ∀ c ∈ Cmd.text (.unsetVar k), Plain c := by
    intro c hc
    simp only [Cmd.text, List.mem_append, List.mem_singleton] at hc
    rcases hc with (hc | hc) | hc
    · revert c; decide
    · subst hc; decide
    · exact safe_plain (hks c hc)
  rw [feedF_plain _ (cleanF env fs out stt) rfl rfl rfl hall]
  simp [cleanF, feed_unsetVar env k hk, midF]

theorem feedF_aliasDel (env fs : Env) (out : List Str) (stt : Nat) (k : Str) (hk : isIdent k = true) :
    feedF (cleanF env fs out stt) (Cmd.text (.aliasDel k)) = some (midF env fs out stt false [sUnset, sDashF] k) := by
  have hks := ident_safe hk
  have hall : ∀ c ∈ Cmd.text (.aliasDel k), Plain c := by
    intro c hc
    simp only [Cmd.text, List.mem_append, List.mem_singleton] at hc
    rcases hc with (((hc | hc) | hc) | hc) | hc
    · revert c; decide
    · subst hc; decide
    · revert c; decide
    · subst hc; decide
    · exact safe_plain (hks c hc)
  rw [feedF_plain _ (cleanF env fs out stt) rfl rfl rfl hall]
  simp [cleanF, feed_aliasDel env k hk, midF]

theorem term_setVar (env fs : Env) (out : List Str) (stt : Nat) (qv : Bool) (k v : Str) (hk : isIdent k = true)
    (t : Nat) (ht : t = 59 ∨ t = 10) :
    stepF (midF env fs out stt qv [sExport] (k ++ 61 :: v)) t = some (cleanF (env.set k v) fs out 0) := by
  have he := exec_export env k v hk
  have h1 : (sExport == sEcho) = false := by decide
  have h2 : (sExport == sUnset) = false := by decide
  have h3 : (sExport == sFalse) = false := by decide
  rcases ht with rfl | rfl
  · have := step_semicolon env [sExport] (k ++ 61 :: v) _ he
    simp only [mid] at this
    simp [stepF, midF, mid, endWord, h1, h2, h3, this, cleanF, fnEffect]
  · have := step_newline_mid env [sExport] (k ++ 61 :: v) _ he
    simp only [mid] at this
    simp [stepF, midF, mid, endWord, h1, h2, h3, this, cleanF, fnEffect]

theorem term_unsetVar (env fs : Env) (out : List Str) (stt : Nat) (qv : Bool) (k : Str) (hk : isIdent k = true)
    (hok : env.has k = true ∨ fs.has k = false) (t : Nat) (ht : t = 59 ∨ t = 10) :
    stepF (midF env fs out stt qv [sUnset] k) t = some (cleanF (env.unset k) fs out 0) := by
  have he := exec_unset env k hk
  have h1 : (sUnset == sEcho) = false := by decide
  have h3 : (sUnset == sFalse) = false := by decide
  have h4 : (k == sDashF) = false := by simpa using ident_ne_dashF hk
  have h5 : unsetVarsOk env fs [k] = true := by
    rcases hok with h | h <;> simp [unsetVarsOk, h]
  rcases ht with rfl | rfl
  · have := step_semicolon env [sUnset] k _ he
    simp only [mid] at this
    simp [stepF, midF, mid, endWord, h1, h3, h4, h5, this, cleanF, fnEffect]
  · have := step_newline_mid env [sUnset] k _ he
    simp only [mid] at this
    simp [stepF, midF, mid, endWord, h1, h3, h4, h5, this, cleanF, fnEffect]

theorem term_aliasDel (env fs : Env) (out : List Str) (stt : Nat) (qv : Bool) (k : Str) (hk : isIdent k = true)
    (t : Nat) (ht : t = 59 ∨ t = 10) :
    stepF (midF env fs out stt qv [sUnset, sDashF] k) t = some (cleanF env (fs.unset k) out 0) := by
  have he := exec_unset_f env k hk
  have h1 : (sUnset == sEcho) = false := by decide
  have h3 : (sUnset == sFalse) = false := by decide
  rcases ht with rfl | rfl
  · have := step_semicolon env [sUnset, sDashF] k _ he
    simp only [mid] at this
    simp [stepF, midF, mid, endWord, h1, h3, this, cleanF, fnEffect]
  · have := step_newline_mid env [sUnset, sDashF] k _ he
    simp only [mid] at this
    simp [stepF, midF, mid, endWord, h1, h3, this, cleanF, fnEffect]

theorem fnNameOk_ident {k : Str} (h : fnNameOk k = true) : isIdent k = true := by
  simp only [fnNameOk, Bool.and_eq_true] at h
  exact h.1.1

/-- state after `NAME() { BODY ; }`, before the terminator -/
def afterF (env fs : Env) (out : List Str) : ShF :=
  { sh := clean env, funcs := fs, out := out, status := 0, mode := .afterFn }

theorem feedF_aliasDef (env fs : Env) (out : List Str) (stt : Nat) (k v : Str) (hk : fnNameOk k = true)
    (hv : SimpleBody v) :
    feedF (cleanF env fs out stt) (Cmd.text (.aliasDef k v)) =
      some (afterF env (fs.set k (joinWith [32] (bodyWords v))) out) := by
  have hid := fnNameOk_ident hk
  have hks := ident_safe hid
  have hkne : k ≠ [] := by intro h; subst h; simp [isIdent] at hid
  obtain ⟨hchars, w, r, hw, hres⟩ := hv
  simp only [Cmd.text]
  rw [show k ++ [40, 41, 32, 123, 32] ++ v ++ [32, 59, 32, 125] =
      k ++ ([40, 41, 32, 123, 32] ++ (v ++ [32, 59, 32, 125])) by simp]
  rw [feedF_append, feedF_plain k (cleanF env fs out stt) rfl rfl rfl (fun c hc => safe_plain (hks c hc))]
  simp only [cleanF, feed_safe k (clean env) rfl hks hkne, Option.map_some, Option.bind_some]
  rw [feedF_append, feedF_fn_open k _ rfl rfl rfl (by simp [clean]) hk]
  simp only [Option.bind_some]
  rw [feedF_append, feedF_body_simple k v _ [] [] none rfl hchars]
  simp only [Option.bind_some]
  rw [feedF_fn_close k _ _ _ w r rfl hw hres]
  rw [hw]
  simp [afterF, clean]

theorem term_aliasDef (env fs : Env) (out : List Str) (t : Nat) (ht : t = 59 ∨ t = 10) :
    stepF (afterF env fs out) t = some (cleanF env fs out 0) := by
  rcases ht with rfl | rfl <;> simp [stepF, afterF, cleanF]

theorem finishF_afterF (env fs : Env) (out : List Str) : finishF (afterF env fs out) = some (cleanF env fs out 0) := by
  simp [finishF, afterF, cleanF, clean]

theorem finishF_midF (env fs : Env) (out : List Str) (stt : Nat) (qv : Bool) (ws : List Str) (w1 : Str) :
    finishF (midF env fs out stt qv ws w1) = stepF (midF env fs out stt qv ws w1) 10 := by
  simp [finishF, midF, mid]

theorem stepF_newline_cleanF (env fs : Env) (out : List Str) (stt : Nat) :
    stepF (cleanF env fs out stt) 10 = some (cleanF env fs out stt) := by
  simp [stepF, cleanF, clean, endWord]

theorem finishF_cleanF (env fs : Env) (out : List Str) (stt : Nat) :
    finishF (cleanF env fs out stt) = some (cleanF env fs out stt) := by
  simp [finishF, stepF, cleanF, clean, endWord]

/-- a good command leaves the reader in a state from which `;`, a newline or the end of the text complete it with
exactly the command's effect on environment and functions, and status 0 -/
theorem feedF_goodAt (env fs : Env) (out : List Str) (stt : Nat) (c : Cmd) (h : c.GoodAt env fs) :
    ∃ st', feedF (cleanF env fs out stt) c.text = some st' ∧
      (∀ t, t = 59 ∨ t = 10 → stepF st' t = some (cleanF (c.apply env) (c.applyF fs) out 0)) ∧
      finishF st' = some (cleanF (c.apply env) (c.applyF fs) out 0) := by
  cases c with
  | setVar k v =>
    obtain ⟨qv, hf⟩ := feedF_setVar env fs out stt k v h.1 h.2
    refine ⟨_, hf, fun t ht => term_setVar env fs out stt qv k v h.1 t ht, ?_⟩
    rw [finishF_midF]; exact term_setVar env fs out stt qv k v h.1 10 (Or.inr rfl)
  | unsetVar k =>
    refine ⟨_, feedF_unsetVar env fs out stt k h.1, fun t ht => term_unsetVar env fs out stt false k h.1 h.2 t ht, ?_⟩
    rw [finishF_midF]; exact term_unsetVar env fs out stt false k h.1 h.2 10 (Or.inr rfl)
  | aliasDef k v =>
    exact ⟨_, feedF_aliasDef env fs out stt k v h.1 h.2, fun t ht => term_aliasDef env _ out t ht, finishF_afterF env _ out⟩
  | aliasDel k =>
    refine ⟨_, feedF_aliasDel env fs out stt k h, fun t ht => term_aliasDel env fs out stt false k h t ht, ?_⟩
    rw [finishF_midF]; exact term_aliasDel env fs out stt false k h 10 (Or.inr rfl)

/-- `";\n".join` of good commands, optionally followed by the newline `print` adds: environment and functions are the
commands' effects applied in order, nothing is echoed, the status is 0 -/
theorem shEvalF_join (cmds : List Cmd) (nl : Bool) : ∀ (env fs : Env) (out : List Str) (stt : Nat),
    GoodSeq env fs cmds →
    (feedF (cleanF env fs out stt) (join (cmds.map Cmd.text) ++ (if nl then [10] else []))).bind finishF =
      some (cleanF (applyAll cmds env) (applyAllF cmds fs) out (if cmds.isEmpty then stt else 0)) := by
  induction cmds with
  | nil =>
    intro env fs out stt _
    cases nl
    · simp [join, feedF_nil, finishF_cleanF, applyAll_nil, applyAllF]
    · simp [join, feedF_cons, feedF_nil, stepF_newline_cleanF, finishF_cleanF, applyAll_nil, applyAllF]
  | cons c rest ih =>
    intro env fs out stt hg
    obtain ⟨st', hf, hterm, hfin⟩ := feedF_goodAt env fs out stt c hg.1
    cases rest with
    | nil =>
      simp only [List.map_cons, List.map_nil, join, applyAll_cons, applyAll_nil, applyAllF_cons, applyAllF,
        List.foldl_nil, List.isEmpty_cons]
      cases nl
      · simp [hf, hfin]
      · simp [feedF_append, hf, feedF_cons, feedF_nil, hterm 10 (Or.inr rfl), finishF_cleanF]
    | cons c2 rest2 =>
      have ih' := ih (c.apply env) (c.applyF fs) out 0 hg.2
      simp only [List.map_cons, join, applyAll_cons, applyAllF_cons, List.isEmpty_cons] at ih' ⊢
      rw [List.append_assoc, List.append_assoc, feedF_append, hf]
      simp only [Option.bind_some, List.cons_append, List.nil_append]
      rw [feedF_cons, hterm 59 (Or.inl rfl)]
      simp only [Option.bind_some]
      rw [feedF_cons, stepF_newline_cleanF]
      simp only [Option.bind_some]
      simpa using ih'

/-! #### the whole command list of `app.setup` -/

/-- goodness that does not depend on the shell's state -/
def Cmd.GoodStatic : Cmd → Prop
  | .setVar k v => isIdent k = true ∧ Writable v
  | .unsetVar _ => False
  | .aliasDef k v => fnNameOk k = true ∧ SimpleBody v
  | .aliasDel k => isIdent k = true

theorem goodSeq_static (l : List Cmd) : ∀ env fs, (∀ c ∈ l, c.GoodStatic) → GoodSeq env fs l := by
  induction l with
  | nil => intro _ _ _; trivial
  | cons c r ih =>
    intro env fs h
    refine ⟨?_, ih _ _ (fun d hd => h d (by simp [hd]))⟩
    have := h c (by simp)
    cases c <;> simp_all [Cmd.GoodStatic, Cmd.GoodAt]

theorem has_of_mem_keys (e : Env) (k : Str) (h : k ∈ e.map (·.1)) : e.has k = true := by
  induction e with
  | nil => simp at h
  | cons p rest ih =>
    obtain ⟨k', v'⟩ := p
    by_cases hk : k' = k
    · simp [Env.has, Env.get, hk]
    · have : k ∈ rest.map (·.1) := by
        simp only [List.map_cons, List.mem_cons] at h
        rcases h with h | h
        · exact absurd h.symm hk
        · exact h
      simpa [Env.has, Env.get, hk] using ih this

theorem goodSeq_unsets (o : Opts) (new fs : Env) (oldl : OldEnv) : ∀ e : Env, (oldl.map (·.1)).Nodup →
    (∀ p ∈ oldl, isIdent p.1 = true ∧ e.has p.1 = true) → GoodSeq e fs (oldl.filterMap (unsetCmd? o new)) := by
  induction oldl with
  | nil => intro _ _ _; trivial
  | cons p rest ih =>
    intro e hnd hall
    have hnd' : (rest.map (·.1)).Nodup := (List.nodup_cons.mp hnd).2
    have hp : p.1 ∉ rest.map (·.1) := (List.nodup_cons.mp hnd).1
    cases hc : unsetCmd? o new p with
    | none =>
      simp only [List.filterMap_cons, hc]
      exact ih e hnd' (fun q hq => hall q (by simp [hq]))
    | some c =>
      have hcv : c = Cmd.unsetVar p.1 := by
        simp only [unsetCmd?] at hc
        split at hc; · cases hc
        split at hc; · cases hc
        split at hc; · cases hc
        exact (Option.some.inj hc).symm
      subst hcv
      simp only [List.filterMap_cons, hc]
      refine ⟨⟨(hall p (by simp)).1, Or.inl (hall p (by simp)).2⟩, ?_⟩
      apply ih (e.unset p.1) hnd'
      intro q hq
      refine ⟨(hall q (by simp [hq])).1, ?_⟩
      have hne : q.1 ≠ p.1 := fun h => hp (List.mem_map.mpr ⟨q, hq, h⟩)
      have := (hall q (by simp [hq])).2
      simpa [Env.has, Env.get_unset_other e p.1 q.1 hne] using this

theorem applyAllF_vars (o : Opts) (old : OldEnv) (new fs : Env) : applyAllF (emitVarsOn o old new) fs = fs := by
  have h : ∀ (l : List Cmd), (∀ c ∈ l, (∃ k v, c = .setVar k v) ∨ ∃ k, c = .unsetVar k) → ∀ fs, applyAllF l fs = fs := by
    intro l
    induction l with
    | nil => intro _ _; rfl
    | cons c r ih =>
      intro hc fs
      rw [applyAllF_cons]
      have : c.applyF fs = fs := by
        rcases hc c (by simp) with ⟨k, v, rfl⟩ | ⟨k, rfl⟩ <;> rfl
      rw [this]
      exact ih (fun d hd => hc d (by simp [hd])) fs
  apply h
  intro c hc
  simp only [emitVarsOn, List.mem_append, List.mem_filterMap] at hc
  rcases hc with ⟨p, _, hpc⟩ | ⟨p, _, hpc⟩
  · left
    simp only [setCmd?] at hpc
    split at hpc; · cases hpc
    split at hpc; · cases hpc
    cases hpc; exact ⟨_, _, rfl⟩
  · right
    simp only [unsetCmd?] at hpc
    split at hpc; · cases hpc
    split at hpc; · cases hpc
    split at hpc; · cases hpc
    cases hpc; exact ⟨_, rfl⟩

/-- the variable commands of `app.setup` are good in sequence, whatever functions the shell holds: each `unset NAME`
finds the variable NAME still there (the caller's environment is a dictionary) -/
theorem goodSeq_vars (old : OldEnv) (base new fs : Env) (ht : Tracks old base)
    (hidb : ∀ p ∈ base, isIdent p.1 = true) (hbnd : (base.map (·.1)).Nodup)
    (hidn : ∀ p ∈ new, isIdent p.1 = true) (hnd : (new.map (·.1)).Nodup)
    (halpha : ∀ p ∈ new, old.lookup p.1 ≠ some (some p.2) → Writable p.2) :
    GoodSeq base fs (emitVarsOn {} old new) := by
  have hgood := emitVars_good old base new ht hidb hidn halpha
  rw [emitVarsOn, goodSeq_append]
  constructor
  · apply goodSeq_static
    intro c hc
    have hg := hgood c (by simp [emitVarsOn, hc])
    simp only [List.mem_filterMap] at hc
    obtain ⟨p, _, hpc⟩ := hc
    simp only [setCmd?] at hpc
    split at hpc; · cases hpc
    split at hpc; · cases hpc
    cases hpc
    exact hg
  · apply goodSeq_unsets
    · rw [ht.1]; exact hbnd
    · intro p hp
      have hmem : p.1 ∈ base.map (·.1) := by rw [← ht.1]; exact List.mem_map.mpr ⟨p, hp, rfl⟩
      obtain ⟨q, hq, hqk⟩ := List.mem_map.mp hmem
      refine ⟨by rw [← hqk]; exact hidb q hq, ?_⟩
      have hb := has_of_mem_keys base p.1 hmem
      have := exports_spec {} rfl old new hnd base (fun p _ hl => ht.2 p.1 p.2 hl) p.1
      simp only [Env.has] at hb ⊢
      rw [this]
      cases Env.get new p.1 with
      | some v => rfl
      | none => exact hb

/-! #### aliases: what the two alias loops do to the shell's functions -/

/-- canonical text of the function a plain alias value defines -/
def canon (v : Str) : Str := joinWith [32] (bodyWords v)

def defCmd? (oldAliases : List (Str × Option Str)) (p : Str × Str) : Option Cmd :=
  if (oldAliases.find? (·.1 == p.1)).map (·.2) == some (some p.2) then none else some (Cmd.aliasDef p.1 p.2)

def delCmd? (aliases : List (Str × Str)) (p : Str × Option Str) : Option Cmd :=
  if aliases.any (·.1 == p.1) then none else some (Cmd.aliasDel p.1)

theorem emitAliases_eq (al : List (Str × Str)) (oal : List (Str × Option Str)) :
    emitAliases al oal = al.filterMap (defCmd? oal) ++ oal.filterMap (delCmd? al) := by
  rfl

theorem defs_spec (oal : List (Str × Option Str)) (al : List (Str × Str)) (hnd : (al.map (·.1)).Nodup) :
    ∀ fs : Env, (∀ p ∈ al, defCmd? oal p = none → fs.get p.1 = some (canon p.2)) →
    ∀ n, (applyAllF (al.filterMap (defCmd? oal)) fs).get n =
      (match Env.get al n with | some v => some (canon v) | none => fs.get n) := by
  induction al with
  | nil => intro fs _ n; simp [Env.get, applyAllF]
  | cons p rest ih =>
    obtain ⟨k0, v0⟩ := p
    intro fs hskip n
    have hnd' : (rest.map (·.1)).Nodup := (List.nodup_cons.mp hnd).2
    have hk0 : k0 ∉ rest.map (·.1) := (List.nodup_cons.mp hnd).1
    have hget0 : Env.get rest k0 = none := by
      cases h : Env.get rest k0 with
      | none => rfl
      | some v => exact absurd (get_isSome_mem_keys rest k0 (by simp [h])) hk0
    cases hc : defCmd? oal (k0, v0) with
    | none =>
      simp only [List.filterMap_cons, hc]
      rw [ih hnd' fs (fun q hq => hskip q (by simp [hq])) n]
      by_cases hk : k0 = n
      · subst hk
        simp [Env.get, hget0, hskip (k0, v0) (by simp) hc]
      · simp [Env.get, hk]
    | some c =>
      have hcv : c = Cmd.aliasDef k0 v0 := by
        simp only [defCmd?] at hc
        split at hc
        · cases hc
        · exact (Option.some.inj hc).symm
      subst hcv
      simp only [List.filterMap_cons, hc, applyAllF_cons, Cmd.applyF]
      have hskip' : ∀ q ∈ rest, defCmd? oal q = none → (fs.set k0 (canon v0)).get q.1 = some (canon q.2) := by
        intro q hq hl
        have hne : q.1 ≠ k0 := fun h => hk0 (List.mem_map.mpr ⟨q, hq, h⟩)
        rw [Env.get_set_other fs k0 _ q.1 hne]
        exact hskip q (by simp [hq]) hl
      have := ih hnd' (fs.set k0 (canon v0)) hskip' n
      simp only [canon] at this ⊢
      rw [this]
      by_cases hk : k0 = n
      · subst hk
        simp [Env.get, hget0, Env.get_set_same]
      · simp only [Env.get, hk, if_false]
        rw [Env.get_set_other fs k0 _ n (fun h => hk h.symm)]

theorem dels_spec (al : List (Str × Str)) (oal : List (Str × Option Str)) : ∀ (fs : Env) (n : Str),
    (applyAllF (oal.filterMap (delCmd? al)) fs).get n =
      if oal.any (fun p => p.1 == n && (delCmd? al p).isSome) then none else fs.get n := by
  induction oal with
  | nil => intro fs n; simp [applyAllF]
  | cons p rest ih =>
    intro fs n
    cases hc : delCmd? al p with
    | none =>
      simp only [List.filterMap_cons, hc, List.any_cons, Option.isSome_none, Bool.and_false, Bool.false_or]
      exact ih fs n
    | some c =>
      have hcv : c = Cmd.aliasDel p.1 := by
        simp only [delCmd?] at hc
        split at hc
        · cases hc
        · exact (Option.some.inj hc).symm
      subst hcv
      simp only [List.filterMap_cons, hc, applyAllF_cons, Cmd.applyF, List.any_cons, Option.isSome_some, Bool.and_true]
      rw [ih (fs.unset p.1) n]
      by_cases hk : p.1 = n
      · subst hk
        simp [Env.get_unset_same]
      · have : (p.1 == n) = false := by simpa using hk
        simp only [this, Bool.false_or]
        rw [Env.get_unset_other fs p.1 n (fun h => hk h.symm)]

theorem applyAll_aliasCmds (al : List (Str × Str)) (oal : List (Str × Option Str)) (e : Env) :
    applyAll (emitAliases al oal) e = e := by
  have h : ∀ (l : List Cmd), (∀ c ∈ l, (∃ k v, c = .aliasDef k v) ∨ ∃ k, c = .aliasDel k) → ∀ e, applyAll l e = e := by
    intro l
    induction l with
    | nil => intro _ _; rfl
    | cons c r ih =>
      intro hc e
      rw [applyAll_cons]
      have : c.apply e = e := by
        rcases hc c (by simp) with ⟨k, v, rfl⟩ | ⟨k, rfl⟩ <;> rfl
      rw [this]
      exact ih (fun d hd => hc d (by simp [hd])) e
  apply h
  intro c hc
  rw [emitAliases_eq] at hc
  simp only [List.mem_append, List.mem_filterMap] at hc
  rcases hc with ⟨p, _, hpc⟩ | ⟨p, _, hpc⟩
  · left
    simp only [defCmd?] at hpc
    split at hpc
    · cases hpc
    · cases hpc; exact ⟨_, _, rfl⟩
  · right
    simp only [delCmd?] at hpc
    split at hpc
    · cases hpc
    · cases hpc; exact ⟨_, rfl⟩

theorem aliasCmds_static (al : List (Str × Str)) (oal : List (Str × Option Str))
    (hal : ∀ p ∈ al, fnNameOk p.1 = true ∧ SimpleBody p.2) (hoal : ∀ p ∈ oal, isIdent p.1 = true) :
    ∀ c ∈ emitAliases al oal, c.GoodStatic := by
  intro c hc
  rw [emitAliases_eq] at hc
  simp only [List.mem_append, List.mem_filterMap] at hc
  rcases hc with ⟨p, hp, hpc⟩ | ⟨p, hp, hpc⟩
  · simp only [defCmd?] at hpc
    split at hpc
    · cases hpc
    · cases hpc; exact hal p hp
  · simp only [delCmd?] at hpc
    split at hpc
    · cases hpc
    · cases hpc; exact hoal p hp

/-- what the alias loops do to the shell's functions: every alias eups holds is defined with its (canonical) text,
every alias eups removed is gone, every other function is untouched -/
theorem aliases_spec (al : List (Str × Str)) (oal : List (Str × Option Str)) (fs : Env)
    (hnd : (al.map (·.1)).Nodup)
    (htrack : ∀ p ∈ al, defCmd? oal p = none → fs.get p.1 = some (canon p.2)) (n : Str) :
    (applyAllF (emitAliases al oal) fs).get n =
      (match Env.get al n with
       | some v => some (canon v)
       | none => if oal.any (·.1 == n) then none else fs.get n) := by
  rw [emitAliases_eq, applyAllF_append, dels_spec, defs_spec oal al hnd fs htrack n]
  cases hn : Env.get al n with
  | some v =>
    have : oal.any (fun p => p.1 == n && (delCmd? al p).isSome) = false := by
      apply List.any_eq_false.mpr
      intro p _
      by_cases hk : p.1 = n
      · have hmem : al.any (·.1 == p.1) = true := by
          have := get_isSome_mem_keys al n (by simp [hn])
          obtain ⟨q, hq, hqk⟩ := List.mem_map.mp this
          exact List.any_eq_true.mpr ⟨q, hq, by simp [hqk, hk]⟩
        simp [delCmd?, hmem]
      · simp [hk]
    simp [this]
  | none =>
    have hno : ∀ p : Str × Option Str, p.1 = n → al.any (·.1 == p.1) = false := by
      intro p hp
      apply List.any_eq_false.mpr
      intro q hq
      have : q.1 ≠ n := by
        intro h
        have := has_of_mem_keys al n (List.mem_map.mpr ⟨q, hq, h⟩)
        simp [Env.has, hn] at this
      simpa [hp] using this
    have : oal.any (fun p => p.1 == n && (delCmd? al p).isSome) = oal.any (·.1 == n) := by
      congr 1
      funext p
      by_cases hk : p.1 = n
      · have h1 := hno p hk
        simp only [delCmd?, h1]
        simp [hk]
      · simp [hk]
    rw [this]

/-! #### `-n`: every command wrapped in `echo "…"` -/

/-- characters that are literal inside double quotes -/
def DqOk (c : Nat) : Prop := c ≠ 34 ∧ c ≠ 36 ∧ c ≠ 96 ∧ c ≠ 92

instance (c : Nat) : Decidable (DqOk c) := by unfold DqOk; infer_instance

theorem feedF_dq (t : Str) : ∀ (st : ShF) (a : Str), st.mode = .cmd → st.sh.inq = false → st.dq = true →
    st.sh.cur = some a → (∀ c ∈ t, DqOk c) →
    feedF st t = some { st with sh := { st.sh with cur := some (a ++ t) } } := by
  induction t with
  | nil => intro st a _ _ _ hc _; simp [feedF_nil, ← hc]
  | cons c r ih =>
    intro st a hm hq hd hc ht
    obtain ⟨h1, h2, h3, h4⟩ := ht c (by simp)
    rw [feedF_cons]
    have : stepF st c = some { st with sh := { st.sh with cur := some (a ++ [c]) } } := by
      simp [stepF, hm, hq, hd, h1, h2, h3, h4, push, hc]
    rw [this]
    simp only [Option.bind_some]
    rw [ih { st with sh := { st.sh with cur := some (a ++ [c]) } } (a ++ [c]) hm hq hd rfl
      (fun d hd' => ht d (by simp [hd']))]
    simp

/-- state after `echo "T"`, before the terminator -/
def echoF (env fs : Env) (out : List Str) (stt : Nat) (t : Str) : ShF :=
  { sh := mid env [sEcho] t, funcs := fs, out := out, status := stt, q := true }

/-- states while `echo "` is being read -/
def echoOpen (env fs : Env) (out : List Str) (stt : Nat) (d : Bool) (cur : Option Str) : ShF :=
  { sh := { env := env, args := [sEcho], cur := cur, inq := false }, funcs := fs, out := out, status := stt, dq := d, q := d }

/-- `echo "T"` -/
def echoText (t : Str) : Str := [101, 99, 104, 111, 32, 34] ++ t ++ [34]

theorem feedF_echo (env fs : Env) (out : List Str) (stt : Nat) (t : Str) (ht : ∀ c ∈ t, DqOk c) :
    feedF (cleanF env fs out stt) (echoText t) = some (echoF env fs out stt t) := by
  unfold echoText
  rw [show ([101, 99, 104, 111, 32, 34] ++ t ++ [34] : Str) = (sEcho ++ [32]) ++ ([34] ++ (t ++ [34])) by simp [sEcho]]
  rw [feedF_append, feedF_plain _ (cleanF env fs out stt) rfl rfl rfl (by decide)]
  simp only [cleanF, feed_keyword env sEcho (by decide) (by decide), Option.map_some, Option.bind_some]
  rw [feedF_append]
  have h1 : feedF (echoOpen env fs out stt false none) [34] = some (echoOpen env fs out stt true (some [])) := by
    simp [feedF_cons, feedF_nil, stepF, echoOpen]
  have h0 : ({ sh := { env := env, args := [sEcho], cur := none, inq := false }, funcs := fs, out := out, status := stt } : ShF) = echoOpen env fs out stt false none := rfl
  rw [h0, h1]
  simp only [Option.bind_some]
  rw [feedF_append, feedF_dq t (echoOpen env fs out stt true (some [])) [] rfl rfl rfl rfl ht]
  simp [feedF_cons, feedF_nil, stepF, echoF, mid, echoOpen]

theorem term_echo (env fs : Env) (out : List Str) (stt : Nat) (t : Str) (hh : t.head? ≠ some 45)
    (hb : t.contains 92 = false) (c : Nat) (hc : c = 59 ∨ c = 10) :
    stepF (echoF env fs out stt t) c = some (cleanF env fs (out ++ [t]) 0) := by
  have hl : echoLine [t] = some t := by
    have : ([t].head?.bind (·.head?)) = t.head? := by simp
    have hb' : (92 : Nat) ∉ t := by simpa using hb
    simp [echoLine, this, hh, hb', joinWith]
  rcases hc with rfl | rfl <;> simp [stepF, echoF, mid, endWord, hl, cleanF]

theorem finishF_echoF (env fs : Env) (out : List Str) (stt : Nat) (t : Str) :
    finishF (echoF env fs out stt t) = stepF (echoF env fs out stt t) 10 := by
  simp [finishF, echoF, mid]

/-- texts that `echo "…"` prints as they are -/
def Echoable (t : Str) : Prop := (∀ c ∈ t, DqOk c) ∧ t.head? ≠ some 45

theorem echoable_no_backslash {t : Str} (h : Echoable t) : t.contains 92 = false := by
  cases hc : t.contains 92 with
  | false => rfl
  | true =>
    have : (92 : Nat) ∈ t := by simpa using hc
    exact absurd rfl (h.1 92 this).2.2.2

/-- the `-n` text: `echo "T"` for every `T`, joined by `";\n"`: nothing changes in the shell, the lines come out in
order -/
theorem shEvalF_join_echo (ts : List Str) (nl : Bool) : ∀ (env fs : Env) (out : List Str) (stt : Nat),
    (∀ t ∈ ts, Echoable t) →
    (feedF (cleanF env fs out stt)
        (join (ts.map echoText) ++ (if nl then [10] else []))).bind finishF =
      some (cleanF env fs (out ++ ts) (if ts.isEmpty then stt else 0)) := by
  induction ts with
  | nil =>
    intro env fs out stt _
    cases nl
    · simp [join, feedF_nil, finishF_cleanF]
    · simp [join, feedF_cons, feedF_nil, stepF_newline_cleanF, finishF_cleanF]
  | cons t rest ih =>
    intro env fs out stt hg
    have ht := hg t (by simp)
    have hf := feedF_echo env fs out stt t ht.1
    have hterm := term_echo env fs out stt t ht.2 (echoable_no_backslash ht)
    cases rest with
    | nil =>
      simp only [List.map_cons, List.map_nil, join, List.isEmpty_cons]
      cases nl
      · simp [hf, finishF_echoF, hterm 10 (Or.inr rfl)]
      · simp [feedF_append, hf, feedF_cons, feedF_nil, hterm 10 (Or.inr rfl), finishF_cleanF]
    | cons t2 rest2 =>
      have ih' := ih env fs (out ++ [t]) 0 (fun d hd => hg d (by simp [hd]))
      simp only [List.map_cons, join, List.isEmpty_cons] at ih' ⊢
      rw [List.append_assoc, List.append_assoc, feedF_append, hf]
      simp only [Option.bind_some, List.cons_append, List.nil_append]
      rw [feedF_cons, hterm 59 (Or.inl rfl)]
      simp only [Option.bind_some]
      rw [feedF_cons, stepF_newline_cleanF]
      simp only [Option.bind_some]
      simpa using ih'

theorem alpha_dqOk {v : Str} (h : InAlphabet v) : ∀ c ∈ v, DqOk c := by
  intro c hc
  rcases h c hc with h1 | h1
  · have f := safe_facts h1
    have g := safe_facts2 h1
    exact ⟨f.2.2.2.2.2.1, g.1, g.2.2.2.2.2.1, g.2.2.2.2.2.2⟩
  · simp only [isShMeta, Bool.or_eq_true, beq_iff_eq] at h1
    unfold DqOk; omega

/-- commands whose text `echo "…"` prints as it is: as `Good`, with the value over the alphabet (inside double quotes
`$`, backquote, backslash and `"` are not literal) -/
def Cmd.GoodA : Cmd → Prop
  | .setVar k v => isIdent k = true ∧ InAlphabet v
  | .unsetVar k => isIdent k = true
  | .aliasDel k => isIdent k = true
  | _ => False

theorem emitVarsOn_goodA (o : Opts) (old : OldEnv) (base new : Env) (ht : Tracks old base)
    (hidb : ∀ p ∈ base, isIdent p.1 = true) (hidn : ∀ p ∈ new, isIdent p.1 = true)
    (halpha : ∀ p ∈ new, old.lookup p.1 ≠ some (some p.2) → InAlphabet p.2) :
    ∀ c ∈ emitVarsOn o old new, c.GoodA := by
  intro c hc
  simp only [emitVarsOn, List.mem_append, List.mem_filterMap] at hc
  rcases hc with ⟨p, hp, hpc⟩ | ⟨p, hp, hpc⟩
  · simp only [setCmd?] at hpc
    split at hpc; · cases hpc
    rename_i hl
    split at hpc; · cases hpc
    cases hpc
    exact ⟨hidn p hp, halpha p hp (by simpa using hl)⟩
  · simp only [unsetCmd?] at hpc
    split at hpc; · cases hpc
    split at hpc; · cases hpc
    split at hpc; · cases hpc
    cases hpc
    have : p.1 ∈ base.map (·.1) := by rw [← ht.1]; exact List.mem_map.mpr ⟨p, hp, rfl⟩
    obtain ⟨q, hq, hqk⟩ := List.mem_map.mp this
    show isIdent p.1 = true
    rw [← hqk]; exact hidb q hq

theorem good_text_echoable (c : Cmd) (h : c.GoodA) : Echoable c.text := by
  cases c with
  | setVar k v =>
    have hks := ident_safe h.1
    refine ⟨?_, by simp [Cmd.text, sExport]⟩
    intro d hd
    simp only [Cmd.text, List.mem_append, List.mem_singleton] at hd
    rcases hd with (((hd | hd) | hd) | hd) | hd
    · revert d; decide
    · subst hd; decide
    · have f := safe_facts (hks d hd); have g := safe_facts2 (hks d hd)
      exact ⟨f.2.2.2.2.2.1, g.1, g.2.2.2.2.2.1, g.2.2.2.2.2.2⟩
    · subst hd; decide
    · rcases emitVal_alpha h.2 with he | ⟨he, _⟩
      · rw [he] at hd
        simp only [List.mem_cons, List.mem_append, List.mem_singleton, List.not_mem_nil, or_false] at hd
        rcases hd with hd | hd | hd
        · subst hd; decide
        · exact alpha_dqOk h.2 d hd
        · subst hd; decide
      · rw [he] at hd; exact alpha_dqOk h.2 d hd
  | unsetVar k =>
    have hks := ident_safe h
    refine ⟨?_, by simp [Cmd.text, sUnset]⟩
    intro d hd
    simp only [Cmd.text, List.mem_append, List.mem_singleton] at hd
    rcases hd with (hd | hd) | hd
    · revert d; decide
    · subst hd; decide
    · have f := safe_facts (hks d hd); have g := safe_facts2 (hks d hd)
      exact ⟨f.2.2.2.2.2.1, g.1, g.2.2.2.2.2.1, g.2.2.2.2.2.2⟩
  | aliasDef k v => exact absurd h (by simp [Cmd.GoodA])
  | aliasDel k =>
    have hks := ident_safe h
    refine ⟨?_, by simp [Cmd.text, sUnset]⟩
    intro d hd
    simp only [Cmd.text, List.mem_append, List.mem_singleton] at hd
    rcases hd with (((hd | hd) | hd) | hd) | hd
    · revert d; decide
    · subst hd; decide
    · revert d; decide
    · subst hd; decide
    · have f := safe_facts (hks d hd); have g := safe_facts2 (hks d hd)
      exact ⟨f.2.2.2.2.2.1, g.1, g.2.2.2.2.2.1, g.2.2.2.2.2.2⟩

end EupsModel.ShellEmit
