import EupsModel.Model.VroSort
import EupsModel.Lemmas.Vro
import EupsModel.Lemmas.VroC10
/-! `lastMax` (the fold of `Model/Vro.lean`) is the last element of Python's stable sort
(`Model/VroSort.lean`) for every comparison that is a total preorder on the names involved. -/
namespace EupsModel.Vro
open EupsModel.VersionCmp EupsModel.C10

/-- `GoodOrdOn` plus sign antisymmetry in the other direction (`GoodOrdOn` alone allows
`cmp a b < 0 ∧ cmp b a < 0`): the strict test `cmp a b < 0` is then exactly `¬ b ≤ a`. -/
structure TotalOrdOn (P : Str → Prop) (cmp : Str → Str → Int) : Prop extends GoodOrdOn P cmp where
  anti : ∀ a b, P a → P b → cmp a b ≤ 0 → 0 ≤ cmp b a

/-- strict-before-weak transitivity, from `trans`, `flip` and `anti` -/
theorem TotalOrdOn.lt_of_lt_of_le {P : Str → Prop} {cmp : Str → Str → Int} (t : TotalOrdOn P cmp)
    {a b c : Str} (ha : P a) (hb : P b) (hc : P c) (h1 : cmp a b < 0) (h2 : cmp b c ≤ 0) : cmp a c < 0 := by
  have h3 : cmp a c ≤ 0 := t.trans a b c ha hb hc (by omega) h2
  by_cases h0 : 0 ≤ cmp a c
  · have h4 : cmp c a ≤ 0 := t.flip a c ha hc h0
    have h5 : cmp b a ≤ 0 := t.trans b c a hb hc ha h2 h4
    have h6 : 0 ≤ cmp a b := t.anti b a hb ha h5
    omega
  · omega

/-- induction from the right -/
theorem snoc_induction {α : Type} {motive : List α → Prop} (nil : motive [])
    (snoc : ∀ l x, motive l → motive (l ++ [x])) (l : List α) : motive l := by
  suffices h : ∀ l : List α, motive l.reverse by simpa using h l.reverse
  intro l
  induction l with
  | nil => simpa using nil
  | cons x l ih => simpa using snoc _ x ih

/-! ## the sort -/

theorem stableSort_nil (cmp : Str → Str → Int) : stableSort cmp [] = [] := rfl

theorem stableSort_snoc (cmp : Str → Str → Int) (l : List Str) (x : Str) :
    stableSort cmp (l ++ [x]) = insertStable cmp x (stableSort cmp l) := by
  simp [stableSort, List.foldl_append]

theorem insertStable_perm (cmp : Str → Str → Int) (x : Str) (l : List Str) :
    (insertStable cmp x l).Perm (x :: l) := by
  induction l with
  | nil => simp [insertStable]
  | cons y ys ih =>
    simp only [insertStable]
    split
    · exact List.Perm.refl _
    · exact ((List.Perm.cons y ih).trans (List.Perm.swap x y ys))

theorem mem_insertStable {cmp : Str → Str → Int} {x z : Str} {l : List Str} :
    z ∈ insertStable cmp x l ↔ z = x ∨ z ∈ l := by
  rw [(insertStable_perm cmp x l).mem_iff, List.mem_cons]

/-- the sort is a permutation of its input, whatever `cmp` is -/
theorem stableSort_perm (cmp : Str → Str → Int) (l : List Str) : (stableSort cmp l).Perm l := by
  induction l using snoc_induction with
  | nil => exact List.Perm.refl _
  | snoc l x ih =>
    rw [stableSort_snoc]
    exact (insertStable_perm cmp x _).trans ((List.Perm.cons x ih).trans (List.perm_append_singleton x l).symm)

theorem mem_stableSort {cmp : Str → Str → Int} {z : Str} {l : List Str} : z ∈ stableSort cmp l ↔ z ∈ l :=
  (stableSort_perm cmp l).mem_iff

theorem insertStable_sorted {P : Str → Prop} {cmp : Str → Str → Int} (g : GoodOrdOn P cmp) {x : Str} {l : List Str}
    (hx : P x) (hl : ∀ y ∈ l, P y) (hs : List.Pairwise (fun a b => cmp a b ≤ 0) l) :
    List.Pairwise (fun a b => cmp a b ≤ 0) (insertStable cmp x l) := by
  induction l with
  | nil => simp [insertStable]
  | cons y ys ih =>
    have hy : P y := hl y (by simp)
    have hys : ∀ z ∈ ys, P z := fun z hz => hl z (List.mem_cons_of_mem _ hz)
    obtain ⟨h1, h2⟩ := List.pairwise_cons.mp hs
    simp only [insertStable]
    split
    · rename_i hlt
      refine List.pairwise_cons.mpr ⟨?_, hs⟩
      intro z hz
      rcases List.mem_cons.mp hz with rfl | hz
      · omega
      · exact g.trans _ _ _ hx hy (hys z hz) (by omega) (h1 z hz)
    · rename_i hlt
      refine List.pairwise_cons.mpr ⟨?_, ih hys h2⟩
      intro z hz
      rcases mem_insertStable.mp hz with rfl | hz
      · exact g.flip _ _ hx hy (by omega)
      · exact h1 z hz

/-- the result is sorted (needs only `GoodOrdOn`; without `anti` "sorted" says little) -/
theorem stableSort_sorted' {P : Str → Prop} {cmp : Str → Str → Int} (g : GoodOrdOn P cmp) {l : List Str}
    (hl : ∀ x ∈ l, P x) : List.Pairwise (fun a b => cmp a b ≤ 0) (stableSort cmp l) := by
  induction l using snoc_induction with
  | nil => simp [stableSort_nil]
  | snoc l x ih =>
    rw [stableSort_snoc]
    refine insertStable_sorted g (hl x (by simp)) ?_ (ih fun y hy => hl y (by simp [hy]))
    intro y hy
    exact hl y (by simp [mem_stableSort.mp hy])

theorem stableSort_sorted {P : Str → Prop} {cmp : Str → Str → Int} (t : TotalOrdOn P cmp) {l : List Str}
    (hl : ∀ x ∈ l, P x) : List.Pairwise (fun a b => cmp a b ≤ 0) (stableSort cmp l) :=
  stableSort_sorted' t.toGoodOrdOn hl

/-! ## where the inserted element lands -/

/-- not strictly smaller than anything: appended -/
theorem insertStable_eq_append {cmp : Str → Str → Int} {x : Str} {l : List Str}
    (h : ∀ y ∈ l, ¬ cmp x y < 0) : insertStable cmp x l = l ++ [x] := by
  induction l with
  | nil => rfl
  | cons y ys ih =>
    simp only [insertStable, h y (by simp), if_false, List.cons_append]
    rw [ih fun z hz => h z (List.mem_cons_of_mem _ hz)]

/-- strictly smaller than the last element: the last element stays -/
theorem insertStable_getLast_of_lt {cmp : Str → Str → Int} {x m : Str} (l : List Str)
    (h : cmp x m < 0) : (insertStable cmp x (l ++ [m])).getLast? = some m := by
  induction l with
  | nil => simp [insertStable, h]
  | cons y ys ih =>
    simp only [List.cons_append, insertStable]
    split
    · rw [List.getLast?_cons_cons, ← List.cons_append, List.getLast?_append]; simp
    · rw [List.getLast?_cons_of_ne_nil, ih]
      intro h0
      have := (mem_insertStable (cmp := cmp) (x := x) (z := x) (l := ys ++ [m])).mpr (Or.inl rfl)
      rw [h0] at this
      simp at this

/-- the step of the sort, seen at the last element, is the step of `lastMaxGo` -/
theorem insertStable_getLast {P : Str → Prop} {cmp : Str → Str → Int} (t : TotalOrdOn P cmp) {x : Str} {l : List Str}
    (hx : P x) (hl : ∀ y ∈ l, P y) (hs : List.Pairwise (fun a b => cmp a b ≤ 0) l) :
    (insertStable cmp x l).getLast? =
      match l.getLast? with
      | none => some x
      | some m => some (if 0 ≤ cmp x m then x else m) := by
  rcases List.eq_nil_or_concat l with rfl | ⟨L, m, hLm⟩
  · simp [insertStable]
  rw [List.concat_eq_append] at hLm
  subst hLm
  · have hlast : (L ++ [m]).getLast? = some m := by simp
    rw [hlast]
    have hm : P m := hl m (by simp)
    by_cases h0 : 0 ≤ cmp x m
    · simp only [h0, if_true]
      rw [insertStable_eq_append]
      · simp
      · intro y hy hlt
        rcases List.mem_append.mp hy with hy' | hy'
        · have hym : cmp y m ≤ 0 := (List.pairwise_append.mp hs).2.2 y hy' m (by simp)
          have := t.lt_of_lt_of_le hx (hl y hy) hm hlt hym
          omega
        · have : y = m := by simpa using hy'
          subst this
          omega
    · simp only [h0, if_false]
      exact insertStable_getLast_of_lt L (by omega)

/-! ## the fold -/

theorem lastMaxGo_append (cmp : Str → Str → Int) (b : Str) (l : List Str) (x : Str) :
    lastMaxGo cmp b (l ++ [x]) = (if 0 ≤ cmp x (lastMaxGo cmp b l) then x else lastMaxGo cmp b l) := by
  induction l generalizing b with
  | nil => rfl
  | cons v vs ih => exact ih _

theorem lastMax_snoc (cmp : Str → Str → Int) (l : List Str) (x : Str) :
    lastMax cmp (l ++ [x]) =
      match lastMax cmp l with
      | none => some x
      | some m => some (if 0 ≤ cmp x m then x else m) := by
  cases l with
  | nil => simp [lastMax, lastMaxGo]
  | cons v vs => simp only [List.cons_append, lastMax, lastMaxGo_append]

/-- THE MAIN LEMMA: for a total preorder the fold `lastMax` is `vers.sort(cmp); vers[-1]` -/
theorem lastMax_eq_sortLast {P : Str → Prop} {cmp : Str → Str → Int} (t : TotalOrdOn P cmp) {l : List Str}
    (hl : ∀ x ∈ l, P x) : lastMax cmp l = sortLast cmp l := by
  induction l using snoc_induction with
  | nil => simp [lastMax, sortLast, stableSort_nil]
  | snoc l x ih =>
    have hl' : ∀ y ∈ l, P y := fun y hy => hl y (by simp [hy])
    have ih := ih hl'
    unfold sortLast at ih ⊢
    rw [stableSort_snoc, lastMax_snoc, ih,
      insertStable_getLast t (hl x (by simp)) (fun y hy => hl' y (mem_stableSort.mp hy)) (stableSort_sorted t hl')]

/-! ## stability -/

/-- `x` is in the equivalence class of `a`: `a ≤ x ∧ x ≤ a` -/
def eqvB (cmp : Str → Str → Int) (a x : Str) : Bool := decide (cmp a x ≤ 0 ∧ cmp x a ≤ 0)

/-- seen through a filter that drops everything `x` is strictly smaller than, `x` is appended -/
theorem insertStable_filter {P : Str → Prop} {cmp : Str → Str → Int} (t : TotalOrdOn P cmp) (p : Str → Bool)
    {x : Str} {l : List Str} (hx : P x) (hl : ∀ y ∈ l, P y) (hs : List.Pairwise (fun a b => cmp a b ≤ 0) l)
    (hp : p x = true → ∀ z, P z → cmp x z < 0 → p z = false) :
    (insertStable cmp x l).filter p = (l ++ [x]).filter p := by
  induction l with
  | nil => rfl
  | cons y ys ih =>
    have hy : P y := hl y (by simp)
    have hys : ∀ z ∈ ys, P z := fun z hz => hl z (List.mem_cons_of_mem _ hz)
    obtain ⟨h1, h2⟩ := List.pairwise_cons.mp hs
    simp only [insertStable]
    split
    · rename_i hlt
      cases hpx : p x with
      | false => simp [List.filter_cons, hpx]
      | true =>
        have hnil : (y :: ys).filter p = [] := by
          rw [List.filter_eq_nil_iff]
          intro z hz
          have hz' : cmp x z < 0 := by
            rcases List.mem_cons.mp hz with rfl | hz
            · exact hlt
            · exact t.lt_of_lt_of_le hx hy (hys z hz) hlt (h1 z hz)
          simp [hp hpx z (hl z hz) hz']
        rw [List.filter_cons, List.filter_append, hnil]
        simp [hpx]
    · simp only [List.cons_append, List.filter_cons, ih hys h2]

/-- equal elements keep their input order: the members of every equivalence class appear in the
sorted list in the order they had in the input -/
theorem stableSort_stable {P : Str → Prop} {cmp : Str → Str → Int} (t : TotalOrdOn P cmp) {l : List Str}
    (hl : ∀ x ∈ l, P x) (a : Str) (ha : P a) :
    (stableSort cmp l).filter (eqvB cmp a) = l.filter (eqvB cmp a) := by
  induction l using snoc_induction with
  | nil => rfl
  | snoc l x ih =>
    have hl' : ∀ y ∈ l, P y := fun y hy => hl y (by simp [hy])
    have hx : P x := hl x (by simp)
    rw [stableSort_snoc, insertStable_filter t (eqvB cmp a) hx (fun y hy => hl' y (mem_stableSort.mp hy))
      (stableSort_sorted t hl'), List.filter_append, List.filter_append, ih hl']
    intro hpx z hz hlt
    simp only [eqvB, decide_eq_true_eq, decide_eq_false_iff_not] at hpx ⊢
    rintro ⟨h1, h2⟩
    have h3 : cmp z x ≤ 0 := t.trans z a x hz ha hx h2 hpx.1
    have := t.anti z x hz hx h3
    omega

/-! ## the real comparator -/

/-- `c10Cmp` is a total preorder on conventional names (`C10_conv_total` gives `cmp b a = - cmp a b`) -/
theorem c10Cmp_total : TotalOrdOn ConvName c10Cmp where
  toGoodOrdOn := c10Cmp_good
  anti a b ha hb h := by
    obtain ⟨r, h1, h2, _⟩ := C10_conv_total a b ha hb
    rw [c10Cmp_eq h1] at h
    rw [c10Cmp_eq h2]
    omega

/-- on conventional names, the model's `lastMax c10Cmp` is `vers.sort(version_cmp); vers[-1]` -/
theorem lastMax_c10_eq_sortLast {l : List Str} (hl : ∀ x ∈ l, convName x = true) :
    lastMax c10Cmp l = sortLast c10Cmp l :=
  lastMax_eq_sortLast c10Cmp_total hl

/-! ## the hypotheses are needed -/

/-- everything is `≤` everything, but `"3"` is *also* strictly below `"1"`: `GoodOrdOn` without `anti` -/
def badCmp (a b : Str) : Int := if Str.toNat a = 3 ∧ Str.toNat b = 1 then -1 else 0

theorem badCmp_le (a b : Str) : badCmp a b ≤ 0 := by
  unfold badCmp; split <;> omega

theorem badCmp_good : GoodOrd badCmp where
  refl a _ := badCmp_le a a
  flip a b _ _ _ := badCmp_le b a
  trans a _ c _ _ _ _ _ := badCmp_le a c

/-- `anti` fails: `"1" ≤ "3"` and yet `"3" < "1"` -/
theorem badCmp_not_total : ¬ TotalOrdOn (fun _ => True) badCmp := fun t =>
  absurd (t.anti [49] [51] trivial trivial (by decide)) (by decide)

/-- `GoodOrdOn` alone is not enough: on `["1","2","3"]` the fold answers `"3"`, the sort `"2"` -/
theorem badCmp_lastMax_ne_sortLast : lastMax badCmp [[49], [50], [51]] ≠ sortLast badCmp [[49], [50], [51]] := by
  decide

example : lastMax badCmp [[49], [50], [51]] = some [51] ∧ sortLast badCmp [[49], [50], [51]] = some [50] := by
  decide

/-- rock-paper-scissors on the value mod 3: reflexive, antisymmetric both ways, not transitive -/
def rpsCmp (a b : Str) : Int :=
  if Str.toNat a % 3 = Str.toNat b % 3 then 0
  else if (Str.toNat b % 3 + 3 - Str.toNat a % 3) % 3 = 1 then -1 else 1

theorem rpsCmp_refl (a : Str) : rpsCmp a a ≤ 0 := by simp [rpsCmp]

theorem rpsCmp_neg (a b : Str) : rpsCmp b a = - rpsCmp a b := by
  unfold rpsCmp
  split <;> split <;> (try split) <;> (try split) <;> omega

theorem rpsCmp_flip (a b : Str) (h : 0 ≤ rpsCmp a b) : rpsCmp b a ≤ 0 := by
  rw [rpsCmp_neg]; omega

theorem rpsCmp_anti (a b : Str) (h : rpsCmp a b ≤ 0) : 0 ≤ rpsCmp b a := by
  rw [rpsCmp_neg]; omega

/-- transitivity is needed too: on `["0","1","2"]` the fold answers `"2"`, the sort `"1"` -/
theorem rpsCmp_lastMax_ne_sortLast : lastMax rpsCmp [[48], [49], [50]] ≠ sortLast rpsCmp [[48], [49], [50]] := by
  decide

example : lastMax rpsCmp [[48], [49], [50]] = some [50] ∧ sortLast rpsCmp [[48], [49], [50]] = some [49] := by
  decide

/-! ## sanity checks: `simpleCmp` ties `1.0` and `1.00`; both sides return the LAST-listed of the two -/

-- ["1.0", "1.00", "0.9"]
example : stableSort simpleCmp [[49, 46, 48], [49, 46, 48, 48], [48, 46, 57]]
    = [[48, 46, 57], [49, 46, 48], [49, 46, 48, 48]] := by decide
example : lastMax simpleCmp [[49, 46, 48], [49, 46, 48, 48], [48, 46, 57]] = some [49, 46, 48, 48]
    ∧ sortLast simpleCmp [[49, 46, 48], [49, 46, 48, 48], [48, 46, 57]] = some [49, 46, 48, 48] := by decide
-- ["1.00", "1.0", "0.9"]
example : lastMax simpleCmp [[49, 46, 48, 48], [49, 46, 48], [48, 46, 57]] = some [49, 46, 48]
    ∧ sortLast simpleCmp [[49, 46, 48, 48], [49, 46, 48], [48, 46, 57]] = some [49, 46, 48] := by decide
-- ["1.0", "0.9", "1.00", "0.10"]: 0.9 < 0.10 < 1.0 = 1.00, the tied pair in input order
example : stableSort simpleCmp [[49, 46, 48], [48, 46, 57], [49, 46, 48, 48], [48, 46, 49, 48]]
    = [[48, 46, 57], [48, 46, 49, 48], [49, 46, 48], [49, 46, 48, 48]] := by decide

end EupsModel.Vro
