import EupsModel.Model.Record
/-! Helper lemmas about the record model (C16): evaluation of the path primitives on symbolic paths. -/
namespace EupsModel.Record

theorem SegsOK.append {a b : List Str} (ha : SegsOK a) (hb : SegsOK b) : SegsOK (a ++ b) := by
  intro s hs
  rcases List.mem_append.mp hs with h | h
  · exact ha s h
  · exact hb s h

theorem SegsOK.left {a b : List Str} (h : SegsOK (a ++ b)) : SegsOK a :=
  fun s hs => h s (List.mem_append.mpr (Or.inl hs))

theorem SegsOK.right {a b : List Str} (h : SegsOK (a ++ b)) : SegsOK b :=
  fun s hs => h s (List.mem_append.mpr (Or.inr hs))

theorem isPrefixOf_append_self (a b : List Str) : a.isPrefixOf (a ++ b) = true := by
  induction a with
  | nil => simp
  | cons x xs ih => simp [ih]

theorem isPrefixOf_append_left (a b c : List Str) : (a ++ b).isPrefixOf (a ++ c) = b.isPrefixOf c := by
  induction a with
  | nil => simp
  | cons x xs ih => simp [ih]

theorem under_append (x : Bool) (a b : List Str) (hb : b ≠ []) :
    Path.under ⟨x, a ++ b⟩ ⟨x, a⟩ = some b := by
  have hl : a.length < (a ++ b).length := by
    have : 0 < b.length := List.length_pos_iff.mpr hb
    simp; omega
  simp [Path.under, isPrefixOf_append_self, hb]

theorem under_abs_ne (p r : Path) (h : p.abs ≠ r.abs) : p.under r = none := by
  simp [Path.under, h]

theorem under_not_prefix (p r : Path) (h : r.segs.isPrefixOf p.segs = false) : p.under r = none := by
  simp [Path.under, h]

theorem subpath_not_prefix (p r : Path) (h : r.segs.isPrefixOf p.segs = false) : p.subpath r = false := by
  simp [Path.subpath, h]

/-- `[x]` is a prefix of `l ++ m` exactly when it is the head of `l` (for non-empty `l`) -/
theorem singleton_isPrefixOf_append (x : Str) (l m : List Str) (hl : l ≠ []) :
    [x].isPrefixOf (l ++ m) = (l.head? == some x) := by
  cases l with
  | nil => exact absurd rfl hl
  | cons y ys =>
    simp only [List.cons_append, List.isPrefixOf, List.head?_cons]
    by_cases h : x = y
    · subst h; simp
    · have h' : ¬ y = x := fun e => h e.symm
      have e1 : (x == y) = false := by simp [h]
      have e2 : (y == x) = false := by simp [h']
      simp [e1, e2]

/-- two lists neither of which is a prefix of the other diverge at some position: extensions do not help -/
theorem isPrefixOf_diverge : ∀ (a b x y : List Str), a.isPrefixOf b = false → b.isPrefixOf a = false →
    (a ++ x).isPrefixOf (b ++ y) = false
  | [], _, _, _, h, _ => by simp at h
  | _ :: _, [], _, _, _, h => by simp at h
  | c :: a, d :: b, x, y, h1, h2 => by
    by_cases e : c = d
    · subst e
      simp only [List.isPrefixOf, BEq.rfl, Bool.true_and] at h1 h2
      simp [List.isPrefixOf, isPrefixOf_diverge a b x y h1 h2]
    · simp [List.isPrefixOf, e]

theorem isPrefixOf_append_false (a x b : List Str) (h : a.isPrefixOf b = false) : (a ++ x).isPrefixOf b = false := by
  induction a generalizing b with
  | nil => simp at h
  | cons c a ih =>
    cases b with
    | nil => simp
    | cons d b =>
      by_cases e : c = d
      · subst e
        simp only [List.isPrefixOf, BEq.rfl, Bool.true_and] at h
        simp [List.isPrefixOf, ih b h]
      · simp [List.isPrefixOf, e]

theorem stackRoot_db (root : List Str) : stackRoot (absP (root ++ [sUpsDb])) = absP root := by
  simp [stackRoot, absP, Path.dirname]

theorem prefix36_false (pre s : Str) (h : 36 ∉ s) : (36 :: pre).isPrefixOf s = false := by
  cases s with
  | nil => rfl
  | cons c cs =>
    have : c ≠ 36 := fun e => h (by simp [e])
    have h2 : ¬ (36 = c) := fun e => this e.symm
    simp [List.isPrefixOf, h2]

theorem isMacroPath_false (abs : Bool) (segs : List Str) (h : ∀ s ∈ segs, 36 ∉ s) :
    isMacroPath ⟨abs, segs⟩ = false := by
  cases segs with
  | nil => simp [isMacroPath, headStartsWith]
  | cons s r =>
    have hs : 36 ∉ s := h s (by simp)
    simp [isMacroPath, headStartsWith, mPROD_, mUPS_, prefix36_false _ _ hs]

theorem substFlavorAux_id (f : Str) : ∀ s : Str, 36 ∉ s → substFlavorAux f 0 s = s
  | [], _ => by simp [substFlavorAux]
  | c :: r, h => by
    have hc : c ≠ 36 := fun e => h (by simp [e])
    have hr : 36 ∉ r := fun m => h (by simp [m])
    simp [substFlavorAux, hc, substFlavorAux_id f r hr]

theorem substFlavor_id (f : Str) (s : Str) (h : 36 ∉ s) : substFlavor f s = s := substFlavorAux_id f s h

theorem map_substFlavor_id (f : Str) (l : List Str) (h : ∀ s ∈ l, 36 ∉ s) : l.map (substFlavor f) = l := by
  induction l with
  | nil => rfl
  | cons s r ih =>
    simp only [List.map_cons]
    rw [substFlavor_id f s (h s (by simp)), ih (fun t ht => h t (by simp [ht]))]

theorem substHead_abs (name : Str) (r : Option Path) (segs : List Str) : substHead name r ⟨true, segs⟩ = ⟨true, segs⟩ := by
  cases r <;> simp [substHead]

/-- no segment contains `$` -/
def No36 (l : List Str) : Prop := ∀ s ∈ l, 36 ∉ s

@[simp] theorem No36_nil : No36 [] := by simp [No36]
@[simp] theorem No36_cons (x : Str) (l : List Str) : No36 (x :: l) ↔ 36 ∉ x ∧ No36 l := by simp [No36]
@[simp] theorem No36_append (a b : List Str) : No36 (a ++ b) ↔ No36 a ∧ No36 b := by
  simp only [No36, List.mem_append]
  constructor
  · intro h; exact ⟨fun s hs => h s (Or.inl hs), fun s hs => h s (Or.inr hs)⟩
  · intro h s hs; rcases hs with hs | hs
    · exact h.1 s hs
    · exact h.2 s hs

theorem SegsOK.no36' {l : List Str} (h : SegsOK l) : No36 l := fun s hs => (h s hs).2.2

theorem substHead_plain (name : Str) (hn : 36 ∈ name) (r : Option Path) (v : Path) (h : No36 v.segs) :
    substHead name r v = v := by
  cases r with
  | none => rfl
  | some r =>
    unfold substHead
    have : ¬ (v.segs.head? = some name) := by
      intro e
      cases hv : v.segs with
      | nil => simp [hv] at e
      | cons x xs =>
        simp [hv] at e
        have := h x (by simp [hv])
        exact this (e ▸ hn)
    simp [this]

/-- macro resolution leaves a `$`-free path alone -/
theorem resolveMacros_plain (m : Macros) (b : Bool) (v : Path) (h : No36 v.segs) : resolveMacros m b v = v := by
  have h1 : (36 : Nat) ∈ mPROD_ROOT := by decide
  have h2 : (36 : Nat) ∈ mUPS_DB := by decide
  have h3 : (36 : Nat) ∈ mPROD_DIR := by decide
  have h4 : (36 : Nat) ∈ mUPS_DIR := by decide
  obtain ⟨abs, segs⟩ := v
  simp only at h
  unfold resolveMacros
  by_cases he : (!(abs || !segs.isEmpty)) = true
  · simp [he]
  · simp only [he, if_false]
    have hm : List.map (substFlavor m.flavor) segs = segs := map_substFlavor_id _ _ h
    have hs : ∀ name, 36 ∈ name → ∀ r, substHead name r ⟨abs, segs⟩ = ⟨abs, segs⟩ :=
      fun name hn r => substHead_plain name hn r ⟨abs, segs⟩ h
    by_cases hf : m.flavor.isEmpty = true
    · cases b <;> simp [hf, hs _ h1, hs _ h2, hs _ h3, hs _ h4]
    · cases b <;> simp [hf, hm, hs _ h1, hs _ h2, hs _ h3, hs _ h4]

theorem resolveMacros_abs (m : Macros) (b : Bool) (segs : List Str) (h : ∀ s ∈ segs, 36 ∉ s) :
    resolveMacros m b ⟨true, segs⟩ = ⟨true, segs⟩ := resolveMacros_plain m b _ h

theorem substFlavor_upsdb (f : Str) : substFlavor f mUPS_DB = mUPS_DB := by
  simp [substFlavor, substFlavorAux, mUPS_DB, mFLAVOR]

/-- `$UPS_DB/rest` resolves to `db/rest` -/
theorem resolveMacros_upsdb (m : Macros) (b : Bool) (db rest : List Str) (hdb : m.upsDb = ⟨true, db⟩)
    (hrest : No36 rest) : resolveMacros m b ⟨false, mUPS_DB :: rest⟩ = ⟨true, db ++ rest⟩ := by
  have hne : (mUPS_DB = mPROD_ROOT) = False := by simp [mUPS_DB, mPROD_ROOT]
  obtain ⟨fl, pr, ud, pd, usd⟩ := m
  simp only at hdb
  subst hdb
  unfold resolveMacros
  by_cases hf : fl.isEmpty = true <;> cases b <;> cases pd <;> cases usd <;>
    simp [hf, substHead, hne, substFlavor_upsdb, map_substFlavor_id _ _ hrest]

theorem contains36_false (s : Str) (h : 36 ∉ s) : s.contains 36 = false := by
  simp [h]

theorem hasDollar_false (abs : Bool) (segs : List Str) (h : ∀ s ∈ segs, 36 ∉ s) : hasDollar ⟨abs, segs⟩ = false := by
  simp only [hasDollar, List.any_eq_false]
  intro s hs
  simp [h s hs]

theorem SegsOK.no36 {l : List Str} (h : SegsOK l) : ∀ s ∈ l, 36 ∉ s := fun s hs => (h s hs).2.2

/-! ## Without symbolic links the link-aware functions are the plain ones -/

theorem trimKeyR_id (ex : Path → Bool) (td : Option Path) (i : PInfo) (k : PKey) : trimKeyR id ex td i k = trimKey ex td i k := by
  unfold trimKeyR trimKey
  rfl

theorem trimInfoR_id (ex : Path → Bool) (td : Option Path) (order : List PKey) (i : PInfo) :
    trimInfoR id ex td order i = trimInfo ex td order i := by
  unfold trimInfoR trimInfo
  have : trimKeyR id ex td = trimKey ex td := by funext i k; exact trimKeyR_id ex td i k
  rw [this]

theorem declarePathsR_id (ex : Path → Bool) (p : Prod) (old : Option PInfo) : declarePathsR id ex p old = declarePaths ex p old := by
  unfold declarePathsR declarePaths
  simp only [trimInfoR_id]

theorem declareRecR_id (ex : Path → Bool) (who now : Str) (vr : VRec) (p : Prod) :
    declareRecR id ex who now vr p = declareRec ex who now vr p := by
  unfold declareRecR declareRec
  simp only [declarePathsR_id, trimInfoR_id]

theorem realOf_nil (p : Path) : realOf [] p = p := rfl

/-- a path spelled through the link is resolved to the target plus the rest -/
theorem realOf_through (l t a : List Str) :
    realOf [(absP l, absP t)] (absP (l ++ a)) = absP (t ++ a) := by
  simp [realOf, Path.subpath, absP, isPrefixOf_append_self]

/-- **One spelling suffices**: for a value and a directory both spelled through the symbolic link `l → t`, the test of
`VersionFile.write` on the resolved paths is the test on the spellings. -/
theorem realOf_under (l t a b : List Str) :
    (realOf [(absP l, absP t)] (absP (l ++ a))).under (realOf [(absP l, absP t)] (absP (l ++ b)))
      = (absP (l ++ a)).under (absP (l ++ b)) := by
  rw [realOf_through, realOf_through]
  simp only [Path.under, absP, isPrefixOf_append_left, List.length_append, List.drop_append]
  by_cases h : b.isPrefixOf a = true
  · by_cases h2 : b.length < a.length
    · have e1 : t.length + b.length < t.length + a.length := by omega
      have e2 : l.length + b.length < l.length + a.length := by omega
      have d1 : List.drop (t.length + b.length) t = [] := List.drop_eq_nil_of_le (by omega)
      have d2 : List.drop (l.length + b.length) l = [] := List.drop_eq_nil_of_le (by omega)
      simp [h, e1, e2, d1, d2]
    · have e1 : ¬ t.length + b.length < t.length + a.length := by omega
      have e2 : ¬ l.length + b.length < l.length + a.length := by omega
      simp [h, e1, e2]
  · simp [h]

end EupsModel.Record
