import EupsModel.Lemmas.DepsTotal
/-! The pinned walk (`depsOfPinned`, before the repair of D32) on `a 1 ↔ b 1` with `unsetupRequired(a)` in `b`'s table
(corpus/C13/d32_unsetup_in_cycle.json) fails **for every fuel**: the fresh listing of `a` that `b`'s unsetup line starts
reaches `b`'s table again two levels down, where the same line starts the same listing with two units of fuel less. -/
namespace EupsModel.Deps
open EupsModel

def nA : Str := [97]
def nB : Str := [98]
def v1 : Str := [49]
def pA : Prod := ⟨nA, some v1, true⟩
def pB : Prod := ⟨nB, some v1, true⟩
def w32 : Db :=
  { decls := [⟨nA, v1, [⟨false, false, nB, none, false, false⟩], false⟩,
              ⟨nB, v1, [⟨false, false, nA, none, false, false⟩, ⟨true, false, nA, none, false, false⟩], false⟩]
    current := [(nA, v1), (nB, v1)] }

theorem tA : w32.table pA = [⟨false, false, nB, none, false, false⟩] := by decide
theorem tB : w32.table pB = [⟨false, false, nA, none, false, false⟩, ⟨true, false, nA, none, false, false⟩] := by decide
theorem rB : resolve w32 [] ⟨false, false, nB, none, false, false⟩ = some pB := by decide
theorem rA : resolve w32 [] ⟨false, false, nA, none, false, false⟩ = some pA := by decide
theorem mA : w32.tableMissing pA = false := by decide
theorem mB : w32.tableMissing pB = false := by decide

/-- `a`'s table when `b` has been visited: one entry, no nested call -/
theorem F1 (f : Nat) (dp : Nat) (st : St) (hB : st.seen.contains (prodkey pB) = true) :
    ∃ r, depsOfPinned w32 (f + 1) [] pA true dp st = some r := by
  unfold depsOfPinned
  rw [tA]
  simp only [depsLoop, rB, hB]
  simp

/-- the fresh listing of `a` an unsetup line starts -/
abbrev G (k : Nat) : Option (List Entry × St) := depsOfPinned w32 k [] pA true 0 St.empty

/-- `b`'s table, `b` visited and `a` not: `a` is opened (returns), then the unsetup line asks for the fresh listing of `a` -/
theorem F2 (f : Nat) (dp : Nat) (st : St) (hB : st.seen.contains (prodkey pB) = true)
    (hA : st.seen.contains (prodkey pA) = false) (hG : G (f + 1) = none) :
    depsOfPinned w32 (f + 2) [] pB true dp st = none := by
  unfold depsOfPinned
  rw [tB]
  obtain ⟨r, hr⟩ := F1 f (dp + 1)
    { seen := prodkey pA :: st.seen, nodes := (if st.nodes.contains pB = true then st.nodes else st.nodes ++ [pB]), edges := st.edges }
    (by simp only [List.contains_cons, hB, Bool.or_true])
  obtain ⟨sub, st2⟩ := r
  simp only [depsLoop, rA, hA, mA]
  simp only [Bool.false_eq_true, if_false, Bool.not_false, Bool.and_self, if_true, hr]
  have hfind : List.find? (fun e => e.prod.name == nA) ([] ++ ({ prod := pA, optional := false, depth := some dp } : Entry) :: sub)
      = some { prod := pA, optional := false, depth := some dp } := by
    simp [pA, nA]
  simp only [Bool.false_eq_true, if_false, hfind]
  have hG' : depsOfPinned w32 (f + 1) [] { name := nA, ver := some v1, real := true } true 0 St.empty = none := hG
  simp [pA, hG']

/-- `a`'s table from scratch opens `b`: whatever `b`'s table does not finish, `a`'s does not -/
theorem LA (f : Nat) (dp : Nat)
    (h : depsOfPinned w32 f [] pB true (dp + 1) { seen := [prodkey pB], nodes := [pA], edges := [] } = none) :
    depsOfPinned w32 (f + 1) [] pA true dp St.empty = none := by
  unfold depsOfPinned
  rw [tA]
  simp only [depsLoop, rB, mB]
  simp only [St.empty]
  simp [h]

/-- `b`'s table opens `a` first -/
theorem LB (f : Nat) (dp : Nat) (st : St) (hA : st.seen.contains (prodkey pA) = false)
    (h : depsOfPinned w32 f [] pA true (dp + 1)
      { seen := prodkey pA :: st.seen, nodes := (if st.nodes.contains pB = true then st.nodes else st.nodes ++ [pB]),
        edges := st.edges } = none) :
    depsOfPinned w32 (f + 1) [] pB true dp st = none := by
  unfold depsOfPinned
  rw [tB]
  simp only [depsLoop, rA, hA, mA, Bool.not_false, Bool.and_self, if_true, Bool.false_eq_true, if_false, h]

/-- **for every fuel** the pinned walk fails on `a ↔ b` with `b` unsetting `a` -/
theorem pinned_none : ∀ (f dp : Nat), depsOfPinned w32 f [] pA true dp St.empty = none := by
  intro f
  induction f using Nat.strongRecOn with
  | _ f ih =>
    intro dp
    match f with
    | 0 => rfl
    | 1 => exact LA 0 dp rfl
    | 2 => exact LA 1 dp (LB 0 (dp + 1) _ (by decide) rfl)
    | k + 3 => exact LA (k + 2) dp (F2 k (dp + 1) _ (by decide) (by decide) (ih (k + 1) (by omega) 0))
end EupsModel.Deps
