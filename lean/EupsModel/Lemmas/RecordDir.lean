import EupsModel.Lemmas.RecordReloc
/-! Database-layer operations on the records of one product leave the blocks of the other flavors alone (C16). -/
set_option linter.unusedSimpArgs false
set_option linter.unusedVariables false
namespace EupsModel.Record

theorem dget_dset_self {β : Type} (l : List (Str × β)) (k : Str) (v : β) : dget (dset l k v) k = some v := by
  induction l with
  | nil => simp [dset, dget]
  | cons x r ih =>
    obtain ⟨a, b⟩ := x
    by_cases ha : a = k
    · simp [dset, dget, ha]
    · simp [dset, dget, ha, ih]

theorem dget_ddel_other {β : Type} (l : List (Str × β)) (k k' : Str) (h : k' ≠ k) : dget (ddel l k) k' = dget l k' := by
  induction l with
  | nil => simp [ddel, dget]
  | cons x r ih =>
    obtain ⟨a, b⟩ := x
    simp only [ddel] at ih ⊢
    by_cases ha : a = k
    · subst ha
      have : ¬ a = k' := fun e => h e.symm
      simp [List.filter_cons, dget, this, ih]
    · by_cases hb : a = k'
      · subst hb
        simp [List.filter_cons, dget, ha]
      · simp [List.filter_cons, dget, ha, hb, ih]

theorem dget_ddel_self {β : Type} (l : List (Str × β)) (k : Str) : dget (ddel l k) k = none := by
  induction l with
  | nil => simp [ddel, dget]
  | cons x r ih =>
    obtain ⟨a, b⟩ := x
    simp only [ddel] at ih ⊢
    by_cases ha : a = k
    · simp [List.filter_cons, ha, ih]
    · simp [List.filter_cons, dget, ha, ih]

theorem dget_nil_of_isEmpty {β : Type} (l : List (Str × β)) (k : Str) (h : l.isEmpty = true) : dget l k = none := by
  cases l with
  | nil => rfl
  | cons x r => simp at h

/-- replacing the chain record of `tag` by one with the same block for `f` keeps the block of `f` of every tag -/
theorem blockC_putC (d : PDir) (tag : Str) (r r' : CRec) (f : Str) (hold : dget d.chains tag = some r)
    (hsame : dget r'.flavors f = dget r.flavors f) (tag' : Str) :
    PDir.blockC { d with chains := putC d.chains tag r' } tag' f = PDir.blockC d tag' f := by
  unfold PDir.blockC putC
  by_cases ht : tag' = tag
  · subst ht
    simp only [hold, Option.bind_some]
    split
    · rename_i he
      rw [dget_ddel_self]
      simp only [Option.bind_none]
      rw [← hsame, dget_nil_of_isEmpty _ _ he]
    · rw [dget_dset_self]; simp [hsame]
  · split
    · rw [dget_ddel_other _ _ _ ht]
    · rw [dget_dset_other _ _ _ _ ht]

theorem blockV_putV (d : PDir) (version : Str) (r r' : VRec) (f : Str) (hold : dget d.versions version = some r)
    (hsame : dget r'.flavors f = dget r.flavors f) (v' : Str) :
    PDir.blockV { d with versions := putV d.versions version r' } v' f = PDir.blockV d v' f := by
  unfold PDir.blockV putV
  by_cases ht : v' = version
  · subst ht
    simp only [hold, Option.bind_some]
    split
    · rename_i he
      rw [dget_ddel_self]
      simp only [Option.bind_none]
      rw [← hsame, dget_nil_of_isEmpty _ _ he]
    · rw [dget_dset_self]; simp [hsame]
  · split
    · rw [dget_ddel_other _ _ _ ht]
    · rw [dget_dset_other _ _ _ _ ht]

theorem unassignTag_blocks (d : PDir) (tag flavor f' : Str) (hf : f' ≠ flavor) :
    (∀ t, (d.unassignTag tag flavor).blockC t f' = d.blockC t f') ∧
    (d.unassignTag tag flavor).versions = d.versions := by
  unfold PDir.unassignTag
  cases hg : dget d.chains tag with
  | none => simp
  | some r =>
    simp only
    split
    · refine ⟨fun t => blockC_putC d tag r _ f' hg ?_ t, rfl⟩
      simp only [CRec.removeVersion]
      exact dget_ddel_other _ _ _ hf
    · simp

theorem unassignAll_blocks (ts : List Str) (flavor f' : Str) (hf : f' ≠ flavor) : ∀ d : PDir,
    (∀ t, (ts.foldl (fun d t => d.unassignTag t flavor) d).blockC t f' = d.blockC t f') ∧
    (ts.foldl (fun d t => d.unassignTag t flavor) d).versions = d.versions := by
  induction ts with
  | nil => intro d; simp
  | cons t rest ih =>
    intro d
    simp only [List.foldl_cons]
    obtain ⟨h1, h2⟩ := ih (d.unassignTag t flavor)
    obtain ⟨h3, h4⟩ := unassignTag_blocks d t flavor f' hf
    exact ⟨fun t' => by rw [h1, h3], by rw [h2, h4]⟩

theorem undeclare_blocks (d : PDir) (version flavor f' : Str) (hf : f' ≠ flavor) :
    (∀ t, (d.undeclare version flavor).blockC t f' = d.blockC t f') ∧
    (∀ v, (d.undeclare version flavor).blockV v f' = d.blockV v f') := by
  unfold PDir.undeclare
  cases hg : dget d.versions version with
  | none => simp
  | some vr =>
    simp only
    split
    · simp
    · obtain ⟨h1, h2⟩ := unassignAll_blocks (d.findTags version flavor) flavor f' hf d
      constructor
      · intro t
        rw [← h1 t]
        rfl
      · intro v
        have hold : dget ((d.findTags version flavor).foldl (fun d t => d.unassignTag t flavor) d).versions version = some vr := by
          rw [h2, hg]
        have := blockV_putV _ version vr { vr with flavors := ddel vr.flavors flavor } f' hold
          (dget_ddel_other _ _ _ hf) v
        rw [this]
        simp only [PDir.blockV, h2]

theorem assignTag_blocks (d : PDir) (name tag version flavor who now f' : Str) (hf : f' ≠ flavor) :
    (∀ t, (d.assignTag name tag version flavor who now).blockC t f' = d.blockC t f') ∧
    (∀ v, (d.assignTag name tag version flavor who now).blockV v f' = d.blockV v f') := by
  unfold PDir.assignTag
  cases hg : dget d.versions version with
  | none => simp
  | some vr =>
    simp only
    split
    · simp
    · refine ⟨fun t => ?_, fun v => rfl⟩
      unfold PDir.blockC
      by_cases ht : t = tag
      · subst ht
        simp only [dget_dset_self, Option.bind_some, CRec.setVersion]
        rw [dget_dset_other _ _ _ _ hf]
        cases hc : dget d.chains t with
        | none => simp [dget]
        | some r => simp
      · simp only [dget_dset_other _ _ _ _ ht]

end EupsModel.Record
