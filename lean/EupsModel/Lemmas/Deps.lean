import EupsModel.Model.Deps
/-! Invariants of the recursive table walk `depsOf` / `depsLoop` (`Model/Deps.lean`) for tables without
unsetup lines: what it returns is exactly what is reachable, and the product dictionary it fills holds
exactly the edges of the tables it opened. -/
namespace EupsModel.Deps
open EupsModel

/-- "plain" tables: no table of the database has an `unsetupRequired` / `unsetupOptional` line, and every
declared table file exists.  (The name is kept from the first version of these proofs, where only the first
half was needed; the property says nothing about unsetup lines or about products whose table cannot be read.) -/
def NoUnsetup (db : Db) : Prop :=
  (∀ d ∈ db.decls, ∀ x ∈ d.deps, x.unsetup = false) ∧ (∀ d ∈ db.decls, d.tableMissing = false)

instance (db : Db) : Decidable (NoUnsetup db) := by unfold NoUnsetup; infer_instance

theorem tableMissing_false {db : Db} (h : NoUnsetup db) (p : Prod) : db.tableMissing p = false := by
  unfold Db.tableMissing
  split
  · split
    · rename_i d hd
      exact h.2 d (List.mem_of_find?_eq_some hd)
    · rfl
  · rfl

theorem table_noUnsetup {db : Db} (h : NoUnsetup db) (p : Prod) : ∀ x ∈ db.table p, x.unsetup = false := by
  intro x hx
  unfold Db.table at hx
  split at hx
  · split at hx
    · rename_i d hd
      exact h.1 d (List.mem_of_find?_eq_some hd) x (List.mem_filter.mp hx).1
    · simp at hx
  · simp at hx

/-- the product a setup line denotes: the resolved product, or the placeholder carrying the version written
on the line -/
def target (db : Db) (req : Required) (d : Dep) : Prod := (resolve db req d).getD ⟨d.name, d.ver, false⟩

/-- `u`'s table has a line denoting `v` -/
def Edge (db : Db) (req : Required) (u v : Prod) : Prop := ∃ d ∈ db.table u, target db req d = v

/-- `u`'s table has a line without `-j` that resolves to the declared product `v` (whose table is then opened) -/
def XEdge (db : Db) (req : Required) (u v : Prod) : Prop :=
  ∃ d ∈ db.table u, d.noRec = false ∧ resolve db req d = some v

/-- the products whose tables the walk from `u` opens -/
inductive XReach (db : Db) (req : Required) : Prod → Prod → Prop
  | refl (u : Prod) : XReach db req u u
  | head {u w v : Prod} : XEdge db req u w → XReach db req w v → XReach db req u v

theorem XReach.tail {db : Db} {req : Required} {u w v : Prod} (h1 : XReach db req u w) (h2 : XEdge db req w v) :
    XReach db req u v := by
  induction h1 with
  | refl => exact XReach.head h2 (XReach.refl _)
  | head he _ ih => exact XReach.head he (ih h2)

theorem XReach.trans {db : Db} {req : Required} {u w v : Prod} (h1 : XReach db req u w) (h2 : XReach db req w v) :
    XReach db req u v := by
  induction h1 with
  | refl => exact h2
  | head he _ ih => exact XReach.head he (ih h2)

/-- `v` is listed from `top`: some opened table has a line denoting it -/
def Listed (db : Db) (req : Required) (top v : Prod) : Prop := ∃ w, XReach db req top w ∧ Edge db req w v

theorem Listed.of_head {db : Db} {req : Required} {u w v : Prod} (h1 : XEdge db req u w) (h2 : Listed db req w v) :
    Listed db req u v := by
  obtain ⟨x, hx, he⟩ := h2
  exact ⟨x, XReach.head h1 hx, he⟩

def ofKey (k : Str × Option Str) : Prod := ⟨k.1, k.2, true⟩

theorem ofKey_prodkey {p : Prod} (h : p.real = true) : ofKey (prodkey p) = p := by
  cases p; simp_all [ofKey, prodkey]

theorem find_real {db : Db} {n : Str} {v : Option Str} {p : Prod} (h : db.find n v = some p) : p.real = true := by
  unfold Db.find at h
  split at h
  · split at h <;> simp at h; subst h; rfl
  · split at h
    · split at h <;> simp at h; subst h; rfl
    · simp at h

theorem resolve_real {db : Db} {req : Required} {d : Dep} {p : Prod} (h : resolve db req d = some p) :
    p.real = true := by
  unfold resolve at h
  split at h <;> exact find_real h

/-- `w`'s table has been read completely: `w` is a key of the dictionary, every line's product is in the
output and recorded as an edge, and every product it opens is in the visited set -/
def Closed (db : Db) (req : Required) (out : List Entry) (st : St) (w : Prod) : Prop :=
  w ∈ st.nodes ∧ ∀ d ∈ db.table w,
    target db req d ∈ out.map (·.prod) ∧ (w, target db req d) ∈ st.edges ∧
    (d.noRec = false → ∀ v, resolve db req d = some v → prodkey v ∈ st.seen)

theorem Closed.mono {db : Db} {req : Required} {out out' : List Entry} {st st' : St} {w : Prod}
    (h : Closed db req out st w) (ho : ∀ e ∈ out, e ∈ out') (hs : ∀ k ∈ st.seen, k ∈ st'.seen)
    (hn : ∀ n ∈ st.nodes, n ∈ st'.nodes) (he : ∀ e ∈ st.edges, e ∈ st'.edges) : Closed db req out' st' w := by
  refine ⟨hn _ h.1, ?_⟩
  intro d hd
  obtain ⟨h1, h2, h3⟩ := h.2 d hd
  refine ⟨?_, he _ h2, fun hj v hv => hs _ (h3 hj v hv)⟩
  simp only [List.mem_map] at h1 ⊢
  obtain ⟨e, hem, hep⟩ := h1
  exact ⟨e, ho e hem, hep⟩

/-- what a completed call `depsOf … top true depth st = some (out, st')` guarantees -/
structure CallPost (db : Db) (req : Required) (top : Prod) (st : St) (out : List Entry) (st' : St) : Prop where
  seen_mono : ∀ k ∈ st.seen, k ∈ st'.seen
  nodes_mono : ∀ n ∈ st.nodes, n ∈ st'.nodes
  edges_mono : ∀ e ∈ st.edges, e ∈ st'.edges
  out_sound : ∀ e ∈ out, Listed db req top e.prod
  seen_sound : ∀ k ∈ st'.seen, k ∉ st.seen → (ofKey k).real = true ∧ XReach db req top (ofKey k)
  nodes_sound : ∀ n ∈ st'.nodes, n ∉ st.nodes → XReach db req top n
  edges_sound : ∀ e ∈ st'.edges, e ∉ st.edges → XReach db req top e.1 ∧ Edge db req e.1 e.2
  closed_top : Closed db req out st' top
  closed_new : ∀ k ∈ st'.seen, k ∉ st.seen → Closed db req out st' (ofKey k)

/-- the same for the loop over the remaining lines `ds` of `top`'s table -/
structure LoopPost (db : Db) (req : Required) (top : Prod) (ds : List Dep) (acc : List Entry) (st : St)
    (out : List Entry) (st' : St) (new : List Entry) : Prop where
  out_eq : out = acc ++ new
  seen_mono : ∀ k ∈ st.seen, k ∈ st'.seen
  nodes_mono : ∀ n ∈ st.nodes, n ∈ st'.nodes
  edges_mono : ∀ e ∈ st.edges, e ∈ st'.edges
  new_sound : ∀ e ∈ new, Listed db req top e.prod
  seen_sound : ∀ k ∈ st'.seen, k ∉ st.seen → (ofKey k).real = true ∧ XReach db req top (ofKey k)
  nodes_sound : ∀ n ∈ st'.nodes, n ∉ st.nodes → XReach db req top n
  edges_sound : ∀ e ∈ st'.edges, e ∉ st.edges → XReach db req top e.1 ∧ Edge db req e.1 e.2
  lines_done : ∀ d ∈ ds, target db req d ∈ new.map (·.prod) ∧ (top, target db req d) ∈ st'.edges ∧
      (d.noRec = false → ∀ v, resolve db req d = some v → prodkey v ∈ st'.seen)
  closed_new : ∀ k ∈ st'.seen, k ∉ st.seen → Closed db req new st' (ofKey k)

theorem depsLoop_cons_setup (db : Db) (req : Required)
    (recur : Prod → Nat → St → Option (List Entry × St)) (fresh : Prod → Option (List Str))
    (top : Prod) (recursive : Bool) (depth : Nat) (d : Dep) (ds : List Dep) (acc : List Entry) (st : St)
    (hd : d.unsetup = false) (hm : ∀ p, db.tableMissing p = false) :
    depsLoop db req recur fresh top recursive depth (d :: ds) acc st =
      match resolve db req d with
      | none =>
        depsLoop db req recur fresh top recursive depth ds
          (acc ++ [⟨⟨d.name, d.ver, false⟩, d.optional, if recursive then some depth else none⟩])
          { st with edges := st.edges ++ [(top, ⟨d.name, d.ver, false⟩)] }
      | some p =>
        if recursive && !d.noRec && !st.seen.contains (prodkey p) then
          match recur p (depth + 1) { st with seen := prodkey p :: st.seen } with
          | none => none
          | some (sub, st') =>
            depsLoop db req recur fresh top recursive depth ds
              (acc ++ ⟨p, d.optional, if recursive then some depth else none⟩ :: sub)
              { st' with edges := st'.edges ++ [(top, p)] }
        else
          depsLoop db req recur fresh top recursive depth ds
            (acc ++ [⟨p, d.optional, if recursive then some depth else none⟩])
            { st with edges := st.edges ++ [(top, p)] } := by
  rw [depsLoop]
  simp only [hd, Bool.false_eq_true, if_false, hm]
  rfl

theorem LoopPost.cons_plain {db : Db} {req : Required} {top : Prod} {d : Dep} {ds : List Dep}
    {acc : List Entry} {st : St} {out : List Entry} {st' : St} {new : List Entry} {e : Entry}
    (hdt : d ∈ db.table top) (he : e.prod = target db req d)
    (hseen : d.noRec = false → ∀ v, resolve db req d = some v → prodkey v ∈ st.seen)
    (P : LoopPost db req top ds (acc ++ [e]) { st with edges := st.edges ++ [(top, e.prod)] } out st' new) :
    LoopPost db req top (d :: ds) acc st out st' (e :: new) where
  out_eq := by rw [P.out_eq]; simp
  seen_mono := P.seen_mono
  nodes_mono := P.nodes_mono
  edges_mono := fun x hx => P.edges_mono x (by simp [hx])
  new_sound := by
    intro x hx
    simp only [List.mem_cons] at hx
    rcases hx with rfl | hx
    · exact ⟨top, XReach.refl _, d, hdt, he.symm⟩
    · exact P.new_sound x hx
  seen_sound := P.seen_sound
  nodes_sound := P.nodes_sound
  edges_sound := by
    intro x hx hnx
    by_cases h1 : x = (top, e.prod)
    · subst h1; exact ⟨XReach.refl _, d, hdt, he.symm⟩
    · apply P.edges_sound x hx
      simp only [List.mem_append, List.mem_singleton, not_or]
      exact ⟨hnx, h1⟩
  lines_done := by
    intro d' hd'
    simp only [List.mem_cons] at hd'
    rcases hd' with rfl | hd'
    · refine ⟨by simp [he], ?_, fun hj v hv => P.seen_mono _ (hseen hj v hv)⟩
      apply P.edges_mono; simp [he]
    · obtain ⟨h1, h2, h3⟩ := P.lines_done d' hd'
      refine ⟨?_, h2, h3⟩
      simp only [List.map_cons, List.mem_cons]; exact Or.inr h1
  closed_new := by
    intro k hk hnk
    exact (P.closed_new k hk hnk).mono (fun x hx => by simp [hx]) (fun _ h => h) (fun _ h => h) (fun _ h => h)

theorem LoopPost.cons_rec {db : Db} {req : Required} {top p : Prod} {d : Dep} {ds : List Dep}
    {acc : List Entry} {st st2 : St} {out sub : List Entry} {st' : St} {new : List Entry} {e : Entry}
    (hdt : d ∈ db.table top) (hj : d.noRec = false) (hr : resolve db req d = some p) (he : e.prod = p)
    (C : CallPost db req p { st with seen := prodkey p :: st.seen } sub st2)
    (P : LoopPost db req top ds (acc ++ e :: sub) { st2 with edges := st2.edges ++ [(top, p)] } out st' new) :
    LoopPost db req top (d :: ds) acc st out st' (e :: sub ++ new) := by
  have hx : XEdge db req top p := ⟨d, hdt, hj, hr⟩
  have hpr : p.real = true := resolve_real hr
  have htg : target db req d = p := by simp [target, hr]
  have hcase : ∀ k ∈ st'.seen, k ∉ st.seen →
      k = prodkey p ∨ (k ∈ st2.seen ∧ k ∉ prodkey p :: st.seen) ∨ k ∉ st2.seen := by
    intro k _ hnk
    by_cases h2 : k ∈ st2.seen
    · by_cases h1 : k = prodkey p
      · exact Or.inl h1
      · right; left; exact ⟨h2, by simp [h1, hnk]⟩
    · exact Or.inr (Or.inr h2)
  exact {
    out_eq := by rw [P.out_eq]; simp
    seen_mono := fun k hk => P.seen_mono k (C.seen_mono k (by simp [hk]))
    nodes_mono := fun n hn => P.nodes_mono n (C.nodes_mono n hn)
    edges_mono := fun x hx' => P.edges_mono x (by simp [C.edges_mono x hx'])
    new_sound := by
      intro x hx'
      simp only [List.cons_append, List.mem_cons, List.mem_append] at hx'
      rcases hx' with rfl | hx' | hx'
      · exact ⟨top, XReach.refl _, d, hdt, by rw [htg, he]⟩
      · exact Listed.of_head hx (C.out_sound x hx')
      · exact P.new_sound x hx'
    seen_sound := by
      intro k hk hnk
      rcases hcase k hk hnk with rfl | ⟨h2, h1⟩ | h2
      · rw [ofKey_prodkey hpr]; exact ⟨hpr, XReach.head hx (XReach.refl _)⟩
      · obtain ⟨a, b⟩ := C.seen_sound k h2 h1
        exact ⟨a, XReach.head hx b⟩
      · exact P.seen_sound k hk h2
    nodes_sound := by
      intro n hn hnn
      by_cases h2 : n ∈ st2.nodes
      · exact XReach.head hx (C.nodes_sound n h2 hnn)
      · exact P.nodes_sound n hn h2
    edges_sound := by
      intro x hx' hnx
      by_cases h2 : x ∈ st2.edges
      · obtain ⟨a, b⟩ := C.edges_sound x h2 hnx
        exact ⟨XReach.head hx a, b⟩
      · by_cases h1 : x = (top, p)
        · subst h1; exact ⟨XReach.refl _, d, hdt, htg⟩
        · apply P.edges_sound x hx'
          simp only [List.mem_append, List.mem_singleton, not_or]
          exact ⟨h2, h1⟩
    lines_done := by
      intro d' hd'
      simp only [List.mem_cons] at hd'
      rcases hd' with rfl | hd'
      · refine ⟨by simp [htg, he], ?_, ?_⟩
        · apply P.edges_mono; simp [htg]
        · intro _ v hv
          rw [hr] at hv; cases hv
          exact P.seen_mono _ (C.seen_mono _ (by simp))
      · obtain ⟨h1, h2, h3⟩ := P.lines_done d' hd'
        refine ⟨?_, h2, h3⟩
        simp only [List.cons_append, List.map_cons, List.map_append, List.mem_cons, List.mem_append]
        exact Or.inr (Or.inr h1)
    closed_new := by
      intro k hk hnk
      rcases hcase k hk hnk with rfl | ⟨h2, h1⟩ | h2
      · rw [ofKey_prodkey hpr]
        exact C.closed_top.mono (fun x hx' => by simp [hx']) (fun k hk' => P.seen_mono k hk')
          (fun n hn => P.nodes_mono n hn) (fun x hx' => P.edges_mono x (by simp [hx']))
      · exact (C.closed_new k h2 h1).mono (fun x hx' => by simp [hx']) (fun k hk' => P.seen_mono k hk')
          (fun n hn => P.nodes_mono n hn) (fun x hx' => P.edges_mono x (by simp [hx']))
      · exact (P.closed_new k hk h2).mono (fun x hx' => by simp [hx']) (fun _ h => h) (fun _ h => h) (fun _ h => h) }

/-- the loop over the lines of `top`'s table, given that the recursive call keeps its promise -/
theorem depsLoop_post (db : Db) (req : Required)
    (recur : Prod → Nat → St → Option (List Entry × St)) (fresh : Prod → Option (List Str))
    (top : Prod) (depth : Nat) (hm : ∀ p, db.tableMissing p = false)
    (hrec : ∀ p dp st out st', recur p dp st = some (out, st') → CallPost db req p st out st') :
    ∀ ds acc st out st', (∀ d ∈ ds, d.unsetup = false) → (∀ d ∈ ds, d ∈ db.table top) →
      depsLoop db req recur fresh top true depth ds acc st = some (out, st') →
      ∃ new, LoopPost db req top ds acc st out st' new := by
  intro ds
  induction ds with
  | nil =>
    intro acc st out st' _ _ h
    simp only [depsLoop, Option.some.injEq, Prod.mk.injEq] at h
    obtain ⟨rfl, rfl⟩ := h
    exact ⟨[], { out_eq := by simp, seen_mono := fun _ h => h, nodes_mono := fun _ h => h,
                 edges_mono := fun _ h => h, new_sound := by simp,
                 seen_sound := fun k hk hnk => absurd hk hnk, nodes_sound := fun k hk hnk => absurd hk hnk,
                 edges_sound := fun k hk hnk => absurd hk hnk, lines_done := by simp,
                 closed_new := fun k hk hnk => absurd hk hnk }⟩
  | cons d ds ih =>
    intro acc st out st' hu ht h
    rw [depsLoop_cons_setup _ _ _ _ _ _ _ _ _ _ _ (hu d (by simp)) hm] at h
    have hdt : d ∈ db.table top := ht d (by simp)
    have hu' : ∀ d ∈ ds, d.unsetup = false := fun x hx => hu x (by simp [hx])
    have ht' : ∀ d ∈ ds, d ∈ db.table top := fun x hx => ht x (by simp [hx])
    cases hr : resolve db req d with
    | none =>
      simp only [hr] at h
      obtain ⟨new, P⟩ := ih _ _ _ _ hu' ht' h
      exact ⟨_, LoopPost.cons_plain hdt (by simp [target, hr]) (by intro _ v hv; rw [hr] at hv; cases hv) P⟩
    | some p =>
      simp only [hr] at h
      by_cases hc : (true && !d.noRec && !st.seen.contains (prodkey p)) = true
      · simp only [hc, if_true] at h
        cases hq : recur p (depth + 1) { st with seen := prodkey p :: st.seen } with
        | none => simp [hq] at h
        | some r =>
          obtain ⟨sub, st2⟩ := r
          simp only [hq] at h
          have C := hrec _ _ _ _ _ hq
          obtain ⟨new, P⟩ := ih _ _ _ _ hu' ht' h
          have hj : d.noRec = false := by
            simp only [Bool.true_and, Bool.and_eq_true, Bool.not_eq_true'] at hc; exact hc.1
          exact ⟨_, LoopPost.cons_rec hdt hj hr rfl C P⟩
      · simp only [hc, Bool.false_eq_true, if_false] at h
        obtain ⟨new, P⟩ := ih _ _ _ _ hu' ht' h
        refine ⟨_, LoopPost.cons_plain hdt (by simp [target, hr]) ?_ P⟩
        intro hj v hv
        rw [hr] at hv; cases hv
        simp only [Bool.true_and, hj, Bool.not_false, Bool.not_eq_true', List.contains_eq_mem,
          decide_eq_false_iff_not, Decidable.not_not] at hc
        exact hc

/-- **The walk is sound and complete** (tables without unsetup lines): any completed recursive call satisfies `CallPost`. -/
theorem depsOf_post (db : Db) (hns : NoUnsetup db) (req : Required) {g : Guard} :
    ∀ f top depth st out st', depsOfG db f g req top true depth st = some (out, st') →
      CallPost db req top st out st' := by
  intro f
  induction f with
  | zero => intro top depth st out st' h; simp [depsOfG] at h
  | succ k ih =>
    intro top depth st out st' h
    unfold depsOfG at h
    obtain ⟨new, P⟩ := depsLoop_post db req _ _ top depth (tableMissing_false hns) (fun p dp st out st' hq => ih p dp st out st' hq)
      _ _ _ _ _ (table_noUnsetup hns top) (fun _ h => h) h
    have hout : out = new := by rw [P.out_eq]; simp
    subst hout
    have htop : top ∈ (if st.nodes.contains top = true then st.nodes else st.nodes ++ [top]) := by
      split
      · rename_i hc; simpa using hc
      · simp
    have hsub : ∀ n ∈ st.nodes, n ∈ (if st.nodes.contains top = true then st.nodes else st.nodes ++ [top]) := by
      intro n hn; split
      · exact hn
      · simp [hn]
    exact {
      seen_mono := P.seen_mono
      nodes_mono := fun n hn => P.nodes_mono n (hsub n hn)
      edges_mono := P.edges_mono
      out_sound := P.new_sound
      seen_sound := P.seen_sound
      nodes_sound := by
        intro n hn hnn
        by_cases h0 : n ∈ (if st.nodes.contains top = true then st.nodes else st.nodes ++ [top])
        · split at h0
          · exact absurd h0 hnn
          · simp only [List.mem_append, List.mem_singleton] at h0
            rcases h0 with h0 | h0
            · exact absurd h0 hnn
            · subst h0; exact XReach.refl _
        · exact P.nodes_sound n hn h0
      edges_sound := P.edges_sound
      closed_top := ⟨P.nodes_mono _ htop, P.lines_done⟩
      closed_new := P.closed_new }

end EupsModel.Deps
