import EupsModel.Model.TableParse
/-! Lemmas about the model of `Table.getDeclareOptions`: its copy of the branch-selection loop selects what
`Table.actions` selects; `=` separates option words like blanks and commas do. -/
namespace EupsModel.TableParse
open EupsModel.Cond

/-- the two copies of the `while LBB` loop select the same block -/
theorem selectD_eq_select (v : Variant) (env : Env) : ∀ ch : Chain, selectD v env ch = select v env ch := by
  intro ch
  induction h : ch.length using Nat.strongRecOn generalizing ch with
  | ind n ih =>
    match ch with
    | [] => rfl
    | [_] => rfl
    | .blk _ :: _ :: _ => rfl
    | .cond c :: b :: rest =>
      simp only [selectD, select]
      congr 1
      funext t
      cases t with
      | true => rfl
      | false =>
        simp only [Bool.false_eq_true, if_false]
        match rest with
        | [] => exact ih _ (by subst h; simp) [] rfl
        | [.blk _] => rfl
        | [.cond _] => rfl
        | x :: y :: r => cases x <;> exact ih _ (by subst h; simp) (_ :: y :: r) rfl

theorem blockOpts_append (d : Dict) (a b : List Action) : blockOpts d (a ++ b) = blockOpts (blockOpts d a) b := by
  simp [blockOpts, List.foldl_append]

/-- `getDeclareOptions` reads the options off exactly the actions that `Table.actions` returns -/
theorem declOptsGo_actions (v : Variant) (env : Env) :
    ∀ (chains : List Chain) (d : Dict),
      declOptsGo v env d chains = (actions v env chains).bind fun as => .ok (blockOpts d as) := by
  intro chains
  induction chains with
  | nil => intro d; rfl
  | cons ch rest ih =>
    intro d
    simp only [declOptsGo, actions, selectD_eq_select]
    cases select v env ch with
    | ok as =>
      simp only [Res.bind, ih]
      cases actions v env rest with
      | ok bs => simp [Res.bind, blockOpts_append]
      | err e => rfl
      | fuel => rfl
    | err e => rfl
    | fuel => rfl

theorem tableDeclOpts_actions (v : Variant) (pdir : Option Str) (env : Env) (text : Str) :
    tableDeclOpts v pdir env text = (tableActions v pdir env text).bind fun as => .ok (blockOpts [] as) := by
  simp only [tableDeclOpts, tableActions]
  cases parse v pdir text with
  | ok chains => simp [Res.bind, declOptsGo_actions]
  | err e => rfl
  | fuel => rfl

/-- without a chain of more than seven branches the loop as pinned is the repaired one -/
theorem declOptsGoPinned_short (v : Variant) (env : Env) :
    ∀ (chains : List Chain) (d : Dict), (∀ ch ∈ chains, ch.length ≤ 15) →
      declOptsGoPinned v env d chains = (declOptsGo v env d chains).bind fun r => .ok (some r) := by
  intro chains
  induction chains with
  | nil => intro d _; rfl
  | cons ch rest ih =>
    intro d h
    have h1 : ¬ ch.length > 15 := by have := h ch (by simp); omega
    simp only [declOptsGoPinned, declOptsGo, h1, if_false]
    cases selectD v env ch with
    | ok as => simp only [Res.bind]; exact ih _ (fun c hc => h c (by simp [hc]))
    | err e => rfl
    | fuel => rfl

/-! ### `=` as a separator of option words -/

def noSpace (s : Str) : Bool := s.all fun c => !Str.isSpace c

theorem dropSpaces_noSpace {s : Str} (h : noSpace s = true) : dropSpaces s = s := by
  cases s with
  | nil => rfl
  | cons c cs =>
    simp only [noSpace, List.all_cons, Bool.and_eq_true, Bool.not_eq_true'] at h
    simp [dropSpaces, List.dropWhile, h.1]

theorem rstrip_noSpace {s : Str} (h : noSpace s = true) : rstrip s = s := by
  have h' : noSpace s.reverse = true := by simpa [noSpace] using h
  have := dropSpaces_noSpace h'
  simp only [dropSpaces] at this
  simp [rstrip, this]

theorem splitOn_noSpace (c : Nat) : ∀ (s cur : Str), noSpace cur = true → noSpace s = true →
    ∀ p ∈ splitOn c cur s, noSpace p = true := by
  intro s
  induction s with
  | nil => intro cur hc _ p hp; simp only [splitOn, List.mem_singleton] at hp; subst hp; exact hc
  | cons x xs ih =>
    intro cur hc hs p hp
    simp only [noSpace, List.all_cons, Bool.and_eq_true] at hs
    simp only [splitOn] at hp
    split at hp
    · simp only [List.mem_cons] at hp
      rcases hp with hp | hp
      · subst hp; exact hc
      · exact ih [] rfl hs.2 p hp
    · refine ih (cur ++ [x]) ?_ hs.2 p hp
      simp only [noSpace, List.all_append, List.all_cons, List.all_nil, Bool.and_true, Bool.and_eq_true] at hc ⊢
      exact ⟨hc, hs.1⟩

theorem trimPieces_noSpace : ∀ (ps : List Str) (first : Bool), (∀ p ∈ ps, noSpace p = true) → trimPieces first ps = ps := by
  intro ps
  induction ps with
  | nil => intro _ _; rfl
  | cons p rest ih =>
    intro first h
    have hp := h p (by simp)
    cases rest with
    | nil => cases first <;> simp [trimPieces, dropSpaces_noSpace hp]
    | cons q r =>
      have := ih false (fun x hx => h x (by simp [hx]))
      cases first <;> simp [trimPieces, dropSpaces_noSpace hp, rstrip_noSpace hp, this]

/-- in an argument without white space `re.split(r"\s*=\s*", …)` is a plain split at `=` -/
theorem splitEq_noSpace {a : Str} (h : noSpace a = true) : splitEq a = splitOn 61 [] a :=
  trimPieces_noSpace _ true (splitOn_noSpace 61 a [] rfl h)

theorem splitOn_prefix (c : Nat) : ∀ (a cur b : Str), c ∉ a →
    splitOn c cur (a ++ c :: b) = (cur ++ a) :: splitOn c [] b := by
  intro a
  induction a with
  | nil => intro cur b _; simp [splitOn]
  | cons x xs ih =>
    intro cur b h
    simp only [List.mem_cons, not_or] at h
    have hx : (x == c) = false := by simpa using fun e => h.1 e.symm
    simp [splitOn, hx, ih (cur ++ [x]) b h.2]

theorem splitOn_none (c : Nat) : ∀ (a cur : Str), c ∉ a → splitOn c cur a = [cur ++ a] := by
  intro a
  induction a with
  | nil => intro cur _; simp [splitOn]
  | cons x xs ih =>
    intro cur h
    simp only [List.mem_cons, not_or] at h
    have hx : (x == c) = false := by simpa using fun e => h.1 e.symm
    simp [splitOn, hx, ih (cur ++ [x]) h.2]

theorem dropSpaces_blank_append {s v : Str} (hs : s.all Str.isSpace = true) (hv : (v.head?.map Str.isSpace).getD false = false) :
    dropSpaces (s ++ v) = v := by
  induction s with
  | nil =>
    cases v with
    | nil => rfl
    | cons c cs => simp only [Option.map, List.head?, Option.getD] at hv; simp [dropSpaces, List.dropWhile, hv]
  | cons c cs ih =>
    simp only [List.all_cons, Bool.and_eq_true] at hs
    simp only [dropSpaces, List.cons_append, List.dropWhile, hs.1]
    exact ih hs.2

theorem rstrip_append_blank {k s : Str} (hs : s.all Str.isSpace = true) (hk : (k.getLast?.map Str.isSpace).getD false = false) :
    rstrip (k ++ s) = k := by
  have h1 : s.reverse.all Str.isSpace = true := by simpa using hs
  have h2 : (k.reverse.head?.map Str.isSpace).getD false = false := by simpa [List.head?_reverse] using hk
  have := dropSpaces_blank_append h1 h2
  simp only [dropSpaces] at this
  simp [rstrip, List.reverse_append, this]

/-- one option written as `k = v` inside one (quoted) argument, with any white space around the `=` -/
theorem splitEq_written {k s1 s2 v : Str} (hk : 61 ∉ k) (hv : 61 ∉ v) (h1 : s1.all Str.isSpace = true)
    (h2 : s2.all Str.isSpace = true) (hkl : (k.getLast?.map Str.isSpace).getD false = false)
    (hvh : (v.head?.map Str.isSpace).getD false = false) :
    splitEq (k ++ s1 ++ 61 :: (s2 ++ v)) = [k, v] := by
  have h61 : 61 ∉ k ++ s1 := by
    intro m
    rcases List.mem_append.mp m with m | m
    · exact hk m
    · have := List.all_eq_true.mp h1 61 m; revert this; decide
  have h61' : 61 ∉ s2 ++ v := by
    intro m
    rcases List.mem_append.mp m with m | m
    · have := List.all_eq_true.mp h2 61 m; revert this; decide
    · exact hv m
  simp only [splitEq, splitOn_prefix 61 _ [] _ h61, splitOn_none 61 _ [] h61', List.nil_append, trimPieces,
    if_true, Bool.false_eq_true, if_false, rstrip_append_blank h1 hkl, dropSpaces_blank_append h2 hvh]

/-! ### options as written -/

/-- how one option `k = v` is written as unquoted arguments -/
inductive OptStyle | joined | spaced | eqRight | eqLeft      -- `k=v` | `k = v` | `k =v` | `k= v`
  deriving DecidableEq, Repr

/-- the arguments the tokeniser delivers for it -/
def optArgs (k v : Str) : OptStyle → List Str
  | .joined => [k ++ 61 :: v]
  | .spaced => [k, [61], v]
  | .eqRight => [k, 61 :: v]
  | .eqLeft => [k ++ [61], v]

/-- a key or a value: not empty, no `=`, no white space -/
def optWord (w : Str) : Bool := !w.isEmpty && w.all (fun c => c != 61 && !Str.isSpace c)

theorem optWord_facts {w : Str} (h : optWord w = true) : w ≠ [] ∧ 61 ∉ w ∧ noSpace w = true := by
  simp only [optWord, Bool.and_eq_true, Bool.not_eq_true', List.isEmpty_eq_false_iff] at h
  refine ⟨h.1, fun m => ?_, ?_⟩
  · have := List.all_eq_true.mp h.2 61 m; simp at this
  · simp only [noSpace, List.all_eq_true] at h ⊢
    intro c hc; have := h.2 c hc; simp only [Bool.and_eq_true] at this; exact this.2

theorem splitOn_kv {k v : Str} (hk : 61 ∉ k) (hv : 61 ∉ v) : splitOn 61 [] (k ++ 61 :: v) = [k, v] := by
  rw [splitOn_prefix 61 k [] v hk, splitOn_none 61 v [] hv]; simp

theorem optWords_append (a b : List Str) : optWords (a ++ b) = optWords a ++ optWords b := by
  simp [optWords, List.flatMap_append]

theorem optWords_one {k v : Str} (hk : optWord k = true) (hv : optWord v = true) (st : OptStyle) :
    optWords (optArgs k v st) = [k, v] := by
  obtain ⟨hk0, hk1, hk2⟩ := optWord_facts hk
  obtain ⟨hv0, hv1, hv2⟩ := optWord_facts hv
  have nk : k.isEmpty = false := by simpa using hk0
  have nv : v.isEmpty = false := by simpa using hv0
  have e61 : noSpace [61] = true := by decide
  have ekv : noSpace (k ++ 61 :: v) = true := by
    simp only [noSpace, List.all_append, List.all_cons, Bool.and_eq_true] at hk2 hv2 ⊢
    exact ⟨hk2, by decide, hv2⟩
  have e1 : noSpace (61 :: v) = true := by
    simp only [noSpace, List.all_cons, Bool.and_eq_true] at hv2 ⊢; exact ⟨by decide, hv2⟩
  have e2 : noSpace (k ++ [61]) = true := by
    simp only [noSpace, List.all_append, List.all_cons, List.all_nil, Bool.and_eq_true] at hk2 ⊢; exact ⟨hk2, by decide, trivial⟩
  have s61 : splitOn 61 [] [61] = [[], []] := by decide
  have sv : splitOn 61 [] (61 :: v) = [[], v] := by
    have := splitOn_kv (k := []) (v := v) (by simp) hv1; simpa using this
  have sk : splitOn 61 [] (k ++ [61]) = [k, []] := splitOn_kv hk1 (by simp)
  have skk : splitOn 61 [] k = [k] := by have := splitOn_none 61 k [] hk1; simpa using this
  have svv : splitOn 61 [] v = [v] := by have := splitOn_none 61 v [] hv1; simpa using this
  cases st <;>
    simp [optWords, optArgs, splitEq_noSpace, ekv, hk2, hv2, e61, e1, e2, splitOn_kv hk1 hv1, s61, sv, sk, skk, svv, nk, nv]

/-- **options as written.**  A `declareOptions` command whose arguments are options `k = v`, each written in any of
the four unquoted styles, declares exactly the pairs written, in order. -/
theorem pairUp_written : ∀ (os : List (Str × Str × OptStyle)),
    (∀ o ∈ os, optWord o.1 = true ∧ optWord o.2.1 = true) →
    pairUp (optWords (os.flatMap fun o => optArgs o.1 o.2.1 o.2.2)) = os.map fun o => (o.1, o.2.1) := by
  intro os
  induction os with
  | nil => intro _; rfl
  | cons o rest ih =>
    intro h
    obtain ⟨hk, hv⟩ := h o (by simp)
    simp only [List.flatMap_cons, optWords_append, optWords_one hk hv, List.map_cons]
    simp [pairUp, ih (fun x hx => h x (by simp [hx]))]

end EupsModel.TableParse
