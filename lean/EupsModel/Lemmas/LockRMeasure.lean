import EupsModel.Lemmas.LockR
/-! C09, repaired protocol — every process makes a bounded number of calls, whatever the others do: a measure on the
program counter that every call (and a signal in the body) strictly decreases.  In particular the new retry loop
(`create` finds the lock directory removed → `mkdir` again) cannot spin: it is counted against `ntry`. -/
namespace EupsModel.LockR
open EupsModel.Lock (Pid Kind Err)

def afterMeasure : After → Nat
  | .fin => 0
  | .retry n => 10 * n + 9
  | .refuse => 0
  | .die => 0

/-- an upper bound for the number of calls the process still makes -/
def measure : PC → Nat
  | .mkdir l => 10 * l + 9
  | .scanAll l => 10 * l + 8
  | .scanMsg l => 10 * l + 7
  | .create l => 10 * l + 7
  | .look l => 10 * l + 6
  | .lookMsg l => 10 * l + 5
  | .hold => 5
  | .isdir a => afterMeasure a + 4
  | .rexists a => afterMeasure a + 3
  | .remove a => afterMeasure a + 2
  | .rmdir a => afterMeasure a + 1
  | .done => 0
  | .failedAcq _ => 0
  | .failedRel _ => 0
  | .killed => 0

def terminated : PC → Bool
  | .done | .failedAcq _ | .failedRel _ | .killed => true
  | _ => false

theorem measure_afterPC (a : After) : measure (afterPC a) = afterMeasure a := by
  cases a <;> simp [afterPC, measure, afterMeasure]

/-- every call of a process that has not terminated strictly decreases its measure -/
theorem measure_step (s : St) (p : Pid) (h : terminated (s.pc p) = false) :
    measure ((step s p).pc p) < measure (s.pc p) := by
  cases hpc : s.pc p with
  | mkdir l =>
    unfold step; simp only [hpc]
    split
    · split <;> simp [setPC, measure]
    · simp [measure]
  | scanAll l => unfold step; simp only [hpc]; split <;> simp [setPC, measure]
  | scanMsg l =>
    cases l with
    | zero => simp [step, hpc, setPC, measure]
    | succ n => simp [step, hpc, setPC, measure]; omega
  | create l =>
    unfold step; simp only [hpc]
    split
    · split <;> simp [setPC, measure]
    · cases l with
      | zero => simp [setPC, measure]
      | succ n => simp [setPC, measure]; omega
  | look l => unfold step; simp only [hpc]; split <;> simp [setPC, measure] <;> omega
  | lookMsg l =>
    cases hk : s.kind p <;> cases l <;> simp [step, hpc, hk, setPC, measure, afterMeasure] <;> omega
  | hold => simp [step, hpc, setPC, measure, afterMeasure]
  | isdir a =>
    unfold step; simp only [hpc]
    split
    · simp [setPC, measure]
    · cases a <;> simp [setPC, measure, afterPC, afterMeasure]
  | rexists a => unfold step; simp only [hpc]; split <;> simp [setPC, measure]
  | remove a =>
    unfold step; simp only [hpc]
    split
    · simp [measure]
    · simp [setPC, measure]
  | rmdir a =>
    unfold step; simp only [hpc]
    split
    · cases a <;> simp [measure, afterPC, afterMeasure]
    · cases a <;> simp [setPC, measure, afterPC, afterMeasure]
  | done => simp [hpc, terminated] at h
  | failedAcq e => simp [hpc, terminated] at h
  | failedRel e => simp [hpc, terminated] at h
  | killed => simp [hpc, terminated] at h

/-- a signal in the body decreases it too; elsewhere it changes nothing -/
theorem measure_interrupt (s : St) (p : Pid) : measure ((interrupt s p).pc p) ≤ measure (s.pc p) := by
  unfold interrupt
  split
  · rename_i h; simp [setPC, measure, afterMeasure, h]
  · rename_i h; simp [setPC, measure, afterMeasure, h]
  · simp [setPC, measure]
  · exact Nat.le_refl _

/-- the others' measures are untouched -/
theorem measure_step_other (s : St) (p j : Pid) (h : j ≠ p) : measure ((step s p).pc j) = measure (s.pc j) := by
  rw [step_pc_other s p j h]

/-- number of entries of `sched` that are calls of a not yet terminated process `p` — the calls `p` really makes -/
def callsOf (p : Pid) : St → List Pid → Nat
  | _, [] => 0
  | s, i :: r => (if i = p ∧ terminated (s.pc p) = false then 1 else 0) + callsOf p (step s i) r

/-- **bounded**: along any schedule, process `p` makes at most `measure (its program counter)` calls -/
theorem calls_bounded (p : Pid) (s : St) (sched : List Pid) :
    callsOf p s sched + measure ((run s sched).pc p) ≤ measure (s.pc p) := by
  induction sched generalizing s with
  | nil => simp [callsOf]
  | cons i r ih =>
    have := ih (step s i)
    simp only [callsOf, run_cons]
    by_cases hip : i = p
    · subst hip
      by_cases ht : terminated (s.pc i) = false
      · have hd := measure_step s i ht
        simp [ht]; omega
      · have ht' : terminated (s.pc i) = true := by simpa using ht
        have hs : step s i = s := by
          cases hpc : s.pc i <;> simp [hpc, terminated] at ht' <;> simp [step, hpc]
        simp [ht']; rw [hs] at this ⊢; omega
    · have hm := measure_step_other s i p (fun e => hip e.symm)
      simp [hip]; omega

end EupsModel.LockR
