import EupsModel.Model.Topo
/-! Lemmas about the layering loop of `utils.topologicalSort` (`Model/Topo.lean`). -/
namespace EupsModel.Topo

variable {α : Type} [DecidableEq α]

/-- position of the first layer that contains `n` -/
def level (ls : List (List α)) (n : α) : Option Nat := ls.findIdx? (fun l => decide (n ∈ l))

theorem mem_dedup (l : List α) (a : α) : a ∈ dedup l ↔ a ∈ l := by
  induction l with
  | nil => simp [dedup]
  | cons x xs ih =>
    simp only [dedup, List.mem_cons, List.mem_filter, ih]
    by_cases h : a = x <;> simp [h]

theorem dedup_nodup (l : List α) : (dedup l).Nodup := by
  induction l with
  | nil => simp [dedup]
  | cons x xs ih =>
    simp only [dedup, List.nodup_cons, List.mem_filter]
    exact ⟨by simp, ih.filter _⟩

theorem mem_unique : ∀ (g : Graph α), (keys g).Nodup → ∀ u d1 d2, (u, d1) ∈ g → (u, d2) ∈ g → d1 = d2 := by
  intro g
  induction g with
  | nil => intro _ u d1 d2 h; simp at h
  | cons p ps ih =>
    intro hk u d1 d2 h1 h2
    simp only [keys, List.map_cons, List.nodup_cons, List.mem_map] at hk
    simp only [List.mem_cons] at h1 h2
    rcases h1 with h1 | h1 <;> rcases h2 with h2 | h2
    · rw [← h1] at h2; exact (Prod.mk.inj h2).2.symm ▸ rfl
    · exact absurd ⟨(u, d2), h2, by rw [← h1]⟩ hk.1
    · exact absurd ⟨(u, d1), h1, by rw [← h2]⟩ hk.1
    · exact ih hk.2 u d1 d2 h1 h2

theorem strip_of_mem {g : Graph α} {u : α} {du : List α} (h : (u, du) ∈ g) (hne : du ≠ []) :
    (u, du.filter (fun d => !(ready g).contains d)) ∈ strip g := by
  simp only [strip, List.mem_map, List.mem_filter]
  exact ⟨(u, du), ⟨h, by cases du <;> simp_all⟩, rfl⟩

theorem keys_strip_sublist (g : Graph α) : (keys (strip g)).Sublist (keys g) := by
  have : keys (strip g) = keys (g.filter (fun p => !p.2.isEmpty)) := by
    simp [keys, strip, List.map_map, Function.comp_def]
  rw [this]
  exact List.Sublist.map _ List.filter_sublist

theorem keys_strip_nodup (g : Graph α) (hk : (keys g).Nodup) : (keys (strip g)).Nodup :=
  List.Nodup.sublist (keys_strip_sublist g) hk

theorem not_ready_of_dep {g : Graph α} (hk : (keys g).Nodup) {u : α} {du : List α} (hu : (u, du) ∈ g)
    (hne : du ≠ []) : u ∉ ready g := by
  intro hmem
  simp only [ready, List.mem_map, List.mem_filter] at hmem
  obtain ⟨⟨u', d'⟩, ⟨hp, hpe⟩, hpu⟩ := hmem
  simp at hpu; subst hpu
  have := mem_unique g hk u' d' du hp hu
  subst this
  cases d' <;> simp_all

theorem level_cons_not (l : List α) (ls : List (List α)) (n : α) (h : n ∉ l) :
    level (l :: ls) n = (level ls n).map (· + 1) := by
  simp [level, List.findIdx?_cons, h]

theorem level_cons_mem (l : List α) (ls : List (List α)) (n : α) (h : n ∈ l) :
    level (l :: ls) n = some 0 := by
  simp [level, List.findIdx?_cons, h]

theorem layers_succ_of_ready {f : Nat} {g : Graph α} (hr : ready g ≠ []) {ls : List (List α)} {rest : Graph α}
    (h : layers (f + 1) g = some (ls, rest)) :
    ∃ ls', layers f (strip g) = some (ls', rest) ∧ ls = ready g :: ls' := by
  simp only [layers, hr, if_false] at h
  cases hx : layers f (strip g) with
  | none => simp [hx] at h
  | some r =>
    obtain ⟨a, b⟩ := r
    simp only [hx, Option.some.injEq, Prod.mk.injEq] at h
    exact ⟨a, by rw [h.2], h.1.symm⟩

/-- Order clause of the layering loop: along every edge `u → v` whose ends both receive a layer, `v` is
emitted strictly before `u`. -/
theorem edge_order (f : Nat) : ∀ (g : Graph α) ls rest, (keys g).Nodup → layers f g = some (ls, rest) →
    ∀ u du v, (u, du) ∈ g → v ∈ du →
    ∀ i j, level ls u = some i → level ls v = some j → j < i := by
  induction f with
  | zero => intro g ls rest _ h; simp [layers] at h
  | succ k ih =>
    intro g ls rest hk hl u du v hu hv i j hi hj
    by_cases hr : ready g = []
    · simp only [layers, hr, if_true, Option.some.injEq, Prod.mk.injEq] at hl
      rw [← hl.1] at hi; simp [level] at hi
    · obtain ⟨ls', hl', rfl⟩ := layers_succ_of_ready hr hl
      have hune : du ≠ [] := by intro e; simp [e] at hv
      have hu_nr : u ∉ ready g := not_ready_of_dep hk hu hune
      rw [level_cons_not _ _ _ hu_nr] at hi
      cases hx : level ls' u with
      | none => simp [hx] at hi
      | some i' =>
        simp [hx] at hi
        by_cases hvr : v ∈ ready g
        · rw [level_cons_mem _ _ _ hvr] at hj
          simp at hj; omega
        · rw [level_cons_not _ _ _ hvr] at hj
          cases hy : level ls' v with
          | none => simp [hy] at hj
          | some j' =>
            simp [hy] at hj
            have hv' : v ∈ du.filter (fun d => !(ready g).contains d) := by simp [hv, hvr]
            have := ih (strip g) ls' rest (keys_strip_nodup g hk) hl' u _ v (strip_of_mem hu hune) hv' i' j' hx hy
            omega

/-- When the loop stops, no leftover node is free of dependencies: a non-empty remainder is stuck, which
is what `topologicalSort` reports as a cyclic dependency. -/
theorem leftover_stuck (f : Nat) : ∀ (g : Graph α) ls rest, layers f g = some (ls, rest) → ready rest = [] := by
  induction f with
  | zero => intro g ls rest h; simp [layers] at h
  | succ k ih =>
    intro g ls rest h
    by_cases hr : ready g = []
    · simp only [layers, hr, if_true, Option.some.injEq, Prod.mk.injEq] at h
      rw [← h.2]; exact hr
    · obtain ⟨ls', hl', _⟩ := layers_succ_of_ready hr h
      exact ih _ _ _ hl'

/-- Every key of the graph is emitted in some layer or left in the remainder. -/
theorem layered_or_left (f : Nat) : ∀ (g : Graph α) ls rest, layers f g = some (ls, rest) →
    ∀ u, u ∈ keys g → (∃ l ∈ ls, u ∈ l) ∨ u ∈ keys rest := by
  induction f with
  | zero => intro g ls rest h; simp [layers] at h
  | succ k ih =>
    intro g ls rest h u hu
    by_cases hr : ready g = []
    · simp only [layers, hr, if_true, Option.some.injEq, Prod.mk.injEq] at h
      right; rw [← h.2]; exact hu
    · obtain ⟨ls', hl', rfl⟩ := layers_succ_of_ready hr h
      by_cases hur : u ∈ ready g
      · left; exact ⟨ready g, by simp, hur⟩
      · have hus : u ∈ keys (strip g) := by
          simp only [keys, List.mem_map] at hu ⊢
          obtain ⟨⟨u', du⟩, hp, rfl⟩ := hu
          have hne : du ≠ [] := by
            intro e; apply hur
            simp only [ready, List.mem_map, List.mem_filter]
            exact ⟨(u', du), ⟨hp, by simp [e]⟩, rfl⟩
          exact ⟨_, strip_of_mem hp hne, rfl⟩
        rcases ih _ _ _ hl' u hus with ⟨l, hl, hul⟩ | hrest
        · left; exact ⟨l, by simp [hl], hul⟩
        · right; exact hrest

theorem level_isSome_of_mem {ls : List (List α)} {u : α} (h : ∃ l ∈ ls, u ∈ l) : (level ls u).isSome := by
  obtain ⟨l, hl, hu⟩ := h
  simp only [level, List.findIdx?_isSome, List.any_eq_true, decide_eq_true_eq]
  exact ⟨l, hl, hu⟩

/-- The number of layers never exceeds the fuel, and one unit of fuel is left over when the graph fits. -/
theorem layers_fuel (f : Nat) : ∀ (g : Graph α), g.length < f → (layers f g).isSome := by
  induction f with
  | zero => intro g h; omega
  | succ k ih =>
    intro g h
    by_cases hr : ready g = []
    · simp [layers, hr]
    · have hlt : (strip g).length < g.length := by
        simp only [strip, List.length_map]
        have hex : ∃ p ∈ g, ¬ ((fun p : α × List α => !p.2.isEmpty) p = true) := by
          cases hrd : ready g with
          | nil => exact absurd hrd hr
          | cons a as =>
            have : a ∈ ready g := by rw [hrd]; simp
            simp only [ready, List.mem_map, List.mem_filter] at this
            obtain ⟨p, ⟨hp, he⟩, _⟩ := this
            exact ⟨p, hp, by simp [he]⟩
        obtain ⟨p, hp, hnp⟩ := hex
        exact List.length_filter_lt_length_iff_exists.mpr ⟨p, hp, hnp⟩
      have := ih (strip g) (by omega)
      cases hx : layers k (strip g) with
      | none => simp [hx] at this
      | some r => simp [layers, hr, hx]

end EupsModel.Topo
