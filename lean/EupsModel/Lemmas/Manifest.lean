import EupsModel.Model.Manifest
/-! Helper lemmas for C18: the tokeniser and line splitter undo the formatter; header parsing; entry parsing. -/
namespace EupsModel.Manifest

/-- a word: non-empty, no white space (in Python's sense) -/
def Tok (t : Str) : Prop := t ≠ [] ∧ ∀ c ∈ t, isWs c = false

theorem isWs_space : isWs 32 = true := by decide
theorem isWs_nl : isWs 10 = true := by decide
theorem isWs_cr : isWs 13 = true := by decide

theorem Tok.no_nl {t : Str} (h : Tok t) : ∀ c ∈ t, c ≠ 10 := by
  intro c hc e; subst e; have := h.2 10 hc; simp [isWs_nl] at this

theorem Tok.no_cr {t : Str} (h : Tok t) : ∀ c ∈ t, c ≠ 13 := by
  intro c hc e; subst e; have := h.2 13 hc; simp [isWs_cr] at this

/-! ### words -/

theorem wordsAux_tok (t rest w : Str) (ht : ∀ c ∈ t, isWs c = false) :
    wordsAux (t ++ rest) w = wordsAux rest (w ++ t) := by
  induction t generalizing w with
  | nil => simp
  | cons c cs ih =>
    have hc : isWs c = false := ht c (by simp)
    simp only [List.cons_append, wordsAux, hc]
    rw [ih (w ++ [c]) (fun x hx => ht x (by simp [hx]))]
    simp

theorem wordsAux_spaces (n : Nat) (rest : Str) :
    wordsAux (List.replicate n 32 ++ rest) [] = wordsAux rest [] := by
  induction n with
  | zero => simp
  | succ k ih => simp [List.replicate_succ, wordsAux, isWs_space, ih]

/-- a word followed by at least one blank -/
theorem wordsAux_tok_sp (t : Str) (n : Nat) (rest : Str) (ht : Tok t) :
    wordsAux (t ++ (List.replicate n 32 ++ 32 :: rest)) [] = t :: wordsAux rest [] := by
  rw [wordsAux_tok t _ [] ht.2]
  simp only [List.nil_append]
  have : List.replicate n 32 ++ 32 :: rest = 32 :: (List.replicate n 32 ++ rest) := by
    induction n with
    | zero => rfl
    | succ k ih => simp [List.replicate_succ, ih]
  rw [this]
  have hne : t.isEmpty = false := by
    cases t with
    | nil => exact absurd rfl ht.1
    | cons _ _ => rfl
  simp only [wordsAux, isWs_space, hne, if_true]
  rw [wordsAux_spaces]
  simp

theorem words_last (t : Str) (ht : Tok t) : wordsAux t [] = [t] := by
  have := wordsAux_tok t [] [] ht.2
  simp only [List.append_nil, List.nil_append] at this
  rw [this]
  have hne : t.isEmpty = false := by
    cases t with
    | nil => exact absurd rfl ht.1
    | cons _ _ => rfl
  simp [wordsAux, hne]

/-- trailing padding only (an empty last column) -/
theorem words_pad_only (n : Nat) : wordsAux (List.replicate n 32) [] = [] := by
  have := wordsAux_spaces n []
  simpa [wordsAux] using this

theorem padTo_eq (n : Nat) (s : Str) : padTo n s = s ++ List.replicate (n - s.length) 32 := rfl

/-- one padded column followed by the separating blank -/
theorem wordsAux_col (n : Nat) (t rest : Str) (ht : Tok t) :
    wordsAux (padTo n t ++ [32] ++ rest) [] = t :: wordsAux rest [] := by
  have : padTo n t ++ [32] ++ rest = t ++ (List.replicate (n - t.length) 32 ++ 32 :: rest) := by
    simp [padTo_eq, List.append_assoc]
  rw [this, wordsAux_tok_sp t _ _ ht]

/-- the six columns of a manifest line come back as six words -/
theorem words_fmtEntry (a b c d e g : Str) (ha : Tok a) (hb : Tok b) (hc : Tok c) (hd : Tok d) (he : Tok e)
    (hg : Tok g) : words (fmtEntry [a, b, c, d, e, g]) = [a, b, c, d, e, g] := by
  have : fmtEntry [a, b, c, d, e, g] =
      padTo 15 a ++ [32] ++ (padTo 12 b ++ [32] ++ (padTo 10 c ++ [32] ++ (padTo 25 d ++ [32] ++
        (padTo 30 e ++ [32] ++ g)))) := by
    simp [fmtEntry, List.append_assoc]
  rw [words, this, wordsAux_col _ a _ ha, wordsAux_col _ b _ hb, wordsAux_col _ c _ hc, wordsAux_col _ d _ hd,
    wordsAux_col _ e _ he, words_last g hg]

/-! ### lines -/

theorem linesAux_line (l rest cur : Str) (hl : ∀ c ∈ l, c ≠ 10) :
    linesAux (l ++ 10 :: rest) cur = (cur ++ l) :: linesAux rest [] := by
  induction l generalizing cur with
  | nil => simp [linesAux]
  | cons c cs ih =>
    have hc : c ≠ 10 := hl c (by simp)
    simp only [List.cons_append, linesAux, beq_iff_eq, hc, if_false]
    rw [ih (cur ++ [c]) (fun x hx => hl x (by simp [hx]))]
    simp

theorem lines_unlines (ls : List Str) (h : ∀ l ∈ ls, ∀ c ∈ l, c ≠ 10) : lines (unlines ls) = ls := by
  induction ls with
  | nil => simp [lines, unlines, linesAux]
  | cons l rest ih =>
    have : unlines (l :: rest) = l ++ 10 :: unlines rest := by simp [unlines]
    rw [this, lines, linesAux_line l _ [] (h l (by simp))]
    simp only [List.nil_append]
    have := ih (fun l' hl' => h l' (by simp [hl']))
    simp only [lines] at this
    rw [this]

theorem univNewlines_id (s : Str) (h : ∀ c ∈ s, c ≠ 13) : univNewlines s = s := by
  unfold univNewlines
  induction s with
  | nil => rfl
  | cons c r ih =>
    have hc : c ≠ 13 := h c (by simp)
    have := ih (fun x hx => h x (by simp [hx]))
    simp [univAux, hc, this]

theorem mem_unlines (ls : List Str) (c : Nat) (hc : c ∈ unlines ls) : c = 10 ∨ ∃ l ∈ ls, c ∈ l := by
  induction ls with
  | nil => simp [unlines] at hc
  | cons l rest ih =>
    have : unlines (l :: rest) = l ++ 10 :: unlines rest := by simp [unlines]
    rw [this] at hc
    simp only [List.mem_append, List.mem_cons] at hc
    rcases hc with h | h | h
    · exact Or.inr ⟨l, by simp, h⟩
    · exact Or.inl h
    · rcases ih h with h1 | ⟨l', hl', hc'⟩
      · exact Or.inl h1
      · exact Or.inr ⟨l', by simp [hl'], hc'⟩

/-- a text made of lines without `\n` and `\r` is read back as those lines -/
theorem lines_univ_unlines (ls : List Str) (h10 : ∀ l ∈ ls, ∀ c ∈ l, c ≠ 10) (h13 : ∀ l ∈ ls, ∀ c ∈ l, c ≠ 13) :
    lines (univNewlines (unlines ls)) = ls := by
  rw [univNewlines_id, lines_unlines ls h10]
  intro c hc
  rcases mem_unlines ls c hc with h | ⟨l, hl, hcl⟩
  · omega
  · exact h13 l hl c hcl

/-! ### the header -/

theorem spanNonWs_tok (t rest : Str) (ht : ∀ c ∈ t, isWs c = false) (hr : rest = [] ∨ ∃ c r, rest = c :: r ∧ isWs c = true) :
    spanNonWs (t ++ rest) = (t, rest) := by
  induction t with
  | nil =>
    rcases hr with rfl | ⟨c, r, rfl, hc⟩
    · rfl
    · simp [spanNonWs, hc]
  | cons c cs ih =>
    have hc : isWs c = false := ht c (by simp)
    simp [spanNonWs, hc, ih (fun x hx => ht x (by simp [hx]))]

theorem fmtVersionOk_fmt : fmtVersionOk sFmt = true := by decide

theorem take_len_sub_two (v : Str) (a b : Nat) : (v ++ [a, b]).take ((v ++ [a, b]).length - 2) = v := by
  have : (v ++ [a, b]).length - 2 = v.length := by simp
  rw [this, List.take_left']
  rfl

theorem drop_len_sub_two (v : Str) (a b : Nat) : (v ++ [a, b]).drop ((v ++ [a, b]).length - 2) = [a, b] := by
  have : (v ++ [a, b]).length - 2 = v.length := by simp
  rw [this, List.drop_left']
  rfl

theorem drop_len_sub_one (v : Str) (a b : Nat) : (v ++ [a, b]).drop ((v ++ [a, b]).length - 1) = [b] := by
  have h1 : v ++ [a, b] = (v ++ [a]) ++ [b] := by simp
  have : (v ++ [a, b]).length - 1 = (v ++ [a]).length := by simp
  rw [this, h1, List.drop_left']
  rfl

/-- the first line written by `Manifest.write` is read back with its product and version -/
theorem parseManHeader_manHeader (p v : Str) (hp : Tok p) (hv : Tok v) :
    parseManHeader (sManHead ++ p ++ [32, 40] ++ v ++ [41, 46] ++ sVersionWord ++ sFmt) = some (p, v) := by
  have hpre : sManHead.isPrefixOf (sManHead ++ p ++ [32, 40] ++ v ++ [41, 46] ++ sVersionWord ++ sFmt) = true := by
    simp [List.append_assoc]
  have hdrop : (sManHead ++ p ++ [32, 40] ++ v ++ [41, 46] ++ sVersionWord ++ sFmt).drop sManHead.length =
      p ++ (32 :: 40 :: (v ++ [41, 46] ++ (sVersionWord ++ sFmt))) := by
    simp [List.append_assoc]
  have hsp1 : spanNonWs (p ++ (32 :: 40 :: (v ++ [41, 46] ++ (sVersionWord ++ sFmt)))) =
      (p, 32 :: 40 :: (v ++ [41, 46] ++ (sVersionWord ++ sFmt))) :=
    spanNonWs_tok p _ hp.2 (Or.inr ⟨32, _, rfl, isWs_space⟩)
  have hrun : ∀ c ∈ v ++ [41, 46], isWs c = false := by
    intro c hc
    rcases List.mem_append.mp hc with h | h
    · exact hv.2 c h
    · simp at h; rcases h with rfl | rfl <;> decide
  have hsp2 : spanNonWs ((v ++ [41, 46]) ++ (sVersionWord ++ sFmt)) = (v ++ [41, 46], sVersionWord ++ sFmt) :=
    spanNonWs_tok _ _ hrun (Or.inr ⟨32, _, rfl, isWs_space⟩)
  have hpne : p.isEmpty = false := by
    cases p with
    | nil => exact absurd rfl hp.1
    | cons _ _ => rfl
  have hvlen : 1 ≤ v.length := by
    cases v with
    | nil => exact absurd rfl hv.1
    | cons _ _ => simp
  unfold parseManHeader
  simp only [hpre, hdrop, hsp1, hpne, hsp2, Bool.not_true, Bool.false_eq_true, if_false, lastN, dropLast2,
    drop_len_sub_one, drop_len_sub_two, take_len_sub_two]
  have h1 : (([46] : Str) == [41]) = false := by decide
  have h2 : sVersionWord.isPrefixOf (sVersionWord ++ sFmt) = true := by simp
  have h3 : (sVersionWord ++ sFmt).drop sVersionWord.length = sFmt := by simp
  simp [h1, h2, h3, fmtVersionOk_fmt]
  exact hv.1

/-! ### entry lines -/

theorem dropWs_nonws (c : Nat) (r : Str) (h : isWs c = false) : dropWs (c :: r) = c :: r := by
  simp [dropWs, h]

/-- what a written entry is read back as -/
def roundDep (o : WriteOpts) (recurse : Bool) (p : Dep) : Dep :=
  { product := p.product, version := p.version, flavor := some (flavorCol o p),
    tablefile := some (orNone p.tablefile), instDir := some (orNone p.instDir), distId := p.distId,
    isOpt := false, recurse := recurse, extra := [] }

/-- an optional column: missing, or a word -/
def OptTok (x : Option Str) : Prop := falsy x = true ∨ ∃ s, x = some s ∧ Tok s

/-- a distribution id: missing, or a word other than the reserved `None` and `search` -/
def DistOk (x : Option Str) : Prop := x = none ∨ ∃ s, x = some s ∧ Tok s ∧ s ≠ sNoneCap ∧ s ≠ sSearch

/-- an entry the round trip is claimed for -/
structure DepOk (p : Dep) : Prop where
  product : Tok p.product
  notComment : p.product.head? ≠ some 35
  version : Tok p.version
  flavor : OptTok p.flavor
  tablefile : OptTok p.tablefile
  instDir : OptTok p.instDir
  distId : DistOk p.distId

theorem tok_sNone : Tok sNone := ⟨by decide, by decide⟩
theorem tok_sNoneCap : Tok sNoneCap := ⟨by decide, by decide⟩

theorem orNone_tok (x : Option Str) (h : OptTok x) : Tok (orNone x) := by
  unfold orNone
  rcases h with h | ⟨s, rfl, hs⟩
  · simp [h, tok_sNone]
  · have : falsy (some s) = false := by
      cases s with
      | nil => exact absurd rfl hs.1
      | cons _ _ => rfl
    simp [this, hs]

theorem flavorCol_tok (o : WriteOpts) (p : Dep) (hn : Tok o.native) (ho : OptTok o.flavor) (hp : OptTok p.flavor) :
    Tok (flavorCol o p) := by
  unfold flavorCol
  have key : ∀ f : Option Str, OptTok f → Tok (if falsy f = true then o.native else f.getD []) := by
    intro f hf
    rcases hf with h | ⟨s, rfl, hs⟩
    · simp [h, hn]
    · have : falsy (some s) = false := by
        cases s with
        | nil => exact absurd rfl hs.1
        | cons _ _ => rfl
      simp [this, hs]
  by_cases h : falsy o.flavor = true
  · simpa [h] using key p.flavor hp
  · have h' : falsy o.flavor = false := by simpa using h
    simpa [h'] using key o.flavor ho

theorem distIdText_tok (x : Option Str) (h : DistOk x) : Tok (distIdText x) := by
  rcases h with rfl | ⟨s, rfl, hs, _, _⟩
  · exact tok_sNoneCap
  · exact hs

theorem isBlankOrComment_entry (a rest : Str) (ha : Tok a) (hc : a.head? ≠ some 35) :
    isBlankOrComment (a ++ rest) = false := by
  cases a with
  | nil => exact absurd rfl ha.1
  | cons c r =>
    have hw : isWs c = false := ha.2 c (by simp)
    have hne : c ≠ 35 := by intro e; apply hc; simp [e]
    simp [isBlankOrComment, dropWs, hw, hne]

/-- one written entry line is read back as the entry -/
theorem parseEntry_entryLine (o : WriteOpts) (recurse : Bool) (p : Dep) (hn : Tok o.native) (ho : OptTok o.flavor)
    (hp : DepOk p) : parseEntry false recurse (entryLine o p) = .ok (some (roundDep o recurse p)) := by
  have hfl := flavorCol_tok o p hn ho hp.flavor
  have htab := orNone_tok p.tablefile hp.tablefile
  have hdir := orNone_tok p.instDir hp.instDir
  have hdist := distIdText_tok p.distId hp.distId
  have hw := words_fmtEntry p.product (flavorCol o p) p.version (orNone p.tablefile) (orNone p.instDir)
    (distIdText p.distId) hp.product hfl hp.version htab hdir hdist
  have hnc : isBlankOrComment (entryLine o p) = false := by
    simp only [entryLine, entryFields, fmtEntry, padTo_eq, List.append_assoc]
    exact isBlankOrComment_entry _ _ hp.product hp.notComment
  unfold parseEntry
  simp only [hnc, Bool.false_eq_true, if_false]
  simp only [entryLine, entryFields] at hw ⊢
  rw [hw]
  simp only [List.drop_succ_cons, List.drop_nil]
  rcases hp.distId with hd | ⟨s, hd, _, hs1, hs2⟩
  · simp [hd, distIdText, roundDep, mkDep, show (sNoneCap == sSearch) = false by decide]
  · have h1 : (s == sSearch) = false := by simpa using hs2
    simp [hd, distIdText, roundDep, mkDep, h1, hs1]

theorem parseEntry_comment (recurse : Bool) (l : Str) (h : isBlankOrComment l = true) :
    parseEntry false recurse l = .ok none := by
  simp [parseEntry, h]

theorem parseEntries_comments (recurse : Bool) (cs rest : List Str) (h : ∀ l ∈ cs, isBlankOrComment l = true) :
    parseEntries false recurse (cs ++ rest) = parseEntries false recurse rest := by
  induction cs with
  | nil => rfl
  | cons l r ih =>
    simp only [List.cons_append, parseEntries, parseEntry_comment recurse l (h l (by simp))]
    exact ih (fun x hx => h x (by simp [hx]))

theorem parseEntries_entries (o : WriteOpts) (recurse : Bool) (ds : List Dep) (hn : Tok o.native)
    (ho : OptTok o.flavor) (hd : ∀ p ∈ ds, DepOk p) :
    parseEntries false recurse (ds.map (entryLine o)) = .ok (ds.map (roundDep o recurse)) := by
  induction ds with
  | nil => rfl
  | cons p r ih =>
    simp only [List.map_cons, parseEntries, parseEntry_entryLine o recurse p hn ho (hd p (by simp)),
      ih (fun x hx => hd x (by simp [hx]))]

theorem readLines_cons (pinned r : Bool) (h : Str) (rest : List Str) (p v : Str) (ds : List Dep)
    (hh : parseManHeader h = some (p, v)) (he : parseEntries pinned r rest = .ok ds) :
    readLines pinned r (h :: rest) = .ok { product := some p, version := some v, deps := ds } := by
  simp only [readLines, hh, he]

theorem mem_padTo (n : Nat) (t : Str) (c : Nat) (h : c ∈ padTo n t) : c ∈ t ∨ c = 32 := by
  simp only [padTo_eq, List.mem_append, List.mem_replicate] at h
  rcases h with h | h
  · exact Or.inl h
  · exact Or.inr h.2

/-- no character of a written entry line is a line terminator -/
theorem entryLine_no_nl (o : WriteOpts) (p : Dep) (hn : Tok o.native) (ho : OptTok o.flavor) (hp : DepOk p) :
    ∀ c ∈ entryLine o p, c ≠ 10 ∧ c ≠ 13 := by
  have hfl := flavorCol_tok o p hn ho hp.flavor
  have htab := orNone_tok p.tablefile hp.tablefile
  have hdir := orNone_tok p.instDir hp.instDir
  have hdist := distIdText_tok p.distId hp.distId
  intro c hc
  simp only [entryLine, entryFields, fmtEntry, List.mem_append, List.mem_singleton] at hc
  have tk : ∀ t : Str, Tok t → c ∈ t → c ≠ 10 ∧ c ≠ 13 := fun t ht hct => ⟨ht.no_nl c hct, ht.no_cr c hct⟩
  rcases hc with ((((((((((h | h) | h) | h) | h) | h) | h) | h) | h) | h) | h)
  all_goals
    first
    | (have h32 : c = 32 := h
       subst h32; exact ⟨by decide, by decide⟩)
    | (rcases mem_padTo _ _ _ h with h' | h'
       · first
         | exact tk _ hp.product h'
         | exact tk _ hfl h'
         | exact tk _ hp.version h'
         | exact tk _ htab h'
         | exact tk _ hdir h'
       · subst h'; exact ⟨by decide, by decide⟩)
    | exact tk _ hdist h

end EupsModel.Manifest

namespace EupsModel.Manifest

/-! ### association lists -/

theorem assocGet_assocSet_same {β : Type} (l : List (Str × β)) (k : Str) (v : β) :
    assocGet (assocSet l k v) k = some v := by
  induction l with
  | nil => simp [assocSet, assocGet]
  | cons p r ih =>
    obtain ⟨k', v'⟩ := p
    by_cases h : k' = k
    · simp [assocSet, assocGet, h]
    · simp [assocSet, assocGet, h, ih]

theorem assocGet_assocSet_other {β : Type} (l : List (Str × β)) (k k2 : Str) (v : β) (hne : k2 ≠ k) :
    assocGet (assocSet l k v) k2 = assocGet l k2 := by
  induction l with
  | nil => simp [assocSet, assocGet, Ne.symm hne]
  | cons p r ih =>
    obtain ⟨k', v'⟩ := p
    by_cases h : k' = k
    · subst h
      simp [assocSet, assocGet, Ne.symm hne]
    · by_cases h2 : k' = k2
      · subst h2
        simp [assocSet, assocGet, hne]
      · simp [assocSet, assocGet, h, h2, ih]

theorem assocSet_keys_new {β : Type} (l : List (Str × β)) (k : Str) (v : β) (h : k ∉ l.map (·.1)) :
    (assocSet l k v).map (·.1) = l.map (·.1) ++ [k] := by
  induction l with
  | nil => simp [assocSet]
  | cons p r ih =>
    obtain ⟨k', v'⟩ := p
    have hk : k' ≠ k := fun e => h (by simp [e])
    have hr : k ∉ r.map (·.1) := fun hm => h (by simp [hm])
    simp [assocSet, hk, ih hr]

/-! ### sorting -/

theorem insertSorted_perm (x : Str) (l : List Str) : (insertSorted x l).Perm (x :: l) := by
  induction l with
  | nil => exact List.Perm.refl _
  | cons y r ih =>
    simp only [insertSorted]
    split
    · exact List.Perm.refl _
    · exact (List.Perm.cons y ih).trans (List.Perm.swap x y r)

theorem sortStrs_perm (l : List Str) : (sortStrs l).Perm l := by
  induction l with
  | nil => exact List.Perm.refl _
  | cons x r ih =>
    simp only [sortStrs, List.foldr_cons]
    exact (insertSorted_perm x _).trans (List.Perm.cons x ih)

/-- adjacent elements in Python's string order -/
def SortedAdj : List Str → Prop
  | [] => True
  | [_] => True
  | x :: y :: r => Str.cmp x y ≤ 0 ∧ SortedAdj (y :: r)

theorem sortStrs_sorted_id (l : List Str) (h : SortedAdj l) : sortStrs l = l := by
  induction l with
  | nil => rfl
  | cons x r ih =>
    cases r with
    | nil => rfl
    | cons y r2 =>
      have h2 : SortedAdj (y :: r2) := h.2
      have := ih h2
      simp only [sortStrs, List.foldr_cons] at this ⊢
      rw [this]
      simp [insertSorted, h.1]

/-! ### tag lists -/

theorem words_tail (t : Str) (extra : List Str) (ht : Tok t) (he : ∀ x ∈ extra, Tok x) :
    wordsAux (t ++ extra.flatMap (fun x => [32, 32] ++ x)) [] = t :: extra := by
  induction extra generalizing t with
  | nil => simpa using words_last t ht
  | cons x r ih =>
    have : t ++ (x :: r).flatMap (fun x => [32, 32] ++ x) =
        t ++ (List.replicate 1 32 ++ 32 :: (x ++ r.flatMap (fun x => [32, 32] ++ x))) := by
      simp [List.flatMap_cons, List.replicate]
    rw [this, wordsAux_tok_sp t 1 _ ht, ih x (he x (by simp)) (fun y hy => he y (by simp [hy]))]

theorem words_tagLine (fa : Option Str) (p fl ver : Str) (extra : List Str) (hp : Tok p) (hfl : Tok (fa.getD fl))
    (hver : Tok ver) (he : ∀ x ∈ extra, Tok x) :
    words (tagLine fa p (fl :: ver :: extra)) = p :: fa.getD fl :: ver :: extra := by
  have : tagLine fa p (fl :: ver :: extra) =
      padTo 20 p ++ [32] ++ (padTo 10 (fa.getD fl) ++ [32] ++ (ver ++ extra.flatMap (fun x => [32, 32] ++ x))) := by
    simp [tagLine, List.append_assoc]
  rw [words, this, wordsAux_col _ p _ hp, wordsAux_col _ _ _ hfl, words_tail ver extra hver he]

theorem parseTagHeader_tagHeader (tag : Str) : parseTagHeader tag (tagHeader tag) = true := by
  have h1 : (sTagHead ++ tag ++ sTagMid).isPrefixOf (tagHeader tag) = true := by
    simp [tagHeader, List.append_assoc]
  have h2 : (tagHeader tag).drop (sTagHead ++ tag ++ sTagMid).length = 46 :: (sVersionWord ++ sFmt) := by
    have : tagHeader tag = (sTagHead ++ tag ++ sTagMid) ++ (46 :: (sVersionWord ++ sFmt)) := by
      simp [tagHeader, List.append_assoc]
    rw [this, List.drop_left']
    rfl
  have h3 : sVersionWord.isPrefixOf (sVersionWord ++ sFmt) = true := by simp
  have h4 : (sVersionWord ++ sFmt).drop sVersionWord.length = sFmt := by simp
  unfold parseTagHeader
  simp only [h1, h2, Bool.true_and]
  simp [h3, h4, fmtVersionOk_fmt]

/-- the reader's invariant: `products` and the keys of `info` are the same duplicate-free list -/
structure TagInv (r : TagList) (F : Str) : Prop where
  flavor : r.flavor = F
  keys : r.info.map (·.1) = r.products
  nodup : r.products.Nodup

theorem getProducts_add_new (r : TagList) (F p ver fl : Str) (extra : List Str) (hi : TagInv r F)
    (hp : p ∉ r.products) :
    (r.addProduct p ver (some fl) extra).getProducts = r.getProducts ++ [p :: fl :: ver :: extra] ∧
      TagInv (r.addProduct p ver (some fl) extra) F ∧
      (r.addProduct p ver (some fl) extra).products = r.products ++ [p] := by
  have hc : r.products.contains p = false := by simpa using hp
  have hk : p ∉ r.info.map (·.1) := by rw [hi.keys]; exact hp
  refine ⟨?_, ⟨hi.flavor, ?_, ?_⟩, ?_⟩
  · simp only [TagList.getProducts, TagList.addProduct, hc, Bool.false_eq_true, if_false, List.map_append,
      List.map_cons, List.map_nil, Option.getD_some, assocGet_assocSet_same]
    congr 1
    apply List.map_congr_left
    intro q hq
    have : q ≠ p := fun e => hp (e ▸ hq)
    rw [assocGet_assocSet_other _ _ _ _ this]
  · simp only [TagList.addProduct, hc, Bool.false_eq_true, if_false, Option.getD_some]
    rw [assocSet_keys_new _ _ _ hk, hi.keys]
  · simp only [TagList.addProduct, hc, Bool.false_eq_true, if_false]
    exact List.nodup_append.mpr ⟨hi.nodup, by simp, by
      intro a ha b hb; simp at hb; subst hb; exact fun e => hp (e ▸ ha)⟩
  · simp only [TagList.addProduct, hc, Bool.false_eq_true, if_false]

/-- the flavor the reader of flavor `F` sees for an entry written with `flavor=fa` (`generic` stands for `F`) -/
def readerFlavor (fa : Option Str) (F fl : Str) : Str := if fa.getD fl == sGeneric then F else fa.getD fl

/-- what the reader of flavor `F` keeps of an entry -/
def keepEntry (fa : Option Str) (F : Str) (p : Str) (info : List Str) : Option (List Str) :=
  match info with
  | fl :: ver :: extra =>
    if readerFlavor fa F fl == F then some (p :: readerFlavor fa F fl :: ver :: extra) else none
  | _ => none

/-- an entry the round trip is claimed for -/
def TagEntryOk (fa : Option Str) (p : Str) (info : List Str) : Prop :=
  Tok p ∧ p.head? ≠ some 35 ∧ ∃ fl ver extra, info = fl :: ver :: extra ∧ Tok (fa.getD fl) ∧ Tok ver ∧ ∀ x ∈ extra, Tok x

theorem tagEntry_line (fa : Option Str) (F : Str) (r : TagList) (p : Str) (info : List Str) (hi : TagInv r F)
    (hok : TagEntryOk fa p info) (hp : p ∉ r.products) :
    ∃ r', tagEntry r (tagLine fa p info) = .ok r' ∧ TagInv r' F ∧
      r'.getProducts = r.getProducts ++ (keepEntry fa F p info).toList ∧
      (∀ q, q ∈ r'.products → q ∈ r.products ∨ q = p) := by
  obtain ⟨htp, hnc, fl, ver, extra, rfl, hfl, hver, hex⟩ := hok
  have hw := words_tagLine fa p fl ver extra htp hfl hver hex
  have hskip : tagSkip (tagLine fa p (fl :: ver :: extra)) = false := by
    simp only [tagSkip, tagLine, padTo_eq, List.append_assoc]
    exact isBlankOrComment_entry _ _ htp hnc
  unfold tagEntry
  simp only [hskip, Bool.false_eq_true, if_false, hw, hi.flavor, keepEntry]
  have e : (if (fa.getD fl == sGeneric) = true then F else fa.getD fl) = readerFlavor fa F fl := rfl
  simp only [e]
  generalize readerFlavor fa F fl = f2
  cases hk : f2 == F
  · simp only [Bool.false_eq_true, if_false]
    exact ⟨r, rfl, hi, by simp, fun q hq => Or.inl hq⟩
  · simp only [if_true]
    obtain ⟨h1, h2, h3⟩ := getProducts_add_new r F p ver f2 extra hi hp
    refine ⟨_, rfl, h2, ?_, ?_⟩
    · rw [h1]; rfl
    · intro q hq; rw [h3] at hq; simpa using hq

theorem tagEntries_lines (fa : Option Str) (F : Str) (info : Str → List Str) : ∀ (ps : List Str) (r : TagList),
    TagInv r F → ps.Nodup → (∀ p ∈ ps, p ∉ r.products) → (∀ p ∈ ps, TagEntryOk fa p (info p)) →
    ∃ r', tagEntries r (ps.map fun p => tagLine fa p (info p)) = .ok r' ∧
      r'.getProducts = r.getProducts ++ ps.filterMap (fun p => keepEntry fa F p (info p)) := by
  intro ps
  induction ps with
  | nil => intro r _ _ _ _; exact ⟨r, rfl, by simp⟩
  | cons p rest ih =>
    intro r hi hnd hdis hok
    obtain ⟨r1, h1, hi1, hg1, hmem⟩ := tagEntry_line fa F r p (info p) hi (hok p (by simp)) (hdis p (by simp))
    have hnd' := (List.nodup_cons.mp hnd).2
    have hpn := (List.nodup_cons.mp hnd).1
    have hdis' : ∀ q ∈ rest, q ∉ r1.products := by
      intro q hq hq1
      rcases hmem q hq1 with h | h
      · exact hdis q (by simp [hq]) h
      · subst h; exact hpn hq
    obtain ⟨r2, h2, hg2⟩ := ih r1 hi1 hnd' hdis' (fun q hq => hok q (by simp [hq]))
    refine ⟨r2, ?_, ?_⟩
    · simp only [List.map_cons, tagEntries, h1, h2]
    · rw [hg2, hg1]
      cases hk : keepEntry fa F p (info p) <;> simp [List.filterMap_cons, hk]

theorem tagEntries_comments (r : TagList) (cs rest : List Str) (h : ∀ l ∈ cs, isBlankOrComment l = true) :
    tagEntries r (cs ++ rest) = tagEntries r rest := by
  induction cs with
  | nil => rfl
  | cons l q ih =>
    have : tagEntry r l = .ok r := by simp [tagEntry, tagSkip, h l (by simp)]
    simp only [List.cons_append, tagEntries, this]
    exact ih (fun x hx => h x (by simp [hx]))

theorem tagLine_no_nl (fa : Option Str) (p : Str) (info : List Str) (hok : TagEntryOk fa p info) :
    ∀ c ∈ tagLine fa p info, c ≠ 10 ∧ c ≠ 13 := by
  obtain ⟨htp, _, fl, ver, extra, rfl, hfl, hver, hex⟩ := hok
  intro c hc
  have tk : ∀ t : Str, Tok t → c ∈ t → c ≠ 10 ∧ c ≠ 13 := fun t ht hct => ⟨ht.no_nl c hct, ht.no_cr c hct⟩
  have sp : c = 32 → c ≠ 10 ∧ c ≠ 13 := by intro h; subst h; exact ⟨by decide, by decide⟩
  simp only [tagLine, List.mem_append, List.mem_flatMap] at hc
  rcases hc with ((((h | h) | h) | h) | h) | ⟨x, hx, h⟩
  · rcases mem_padTo _ _ _ h with h' | h'
    · exact tk _ htp h'
    · exact sp h'
  · exact sp (by simpa using h)
  · rcases mem_padTo _ _ _ h with h' | h'
    · exact tk _ hfl h'
    · exact sp h'
  · exact sp (by simpa using h)
  · exact tk _ hver h
  · rcases h with h | h
    · have : c = 32 := by simpa using h
      exact sp this
    · exact tk _ (hex x hx) h

theorem tagRead_of_lines (r0 : TagList) (text h : Str) (rest : List Str)
    (hl : lines (univNewlines text) = h :: rest) (hh : parseTagHeader r0.tag h = true) :
    r0.read text = tagEntries r0 rest := by
  simp [TagList.read, hl, hh]

end EupsModel.Manifest

namespace EupsModel.Manifest

/-! ### Mapping: what `add` does to look-ups -/

/-- the per-version table of a product in a flavor -/
def prodTable (m : MapTable) (fl p : Str) : Option (List (Str × (Str × Option Str))) :=
  (assocGet m fl).bind fun byP => assocGet byP p

theorem apply1_eq (m : Mapping) (inP inV fl : Str) :
    m.apply1 inP inV fl =
      match prodTable m.map fl inP with
      | none => (inP, some inV)
      | some byV =>
        if byV.isEmpty then (inP, none)
        else match assocGet byV inV with
          | some r => r
          | none => match assocGet byV sAny with
            | some r => r
            | none => (inP, some inV) := by
  unfold Mapping.apply1 prodTable
  cases assocGet m.map fl with
  | none => rfl
  | some byP =>
    cases assocGet byP inP with
    | none => rfl
    | some byV => rfl

theorem prodTable_tableAdd_other (pinned : Bool) (m : MapTable) (inP inV outP : Str) (outV : Option Str)
    (flavor : Str) (ow : Bool) (fl p : Str) (hp : p ≠ inP) :
    prodTable (tableAdd pinned m inP inV outP outV flavor ow) fl p = prodTable m fl p := by
  unfold prodTable tableAdd
  by_cases hf : fl = flavor
  · subst hf
    simp only [assocGet_assocSet_same, Option.bind_some]
    rw [assocGet_assocSet_other _ _ _ _ hp]
    cases assocGet m fl with
    | none => simp [assocGet]
    | some byP => simp
  · rw [assocGet_assocSet_other _ _ _ _ hf]

theorem prodTable_tableAdd_other_flavor (pinned : Bool) (m : MapTable) (inP inV outP : Str) (outV : Option Str)
    (flavor : Str) (ow : Bool) (fl p : Str) (hf : fl ≠ flavor) :
    prodTable (tableAdd pinned m inP inV outP outV flavor ow) fl p = prodTable m fl p := by
  unfold prodTable tableAdd
  rw [assocGet_assocSet_other _ _ _ _ hf]

/-- a rule as `Mapping.add` receives it -/
structure Rule where
  inP : Str
  inV : Str
  outP : Option Str
  outV : Option Str
  flavor : Str
  overwrite : Bool := true

def addRule (pinned : Bool) (m : Mapping) (r : Rule) : Mapping :=
  m.addP pinned r.inP r.inV r.outP r.outV r.flavor r.overwrite

/-- the mapping a list of rules builds, in order -/
def buildMapping (pinned : Bool) (rules : List Rule) : Mapping := rules.foldl (addRule pinned) {}

/-- an operation on a live `Mapping` object: `add` a rule, or `merge` another mapping in (what
`Manifest.remapEntries(mapping=M)` does with the rules of the `manifest.remap` files) -/
inductive MapOp
  | add (r : Rule) (overwrite : Bool)
  | merge (o : Mapping) (overwrite : Bool)

def MapOp.run (m : Mapping) : MapOp → Mapping
  | .add r ow => m.add r.inP r.inV r.outP r.outV r.flavor ow
  | .merge o ow => m.merge o ow

/-- the mapping after a sequence of operations -/
def runOps (ops : List MapOp) (m : Mapping) : Mapping := ops.foldl MapOp.run m

theorem addP_map (pinned : Bool) (m : Mapping) (inP inV : Str) (outP outV : Option Str) (fl : Str) (ow : Bool) :
    (m.addP pinned inP inV outP outV fl ow).map = m.map ∨
      (m.addP pinned inP inV outP outV fl ow).map =
        tableAdd pinned m.map inP inV (if falsy outP then inP else outP.getD []) outV fl ow := by
  unfold Mapping.addP
  by_cases h : (!falsy outV && lowerAscii (outV.getD []) == sNoreinstall) = true
  · left; simp only [h, if_true]
  · right; simp only [h, if_false]; rfl

theorem prodTable_addRule_other (pinned : Bool) (m : Mapping) (r : Rule) (fl p : Str) (hp : p ≠ r.inP) :
    prodTable (addRule pinned m r).map fl p = prodTable m.map fl p := by
  unfold addRule
  rcases addP_map pinned m r.inP r.inV r.outP r.outV r.flavor r.overwrite with h | h
  · rw [h]
  · rw [h]; exact prodTable_tableAdd_other _ _ _ _ _ _ _ _ _ _ hp

theorem prodTable_build_unmentioned (pinned : Bool) (rules : List Rule) (fl p : Str)
    (h : ∀ r ∈ rules, r.inP ≠ p) : ∀ m : Mapping, prodTable m.map fl p = none →
    prodTable (rules.foldl (addRule pinned) m).map fl p = none := by
  induction rules with
  | nil => intro m hm; exact hm
  | cons r rest ih =>
    intro m hm
    apply ih (fun q hq => h q (by simp [hq]))
    rw [prodTable_addRule_other pinned m r fl p (fun e => h r (by simp) e.symm)]
    exact hm

/-- a product no rule mentions is mapped to itself, whatever its version and the flavor -/
theorem apply_unmentioned (pinned : Bool) (rules : List Rule) (p v fl : Str) (h : ∀ r ∈ rules, r.inP ≠ p) :
    (buildMapping pinned rules).apply p v fl = (p, some v) := by
  have key : ∀ f, (buildMapping pinned rules).apply1 p v f = (p, some v) := by
    intro f
    have := prodTable_build_unmentioned pinned rules f p h {} rfl
    rw [apply1_eq]
    unfold buildMapping
    rw [this]
  unfold Mapping.apply
  simp [key]

end EupsModel.Manifest

namespace EupsModel.Manifest

/-! ### the inverse of a one-to-one mapping -/

/-- `mapping[flavor][product][version]` -/
def lk (T : MapTable) (f p v : Str) : Option (Str × Option Str) := (prodTable T f p).bind fun byV => assocGet byV v

theorem assocGet_mem {β : Type} (l : List (Str × β)) (k : Str) (x : β) (h : assocGet l k = some x) : (k, x) ∈ l := by
  induction l with
  | nil => simp [assocGet] at h
  | cons q r ih =>
    obtain ⟨k', v'⟩ := q
    by_cases hk : k' = k
    · simp only [assocGet, hk, if_true, Option.some.injEq] at h
      simp [hk, h]
    · simp only [assocGet, hk, if_false] at h
      simp [ih h]

theorem tableExists_eq (T : MapTable) (p v f : Str) : tableExists T p v f = (lk T f p v).isSome := by
  unfold tableExists lk prodTable
  cases assocGet T f with
  | none => rfl
  | some byP =>
    simp only [Option.bind_some]
    cases assocGet byP p with
    | none => rfl
    | some byV => rfl

theorem apply1_of_lk (m : Mapping) (p v f : Str) (r : Str × Option Str) (h : lk m.map f p v = some r) :
    m.apply1 p v f = r := by
  rw [apply1_eq]
  unfold lk at h
  cases hp : prodTable m.map f p with
  | none => simp [hp] at h
  | some byV =>
    simp only [hp, Option.bind_some] at h
    have hne : byV.isEmpty = false := by
      cases byV with
      | nil => simp [assocGet] at h
      | cons _ _ => rfl
    simp [hne, h]

/-- a word that `Mapping.add` takes as a genuine out-version -/
def Plain (w : Str) : Prop := w ≠ [] ∧ lowerAscii w ≠ sNoreinstall

theorem add_map_plain (m : Mapping) (p v outP outV f : Str) (hv : Plain outV) (hp : outP ≠ []) :
    (m.add p v (some outP) (some outV) f true).map = tableAdd false m.map p v outP (some outV) f true := by
  have h1 : falsy (some outV) = false := by
    cases outV with
    | nil => exact absurd rfl hv.1
    | cons _ _ => rfl
  have h2 : (lowerAscii outV == sNoreinstall) = false := by simpa using hv.2
  have h3 : falsy (some outP) = false := by
    cases outP with
    | nil => exact absurd rfl hp
    | cons _ _ => rfl
  simp [Mapping.add, Mapping.addP, h1, h2, h3]

theorem lk_tableAdd_same (T : MapTable) (p v outP outV f : Str) (hv : outV ≠ []) :
    lk (tableAdd false T p v outP (some outV) f true) f p v = some (outP, some outV) := by
  have h1 : falsy (some outV) = false := by
    cases outV with
    | nil => exact absurd rfl hv
    | cons _ _ => rfl
  simp [lk, prodTable, tableAdd, assocGet_assocSet_same, h1]

theorem lk_tableAdd_other (T : MapTable) (p v outP : Str) (outV : Option Str) (f f' p' v' : Str)
    (h : ¬ (f' = f ∧ p' = p ∧ v' = v)) :
    lk (tableAdd false T p v outP outV f true) f' p' v' = lk T f' p' v' := by
  by_cases hf : f' = f
  · subst hf
    by_cases hp : p' = p
    · subst hp
      have hv : v' ≠ v := fun e => h ⟨rfl, rfl, e⟩
      unfold lk prodTable tableAdd
      simp only [assocGet_assocSet_same, Option.bind_some, Bool.not_true, Bool.false_and, Bool.false_eq_true,
        if_false]
      cases hT : assocGet T f' with
      | none =>
        simp only [Option.getD_none, assocGet, Option.bind_none]
        split <;> simp [assocGet_assocSet_other, assocGet, assocSet, hv, assocDel, Ne.symm hv]
      | some byP =>
        simp only [Option.getD_some, Option.bind_some]
        cases hP : assocGet byP p' with
        | none =>
          simp only [Option.getD_none, Option.bind_none]
          split <;> simp [assocGet, assocSet, Ne.symm hv]
        | some byV =>
          simp only [Option.getD_some, Option.bind_some]
          split <;> simp [assocGet_assocSet_other _ _ _ _ hv]
    · unfold lk
      rw [prodTable_tableAdd_other _ _ _ _ _ _ _ _ _ _ hp]
  · unfold lk
    rw [prodTable_tableAdd_other_flavor _ _ _ _ _ _ _ _ _ _ hf]

/-- one entry of a table: flavor, product, in-version, out-product, out-version -/
abbrev Entry := Str × Str × Str × Str × Option Str

def entriesV (f p : Str) (byV : List (Str × (Str × Option Str))) : List Entry :=
  byV.map fun q => (f, p, q.1, q.2.1, q.2.2)
def entriesP (f : Str) (byP : List (Str × List (Str × (Str × Option Str)))) : List Entry :=
  byP.flatMap fun q => entriesV f q.1 q.2
def entries (T : MapTable) : List Entry := T.flatMap fun q => entriesP q.1 q.2

/-- the body of the innermost loop of `Mapping.inverse` -/
def stepInv (inv : Mapping) (e : Entry) : Option Mapping :=
  match e.2.2.2.2 with
  | none => some inv
  | some ov =>
    if tableExists inv.map e.2.2.2.1 ov e.1 then none
    else some (inv.add e.2.2.2.1 ov (some e.2.1) (some e.2.2.1) e.1 true)

theorem inverse_eq_fold (m : Mapping) : m.inverse = (entries m.map).foldlM stepInv {} := by
  have hV : ∀ (f p : Str) (byV : List (Str × (Str × Option Str))) (inv : Mapping),
      byV.foldlM (fun (inv : Mapping) (x : Str × (Str × Option Str)) =>
        match x with
        | (inV, (outP, outV)) =>
          match outV with
          | none => some inv
          | some ov =>
            if tableExists inv.map outP ov f then none
            else some (inv.add outP ov (some p) (some inV) f true)) inv =
      (entriesV f p byV).foldlM stepInv inv := by
    intro f p byV
    induction byV with
    | nil => intro inv; rfl
    | cons q r ih =>
      intro inv
      obtain ⟨v, op, ov⟩ := q
      simp only [List.foldlM_cons, entriesV, List.map_cons]
      cases ov with
      | none =>
        simp only [stepInv, Option.bind_eq_bind, Option.bind_some]
        exact ih inv
      | some w =>
        simp only [stepInv]
        by_cases hx : tableExists inv.map op w f = true
        · simp [hx]
        · simp only [hx, Bool.false_eq_true, if_false, Option.bind_eq_bind, Option.bind_some]
          exact ih _
  have hP : ∀ (f : Str) (byP : List (Str × List (Str × (Str × Option Str)))) (inv : Mapping),
      byP.foldlM (fun (inv : Mapping) (x : Str × List (Str × (Str × Option Str))) =>
        match x with
        | (inP, byV) =>
          byV.foldlM (fun (inv : Mapping) (x : Str × (Str × Option Str)) =>
            match x with
            | (inV, (outP, outV)) =>
              match outV with
              | none => some inv
              | some ov =>
                if tableExists inv.map outP ov f then none
                else some (inv.add outP ov (some inP) (some inV) f true)) inv) inv =
      (entriesP f byP).foldlM stepInv inv := by
    intro f byP
    induction byP with
    | nil => intro inv; rfl
    | cons q r ih =>
      intro inv
      obtain ⟨p, byV⟩ := q
      simp only [List.foldlM_cons, entriesP, List.flatMap_cons, List.foldlM_append]
      rw [hV f p byV inv]
      cases (entriesV f p byV).foldlM stepInv inv with
      | none => rfl
      | some inv1 => exact ih inv1
  have hT : ∀ (T : MapTable) (inv : Mapping),
      T.foldlM (fun (inv : Mapping) (x : Str × List (Str × List (Str × (Str × Option Str)))) =>
        match x with
        | (f, byP) =>
          byP.foldlM (fun (inv : Mapping) (x : Str × List (Str × (Str × Option Str))) =>
            match x with
            | (inP, byV) =>
              byV.foldlM (fun (inv : Mapping) (x : Str × (Str × Option Str)) =>
                match x with
                | (inV, (outP, outV)) =>
                  match outV with
                  | none => some inv
                  | some ov =>
                    if tableExists inv.map outP ov f then none
                    else some (inv.add outP ov (some inP) (some inV) f true)) inv) inv) inv =
      (entries T).foldlM stepInv inv := by
    intro T
    induction T with
    | nil => intro inv; rfl
    | cons q r ih =>
      intro inv
      obtain ⟨f, byP⟩ := q
      simp only [List.foldlM_cons, entries, List.flatMap_cons, List.foldlM_append]
      rw [hP f byP inv]
      cases (entriesP f byP).foldlM stepInv inv with
      | none => rfl
      | some inv1 => exact ih inv1
  exact hT m.map {}

theorem mem_entries_of_lk (T : MapTable) (f p v op : Str) (ov : Option Str) (h : lk T f p v = some (op, ov)) :
    (f, p, v, op, ov) ∈ entries T := by
  unfold lk prodTable at h
  cases hf : assocGet T f with
  | none => simp [hf] at h
  | some byP =>
    simp only [hf, Option.bind_some] at h
    cases hp : assocGet byP p with
    | none => simp [hp] at h
    | some byV =>
      simp only [hp, Option.bind_some] at h
      have m1 := assocGet_mem T f byP hf
      have m2 := assocGet_mem byP p byV hp
      have m3 := assocGet_mem byV v (op, ov) h
      simp only [entries, entriesP, entriesV, List.mem_flatMap, List.mem_map]
      exact ⟨(f, byP), m1, (p, byV), m2, (v, (op, ov)), m3, rfl⟩

/-- the key under which the inverse stores the image of an entry -/
def outKey (e : Entry) : Str × Str × Option Str := (e.1, e.2.2.2.1, e.2.2.2.2)

/-- an entry the inverse is claimed for: not a removal, a product name, a genuine in-version -/
def EntryOk (e : Entry) : Prop := e.2.1 ≠ [] ∧ Plain e.2.2.1 ∧ e.2.2.2.2.isSome = true

instance (w : Str) : Decidable (Plain w) := by unfold Plain; exact inferInstance
instance (e : Entry) : Decidable (EntryOk e) := by unfold EntryOk; exact inferInstance

theorem fold_stepInv (E : List Entry) : ∀ inv0 : Mapping,
    E.Pairwise (fun a b => outKey a ≠ outKey b) → (∀ e ∈ E, EntryOk e) →
    (∀ e ∈ E, ∀ w, e.2.2.2.2 = some w → lk inv0.map e.1 e.2.2.2.1 w = none) →
    ∃ inv, E.foldlM stepInv inv0 = some inv ∧
      (∀ e ∈ E, ∀ w, e.2.2.2.2 = some w → lk inv.map e.1 e.2.2.2.1 w = some (e.2.1, some e.2.2.1)) ∧
      (∀ f p w, (∀ e ∈ E, outKey e ≠ (f, p, some w)) → lk inv.map f p w = lk inv0.map f p w) := by
  induction E with
  | nil => intro inv0 _ _ _; exact ⟨inv0, rfl, by simp, fun _ _ _ _ => rfl⟩
  | cons e rest ih =>
    intro inv0 hpw hok hfree
    obtain ⟨f, p, v, op, ov⟩ := e
    obtain ⟨hp, hv, hsome⟩ := hok (f, p, v, op, ov) (by simp)
    simp only at hp hv hsome
    obtain ⟨w, hw⟩ := Option.isSome_iff_exists.mp hsome
    subst hw
    have hnone := hfree (f, p, v, op, some w) (by simp) w rfl
    simp only at hnone
    have hex : tableExists inv0.map op w f = false := by rw [tableExists_eq, hnone]; rfl
    have hmap := add_map_plain inv0 op w p v f hv hp
    have hrest_pw := (List.pairwise_cons.mp hpw).2
    have hhead_ne := (List.pairwise_cons.mp hpw).1
    obtain ⟨inv, hfold, himg, hframe⟩ := ih (inv0.add op w (some p) (some v) f true) hrest_pw
      (fun e he => hok e (by simp [he]))
      (by
        intro e he w' hw'
        rw [hmap, lk_tableAdd_other]
        · exact hfree e (by simp [he]) w' hw'
        · intro hh
          apply hhead_ne e he
          obtain ⟨f', p', v', op', ov'⟩ := e
          simp only at hw' hh
          subst hw'
          simp [outKey, hh.1, hh.2.1, hh.2.2])
    refine ⟨inv, ?_, ?_, ?_⟩
    · simp only [List.foldlM_cons, stepInv, hex, Bool.false_eq_true, if_false, Option.bind_eq_bind, Option.bind_some]
      exact hfold
    · intro e he w' hw'
      rcases List.mem_cons.mp he with rfl | he
      · simp only at hw'
        cases hw'
        rw [hframe f op w (fun e' he' hk => hhead_ne e' he' hk.symm), hmap]
        exact lk_tableAdd_same _ _ _ _ _ _ hv.1
      · exact himg e he w' hw'
    · intro f' p' w' hne
      rw [hframe f' p' w' (fun e' he' => hne e' (by simp [he'])), hmap, lk_tableAdd_other]
      intro hh
      apply hne (f, p, v, op, some w) (by simp)
      simp [outKey, hh.1, hh.2.1, hh.2.2]

end EupsModel.Manifest

namespace EupsModel.Manifest

/-! ### the server's cache never changes an answer -/

/-- every cached list is what parsing the file for its key gives -/
def CacheOk (files : List (Str × Str)) (c : TagCache) : Prop :=
  ∀ k t, cacheGet c k = some t → parseList files k.1 k.2 = .ok t

theorem cacheOk_nil (files : List (Str × Str)) : CacheOk files [] := by
  intro k t h; simp [cacheGet] at h

/-- the answer of a server object that has never been asked anything -/
def freshAnswer (files : List (Str × Str)) (r : Req) : Ans :=
  match parseList files r.tag r.flavor with
  | .error e => .err e
  | .ok t => answerFrom r t

theorem serve1_fresh (files : List (Str × Str)) (r : Req) : (serve1 false files [] r).1 = freshAnswer files r := by
  unfold serve1 getTaggedProductList freshAnswer
  simp only [cacheGet]
  cases parseList files r.tag r.flavor with
  | error e => rfl
  | ok t => rfl

theorem serve1_spec (files : List (Str × Str)) (c : TagCache) (r : Req) (hc : CacheOk files c) :
    (serve1 false files c r).1 = freshAnswer files r ∧ CacheOk files (serve1 false files c r).2 := by
  unfold serve1 getTaggedProductList freshAnswer
  simp only [cacheKey, Bool.false_eq_true, if_false]
  cases hg : cacheGet c (r.tag, r.flavor) with
  | some t =>
    have hpl := hc (r.tag, r.flavor) t hg
    simp only at hpl
    rw [hpl]
    exact ⟨rfl, hc⟩
  | none =>
    cases hp : parseList files r.tag r.flavor with
    | error e => exact ⟨rfl, hc⟩
    | ok t =>
      refine ⟨rfl, ?_⟩
      intro k t' hk
      simp only [cacheGet] at hk
      by_cases hkk : (r.tag, r.flavor) = k
      · simp only [hkk, if_true, Option.some.injEq] at hk
        subst hk; subst hkk
        exact hp
      · simp only [hkk, if_false] at hk
        exact hc k t' hk

theorem cacheAfter_ok (files : List (Str × Str)) (history : List Req) : ∀ c, CacheOk files c →
    CacheOk files (cacheAfter false files c history) := by
  induction history with
  | nil => intro c hc; exact hc
  | cons r rs ih => intro c hc; exact ih _ (serve1_spec files c r hc).2

theorem serve_eq_fresh (files : List (Str × Str)) (reqs : List Req) : ∀ c, CacheOk files c →
    serve false files c reqs = reqs.map (freshAnswer files) := by
  induction reqs with
  | nil => intro c _; rfl
  | cons r rs ih =>
    intro c hc
    have h := serve1_spec files c r hc
    simp only [serve, List.map_cons, h.1, ih _ h.2]

end EupsModel.Manifest
