import EupsModel.Lemmas.RemoveFuel
/-! What `remove --recursive` collects: the products opened from the requested one (itself, and every declared
direct dependency bearing another name than the product it is a dependency of) together with all their
direct dependencies. -/
namespace EupsModel.Remove
open EupsModel EupsModel.Deps

/-! ### direct dependencies -/

theorem depsLoop_nonrec_prods (db : Db) (req : Required)
    (recur : Prod → Nat → St → Option (List Entry × St)) (fresh : Prod → Option (List Str))
    (top : Prod) (depth : Nat) (hm : ∀ p, db.tableMissing p = false) :
    ∀ ds acc st out st', (∀ d ∈ ds, d.unsetup = false) →
      depsLoop db req recur fresh top false depth ds acc st = some (out, st') →
      out.map (·.prod) = acc.map (·.prod) ++ ds.map (target db req) := by
  intro ds
  induction ds with
  | nil => intro acc st out st' _ h; simp [depsLoop] at h; simp [h.1]
  | cons d ds ih =>
    intro acc st out st' hu h
    rw [depsLoop_cons_setup _ _ _ _ _ _ _ _ _ _ _ (hu d (by simp)) hm] at h
    have hu' : ∀ d ∈ ds, d.unsetup = false := fun x hx => hu x (by simp [hx])
    cases hr : resolve db req d with
    | none =>
      simp only [hr] at h
      rw [ih _ _ _ _ hu' h]
      simp [target, hr]
    | some p =>
      simp only [hr, Bool.false_and, Bool.false_eq_true, if_false] at h
      rw [ih _ _ _ _ hu' h]
      simp [target, hr]

theorem depsOf_nonrec_prods (db : Db) (hns : NoUnsetup db) (req : Required) (k : Nat) (p : Prod) (depth : Nat)
    (st : St) (out : List Entry) (st' : St) (h : depsOf db (k + 1) req p false depth st = some (out, st')) :
    out.map (·.prod) = (db.table p).map (target db req) := by
  unfold depsOf depsOfG at h
  have := depsLoop_nonrec_prods db req _ _ p depth (tableMissing_false hns) _ _ _ _ _ (table_noUnsetup hns p) h
  simpa using this

/-- `[product] + tbl.dependencies(self)`: the product and what the lines of its table denote -/
theorem directDeps_true (db : Db) (hns : NoUnsetup db) (p : Prod) (deps : List Prod)
    (h : directDeps db p true = .ok deps) : deps = p :: (db.table p).map (target db []) := by
  unfold directDeps at h
  simp only [if_true, tableMissing_false hns p, Bool.false_eq_true, if_false] at h
  have hpos : 0 < db.fuel := by unfold Db.fuel; exact Nat.mul_pos (by omega) (by omega)
  obtain ⟨k, hk⟩ : ∃ k, db.fuel = k + 1 := ⟨db.fuel - 1, by omega⟩
  rw [hk] at h
  cases hd : depsOf db (k + 1) [] p false 0 St.empty with
  | none => simp [hd] at h
  | some r =>
    obtain ⟨out, st'⟩ := r
    simp only [hd, Except.ok.injEq] at h
    rw [← h, depsOf_nonrec_prods db hns [] k p 0 _ out st' hd]

/-! ### what is opened, what is collected -/

/-- the products whose dependencies are collected, starting from `p`: `p`, and every declared direct
dependency of such a product that bears another name -/
inductive Opened (db : Db) : Prod → Prod → Prop
  | self (p : Prod) : Opened db p p
  | step {p x q : Prod} : Opened db p x → Edge db [] x q → q.real = true → q.name ≠ x.name → Opened db p q

/-- the products `remove -R` collects from `p`: the opened ones and all their direct dependencies -/
def Collected (db : Db) (p q : Prod) : Prop := Opened db p q ∨ ∃ x, Opened db p x ∧ Edge db [] x q

theorem Opened.trans {db : Db} {p x q : Prod} (h1 : Opened db p x) (h2 : Opened db x q) : Opened db p q := by
  induction h2 with
  | self => exact h1
  | step _ he hr hn ih => exact Opened.step ih he hr hn

theorem Opened.head {db : Db} {p x q : Prod} (he : Edge db [] p x) (hr : x.real = true) (hn : x.name ≠ p.name)
    (h2 : Opened db x q) : Opened db p q :=
  (Opened.step (Opened.self p) he hr hn).trans h2

theorem Collected.head {db : Db} {p x q : Prod} (he : Edge db [] p x) (hr : x.real = true) (hn : x.name ≠ p.name)
    (h2 : Collected db x q) : Collected db p q := by
  rcases h2 with h | ⟨y, hy, hyq⟩
  · exact Or.inl (Opened.head he hr hn h)
  · exact Or.inr ⟨y, Opened.head he hr hn hy, hyq⟩

/-- `x`'s dependencies have been collected: each is in the list, and each declared one bearing another name
is in the visited set -/
def ClosedR (db : Db) (l : List Prod) (sn : Seen) (x : Prod) : Prop :=
  ∀ q, Edge db [] x q → q ∈ l ∧ (q.real = true → q.name ≠ x.name → prodkey q ∈ sn)

theorem ClosedR.mono {db : Db} {l l' : List Prod} {sn sn' : Seen} {x : Prod} (h : ClosedR db l sn x)
    (hl : ∀ q ∈ l, q ∈ l') (hs : ∀ k ∈ sn, k ∈ sn') : ClosedR db l' sn' x :=
  fun q he => ⟨hl q (h q he).1, fun hr hn => hs _ ((h q he).2 hr hn)⟩

/-- what a completed `collect … name ver recursive seen = ok (l, sn)` guarantees, `p` being the product found -/
structure CollectPost (db : Db) (p : Prod) (recursive : Bool) (seen : Seen) (l : List Prod) (sn : Seen) : Prop where
  seen_mono : ∀ k ∈ seen, k ∈ sn
  self_mem : p ∈ l
  sound : ∀ q ∈ l, q = p ∨ (recursive = true ∧ Collected db p q)
  seen_sound : ∀ k ∈ sn, k ∉ seen → recursive = true ∧ (ofKey k).real = true ∧ Opened db p (ofKey k)
  opened : recursive = true → prodkey p ∈ sn
  closed_new : ∀ k ∈ sn, k ∉ seen → ClosedR db l sn (ofKey k)

/-- the same for the loop over the dependencies `qs` of the opened product `x` -/
structure CLoopPost (db : Db) (x : Prod) (qs : List Prod) (acc : List Prod) (seen : Seen)
    (l : List Prod) (sn : Seen) (new : List Prod) : Prop where
  l_eq : l = acc ++ new
  seen_mono : ∀ k ∈ seen, k ∈ sn
  sound : ∀ q ∈ new, q ∈ qs ∨ ∃ y ∈ qs, y.real = true ∧ y.name ≠ x.name ∧ Collected db y q
  seen_sound : ∀ k ∈ sn, k ∉ seen → (ofKey k).real = true ∧
      ∃ y ∈ qs, y.real = true ∧ y.name ≠ x.name ∧ Opened db y (ofKey k)
  done : ∀ q ∈ qs, q ∈ new ∧ (q.real = true → q.name ≠ x.name → prodkey q ∈ sn)
  closed_new : ∀ k ∈ sn, k ∉ seen → ClosedR db new sn (ofKey k)

/-- a declared dependency is found again under its own name and version -/
theorem find_edge_target {db : Db} {x q : Prod} (he : Edge db [] x q) (hr : q.real = true) :
    db.find q.name q.ver = some q := by
  obtain ⟨d, _, hq⟩ := he
  unfold target at hq
  cases hres : resolve db [] d with
  | none => rw [hres] at hq; simp at hq; rw [← hq] at hr; simp at hr
  | some p =>
    rw [hres] at hq; simp at hq; subst hq
    rw [resolve_nil] at hres
    have := find_again hres
    rw [find_name hres]; exact this

theorem find_placeholder_none {db : Db} {d : Dep} (h : resolve db [] d = none) :
    db.find d.name d.ver = none := by rw [← resolve_nil]; exact h

/-- the products the loop of an opened product `x` runs over are found again as themselves (or not at all) -/
theorem deps_found_self {db : Db} {x : Prod} (hx : db.find x.name x.ver = some x) :
    ∀ q ∈ x :: (db.table x).map (target db []), ∀ p', db.find q.name q.ver = some p' → p' = q := by
  intro q hq p' hp'
  simp only [List.mem_cons, List.mem_map] at hq
  rcases hq with rfl | ⟨d, hd, rfl⟩
  · rw [hx] at hp'; exact (Option.some.inj hp').symm
  · unfold target at hp' ⊢
    cases hres : resolve db [] d with
    | none =>
      simp only [hres, Option.getD_none] at hp' ⊢
      rw [find_placeholder_none hres] at hp'; simp at hp'
    | some r =>
      simp only [hres, Option.getD_some] at hp' ⊢
      have he : Edge db [] x r := ⟨d, hd, by simp [target, hres]⟩
      rw [find_edge_target he (resolve_real hres)] at hp'
      exact (Option.some.inj hp').symm

theorem collectLoop_post (db : Db) (sb : Option SetupBy) (force : Bool) (top : Str × Str) (x : Prod)
    (recur : Prod → Seen → Except Err (List Prod × Seen))
    (hrec : ∀ q sn l sn', recur q sn = .ok (l, sn') →
      ∃ p', db.find q.name q.ver = some p' ∧ CollectPost db p' (q.name != x.name) sn l sn') :
    ∀ qs acc seen l sn, (∀ q ∈ qs, ∀ p', db.find q.name q.ver = some p' → p' = q) →
      collectLoop sb force top true recur qs acc seen = .ok (l, sn) →
      ∃ new, CLoopPost db x qs acc seen l sn new := by
  intro qs
  induction qs with
  | nil =>
    intro acc seen l sn _ h
    simp only [collectLoop, Except.ok.injEq, Prod.mk.injEq] at h
    obtain ⟨rfl, rfl⟩ := h
    exact ⟨[], { l_eq := by simp, seen_mono := fun _ h => h, sound := by simp,
                 seen_sound := fun k hk hnk => absurd hk hnk, done := by simp,
                 closed_new := fun k hk hnk => absurd hk hnk }⟩
  | cons q qs ih =>
    intro acc seen l sn hqs h
    rw [collectLoop_cons] at h
    split at h
    · simp at h
    · simp only [if_true] at h
      cases hq : recur q seen with
      | error e => simp [hq] at h
      | ok r =>
        obtain ⟨sub, sn1⟩ := r
        simp only [hq] at h
        obtain ⟨p', hp', C⟩ := hrec q seen sub sn1 hq
        have hpq : p' = q := hqs q (by simp) p' hp'
        subst hpq
        have hreal : p'.real = true := find_real hp'
        obtain ⟨new', P⟩ := ih _ _ _ _ (fun y hy => hqs y (by simp [hy])) h
        have hcase : ∀ k ∈ sn, k ∉ seen → (k ∈ sn1 ∧ k ∉ seen) ∨ k ∉ sn1 := by
          intro k _ hnk
          by_cases h1 : k ∈ sn1
          · exact Or.inl ⟨h1, hnk⟩
          · exact Or.inr h1
        refine ⟨sub ++ [p'] ++ new', {
          l_eq := by rw [P.l_eq]; simp
          seen_mono := fun k hk => P.seen_mono k (C.seen_mono k hk)
          sound := ?_, seen_sound := ?_, done := ?_, closed_new := ?_ }⟩
        · intro e he
          simp only [List.mem_append, List.mem_singleton] at he
          rcases he with (he | he) | he
          · rcases C.sound e he with rfl | ⟨hr, hc⟩
            · exact Or.inl (by simp)
            · right
              exact ⟨p', by simp, hreal, by simpa using hr, hc⟩
          · subst he; exact Or.inl (by simp)
          · rcases P.sound e he with h1 | ⟨y, hy, h2⟩
            · exact Or.inl (by simp [h1])
            · exact Or.inr ⟨y, by simp [hy], h2⟩
        · intro k hk hnk
          rcases hcase k hk hnk with ⟨h1, _⟩ | h1
          · obtain ⟨hr, hre, ho⟩ := C.seen_sound k h1 hnk
            exact ⟨hre, p', by simp, hreal, by simpa using hr, ho⟩
          · obtain ⟨hre, y, hy, h2⟩ := P.seen_sound k hk h1
            exact ⟨hre, y, by simp [hy], h2⟩
        · intro y hy
          simp only [List.mem_cons] at hy
          rcases hy with rfl | hy
          · refine ⟨by simp, ?_⟩
            intro _ hn
            exact P.seen_mono _ (C.opened (by simpa using hn))
          · obtain ⟨h1, h2⟩ := P.done y hy
            exact ⟨by simp [h1], h2⟩
        · intro k hk hnk
          rcases hcase k hk hnk with ⟨h1, _⟩ | h1
          · exact (C.closed_new k h1 hnk).mono (fun e he => by simp [he]) (fun k' hk' => P.seen_mono k' hk')
          · exact (P.closed_new k hk h1).mono (fun e he => by simp [he]) (fun _ h => h)

/-- **What `_remove` collects**, for databases without unsetup lines and no default product -/
theorem collect_post (db : Db) (hns : NoUnsetup db) (sb : Option SetupBy) (force : Bool) (top : Str × Str) :
    ∀ f name ver recursive seen l sn, collect db sb force none top f name ver recursive seen = .ok (l, sn) →
      ∃ p, db.find name ver = some p ∧ CollectPost db p recursive seen l sn := by
  intro f
  induction f with
  | zero => intro name ver recursive seen l sn h; simp [collect] at h
  | succ k ih =>
    intro name ver recursive seen l sn h
    unfold collect at h
    simp only [beq_iff_eq, reduceCtorEq, if_false] at h
    split at h
    · simp at h
    · rename_i p hp
      refine ⟨p, hp, ?_⟩
      have hname : p.name = name := find_name hp
      have hreal : p.real = true := find_real hp
      have hself : db.find p.name p.ver = some p := by rw [hname]; exact find_again hp
      by_cases hex : (recursive && !seen.contains (prodkey p)) = true
      · -- the product is opened now
        have hrec : recursive = true := by simp only [Bool.and_eq_true] at hex; exact hex.1
        subst hrec
        have hnot : prodkey p ∉ seen := by
          simp only [Bool.true_and, Bool.not_eq_true', List.contains_eq_mem, decide_eq_false_iff_not] at hex
          exact hex
        rw [hex] at h
        cases hd : directDeps db p true with
        | error e => simp [hd] at h
        | ok deps =>
          simp only [hd, if_true] at h
          have hdeps := directDeps_true db hns p deps hd
          subst hdeps
          obtain ⟨new, P⟩ := collectLoop_post db sb force top p
            (fun q sn' => collect db sb force none top k q.name q.ver (q.name != name) sn')
            (by intro q sn' l' sn'' hq; rw [hname]; exact ih _ _ _ _ _ _ hq)
            _ _ _ _ _ (deps_found_self hself) h
          have hl : l = new := by rw [P.l_eq]; simp
          subst hl
          have hedge : ∀ q, q ∈ (db.table p).map (target db []) ↔ Edge db [] p q := by
            intro q; simp only [List.mem_map, Edge]
          have hcase : ∀ k' ∈ sn, k' ∉ seen → k' = prodkey p ∨ k' ∉ prodkey p :: seen := by
            intro k' _ hnk
            by_cases h1 : k' = prodkey p
            · exact Or.inl h1
            · exact Or.inr (by simp [h1, hnk])
          exact {
            seen_mono := fun k' hk' => P.seen_mono k' (by simp [hk'])
            self_mem := (P.done p (by simp)).1
            sound := by
              intro q hq
              rcases P.sound q hq with h1 | ⟨y, hy, hyr, hyn, hc⟩
              · simp only [List.mem_cons] at h1
                rcases h1 with h1 | h1
                · exact Or.inl h1
                · exact Or.inr ⟨rfl, Or.inr ⟨p, Opened.self p, (hedge q).mp h1⟩⟩
              · simp only [List.mem_cons] at hy
                rcases hy with rfl | hy
                · exact absurd rfl hyn
                · exact Or.inr ⟨rfl, Collected.head ((hedge y).mp hy) hyr hyn hc⟩
            seen_sound := by
              intro k' hk' hnk
              rcases hcase k' hk' hnk with rfl | h1
              · rw [ofKey_prodkey hreal]; exact ⟨rfl, hreal, Opened.self p⟩
              · obtain ⟨hre, y, hy, hyr, hyn, ho⟩ := P.seen_sound k' hk' h1
                simp only [List.mem_cons] at hy
                rcases hy with rfl | hy
                · exact absurd rfl hyn
                · exact ⟨rfl, hre, Opened.head ((hedge y).mp hy) hyr hyn ho⟩
            opened := fun _ => P.seen_mono _ (by simp)
            closed_new := by
              intro k' hk' hnk
              rcases hcase k' hk' hnk with rfl | h1
              · rw [ofKey_prodkey hreal]
                intro q he
                exact P.done q (by simp [(hedge q).mpr he])
              · exact P.closed_new k' hk' h1 }
      · -- not opened: not recursive, or seen before
        have hex' : (recursive && !seen.contains (prodkey p)) = false := by simpa using hex
        rw [hex'] at h
        simp only [directDeps, Bool.false_eq_true, if_false] at h
        rw [collectLoop_cons] at h
        split at h
        · simp at h
        · cases recursive with
          | false =>
            simp only [Bool.false_eq_true, if_false, collectLoop, List.nil_append, Except.ok.injEq,
              Prod.mk.injEq] at h
            obtain ⟨rfl, rfl⟩ := h
            exact { seen_mono := fun _ h => h, self_mem := by simp, sound := by simp,
                    seen_sound := fun k' hk' hnk => absurd hk' hnk, opened := by simp,
                    closed_new := fun k' hk' hnk => absurd hk' hnk }
          | true =>
            have hin : prodkey p ∈ seen := by
              simp only [Bool.true_and, Bool.not_eq_false', List.contains_eq_mem, decide_eq_true_eq] at hex'
              exact hex'
            simp only [if_true] at h
            have hnr : (p.name != name) = false := by simp [hname]
            rw [hnr] at h
            cases hq : collect db sb force none top k p.name p.ver false seen with
            | error e => simp [hq] at h
            | ok r =>
              obtain ⟨sub, sn1⟩ := r
              simp only [hq, collectLoop, Except.ok.injEq, Prod.mk.injEq] at h
              obtain ⟨rfl, rfl⟩ := h
              obtain ⟨p', hp', C⟩ := ih _ _ _ _ _ _ hq
              rw [hself] at hp'
              have : p' = p := (Option.some.inj hp').symm
              subst this
              exact {
                seen_mono := C.seen_mono
                self_mem := by simp
                sound := by
                  intro q hq'
                  simp only [List.nil_append, List.mem_append, List.mem_singleton] at hq'
                  rcases hq' with hq' | hq'
                  · rcases C.sound q hq' with h1 | ⟨h1, _⟩
                    · exact Or.inl h1
                    · exact absurd h1 (by simp)
                  · exact Or.inl hq'
                seen_sound := by
                  intro k' hk' hnk
                  exact absurd (C.seen_sound k' hk' hnk).1 (by simp)
                opened := fun _ => C.seen_mono _ hin
                closed_new := by
                  intro k' hk' hnk
                  exact absurd (C.seen_sound k' hk' hnk).1 (by simp) }

/-- the top call: with an empty visited set, `remove -R` collects exactly `Collected` -/
theorem collect_is_closure (db : Db) (hns : NoUnsetup db) (sb : Option SetupBy) (force : Bool) (top : Str × Str)
    (f : Nat) (name : Str) (ver : Option Str) (l : List Prod) (sn : Seen)
    (h : collect db sb force none top f name ver true [] = .ok (l, sn)) :
    ∃ p, db.find name ver = some p ∧ ∀ q, q ∈ l ↔ Collected db p q := by
  obtain ⟨p, hp, C⟩ := collect_post db hns sb force top f name ver true [] l sn h
  refine ⟨p, hp, ?_⟩
  have hreal : p.real = true := find_real hp
  have hclosed : ∀ x, Opened db p x → x.real = true ∧ ClosedR db l sn x := by
    intro x hx
    induction hx with
    | self =>
      refine ⟨hreal, ?_⟩
      have := C.closed_new _ (C.opened rfl) (by simp)
      rwa [ofKey_prodkey hreal] at this
    | step _ he hr hn ih =>
      refine ⟨hr, ?_⟩
      have hk := (ih.2 _ he).2 hr hn
      have := C.closed_new _ hk (by simp)
      rwa [ofKey_prodkey hr] at this
  intro q
  constructor
  · intro hq
    rcases C.sound q hq with rfl | ⟨_, hc⟩
    · exact Or.inl (Opened.self _)
    · exact hc
  · rintro (ho | ⟨x, hx, he⟩)
    · cases ho with
      | self => exact C.self_mem
      | step hx he _ _ => exact ((hclosed _ hx).2 _ he).1
    · exact ((hclosed _ hx).2 _ he).1

end EupsModel.Remove
