import EupsModel.Lemmas.DepsTopo
/-! `Eups.uses` / `Uses.invert` / `Uses.users` (`Model/Deps.lean`): the index is the inverse of the listings. -/
namespace EupsModel.Deps
open EupsModel

/-- `u` is recorded under the key `k` -/
def SbMem (sb : SetupBy) (k : Str × Option Str) (u : User) : Prop := ∃ l, (k, l) ∈ sb ∧ u ∈ l

theorem sbAdd_mem (sb : SetupBy) (k : Str × Option Str) (u : User) (k' : Str × Option Str) (u' : User) :
    SbMem (sbAdd sb k u) k' u' ↔ SbMem sb k' u' ∨ (k' = k ∧ u' = u) := by
  unfold sbAdd
  split
  · rename_i hany
    simp only [List.any_eq_true, beq_iff_eq] at hany
    obtain ⟨p0, hp0, hk0⟩ := hany
    constructor
    · rintro ⟨l, hl, hu⟩
      simp only [List.mem_map] at hl
      obtain ⟨p, hp, hpe⟩ := hl
      by_cases hpk : p.1 = k
      · simp only [hpk, beq_self_eq_true, if_true] at hpe
        have h1 : k = k' := (_root_.Prod.mk.inj hpe).1
        have h2 : p.2 ++ [u] = l := (_root_.Prod.mk.inj hpe).2
        rw [← h2] at hu
        simp only [List.mem_append, List.mem_singleton] at hu
        rcases hu with hu | hu
        · left; exact ⟨p.2, by rw [← h1, ← hpk]; exact hp, hu⟩
        · right; exact ⟨h1.symm, hu⟩
      · have : (p.1 == k) = false := by simpa using hpk
        simp only [this, Bool.false_eq_true, if_false] at hpe
        left; exact ⟨l, by rw [← hpe]; exact hp, hu⟩
    · rintro (⟨l, hl, hu⟩ | ⟨rfl, rfl⟩)
      · by_cases hk : k' = k
        · subst hk
          refine ⟨l ++ [u], ?_, by simp [hu]⟩
          simp only [List.mem_map]
          exact ⟨(k', l), hl, by simp⟩
        · refine ⟨l, ?_, hu⟩
          simp only [List.mem_map]
          refine ⟨(k', l), hl, ?_⟩
          have : (k' == k) = false := by simpa using hk
          simp [this]
      · refine ⟨p0.2 ++ [u'], ?_, by simp⟩
        simp only [List.mem_map]
        exact ⟨p0, hp0, by simp [hk0]⟩
  · rename_i hany
    constructor
    · rintro ⟨l, hl, hu⟩
      simp only [List.mem_append, List.mem_singleton] at hl
      rcases hl with hl | hl
      · left; exact ⟨l, hl, hu⟩
      · right
        have h1 : k' = k := (_root_.Prod.mk.inj hl).1
        have h2 : l = [u] := (_root_.Prod.mk.inj hl).2
        rw [h2] at hu
        exact ⟨h1, by simpa using hu⟩
    · rintro (⟨l, hl, hu⟩ | ⟨rfl, rfl⟩)
      · exact ⟨l, by simp [hl], hu⟩
      · exact ⟨[u'], by simp, by simp⟩

/-- remembering one listing -/
theorem remember_mem (d : Decl) : ∀ (l : List Entry) (sb : SetupBy) (k : Str × Option Str) (u : User),
    SbMem (l.foldl (fun sb e => sbAdd sb (e.prod.name, e.prod.ver)
        ⟨d.name, d.ver, e.prod.ver, e.optional, e.depth.getD 0⟩) sb) k u ↔
      SbMem sb k u ∨ ∃ e ∈ l, k = (e.prod.name, e.prod.ver) ∧
        u = ⟨d.name, d.ver, e.prod.ver, e.optional, e.depth.getD 0⟩ := by
  intro l
  induction l with
  | nil => intro sb k u; simp
  | cons e es ih =>
    intro sb k u
    simp only [List.foldl_cons]
    rw [ih, sbAdd_mem]
    constructor
    · rintro ((h | ⟨h1, h2⟩) | ⟨e', he', h⟩)
      · exact Or.inl h
      · exact Or.inr ⟨e, by simp, h1, h2⟩
      · exact Or.inr ⟨e', by simp [he'], h⟩
    · rintro (h | ⟨e', he', h1, h2⟩)
      · exact Or.inl (Or.inl h)
      · simp only [List.mem_cons] at he'
        rcases he' with rfl | he'
        · exact Or.inl (Or.inr ⟨h1, h2⟩)
        · exact Or.inr ⟨e', he', h1, h2⟩

/-! ### `minPerUser` -/

theorem best_fold_spec : ∀ (l : List User) (init : Option User),
    (l.foldl (fun best u => match best with
      | none => some u
      | some b => if u.depth < b.depth then some u else some b) init = none ↔ (l = [] ∧ init = none)) ∧
    (∀ r, l.foldl (fun best u => match best with
      | none => some u
      | some b => if u.depth < b.depth then some u else some b) init = some r → r ∈ l ∨ init = some r) := by
  intro l
  induction l with
  | nil => intro init; simp
  | cons a as ih =>
    intro init
    simp only [List.foldl_cons]
    cases init with
    | none =>
      obtain ⟨h1, h2⟩ := ih (some a)
      refine ⟨by simp [h1], ?_⟩
      intro r hr
      rcases h2 r hr with h | h
      · left; simp [h]
      · left; simp at h; simp [h]
    | some b =>
      simp only
      split
      · obtain ⟨h1, h2⟩ := ih (some a)
        refine ⟨by simp [h1], ?_⟩
        intro r hr
        rcases h2 r hr with h | h
        · left; simp [h]
        · left; simp at h; simp [h]
      · obtain ⟨h1, h2⟩ := ih (some b)
        refine ⟨by simp [h1], ?_⟩
        intro r hr
        rcases h2 r hr with h | h
        · left; simp [h]
        · right; exact h

theorem minPerUser_sub (l : List User) (u : User) (h : u ∈ minPerUser l) : u ∈ l := by
  unfold minPerUser at h
  simp only [List.mem_filterMap] at h
  obtain ⟨k, _, hf⟩ := h
  rcases (best_fold_spec _ none).2 u hf with h | h
  · exact (List.mem_filter.mp h).1
  · simp at h

theorem minPerUser_user (l : List User) (u : User) (h : u ∈ l) :
    ∃ u' ∈ minPerUser l, u'.name = u.name ∧ u'.ver = u.ver := by
  unfold minPerUser
  have hk : (u.name, u.ver) ∈ Topo.dedup (l.map fun u => (u.name, u.ver)) := by
    rw [Topo.mem_dedup]; exact List.mem_map.mpr ⟨u, h, rfl⟩
  have hmine : u ∈ l.filter fun x => (x.name, x.ver) == (u.name, u.ver) := by
    simp [List.mem_filter, h]
  cases hf : (l.filter fun x => (x.name, x.ver) == (u.name, u.ver)).foldl (fun best u => match best with
      | none => some u
      | some b => if u.depth < b.depth then some u else some b) none with
  | none =>
    have := ((best_fold_spec _ none).1.mp hf).1
    rw [this] at hmine; simp at hmine
  | some r =>
    have hr : r ∈ l.filter fun x => (x.name, x.ver) == (u.name, u.ver) := by
      rcases (best_fold_spec _ none).2 r hf with h | h
      · exact h
      · simp at h
    have hrk := (List.mem_filter.mp hr).2
    simp only [beq_iff_eq] at hrk
    refine ⟨r, ?_, (_root_.Prod.mk.inj hrk).1, (_root_.Prod.mk.inj hrk).2⟩
    simp only [List.mem_filterMap]
    exact ⟨(u.name, u.ver), hk, hf⟩

/-! ### `usesInfo` -/

/-- what the loop over the declared products leaves in the index, before `minPerUser` -/
theorem usesInfo_go_spec (db : Db) (fuel : Nat) : ∀ (ds : List Decl) (sb0 sb : SetupBy),
    usesInfo.go db fuel ds sb0 = .ok sb →
    ∃ raw : SetupBy, sb = raw.map (fun p => (p.1, minPerUser p.2)) ∧
      ∀ k u, SbMem raw k u ↔ SbMem sb0 k u ∨ ∃ d ∈ ds, ∃ l,
        getDependentProducts db fuel ⟨d.name, some d.ver, true⟩ true false = .ok l ∧
        ∃ e ∈ l, k = (e.prod.name, e.prod.ver) ∧ u = ⟨d.name, d.ver, e.prod.ver, e.optional, e.depth.getD 0⟩ := by
  intro ds
  induction ds with
  | nil =>
    intro sb0 sb h
    simp only [usesInfo.go, UsesOutcome.ok.injEq] at h
    exact ⟨sb0, h.symm, by simp⟩
  | cons d ds ih =>
    intro sb0 sb h
    simp only [usesInfo.go] at h
    cases hl : getDependentProducts db fuel ⟨d.name, some d.ver, true⟩ true false with
    | outOfFuel => simp [hl] at h
    | cycle => simp [hl] at h
    | ok l =>
      simp only [hl] at h
      obtain ⟨raw, hraw, hmem⟩ := ih _ _ h
      refine ⟨raw, hraw, ?_⟩
      intro k u
      rw [hmem, remember_mem]
      constructor
      · rintro ((h0 | ⟨e, he, h1, h2⟩) | ⟨d', hd', l', hl', hex⟩)
        · exact Or.inl h0
        · exact Or.inr ⟨d, by simp, l, hl, e, he, h1, h2⟩
        · exact Or.inr ⟨d', by simp [hd'], l', hl', hex⟩
      · rintro (h0 | ⟨d', hd', l', hl', hex⟩)
        · exact Or.inl (Or.inl h0)
        · simp only [List.mem_cons] at hd'
          rcases hd' with rfl | hd'
          · rw [hl] at hl'
            have : l = l' := by injection hl'
            subst this
            exact Or.inl (Or.inr hex)
          · exact Or.inr ⟨d', hd', l', hl', hex⟩

theorem mem_users (sb : SetupBy) (n : Str) (q : Option Str) (u : User) :
    u ∈ users sb n q ↔ ∃ k, k.1 = n ∧ (q = none ∨ k.2 = q) ∧ SbMem sb k u := by
  unfold users
  rw [mem_sortStable]
  simp only [List.mem_flatMap, List.mem_filter, Bool.and_eq_true, beq_iff_eq, Bool.or_eq_true,
    Option.isNone_iff_eq_none]
  constructor
  · rintro ⟨p, ⟨hp, h1, h2⟩, hu⟩
    exact ⟨p.1, h1, h2, p.2, hp, hu⟩
  · rintro ⟨k, h1, h2, l, hl, hu⟩
    exact ⟨(k, l), ⟨hl, h1, h2⟩, hu⟩

/-- **`uses` is the inverse of the listings.**  `Y w` is reported as a user of `X` (needing version `need`)
exactly when `Y w` is declared and its topological listing holds a product named `X` with that version. -/
theorem uses_inverse (db : Db) (fuel : Nat) (sb : SetupBy) (h : usesInfo db fuel = .ok sb)
    (X : Str) (q : Option Str) (Y w : Str) (need : Option Str) :
    (∃ u ∈ users sb X q, u.name = Y ∧ u.ver = w ∧ u.need = need) ↔
      ((q = none ∨ need = q) ∧ ∃ d ∈ db.decls, d.name = Y ∧ d.ver = w ∧ ∃ l,
        getDependentProducts db fuel ⟨Y, some w, true⟩ true false = .ok l ∧
        ∃ e ∈ l, e.prod.name = X ∧ e.prod.ver = need) := by
  unfold usesInfo at h
  obtain ⟨raw, hraw, hmem⟩ := usesInfo_go_spec db fuel _ _ _ h
  have hempty : ∀ k u, ¬ SbMem ([] : SetupBy) k u := by rintro k u ⟨l, hl, _⟩; simp at hl
  constructor
  · rintro ⟨u, hu, rfl, rfl, rfl⟩
    obtain ⟨k, hk1, hk2, l, hl, hul⟩ := (mem_users sb X q u).mp hu
    rw [hraw] at hl
    simp only [List.mem_map] at hl
    obtain ⟨p, hp, hpe⟩ := hl
    have hpk : p.1 = k := (_root_.Prod.mk.inj hpe).1
    have hpl : minPerUser p.2 = l := (_root_.Prod.mk.inj hpe).2
    rw [← hpl] at hul
    have hin := minPerUser_sub _ _ hul
    have hsm : SbMem raw k u := ⟨p.2, by rw [← hpk]; exact hp, hin⟩
    rcases (hmem k u).mp hsm with h0 | ⟨d, hd, l', hl', e, he, hke, hue⟩
    · exact absurd h0 (hempty k u)
    · subst hue
      simp only
      rw [hke] at hk1 hk2
      refine ⟨?_, d, hd, rfl, rfl, l', hl', e, he, hk1, rfl⟩
      rcases hk2 with h | h
      · exact Or.inl h
      · exact Or.inr h
  · rintro ⟨hq, d, hd, rfl, rfl, l, hl, e, he, rfl, rfl⟩
    have hsm : SbMem raw (e.prod.name, e.prod.ver) ⟨d.name, d.ver, e.prod.ver, e.optional, e.depth.getD 0⟩ :=
      (hmem _ _).mpr (Or.inr ⟨d, hd, l, hl, e, he, rfl, rfl⟩)
    obtain ⟨lst, hlst, hin⟩ := hsm
    obtain ⟨u', hu', hn, hv⟩ := minPerUser_user _ _ hin
    have hneed : u'.need = e.prod.ver := by
      have hin' := minPerUser_sub _ _ hu'
      have hsm' : SbMem raw (e.prod.name, e.prod.ver) u' := ⟨lst, hlst, hin'⟩
      rcases (hmem _ _).mp hsm' with h0 | ⟨d', _, l', _, e', _, hke, hue⟩
      · exact absurd h0 (hempty _ _)
      · rw [hue]; simp only
        exact ((_root_.Prod.mk.inj hke).2).symm
    refine ⟨u', ?_, hn, hv, hneed⟩
    rw [mem_users]
    refine ⟨(e.prod.name, e.prod.ver), rfl, ?_, minPerUser lst, ?_, hu'⟩
    · rcases hq with h | h
      · exact Or.inl h
      · exact Or.inr h
    · rw [hraw]; simp only [List.mem_map]
      exact ⟨(_, lst), hlst, rfl⟩

end EupsModel.Deps
