import EupsModel.Model.Remove
/-! Lemmas about the model of `Eups.remove` (`Model/Remove.lean`). -/
namespace EupsModel.Remove
open EupsModel EupsModel.Deps

theorem collectLoop_cons (sb : Option SetupBy) (force : Bool) (top : Str × Str) (recursive : Bool)
    (recur : Prod → Seen → Except Err (List Prod × Seen)) (q : Prod) (qs acc : List Prod) (seen : Seen) :
    collectLoop sb force top recursive recur (q :: qs) acc seen =
      if inUse sb top q && !force then .error .refused
      else if recursive then
        match recur q seen with
        | .error e => .error e
        | .ok (sub, seen') => collectLoop sb force top recursive recur qs (acc ++ sub ++ [q]) seen'
      else collectLoop sb force top recursive recur qs (acc ++ [q]) seen := rfl

/-- the loop refuses only through its own in-use test or through a nested call -/
theorem collectLoop_not_refused (sb : Option SetupBy) (force : Bool) (top : Str × Str) (recursive : Bool)
    (recur : Prod → Seen → Except Err (List Prod × Seen))
    (hoff : sb = none ∨ force = true) (hrec : ∀ q sn, recur q sn ≠ .error .refused) :
    ∀ qs acc seen, collectLoop sb force top recursive recur qs acc seen ≠ .error .refused := by
  intro qs
  induction qs with
  | nil => intro acc seen; simp [collectLoop]
  | cons q qs ih =>
    intro acc seen
    have hin : (inUse sb top q && !force) = false := by
      rcases hoff with h | h
      · subst h; simp [inUse]
      · subst h; simp
    rw [collectLoop_cons, hin]
    simp only [Bool.false_eq_true, if_false]
    cases recursive with
    | false => simpa using ih _ _
    | true =>
      simp only [if_true]
      cases hq : recur q seen with
      | error e =>
        simp only
        intro h; injection h with h; subst h; exact hrec q seen hq
      | ok r => obtain ⟨sub, sn⟩ := r; simpa using ih _ _

theorem directDeps_error {db : Db} {p : Prod} {expand : Bool} {e : Err} (h : directDeps db p expand = .error e) :
    e = .tableError ∨ e = .outOfFuel := by
  unfold directDeps at h
  split at h
  · split at h
    · injection h with h; exact Or.inl h.symm
    · split at h
      · injection h with h; exact Or.inr h.symm
      · simp at h
  · simp at h

theorem collect_not_refused (db : Db) (sb : Option SetupBy) (force : Bool) (dn : Option Str) (top : Str × Str)
    (hoff : sb = none ∨ force = true) :
    ∀ f name ver recursive seen, collect db sb force dn top f name ver recursive seen ≠ .error .refused := by
  intro f
  induction f with
  | zero => intro name ver recursive seen; simp [collect]
  | succ k ih =>
    intro name ver recursive seen
    unfold collect
    split
    · simp
    · split
      · simp
      · simp only
        split
        · rename_i e he
          rcases directDeps_error he with rfl | rfl <;> simp
        · exact collectLoop_not_refused sb force top recursive _ hoff (fun q sn => ih _ _ _ _) _ _ _

/-- every product the loop returns passed the in-use test (when the test is on and force is off) -/
theorem collectLoop_checked (sb : SetupBy) (top : Str × Str) (recursive : Bool)
    (recur : Prod → Seen → Except Err (List Prod × Seen))
    (hrec : ∀ q sn l sn', recur q sn = .ok (l, sn') → ∀ p ∈ l, inUse (some sb) top p = false) :
    ∀ qs acc seen l seen', (∀ p ∈ acc, inUse (some sb) top p = false) →
      collectLoop (some sb) false top recursive recur qs acc seen = .ok (l, seen') →
      ∀ p ∈ l, inUse (some sb) top p = false := by
  intro qs
  induction qs with
  | nil =>
    intro acc seen l seen' hacc h
    simp only [collectLoop, Except.ok.injEq, Prod.mk.injEq] at h
    rw [← h.1]; exact hacc
  | cons q qs ih =>
    intro acc seen l seen' hacc h
    rw [collectLoop_cons] at h
    cases hu : inUse (some sb) top q with
    | true => simp [hu] at h
    | false =>
      simp only [hu, Bool.false_and, Bool.false_eq_true, if_false] at h
      cases recursive with
      | false =>
        simp only [Bool.false_eq_true, if_false] at h
        apply ih _ _ _ _ _ h
        intro p hp; simp only [List.mem_append, List.mem_singleton] at hp
        rcases hp with hp | hp
        · exact hacc p hp
        · subst hp; exact hu
      | true =>
        simp only [if_true] at h
        cases hq : recur q seen with
        | error e => simp [hq] at h
        | ok r =>
          obtain ⟨sub, sn⟩ := r
          simp only [hq] at h
          apply ih _ _ _ _ _ h
          intro p hp; simp only [List.mem_append, List.mem_singleton] at hp
          rcases hp with (hp | hp) | hp
          · exact hacc p hp
          · exact hrec q seen sub sn hq p hp
          · subst hp; exact hu

theorem collect_checked (db : Db) (sb : SetupBy) (dn : Option Str) (top : Str × Str) :
    ∀ f name ver recursive seen l seen', collect db (some sb) false dn top f name ver recursive seen = .ok (l, seen') →
      ∀ p ∈ l, inUse (some sb) top p = false := by
  intro f
  induction f with
  | zero => intro name ver recursive seen l seen' h; simp [collect] at h
  | succ k ih =>
    intro name ver recursive seen l seen' h
    unfold collect at h
    split at h
    · simp only [Except.ok.injEq, Prod.mk.injEq] at h; rw [← h.1]; simp
    · split at h
      · simp at h
      · simp only at h
        split at h
        · simp at h
        · exact collectLoop_checked sb top recursive _ (fun q sn l' sn' hq => ih _ _ _ _ l' sn' hq) _ [] _ l seen'
            (by simp) h

theorem mem_uniqProds (l : List Prod) (p : Prod) : p ∈ uniqProds l ↔ p ∈ l := by
  unfold uniqProds
  induction l with
  | nil => simp [Topo.dedup]
  | cons x xs ih =>
    simp only [Topo.dedup, List.mem_cons, List.mem_filter, ih]
    by_cases h : p = x <;> simp [h]

/-- a non-recursive `_remove` collects the product and nothing else -/
theorem collect_nonrecursive (db : Db) (sb : Option SetupBy) (force : Bool) (dn : Option Str) (top : Str × Str)
    (f : Nat) (name : Str) (ver : Option Str) (seen : Seen) (l : List Prod) (seen' : Seen)
    (h : collect db sb force dn top f name ver false seen = .ok (l, seen')) :
    l = [] ∧ dn = some name ∨ ∃ p, db.find name ver = some p ∧ l = [p] := by
  cases f with
  | zero => simp [collect] at h
  | succ k =>
    unfold collect at h
    split at h
    · rename_i hd
      simp only [Except.ok.injEq, Prod.mk.injEq] at h
      left; exact ⟨h.1.symm, by simpa using hd⟩
    · split at h
      · simp at h
      · rename_i p hp
        simp only [Bool.false_and, directDeps, Bool.false_eq_true, if_false] at h
        right; refine ⟨p, hp, ?_⟩
        rw [collectLoop_cons] at h
        split at h
        · simp at h
        · simp only [Bool.false_eq_true, if_false, collectLoop, List.nil_append, Except.ok.injEq,
            Prod.mk.injEq] at h
          exact h.1.symm

/-- every product the loop was given ends up in its result -/
theorem collectLoop_contains (sb : Option SetupBy) (force : Bool) (top : Str × Str) (recursive : Bool)
    (recur : Prod → Seen → Except Err (List Prod × Seen)) :
    ∀ qs acc seen l seen', collectLoop sb force top recursive recur qs acc seen = .ok (l, seen') →
      (∀ p ∈ acc, p ∈ l) ∧ ∀ q ∈ qs, q ∈ l := by
  intro qs
  induction qs with
  | nil =>
    intro acc seen l seen' h
    simp only [collectLoop, Except.ok.injEq, Prod.mk.injEq] at h
    rw [← h.1]; exact ⟨fun _ h => h, by simp⟩
  | cons q qs ih =>
    intro acc seen l seen' h
    rw [collectLoop_cons] at h
    split at h
    · simp at h
    · split at h
      · cases hq : recur q seen with
        | error e => simp [hq] at h
        | ok r =>
          obtain ⟨sub, sn⟩ := r
          simp only [hq] at h
          obtain ⟨h1, h2⟩ := ih _ _ _ _ h
          refine ⟨fun p hp => h1 p (by simp [hp]), ?_⟩
          intro x hx
          simp only [List.mem_cons] at hx
          rcases hx with rfl | hx
          · exact h1 _ (by simp)
          · exact h2 x hx
      · obtain ⟨h1, h2⟩ := ih _ _ _ _ h
        refine ⟨fun p hp => h1 p (by simp [hp]), ?_⟩
        intro x hx
        simp only [List.mem_cons] at hx
        rcases hx with rfl | hx
        · exact h1 _ (by simp)
        · exact h2 x hx

theorem mem_directDeps_self {db : Db} {p : Prod} {expand : Bool} {deps : List Prod}
    (h : directDeps db p expand = .ok deps) : p ∈ deps := by
  unfold directDeps at h
  split at h
  · split at h
    · simp at h
    · split at h
      · simp at h
      · simp only [Except.ok.injEq] at h; rw [← h]; simp
  · simp only [Except.ok.injEq] at h; rw [← h]; simp

/-- a successful `_remove` of a product other than the default product collects that product -/
theorem collect_contains_self (db : Db) (sb : Option SetupBy) (force : Bool) (dn : Option Str) (top : Str × Str)
    (f : Nat) (name : Str) (ver : Option Str) (recursive : Bool) (seen : Seen) (l : List Prod) (seen' : Seen)
    (h : collect db sb force dn top f name ver recursive seen = .ok (l, seen')) (hd : dn ≠ some name) :
    ∃ p, db.find name ver = some p ∧ p ∈ l := by
  cases f with
  | zero => simp [collect] at h
  | succ k =>
    unfold collect at h
    split at h
    · rename_i hdn; exact absurd (by simpa using hdn) hd
    · split at h
      · simp at h
      · rename_i p hp
        simp only at h
        split at h
        · simp at h
        · rename_i deps hdeps
          exact ⟨p, hp, (collectLoop_contains _ _ _ _ _ _ _ _ _ _ h).2 p (mem_directDeps_self hdeps)⟩

/-- the shape of a successful run -/
theorem removeWith_ok {s : State} {uses : UsesOutcome} {name ver : Str} {recursive check force : Bool}
    {dn : Option Str} {s' : State} {R : List Prod}
    (h : removeWith s uses name ver recursive check force dn = (Outcome.ok, s', R)) :
    ∃ sb l sn, collect s.db sb force dn (name, ver) s.removeFuel name (some ver) recursive [] = .ok (l, sn) ∧
      s' = destroy s (uniqProds l) ∧ R = uniqProds l ∧
      (check = false → sb = none) ∧ (check = true → ∃ sb', uses = .ok sb' ∧ sb = some sb') := by
  have key : ∀ sb, (match collect s.db sb force dn (name, ver) s.removeFuel name (some ver) recursive [] with
      | .error e => (Outcome.failed e, s, ([] : List Prod))
      | .ok (l, _) => (Outcome.ok, destroy s (uniqProds l), uniqProds l)) = (Outcome.ok, s', R) →
      ∃ l sn, collect s.db sb force dn (name, ver) s.removeFuel name (some ver) recursive [] = .ok (l, sn) ∧
        s' = destroy s (uniqProds l) ∧ R = uniqProds l := by
    intro sb hk
    cases hc : collect s.db sb force dn (name, ver) s.removeFuel name (some ver) recursive [] with
    | error e => simp [hc] at hk
    | ok r =>
      obtain ⟨l, sn⟩ := r
      simp only [hc, Prod.mk.injEq, true_and] at hk
      exact ⟨l, sn, rfl, hk.1.symm, hk.2.symm⟩
  unfold removeWith at h
  cases check with
  | false =>
    simp only [Bool.false_eq_true, if_false] at h
    obtain ⟨l, sn, h1, h2, h3⟩ := key _ h
    exact ⟨none, l, sn, h1, h2, h3, fun _ => rfl, fun hc => absurd hc (by simp)⟩
  | true =>
    simp only [if_true] at h
    split at h
    · simp at h
    · simp at h
    · rename_i sb'
      obtain ⟨l, sn, h1, h2, h3⟩ := key _ h
      exact ⟨some sb', l, sn, h1, h2, h3, fun hc => absurd hc (by simp), fun _ => ⟨sb', rfl, rfl⟩⟩

/-- every run is a failure that changes nothing, or a success -/
theorem removeWith_failed_or_ok (s : State) (uses : UsesOutcome) (name ver : Str) (recursive check force : Bool)
    (dn : Option Str) :
    (∃ e, removeWith s uses name ver recursive check force dn = (Outcome.failed e, s, [])) ∨
      ∃ s' R, removeWith s uses name ver recursive check force dn = (Outcome.ok, s', R) := by
  have key : ∀ sb, (∃ e, (match collect s.db sb force dn (name, ver) s.removeFuel name (some ver) recursive [] with
      | .error e => (Outcome.failed e, s, ([] : List Prod))
      | .ok (l, _) => (Outcome.ok, destroy s (uniqProds l), uniqProds l)) = (Outcome.failed e, s, [])) ∨
      ∃ s' R, (match collect s.db sb force dn (name, ver) s.removeFuel name (some ver) recursive [] with
      | .error e => (Outcome.failed e, s, ([] : List Prod))
      | .ok (l, _) => (Outcome.ok, destroy s (uniqProds l), uniqProds l)) = (Outcome.ok, s', R) := by
    intro sb
    cases hc : collect s.db sb force dn (name, ver) s.removeFuel name (some ver) recursive [] with
    | error e => exact Or.inl ⟨e, rfl⟩
    | ok r => exact Or.inr ⟨_, _, rfl⟩
  unfold removeWith
  cases check with
  | false => simp only [Bool.false_eq_true, if_false]; exact key _
  | true =>
    simp only [if_true]
    split
    · exact Or.inl ⟨_, rfl⟩
    · exact Or.inl ⟨_, rfl⟩
    · exact key _

/-- a refusal comes out of `collect` -/
theorem removeWith_refused {s : State} {uses : UsesOutcome} {name ver : Str} {recursive check force : Bool}
    {dn : Option Str} (h : (removeWith s uses name ver recursive check force dn).1 = Outcome.failed Err.refused) :
    ∃ sb, collect s.db sb force dn (name, ver) s.removeFuel name (some ver) recursive [] = .error .refused ∧
      (check = false → sb = none) := by
  have key : ∀ sb, (match collect s.db sb force dn (name, ver) s.removeFuel name (some ver) recursive [] with
      | .error e => (Outcome.failed e, s, ([] : List Prod))
      | .ok (l, _) => (Outcome.ok, destroy s (uniqProds l), uniqProds l)).1 = Outcome.failed Err.refused →
      collect s.db sb force dn (name, ver) s.removeFuel name (some ver) recursive [] = .error .refused := by
    intro sb hk
    cases hc : collect s.db sb force dn (name, ver) s.removeFuel name (some ver) recursive [] with
    | error e => simp only [hc] at hk; injection hk with hk; rw [hk]
    | ok r => simp [hc] at hk
  unfold removeWith at h
  cases check with
  | false =>
    simp only [Bool.false_eq_true, if_false] at h
    exact ⟨none, key _ h, fun _ => rfl⟩
  | true =>
    simp only [if_true] at h
    split at h
    · simp at h
    · simp at h
    · exact ⟨_, key _ h, fun hc => absurd hc (by simp)⟩

/-- where a failure comes from: the in-use index could not be built, or `collect` failed -/
theorem removeWith_failed {s : State} {uses : UsesOutcome} {name ver : Str} {recursive check force : Bool}
    {dn : Option Str} {e : Err} (h : (removeWith s uses name ver recursive check force dn).1 = Outcome.failed e) :
    (check = true ∧ ((uses = .outOfFuel ∧ e = .outOfFuel) ∨ (uses = .cycle ∧ e = .cycle))) ∨
      ∃ sb, collect s.db sb force dn (name, ver) s.removeFuel name (some ver) recursive [] = .error e := by
  have key : ∀ sb, (match collect s.db sb force dn (name, ver) s.removeFuel name (some ver) recursive [] with
      | .error e => (Outcome.failed e, s, ([] : List Prod))
      | .ok (l, _) => (Outcome.ok, destroy s (uniqProds l), uniqProds l)).1 = Outcome.failed e →
      collect s.db sb force dn (name, ver) s.removeFuel name (some ver) recursive [] = .error e := by
    intro sb hk
    cases hc : collect s.db sb force dn (name, ver) s.removeFuel name (some ver) recursive [] with
    | error e' => simp only [hc] at hk; injection hk with hk; rw [hk]
    | ok r => simp [hc] at hk
  unfold removeWith at h
  cases check with
  | false =>
    simp only [Bool.false_eq_true, if_false] at h
    exact Or.inr ⟨none, key _ h⟩
  | true =>
    simp only [if_true] at h
    split at h
    · simp only at h; injection h with h; exact Or.inl ⟨rfl, Or.inl ⟨rfl, h.symm⟩⟩
    · simp only at h; injection h with h; exact Or.inl ⟨rfl, Or.inr ⟨rfl, h.symm⟩⟩
    · exact Or.inr ⟨_, key _ h⟩

end EupsModel.Remove
