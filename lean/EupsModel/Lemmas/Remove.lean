import EupsModel.Model.Remove
/-! Lemmas about the model of `Eups.remove` (`Model/Remove.lean`). -/
namespace EupsModel.Remove
open EupsModel EupsModel.Deps

theorem collectLoop_cons (sb : Option SetupBy) (force : Bool) (top : Str × Str) (recursive : Bool)
    (recur : Prod → Seen → Except Err (List Prod × Seen)) (q : Prod) (qs acc : List Prod) (seen : Seen) :
    collectLoop sb force top recursive recur (q :: qs) acc seen =
      if inUse sb top q && !force then .error .refused
      else if recursive then
        match recur q seen with
        | .error e => .error e
        | .ok (sub, seen') => collectLoop sb force top recursive recur qs (acc ++ sub ++ [q]) seen'
      else collectLoop sb force top recursive recur qs (acc ++ [q]) seen := rfl

/-- the loop refuses only through its own in-use test or through a nested call -/
theorem collectLoop_not_refused (sb : Option SetupBy) (force : Bool) (top : Str × Str) (recursive : Bool)
    (recur : Prod → Seen → Except Err (List Prod × Seen))
    (hoff : sb = none ∨ force = true) (hrec : ∀ q sn, recur q sn ≠ .error .refused) :
    ∀ qs acc seen, collectLoop sb force top recursive recur qs acc seen ≠ .error .refused := by
  intro qs
  induction qs with
  | nil => intro acc seen; simp [collectLoop]
  | cons q qs ih =>
    intro acc seen
    have hin : (inUse sb top q && !force) = false := by
      rcases hoff with h | h
      · subst h; simp [inUse]
      · subst h; simp
    rw [collectLoop_cons, hin]
    simp only [Bool.false_eq_true, if_false]
    cases recursive with
    | false => simpa using ih _ _
    | true =>
      simp only [if_true]
      cases hq : recur q seen with
      | error e =>
        simp only
        intro h; injection h with h; subst h; exact hrec q seen hq
      | ok r => obtain ⟨sub, sn⟩ := r; simpa using ih _ _

theorem directDeps_error {db : Db} {p : Prod} {expand : Bool} {e : Err} (h : directDeps db p expand = .error e) :
    e = .tableError ∨ e = .outOfFuel := by
  unfold directDeps at h
  split at h
  · split at h
    · injection h with h; exact Or.inl h.symm
    · split at h
      · injection h with h; exact Or.inr h.symm
      · simp at h
  · simp at h

theorem collect_not_refused (db : Db) (sb : Option SetupBy) (force : Bool) (dn : Option Str) (top : Str × Str)
    (hoff : sb = none ∨ force = true) :
    ∀ f name ver recursive seen, collect db sb force dn top f name ver recursive seen ≠ .error .refused := by
  intro f
  induction f with
  | zero => intro name ver recursive seen; simp [collect]
  | succ k ih =>
    intro name ver recursive seen
    unfold collect
    split
    · simp
    · split
      · simp
      · simp only
        split
        · rename_i e he
          rcases directDeps_error he with rfl | rfl <;> simp
        · exact collectLoop_not_refused sb force top recursive _ hoff (fun q sn => ih _ _ _ _) _ _ _

/-- every product the loop returns passed the in-use test (when the test is on and force is off) -/
theorem collectLoop_checked (sb : SetupBy) (top : Str × Str) (recursive : Bool)
    (recur : Prod → Seen → Except Err (List Prod × Seen))
    (hrec : ∀ q sn l sn', recur q sn = .ok (l, sn') → ∀ p ∈ l, inUse (some sb) top p = false) :
    ∀ qs acc seen l seen', (∀ p ∈ acc, inUse (some sb) top p = false) →
      collectLoop (some sb) false top recursive recur qs acc seen = .ok (l, seen') →
      ∀ p ∈ l, inUse (some sb) top p = false := by
  intro qs
  induction qs with
  | nil =>
    intro acc seen l seen' hacc h
    simp only [collectLoop, Except.ok.injEq, Prod.mk.injEq] at h
    rw [← h.1]; exact hacc
  | cons q qs ih =>
    intro acc seen l seen' hacc h
    rw [collectLoop_cons] at h
    cases hu : inUse (some sb) top q with
    | true => simp [hu] at h
    | false =>
      simp only [hu, Bool.false_and, Bool.false_eq_true, if_false] at h
      cases recursive with
      | false =>
        simp only [Bool.false_eq_true, if_false] at h
        apply ih _ _ _ _ _ h
        intro p hp; simp only [List.mem_append, List.mem_singleton] at hp
        rcases hp with hp | hp
        · exact hacc p hp
        · subst hp; exact hu
      | true =>
        simp only [if_true] at h
        cases hq : recur q seen with
        | error e => simp [hq] at h
        | ok r =>
          obtain ⟨sub, sn⟩ := r
          simp only [hq] at h
          apply ih _ _ _ _ _ h
          intro p hp; simp only [List.mem_append, List.mem_singleton] at hp
          rcases hp with (hp | hp) | hp
          · exact hacc p hp
          · exact hrec q seen sub sn hq p hp
          · subst hp; exact hu

theorem collect_checked (db : Db) (sb : SetupBy) (dn : Option Str) (top : Str × Str) :
    ∀ f name ver recursive seen l seen', collect db (some sb) false dn top f name ver recursive seen = .ok (l, seen') →
      ∀ p ∈ l, inUse (some sb) top p = false := by
  intro f
  induction f with
  | zero => intro name ver recursive seen l seen' h; simp [collect] at h
  | succ k ih =>
    intro name ver recursive seen l seen' h
    unfold collect at h
    split at h
    · simp only [Except.ok.injEq, Prod.mk.injEq] at h; rw [← h.1]; simp
    · split at h
      · simp at h
      · simp only at h
        split at h
        · simp at h
        · exact collectLoop_checked sb top recursive _ (fun q sn l' sn' hq => ih _ _ _ _ l' sn' hq) _ [] _ l seen'
            (by simp) h

theorem mem_uniqProds (l : List Prod) (p : Prod) : p ∈ uniqProds l ↔ p ∈ l := by
  unfold uniqProds
  induction l with
  | nil => simp [Topo.dedup]
  | cons x xs ih =>
    simp only [Topo.dedup, List.mem_cons, List.mem_filter, ih]
    by_cases h : p = x <;> simp [h]

/-- a non-recursive `_remove` collects the product and nothing else -/
theorem collect_nonrecursive (db : Db) (sb : Option SetupBy) (force : Bool) (dn : Option Str) (top : Str × Str)
    (f : Nat) (name : Str) (ver : Option Str) (seen : Seen) (l : List Prod) (seen' : Seen)
    (h : collect db sb force dn top f name ver false seen = .ok (l, seen')) :
    l = [] ∧ dn = some name ∨ ∃ p, db.find name ver = some p ∧ l = [p] := by
  cases f with
  | zero => simp [collect] at h
  | succ k =>
    unfold collect at h
    split at h
    · rename_i hd
      simp only [Except.ok.injEq, Prod.mk.injEq] at h
      left; exact ⟨h.1.symm, by simpa using hd⟩
    · split at h
      · simp at h
      · rename_i p hp
        simp only [Bool.false_and, directDeps, Bool.false_eq_true, if_false] at h
        right; refine ⟨p, hp, ?_⟩
        rw [collectLoop_cons] at h
        split at h
        · simp at h
        · simp only [Bool.false_eq_true, if_false, collectLoop, List.nil_append, Except.ok.injEq,
            Prod.mk.injEq] at h
          exact h.1.symm

/-- every product the loop was given ends up in its result -/
theorem collectLoop_contains (sb : Option SetupBy) (force : Bool) (top : Str × Str) (recursive : Bool)
    (recur : Prod → Seen → Except Err (List Prod × Seen)) :
    ∀ qs acc seen l seen', collectLoop sb force top recursive recur qs acc seen = .ok (l, seen') →
      (∀ p ∈ acc, p ∈ l) ∧ ∀ q ∈ qs, q ∈ l := by
  intro qs
  induction qs with
  | nil =>
    intro acc seen l seen' h
    simp only [collectLoop, Except.ok.injEq, Prod.mk.injEq] at h
    rw [← h.1]; exact ⟨fun _ h => h, by simp⟩
  | cons q qs ih =>
    intro acc seen l seen' h
    rw [collectLoop_cons] at h
    split at h
    · simp at h
    · split at h
      · cases hq : recur q seen with
        | error e => simp [hq] at h
        | ok r =>
          obtain ⟨sub, sn⟩ := r
          simp only [hq] at h
          obtain ⟨h1, h2⟩ := ih _ _ _ _ h
          refine ⟨fun p hp => h1 p (by simp [hp]), ?_⟩
          intro x hx
          simp only [List.mem_cons] at hx
          rcases hx with rfl | hx
          · exact h1 _ (by simp)
          · exact h2 x hx
      · obtain ⟨h1, h2⟩ := ih _ _ _ _ h
        refine ⟨fun p hp => h1 p (by simp [hp]), ?_⟩
        intro x hx
        simp only [List.mem_cons] at hx
        rcases hx with rfl | hx
        · exact h1 _ (by simp)
        · exact h2 x hx

theorem mem_directDeps_self {db : Db} {p : Prod} {expand : Bool} {deps : List Prod}
    (h : directDeps db p expand = .ok deps) : p ∈ deps := by
  unfold directDeps at h
  split at h
  · split at h
    · simp at h
    · split at h
      · simp at h
      · simp only [Except.ok.injEq] at h; rw [← h]; simp
  · simp only [Except.ok.injEq] at h; rw [← h]; simp

/-- a successful `_remove` of a product other than the default product collects that product -/
theorem collect_contains_self (db : Db) (sb : Option SetupBy) (force : Bool) (dn : Option Str) (top : Str × Str)
    (f : Nat) (name : Str) (ver : Option Str) (recursive : Bool) (seen : Seen) (l : List Prod) (seen' : Seen)
    (h : collect db sb force dn top f name ver recursive seen = .ok (l, seen')) (hd : dn ≠ some name) :
    ∃ p, db.find name ver = some p ∧ p ∈ l := by
  cases f with
  | zero => simp [collect] at h
  | succ k =>
    unfold collect at h
    split at h
    · rename_i hdn; exact absurd (by simpa using hdn) hd
    · split at h
      · simp at h
      · rename_i p hp
        simp only at h
        split at h
        · simp at h
        · rename_i deps hdeps
          exact ⟨p, hp, (collectLoop_contains _ _ _ _ _ _ _ _ _ _ h).2 p (mem_directDeps_self hdeps)⟩

/-! ### the destruction loop -/

theorem removed_cons (p : Prod) (ps : List Prod) (n v : Str) :
    removed (p :: ps) n v = (removed [p] n v || removed ps n v) := by
  unfold removed
  simp only [List.any_cons, List.any_nil, Bool.or_false]

theorem removed_nil (n v : Str) : removed [] n v = false := by simp [removed]

theorem destroy_nil (s : State) : destroy s [] = s := by
  cases s
  simp [destroy, removed_nil]

theorem filter_removed {β : Type} (l : List β) (key : β → Str × Str) (p : Prod) (ps : List Prod) :
    (l.filter fun x => !removed [p] (key x).1 (key x).2).filter (fun x => !removed ps (key x).1 (key x).2) =
      l.filter fun x => !removed (p :: ps) (key x).1 (key x).2 := by
  rw [List.filter_filter]
  apply List.filter_congr
  intro x _
  rw [removed_cons p ps]
  cases removed [p] (key x).1 (key x).2 <;> cases removed ps (key x).1 (key x).2 <;> rfl

theorem destroy_destroy (s : State) (p : Prod) (ps : List Prod) :
    destroy (destroy s [p]) ps = destroy s (p :: ps) := by
  unfold destroy
  simp only
  have h1 := filter_removed s.decls (fun d => (d.name, d.ver)) p ps
  have h2 := filter_removed s.tags (fun t => (t.1, t.2.2)) p ps
  have h3 := filter_removed s.dirs (fun d => (d.1, d.2)) p ps
  simp only at h1 h2 h3
  rw [h1, h2, h3]

theorem isSetup_destroy (s : State) (R : List Prod) (q : Prod) : (destroy s R).isSetup q = s.isSetup q := rfl

/-- when nothing to be removed is set up (or force is on) the loop runs to the end: every product of `R` is
undeclared and its directory deleted -/
theorem destroyLoop_ok (force : Bool) : ∀ (R : List Prod) (s : State), s.dbWritable = true →
    (force = true ∨ ∀ p ∈ R, s.isSetup p = false) → destroyLoop force s R = (.ok, destroy s R) := by
  intro R
  induction R with
  | nil =>
    intro s _ _
    simp only [destroyLoop, destroy_nil]
  | cons p ps ih =>
    intro s hw h
    have hc : (s.isSetup p && !force) = false := by
      rcases h with h | h
      · subst h; simp
      · simp [h p (by simp)]
    simp only [destroyLoop, hw, Bool.not_true, hc, Bool.false_eq_true, if_false]
    rw [ih (destroy s [p]) hw (by
      rcases h with h | h
      · exact Or.inl h
      · exact Or.inr (fun q hq => by rw [isSetup_destroy]; exact h q (by simp [hq]))), destroy_destroy]

/-- a database that cannot be written stops the loop at the first product: nothing has been touched -/
theorem destroyLoop_readonly (force : Bool) (s : State) (hw : s.dbWritable = false) (p : Prod) (ps : List Prod) :
    destroyLoop force s (p :: ps) = (.failed .noPermission, s) := by
  simp [destroyLoop, hw]

/-- what `removeWith` does once the products are collected -/
def finish (s : State) (force : Bool) (l : List Prod) : Outcome × State × List Prod :=
  if !force && (uniqProds l).any s.isSetup then (.failed .isSetup, s, [])
  else ((destroyLoop force s (uniqProds l)).1, (destroyLoop force s (uniqProds l)).2, uniqProds l)

theorem finish_cases (s : State) (force : Bool) (l : List Prod) :
    (force = false ∧ (uniqProds l).any s.isSetup = true ∧ finish s force l = (.failed .isSetup, s, [])) ∨
      (s.dbWritable = false ∧ uniqProds l ≠ [] ∧ finish s force l = (.failed .noPermission, s, uniqProds l)) ∨
      ((force = true ∨ ∀ p ∈ uniqProds l, s.isSetup p = false) ∧
        finish s force l = (.ok, destroy s (uniqProds l), uniqProds l)) := by
  unfold finish
  by_cases hc : (!force && (uniqProds l).any s.isSetup) = true
  · left
    simp only [Bool.and_eq_true, Bool.not_eq_true'] at hc
    exact ⟨hc.1, hc.2, by simp [hc.1, hc.2]⟩
  · right
    have hc' : (!force && (uniqProds l).any s.isSetup) = false := by simpa using hc
    simp only [hc', Bool.false_eq_true, if_false]
    have hno : force = true ∨ ∀ p ∈ uniqProds l, s.isSetup p = false := by
      cases force with
      | true => exact Or.inl rfl
      | false =>
        right
        intro p hp
        simp only [Bool.not_false, Bool.true_and] at hc'
        cases hq : s.isSetup p with
        | false => rfl
        | true =>
          have : (uniqProds l).any s.isSetup = true := List.any_eq_true.mpr ⟨p, hp, hq⟩
          rw [this] at hc'; exact Bool.noConfusion hc'
    cases hw : s.dbWritable with
    | true => right; exact ⟨hno, by rw [destroyLoop_ok force _ s hw hno]⟩
    | false =>
      cases hl : uniqProds l with
      | nil => right; exact ⟨by rw [hl] at hno; exact hno, by simp [destroyLoop, destroy_nil]⟩
      | cons p ps => left; exact ⟨rfl, by simp, by rw [destroyLoop_readonly force s hw p ps]⟩

theorem removeWith_eq (s : State) (uses : UsesOutcome) (name ver : Str) (recursive check force : Bool)
    (dn : Option Str) :
    removeWith s uses name ver recursive check force dn =
      (let go (sb : Option SetupBy) : Outcome × State × List Prod :=
        match collect s.db sb force dn (name, ver) s.removeFuel name (some ver) recursive [] with
        | .error e => (.failed e, s, [])
        | .ok (l, _) => finish s force l
      if check then
        match uses with
        | .outOfFuel => (.failed .outOfFuel, s, [])
        | .cycle => (.failed .cycle, s, [])
        | .ok sb => go (some sb)
      else go none) := rfl

/-- the possible courses of a run -/
inductive Course (s : State) (uses : UsesOutcome) (name ver : Str) (recursive check force : Bool) (dn : Option Str) :
    Outcome × State × List Prod → Prop
  | usesFailed (e : Err) : check = true → (uses = .outOfFuel ∧ e = .outOfFuel ∨ uses = .cycle ∧ e = .cycle) →
      Course s uses name ver recursive check force dn (.failed e, s, [])
  | collectFailed (sb : Option SetupBy) (e : Err) : (check = false → sb = none) →
      (check = true → ∃ sb', uses = .ok sb' ∧ sb = some sb') →
      collect s.db sb force dn (name, ver) s.removeFuel name (some ver) recursive [] = .error e →
      Course s uses name ver recursive check force dn (.failed e, s, [])
  | isSetup (sb : Option SetupBy) (l : List Prod) (sn : Seen) : force = false →
      collect s.db sb force dn (name, ver) s.removeFuel name (some ver) recursive [] = .ok (l, sn) →
      (uniqProds l).any s.isSetup = true →
      Course s uses name ver recursive check force dn (.failed .isSetup, s, [])
  | noPermission (sb : Option SetupBy) (l : List Prod) (sn : Seen) : s.dbWritable = false →
      collect s.db sb force dn (name, ver) s.removeFuel name (some ver) recursive [] = .ok (l, sn) →
      Course s uses name ver recursive check force dn (.failed .noPermission, s, uniqProds l)
  | done (sb : Option SetupBy) (l : List Prod) (sn : Seen) : (check = false → sb = none) →
      (check = true → ∃ sb', uses = .ok sb' ∧ sb = some sb') →
      collect s.db sb force dn (name, ver) s.removeFuel name (some ver) recursive [] = .ok (l, sn) →
      (force = true ∨ ∀ p ∈ uniqProds l, s.isSetup p = false) →
      Course s uses name ver recursive check force dn (.ok, destroy s (uniqProds l), uniqProds l)

theorem removeWith_course (s : State) (uses : UsesOutcome) (name ver : Str) (recursive check force : Bool)
    (dn : Option Str) :
    Course s uses name ver recursive check force dn (removeWith s uses name ver recursive check force dn) := by
  have key : ∀ sb, (check = false → sb = none) → (check = true → ∃ sb', uses = .ok sb' ∧ sb = some sb') →
      Course s uses name ver recursive check force dn
        (match collect s.db sb force dn (name, ver) s.removeFuel name (some ver) recursive [] with
          | .error e => (Outcome.failed e, s, ([] : List Prod))
          | .ok (l, _) => finish s force l) := by
    intro sb h1 h2
    cases hc : collect s.db sb force dn (name, ver) s.removeFuel name (some ver) recursive [] with
    | error e => exact Course.collectFailed sb e h1 h2 hc
    | ok r =>
      obtain ⟨l, sn⟩ := r
      simp only
      rcases finish_cases s force l with ⟨hf, hany, he⟩ | ⟨hw, _, he⟩ | ⟨hno, he⟩
      · rw [he]; exact Course.isSetup sb l sn hf hc hany
      · rw [he]; exact Course.noPermission sb l sn hw hc
      · rw [he]; exact Course.done sb l sn h1 h2 hc hno
  rw [removeWith_eq]
  cases check with
  | false =>
    simp only [Bool.false_eq_true, if_false]
    exact key none (fun _ => rfl) (fun h => absurd h (by simp))
  | true =>
    simp only [if_true]
    cases uses with
    | outOfFuel => exact Course.usesFailed _ rfl (Or.inl ⟨rfl, rfl⟩)
    | cycle => exact Course.usesFailed _ rfl (Or.inr ⟨rfl, rfl⟩)
    | ok sb' => exact key (some sb') (fun h => absurd h (by simp)) (fun _ => ⟨sb', rfl, rfl⟩)

/-- the shape of a successful run -/
theorem removeWith_ok {s : State} {uses : UsesOutcome} {name ver : Str} {recursive check force : Bool}
    {dn : Option Str} {s' : State} {R : List Prod}
    (h : removeWith s uses name ver recursive check force dn = (Outcome.ok, s', R)) :
    ∃ sb l sn, collect s.db sb force dn (name, ver) s.removeFuel name (some ver) recursive [] = .ok (l, sn) ∧
      s' = destroy s (uniqProds l) ∧ R = uniqProds l ∧
      (check = false → sb = none) ∧ (check = true → ∃ sb', uses = .ok sb' ∧ sb = some sb') := by
  have hc := removeWith_course s uses name ver recursive check force dn
  rw [h] at hc
  cases hc with
  | done sb l sn h1 h2 h3 _ => exact ⟨sb, l, sn, h3, rfl, rfl, h1, h2⟩

/-- every run is a failure that changes nothing, or a success -/
theorem removeWith_failed_or_ok (s : State) (uses : UsesOutcome) (name ver : Str) (recursive check force : Bool)
    (dn : Option Str) :
    (∃ e R, removeWith s uses name ver recursive check force dn = (Outcome.failed e, s, R)) ∨
      ∃ s' R, removeWith s uses name ver recursive check force dn = (Outcome.ok, s', R) := by
  have hc := removeWith_course s uses name ver recursive check force dn
  generalize removeWith s uses name ver recursive check force dn = r at hc
  cases hc with
  | usesFailed e _ _ => exact Or.inl ⟨e, _, rfl⟩
  | collectFailed sb e _ _ _ => exact Or.inl ⟨e, _, rfl⟩
  | isSetup sb l sn _ _ _ => exact Or.inl ⟨_, _, rfl⟩
  | noPermission sb l sn _ _ => exact Or.inl ⟨_, _, rfl⟩
  | done sb l sn _ _ _ _ => exact Or.inr ⟨_, _, rfl⟩

/-- where a failure comes from: the in-use index could not be built, `collect` failed, or a product to be removed
is set up -/
theorem removeWith_failed {s : State} {uses : UsesOutcome} {name ver : Str} {recursive check force : Bool}
    {dn : Option Str} {e : Err} (h : (removeWith s uses name ver recursive check force dn).1 = Outcome.failed e) :
    (check = true ∧ ((uses = .outOfFuel ∧ e = .outOfFuel) ∨ (uses = .cycle ∧ e = .cycle))) ∨
      (∃ sb, (check = false → sb = none) ∧
        collect s.db sb force dn (name, ver) s.removeFuel name (some ver) recursive [] = .error e) ∨
      (e = .isSetup ∧ force = false) ∨ (e = .noPermission ∧ s.dbWritable = false) := by
  have hc := removeWith_course s uses name ver recursive check force dn
  generalize removeWith s uses name ver recursive check force dn = r at hc h
  cases hc with
  | usesFailed e' h1 h2 => simp only at h; injection h with h; subst h; exact Or.inl ⟨h1, h2⟩
  | collectFailed sb e' h1 _ h3 => simp only at h; injection h with h; subst h; exact Or.inr (Or.inl ⟨sb, h1, h3⟩)
  | isSetup sb l sn hf _ _ => simp only at h; injection h with h; subst h; exact Or.inr (Or.inr (Or.inl ⟨rfl, hf⟩))
  | noPermission sb l sn hw _ => simp only at h; injection h with h; subst h; exact Or.inr (Or.inr (Or.inr ⟨rfl, hw⟩))
  | done sb l sn _ _ _ _ => simp at h

end EupsModel.Remove
