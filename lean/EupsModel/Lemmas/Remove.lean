import EupsModel.Model.Remove
/-! Lemmas about the model of `Eups.remove` (`Model/Remove.lean`). -/
namespace EupsModel.Remove
open EupsModel EupsModel.Deps

theorem collectLoop_cons (sb : Option SetupBy) (force : Bool) (top : Str × Str) (recursive : Bool)
    (recur : Prod → Except Err (List Prod)) (q : Prod) (qs acc : List Prod) :
    collectLoop sb force top recursive recur (q :: qs) acc =
      if inUse sb top q && !force then .error .refused
      else if recursive then
        match recur q with
        | .error e => .error e
        | .ok sub => collectLoop sb force top recursive recur qs (acc ++ sub ++ [q])
      else collectLoop sb force top recursive recur qs (acc ++ [q]) := rfl

/-- the loop refuses only through its own in-use test or through a nested call -/
theorem collectLoop_not_refused (sb : Option SetupBy) (force : Bool) (top : Str × Str) (recursive : Bool)
    (recur : Prod → Except Err (List Prod))
    (hoff : sb = none ∨ force = true) (hrec : ∀ q, recur q ≠ .error .refused) :
    ∀ qs acc, collectLoop sb force top recursive recur qs acc ≠ .error .refused := by
  intro qs
  induction qs with
  | nil => intro acc; simp [collectLoop]
  | cons q qs ih =>
    intro acc
    have hin : (inUse sb top q && !force) = false := by
      rcases hoff with h | h
      · subst h; simp [inUse]
      · subst h; simp
    rw [collectLoop_cons, hin]
    simp only [Bool.false_eq_true, if_false]
    cases recursive with
    | false => simpa using ih _
    | true =>
      simp only [if_true]
      cases hq : recur q with
      | error e =>
        simp only
        intro h; injection h with h; subst h; exact hrec q hq
      | ok sub => simpa using ih _

theorem collect_not_refused (db : Db) (sb : Option SetupBy) (force : Bool) (dn : Option Str) (top : Str × Str)
    (hoff : sb = none ∨ force = true) :
    ∀ f name ver recursive, collect db sb force dn top f name ver recursive ≠ .error .refused := by
  intro f
  induction f with
  | zero => intro name ver recursive; simp [collect]
  | succ k ih =>
    intro name ver recursive
    unfold collect
    split
    · simp
    · split
      · simp
      · split
        · simp
        · exact collectLoop_not_refused sb force top recursive _ hoff (fun q => ih _ _ _) _ _

/-- every product the loop returns passed the in-use test (when the test is on and force is off) -/
theorem collectLoop_checked (sb : SetupBy) (top : Str × Str) (recursive : Bool)
    (recur : Prod → Except Err (List Prod))
    (hrec : ∀ q l, recur q = .ok l → ∀ p ∈ l, inUse (some sb) top p = false) :
    ∀ qs acc l, (∀ p ∈ acc, inUse (some sb) top p = false) →
      collectLoop (some sb) false top recursive recur qs acc = .ok l →
      ∀ p ∈ l, inUse (some sb) top p = false := by
  intro qs
  induction qs with
  | nil => intro acc l hacc h; simp [collectLoop] at h; subst h; exact hacc
  | cons q qs ih =>
    intro acc l hacc h
    rw [collectLoop_cons] at h
    cases hu : inUse (some sb) top q with
    | true => simp [hu] at h
    | false =>
      simp only [hu, Bool.false_and, Bool.false_eq_true, if_false] at h
      cases recursive with
      | false =>
        simp only [Bool.false_eq_true, if_false] at h
        apply ih _ _ _ h
        intro p hp; simp only [List.mem_append, List.mem_singleton] at hp
        rcases hp with hp | hp
        · exact hacc p hp
        · subst hp; exact hu
      | true =>
        simp only [if_true] at h
        cases hq : recur q with
        | error e => simp [hq] at h
        | ok sub =>
          simp only [hq] at h
          apply ih _ _ _ h
          intro p hp; simp only [List.mem_append, List.mem_singleton] at hp
          rcases hp with (hp | hp) | hp
          · exact hacc p hp
          · exact hrec q sub hq p hp
          · subst hp; exact hu

theorem collect_checked (db : Db) (sb : SetupBy) (dn : Option Str) (top : Str × Str) :
    ∀ f name ver recursive l, collect db (some sb) false dn top f name ver recursive = .ok l →
      ∀ p ∈ l, inUse (some sb) top p = false := by
  intro f
  induction f with
  | zero => intro name ver recursive l h; simp [collect] at h
  | succ k ih =>
    intro name ver recursive l h
    unfold collect at h
    split at h
    · simp at h; subst h; simp
    · split at h
      · simp at h
      · split at h
        · simp at h
        · exact collectLoop_checked sb top recursive _ (fun q l' hq => ih _ _ _ l' hq) _ [] l (by simp) h

theorem mem_uniqProds (l : List Prod) (p : Prod) : p ∈ uniqProds l ↔ p ∈ l := by
  unfold uniqProds
  induction l with
  | nil => simp [Topo.dedup]
  | cons x xs ih =>
    simp only [Topo.dedup, List.mem_cons, List.mem_filter, ih]
    by_cases h : p = x <;> simp [h]

/-- a non-recursive `_remove` collects the product and nothing else -/
theorem collect_nonrecursive (db : Db) (sb : Option SetupBy) (force : Bool) (dn : Option Str) (top : Str × Str)
    (f : Nat) (name : Str) (ver : Option Str) (l : List Prod)
    (h : collect db sb force dn top f name ver false = .ok l) :
    l = [] ∧ dn = some name ∨ ∃ p, db.find name ver = some p ∧ l = [p] := by
  cases f with
  | zero => simp [collect] at h
  | succ k =>
    unfold collect at h
    split at h
    · rename_i hd; simp at h; left; exact ⟨h, by simpa using hd⟩
    · split at h
      · simp at h
      · rename_i p hp
        simp only [directDeps, Bool.false_eq_true, if_false] at h
        right; refine ⟨p, hp, ?_⟩
        rw [collectLoop_cons] at h
        split at h
        · simp at h
        · simp [collectLoop] at h; exact h.symm

/-- every product the loop was given ends up in its result -/
theorem collectLoop_contains (sb : Option SetupBy) (force : Bool) (top : Str × Str) (recursive : Bool)
    (recur : Prod → Except Err (List Prod)) :
    ∀ qs acc l, collectLoop sb force top recursive recur qs acc = .ok l →
      (∀ p ∈ acc, p ∈ l) ∧ ∀ q ∈ qs, q ∈ l := by
  intro qs
  induction qs with
  | nil => intro acc l h; simp [collectLoop] at h; subst h; exact ⟨fun _ h => h, by simp⟩
  | cons q qs ih =>
    intro acc l h
    rw [collectLoop_cons] at h
    split at h
    · simp at h
    · split at h
      · cases hq : recur q with
        | error e => simp [hq] at h
        | ok sub =>
          simp only [hq] at h
          obtain ⟨h1, h2⟩ := ih _ _ h
          refine ⟨fun p hp => h1 p (by simp [hp]), ?_⟩
          intro x hx
          simp only [List.mem_cons] at hx
          rcases hx with rfl | hx
          · exact h1 _ (by simp)
          · exact h2 x hx
      · obtain ⟨h1, h2⟩ := ih _ _ h
        refine ⟨fun p hp => h1 p (by simp [hp]), ?_⟩
        intro x hx
        simp only [List.mem_cons] at hx
        rcases hx with rfl | hx
        · exact h1 _ (by simp)
        · exact h2 x hx

/-- a successful `_remove` of a product other than the default product collects that product -/
theorem collect_contains_self (db : Db) (sb : Option SetupBy) (force : Bool) (dn : Option Str) (top : Str × Str)
    (f : Nat) (name : Str) (ver : Option Str) (recursive : Bool) (l : List Prod)
    (h : collect db sb force dn top f name ver recursive = .ok l) (hd : dn ≠ some name) :
    ∃ p, db.find name ver = some p ∧ p ∈ l := by
  cases f with
  | zero => simp [collect] at h
  | succ k =>
    unfold collect at h
    split at h
    · rename_i hdn; exact absurd (by simpa using hdn) hd
    · split at h
      · simp at h
      · rename_i p hp
        split at h
        · simp at h
        · rename_i deps hdeps
          refine ⟨p, hp, ?_⟩
          have hmem : p ∈ deps := by
            unfold directDeps at hdeps
            split at hdeps
            · cases hx : depsOf db db.fuel [] p false 0 St.empty with
              | none => simp [hx] at hdeps
              | some r => simp [hx] at hdeps; rw [← hdeps]; simp
            · simp at hdeps; rw [← hdeps]; simp
          exact (collectLoop_contains _ _ _ _ _ _ _ _ h).2 p hmem

end EupsModel.Remove
