import EupsModel.Lemmas.LockEx
/-! C09 — "released locks leave no residue", for EVERY configuration (shared and exclusive requests, re-entry,
retries) and EVERY schedule, the racy ones included.

Invariant: every lock file belongs to a process whose program counter says it has one (and conversely); files
exist only inside an existing directory; and while the directory exists some process is *responsible* for it
(`inside`: it will either remove the directory or see somebody else's file, whose owner is then responsible). -/
namespace EupsModel.Lock

structure ResInv (s : St) : Prop where
  owned : ∀ k j, (k, j) ∈ s.files → hasFile (s.pc j) = true ∧ s.kind j = k
  has   : ∀ j, hasFile (s.pc j) = true → (s.kind j, j) ∈ s.files
  inDir : s.files ≠ [] → s.dir = true
  resp  : s.dir = true → ∃ i, inside (s.pc i) = true

theorem resInv_init (kind : Pid → Kind) (lp : Pid → Option Pid) (tries : Pid → Nat) :
    ResInv (init kind lp tries) := by
  constructor <;> simp [init, hasFile]

namespace ResInv
variable {s : St}

/-- a file's owner, when the file set is not empty -/
theorem owner_of_ne_nil (h : ResInv s) (hf : s.files ≠ []) : ∃ j, hasFile (s.pc j) = true := by
  cases hfs : s.files with
  | nil => exact absurd hfs hf
  | cons x xs =>
    have := h.owned x.1 x.2 (by rw [hfs]; simp)
    exact ⟨x.2, this.1⟩

/-- `i` has no file when its program counter says so -/
theorem not_mem_of_noFile (h : ResInv s) {i : Pid} (hi : hasFile (s.pc i) = false) (k : Kind) :
    (k, i) ∉ s.files := by
  intro hm
  have := (h.owned k i hm).1
  rw [hi] at this; exact absurd this (by simp)

/-- `i` moves between two program counters without a file; directory and files untouched; either the new one is
responsible, or the old one was not, or there is a file (whose owner is responsible). -/
theorem move (h : ResInv s) (i : Pid) (v : PC) (hp : hasFile (s.pc i) = false) (hv : hasFile v = false)
    (hr : inside v = true ∨ inside (s.pc i) = false ∨ s.files ≠ [] ∨ s.dir = false) :
    ResInv (setPC s i v) := by
  refine ⟨?_, ?_, ?_, ?_⟩
  · intro k j hm
    have hm' : (k, j) ∈ s.files := hm
    have hji : j ≠ i := by intro e; subst e; exact h.not_mem_of_noFile hp k hm'
    simpa [setPC, upd, hji] using h.owned k j hm'
  · intro j hj
    by_cases hji : j = i
    · subst hji; simp [setPC, hv] at hj
    · simp [setPC, upd, hji] at hj; exact h.has j hj
  · exact h.inDir
  · intro hd
    have hd' : s.dir = true := hd
    rcases hr with hr | hr | hr | hr
    · exact ⟨i, by simpa [setPC] using hr⟩
    · obtain ⟨j, hj⟩ := h.resp hd'
      have hji : j ≠ i := by intro e; subst e; rw [hr] at hj; exact absurd hj (by simp)
      exact ⟨j, by simpa [setPC, upd, hji] using hj⟩
    · obtain ⟨j, hj⟩ := h.owner_of_ne_nil hr
      have hji : j ≠ i := by intro e; subst e; rw [hp] at hj; exact absurd hj (by simp)
      exact ⟨j, by simpa [setPC, upd, hji] using hasFile_inside hj⟩
    · rw [hr] at hd'; exact absurd hd' (by simp)

/-- `i` moves between two program counters that both have the file -/
theorem moveWithFile (h : ResInv s) (i : Pid) (v : PC) (hp : hasFile (s.pc i) = true) (hv : hasFile v = true) :
    ResInv (setPC s i v) := by
  refine ⟨?_, ?_, h.inDir, ?_⟩
  · intro k j hm
    have hm' : (k, j) ∈ s.files := hm
    by_cases hji : j = i
    · subst hji; simpa [setPC, hv] using (h.owned k j hm').2
    · simpa [setPC, upd, hji] using h.owned k j hm'
  · intro j hj
    by_cases hji : j = i
    · subst hji; exact h.has j hp
    · simp [setPC, upd, hji] at hj; exact h.has j hj
  · intro _; exact ⟨i, by simpa [setPC] using hasFile_inside hv⟩

theorem dir_of_hasFile (h : ResInv s) {i : Pid} (hp : hasFile (s.pc i) = true) : s.dir = true :=
  h.inDir (by intro e; have := h.has i hp; rw [e] at this; simp at this)

end ResInv

theorem resInv_step (s : St) (i : Pid) (h : ResInv s) : ResInv (step s i) := by
  cases hpc : s.pc i with
  | mkdir left =>
    have hp : hasFile (s.pc i) = false := by simp [hpc, hasFile]
    rw [step_mkdir hpc]
    by_cases hd : s.dir = true
    · simp only [hd, if_true]
      split
      · exact h.move i _ hp rfl (Or.inr (Or.inl (by simp [hpc, inside])))
      · exact h.move i _ hp rfl (Or.inr (Or.inl (by simp [hpc, inside])))
    · have hd' : s.dir = false := by simpa using hd
      simp only [hd', Bool.false_eq_true, if_false]
      have hfs : s.files = [] := by
        cases hfs : s.files with
        | nil => rfl
        | cons x xs => exact absurd (h.inDir (by simp [hfs])) hd
      refine ⟨?_, ?_, ?_, ?_⟩
      · intro k j hm; simp [hfs] at hm
      · intro j hj
        by_cases hji : j = i
        · subst hji; simp [hasFile] at hj
        · simp [upd, hji] at hj; exact h.has j hj
      · intro _; rfl
      · intro _; exact ⟨i, by simp [inside]⟩
  | scanAll left =>
    have hp : hasFile (s.pc i) = false := by simp [hpc, hasFile]
    rw [step_scanAll hpc]
    split
    · exact h.move i _ hp rfl (Or.inl rfl)
    · exact h.move i _ hp rfl (Or.inr (Or.inl (by simp [hpc, inside])))
  | scanMsg left =>
    have hp : hasFile (s.pc i) = false := by simp [hpc, hasFile]
    cases left with
    | zero => rw [step_scanMsg_zero hpc]; exact h.move i _ hp rfl (Or.inr (Or.inl (by simp [hpc, inside])))
    | succ n => rw [step_scanMsg_succ hpc]; exact h.move i _ hp rfl (Or.inr (Or.inl (by simp [hpc, inside])))
  | existsChk =>
    have hp : hasFile (s.pc i) = false := by simp [hpc, hasFile]
    rw [step_existsChk hpc]
    split
    · exact h.move i _ hp rfl (Or.inl rfl)
    · exact h.move i _ hp rfl (Or.inr (Or.inl (by simp [hpc, inside])))
  | scan =>
    have hp : hasFile (s.pc i) = false := by simp [hpc, hasFile]
    rw [step_scan hpc]
    split
    · exact h.move i _ hp rfl (Or.inl rfl)
    · rename_i h0
      have hne : s.files ≠ [] := by
        intro e; apply h0; simp [e, exFiles]
      split
      · exact h.move i _ hp rfl (Or.inr (Or.inr (Or.inl hne)))
      · exact h.move i _ hp rfl (Or.inr (Or.inr (Or.inl hne)))
  | scan2 =>
    have hp : hasFile (s.pc i) = false := by simp [hpc, hasFile]
    rw [step_scan2 hpc]
    split
    · exact h.move i _ hp rfl (Or.inr (Or.inl (by simp [hpc, inside])))
    · split
      · exact h.move i _ hp rfl (Or.inl rfl)
      · exact h.move i _ hp rfl (Or.inr (Or.inl (by simp [hpc, inside])))
  | create =>
    have hp : hasFile (s.pc i) = false := by simp [hpc, hasFile]
    rw [step_create hpc]
    by_cases hd : s.dir = true
    · simp only [hd, if_true]
      have hnm : (s.kind i, i) ∉ s.files := h.not_mem_of_noFile hp _
      have hc : s.files.contains (s.kind i, i) = false := by
        cases hcc : s.files.contains (s.kind i, i) with
        | false => rfl
        | true => exact absurd (List.contains_iff_mem.mp hcc) hnm
      simp only [hc, Bool.false_eq_true, if_false]
      refine ⟨?_, ?_, ?_, ?_⟩
      · intro k j hm
        simp only [List.mem_cons] at hm
        rcases hm with hm | hm
        · simp only [Prod.mk.injEq] at hm
          obtain ⟨rfl, rfl⟩ := hm
          simp [hasFile]
        · have hji : j ≠ i := by intro e; subst e; exact h.not_mem_of_noFile hp k hm
          simpa [upd, hji] using h.owned k j hm
      · intro j hj
        by_cases hji : j = i
        · subst hji; simp
        · simp [upd, hji] at hj
          exact List.mem_cons_of_mem _ (h.has j hj)
      · intro _; rfl
      · intro _; exact ⟨i, by simp [inside]⟩
    · have hd' : s.dir = false := by simpa using hd
      simp only [hd', Bool.false_eq_true, if_false]
      exact h.move i _ hp rfl (Or.inr (Or.inr (Or.inr hd')))
  | hold =>
    rw [step_hold hpc]
    exact h.moveWithFile i _ (by simp [hpc, hasFile]) rfl
  | unlocked =>
    rw [step_unlocked hpc]
    exact h.move i _ (by simp [hpc, hasFile]) rfl (Or.inr (Or.inl (by simp [hpc, inside])))
  | isdir =>
    have hp : hasFile (s.pc i) = true := by simp [hpc, hasFile]
    rw [step_isdir hpc]
    simp only [h.dir_of_hasFile hp, if_true]
    exact h.moveWithFile i _ hp rfl
  | rexists =>
    have hp : hasFile (s.pc i) = true := by simp [hpc, hasFile]
    rw [step_rexists hpc]
    have hc : s.files.contains (s.kind i, i) = true := List.contains_iff_mem.mpr (h.has i hp)
    simp only [hc, if_true]
    exact h.moveWithFile i _ hp rfl
  | remove =>
    have hp : hasFile (s.pc i) = true := by simp [hpc, hasFile]
    have hd : s.dir = true := h.dir_of_hasFile hp
    rw [step_remove hpc]
    have hc : s.files.contains (s.kind i, i) = true := List.contains_iff_mem.mpr (h.has i hp)
    simp only [hc, if_true]
    refine ⟨?_, ?_, ?_, ?_⟩
    · intro k j hm
      simp only [List.mem_filter] at hm
      obtain ⟨hm, hne⟩ := hm
      have hji : j ≠ i := by
        intro e; subst e
        have := (h.owned k j hm).2
        rw [this] at hne; simp at hne
      simpa [upd, hji] using h.owned k j hm
    · intro j hj
      by_cases hji : j = i
      · subst hji; simp [hasFile] at hj
      · simp [upd, hji] at hj
        simp only [List.mem_filter]
        exact ⟨h.has j hj, by simp [hji]⟩
    · intro _; exact hd
    · intro _; exact ⟨i, by simp [inside]⟩
  | count =>
    have hp : hasFile (s.pc i) = false := by simp [hpc, hasFile]
    rw [step_count hpc]
    by_cases hd : s.dir = true
    · simp only [hd, if_true]
      split
      · exact h.move i _ hp rfl (Or.inl rfl)
      · rename_i he
        exact h.move i _ hp rfl (Or.inr (Or.inr (Or.inl (by intro e; simp [e] at he))))
    · have hd' : s.dir = false := by simpa using hd
      simp only [hd', Bool.false_eq_true, if_false]
      exact h.move i _ hp rfl (Or.inr (Or.inr (Or.inr hd')))
  | rmdir =>
    have hp : hasFile (s.pc i) = false := by simp [hpc, hasFile]
    rw [step_rmdir hpc]
    by_cases hd : s.dir = true
    · simp only [hd, if_true]
      split
      · rename_i he
        have hfs : s.files = [] := by simpa using he
        refine ⟨?_, ?_, ?_, ?_⟩
        · intro k j hm; simp [hfs] at hm
        · intro j hj
          by_cases hji : j = i
          · subst hji; simp [hasFile] at hj
          · simp [upd, hji] at hj; have := h.has j hj; simp [hfs] at this
        · intro hne; exact absurd hfs hne
        · intro hd2; simp at hd2
      · rename_i he
        exact h.move i _ hp rfl (Or.inr (Or.inr (Or.inl (by intro e; simp [e] at he))))
    · have hd' : s.dir = false := by simpa using hd
      simp only [hd', Bool.false_eq_true, if_false]
      exact h.move i _ hp rfl (Or.inr (Or.inr (Or.inr hd')))
  | done => rw [step_done hpc]; exact h
  | failedAcq e => rw [step_failedAcq hpc]; exact h
  | failedRel e => rw [step_failedRel hpc]; exact h

theorem resInv_run (s : St) (h : ResInv s) (sched : List Pid) : ResInv (run s sched) := by
  induction sched generalizing s with
  | nil => simpa using h
  | cons i rest ih => simpa using ih (step s i) (resInv_step s i h)

theorem inside_engaged {p : PC} (h : inside p = true) : engaged p = true := by
  cases p <;> simp_all [inside, engaged]

/-- Nobody engaged ⇒ no directory, no files. -/
theorem ResInv.clean {s : St} (h : ResInv s) (hq : ∀ i, engaged (s.pc i) = false) :
    s.dir = false ∧ s.files = [] := by
  have hd : s.dir = false := by
    cases hd : s.dir with
    | false => rfl
    | true =>
      obtain ⟨i, hi⟩ := h.resp hd
      have := inside_engaged hi
      rw [hq i] at this; exact absurd this (by simp)
  refine ⟨hd, ?_⟩
  cases hfs : s.files with
  | nil => rfl
  | cons x xs => have := h.inDir (by simp [hfs]); rw [hd] at this; exact absurd this (by simp)

end EupsModel.Lock
