import EupsModel.Model.Cache
import EupsModel.Lemmas.Db
/-! Helper lemmas about `Model/Cache.lean`: what a command of a history does to the database is the replay
of a sublist of the trace the command emits (crashes cut it, `Database` calls that find nothing to write
are skipped); loading the caches does not change the database. -/
namespace EupsModel.Cache
open EupsModel.Db

/-! ## loading leaves the database alone -/

theorem saveAll_db (u : User) (s : Nat) (m : Spec) (fs : List Flav) (w : World) :
    (saveAll u s m fs w).db = w.db ∧ (saveAll u s m fs w).dirs = w.dirs ∧ (saveAll u s m fs w).nst = w.nst ∧
      (saveAll u s m fs w).touch = w.touch ∧ (saveAll u s m fs w).extras = w.extras := by
  induction fs generalizing w with
  | nil => exact ⟨rfl, rfl, rfl, rfl, rfl⟩
  | cons f fs ih => simp only [saveAll]; exact ih _

theorem loadStack_db (w : World) (u : User) (self : Flav) (s : Nat) :
    (loadStack w u self s).w.db = w.db ∧ (loadStack w u self s).w.dirs = w.dirs ∧
      (loadStack w u self s).w.nst = w.nst ∧ (loadStack w u self s).w.touch = w.touch ∧
      (loadStack w u self s).w.extras = w.extras := by
  unfold loadStack
  split
  · exact ⟨rfl, rfl, rfl, rfl, rfl⟩
  · split
    · exact ⟨rfl, rfl, rfl, rfl, rfl⟩
    · exact saveAll_db _ _ _ _ _

theorem loadFrom_db (u : User) (self : Flav) (ss : List Nat) (m : Spec) (fl : List (Nat × List Flav)) (w : World) :
    (loadFrom u self ss m fl w).2.2.db = w.db ∧ (loadFrom u self ss m fl w).2.2.dirs = w.dirs ∧
      (loadFrom u self ss m fl w).2.2.nst = w.nst ∧ (loadFrom u self ss m fl w).2.2.touch = w.touch ∧
      (loadFrom u self ss m fl w).2.2.extras = w.extras := by
  induction ss generalizing m fl w with
  | nil => exact ⟨rfl, rfl, rfl, rfl, rfl⟩
  | cons s ss ih =>
    simp only [loadFrom]
    obtain ⟨h1, h2, h3, h4, h5⟩ := ih (specUnion m (loadStack w u self s).view) (fl ++ [(s, (loadStack w u self s).flavs)])
      (loadStack w u self s).w
    obtain ⟨k1, k2, k3, k4, k5⟩ := loadStack_db w u self s
    exact ⟨h1.trans k1, h2.trans k2, h3.trans k3, h4.trans k4, h5.trans k5⟩

theorem load_db (w : World) (u : User) (self : Flav) :
    (load w u self).2.2.db = w.db ∧ (load w u self).2.2.dirs = w.dirs ∧ (load w u self).2.2.nst = w.nst :=
  let h := loadFrom_db u self (allStacks w.nst) Spec.empty [] w
  ⟨h.1, h.2.1, h.2.2.1⟩

theorem load_touch (w : World) (u : User) (self : Flav) : (load w u self).2.2.touch = w.touch :=
  (loadFrom_db u self (allStacks w.nst) Spec.empty [] w).2.2.2.1

theorem load_extras (w : World) (u : User) (self : Flav) : (load w u self).2.2.extras = w.extras :=
  (loadFrom_db u self (allStacks w.nst) Spec.empty [] w).2.2.2.2

/-! ## the database after a trace -/

theorem applyDbW_db (w : World) (e : Eff) : (applyDbW w e).db = w.db ∨ (applyDbW w e).db = applyDb e w.db := by
  unfold applyDbW
  split
  · exact Or.inl rfl
  · dsimp only
    split
    · exact Or.inr rfl
    · exact Or.inl rfl

theorem applyDbW_dirs (w : World) (e : Eff) : (applyDbW w e).dirs = w.dirs ∧ (applyDbW w e).nst = w.nst := by
  unfold applyDbW
  split
  · exact ⟨rfl, rfl⟩
  · dsimp only
    split <;> exact ⟨rfl, rfl⟩

theorem applySaveW_db (u : User) (held : Nat → List Flav) (w : World) (m m' : Spec) (e : Eff) :
    (applySaveW u held w m m' e).db = w.db ∧ (applySaveW u held w m m' e).touch = w.touch := by
  unfold applySaveW
  split
  · exact ⟨rfl, rfl⟩
  · exact ⟨rfl, rfl⟩
  · split
    · exact ⟨rfl, rfl⟩
    · rename_i s _ _
      have := saveAll_db u s m' (held s) w
      exact ⟨this.1, this.2.2.2.1⟩

theorem applyW_db (fixed : Bool) (u : User) (held : Nat → List Flav) (wm : World × Spec) (e : Eff) :
    (applyW fixed u held wm e).1.db = wm.1.db ∨ (applyW fixed u held wm e).1.db = applyDb e wm.1.db := by
  unfold applyW
  dsimp only
  rw [(applySaveW_db _ _ _ _ _ _).1]
  exact applyDbW_db _ _

/-- the database after the effects `es` is the replay of a sublist of `es` -/
theorem foldl_applyW_db (fixed : Bool) (u : User) (held : Nat → List Flav) (es : List Eff) (wm : World × Spec) :
    ∃ es' : List Eff, es'.Sublist es ∧
      (es.foldl (applyW fixed u held) wm).1.db = es'.foldl (fun c e => applyDb e c) wm.1.db := by
  induction es generalizing wm with
  | nil => exact ⟨[], List.Sublist.refl _, rfl⟩
  | cons e es ih =>
    obtain ⟨es', hs, he⟩ := ih (applyW fixed u held wm e)
    rcases applyW_db fixed u held wm e with h | h
    · exact ⟨es', hs.cons e, by simp only [List.foldl_cons]; rw [he, h]⟩
    · exact ⟨e :: es', hs.cons_cons e, by simp only [List.foldl_cons]; rw [he, h]⟩

theorem cutAfterDb_sublist (es : List Eff) (k : Nat) :
    ((cutAfterDb es k).1 ++ (cutAfterDb es k).2.toList).Sublist es := by
  induction es generalizing k with
  | nil => cases k <;> exact List.Sublist.refl _
  | cons e es ih =>
    cases k with
    | zero => exact List.nil_sublist _
    | succ k =>
      simp only [cutAfterDb]
      split
      · split
        · simpa using (List.nil_sublist es).cons_cons e
        · simpa using (ih k).cons_cons e
      · simpa using (ih (k + 1)).cons_cons e

theorem cutBeforeDb_sublist (es : List Eff) (j : Nat) : (cutBeforeDb es j).Sublist es := by
  induction es generalizing j with
  | nil => cases j <;> exact List.Sublist.refl _
  | cons e es ih =>
    cases j with
    | zero => exact List.nil_sublist _
    | succ j =>
      simp only [cutBeforeDb]
      split
      · split
        · exact List.nil_sublist _
        · exact (ih j).cons_cons e
      · exact (ih (j + 1)).cons_cons e

theorem cutAt_sublist (es : List Eff) (k : Nat) : ((cutAt es k).1 ++ (cutAt es k).2.toList).Sublist es := by
  unfold cutAt
  split
  · exact cutAfterDb_sublist es k
  · simpa using cutBeforeDb_sublist es (k - killBase)

theorem cutAt_nil (k : Nat) : cutAt [] k = ([], none) := by
  unfold cutAt
  split
  · cases k <;> rfl
  · cases (k - killBase) <;> rfl

/-- the database after a (possibly cut) replay is the replay of a sublist of the effects -/
theorem replay_db (fixed : Bool) (u : User) (held : Nat → List Flav) (wm : World × Spec) (es : List Eff)
    (last : Option Eff) :
    ∃ es' : List Eff, es'.Sublist (es ++ last.toList) ∧
      (replay fixed u held wm es last).db = es'.foldl (fun c e => applyDb e c) wm.1.db := by
  obtain ⟨es', hs, he⟩ := foldl_applyW_db fixed u held es wm
  unfold replay
  cases last with
  | none => exact ⟨es', by simpa using hs, he⟩
  | some e =>
    dsimp only
    rcases applyDbW_db (es.foldl (applyW fixed u held) wm).1 e with h | h
    · exact ⟨es', (hs.trans (List.sublist_append_left _ _)), by rw [h, he]⟩
    · refine ⟨es' ++ [e], ?_, by rw [h, he]; simp [List.foldl_append]⟩
      simpa using List.Sublist.append hs (List.Sublist.refl [e])

/-- The database after a command of a history: the replay of a sublist of the trace the command emits from
the view it loaded. -/
theorem step_db (fixed : Bool) (w : World) (u : User) (c : Cmd) (crash : Option Nat) :
    ∃ (m : Spec) (dirs : List DirEnt) (ex : List Extra) (es : List Eff),
      es.Sublist (run w.nst c ⟨w.db, m, dirs, [], ex, w.tfiles⟩).2.tr ∧
      (stepG fixed w (.run u c crash)).w.db = es.foldl (fun c e => applyDb e c) w.db := by
  simp only [stepG]
  obtain ⟨hdb, hdirs, _⟩ := load_db w u c.self
  generalize load w u c.self = l at hdb hdirs
  obtain ⟨m, fl, w1⟩ := l
  dsimp only at hdb hdirs ⊢
  refine ⟨m, w1.dirs, w1.extras, ?_⟩
  rw [hdb]
  cases crash with
  | none =>
    obtain ⟨es', hs, he⟩ := replay_db fixed u (heldOf fl) (w1, m) (run w.nst c ⟨w.db, m, w1.dirs, [], w1.extras, w.tfiles⟩).2.tr none
    exact ⟨es', by simpa using hs, by rw [he, hdb]⟩
  | some k =>
    obtain ⟨es', hs, he⟩ := replay_db fixed u (heldOf fl) (w1, m) (cutAt (run w.nst c ⟨w.db, m, w1.dirs, [], w1.extras, w.tfiles⟩).2.tr k).1
      (cutAt (run w.nst c ⟨w.db, m, w1.dirs, [], w1.extras, w.tfiles⟩).2.tr k).2
    exact ⟨es', hs.trans (cutAt_sublist _ _), by rw [he, hdb]⟩

theorem step_rmCache_db (fixed : Bool) (w : World) (u : User) (s : Nat) (f : Flav) :
    (stepG fixed w (.rmCache u s f)).w.db = w.db := rfl

/-- `eups admin buildCache -A` writes cache files and nothing else -/
theorem step_adminBuild_db (fixed : Bool) (w : World) (u : User) (self : Flav) :
    (stepG fixed w (.adminBuild u self)).w.db = w.db ∧ (stepG fixed w (.adminBuild u self)).w.dirs = w.dirs ∧
      (stepG fixed w (.adminBuild u self)).w.nst = w.nst ∧ (stepG fixed w (.adminBuild u self)).w.touch = w.touch ∧
      (stepG fixed w (.adminBuild u self)).w.extras = w.extras ∧ (stepG fixed w (.adminBuild u self)).trace = [] := by
  simp only [stepG]
  obtain ⟨h1, h2, h3⟩ := load_db { w with caches := w.caches.filter fun x => x.user != u } sysUser self
  have h4 := load_touch { w with caches := w.caches.filter fun x => x.user != u } sysUser self
  have h5 := load_extras { w with caches := w.caches.filter fun x => x.user != u } sysUser self
  generalize load { w with caches := w.caches.filter fun x => x.user != u } sysUser self = l at h1 h2 h3 h4 h5
  obtain ⟨m, fl, w1⟩ := l
  exact ⟨h1, h2, h3, h4, h5, trivial⟩

/-- every property of the database that every effect preserves is preserved by every command -/
theorem step_preserves (P : Spec → Prop) (hP : ∀ c e, P c → P (applyDb e c))
    (fixed : Bool) (w : World) (c : WCmd) (h : P w.db) : P (stepG fixed w c).w.db := by
  cases c with
  | rmCache u s f => exact h
  | clearCache u => exact h
  | envRmDir d => exact h
  | adminBuild u self => rw [(step_adminBuild_db fixed w u self).1]; exact h
  | run u c crash =>
    obtain ⟨m, dirs, ex, es, -, he⟩ := step_db fixed w u c crash
    rw [he]
    clear he
    generalize w.db = d at h
    induction es generalizing d with
    | nil => exact h
    | cons e es ih => exact ih _ (hP d e h)

/-- a command that emits nothing leaves the database, its modification times and the installation
directories exactly as they were (the caches may have been rebuilt while loading) -/
theorem step_of_empty_trace (fixed : Bool) (w : World) (u : User) (c : Cmd) (crash : Option Nat)
    (h : ∀ p : Proc, p.tr = [] → (run w.nst c p).2.tr = []) :
    (stepG fixed w (.run u c crash)).w.db = w.db ∧ (stepG fixed w (.run u c crash)).w.dirs = w.dirs ∧
      (stepG fixed w (.run u c crash)).w.touch = w.touch ∧ (stepG fixed w (.run u c crash)).w.extras = w.extras := by
  simp only [stepG]
  obtain ⟨hdb, hdirs, _⟩ := load_db w u c.self
  have ht := load_touch w u c.self
  have hex := load_extras w u c.self
  generalize load w u c.self = l at hdb hdirs ht hex
  obtain ⟨m, fl, w1⟩ := l
  dsimp only at hdb hdirs ht hex ⊢
  have htr := h ⟨w1.db, m, w1.dirs, [], w1.extras, w.tfiles⟩ rfl
  rw [htr]
  cases crash with
  | none => exact ⟨hdb, hdirs, ht, hex⟩
  | some k =>
    have : cutAt [] k = ([], none) := cutAt_nil k
    dsimp only
    rw [this]
    exact ⟨hdb, hdirs, ht, hex⟩

end EupsModel.Cache
