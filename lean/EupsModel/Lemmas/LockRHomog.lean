import EupsModel.Lemmas.LockR
/-! C09, repaired protocol — no spurious refusals among requests that are compatible with each other, under EVERY
schedule: readers among themselves are never refused (`readersOnly`). -/
namespace EupsModel.LockR
open EupsModel.Lock (Pid Kind Err exFiles parentHolds)

/-- program counters a shared request goes through when it is never refused -/
def smooth : PC → Bool
  | .mkdir _ | .create _ | .look _ | .hold | .isdir .fin | .rexists .fin | .remove .fin | .rmdir .fin | .done => true
  | .failedAcq .enoent => true      -- the directory was removed under it and it had no attempt left
  | _ => false

theorem exFiles_nil_of_shared {s : St} (h : Inv s) (hk : ∀ i, s.kind i = .sh) : exFiles s.files = [] := by
  cases hx : exFiles s.files with
  | nil => rfl
  | cons a r =>
    have ha : a ∈ exFiles s.files := by rw [hx]; simp
    have ha' := List.mem_filter.1 ha
    have h1 := (h.owner a ha'.1).1
    rw [hk] at h1
    have h2 : a.1 = Kind.ex := by simpa using ha'.2
    rw [h1] at h2; cases h2

theorem smooth_step (s : St) (p : Pid) (h : Inv s) (hk : ∀ i, s.kind i = .sh) (hs : ∀ i, smooth (s.pc i) = true) :
    ∀ i, smooth ((step s p).pc i) = true := by
  intro i
  by_cases hip : i = p
  · subst hip
    have hsi := hs i
    cases hpc : s.pc i with
    | mkdir l =>
      unfold step; simp only [hpc, hk]
      split <;> simp [setPC, smooth]
    | create l =>
      unfold step; simp only [hpc]
      split
      · split <;> simp [setPC, smooth]
      · cases l <;> simp [setPC, smooth]
    | look l =>
      have hex := exFiles_nil_of_shared h hk
      simp [step, hpc, hk, lookList, hex, others, setPC, smooth]
    | hold => simp [step, hpc, setPC, smooth]
    | isdir a =>
      rw [hpc] at hsi
      cases a <;> simp [smooth] at hsi
      unfold step; simp only [hpc]
      split <;> simp [setPC, smooth, afterPC]
    | rexists a =>
      rw [hpc] at hsi
      cases a <;> simp [smooth] at hsi
      unfold step; simp only [hpc]
      split <;> simp [setPC, smooth]
    | remove a =>
      rw [hpc] at hsi
      cases a <;> simp [smooth] at hsi
      have hf : (s.kind i, i) ∈ s.files := h.own i (by simp [hpc, hasFile])
      simp [step, hpc, hf, smooth]
    | rmdir a =>
      rw [hpc] at hsi
      cases a <;> simp [smooth] at hsi
      unfold step; simp only [hpc]
      split <;> simp [setPC, smooth, afterPC]
    | done => simp [step, hpc, smooth]
    | failedAcq e => rw [hpc] at hsi; simp [step, hpc]; exact hsi
    | scanAll l => rw [hpc] at hsi; simp [smooth] at hsi
    | scanMsg l => rw [hpc] at hsi; simp [smooth] at hsi
    | lookMsg l => rw [hpc] at hsi; simp [smooth] at hsi
    | failedRel e => rw [hpc] at hsi; simp [smooth] at hsi
    | killed => rw [hpc] at hsi; simp [smooth] at hsi
  · rw [step_pc_other s p i hip]; exact hs i

theorem smooth_run (s : St) (sched : List Pid) (h : Inv s) (hk : ∀ i, s.kind i = .sh)
    (hs : ∀ i, smooth (s.pc i) = true) : ∀ i, smooth ((run s sched).pc i) = true := by
  induction sched generalizing s with
  | nil => exact hs
  | cons p r ih =>
    exact ih (step s p) (inv_step s p h) (by intro i; rw [step_kind]; exact hk i) (smooth_step s p h hk hs)

/-! ### updaters among themselves: the `mkdir` gate serialises them — nobody ever has to withdraw -/

/-- program counters an exclusive request goes through when it never has to withdraw: turned away only at the gate -/
def gated : PC → Bool
  | .lookMsg _ => false
  | .isdir a | .rexists a | .remove a | .rmdir a => a == .fin
  | .failedRel _ | .killed => false
  | _ => true

structure XInv (s : St) : Prop where
  inv   : Inv s
  uniq  : ∀ i j, engaged (s.pc i) = true → engaged (s.pc j) = true → i = j
  inDir : ∀ i, engaged (s.pc i) = true → s.dir = true
  gated : ∀ i, gated (s.pc i) = true

theorem xinv_init (kind : Pid → Kind) (lp : Pid → Option Pid) (tries : Pid → Nat) : XInv (init kind lp tries) := by
  refine ⟨inv_init kind lp tries, ?_, ?_, ?_⟩ <;> intro i <;> simp [init, engaged, gated]

theorem xinv_step (s : St) (p : Pid) (hk : ∀ i, s.kind i = .ex) (hl : ∀ i, s.lp i = none) (h : XInv s) :
    XInv (step s p) := by
  have hinv' := inv_step s p h.inv
  -- everything about the others is unchanged; so it suffices to look at p
  have frame : ∀ j, j ≠ p → (step s p).pc j = s.pc j := fun j hj => step_pc_other s p j hj
  have key : ∀ (d' : Bool), (step s p).dir = d' →
      (engaged ((step s p).pc p) = true → d' = true ∧ (engaged (s.pc p) = true ∨ s.dir = false)) →
      (d' = false → ∀ j, j ≠ p → engaged (s.pc j) = false) →
      (d' = true ∨ s.dir = false ∨ ∀ j, j ≠ p → engaged (s.pc j) = false) →
      LockR.gated ((step s p).pc p) = true → XInv (step s p) := by
    intro d' hd' hp hfalse _ hg
    refine ⟨hinv', ?_, ?_, ?_⟩
    · intro i j hi hj
      by_cases hip : i = p <;> by_cases hjp : j = p
      · rw [hip, hjp]
      · subst hip
        rw [frame j hjp] at hj
        rcases (hp hi).2 with he | hdf
        · exact h.uniq i j he hj
        · have := h.inDir j hj; rw [hdf] at this; cases this
      · subst hjp
        rw [frame i hip] at hi
        rcases (hp hj).2 with he | hdf
        · exact h.uniq i j hi he
        · have := h.inDir i hi; rw [hdf] at this; cases this
      · rw [frame i hip] at hi; rw [frame j hjp] at hj; exact h.uniq i j hi hj
    · intro i hi
      rw [hd']
      by_cases hip : i = p
      · subst hip; exact (hp hi).1
      · rw [frame i hip] at hi
        cases hdd : d' with
        | true => rfl
        | false => have := hfalse hdd i hip; rw [this] at hi; cases hi
    · intro i
      by_cases hip : i = p
      · subst hip; exact hg
      · rw [frame i hip]; exact h.gated i
  have alone : engaged (s.pc p) = true → ∀ j, j ≠ p → engaged (s.pc j) = false := by
    intro he j hj
    cases hje : engaged (s.pc j) with
    | false => rfl
    | true => exact absurd (h.uniq j p hje he) hj
  have hgp := h.gated p
  cases hpc : s.pc p with
  | mkdir l =>
    by_cases hd : s.dir = true
    · have : step s p = setPC s p (.scanAll l) := by simp [step, hpc, hd, hk]
      rw [this]; rw [this] at key
      exact key s.dir rfl (by simp [setPC, engaged]) (fun e => by rw [hd] at e; cases e) (Or.inl hd) (by simp [setPC, gated])
    · have hd' : s.dir = false := by simpa using hd
      have : step s p = { s with dir := true, files := s.files, pc := upd s.pc p (.create l) } := by
        simp [step, hpc, hd']
      rw [this]; rw [this] at key
      exact key true rfl (fun _ => ⟨rfl, Or.inr hd'⟩) (fun e => by cases e) (Or.inl rfl) (by simp [gated])
  | scanAll l =>
    have hph : parentHolds (s.lp p) s.files = false := by simp [hl, parentHolds]
    have : step s p = setPC s p (.scanMsg l) := by simp [step, hpc, hph]
    rw [this]; rw [this] at key
    exact key s.dir rfl (by simp [setPC, engaged])
      (fun e j hj => by
        cases hje : engaged (s.pc j) with
        | false => rfl
        | true => have := h.inDir j hje; rw [e] at this; cases this)
      (by cases hd : s.dir <;> simp) (by simp [setPC, gated])
  | scanMsg l =>
    have hne : ∀ d', s.dir = d' → d' = false → ∀ j, j ≠ p → engaged (s.pc j) = false := by
      intro d' hd e j hj
      cases hje : engaged (s.pc j) with
      | false => rfl
      | true => have := h.inDir j hje; rw [hd, e] at this; cases this
    cases l with
    | zero =>
      have : step s p = setPC s p (.failedAcq .runtime) := by simp [step, hpc]
      rw [this]; rw [this] at key
      exact key s.dir rfl (by simp [setPC, engaged]) (hne s.dir rfl) (by cases hd : s.dir <;> simp) (by simp [setPC, gated])
    | succ n =>
      have : step s p = setPC s p (.mkdir n) := by simp [step, hpc]
      rw [this]; rw [this] at key
      exact key s.dir rfl (by simp [setPC, engaged]) (hne s.dir rfl) (by cases hd : s.dir <;> simp) (by simp [setPC, gated])
  | create l =>
    have he : engaged (s.pc p) = true := by simp [hpc, engaged]
    have hd : s.dir = true := h.inDir p he
    have hnf : (s.kind p, p) ∉ s.files := h.inv.noFile (by simp [hpc, hasFile])
    have : step s p = { s with dir := s.dir, files := (s.kind p, p) :: s.files, pc := upd s.pc p (.look l) } := by
      simp [step, hpc, hd, hnf]
    rw [this]; rw [this] at key
    exact key s.dir rfl (fun _ => ⟨hd, Or.inl he⟩) (fun e => by rw [hd] at e; cases e) (Or.inl hd) (by simp [gated])
  | look l =>
    have he : engaged (s.pc p) = true := by simp [hpc, engaged]
    have hd : s.dir = true := h.inDir p he
    have hall : ∀ f ∈ s.files, f.2 = p := by
      intro f hf
      have := (h.inv.owner f hf).2
      exact h.uniq f.2 p (hasFile_engaged this) he
    have hoth : (others p (s.lp p) (lookList (s.kind p) s.files)).isEmpty = true := by
      simp only [hk, lookList, others]
      rw [List.isEmpty_iff]
      apply List.filter_eq_nil_iff.2
      intro f hf
      simp [hall f hf]
    have : step s p = setPC s p .hold := by simp [step, hpc, hoth]
    rw [this]; rw [this] at key
    exact key s.dir rfl (fun _ => ⟨hd, Or.inl he⟩) (fun e => by rw [hd] at e; cases e) (Or.inl hd) (by simp [setPC, gated])
  | lookMsg l => rw [hpc] at hgp; simp [gated] at hgp
  | hold =>
    have he : engaged (s.pc p) = true := by simp [hpc, engaged]
    have hd : s.dir = true := h.inDir p he
    have : step s p = setPC s p (.isdir .fin) := by simp [step, hpc]
    rw [this]; rw [this] at key
    exact key s.dir rfl (fun _ => ⟨hd, Or.inl he⟩) (fun e => by rw [hd] at e; cases e) (Or.inl hd) (by simp [setPC, gated])
  | isdir a =>
    have ha : a = .fin := by rw [hpc] at hgp; simpa [gated] using hgp
    subst ha
    have he : engaged (s.pc p) = true := by simp [hpc, engaged]
    have hd : s.dir = true := h.inDir p he
    have : step s p = setPC s p (.rexists .fin) := by simp [step, hpc, hd]
    rw [this]; rw [this] at key
    exact key s.dir rfl (fun _ => ⟨hd, Or.inl he⟩) (fun e => by rw [hd] at e; cases e) (Or.inl hd) (by simp [setPC, gated])
  | rexists a =>
    have ha : a = .fin := by rw [hpc] at hgp; simpa [gated] using hgp
    subst ha
    have he : engaged (s.pc p) = true := by simp [hpc, engaged]
    have hd : s.dir = true := h.inDir p he
    have hf : (s.kind p, p) ∈ s.files := h.inv.own p (by simp [hpc, hasFile])
    have : step s p = setPC s p (.remove .fin) := by simp [step, hpc, hf]
    rw [this]; rw [this] at key
    exact key s.dir rfl (fun _ => ⟨hd, Or.inl he⟩) (fun e => by rw [hd] at e; cases e) (Or.inl hd) (by simp [setPC, gated])
  | remove a =>
    have ha : a = .fin := by rw [hpc] at hgp; simpa [gated] using hgp
    subst ha
    have he : engaged (s.pc p) = true := by simp [hpc, engaged]
    have hd : s.dir = true := h.inDir p he
    have hf : (s.kind p, p) ∈ s.files := h.inv.own p (by simp [hpc, hasFile])
    have : step s p = { s with dir := s.dir, files := s.files.filter (· != (s.kind p, p)),
                               pc := upd s.pc p (.rmdir .fin) } := by
      simp [step, hpc, hf]
    rw [this]; rw [this] at key
    exact key s.dir rfl (fun _ => ⟨hd, Or.inl he⟩) (fun e => by rw [hd] at e; cases e) (Or.inl hd) (by simp [gated])
  | rmdir a =>
    have ha : a = .fin := by rw [hpc] at hgp; simpa [gated] using hgp
    subst ha
    have he : engaged (s.pc p) = true := by simp [hpc, engaged]
    have hd : s.dir = true := h.inDir p he
    by_cases hc : (s.dir && s.files.isEmpty) = true
    · have : step s p = { s with dir := false, files := s.files, pc := upd s.pc p (afterPC .fin) } := by
        simp [step, hpc, hc]
      rw [this]; rw [this] at key
      exact key false rfl (by simp [afterPC, engaged]) (fun _ => alone he) (Or.inr (Or.inr (alone he)))
        (by simp [afterPC, gated])
    · have : step s p = setPC s p (afterPC .fin) := by simp [step, hpc, hc]
      rw [this]; rw [this] at key
      -- the directory is not empty: somebody else's file — but p is the only one engaged
      have hne : s.files ≠ [] := by intro e; apply hc; simp [hd, e]
      obtain ⟨q, hq⟩ := h.inv.fileOwner hne
      have hqp : q = p := h.uniq q p (hasFile_engaged hq) he
      rw [hqp, hpc] at hq; simp [hasFile] at hq
  | done =>
    have : step s p = s := by simp [step, hpc]
    rw [this]; exact h
  | failedAcq e =>
    have : step s p = s := by simp [step, hpc]
    rw [this]; exact h
  | failedRel e => rw [hpc] at hgp; simp [gated] at hgp
  | killed => rw [hpc] at hgp; simp [gated] at hgp

theorem xinv_run (s : St) (sched : List Pid) (hk : ∀ i, s.kind i = .ex) (hl : ∀ i, s.lp i = none) (h : XInv s) :
    XInv (run s sched) := by
  induction sched generalizing s with
  | nil => exact h
  | cons p r ih =>
    exact ih (step s p) (by intro i; rw [step_kind]; exact hk i) (by intro i; rw [step_lp]; exact hl i)
      (xinv_step s p hk hl h)

end EupsModel.LockR
