import EupsModel.Lemmas.PathAlgMulti
import EupsModel.Lemmas.PathAlgRef
/-! The MANPATH-style flags of `envPrepend` / `envAppend` (a leading and/or trailing delimiter written around the
value asks for an empty first / last element) for literal delimiters of ANY length and values of several pieces.
Generalises `envPrepend_lifts_flags` of `Lemmas/PathAlg.lean` (one character, one piece). -/
namespace EupsModel.PathAlg

/-- the value as written in the table: optional leading / trailing delimiter around the text -/
def flaggedD (d : Str) (pre app : Bool) (v : Str) : Str := (if pre then d else []) ++ v ++ (if app then d else [])

/-- pieces of the list a variable already holds, for a delimiter string: non-empty and sharing no character with
the delimiter — they may hold `$` text (the stored list is not interpolated) -/
def OldPieceD (d : Str) (e : Str) : Prop := e ≠ [] ∧ ∀ ch ∈ d, ch ∉ e

theorem goodPieceD_old (d e : Str) (h : GoodPieceD d e) : OldPieceD d e := ⟨h.1, h.2.1⟩

theorem oldPieceD_single (c : Nat) (e : Str) : OldPieceD [c] e ↔ OldPiece c e := by
  simp [OldPieceD, OldPiece]

theorem flaggedD_single (c : Nat) (pre app : Bool) (v : Str) : flaggedD [c] pre app v = flagged c pre app v := rfl

/-! ## prefix / suffix tests -/

theorem startsWith_append_self (d s : Str) : startsWith (d ++ s) d = true :=
  isPrefixOf_append_self d s

theorem endsWith_append_self (s d : Str) : endsWith (s ++ d) d = true := by
  unfold endsWith
  rw [List.reverse_append]
  exact isPrefixOf_append_self d.reverse s.reverse

/-- a string whose first character is not in the (non-empty) delimiter does not start with it -/
theorem startsWith_cons_not_mem (d : Str) (hd : d ≠ []) (x : Nat) (post : Str) (hx : x ∉ d) :
    startsWith (x :: post) d = false := by
  cases d with
  | nil => exact absurd rfl hd
  | cons c ds => exact isPrefixOf_head_ne c x ds post (fun e => hx (by simp [e]))

/-- a string whose last character is not in the (non-empty) delimiter does not end with it -/
theorem endsWith_snoc_not_mem (d : Str) (hd : d ≠ []) (p : Str) (x : Nat) (hx : x ∉ d) :
    endsWith (p ++ [x]) d = false := by
  have hdr : d.reverse ≠ [] := by simpa using hd
  have hxr : x ∉ d.reverse := by simpa using hx
  have := startsWith_cons_not_mem d.reverse hdr x p.reverse hxr
  simpa [endsWith, startsWith] using this

/-! ## joins of delimiter-free pieces (no condition on `$`) -/

theorem split_join_filter_oldD (d : Str) (hd : d ≠ []) (l : List Str) (h : ∀ e ∈ l, OldPieceD d e) :
    (split d (join d l)).filter (fun el => decide (el ≠ [])) = l := by
  cases l with
  | nil => simp [join, split_nil]
  | cons a rest =>
    cases d with
    | nil => exact absurd rfl hd
    | cons c ds =>
      rw [split_join_multi c ds _ (by simp) (fun e he => (h e he).2 c (by simp))]
      apply List.filter_eq_self.mpr
      intro e he
      simpa using (h e he).1

theorem head_join_oldD (d : Str) (l : List Str) (hne : l ≠ []) (h : ∀ e ∈ l, OldPieceD d e) :
    ∃ x post, join d l = x :: post ∧ x ∉ d := by
  cases l with
  | nil => exact absurd rfl hne
  | cons a rest =>
    obtain ⟨hane, hac⟩ := h a (by simp)
    cases a with
    | nil => exact absurd rfl hane
    | cons x xs =>
      have hx : x ∉ d := fun hm => hac x hm (by simp)
      cases rest with
      | nil => exact ⟨x, xs, by simp [join], hx⟩
      | cons b r => exact ⟨x, xs ++ d ++ join d (b :: r), by simp [join], hx⟩

theorem getLast_join_oldD (d : Str) (l : List Str) (hne : l ≠ []) (h : ∀ e ∈ l, OldPieceD d e) :
    ∃ pre x, join d l = pre ++ [x] ∧ x ∉ d := by
  induction l with
  | nil => exact absurd rfl hne
  | cons a rest ih =>
    cases rest with
    | nil =>
      have ha := h a (by simp)
      refine ⟨a.dropLast, a.getLast ha.1, ?_, ?_⟩
      · simp [join, List.dropLast_concat_getLast]
      · intro hm; exact ha.2 _ hm (List.getLast_mem ha.1)
    | cons b r =>
      obtain ⟨pre, x, hp, hx⟩ := ih (by simp) (fun e he => h e (by simp [he]))
      refine ⟨a ++ d ++ pre, x, ?_, hx⟩
      rw [join_cons_ne_multi d a (b :: r) (by simp), hp]; simp

theorem join_ne_nil_oldD (d : Str) (l : List Str) (hne : l ≠ []) (h : ∀ e ∈ l, OldPieceD d e) :
    join d l ≠ [] := by
  obtain ⟨x, post, hp, _⟩ := head_join_oldD d l hne h
  rw [hp]; simp

theorem startsWith_join_oldD (d : Str) (hd : d ≠ []) (l : List Str) (hne : l ≠ [])
    (h : ∀ e ∈ l, OldPieceD d e) : startsWith (join d l) d = false := by
  obtain ⟨x, post, hp, hx⟩ := head_join_oldD d l hne h
  rw [hp]; exact startsWith_cons_not_mem d hd x post hx

theorem endsWith_join_oldD (d : Str) (hd : d ≠ []) (l : List Str) (hne : l ≠ [])
    (h : ∀ e ∈ l, OldPieceD d e) : endsWith (join d l) d = false := by
  obtain ⟨p, x, hp, hx⟩ := getLast_join_oldD d l hne h
  rw [hp]; exact endsWith_snoc_not_mem d hd p x hx

/-- with the leading delimiter attached the string still does not END with the delimiter -/
theorem endsWith_delim_join_oldD (d : Str) (hd : d ≠ []) (l : List Str) (hne : l ≠ [])
    (h : ∀ e ∈ l, OldPieceD d e) : endsWith (d ++ join d l) d = false := by
  obtain ⟨p, x, hp, hx⟩ := getLast_join_oldD d l hne h
  rw [hp, ← List.append_assoc]; exact endsWith_snoc_not_mem d hd (d ++ p) x hx

/-- with the trailing delimiter attached the string still does not START with the delimiter -/
theorem startsWith_join_delim_oldD (d : Str) (hd : d ≠ []) (l : List Str) (hne : l ≠ [])
    (h : ∀ e ∈ l, OldPieceD d e) : startsWith (join d l ++ d) d = false := by
  obtain ⟨x, post, hp, hx⟩ := head_join_oldD d l hne h
  rw [hp, List.cons_append]; exact startsWith_cons_not_mem d hd x (post ++ d) hx

/-! ## "the value starts (ends) with the delimiter iff a leading (trailing) one was written" -/

theorem startsWith_flaggedD_old (d : Str) (hd : d ≠ []) (pre app : Bool) (l : List Str) (hne : l ≠ [])
    (h : ∀ e ∈ l, OldPieceD d e) : startsWith (flaggedD d pre app (join d l)) d = pre := by
  cases pre
  · cases app
    · simpa [flaggedD] using startsWith_join_oldD d hd l hne h
    · simpa [flaggedD] using startsWith_join_delim_oldD d hd l hne h
  · have : flaggedD d true app (join d l) = d ++ (join d l ++ (if app then d else [])) := by
      simp [flaggedD]
    rw [this]; exact startsWith_append_self d _

theorem endsWith_flaggedD_old (d : Str) (hd : d ≠ []) (pre app : Bool) (l : List Str) (hne : l ≠ [])
    (h : ∀ e ∈ l, OldPieceD d e) : endsWith (flaggedD d pre app (join d l)) d = app := by
  cases app
  · cases pre
    · simpa [flaggedD] using endsWith_join_oldD d hd l hne h
    · simpa [flaggedD] using endsWith_delim_join_oldD d hd l hne h
  · have : flaggedD d pre true (join d l) = ((if pre then d else []) ++ join d l) ++ d := by
      simp [flaggedD]
    rw [this]; exact endsWith_append_self _ d

/-- the value starts with the delimiter iff a leading one was written -/
theorem startsWith_flaggedD (d : Str) (hd : d ≠ []) (pre app : Bool) (l : List Str) (hne : l ≠ [])
    (h : ∀ e ∈ l, GoodPieceD d e) : startsWith (flaggedD d pre app (join d l)) d = pre :=
  startsWith_flaggedD_old d hd pre app l hne (fun e he => goodPieceD_old d e (h e he))

/-- the value ends with the delimiter iff a trailing one was written -/
theorem endsWith_flaggedD (d : Str) (hd : d ≠ []) (pre app : Bool) (l : List Str) (hne : l ≠ [])
    (h : ∀ e ∈ l, GoodPieceD d e) : endsWith (flaggedD d pre app (join d l)) d = app :=
  endsWith_flaggedD_old d hd pre app l hne (fun e he => goodPieceD_old d e (h e he))

/-! ## stripping the flags off the written value -/

theorem drop_flaggedD (d : Str) (pre app : Bool) (v : Str) :
    (if pre then (flaggedD d pre app v).drop d.length else flaggedD d pre app v) = flaggedD d false app v := by
  cases pre
  · simp
  · simp [flaggedD]

theorem take_flaggedD (d : Str) (app : Bool) (v : Str) :
    (if app then (flaggedD d false app v).take ((flaggedD d false app v).length - d.length)
      else flaggedD d false app v) = v := by
  cases app
  · simp [flaggedD]
  · simp [flaggedD]

/-! ## in setup mode every piece of the value is in the result -/

section
variable {α : Type} [DecidableEq α]

omit [DecidableEq α] in
theorem mem_foldl_step (f : List α → α → List α)
    (hself : ∀ np v, v ∈ f np v) (hkeep : ∀ np v e, e ∈ np → e ∈ f np v) (l old : List α) (e : α)
    (he : e ∈ l ∨ e ∈ old) : e ∈ l.foldl f old := by
  induction l generalizing old with
  | nil => simpa using he
  | cons x xs ih =>
    rw [List.foldl_cons]
    apply ih
    rcases he with h | h
    · rcases List.mem_cons.mp h with h' | h'
      · exact Or.inr (h' ▸ hself old x)
      · exact Or.inl h'
    · exact Or.inr (hkeep old x e h)

/-- converse of `applyL_mem_vals` in setup mode: nothing is lost -/
theorem mem_applyL_setup (append : Bool) (vals old : List α) (e : α) (he : e ∈ vals ∨ e ∈ old) :
    e ∈ applyL append true vals old := by
  unfold applyL
  rw [mem_uniq]
  apply mem_foldl_step
  · intro np v
    cases append <;> simp [appendL, prependL]
  · intro np v e he
    cases append
    · simp [prependL, he]
    · by_cases h : e = v <;> simp [appendL, he, h]
  · rw [mem_loopVals]; exact he

theorem applyL_setup_mem_iff (append : Bool) (vals old : List α) (e : α) :
    e ∈ applyL append true vals old ↔ e ∈ vals ∨ e ∈ old :=
  ⟨applyL_mem_vals append true vals old e, mem_applyL_setup append vals old e⟩

theorem applyL_fwd_ne_vals (append : Bool) (vals old : List α) (hvne : vals ≠ []) :
    applyL append true vals old ≠ [] := by
  cases vals with
  | nil => exact absurd rfl hvne
  | cons v rest =>
    intro h
    have : v ∈ applyL append true (v :: rest) old := mem_applyL_setup append _ old v (Or.inl (by simp))
    rw [h] at this; exact absurd this (by simp)

end

theorem applyL_oldD_vals (d : Str) (append fwd : Bool) (vals oldl : List Str)
    (hold : ∀ e ∈ oldl, OldPieceD d e) (hv : ∀ e ∈ vals, GoodPieceD d e) :
    ∀ e ∈ applyL append fwd vals oldl, OldPieceD d e := by
  intro e he
  rcases applyL_mem_vals append fwd vals oldl e he with h | h
  · exact goodPieceD_old d e (hv e h)
  · exact hold e h

/-! ## the main result -/

/-- `envPrepend` / `envAppend` in setup mode on a value written with the MANPATH flags: the new value is the
list-level result with the requested delimiters re-attached, exactly once. The elements the list already holds only
have to be non-empty and free of delimiter characters (they may hold `$` text: the stored list is not interpolated). -/
theorem envPrepend_lifts_flags_old (d : Str) (hd : d ≠ []) (hd36 : 36 ∉ d) (append pre app : Bool) (var : Str)
    (vals oldl : List Str) (env : Env) (hvne : vals ≠ [])
    (hold : ∀ e ∈ oldl, OldPieceD d e) (hv : ∀ e ∈ vals, GoodPieceD d e)
    (henv : (env.get var).getD [] = join d oldl) :
    envPrepend append true var (flaggedD d pre app (join d vals)) d env
      = .ok (env.set var (flaggedD d pre app (join d (applyL append true vals oldl)))) := by
  have hgoodL := applyL_oldD_vals d append true vals oldl hold hv
  have hneL := applyL_fwd_ne_vals append vals oldl hvne
  have hsw := startsWith_join_oldD d hd _ hneL hgoodL
  have hew := endsWith_join_oldD d hd _ hneL hgoodL
  have hew2 := endsWith_delim_join_oldD d hd _ hneL hgoodL
  have hsplitv : split d (join d vals) = vals := split_join_goodD d hd vals hvne hv
  have hnv : (36 : Nat) ∉ join d vals := no_dollar_join_goodD d hd36 _ hv
  have hflt := split_join_filter_oldD d hd oldl hold
  have h1 := startsWith_flaggedD d hd pre app vals hvne hv
  have h2 := drop_flaggedD d pre app (join d vals)
  have h3 := endsWith_flaggedD d hd false app vals hvne hv
  have h4 := take_flaggedD d app (join d vals)
  unfold envPrepend
  simp only [h1, h2, h3, h4, henv]
  simp only [expand_no_dollar env _ hnv, interp_no_dollar env _ _ hnv, hsplitv, hflt]
  cases pre <;> cases app
  · simp [flaggedD, hsw, hew]
  · simp [flaggedD, hsw, hew]
  · simp [flaggedD, hsw, hew2]
  · simp [flaggedD, hsw, hew2]

/-- the same with the stronger (`$`-free) hypothesis on the elements already in the list -/
theorem envPrepend_lifts_flags_multi (d : Str) (hd : d ≠ []) (hd36 : 36 ∉ d) (append pre app : Bool) (var : Str)
    (vals oldl : List Str) (env : Env) (hvne : vals ≠ [])
    (hold : ∀ e ∈ oldl, GoodPieceD d e) (hv : ∀ e ∈ vals, GoodPieceD d e)
    (henv : (env.get var).getD [] = join d oldl) :
    envPrepend append true var (flaggedD d pre app (join d vals)) d env
      = .ok (env.set var (flaggedD d pre app (join d (applyL append true vals oldl)))) :=
  envPrepend_lifts_flags_old d hd hd36 append pre app var vals oldl env hvne
    (fun e he => goodPieceD_old d e (hold e he)) hv henv

/-- one-piece value -/
theorem envPrepend_lifts_flags_multi_single (d : Str) (hd : d ≠ []) (hd36 : 36 ∉ d) (append pre app : Bool)
    (var v : Str) (oldl : List Str) (env : Env)
    (hold : ∀ e ∈ oldl, OldPieceD d e) (hv : GoodPieceD d v)
    (henv : (env.get var).getD [] = join d oldl) :
    envPrepend append true var (flaggedD d pre app v) d env
      = .ok (env.set var (flaggedD d pre app (join d (applyL append true [v] oldl)))) := by
  have := envPrepend_lifts_flags_old d hd hd36 append pre app var [v] oldl env (by simp) hold
    (by intro e he; simp at he; subst he; exact hv) henv
  simpa [join] using this

/-- without flags this is `envPrepend_lifts_vals` in setup mode, with the weaker hypothesis on the old elements -/
theorem envPrepend_lifts_vals_old (d : Str) (hd : d ≠ []) (hd36 : 36 ∉ d) (append : Bool) (var : Str)
    (vals oldl : List Str) (env : Env) (hvne : vals ≠ [])
    (hold : ∀ e ∈ oldl, OldPieceD d e) (hv : ∀ e ∈ vals, GoodPieceD d e)
    (henv : (env.get var).getD [] = join d oldl) :
    envPrepend append true var (join d vals) d env
      = .ok (env.set var (join d (applyL append true vals oldl))) := by
  have := envPrepend_lifts_flags_old d hd hd36 append false false var vals oldl env hvne hold hv henv
  simpa [flaggedD] using this

/-- what the stored value looks like afterwards: it starts / ends with the delimiter iff that was asked for -/
theorem envPrepend_flags_result (d : Str) (hd : d ≠ []) (append pre app : Bool)
    (vals oldl : List Str) (hvne : vals ≠ [])
    (hold : ∀ e ∈ oldl, OldPieceD d e) (hv : ∀ e ∈ vals, GoodPieceD d e) :
    startsWith (flaggedD d pre app (join d (applyL append true vals oldl))) d = pre ∧
    endsWith (flaggedD d pre app (join d (applyL append true vals oldl))) d = app :=
  ⟨startsWith_flaggedD_old d hd pre app _ (applyL_fwd_ne_vals append vals oldl hvne)
      (applyL_oldD_vals d append true vals oldl hold hv),
   endsWith_flaggedD_old d hd pre app _ (applyL_fwd_ne_vals append vals oldl hvne)
      (applyL_oldD_vals d append true vals oldl hold hv)⟩

/-! ## non-vacuity, `d = "::"` -/

section Examples

private def MAN : Str := Str.ofString "MANPATH"
private def dd : Str := [58, 58]

-- "::/m1::/m2" prepended to "/usr/man::/usr/man"  →  "::/m1::/m2::/usr/man"
example :
    envPrepend false true MAN (Str.ofString "::/m1::/m2") dd [(MAN, Str.ofString "/usr/man::/usr/man")]
      = .ok [(MAN, Str.ofString "::/m1::/m2::/usr/man")] := by decide

-- "/m1::/m2::" appended to "/usr/man"  →  "/usr/man::/m1::/m2::"
example :
    envPrepend true true MAN (Str.ofString "/m1::/m2::") dd [(MAN, Str.ofString "/usr/man")]
      = .ok [(MAN, Str.ofString "/usr/man::/m1::/m2::")] := by decide

-- both flags; a second application does not double the delimiters
example :
    envPrepend false true MAN (Str.ofString "::/m1::") dd [(MAN, Str.ofString "::/m1::/usr/man::")]
      = .ok [(MAN, Str.ofString "::/m1::/usr/man::")] := by decide

-- an old element with `$` text is stored as it is
example :
    envPrepend false true MAN (Str.ofString "::/m1") dd [(MAN, Str.ofString "/a/${X}::/b")]
      = .ok [(MAN, Str.ofString "::/m1::/a/${X}::/b")] := by decide

example : flaggedD dd true false (join dd [Str.ofString "/m1", Str.ofString "/m2"]) = Str.ofString "::/m1::/m2" := by
  decide

example : OldPieceD dd (Str.ofString "/a/${X}") := by unfold OldPieceD; decide
example : ¬ GoodPieceD dd (Str.ofString "/a/${X}") := by unfold GoodPieceD; decide

end Examples

end EupsModel.PathAlg
