import EupsModel.Model.Expand
/-! Helper lemmas about the model of `expandTableFile` (`Model/Expand.lean`). -/
set_option linter.unusedSimpArgs false
namespace EupsModel.Expand
open EupsModel

/-! ## shape of a successful run -/

theorem expandItems_ok {A : Answers} {o : Opts} {lines : List Str} {items : List Item}
    (h : expandItems A o lines = .ok items) :
    ∃ st c vis, readAll A o lines = .ok st ∧ collect A o st = .ok c ∧ visit 0 st.blocks = .ok vis ∧
      items = emitVisited o st.lastSetup c 0 vis ++ c.final.map .fin := by
  unfold expandItems at h
  cases hr : readAll A o lines with
  | error e => simp [hr, bind, Except.bind] at h
  | ok st =>
    cases hc : collect A o st with
    | error e => simp [hr, hc, bind, Except.bind] at h
    | ok c =>
      cases hv : visit 0 st.blocks with
      | error e => simp [hr, hc, hv, bind, Except.bind] at h
      | ok vis =>
        simp [hr, hc, hv, bind, Except.bind, pure, Except.pure] at h
        exact ⟨st, c, vis, rfl, hc, hv, h.symm⟩

/-! ## the closure collection -/

/-- `(n, v)` is a build-time record or a `-p` pin. -/
def Recorded (A : Answers) (n v : Str) : Prop := A.sv n = some v ∨ A.pin n = some v

/-- Where an entry of `desiredProducts` can come from, with no assumption on the environment: it is the
version assumed for a product of the table (pin or set-up version), or it was listed by
`getDependencies(..., setup=True)` for such a product. -/
def Sourced (A : Answers) (o : Opts) (n v : Str) : Prop :=
  Recorded A n v ∨
  (o.recurse = true ∧
    ∃ n0 v0 l d, Recorded A n0 v0 ∧ A.deps n0 v0 = .ok l ∧ d ∈ l ∧ d.name = n ∧ d.version = v)

theorem topVersion_recorded {A : Answers} {n v : Str} (h : topVersion A n = some v) : Recorded A n v := by
  unfold topVersion at h
  cases hp : A.pin n with
  | some p => simp [hp] at h; subst h; exact .inr hp
  | none => simp [hp] at h; exact .inl h

theorem mem_addDesired {c : CState} {d : Dep} {q : Str × Str} (h : q ∈ (addDesired c d).desired) :
    q ∈ c.desired ∨ q = (d.name, d.version) := by
  unfold addDesired at h
  split at h
  · exact .inl h
  · simp at h; exact h

theorem mem_foldl_addDesired (l : List Dep) (c : CState) (q : Str × Str)
    (h : q ∈ (l.foldl addDesired c).desired) : q ∈ c.desired ∨ ∃ d ∈ l, q = (d.name, d.version) := by
  induction l generalizing c with
  | nil => exact .inl h
  | cons d l ih =>
    simp only [List.foldl_cons] at h
    rcases ih _ h with h1 | ⟨d', hd', rfl⟩
    · rcases mem_addDesired h1 with h2 | rfl
      · exact .inl h2
      · exact .inr ⟨d, by simp, rfl⟩
    · exact .inr ⟨d', by simp [hd'], rfl⟩

theorem collectStep_desired {A : Answers} {o : Opts} {c c' : CState} {p : Prod}
    (h : collectStep A o c p = .ok c') (q : Str × Str) (hq : q ∈ c'.desired) :
    q ∈ c.desired ∨ Sourced A o q.1 q.2 := by
  unfold collectStep at h
  split at h
  · cases h; exact .inl hq
  · split at h
    · cases h; exact .inl hq
    · split at h
      · split at h
        · cases h
        · cases h; exact .inl hq
      · rename_i v hv
        have hrec := topVersion_recorded hv
        split at h
        · rename_i hrc
          split at h
          · cases h
          · split at h
            · cases h
            · cases h; exact .inl hq
          · rename_i l hl
            cases h
            rcases mem_foldl_addDesired _ _ _ hq with h1 | ⟨d, hd, rfl⟩
            · exact .inl h1
            · simp only [List.mem_cons] at hd
              rcases hd with rfl | hd
              · exact .inr (.inl hrec)
              · exact .inr (.inr ⟨by simp at hrc; exact hrc.1, p.name, v, l, d, hrec, hl, hd, rfl, rfl⟩)
        · cases h
          rcases mem_addDesired hq with h1 | rfl
          · exact .inl h1
          · exact .inr (.inl hrec)

theorem foldlM_collect_desired {A : Answers} {o : Opts} (ps : List Prod) (c c' : CState)
    (h : ps.foldlM (collectStep A o) c = .ok c') (q : Str × Str) (hq : q ∈ c'.desired) :
    q ∈ c.desired ∨ Sourced A o q.1 q.2 := by
  induction ps generalizing c with
  | nil => simp [List.foldlM, pure, Except.pure] at h; cases h; exact .inl hq
  | cons p ps ih =>
    simp only [List.foldlM_cons, bind, Except.bind] at h
    cases hs : collectStep A o c p with
    | error e => simp [hs] at h
    | ok c1 =>
      simp only [hs] at h
      rcases ih c1 h with h1 | h1
      · exact collectStep_desired hs q h1
      · exact .inr h1

theorem collect_desired {A : Answers} {o : Opts} {st : RState} {c : CState}
    (h : collect A o st = .ok c) (q : Str × Str) (hq : q ∈ c.desired) : Sourced A o q.1 q.2 := by
  unfold collect at h
  rcases foldlM_collect_desired _ _ _ h q hq with h1 | h1
  · simp at h1
  · exact h1

/-! ## the emission: where pins come from -/

def Item.isPin : Item → Bool
  | .pin .. => true
  | _ => false

theorem emitPlain_no_pin (ind : Int) (lines : List BLine) : ∀ x ∈ (emitPlain ind lines).1, x.isPin = false := by
  intro x hx
  unfold emitPlain at hx
  split at hx
  · simp at hx
  · split at hx
    · simp at hx; rcases hx with rfl | ⟨a, _, rfl⟩ <;> rfl
    · split at hx
      · simp at hx; rcases hx with rfl | ⟨a, _, rfl⟩ <;> rfl
      · simp at hx; rcases hx with rfl | ⟨a, _, rfl⟩ <;> rfl

theorem emitSetupLines_no_pin (ind : Int) (lines : List BLine) :
    ∀ x ∈ emitSetupLines ind lines, x.isPin = false := by
  intro x hx
  induction lines using emitSetupLines.induct ind with
  | case1 => simp [emitSetupLines] at hx
  | case2 l t h => simp [emitSetupLines, t, h] at hx
  | case3 l t h1 h2 => simp [emitSetupLines, t, h1, h2] at hx
  | case4 l t h1 h2 => simp [emitSetupLines, t, h1, h2] at hx; subst hx; rfl
  | case5 l l2 rest ih =>
    simp only [emitSetupLines, List.mem_append] at hx
    rcases hx with hx | hx
    · split at hx
      · simp at hx
      · simp at hx; subst hx; rfl
    · exact ih hx

theorem mem_pinItems {ind : Int} {c : CState} {x : Item} (h : x ∈ pinItems ind c) :
    ∃ n v, (n, v) ∈ c.desired ∧ x = .pin ind (c.optional.contains (n, v) || c.notFound.contains n) n v := by
  unfold pinItems at h
  simp only [List.mem_map] at h
  obtain ⟨⟨n, v⟩, hm, rfl⟩ := h
  exact ⟨n, v, hm, rfl⟩

theorem emitSetup_pin {o : Opts} {isLast : Bool} {c : CState} {ind : Int} {lines : List BLine} {x : Item}
    (hx : x ∈ emitSetup o isLast c ind lines) (hp : x.isPin = true) : x ∈ pinItems (ind + 1) c ∧ isLast = true ∧ o.addExactBlock = true := by
  unfold emitSetup at hx
  split at hx
  · rename_i hadd
    simp only [List.mem_append] at hx
    rcases hx with (hx | hx) | hx
    · split at hx
      · rename_i hl
        simp only [List.mem_append] at hx
        rcases hx with (hx | hx) | hx
        · simp at hx; subst hx; simp [Item.isPin] at hp
        · exact ⟨hx, hl, hadd⟩
        · simp at hx; subst hx; simp [Item.isPin] at hp
      · simp at hx; subst hx; simp [Item.isPin] at hp
    · have := emitSetupLines_no_pin _ _ x hx; simp [this] at hp
    · simp at hx; subst hx; simp [Item.isPin] at hp
  · have := emitSetupLines_no_pin _ _ x hx; simp [this] at hp

theorem emitVisited_pin {o : Opts} {ls : Option Nat} {c : CState} (vis : List (Nat × Block)) (ind : Int) {x : Item}
    (hx : x ∈ emitVisited o ls c ind vis) (hp : x.isPin = true) :
    ∃ i n v, (n, v) ∈ c.desired ∧ x = .pin i (c.optional.contains (n, v) || c.notFound.contains n) n v := by
  induction vis generalizing ind with
  | nil => simp [emitVisited] at hx
  | cons ib rest ih =>
    obtain ⟨i, b⟩ := ib
    unfold emitVisited at hx
    split at hx
    · simp only [List.mem_append] at hx
      rcases hx with hx | hx
      · obtain ⟨n, v, hm, rfl⟩ := mem_pinItems (emitSetup_pin hx hp).1
        exact ⟨_, n, v, hm, rfl⟩
      · exact ih _ hx
    · simp only [List.mem_append] at hx
      rcases hx with hx | hx
      · have := emitPlain_no_pin _ _ x hx; simp [this] at hp
      · exact ih _ hx

/-- Every pin line of a successful expansion is an entry of `desiredProducts`, hence `Sourced`. -/
theorem pin_sourced {A : Answers} {o : Opts} {lines : List Str} {items : List Item}
    (h : expandItems A o lines = .ok items) {ind : Int} {opt : Bool} {n v : Str}
    (hx : Item.pin ind opt n v ∈ items) : Sourced A o n v := by
  obtain ⟨st, c, vis, _, hc, _, rfl⟩ := expandItems_ok h
  simp only [List.mem_append, List.mem_map] at hx
  rcases hx with hx | ⟨t, _, ht⟩
  · obtain ⟨i, n', v', hm, heq⟩ := emitVisited_pin vis 0 hx rfl
    cases heq
    exact collect_desired hc (n, v) hm
  · cases ht


/-! ## the reader as a pure fold over classified lines -/

def RState.allLines (st : RState) : List BLine := st.blocks.flatMap (·.lines)

theorem allLines_eq (st : RState) : st.allLines = st.prev.flatMap (·.lines) ++ st.cur.lines := by
  simp [RState.allLines, RState.blocks]

theorem allLines_pushLine (st : RState) (k : LKind) (t : Str) :
    (pushLine st k t).allLines = st.allLines ++ [⟨k, t⟩] := by
  simp [allLines_eq, pushLine]

theorem allLines_openSetup (st : RState) : (openSetup st).allLines = st.allLines := by
  unfold openSetup; split <;> simp [allLines_eq]

theorem allLines_openOther (st : RState) : (openOther st).allLines = st.allLines := by
  unfold openOther; split <;> simp [allLines_eq]

theorem allLines_step (st : RState) (c : Classified) :
    (step st c).allLines = st.allLines ++ c.bline.toList := by
  cases c with
  | blank raw => simp [step, allLines_pushLine, Classified.bline]
  | eups t =>
    simp only [step, Classified.bline, Option.toList, List.append_nil]
    rw [← allLines_openSetup st]; simp [allLines_eq]
  | setup t p =>
    cases p with
    | none => simp [step, allLines_pushLine, allLines_openSetup, Classified.bline]
    | some p =>
      simp only [step, allLines_pushLine, Classified.bline, Option.toList]
      rw [← allLines_openSetup st]; simp [allLines_eq]
  | other t => simp [step, allLines_pushLine, allLines_openOther, Classified.bline]

theorem allLines_foldl (cs : List Classified) (st : RState) :
    (cs.foldl step st).allLines = st.allLines ++ cs.filterMap Classified.bline := by
  induction cs generalizing st with
  | nil => simp
  | cons c cs ih =>
    simp only [List.foldl_cons, ih, allLines_step, List.append_assoc]
    cases h : c.bline <;> simp [h]

/-- `readAll` = classify every line, then fold the bookkeeping. -/
theorem readAll_ok {A : Answers} {o : Opts} {lines : List Str} {st : RState}
    (h : readAll A o lines = .ok st) :
    ∃ cs, lines.mapM (classify A o) = .ok cs ∧ st = cs.foldl step {} := by
  unfold readAll at h
  suffices H : ∀ (lines : List Str) (st0 st : RState), lines.foldlM (readLine A o) st0 = .ok st →
      ∃ cs, lines.mapM (classify A o) = .ok cs ∧ st = cs.foldl step st0 from H lines {} st h
  intro lines
  induction lines with
  | nil => intro st0 st h; simp [List.foldlM, pure, Except.pure] at h; exact ⟨[], by simp [pure, Except.pure], h.symm⟩
  | cons l ls ih =>
    intro st0 st h
    simp only [List.foldlM_cons, bind, Except.bind, readLine] at h
    cases hc : classify A o l with
    | error e => simp [hc] at h
    | ok c =>
      simp only [hc, pure, Except.pure] at h
      obtain ⟨cs, hcs, hst⟩ := ih _ _ h
      refine ⟨c :: cs, ?_, by simpa using hst⟩
      simp [List.mapM_cons, hc, hcs, bind, Except.bind, pure, Except.pure]


theorem products_openSetup (st : RState) : (openSetup st).products = st.products := by
  unfold openSetup; split <;> rfl
theorem products_openOther (st : RState) : (openOther st).products = st.products := by
  unfold openOther; split <;> rfl
theorem final_openSetup (st : RState) : (openSetup st).final = st.final := by
  unfold openSetup; split <;> rfl
theorem final_openOther (st : RState) : (openOther st).final = st.final := by
  unfold openOther; split <;> rfl

theorem products_step (st : RState) (c : Classified) :
    (step st c).products = st.products ++ c.prod.toList := by
  cases c with
  | blank raw => simp [step, pushLine, Classified.prod]
  | eups t => simp [step, products_openSetup, Classified.prod]
  | setup t p => cases p <;> simp [step, pushLine, products_openSetup, Classified.prod]
  | other t => simp [step, pushLine, products_openOther, Classified.prod]

theorem final_step (st : RState) (c : Classified) :
    (step st c).final = st.final ++ c.finalLine.toList := by
  cases c with
  | blank raw => simp [step, pushLine, Classified.finalLine]
  | eups t => simp [step, final_openSetup, Classified.finalLine]
  | setup t p => cases p <;> simp [step, pushLine, final_openSetup, Classified.finalLine]
  | other t => simp [step, pushLine, final_openOther, Classified.finalLine]

theorem products_foldl (cs : List Classified) (st : RState) :
    (cs.foldl step st).products = st.products ++ cs.filterMap Classified.prod := by
  induction cs generalizing st with
  | nil => simp
  | cons c cs ih =>
    simp only [List.foldl_cons, ih, products_step, List.append_assoc]
    cases h : c.prod <;> simp [h]

theorem final_foldl (cs : List Classified) (st : RState) :
    (cs.foldl step st).final = st.final ++ cs.filterMap Classified.finalLine := by
  induction cs generalizing st with
  | nil => simp
  | cons c cs ih =>
    simp only [List.foldl_cons, ih, final_step, List.append_assoc]
    cases h : c.finalLine <;> simp [h]

/-! ### kinds: setup blocks hold no `other` line, the other blocks no `setup` line -/

def Block.KindsOk (b : Block) : Prop :=
  ∀ l ∈ b.lines, if b.isSetup then l.kind ≠ .other else l.kind ≠ .setup

def RState.KindsOk (st : RState) : Prop := ∀ b ∈ st.blocks, b.KindsOk

theorem kindsOk_init : (({} : RState)).KindsOk := by
  intro b hb; simp [RState.blocks] at hb; subst hb; intro l hl; simp at hl

theorem kindsOk_pushLine {st : RState} (h : st.KindsOk) (k : LKind)
    (hk : if st.cur.isSetup then k ≠ .other else k ≠ .setup) (t : Str) : (pushLine st k t).KindsOk := by
  intro b hb
  simp only [RState.blocks, pushLine, List.mem_append, List.mem_singleton] at hb
  rcases hb with hb | rfl
  · exact h b (by simp [RState.blocks, hb])
  · intro l hl
    simp only [List.mem_append, List.mem_singleton] at hl
    rcases hl with hl | rfl
    · exact h st.cur (by simp [RState.blocks]) l hl
    · exact hk

theorem kindsOk_openSetup {st : RState} (h : st.KindsOk) : (openSetup st).KindsOk ∧ (openSetup st).cur.isSetup = true := by
  unfold openSetup
  split
  · refine ⟨?_, rfl⟩
    intro b hb
    simp only [RState.blocks, List.mem_append, List.mem_singleton] at hb
    rcases hb with (hb | rfl) | rfl
    · exact h b (by simp [RState.blocks, hb])
    · exact h _ (by simp [RState.blocks])
    · intro l hl; simp at hl
  · rename_i hc; exact ⟨h, by simpa using hc⟩

theorem kindsOk_openOther {st : RState} (h : st.KindsOk) : (openOther st).KindsOk ∧ (openOther st).cur.isSetup = false := by
  unfold openOther
  split
  · refine ⟨?_, rfl⟩
    intro b hb
    simp only [RState.blocks, List.mem_append, List.mem_singleton] at hb
    rcases hb with (hb | rfl) | rfl
    · exact h b (by simp [RState.blocks, hb])
    · exact h _ (by simp [RState.blocks])
    · intro l hl; simp at hl
  · rename_i hc; exact ⟨h, by simpa using hc⟩

theorem kindsOk_step {st : RState} (h : st.KindsOk) (c : Classified) : (step st c).KindsOk := by
  cases c with
  | blank raw => exact kindsOk_pushLine h _ (by split <;> simp) _
  | eups t =>
    have := (kindsOk_openSetup h).1
    intro b hb; exact this b (by simpa [step, RState.blocks] using hb)
  | setup t p =>
    obtain ⟨h1, h2⟩ := kindsOk_openSetup h
    cases p with
    | none => exact kindsOk_pushLine h1 _ (by simp [h2]) _
    | some p =>
      have h1' : ({ openSetup st with products := (openSetup st).products ++ [p] } : RState).KindsOk := by
        intro b hb; exact h1 b (by simpa [RState.blocks] using hb)
      exact kindsOk_pushLine h1' _ (by simp [h2]) _
  | other t =>
    obtain ⟨h1, h2⟩ := kindsOk_openOther h
    exact kindsOk_pushLine h1 _ (by simp [h2]) _

theorem kindsOk_foldl (cs : List Classified) {st : RState} (h : st.KindsOk) : (cs.foldl step st).KindsOk := by
  induction cs generalizing st with
  | nil => exact h
  | cons c cs ih => exact ih (kindsOk_step h c)


/-! ## the emission, block by block -/

def enumFrom : Nat → List Block → List (Nat × Block)
  | _, [] => []
  | i, b :: rest => (i, b) :: enumFrom (i + 1) rest

/-- no block is taken for a pre-existing `if (type == exact) {` block (the fragile `i += 3` path) -/
def NoPreExact (blocks : List Block) : Prop := ∀ b ∈ blocks, isPreExact b = false

theorem visit_noPre (blocks : List Block) (i : Nat) (h : NoPreExact blocks) :
    visit i blocks = .ok (enumFrom i blocks) := by
  induction blocks generalizing i with
  | nil => rfl
  | cons b rest ih =>
    have hb : isPreExact b = false := h b (by simp)
    have hr : NoPreExact rest := fun x hx => h x (by simp [hx])
    unfold visit
    simp [hb, ih (i + 1) hr, enumFrom, bind, Except.bind, pure, Except.pure]

/-- the text of an item that is an input line of kind `k` -/
def origOf (k : LKind) : Item → Option Str
  | .orig _ k' t => if k' = k then some t else none
  | _ => none

theorem origOf_map_orig (k : LKind) (f : BLine → Int) (lines : List BLine) :
    (lines.map fun x => Item.orig (f x) x.kind x.text).filterMap (origOf k)
      = (lines.filter (·.kind = k)).map (·.text) := by
  induction lines with
  | nil => rfl
  | cons l rest ih =>
    by_cases hk : l.kind = k <;> simp [List.filterMap_cons, origOf, hk, ih]

theorem origOf_emitPlain (k : LKind) (ind : Int) (lines : List BLine) :
    (emitPlain ind lines).1.filterMap (origOf k) = (lines.filter (·.kind = k)).map (·.text) := by
  unfold emitPlain
  split
  · rfl
  · rename_i l rest
    split
    · have := origOf_map_orig k (fun _ => ind + 1) rest
      by_cases hk : l.kind = k <;> simp [List.filterMap_cons, origOf, hk, this]
    · split
      · have := origOf_map_orig k (fun _ => ind - 1) rest
        by_cases hk : l.kind = k <;> simp [List.filterMap_cons, origOf, hk, this]
      · exact origOf_map_orig k (fun _ => ind) (l :: rest)

/-- a setup block holds no line of kind `other`, so it emits none -/
theorem origOf_other_emitSetupLines (ind : Int) (lines : List BLine) (h : ∀ l ∈ lines, l.kind ≠ .other) :
    (emitSetupLines ind lines).filterMap (origOf .other) = [] := by
  induction lines using emitSetupLines.induct ind with
  | case1 => rfl
  | case2 l t hx => simp [emitSetupLines, t, hx]
  | case3 l t h1 h2 => simp [emitSetupLines, t, h1, h2]
  | case4 l t h1 h2 =>
    have := h l (by simp)
    simp [emitSetupLines, t, h1, h2, origOf, this]
  | case5 l l2 rest ih =>
    have hl := h l (by simp)
    have := ih (fun x hx => h x (by simp [hx]))
    simp only [emitSetupLines, List.filterMap_append, this, List.append_nil]
    split <;> simp [origOf, hl]

/-- the setup lines a setup block emits: all of them except those labelled `--external` -/
theorem origOf_setup_emitSetupLines (ind : Int) (lines : List BLine)
    (h : ∀ l ∈ lines, l.kind = .setup → strip l.text ≠ []) :
    (emitSetupLines ind lines).filterMap (origOf .setup)
      = (lines.filter fun l => l.kind = .setup && !contains sExternal (strip l.text)).map (fun l => strip l.text) := by
  induction lines using emitSetupLines.induct ind with
  | case1 => rfl
  | case2 l t hx => simp [emitSetupLines, t, hx]
  | case3 l t h1 h2 =>
    have : l.kind ≠ .setup := fun hk => h l (by simp) hk (by simp at h2; simpa using h2.1)
    simp [emitSetupLines, t, h1, h2, this]
  | case4 l t h1 h2 =>
    by_cases hk : l.kind = .setup <;> simp [emitSetupLines, t, h1, h2, origOf, hk]
  | case5 l l2 rest ih =>
    have := ih (fun x hx => h x (by simp [hx]))
    simp only [emitSetupLines, List.filterMap_append, this]
    by_cases hx : contains sExternal (strip l.text) = true
    · simp [hx, List.filter_cons]
    · by_cases hk : l.kind = .setup <;> simp [hx, hk, origOf, List.filter_cons]

theorem origOf_gen (k : LKind) (ind : Int) (t : Str) : origOf k (.gen ind t) = none := rfl

theorem origOf_pinItems (k : LKind) (ind : Int) (c : CState) : (pinItems ind c).filterMap (origOf k) = [] := by
  unfold pinItems
  induction c.desired with
  | nil => rfl
  | cons p rest ih => obtain ⟨n, v⟩ := p; simpa [List.filterMap_cons, origOf] using ih

theorem origOf_emitSetup (k : LKind) (o : Opts) (isLast : Bool) (c : CState) (ind : Int) (lines : List BLine) :
    (emitSetup o isLast c ind lines).filterMap (origOf k)
      = (emitSetupLines (if o.addExactBlock then ind + 1 else ind) lines).filterMap (origOf k) := by
  unfold emitSetup
  split
  · rename_i h
    cases isLast <;> simp [List.filterMap_append, List.filterMap_cons, origOf_pinItems, origOf, h]
  · rename_i h; simp [h]


theorem origOf_other_emitVisited (o : Opts) (ls : Option Nat) (c : CState) (vis : List (Nat × Block)) (ind : Int)
    (hk : ∀ ib ∈ vis, ib.2.KindsOk) :
    (emitVisited o ls c ind vis).filterMap (origOf .other)
      = vis.flatMap (fun ib => (ib.2.lines.filter (·.kind = .other)).map (·.text)) := by
  induction vis generalizing ind with
  | nil => rfl
  | cons ib rest ih =>
    obtain ⟨i, b⟩ := ib
    have hb : b.KindsOk := hk (i, b) (by simp)
    have hr := fun ind => ih ind (fun x hx => hk x (by simp [hx]))
    unfold emitVisited
    split
    · rename_i hs
      have hno : ∀ l ∈ b.lines, l.kind ≠ .other := fun l hl => by have := hb l hl; simpa [hs] using this
      have hf : b.lines.filter (·.kind = .other) = [] := by
        simp only [List.filter_eq_nil_iff]; intro l hl; simpa using hno l hl
      simp [List.filterMap_append, origOf_emitSetup, origOf_other_emitSetupLines _ _ hno, hr, hf]
    · simp [List.filterMap_append, origOf_emitPlain, hr]

theorem origOf_setup_emitVisited (o : Opts) (ls : Option Nat) (c : CState) (vis : List (Nat × Block)) (ind : Int)
    (hk : ∀ ib ∈ vis, ib.2.KindsOk)
    (hne : ∀ ib ∈ vis, ∀ l ∈ ib.2.lines, l.kind = .setup → strip l.text ≠ []) :
    (emitVisited o ls c ind vis).filterMap (origOf .setup)
      = vis.flatMap (fun ib => (ib.2.lines.filter fun l => l.kind = .setup && !contains sExternal (strip l.text)).map
          (fun l => strip l.text)) := by
  induction vis generalizing ind with
  | nil => rfl
  | cons ib rest ih =>
    obtain ⟨i, b⟩ := ib
    have hb : b.KindsOk := hk (i, b) (by simp)
    have hr := fun ind => ih ind (fun x hx => hk x (by simp [hx])) (fun x hx => hne x (by simp [hx]))
    unfold emitVisited
    split
    · simp [List.filterMap_append, origOf_emitSetup, origOf_setup_emitSetupLines _ _ (hne (i, b) (by simp)), hr]
    · rename_i hs
      have hno : ∀ l ∈ b.lines, l.kind ≠ .setup := fun l hl => by have := hb l hl; simpa [hs] using this
      have hf : b.lines.filter (·.kind = .setup) = [] := by
        simp only [List.filter_eq_nil_iff]; intro l hl; simpa using hno l hl
      have hf2 : (b.lines.filter fun l => l.kind = .setup && !contains sExternal (strip l.text)) = [] := by
        simp only [List.filter_eq_nil_iff]; intro l hl; simp [hno l hl]
      simp [List.filterMap_append, origOf_emitPlain, hr, hf, hf2]

theorem flatMap_enumFrom {β : Type} (f : Block → List β) (i : Nat) (l : List Block) :
    (enumFrom i l).flatMap (fun ib => f ib.2) = l.flatMap f := by
  induction l generalizing i with
  | nil => rfl
  | cons b rest ih => simp [enumFrom, ih]

theorem mem_enumFrom {i : Nat} {l : List Block} {ib : Nat × Block} (h : ib ∈ enumFrom i l) : ib.2 ∈ l := by
  induction l generalizing i with
  | nil => simp [enumFrom] at h
  | cons b rest ih =>
    simp only [enumFrom, List.mem_cons] at h
    rcases h with rfl | h
    · simp
    · simp [ih h]

theorem flatMap_blocks_filter_map {β : Type} (p : BLine → Bool) (g : BLine → β) (blocks : List Block) :
    blocks.flatMap (fun b => (b.lines.filter p).map g) = ((blocks.flatMap (·.lines)).filter p).map g := by
  induction blocks with
  | nil => rfl
  | cons b rest ih => simp [ih]


/-! ## string facts about the reader's regular expression -/

theorem sReqP_eq : sReqP = [115, 101, 116, 117, 112, 82, 101, 113, 117, 105, 114, 101, 100, 40] := by decide
theorem sOptP_eq : sOptP = [115, 101, 116, 117, 112, 79, 112, 116, 105, 111, 110, 97, 108, 40] := by decide

/-- a match of the setup pattern starts with the letter `s` -/
theorem matchSetupAt_head {c : Nat} {cs : Str} {m : RexMatch} (h : matchSetupAt (c :: cs) = some m) : c = 115 := by
  unfold matchSetupAt at h
  by_cases hc : c = 115
  · exact hc
  · have h1 : sReqP.isPrefixOf (c :: cs) = false := by
      rw [sReqP_eq]; simp [List.isPrefixOf]; intro h; exact absurd h.symm hc
    have h2 : sOptP.isPrefixOf (c :: cs) = false := by
      rw [sOptP_eq]; simp [List.isPrefixOf]; intro h; exact absurd h.symm hc
    simp [h1, h2] at h

/-- a match of `rex` starts with the letter `s` or (an unsetup line) `u` -/
theorem matchRexAt_head {c : Nat} {cs : Str} {m : RexMatch} (h : matchRexAt (c :: cs) = some m) : c = 115 ∨ c = 117 := by
  unfold matchRexAt at h
  split at h
  · rename_i rest heq
    simp only [List.cons.injEq] at heq
    exact .inr heq.1
  · exact .inl (matchSetupAt_head h)

theorem searchRex_allSpace (t : Str) (h : ∀ c ∈ t, Str.isSpace c = true) : searchRex t = none := by
  induction t with
  | nil => rfl
  | cons c cs ih =>
    unfold searchRex
    cases hm : matchRexAt (c :: cs) with
    | some m =>
      have hsp := h c (by simp)
      rcases matchRexAt_head hm with e | e <;> subst e <;> simp [Str.isSpace] at hsp
    | none => simpa using ih (fun x hx => h x (by simp [hx]))

theorem all_of_dropWhile_nil {p : Nat → Bool} {l : List Nat} (h : l.dropWhile p = []) : ∀ x ∈ l, p x = true := by
  induction l with
  | nil => simp
  | cons a rest ih =>
    by_cases ha : p a = true
    · simp only [List.dropWhile_cons, ha, if_true] at h
      intro x hx; simp only [List.mem_cons] at hx
      rcases hx with rfl | hx
      · exact ha
      · exact ih h x hx
    · simp [List.dropWhile_cons, ha] at h

theorem dropWhile_nil_of_all {p : Nat → Bool} {l : List Nat} (h : ∀ x ∈ l.dropWhile p, p x = true) :
    l.dropWhile p = [] := by
  induction l with
  | nil => rfl
  | cons a rest ih =>
    by_cases ha : p a = true
    · simp only [List.dropWhile_cons, ha, if_true] at h ⊢; exact ih h
    · have := h a (by simp [List.dropWhile_cons, ha]); exact absurd this ha

theorem strip_eq_nil {t : Str} (h : strip t = []) : ∀ c ∈ t, Str.isSpace c = true := by
  unfold strip rstrip lstrip at h
  simp only [List.reverse_eq_nil_iff] at h
  have h1 := all_of_dropWhile_nil h
  have h2 : t.dropWhile Str.isSpace = [] := dropWhile_nil_of_all (fun x hx => h1 x (by simpa using hx))
  exact all_of_dropWhile_nil h2

/-- a line on which `rex` matches is not blank -/
theorem strip_ne_nil_of_searchRex {t : Str} {m : RexMatch} (h : searchRex t = some m) : strip t ≠ [] := by
  intro hs
  have := searchRex_allSpace t (strip_eq_nil hs)
  simp [this] at h

/-- without a match `re.sub` changes nothing -/
theorem subGo_id (A : Answers) (o : Opts) (s : Str) (h : searchRex s = none) : subGo A o 0 s = .ok s := by
  induction s with
  | nil => rfl
  | cons c cs ih =>
    unfold searchRex at h
    cases hm : matchRexAt (c :: cs) with
    | some m => simp [hm] at h
    | none =>
      simp only [hm] at h
      simp [subGo, hm, ih h, bind, Except.bind, pure, Except.pure]

/-! ### what `classify` says about a line -/

theorem classify_other_of_noMatch (A : Answers) (o : Opts) (raw : Str) (hb : isBlankOrComment raw = false)
    (hm : searchRex (stripComment raw) = none) : classify A o raw = .ok (.other (stripComment raw)) := by
  unfold classify
  simp [hb, subAll, subGo_id A o _ hm, hm, bind, Except.bind, pure, Except.pure]

theorem classify_blank (A : Answers) (o : Opts) (raw : Str) (hb : isBlankOrComment raw = true) :
    classify A o raw = .ok (.blank raw) := by
  unfold classify; simp [hb, pure, Except.pure]

/-- every classified line that is not blank is the comment-stripped, substituted input line, and
`setup`/`eups` lines are exactly those on which `rex` matches afterwards -/
theorem classify_spec {A : Answers} {o : Opts} {raw : Str} {c : Classified} (h : classify A o raw = .ok c) :
    (isBlankOrComment raw = true ∧ c = .blank raw) ∨
    (isBlankOrComment raw = false ∧ ∃ t, subAll A o (stripComment raw) = .ok t ∧
      ((searchRex t = none ∧ c = .other t) ∨
       (∃ m, searchRex t = some m ∧ (c = .eups t ∨ ∃ p, c = .setup t p)))) := by
  unfold classify at h
  by_cases hb : isBlankOrComment raw = true
  · simp [hb, pure, Except.pure] at h; exact .inl ⟨hb, h.symm⟩
  · simp only [hb, Bool.false_eq_true, if_false, bind, Except.bind] at h
    right
    refine ⟨by simpa using hb, ?_⟩
    cases hs : subAll A o (stripComment raw) with
    | error e => simp [hs] at h
    | ok t =>
      refine ⟨t, rfl, ?_⟩
      simp only [hs] at h
      cases hm : searchRex t with
      | none => simp [hm, pure, Except.pure] at h; exact .inl ⟨rfl, h.symm⟩
      | some m =>
        right
        refine ⟨m, rfl, ?_⟩
        simp only [hm] at h
        split at h
        · split at h
          · simp [pure, Except.pure] at h; exact .inl h.symm
          · simp [pure, Except.pure] at h; exact .inr ⟨_, h.symm⟩
        · simp [pure, Except.pure] at h; exact .inr ⟨_, h.symm⟩


/-! ## the table-level statements: which input lines are in the output, in which order -/

theorem mapM_ok_mem {α β : Type} {f : α → Except Err β} {l : List α} {cs : List β} (h : l.mapM f = .ok cs) :
    ∀ c ∈ cs, ∃ a ∈ l, f a = .ok c := by
  induction l generalizing cs with
  | nil => simp [pure, Except.pure] at h; subst h; simp
  | cons a rest ih =>
    simp only [List.mapM_cons, bind, Except.bind] at h
    cases ha : f a with
    | error e => simp [ha] at h
    | ok b =>
      simp only [ha] at h
      cases hr : rest.mapM f with
      | error e => simp [hr] at h
      | ok bs =>
        simp [hr, pure, Except.pure] at h
        subst h
        intro c hc
        simp only [List.mem_cons] at hc
        rcases hc with rfl | hc
        · exact ⟨a, by simp, ha⟩
        · obtain ⟨x, hx, hfx⟩ := ih hr c hc
          exact ⟨x, by simp [hx], hfx⟩

theorem isPreExact_line {b : Block} (h : isPreExact b = true) : ∃ l ∈ b.lines, preExactRe l.text = true := by
  unfold isPreExact at h
  simp only [Bool.and_eq_true] at h
  obtain ⟨_, h2⟩ := h
  split at h2
  · rename_i l hl; exact ⟨l, by simp [hl], h2⟩
  · simp at h2

theorem mem_allLines {st : RState} {b : Block} {l : BLine} (hb : b ∈ st.blocks) (hl : l ∈ b.lines) : l ∈ st.allLines := by
  simp only [RState.allLines, List.mem_flatMap]; exact ⟨b, hb, hl⟩

theorem allLines_init : (({} : RState)).allLines = [] := by simp [RState.allLines, RState.blocks]

theorem noPre_of_noExactLine {A : Answers} {o : Opts} {lines : List Str} {cs : List Classified}
    (hn : noExactLine A o lines = true) (hcs : lines.mapM (classify A o) = .ok cs) :
    NoPreExact (cs.foldl step {}).blocks := by
  intro b hb
  by_cases hp : isPreExact b = true
  · obtain ⟨l, hl, hre⟩ := isPreExact_line hp
    have hmem := mem_allLines hb hl
    rw [allLines_foldl, allLines_init, List.nil_append, List.mem_filterMap] at hmem
    obtain ⟨c, hc, hcl⟩ := hmem
    unfold noExactLine at hn
    simp only [hcs, List.all_eq_true] at hn
    have := hn c hc
    simp [hcl, hre] at this
  · simpa using hp

theorem filter_other_bline (cs : List Classified) :
    ((cs.filterMap Classified.bline).filter (·.kind = .other)).map (·.text) = cs.filterMap Classified.otherText := by
  induction cs with
  | nil => rfl
  | cons c cs ih =>
    cases c with
    | blank raw => simpa [List.filterMap_cons, Classified.bline, Classified.otherText] using ih
    | eups t => simpa [List.filterMap_cons, Classified.bline, Classified.otherText] using ih
    | setup t p => simpa [List.filterMap_cons, Classified.bline, Classified.otherText] using ih
    | other t => simpa [List.filterMap_cons, Classified.bline, Classified.otherText] using ih

theorem filter_setup_bline (cs : List Classified) :
    ((cs.filterMap Classified.bline).filter fun l => l.kind = .setup && !contains sExternal (strip l.text)).map
        (fun l => strip l.text)
      = ((cs.filterMap Classified.setupText).filter fun t => !contains sExternal (strip t)).map strip := by
  induction cs with
  | nil => rfl
  | cons c cs ih =>
    cases c with
    | blank raw => simpa [List.filterMap_cons, Classified.bline, Classified.setupText] using ih
    | eups t => simpa [List.filterMap_cons, Classified.bline, Classified.setupText] using ih
    | other t => simpa [List.filterMap_cons, Classified.bline, Classified.setupText] using ih
    | setup t p =>
      simp only [List.filterMap_cons, Classified.bline, Classified.setupText]
      by_cases hx : contains sExternal (strip t) = true <;> simp [List.filter_cons, hx, ih]

theorem origOf_fin (k : LKind) (l : List Str) : (l.map Item.fin).filterMap (origOf k) = [] := by
  induction l with
  | nil => rfl
  | cons a rest ih => simpa [List.filterMap_cons, origOf] using ih

/-- **Order and completeness of the non-setup lines**: the items that are input lines of kind `other` are,
in order and each once, the lines the reader classified as `other`. -/
theorem expand_other_lines {A : Answers} {o : Opts} {lines : List Str} {items : List Item}
    (h : expandItems A o lines = .ok items) (hn : noExactLine A o lines = true) :
    ∃ cs, lines.mapM (classify A o) = .ok cs ∧
      items.filterMap (origOf .other) = cs.filterMap Classified.otherText := by
  obtain ⟨st, c, vis, hr, _, hv, rfl⟩ := expandItems_ok h
  obtain ⟨cs, hcs, rfl⟩ := readAll_ok hr
  refine ⟨cs, hcs, ?_⟩
  have hnp := noPre_of_noExactLine hn hcs
  rw [visit_noPre _ 0 hnp] at hv
  cases hv
  have hk : ∀ ib ∈ enumFrom 0 (cs.foldl step {}).blocks, ib.2.KindsOk :=
    fun ib hib => kindsOk_foldl cs kindsOk_init _ (mem_enumFrom hib)
  rw [List.filterMap_append, origOf_fin, List.append_nil, origOf_other_emitVisited _ _ _ _ _ hk,
    flatMap_enumFrom (fun b => (b.lines.filter (·.kind = .other)).map (·.text)),
    flatMap_blocks_filter_map]
  have : (cs.foldl step {}).blocks.flatMap (·.lines) = (cs.foldl step {}).allLines := rfl
  rw [this, allLines_foldl, allLines_init, List.nil_append, filter_other_bline]

/-- **Order and completeness of the setup lines**: the items that are input lines of kind `setup` are, in
order and each once, the (rewritten, stripped) setup lines of the table except those labelled `--external`. -/
theorem expand_setup_lines {A : Answers} {o : Opts} {lines : List Str} {items : List Item}
    (h : expandItems A o lines = .ok items) (hn : noExactLine A o lines = true) :
    ∃ cs, lines.mapM (classify A o) = .ok cs ∧
      items.filterMap (origOf .setup)
        = ((cs.filterMap Classified.setupText).filter fun t => !contains sExternal (strip t)).map strip := by
  obtain ⟨st, c, vis, hr, _, hv, rfl⟩ := expandItems_ok h
  obtain ⟨cs, hcs, rfl⟩ := readAll_ok hr
  refine ⟨cs, hcs, ?_⟩
  have hnp := noPre_of_noExactLine hn hcs
  rw [visit_noPre _ 0 hnp] at hv
  cases hv
  have hk : ∀ ib ∈ enumFrom 0 (cs.foldl step {}).blocks, ib.2.KindsOk :=
    fun ib hib => kindsOk_foldl cs kindsOk_init _ (mem_enumFrom hib)
  have hne : ∀ ib ∈ enumFrom 0 (cs.foldl step {}).blocks, ∀ l ∈ ib.2.lines, l.kind = .setup → strip l.text ≠ [] := by
    intro ib hib l hl hkind
    have hmem := mem_allLines (mem_enumFrom hib) hl
    rw [allLines_foldl, allLines_init, List.nil_append, List.mem_filterMap] at hmem
    obtain ⟨cl, hcl, hb⟩ := hmem
    obtain ⟨raw, _, hraw⟩ := mapM_ok_mem hcs cl hcl
    rcases classify_spec hraw with ⟨_, rfl⟩ | ⟨_, t, _, ⟨_, rfl⟩ | ⟨m, hm, rfl | ⟨p, rfl⟩⟩⟩
    · simp [Classified.bline] at hb; subst hb; simp at hkind
    · simp [Classified.bline] at hb; subst hb; simp at hkind
    · simp [Classified.bline] at hb
    · simp [Classified.bline] at hb; subst hb; exact strip_ne_nil_of_searchRex hm
  rw [List.filterMap_append, origOf_fin, List.append_nil, origOf_setup_emitVisited _ _ _ _ _ hk hne,
    flatMap_enumFrom (fun b => (b.lines.filter fun l => l.kind = .setup && !contains sExternal (strip l.text)).map
      (fun l => strip l.text)),
    flatMap_blocks_filter_map]
  have : (cs.foldl step {}).blocks.flatMap (·.lines) = (cs.foldl step {}).allLines := rfl
  rw [this, allLines_foldl, allLines_init, List.nil_append, filter_setup_bline]


/-! ## `lastSetupBlock` points at a setup block -/

def RState.flags (st : RState) : List Bool := st.blocks.map (·.isSetup)

structure RState.LastOk (st : RState) : Prop where
  cur : st.cur.isSetup = true → st.lastSetup.isSome = true
  prods : st.products ≠ [] → st.lastSetup.isSome = true
  fin : st.final ≠ [] → st.lastSetup.isSome = true
  idx : ∀ i, st.lastSetup = some i → st.flags[i]? = some true

theorem flags_pushLine (st : RState) (k : LKind) (t : Str) : (pushLine st k t).flags = st.flags := by
  simp [RState.flags, RState.blocks, pushLine]

theorem lastOk_init : (({} : RState)).LastOk := ⟨by simp, by simp, by simp, by simp⟩

theorem lastOk_pushLine {st : RState} (h : st.LastOk) (k : LKind) (t : Str) : (pushLine st k t).LastOk :=
  ⟨by simpa [pushLine] using h.cur, by simpa [pushLine] using h.prods, by simpa [pushLine] using h.fin, by
    intro i hi; rw [flags_pushLine]; exact h.idx i (by simpa [pushLine] using hi)⟩

theorem lastOk_openSetup {st : RState} (h : st.LastOk) :
    (openSetup st).LastOk ∧ (openSetup st).lastSetup.isSome = true := by
  unfold openSetup
  split
  · refine ⟨⟨by simp, by simp, by simp, ?_⟩, by simp⟩
    intro i hi
    simp only [Option.some.injEq] at hi
    subst hi
    simp [RState.flags, RState.blocks]
  · rename_i hc
    have hc' : st.cur.isSetup = true := by simpa using hc
    exact ⟨h, h.cur hc'⟩

theorem lastOk_openOther {st : RState} (h : st.LastOk) : (openOther st).LastOk := by
  unfold openOther
  split
  · rename_i hc
    refine ⟨by simp, by simpa using h.prods, by simpa using h.fin, ?_⟩
    intro i hi
    have := h.idx i (by simpa using hi)
    simp only [RState.flags, RState.blocks, List.map_append, List.map_cons, List.map_nil] at this ⊢
    rw [List.getElem?_append_left]
    · exact this
    · have hlt := (List.getElem?_eq_some_iff.mp this).1
      simpa using hlt
  · exact h

theorem lastOk_step {st : RState} (h : st.LastOk) (c : Classified) : (step st c).LastOk := by
  cases c with
  | blank raw => exact lastOk_pushLine h _ _
  | eups t =>
    obtain ⟨h1, h2⟩ := lastOk_openSetup h
    exact ⟨h1.cur, h1.prods, fun _ => h2, h1.idx⟩
  | setup t p =>
    obtain ⟨h1, h2⟩ := lastOk_openSetup h
    cases p with
    | none => exact lastOk_pushLine h1 _ _
    | some p =>
      refine lastOk_pushLine (st := { openSetup st with products := (openSetup st).products ++ [p] }) ?_ _ _
      exact ⟨h1.cur, fun _ => h2, h1.fin, h1.idx⟩
  | other t => exact lastOk_pushLine (lastOk_openOther h) _ _

theorem lastOk_foldl (cs : List Classified) {st : RState} (h : st.LastOk) : (cs.foldl step st).LastOk := by
  induction cs generalizing st with
  | nil => exact h
  | cons c cs ih => exact ih (lastOk_step h c)

theorem lastOk_block {st : RState} (h : st.LastOk) {i : Nat} (hi : st.lastSetup = some i) :
    ∃ b, st.blocks[i]? = some b ∧ b.isSetup = true := by
  have := h.idx i hi
  simp only [RState.flags, List.getElem?_map, Option.map_eq_some_iff] at this
  exact this

/-! ## the pins are written exactly once, into the last setup block -/

def pinKey : Item → Option (Bool × Str × Str)
  | .pin _ opt n v => some (opt, n, v)
  | _ => none

def CState.pinKeys (c : CState) : List (Bool × Str × Str) :=
  c.desired.map fun (n, v) => (c.optional.contains (n, v) || c.notFound.contains n, n, v)

theorem pinKey_pinItems (ind : Int) (c : CState) : (pinItems ind c).filterMap pinKey = c.pinKeys := by
  unfold pinItems CState.pinKeys
  induction c.desired with
  | nil => rfl
  | cons p rest ih => obtain ⟨n, v⟩ := p; simp only [List.map_cons, List.filterMap_cons, pinKey, ih]

theorem pinKey_of_not_isPin (l : List Item) (h : ∀ x ∈ l, x.isPin = false) : l.filterMap pinKey = [] := by
  induction l with
  | nil => rfl
  | cons a rest ih =>
    have ha := h a (by simp)
    have := ih (fun x hx => h x (by simp [hx]))
    cases a <;> simp_all [List.filterMap_cons, pinKey, Item.isPin]

theorem pinKey_emitSetup (o : Opts) (isLast : Bool) (c : CState) (ind : Int) (lines : List BLine) :
    (emitSetup o isLast c ind lines).filterMap pinKey = if o.addExactBlock && isLast then c.pinKeys else [] := by
  have hl := fun i => pinKey_of_not_isPin _ (emitSetupLines_no_pin i lines)
  unfold emitSetup
  by_cases ha : o.addExactBlock = true
  · cases isLast <;> simp [ha, List.filterMap_append, List.filterMap_cons, pinKey, hl, pinKey_pinItems]
  · simp [ha, hl]

theorem pinKey_emitPlain (ind : Int) (lines : List BLine) : (emitPlain ind lines).1.filterMap pinKey = [] :=
  pinKey_of_not_isPin _ (emitPlain_no_pin ind lines)

/-- blocks with an index above `lastSetupBlock` (or with none) write no pin -/
theorem pinKey_emitVisited_none (o : Opts) (ls : Option Nat) (c : CState) (l : List Block) (k : Nat) (ind : Int)
    (h : ∀ i, ls = some i → i < k) : (emitVisited o ls c ind (enumFrom k l)).filterMap pinKey = [] := by
  induction l generalizing k ind with
  | nil => rfl
  | cons b rest ih =>
    have hr := fun ind => ih (k + 1) ind (fun i hi => Nat.lt_succ_of_lt (h i hi))
    have hk : (ls == some k) = false := by
      cases ls with
      | none => rfl
      | some i => have := h i rfl; simp; omega
    simp only [enumFrom]
    unfold emitVisited
    split
    · simp [List.filterMap_append, pinKey_emitSetup, hk, hr]
    · simp [List.filterMap_append, pinKey_emitPlain, hr]

theorem pinKey_emitVisited_some (o : Opts) (c : CState) (l : List Block) (k i : Nat) (ind : Int) (b : Block)
    (hki : k ≤ i) (hb : l[i - k]? = some b) (hs : b.isSetup = true) :
    (emitVisited o (some i) c ind (enumFrom k l)).filterMap pinKey = if o.addExactBlock then c.pinKeys else [] := by
  induction l generalizing k ind with
  | nil => simp at hb
  | cons b0 rest ih =>
    simp only [enumFrom]
    by_cases hik : i = k
    · subst hik
      simp only [Nat.sub_self, List.getElem?_cons_zero, Option.some.injEq] at hb
      subst hb
      have hr := fun ind => pinKey_emitVisited_none o (some i) c rest (i + 1) ind (fun j hj => by cases hj; omega)
      unfold emitVisited
      simp [hs, List.filterMap_append, pinKey_emitSetup, hr]
    · have hlt : k + 1 ≤ i := by omega
      have hb' : rest[i - (k + 1)]? = some b := by
        have : i - k = (i - (k + 1)) + 1 := by omega
        rw [this, List.getElem?_cons_succ] at hb; exact hb
      have hr := fun ind => ih (k + 1) ind hlt hb'
      have hne : (some i == some k) = false := by simp [hik]
      unfold emitVisited
      split
      · simp [List.filterMap_append, pinKey_emitSetup, hne, hr]
      · simp [List.filterMap_append, pinKey_emitPlain, hr]

theorem pinKey_fin (l : List Str) : (l.map Item.fin).filterMap pinKey = [] := by
  induction l with
  | nil => rfl
  | cons a rest ih => simpa [List.filterMap_cons, pinKey] using ih

theorem collect_nil_products {A : Answers} {o : Opts} {st : RState} {c : CState} (h : collect A o st = .ok c)
    (hp : st.products = []) : c.desired = [] := by
  unfold collect at h
  simp [hp, List.foldlM, pure, Except.pure] at h
  subst h; rfl

/-- **The pins of a successful expansion** (with `addExactBlock`, no pre-existing exact block) are, in order
and each once, the entries of `desiredProducts`. -/
theorem expand_pins {A : Answers} {o : Opts} {lines : List Str} {items : List Item}
    (h : expandItems A o lines = .ok items) (hn : noExactLine A o lines = true) (ha : o.addExactBlock = true) :
    ∃ st c, readAll A o lines = .ok st ∧ collect A o st = .ok c ∧ items.filterMap pinKey = c.pinKeys := by
  obtain ⟨st, c, vis, hr, hc, hv, rfl⟩ := expandItems_ok h
  refine ⟨st, c, hr, hc, ?_⟩
  obtain ⟨cs, hcs, rfl⟩ := readAll_ok hr
  have hnp := noPre_of_noExactLine hn hcs
  rw [visit_noPre _ 0 hnp] at hv
  cases hv
  rw [List.filterMap_append, pinKey_fin, List.append_nil]
  have hlo := lastOk_foldl cs lastOk_init
  cases hls : (cs.foldl step {}).lastSetup with
  | none =>
    have hp : (cs.foldl step {}).products = [] := by
      by_cases hp : (cs.foldl step {}).products = []
      · exact hp
      · have := hlo.prods hp; simp [hls] at this
    have hd := collect_nil_products hc hp
    rw [pinKey_emitVisited_none _ _ _ _ _ _ (by simp)]
    simp [CState.pinKeys, hd]
  | some i =>
    obtain ⟨b, hb, hs⟩ := lastOk_block hlo hls
    rw [pinKey_emitVisited_some o c _ 0 i 0 b (Nat.zero_le _) (by simpa using hb) hs]
    simp [ha]


/-! ## completeness of the closure collection -/

theorem addDesired_mono (c : CState) (d : Dep) : ∀ q ∈ c.desired, q ∈ (addDesired c d).desired := by
  intro q hq; unfold addDesired; split
  · exact hq
  · simp [hq]

theorem addDesired_self (c : CState) (d : Dep) : (d.name, d.version) ∈ (addDesired c d).desired := by
  unfold addDesired; split
  · rename_i h; simpa using h
  · simp

theorem foldl_addDesired_mono (l : List Dep) (c : CState) : ∀ q ∈ c.desired, q ∈ (l.foldl addDesired c).desired := by
  induction l generalizing c with
  | nil => intro q hq; exact hq
  | cons d l ih => intro q hq; exact ih _ q (addDesired_mono c d q hq)

theorem foldl_addDesired_all (l : List Dep) (c : CState) :
    ∀ d ∈ l, (d.name, d.version) ∈ (l.foldl addDesired c).desired := by
  induction l generalizing c with
  | nil => simp
  | cons d0 l ih =>
    intro d hd
    simp only [List.mem_cons] at hd
    simp only [List.foldl_cons]
    rcases hd with rfl | hd
    · exact foldl_addDesired_mono l _ _ (addDesired_self c d)
    · exact ih _ d hd

theorem collectStep_complete {A : Answers} {o : Opts} {c c' : CState} {p : Prod}
    (h : collectStep A o c p = .ok c') :
    (∀ q ∈ c.desired, q ∈ c'.desired) ∧ ∀ d ∈ contrib A o p, (d.name, d.version) ∈ c'.desired := by
  unfold collectStep at h
  by_cases h1 : (o.toplevel == some p.name) = true
  · simp only [h1, if_true, pure, Except.pure] at h; cases h
    exact ⟨fun q hq => hq, by simp [contrib, h1]⟩
  · simp only [h1] at h
    by_cases h2 : p.external = true
    · simp only [h2, if_true, pure, Except.pure] at h; cases h
      exact ⟨fun q hq => hq, by simp [contrib, h1, h2]⟩
    · simp only [h2] at h
      cases hv : topVersion A p.name with
      | none =>
        simp only [hv] at h
        by_cases h4 : (!p.optional && !o.force) = true
        · simp [h4, throw, throwThe, MonadExceptOf.throw] at h
        · simp only [h4, pure, Except.pure] at h; cases h
          exact ⟨fun q hq => hq, by simp [contrib, h1, h2, hv]⟩
      | some v =>
        simp only [hv] at h
        by_cases h3 : (o.recurse && !p.noRecursion) = true
        · simp only [h3, if_true] at h
          cases hd : A.deps p.name v with
          | unknown => simp [hd, throw, throwThe, MonadExceptOf.throw] at h
          | raised =>
            simp only [hd] at h
            by_cases h4 : (!p.optional && !o.force) = true
            · simp [h4, throw, throwThe, MonadExceptOf.throw] at h
            · simp only [h4, pure, Except.pure] at h; cases h
              exact ⟨fun q hq => hq, by simp [contrib, h1, h2, hv, h3, hd]⟩
          | ok l =>
            simp only [hd, pure, Except.pure] at h; cases h
            refine ⟨foldl_addDesired_mono _ c, ?_⟩
            have := foldl_addDesired_all (⟨p.name, v, p.optional⟩ :: l) c
            simpa [contrib, h1, h2, hv, h3, hd] using this
        · simp only [h3, pure, Except.pure] at h; cases h
          refine ⟨addDesired_mono c _, ?_⟩
          have := addDesired_self c ⟨p.name, v, p.optional⟩
          simpa [contrib, h1, h2, hv, h3] using this

theorem foldlM_collect_complete {A : Answers} {o : Opts} (ps : List Prod) (c c' : CState)
    (h : ps.foldlM (collectStep A o) c = .ok c') :
    (∀ q ∈ c.desired, q ∈ c'.desired) ∧ ∀ p ∈ ps, ∀ d ∈ contrib A o p, (d.name, d.version) ∈ c'.desired := by
  induction ps generalizing c with
  | nil => simp [List.foldlM, pure, Except.pure] at h; subst h; simp
  | cons p ps ih =>
    simp only [List.foldlM_cons, bind, Except.bind] at h
    cases hs : collectStep A o c p with
    | error e => simp [hs] at h
    | ok c1 =>
      simp only [hs] at h
      obtain ⟨m1, a1⟩ := collectStep_complete hs
      obtain ⟨m2, a2⟩ := ih c1 h
      refine ⟨fun q hq => m2 q (m1 q hq), ?_⟩
      intro p' hp' d hd
      simp only [List.mem_cons] at hp'
      rcases hp' with rfl | hp'
      · exact m2 _ (a1 d hd)
      · exact a2 p' hp' d hd

theorem collect_complete {A : Answers} {o : Opts} {st : RState} {c : CState} (h : collect A o st = .ok c) :
    ∀ p ∈ st.products, ∀ d ∈ contrib A o p, (d.name, d.version) ∈ c.desired :=
  (foldlM_collect_complete _ _ _ h).2

/-! ## running the pins -/

abbrev Recs := Str → Option Str
def Recs.set (r : Recs) (n v : Str) : Recs := fun m => if m = n then some v else r m

/-- Reference semantics of a table that consists of `-j` pin lines only, in exact mode: a declared `(n, v)` is set
up (alone: `-j`), an undeclared one fails the setup when the line is `setupRequired` and is skipped when it is
`setupOptional`. -/
def runPins {Db : Type} (declared : Db → Str → Str → Bool) (db : Db) : List (Bool × Str × Str) → Recs → Option Recs
  | [], r => some r
  | (opt, n, v) :: rest, r =>
    if declared db n v then runPins declared db rest (r.set n v)
    else if opt then runPins declared db rest r else none

theorem runPins_spec {Db : Type} (declared : Db → Str → Str → Bool) (db : Db) (sv : Str → Option Str)
    (pins : List (Bool × Str × Str)) (r0 : Recs)
    (hp : ∀ x ∈ pins, declared db x.2.1 x.2.2 = true ∧ sv x.2.1 = some x.2.2) :
    ∃ r, runPins declared db pins r0 = some r ∧
      ∀ n, ((∃ x ∈ pins, x.2.1 = n) → r n = sv n) ∧ ((¬ ∃ x ∈ pins, x.2.1 = n) → r n = r0 n) := by
  induction pins generalizing r0 with
  | nil => exact ⟨r0, rfl, fun n => ⟨by simp, by simp⟩⟩
  | cons x rest ih =>
    obtain ⟨opt, n0, v0⟩ := x
    obtain ⟨hd, hs⟩ := hp (opt, n0, v0) (by simp)
    simp only at hd hs
    obtain ⟨r, hr, hspec⟩ := ih (r0.set n0 v0) (fun y hy => hp y (by simp [hy]))
    refine ⟨r, by simp [runPins, hd, hr], ?_⟩
    intro n
    obtain ⟨h1, h2⟩ := hspec n
    constructor
    · intro hex
      by_cases hin : ∃ y ∈ rest, y.2.1 = n
      · exact h1 hin
      · rw [h2 hin]
        obtain ⟨y, hy, hyn⟩ := hex
        simp only [List.mem_cons] at hy
        rcases hy with rfl | hy
        · simp only at hyn; subst hyn; simp [Recs.set, hs]
        · exact absurd ⟨y, hy, hyn⟩ hin
    · intro hnex
      have hin : ¬ ∃ y ∈ rest, y.2.1 = n := fun ⟨y, hy, hyn⟩ => hnex ⟨y, by simp [hy], hyn⟩
      rw [h2 hin]
      have : n ≠ n0 := fun e => hnex ⟨(opt, n0, v0), by simp, e.symm⟩
      simp [Recs.set, this]

/-- the pin items of an item list, with their indentation -/
theorem filter_isPin_eq (items : List Item) :
    ∃ pinsL : List (Int × Bool × Str × Str),
      items.filter Item.isPin = pinsL.map (fun x => Item.pin x.1 x.2.1 x.2.2.1 x.2.2.2) ∧
      pinsL.map (·.2) = items.filterMap pinKey := by
  induction items with
  | nil => exact ⟨[], rfl, rfl⟩
  | cons a rest ih =>
    obtain ⟨pl, h1, h2⟩ := ih
    cases a with
    | pin i opt n v => exact ⟨(i, opt, n, v) :: pl, by simp [List.filter_cons, Item.isPin, h1], by simp [List.filterMap_cons, pinKey, h2]⟩
    | orig i k t => exact ⟨pl, by simp [List.filter_cons, Item.isPin, h1], by simp [List.filterMap_cons, pinKey, h2]⟩
    | gen i t => exact ⟨pl, by simp [List.filter_cons, Item.isPin, h1], by simp [List.filterMap_cons, pinKey, h2]⟩
    | fin t => exact ⟨pl, by simp [List.filter_cons, Item.isPin, h1], by simp [List.filterMap_cons, pinKey, h2]⟩


/-! ## the final block -/

theorem addDesired_final (c : CState) (d : Dep) : (addDesired c d).final = c.final := by
  unfold addDesired; split <;> rfl

theorem foldl_addDesired_final (l : List Dep) (c : CState) : (l.foldl addDesired c).final = c.final := by
  induction l generalizing c with
  | nil => rfl
  | cons d l ih => simp only [List.foldl_cons]; rw [ih, addDesired_final]

theorem collectStep_final {A : Answers} {o : Opts} {c c' : CState} {p : Prod} (h : collectStep A o c p = .ok c') :
    c'.final = c.final ++ (if !(o.toplevel == some p.name) && p.external then [p.line] else []) := by
  unfold collectStep at h
  by_cases h1 : (o.toplevel == some p.name) = true
  · simp only [h1, if_true, pure, Except.pure] at h; cases h; simp [h1]
  · simp only [h1] at h
    by_cases h2 : p.external = true
    · simp only [h2, if_true, pure, Except.pure] at h; cases h; simp [h1, h2]
    · simp only [h2] at h
      have hfin := fun l => foldl_addDesired_final l c
      have hadd := addDesired_final c
      cases hv : topVersion A p.name with
      | none =>
        simp only [hv] at h
        by_cases h4 : (!p.optional && !o.force) = true
        · simp [h4, throw, throwThe, MonadExceptOf.throw] at h
        · simp only [h4, pure, Except.pure] at h; cases h; simp [h1, h2]
      | some v =>
        simp only [hv] at h
        by_cases h3 : (o.recurse && !p.noRecursion) = true
        · simp only [h3, if_true] at h
          cases hd : A.deps p.name v with
          | unknown => simp [hd, throw, throwThe, MonadExceptOf.throw] at h
          | raised =>
            simp only [hd] at h
            by_cases h4 : (!p.optional && !o.force) = true
            · simp [h4, throw, throwThe, MonadExceptOf.throw] at h
            · simp only [h4, pure, Except.pure] at h; cases h; simp [h1, h2]
          | ok l => simp only [hd, pure, Except.pure] at h; cases h; simp [h1, h2, foldl_addDesired_final, hadd]
        · simp only [h3, pure, Except.pure] at h; cases h; simp [h1, h2, hadd]

theorem foldlM_collect_final {A : Answers} {o : Opts} (ps : List Prod) (c c' : CState)
    (h : ps.foldlM (collectStep A o) c = .ok c') :
    c'.final = c.final ++ (ps.filter fun p => !(o.toplevel == some p.name) && p.external).map (·.line) := by
  induction ps generalizing c with
  | nil => simp [List.foldlM, pure, Except.pure] at h; subst h; simp
  | cons p ps ih =>
    simp only [List.foldlM_cons, bind, Except.bind] at h
    cases hs : collectStep A o c p with
    | error e => simp [hs] at h
    | ok c1 =>
      simp only [hs] at h
      rw [ih c1 h, collectStep_final hs]
      by_cases hx : (!(o.toplevel == some p.name) && p.external) = true <;> simp [List.filter_cons, hx]

/-- the final block: the `eups` lines, then the `--external` lines (of products other than the top-level one) -/
theorem collect_final {A : Answers} {o : Opts} {st : RState} {c : CState} (h : collect A o st = .ok c) :
    c.final = st.final ++ (st.products.filter fun p => !(o.toplevel == some p.name) && p.external).map (·.line) := by
  unfold collect at h
  simpa using foldlM_collect_final _ _ _ h

def finText : Item → Option Str
  | .fin t => some t
  | _ => none

theorem finText_emitVisited (o : Opts) (ls : Option Nat) (c : CState) (vis : List (Nat × Block)) (ind : Int) :
    (emitVisited o ls c ind vis).filterMap finText = [] := by
  induction vis generalizing ind with
  | nil => rfl
  | cons ib rest ih =>
    obtain ⟨i, b⟩ := ib
    have hplain : ∀ ind, (emitPlain ind b.lines).1.filterMap finText = [] := by
      intro ind
      unfold emitPlain
      split
      · rfl
      · split
        · simp [List.filterMap_cons, List.filterMap_map, finText, Function.comp_def]
        · split <;> simp [List.filterMap_cons, List.filterMap_map, finText, Function.comp_def]
    have hlines : ∀ ind, (emitSetupLines ind b.lines).filterMap finText = [] := by
      intro ind
      induction b.lines using emitSetupLines.induct ind with
      | case1 => rfl
      | case2 l t hx => simp [emitSetupLines, t, hx]
      | case3 l t h1 h2 => simp [emitSetupLines, t, h1, h2]
      | case4 l t h1 h2 => simp [emitSetupLines, t, h1, h2, finText]
      | case5 l l2 rest ih2 =>
        simp only [emitSetupLines, List.filterMap_append, ih2, List.append_nil]
        split <;> simp [finText]
    have hpins : ∀ ind, (pinItems ind c).filterMap finText = [] := by
      intro ind; unfold pinItems
      simp [List.filterMap_map, Function.comp_def, finText]
    unfold emitVisited
    split
    · unfold emitSetup
      split
      · split <;> simp [List.filterMap_append, List.filterMap_cons, finText, hlines, hpins, ih]
      · simp [List.filterMap_append, hlines, ih]
    · simp [List.filterMap_append, hplain, ih]

theorem finText_fin (l : List Str) : (l.map Item.fin).filterMap finText = l := by
  induction l with
  | nil => rfl
  | cons a rest ih => simp [List.filterMap_cons, finText, ih]

theorem expand_final {A : Answers} {o : Opts} {lines : List Str} {items : List Item}
    (h : expandItems A o lines = .ok items) :
    ∃ cs, lines.mapM (classify A o) = .ok cs ∧
      items.filterMap finText = cs.filterMap Classified.finalLine ++
        ((cs.filterMap Classified.prod).filter fun p => !(o.toplevel == some p.name) && p.external).map (·.line) := by
  obtain ⟨st, c, vis, hr, hc, _, rfl⟩ := expandItems_ok h
  obtain ⟨cs, hcs, rfl⟩ := readAll_ok hr
  refine ⟨cs, hcs, ?_⟩
  rw [List.filterMap_append, finText_emitVisited, List.nil_append, finText_fin, collect_final hc,
    final_foldl, products_foldl]
  simp


/-! ## the named hypotheses of the C17 theorems, and their decidable forms on finite answer tables -/

/-- **Hypothesis `DepsSound`** (to be discharged by the models of C13 `getDependentProducts(setup=True)` and C01):
every `(n, v)` a dependency listing with `setup=True` returns is the version of `n` that is set up. -/
def DepsSound (A : Answers) : Prop :=
  ∀ n v l, A.deps n v = .ok l → ∀ d ∈ l, A.sv d.name = some d.version

/-- Everything that is set up (other than the top-level product itself) is a product of the table or is listed by
`getDependencies` for one whose line does not carry `-j` — i.e. the build-time environment is the closure of the table
and nothing else, and the dependency listings are complete.  (Hypothesis for the Setup (C01) and Deps (C13) models.) -/
def Covered (A : Answers) (o : Opts) (st : RState) : Prop :=
  ∀ n v, A.sv n = some v → o.toplevel ≠ some n → ∃ p ∈ st.products, ∃ d ∈ contrib A o p, d.name = n


theorem lookup_mem {l : List (Str × Str)} {k v : Str} (h : lookup l k = some v) : (k, v) ∈ l := by
  induction l with
  | nil => simp [lookup] at h
  | cons e rest ih =>
    obtain ⟨k', v'⟩ := e
    unfold lookup at h
    by_cases hk : (k' == k) = true
    · simp only [hk, if_true, Option.some.injEq] at h
      have : k' = k := by simpa using hk
      subst this; subst h; simp
    · simp only [hk] at h
      simp [ih h]

theorem depsSound_of_data {d : AnswerData} (h : d.depsSound = true) : DepsSound d.toAnswers := by
  intro n v l hl x hx
  unfold AnswerData.depsSound at h
  simp only [List.all_eq_true] at h
  have key : ∀ (tbl : List ((Str × Str) × Option (List Dep))), depsLookup tbl n v = .ok l →
      ∃ e ∈ tbl, e.2 = some l := by
    intro tbl
    induction tbl with
    | nil => intro h; simp [depsLookup] at h
    | cons e rest ih =>
      obtain ⟨⟨n', v'⟩, r⟩ := e
      intro h
      unfold depsLookup at h
      by_cases hk : (n' == n && v' == v) = true
      · simp only [hk, if_true] at h
        cases r with
        | none => simp at h
        | some dl => simp at h; subst h; exact ⟨((n', v'), some dl), by simp, rfl⟩
      · simp only [hk] at h
        obtain ⟨e, he, hr⟩ := ih h
        exact ⟨e, by simp [he], hr⟩
  obtain ⟨e, he, hr⟩ := key d.deps (by simpa [AnswerData.toAnswers] using hl)
  have := h e he
  simp only [hr, List.all_eq_true] at this
  have := this x hx
  simpa [AnswerData.toAnswers] using this

theorem pinsAgree_of_data {d : AnswerData} (h : d.pinsAgree = true) :
    ∀ n v, d.toAnswers.pin n = some v → d.toAnswers.sv n = some v := by
  intro n v hp
  unfold AnswerData.pinsAgree at h
  simp only [List.all_eq_true] at h
  have := h (n, v) (lookup_mem (by simpa [AnswerData.toAnswers] using hp))
  simpa [AnswerData.toAnswers] using this

theorem covered_of_data {d : AnswerData} {o : Opts} {lines : List Str} (h : d.covered o lines = true) :
    ∀ st, readAll d.toAnswers o lines = .ok st → Covered d.toAnswers o st := by
  intro st hst n v hsv hne
  unfold AnswerData.covered at h
  simp only [hst, List.all_eq_true] at h
  have := h (n, v) (lookup_mem (by simpa [AnswerData.toAnswers] using hsv))
  simp only [Bool.or_eq_true, List.any_eq_true] at this
  rcases this with htop | ⟨p, hp, x, hx, hxn⟩
  · have : o.toplevel = some n := by simpa using htop
    exact absurd this hne
  · exact ⟨p, hp, x, hx, by simpa using hxn⟩


/-! ## text level: the exact branch of the rendered table -/

/-- The lines of the (first) exact branch of a table text: what stands between the first line that reads
`if (type == exact) {` and the next line that reads `} else {` (white space around the lines ignored). -/
def takeUntilElse : List Str → List Str
  | [] => []
  | l :: rest => if strip l == sElse then [] else l :: takeUntilElse rest

def exactBranchText : List Str → List Str
  | [] => []
  | l :: rest => if strip l == sIfExact then takeUntilElse rest else exactBranchText rest

theorem dropWhile_idem (p : Nat → Bool) (l : List Nat) : (l.dropWhile p).dropWhile p = l.dropWhile p := by
  induction l with
  | nil => rfl
  | cons a rest ih =>
    by_cases h : p a = true
    · simp [List.dropWhile_cons, h, ih]
    · simp [List.dropWhile_cons, h]

theorem rstrip_idem (x : Str) : rstrip (rstrip x) = rstrip x := by
  simp [rstrip, dropWhile_idem]

theorem dropWhile_append_single {p : Nat → Bool} {a : Nat} (h : p a = false) (xs : List Nat) :
    ∃ ys, (xs ++ [a]).dropWhile p = ys ++ [a] := by
  induction xs with
  | nil => exact ⟨[], by simp [List.dropWhile_cons, h]⟩
  | cons x xs ih =>
    by_cases hx : p x = true
    · obtain ⟨ys, hys⟩ := ih
      exact ⟨ys, by simp [List.dropWhile_cons, hx, hys]⟩
    · exact ⟨x :: xs, by simp [List.dropWhile_cons, hx]⟩

theorem rstrip_cons_of_not_space {a : Nat} {rest : Str} (h : Str.isSpace a = false) : ∃ r, rstrip (a :: rest) = a :: r := by
  obtain ⟨ys, hys⟩ := dropWhile_append_single h rest.reverse
  exact ⟨ys.reverse, by simp [rstrip, hys]⟩

theorem lstrip_head (s : Str) : lstrip s = [] ∨ ∃ a r, lstrip s = a :: r ∧ Str.isSpace a = false := by
  induction s with
  | nil => exact .inl rfl
  | cons c cs ih =>
    by_cases h : Str.isSpace c = true
    · simpa [lstrip, List.dropWhile_cons, h] using ih
    · exact .inr ⟨c, cs, by simp [lstrip, List.dropWhile_cons, h], by simpa using h⟩

theorem lstrip_cons_of_not_space {a : Nat} {r : Str} (h : Str.isSpace a = false) : lstrip (a :: r) = a :: r := by
  simp [lstrip, List.dropWhile_cons, h]

theorem strip_idem (s : Str) : strip (strip s) = strip s := by
  unfold strip
  rcases lstrip_head s with h | ⟨a, r, h, ha⟩
  · rw [h]; rfl
  · rw [h]
    obtain ⟨r', hr'⟩ := rstrip_cons_of_not_space (rest := r) ha
    rw [hr', lstrip_cons_of_not_space ha, ← hr', rstrip_idem]

theorem strip_cons_of_not_space {a : Nat} {rest : Str} (h : Str.isSpace a = false) : ∃ r, strip (a :: rest) = a :: r := by
  unfold strip
  rw [lstrip_cons_of_not_space h]
  exact rstrip_cons_of_not_space h

theorem lstrip_replicate_append (n : Nat) (s : Str) : lstrip (List.replicate n cSp ++ s) = lstrip s := by
  induction n with
  | zero => rfl
  | succ n ih =>
    have : Str.isSpace cSp = true := by decide
    simpa [lstrip, List.replicate_succ, List.dropWhile_cons, this] using ih

theorem strip_indent (ind : Int) (s : Str) : strip (indentStr ind ++ s) = strip s := by
  unfold strip indentStr
  rw [lstrip_replicate_append]

theorem sIfExact_eq : sIfExact = [105, 102, 32, 40, 116, 121, 112, 101, 32, 61, 61, 32, 101, 120, 97, 99, 116, 41, 32, 123] := by decide

theorem preExactAt_lit (w : Str) : preExactAt (sIfExact ++ w) = true := by
  rw [sIfExact_eq]
  simp [preExactAt, lstrip, List.isPrefixOf, List.dropWhile, Str.isSpace, Str.ofString, cLbrace]

theorem preExactRe_append (w s : Str) (h : preExactRe s = true) : preExactRe (w ++ s) = true := by
  induction w with
  | nil => exact h
  | cons c cs ih => simp [preExactRe, ih]

/-- a line that reads `if (type == exact) {` matches the expander's own pattern for a pre-existing exact block -/
theorem preExactRe_of_strip {t : Str} (h : strip t = sIfExact) : preExactRe t = true := by
  have h1 : t = t.takeWhile Str.isSpace ++ lstrip t := by simp [lstrip, List.takeWhile_append_dropWhile]
  have h2 : lstrip t = rstrip (lstrip t) ++ ((lstrip t).reverse.takeWhile Str.isSpace).reverse := by
    have := List.takeWhile_append_dropWhile (p := Str.isSpace) (l := (lstrip t).reverse)
    have h3 := congrArg List.reverse this
    simp only [List.reverse_append, List.reverse_reverse] at h3
    simpa [rstrip] using h3.symm
  have h3 : strip t = rstrip (lstrip t) := rfl
  rw [h1, h2, ← h3, h]
  apply preExactRe_append
  have := preExactAt_lit ((lstrip t).reverse.takeWhile Str.isSpace).reverse
  rw [sIfExact_eq] at this ⊢
  simp only [List.cons_append, preExactRe, Bool.or_eq_true]
  exact .inl this

theorem takeUntilElse_split (mid post : List Str) (e : Str) (hmid : ∀ l ∈ mid, strip l ≠ sElse) (he : strip e = sElse) :
    takeUntilElse (mid ++ e :: post) = mid := by
  induction mid with
  | nil => simp [takeUntilElse, he]
  | cons m rest ih =>
    have hm : (strip m == sElse) = false := by simpa using hmid m (by simp)
    simp [takeUntilElse, hm, ih (fun l hl => hmid l (by simp [hl]))]

theorem exactBranchText_split (pre mid post : List Str) (a e : Str) (hpre : ∀ l ∈ pre, strip l ≠ sIfExact)
    (ha : strip a = sIfExact) (hmid : ∀ l ∈ mid, strip l ≠ sElse) (he : strip e = sElse) :
    exactBranchText (pre ++ a :: (mid ++ e :: post)) = mid := by
  induction pre with
  | nil => simp [exactBranchText, ha, takeUntilElse_split mid post e hmid he]
  | cons p rest ih =>
    have hp : (strip p == sIfExact) = false := by simpa using hpre p (by simp)
    simp [exactBranchText, hp, ih (fun l hl => hpre l (by simp [hl]))]

theorem exactBranchText_none (ls : List Str) (h : ∀ l ∈ ls, strip l ≠ sIfExact) : exactBranchText ls = [] := by
  induction ls with
  | nil => rfl
  | cons p rest ih =>
    have hp : (strip p == sIfExact) = false := by simpa using h p (by simp)
    simp [exactBranchText, hp, ih (fun l hl => h l (by simp [hl]))]

/-- what can stand before the exact block: input lines and the frame of earlier setup blocks -/
def PreItem (lines : List BLine) : Item → Prop
  | .orig _ _ t => ∃ l ∈ lines, t = l.text ∨ t = strip l.text
  | .gen _ t => t = sIfNotExact ∨ t = sClose
  | _ => False

theorem PreItem_mono {ls ls' : List BLine} (h : ∀ l ∈ ls, l ∈ ls') {x : Item} (hx : PreItem ls x) : PreItem ls' x := by
  cases x with
  | orig i k t => obtain ⟨l, hl, ht⟩ := hx; exact ⟨l, h l hl, ht⟩
  | gen i t => exact hx
  | pin i o n v => exact hx
  | fin t => exact hx

theorem emitPlain_pre (ind : Int) (ls : List BLine) : ∀ x ∈ (emitPlain ind ls).1, PreItem ls x := by
  intro x hx
  unfold emitPlain at hx
  split at hx
  · simp at hx
  · rename_i l rest
    have key : ∀ (f : BLine → Int) (sub : List BLine), (∀ y ∈ sub, y ∈ l :: rest) →
        ∀ x ∈ sub.map (fun y => Item.orig (f y) y.kind y.text), PreItem (l :: rest) x := by
      intro f sub hsub x hx
      simp only [List.mem_map] at hx
      obtain ⟨y, hy, rfl⟩ := hx
      exact ⟨y, hsub y hy, .inl rfl⟩
    split at hx
    · simp only [List.mem_cons] at hx
      rcases hx with rfl | hx
      · exact ⟨l, by simp, .inl rfl⟩
      · exact key (fun _ => ind + 1) rest (fun y hy => by simp [hy]) x hx
    · split at hx
      · simp only [List.mem_cons] at hx
        rcases hx with rfl | hx
        · exact ⟨l, by simp, .inl rfl⟩
        · exact key (fun _ => ind - 1) rest (fun y hy => by simp [hy]) x hx
      · exact key (fun _ => ind) (l :: rest) (fun y hy => hy) x hx

theorem emitSetupLines_pre (ind : Int) (ls : List BLine) : ∀ x ∈ emitSetupLines ind ls, PreItem ls x := by
  intro x hx
  induction ls using emitSetupLines.induct ind with
  | case1 => simp [emitSetupLines] at hx
  | case2 l t h => simp [emitSetupLines, t, h] at hx
  | case3 l t h1 h2 => simp [emitSetupLines, t, h1, h2] at hx
  | case4 l t h1 h2 =>
    simp [emitSetupLines, t, h1, h2] at hx; subst hx
    exact ⟨l, by simp, .inr rfl⟩
  | case5 l l2 rest ih =>
    simp only [emitSetupLines, List.mem_append] at hx
    rcases hx with hx | hx
    · split at hx
      · simp at hx
      · simp at hx; subst hx; exact ⟨l, by simp, .inr rfl⟩
    · exact PreItem_mono (fun y hy => by simp [hy]) (ih hx)

theorem emitSetup_false_pre (o : Opts) (c : CState) (ind : Int) (ls : List BLine) :
    ∀ x ∈ emitSetup o false c ind ls, PreItem ls x := by
  intro x hx
  unfold emitSetup at hx
  split at hx
  · simp only [Bool.false_eq_true, if_false, List.mem_append, List.mem_singleton] at hx
    rcases hx with (rfl | hx) | rfl
    · exact .inl rfl
    · exact emitSetupLines_pre _ _ x hx
    · exact .inr rfl
  · exact emitSetupLines_pre _ _ x hx

/-- no block with an index other than `lastSetupBlock` writes anything but `PreItem`s -/
theorem emitVisited_pre (o : Opts) (ls : Option Nat) (c : CState) (l : List Block) (k : Nat) (ind : Int)
    (h : ∀ i, ls = some i → i < k) : ∀ x ∈ emitVisited o ls c ind (enumFrom k l), PreItem (l.flatMap (·.lines)) x := by
  induction l generalizing k ind with
  | nil => intro x hx; simp [enumFrom, emitVisited] at hx
  | cons b rest ih =>
    have hr := fun ind => ih (k + 1) ind (fun i hi => Nat.lt_succ_of_lt (h i hi))
    have hk : (ls == some k) = false := by
      cases ls with
      | none => rfl
      | some i => have := h i rfl; simp; omega
    intro x hx
    simp only [enumFrom] at hx
    unfold emitVisited at hx
    split at hx
    · simp only [List.mem_append, hk] at hx
      rcases hx with hx | hx
      · exact PreItem_mono (fun y hy => by simp [hy]) (emitSetup_false_pre o c ind b.lines x hx)
      · exact PreItem_mono (fun y hy => by simp [hy]) (hr _ x hx)
    · simp only [List.mem_append] at hx
      rcases hx with hx | hx
      · exact PreItem_mono (fun y hy => by simp [hy]) (emitPlain_pre ind b.lines x hx)
      · exact PreItem_mono (fun y hy => by simp [hy]) (hr _ x hx)

/-- the output up to and including the last setup block -/
theorem emitVisited_split (o : Opts) (c : CState) (l : List Block) (k i : Nat) (ind : Int) (b : Block)
    (hki : k ≤ i) (hb : l[i - k]? = some b) (hs : b.isSetup = true) :
    ∃ pre post ind', emitVisited o (some i) c ind (enumFrom k l) = pre ++ emitSetup o true c ind' b.lines ++ post ∧
      ∀ x ∈ pre, PreItem (l.flatMap (·.lines)) x := by
  induction l generalizing k ind with
  | nil => simp at hb
  | cons b0 rest ih =>
    simp only [enumFrom]
    by_cases hik : i = k
    · subst hik
      simp only [Nat.sub_self, List.getElem?_cons_zero, Option.some.injEq] at hb
      subst hb
      refine ⟨[], emitVisited o (some i) c ind (enumFrom (i + 1) rest), ind, ?_, by simp⟩
      rw [emitVisited]
      simp [hs]
    · have hlt : k + 1 ≤ i := by omega
      have hb' : rest[i - (k + 1)]? = some b := by
        have : i - k = (i - (k + 1)) + 1 := by omega
        rw [this, List.getElem?_cons_succ] at hb; exact hb
      have hne : (some i == some k) = false := by simp [hik]
      rw [emitVisited]
      split
      · obtain ⟨pre, post, ind', heq, hpre⟩ := ih (k + 1) ind hlt hb'
        refine ⟨emitSetup o (some i == some k) c ind b0.lines ++ pre, post, ind', by simp [heq], ?_⟩
        intro x hx
        simp only [List.mem_append] at hx
        rcases hx with hx | hx
        · rw [hne] at hx
          exact PreItem_mono (fun y hy => by simp [hy]) (emitSetup_false_pre o c ind b0.lines x hx)
        · exact PreItem_mono (fun y hy => by simp [hy]) (hpre x hx)
      · obtain ⟨pre, post, ind', heq, hpre⟩ := ih (k + 1) (emitPlain ind b0.lines).2 hlt hb'
        refine ⟨(emitPlain ind b0.lines).1 ++ pre, post, ind', by simp [heq], ?_⟩
        intro x hx
        simp only [List.mem_append] at hx
        rcases hx with hx | hx
        · exact PreItem_mono (fun y hy => by simp [hy]) (emitPlain_pre ind b0.lines x hx)
        · exact PreItem_mono (fun y hy => by simp [hy]) (hpre x hx)

theorem strip_sIfExact : strip sIfExact = sIfExact := by decide
theorem strip_sElse : strip sElse = sElse := by decide
theorem strip_sIfNotExact_ne : strip sIfNotExact ≠ sIfExact := by decide
theorem strip_sClose_ne : strip sClose ≠ sIfExact := by decide

theorem render_pre_ne {lines : List BLine} (hl : ∀ l ∈ lines, preExactRe l.text = false) {x : Item}
    (hx : PreItem lines x) : strip (renderItem x) ≠ sIfExact := by
  cases x with
  | orig i k t =>
    obtain ⟨l, hmem, ht⟩ := hx
    simp only [renderItem, strip_indent, strip_idem]
    intro h
    have hre : preExactRe l.text = true := by
      rcases ht with rfl | rfl
      · exact preExactRe_of_strip h
      · rw [strip_idem] at h; exact preExactRe_of_strip h
    rw [hl l hmem] at hre; cases hre
  | gen i t =>
    simp only [renderItem, strip_indent, strip_idem]
    rcases hx with rfl | rfl
    · exact strip_sIfNotExact_ne
    · exact strip_sClose_ne
  | pin i o n v => exact absurd hx id
  | fin t => exact absurd hx id

theorem cmdName_head (opt : Bool) : ∃ r, cmdName opt = 115 :: r := by
  cases opt
  · exact ⟨sSetupRequired.tail, by decide⟩
  · exact ⟨sSetupOptional.tail, by decide⟩

theorem render_pin_ne_else (ind : Int) (opt : Bool) (n v : Str) : strip (renderItem (.pin ind opt n v)) ≠ sElse := by
  simp only [renderItem, strip_indent, strip_idem]
  obtain ⟨r, hr⟩ := cmdName_head opt
  have hsp : Str.isSpace 115 = false := by decide
  obtain ⟨r', hr'⟩ := strip_cons_of_not_space (a := 115) (rest := r ++ [cLpar] ++ pad15 n ++ sJ ++ v ++ [cRpar]) hsp
  have : pinText opt n v = 115 :: (r ++ [cLpar] ++ pad15 n ++ sJ ++ v ++ [cRpar]) := by simp [pinText, hr]
  rw [this, hr']
  have : sElse = 125 :: (Str.ofString " else {") := by decide
  rw [this]
  intro h; cases h


theorem strip_render_gen_ifExact (ind : Int) : strip (renderItem (.gen ind sIfExact)) = sIfExact := by
  simp only [renderItem, strip_indent, strip_idem]; exact strip_sIfExact

theorem strip_render_gen_else (ind : Int) : strip (renderItem (.gen ind sElse)) = sElse := by
  simp only [renderItem, strip_indent, strip_idem]; exact strip_sElse

/-- **The exact branch of the text** the expander writes (read off the text alone: the lines between the first
`if (type == exact) {` and the following `} else {`) consists of exactly the pin lines of `desiredProducts`; without a
setup line in the table there is no such branch. -/
theorem expand_exact_branch_text {A : Answers} {o : Opts} {lines : List Str} {items : List Item}
    (h : expandItems A o lines = .ok items) (hn : noExactLine A o lines = true) (ha : o.addExactBlock = true) :
    ∃ st c ind, readAll A o lines = .ok st ∧ collect A o st = .ok c ∧
      exactBranchText (items.map renderItem) = if st.lastSetup.isSome then (pinItems ind c).map renderItem else [] := by
  obtain ⟨st, c, vis, hr, hc, hv, rfl⟩ := expandItems_ok h
  obtain ⟨cs, hcs, rfl⟩ := readAll_ok hr
  have hnp := noPre_of_noExactLine hn hcs
  rw [visit_noPre _ 0 hnp] at hv
  cases hv
  have hlo := lastOk_foldl cs lastOk_init
  -- no stored line matches the pattern of a pre-existing exact block
  have hlines : ∀ l ∈ (cs.foldl step {}).blocks.flatMap (·.lines), preExactRe l.text = false := by
    intro l hl
    have hmem : l ∈ (cs.foldl step {}).allLines := hl
    rw [allLines_foldl, allLines_init, List.nil_append, List.mem_filterMap] at hmem
    obtain ⟨cl, hcl, hb⟩ := hmem
    unfold noExactLine at hn
    simp only [hcs, List.all_eq_true] at hn
    have := hn cl hcl
    simpa [hb] using this
  cases hls : (cs.foldl step {}).lastSetup with
  | none =>
    refine ⟨_, c, 0, hr, hc, ?_⟩
    simp only [hls, Option.isSome_none, Bool.false_eq_true, if_false]
    have hfin : c.final = [] := by
      rw [collect_final hc]
      have h1 : (cs.foldl step {}).final = [] := by
        by_cases hf : (cs.foldl step {}).final = []
        · exact hf
        · have := hlo.fin hf; simp [hls] at this
      have h2 : (cs.foldl step {}).products = [] := by
        by_cases hp : (cs.foldl step {}).products = []
        · exact hp
        · have := hlo.prods hp; simp [hls] at this
      simp [h1, h2]
    apply exactBranchText_none
    intro l hl
    simp only [hfin, List.map_nil, List.append_nil, List.mem_map] at hl
    obtain ⟨x, hx, rfl⟩ := hl
    exact render_pre_ne hlines (emitVisited_pre o none c _ 0 0 (by simp) x hx)
  | some i =>
    obtain ⟨b, hb, hs⟩ := lastOk_block hlo hls
    obtain ⟨pre, post, ind', heq, hpre⟩ := emitVisited_split o c _ 0 i 0 b (Nat.zero_le _) (by simpa using hb) hs
    refine ⟨_, c, ind' + 1, hr, hc, ?_⟩
    simp only [hls, Option.isSome_some, if_true]
    rw [heq, (show emitSetup o true c ind' b.lines
        = Item.gen ind' sIfExact :: (pinItems (ind' + 1) c ++ Item.gen ind' sElse :: (emitSetupLines (ind' + 1) b.lines ++ [Item.gen ind' sClose]))
        by simp [emitSetup, ha])]
    simp only [List.map_append, List.map_cons, List.append_assoc, List.cons_append]
    apply exactBranchText_split
    · intro l hl
      simp only [List.mem_map] at hl
      obtain ⟨x, hx, rfl⟩ := hl
      exact render_pre_ne hlines (hpre x hx)
    · exact strip_render_gen_ifExact ind'
    · intro l hl
      simp only [List.mem_map] at hl
      obtain ⟨x, hx, rfl⟩ := hl
      obtain ⟨n, v, _, rfl⟩ := mem_pinItems hx
      exact render_pin_ne_else _ _ _ _
    · exact strip_render_gen_else ind'


/-! ## `desiredProducts` holds every pair once -/

theorem addDesired_nodup {c : CState} (h : c.desired.Nodup) (d : Dep) : (addDesired c d).desired.Nodup := by
  unfold addDesired
  split
  · exact h
  · rename_i hc
    simp only [List.nodup_append, List.nodup_cons, List.not_mem_nil, not_false_eq_true, List.nodup_nil, and_self,
      List.mem_singleton, true_and]
    refine ⟨h, ?_⟩
    intro a ha b hb
    subst hb
    intro e; subst e
    exact hc (by simpa using ha)

theorem foldl_addDesired_nodup (l : List Dep) {c : CState} (h : c.desired.Nodup) : (l.foldl addDesired c).desired.Nodup := by
  induction l generalizing c with
  | nil => exact h
  | cons d l ih => exact ih (addDesired_nodup h d)

theorem collectStep_nodup {A : Answers} {o : Opts} {c c' : CState} {p : Prod} (h : collectStep A o c p = .ok c')
    (hn : c.desired.Nodup) : c'.desired.Nodup := by
  unfold collectStep at h
  by_cases h1 : (o.toplevel == some p.name) = true
  · simp only [h1, if_true, pure, Except.pure] at h; cases h; exact hn
  · simp only [h1] at h
    by_cases h2 : p.external = true
    · simp only [h2, if_true, pure, Except.pure] at h; cases h; exact hn
    · simp only [h2] at h
      cases hv : topVersion A p.name with
      | none =>
        simp only [hv] at h
        by_cases h4 : (!p.optional && !o.force) = true
        · simp [h4, throw, throwThe, MonadExceptOf.throw] at h
        · simp only [h4, pure, Except.pure] at h; cases h; exact hn
      | some v =>
        simp only [hv] at h
        by_cases h3 : (o.recurse && !p.noRecursion) = true
        · simp only [h3, if_true] at h
          cases hd : A.deps p.name v with
          | unknown => simp [hd, throw, throwThe, MonadExceptOf.throw] at h
          | raised =>
            simp only [hd] at h
            by_cases h4 : (!p.optional && !o.force) = true
            · simp [h4, throw, throwThe, MonadExceptOf.throw] at h
            · simp only [h4, pure, Except.pure] at h; cases h; exact hn
          | ok l => simp only [hd, pure, Except.pure] at h; cases h; exact foldl_addDesired_nodup _ hn
        · simp only [h3, pure, Except.pure] at h; cases h; exact addDesired_nodup hn _

theorem collect_nodup {A : Answers} {o : Opts} {st : RState} {c : CState} (h : collect A o st = .ok c) : c.desired.Nodup := by
  unfold collect at h
  suffices H : ∀ (ps : List Prod) (c0 c : CState), ps.foldlM (collectStep A o) c0 = .ok c → c0.desired.Nodup → c.desired.Nodup from
    H _ _ _ h (by simp)
  intro ps
  induction ps with
  | nil => intro c0 c h hn; simp [List.foldlM, pure, Except.pure] at h; subst h; exact hn
  | cons p ps ih =>
    intro c0 c h hn
    simp only [List.foldlM_cons, bind, Except.bind] at h
    cases hs : collectStep A o c0 p with
    | error e => simp [hs] at h
    | ok c1 => simp only [hs] at h; exact ih c1 c h (collectStep_nodup hs hn)

theorem nodup_map_of_inj_on {α β : Type} (f : α → β) (l : List α) (hn : l.Nodup)
    (hinj : ∀ a ∈ l, ∀ b ∈ l, f a = f b → a = b) : (l.map f).Nodup := by
  induction l with
  | nil => simp
  | cons a l ih =>
    simp only [List.nodup_cons] at hn
    simp only [List.map_cons, List.nodup_cons, List.mem_map, not_exists, not_and]
    refine ⟨?_, ih hn.2 (fun x hx y hy => hinj x (by simp [hx]) y (by simp [hy]))⟩
    intro b hb hfb
    have := hinj b (by simp [hb]) a (by simp) hfb
    subst this
    exact hn.1 hb

/-- when every collected pair is a record, the pinned names are distinct -/
theorem pinKeys_names_nodup {c : CState} {sv : Str → Option Str} (hn : c.desired.Nodup)
    (hsv : ∀ q ∈ c.desired, sv q.1 = some q.2) : (c.pinKeys.map (·.2.1)).Nodup := by
  have : c.pinKeys.map (·.2.1) = c.desired.map (·.1) := by
    simp [CState.pinKeys, List.map_map, Function.comp_def]
  rw [this]
  refine nodup_map_of_inj_on _ _ hn ?_
  intro a ha b hb hab
  have h1 := hsv a ha
  have h2 := hsv b hb
  rw [hab] at h1
  rw [h1] at h2
  exact Prod.ext hab (Option.some.inj h2)

end EupsModel.Expand
