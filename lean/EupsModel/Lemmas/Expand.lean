import EupsModel.Model.Expand
/-! Helper lemmas about the model of `expandTableFile` (`Model/Expand.lean`). -/
namespace EupsModel.Expand
open EupsModel

/-! ## shape of a successful run -/

theorem expandItems_ok {A : Answers} {o : Opts} {lines : List Str} {items : List Item}
    (h : expandItems A o lines = .ok items) :
    ∃ st c vis, readAll A o lines = .ok st ∧ collect A o st = .ok c ∧ visit 0 st.blocks = .ok vis ∧
      items = emitVisited o st.lastSetup c 0 vis ++ c.final.map .fin := by
  unfold expandItems at h
  cases hr : readAll A o lines with
  | error e => simp [hr, bind, Except.bind] at h
  | ok st =>
    cases hc : collect A o st with
    | error e => simp [hr, hc, bind, Except.bind] at h
    | ok c =>
      cases hv : visit 0 st.blocks with
      | error e => simp [hr, hc, hv, bind, Except.bind] at h
      | ok vis =>
        simp [hr, hc, hv, bind, Except.bind, pure, Except.pure] at h
        exact ⟨st, c, vis, rfl, hc, hv, h.symm⟩

/-! ## the closure collection -/

/-- `(n, v)` is a build-time record or a `-p` pin. -/
def Recorded (A : Answers) (n v : Str) : Prop := A.sv n = some v ∨ A.pin n = some v

/-- Where an entry of `desiredProducts` can come from, with no assumption on the environment: it is the
version assumed for a product of the table (pin or set-up version), or it was listed by
`getDependencies(..., setup=True)` for such a product. -/
def Sourced (A : Answers) (o : Opts) (n v : Str) : Prop :=
  Recorded A n v ∨
  (o.recurse = true ∧
    ∃ n0 v0 l d, Recorded A n0 v0 ∧ A.deps n0 v0 = .ok l ∧ d ∈ l ∧ d.name = n ∧ d.version = v)

theorem topVersion_recorded {A : Answers} {n v : Str} (h : topVersion A n = some v) : Recorded A n v := by
  unfold topVersion at h
  cases hp : A.pin n with
  | some p => simp [hp] at h; subst h; exact .inr hp
  | none => simp [hp] at h; exact .inl h

theorem mem_addDesired {c : CState} {d : Dep} {q : Str × Str} (h : q ∈ (addDesired c d).desired) :
    q ∈ c.desired ∨ q = (d.name, d.version) := by
  unfold addDesired at h
  split at h
  · exact .inl h
  · simp at h; exact h

theorem mem_foldl_addDesired (l : List Dep) (c : CState) (q : Str × Str)
    (h : q ∈ (l.foldl addDesired c).desired) : q ∈ c.desired ∨ ∃ d ∈ l, q = (d.name, d.version) := by
  induction l generalizing c with
  | nil => exact .inl h
  | cons d l ih =>
    simp only [List.foldl_cons] at h
    rcases ih _ h with h1 | ⟨d', hd', rfl⟩
    · rcases mem_addDesired h1 with h2 | rfl
      · exact .inl h2
      · exact .inr ⟨d, by simp, rfl⟩
    · exact .inr ⟨d', by simp [hd'], rfl⟩

theorem collectStep_desired {A : Answers} {o : Opts} {c c' : CState} {p : Prod}
    (h : collectStep A o c p = .ok c') (q : Str × Str) (hq : q ∈ c'.desired) :
    q ∈ c.desired ∨ Sourced A o q.1 q.2 := by
  unfold collectStep at h
  split at h
  · cases h; exact .inl hq
  · split at h
    · cases h; exact .inl hq
    · split at h
      · split at h
        · cases h
        · cases h; exact .inl hq
      · rename_i v hv
        have hrec := topVersion_recorded hv
        split at h
        · rename_i hrc
          split at h
          · cases h
          · split at h
            · cases h
            · cases h; exact .inl hq
          · rename_i l hl
            cases h
            rcases mem_foldl_addDesired _ _ _ hq with h1 | ⟨d, hd, rfl⟩
            · exact .inl h1
            · simp only [List.mem_cons] at hd
              rcases hd with rfl | hd
              · exact .inr (.inl hrec)
              · exact .inr (.inr ⟨by simp at hrc; exact hrc.1, p.name, v, l, d, hrec, hl, hd, rfl, rfl⟩)
        · cases h
          rcases mem_addDesired hq with h1 | rfl
          · exact .inl h1
          · exact .inr (.inl hrec)

theorem foldlM_collect_desired {A : Answers} {o : Opts} (ps : List Prod) (c c' : CState)
    (h : ps.foldlM (collectStep A o) c = .ok c') (q : Str × Str) (hq : q ∈ c'.desired) :
    q ∈ c.desired ∨ Sourced A o q.1 q.2 := by
  induction ps generalizing c with
  | nil => simp [List.foldlM, pure, Except.pure] at h; cases h; exact .inl hq
  | cons p ps ih =>
    simp only [List.foldlM_cons, bind, Except.bind] at h
    cases hs : collectStep A o c p with
    | error e => simp [hs] at h
    | ok c1 =>
      simp only [hs] at h
      rcases ih c1 h with h1 | h1
      · exact collectStep_desired hs q h1
      · exact .inr h1

theorem collect_desired {A : Answers} {o : Opts} {st : RState} {c : CState}
    (h : collect A o st = .ok c) (q : Str × Str) (hq : q ∈ c.desired) : Sourced A o q.1 q.2 := by
  unfold collect at h
  rcases foldlM_collect_desired _ _ _ h q hq with h1 | h1
  · simp at h1
  · exact h1

/-! ## the emission: where pins come from -/

def Item.isPin : Item → Bool
  | .pin .. => true
  | _ => false

theorem emitPlain_no_pin (ind : Int) (lines : List BLine) : ∀ x ∈ (emitPlain ind lines).1, x.isPin = false := by
  intro x hx
  unfold emitPlain at hx
  split at hx
  · simp at hx
  · split at hx
    · simp at hx; rcases hx with rfl | ⟨a, _, rfl⟩ <;> rfl
    · split at hx
      · simp at hx; rcases hx with rfl | ⟨a, _, rfl⟩ <;> rfl
      · simp at hx; rcases hx with rfl | ⟨a, _, rfl⟩ <;> rfl

theorem emitSetupLines_no_pin (ind : Int) (lines : List BLine) :
    ∀ x ∈ emitSetupLines ind lines, x.isPin = false := by
  intro x hx
  induction lines using emitSetupLines.induct ind with
  | case1 => simp [emitSetupLines] at hx
  | case2 l t h => simp [emitSetupLines, t, h] at hx
  | case3 l t h1 h2 => simp [emitSetupLines, t, h1, h2] at hx
  | case4 l t h1 h2 => simp [emitSetupLines, t, h1, h2] at hx; subst hx; rfl
  | case5 l l2 rest ih =>
    simp only [emitSetupLines, List.mem_append] at hx
    rcases hx with hx | hx
    · split at hx
      · simp at hx
      · simp at hx; subst hx; rfl
    · exact ih hx

theorem mem_pinItems {ind : Int} {c : CState} {x : Item} (h : x ∈ pinItems ind c) :
    ∃ n v, (n, v) ∈ c.desired ∧ x = .pin ind (c.optional.contains (n, v) || c.notFound.contains n) n v := by
  unfold pinItems at h
  simp only [List.mem_map] at h
  obtain ⟨⟨n, v⟩, hm, rfl⟩ := h
  exact ⟨n, v, hm, rfl⟩

theorem emitSetup_pin {o : Opts} {isLast : Bool} {c : CState} {ind : Int} {lines : List BLine} {x : Item}
    (hx : x ∈ emitSetup o isLast c ind lines) (hp : x.isPin = true) : x ∈ pinItems (ind + 1) c ∧ isLast = true ∧ o.addExactBlock = true := by
  unfold emitSetup at hx
  split at hx
  · rename_i hadd
    simp only [List.mem_append] at hx
    rcases hx with (hx | hx) | hx
    · split at hx
      · rename_i hl
        simp only [List.mem_append] at hx
        rcases hx with (hx | hx) | hx
        · simp at hx; subst hx; simp [Item.isPin] at hp
        · exact ⟨hx, hl, hadd⟩
        · simp at hx; subst hx; simp [Item.isPin] at hp
      · simp at hx; subst hx; simp [Item.isPin] at hp
    · have := emitSetupLines_no_pin _ _ x hx; simp [this] at hp
    · simp at hx; subst hx; simp [Item.isPin] at hp
  · have := emitSetupLines_no_pin _ _ x hx; simp [this] at hp

theorem emitVisited_pin {o : Opts} {ls : Option Nat} {c : CState} (vis : List (Nat × Block)) (ind : Int) {x : Item}
    (hx : x ∈ emitVisited o ls c ind vis) (hp : x.isPin = true) :
    ∃ i n v, (n, v) ∈ c.desired ∧ x = .pin i (c.optional.contains (n, v) || c.notFound.contains n) n v := by
  induction vis generalizing ind with
  | nil => simp [emitVisited] at hx
  | cons ib rest ih =>
    obtain ⟨i, b⟩ := ib
    unfold emitVisited at hx
    split at hx
    · simp only [List.mem_append] at hx
      rcases hx with hx | hx
      · obtain ⟨n, v, hm, rfl⟩ := mem_pinItems (emitSetup_pin hx hp).1
        exact ⟨_, n, v, hm, rfl⟩
      · exact ih _ hx
    · simp only [List.mem_append] at hx
      rcases hx with hx | hx
      · have := emitPlain_no_pin _ _ x hx; simp [this] at hp
      · exact ih _ hx

/-- Every pin line of a successful expansion is an entry of `desiredProducts`, hence `Sourced`. -/
theorem pin_sourced {A : Answers} {o : Opts} {lines : List Str} {items : List Item}
    (h : expandItems A o lines = .ok items) {ind : Int} {opt : Bool} {n v : Str}
    (hx : Item.pin ind opt n v ∈ items) : Sourced A o n v := by
  obtain ⟨st, c, vis, _, hc, _, rfl⟩ := expandItems_ok h
  simp only [List.mem_append, List.mem_map] at hx
  rcases hx with hx | ⟨t, _, ht⟩
  · obtain ⟨i, n', v', hm, heq⟩ := emitVisited_pin vis 0 hx rfl
    cases heq
    exact collect_desired hc (n, v) hm
  · cases ht

end EupsModel.Expand
