import EupsModel.Model.Expand
/-! Helper lemmas about the model of `expandTableFile` (`Model/Expand.lean`). -/
set_option linter.unusedSimpArgs false
namespace EupsModel.Expand
open EupsModel

/-! ## shape of a successful run -/

theorem expandItems_ok {A : Answers} {o : Opts} {lines : List Str} {items : List Item}
    (h : expandItems A o lines = .ok items) :
    ∃ st c vis, readAll A o lines = .ok st ∧ collect A o st = .ok c ∧ visit 0 st.blocks = .ok vis ∧
      items = emitVisited o st.lastSetup c 0 vis ++ c.final.map .fin := by
  unfold expandItems at h
  cases hr : readAll A o lines with
  | error e => simp [hr, bind, Except.bind] at h
  | ok st =>
    cases hc : collect A o st with
    | error e => simp [hr, hc, bind, Except.bind] at h
    | ok c =>
      cases hv : visit 0 st.blocks with
      | error e => simp [hr, hc, hv, bind, Except.bind] at h
      | ok vis =>
        simp [hr, hc, hv, bind, Except.bind, pure, Except.pure] at h
        exact ⟨st, c, vis, rfl, hc, hv, h.symm⟩

/-! ## the closure collection -/

/-- `(n, v)` is a build-time record or a `-p` pin. -/
def Recorded (A : Answers) (n v : Str) : Prop := A.sv n = some v ∨ A.pin n = some v

/-- Where an entry of `desiredProducts` can come from, with no assumption on the environment: it is the
version assumed for a product of the table (pin or set-up version), or it was listed by
`getDependencies(..., setup=True)` for such a product. -/
def Sourced (A : Answers) (o : Opts) (n v : Str) : Prop :=
  Recorded A n v ∨
  (o.recurse = true ∧
    ∃ n0 v0 l d, Recorded A n0 v0 ∧ A.deps n0 v0 = .ok l ∧ d ∈ l ∧ d.name = n ∧ d.version = v)

theorem topVersion_recorded {A : Answers} {n v : Str} (h : topVersion A n = some v) : Recorded A n v := by
  unfold topVersion at h
  cases hp : A.pin n with
  | some p => simp [hp] at h; subst h; exact .inr hp
  | none => simp [hp] at h; exact .inl h

theorem mem_addDesired {c : CState} {d : Dep} {q : Str × Str} (h : q ∈ (addDesired c d).desired) :
    q ∈ c.desired ∨ q = (d.name, d.version) := by
  unfold addDesired at h
  split at h
  · exact .inl h
  · simp at h; exact h

theorem mem_foldl_addDesired (l : List Dep) (c : CState) (q : Str × Str)
    (h : q ∈ (l.foldl addDesired c).desired) : q ∈ c.desired ∨ ∃ d ∈ l, q = (d.name, d.version) := by
  induction l generalizing c with
  | nil => exact .inl h
  | cons d l ih =>
    simp only [List.foldl_cons] at h
    rcases ih _ h with h1 | ⟨d', hd', rfl⟩
    · rcases mem_addDesired h1 with h2 | rfl
      · exact .inl h2
      · exact .inr ⟨d, by simp, rfl⟩
    · exact .inr ⟨d', by simp [hd'], rfl⟩

theorem collectStep_desired {A : Answers} {o : Opts} {c c' : CState} {p : Prod}
    (h : collectStep A o c p = .ok c') (q : Str × Str) (hq : q ∈ c'.desired) :
    q ∈ c.desired ∨ Sourced A o q.1 q.2 := by
  unfold collectStep at h
  split at h
  · cases h; exact .inl hq
  · split at h
    · cases h; exact .inl hq
    · split at h
      · split at h
        · cases h
        · cases h; exact .inl hq
      · rename_i v hv
        have hrec := topVersion_recorded hv
        split at h
        · rename_i hrc
          split at h
          · cases h
          · split at h
            · cases h
            · cases h; exact .inl hq
          · rename_i l hl
            cases h
            rcases mem_foldl_addDesired _ _ _ hq with h1 | ⟨d, hd, rfl⟩
            · exact .inl h1
            · simp only [List.mem_cons] at hd
              rcases hd with rfl | hd
              · exact .inr (.inl hrec)
              · exact .inr (.inr ⟨by simp at hrc; exact hrc.1, p.name, v, l, d, hrec, hl, hd, rfl, rfl⟩)
        · cases h
          rcases mem_addDesired hq with h1 | rfl
          · exact .inl h1
          · exact .inr (.inl hrec)

theorem foldlM_collect_desired {A : Answers} {o : Opts} (ps : List Prod) (c c' : CState)
    (h : ps.foldlM (collectStep A o) c = .ok c') (q : Str × Str) (hq : q ∈ c'.desired) :
    q ∈ c.desired ∨ Sourced A o q.1 q.2 := by
  induction ps generalizing c with
  | nil => simp [List.foldlM, pure, Except.pure] at h; cases h; exact .inl hq
  | cons p ps ih =>
    simp only [List.foldlM_cons, bind, Except.bind] at h
    cases hs : collectStep A o c p with
    | error e => simp [hs] at h
    | ok c1 =>
      simp only [hs] at h
      rcases ih c1 h with h1 | h1
      · exact collectStep_desired hs q h1
      · exact .inr h1

theorem collect_desired {A : Answers} {o : Opts} {st : RState} {c : CState}
    (h : collect A o st = .ok c) (q : Str × Str) (hq : q ∈ c.desired) : Sourced A o q.1 q.2 := by
  unfold collect at h
  rcases foldlM_collect_desired _ _ _ h q hq with h1 | h1
  · simp at h1
  · exact h1

/-! ## the emission: where pins come from -/

def Item.isPin : Item → Bool
  | .pin .. => true
  | _ => false

theorem emitPlain_no_pin (ind : Int) (lines : List BLine) : ∀ x ∈ (emitPlain ind lines).1, x.isPin = false := by
  intro x hx
  unfold emitPlain at hx
  split at hx
  · simp at hx
  · split at hx
    · simp at hx; rcases hx with rfl | ⟨a, _, rfl⟩ <;> rfl
    · split at hx
      · simp at hx; rcases hx with rfl | ⟨a, _, rfl⟩ <;> rfl
      · simp at hx; rcases hx with rfl | ⟨a, _, rfl⟩ <;> rfl

theorem emitSetupLines_no_pin (ind : Int) (lines : List BLine) :
    ∀ x ∈ emitSetupLines ind lines, x.isPin = false := by
  intro x hx
  induction lines using emitSetupLines.induct ind with
  | case1 => simp [emitSetupLines] at hx
  | case2 l t h => simp [emitSetupLines, t, h] at hx
  | case3 l t h1 h2 => simp [emitSetupLines, t, h1, h2] at hx
  | case4 l t h1 h2 => simp [emitSetupLines, t, h1, h2] at hx; subst hx; rfl
  | case5 l l2 rest ih =>
    simp only [emitSetupLines, List.mem_append] at hx
    rcases hx with hx | hx
    · split at hx
      · simp at hx
      · simp at hx; subst hx; rfl
    · exact ih hx

theorem mem_pinItems {ind : Int} {c : CState} {x : Item} (h : x ∈ pinItems ind c) :
    ∃ n v, (n, v) ∈ c.desired ∧ x = .pin ind (c.optional.contains (n, v) || c.notFound.contains n) n v := by
  unfold pinItems at h
  simp only [List.mem_map] at h
  obtain ⟨⟨n, v⟩, hm, rfl⟩ := h
  exact ⟨n, v, hm, rfl⟩

theorem emitSetup_pin {o : Opts} {isLast : Bool} {c : CState} {ind : Int} {lines : List BLine} {x : Item}
    (hx : x ∈ emitSetup o isLast c ind lines) (hp : x.isPin = true) : x ∈ pinItems (ind + 1) c ∧ isLast = true ∧ o.addExactBlock = true := by
  unfold emitSetup at hx
  split at hx
  · rename_i hadd
    simp only [List.mem_append] at hx
    rcases hx with (hx | hx) | hx
    · split at hx
      · rename_i hl
        simp only [List.mem_append] at hx
        rcases hx with (hx | hx) | hx
        · simp at hx; subst hx; simp [Item.isPin] at hp
        · exact ⟨hx, hl, hadd⟩
        · simp at hx; subst hx; simp [Item.isPin] at hp
      · simp at hx; subst hx; simp [Item.isPin] at hp
    · have := emitSetupLines_no_pin _ _ x hx; simp [this] at hp
    · simp at hx; subst hx; simp [Item.isPin] at hp
  · have := emitSetupLines_no_pin _ _ x hx; simp [this] at hp

theorem emitVisited_pin {o : Opts} {ls : Option Nat} {c : CState} (vis : List (Nat × Block)) (ind : Int) {x : Item}
    (hx : x ∈ emitVisited o ls c ind vis) (hp : x.isPin = true) :
    ∃ i n v, (n, v) ∈ c.desired ∧ x = .pin i (c.optional.contains (n, v) || c.notFound.contains n) n v := by
  induction vis generalizing ind with
  | nil => simp [emitVisited] at hx
  | cons ib rest ih =>
    obtain ⟨i, b⟩ := ib
    unfold emitVisited at hx
    split at hx
    · simp only [List.mem_append] at hx
      rcases hx with hx | hx
      · obtain ⟨n, v, hm, rfl⟩ := mem_pinItems (emitSetup_pin hx hp).1
        exact ⟨_, n, v, hm, rfl⟩
      · exact ih _ hx
    · simp only [List.mem_append] at hx
      rcases hx with hx | hx
      · have := emitPlain_no_pin _ _ x hx; simp [this] at hp
      · exact ih _ hx

/-- Every pin line of a successful expansion is an entry of `desiredProducts`, hence `Sourced`. -/
theorem pin_sourced {A : Answers} {o : Opts} {lines : List Str} {items : List Item}
    (h : expandItems A o lines = .ok items) {ind : Int} {opt : Bool} {n v : Str}
    (hx : Item.pin ind opt n v ∈ items) : Sourced A o n v := by
  obtain ⟨st, c, vis, _, hc, _, rfl⟩ := expandItems_ok h
  simp only [List.mem_append, List.mem_map] at hx
  rcases hx with hx | ⟨t, _, ht⟩
  · obtain ⟨i, n', v', hm, heq⟩ := emitVisited_pin vis 0 hx rfl
    cases heq
    exact collect_desired hc (n, v) hm
  · cases ht


/-! ## the reader as a pure fold over classified lines -/

/-- the line a classified input line contributes to the blocks -/
def Classified.bline : Classified → Option BLine
  | .blank raw => some ⟨.blank, raw⟩
  | .eups _ => none
  | .setup t _ => some ⟨.setup, t⟩
  | .other t => some ⟨.other, t⟩

def Classified.prod : Classified → Option Prod
  | .setup _ p => p
  | _ => none

def Classified.finalLine : Classified → Option Str
  | .eups t => some t
  | _ => none

def RState.allLines (st : RState) : List BLine := st.blocks.flatMap (·.lines)

theorem allLines_eq (st : RState) : st.allLines = st.prev.flatMap (·.lines) ++ st.cur.lines := by
  simp [RState.allLines, RState.blocks]

theorem allLines_pushLine (st : RState) (k : LKind) (t : Str) :
    (pushLine st k t).allLines = st.allLines ++ [⟨k, t⟩] := by
  simp [allLines_eq, pushLine]

theorem allLines_openSetup (st : RState) : (openSetup st).allLines = st.allLines := by
  unfold openSetup; split <;> simp [allLines_eq]

theorem allLines_openOther (st : RState) : (openOther st).allLines = st.allLines := by
  unfold openOther; split <;> simp [allLines_eq]

theorem allLines_step (st : RState) (c : Classified) :
    (step st c).allLines = st.allLines ++ c.bline.toList := by
  cases c with
  | blank raw => simp [step, allLines_pushLine, Classified.bline]
  | eups t =>
    simp only [step, Classified.bline, Option.toList, List.append_nil]
    rw [← allLines_openSetup st]; simp [allLines_eq]
  | setup t p =>
    cases p with
    | none => simp [step, allLines_pushLine, allLines_openSetup, Classified.bline]
    | some p =>
      simp only [step, allLines_pushLine, Classified.bline, Option.toList]
      rw [← allLines_openSetup st]; simp [allLines_eq]
  | other t => simp [step, allLines_pushLine, allLines_openOther, Classified.bline]

theorem allLines_foldl (cs : List Classified) (st : RState) :
    (cs.foldl step st).allLines = st.allLines ++ cs.filterMap Classified.bline := by
  induction cs generalizing st with
  | nil => simp
  | cons c cs ih =>
    simp only [List.foldl_cons, ih, allLines_step, List.append_assoc]
    cases h : c.bline <;> simp [h]

/-- `readAll` = classify every line, then fold the bookkeeping. -/
theorem readAll_ok {A : Answers} {o : Opts} {lines : List Str} {st : RState}
    (h : readAll A o lines = .ok st) :
    ∃ cs, lines.mapM (classify A o) = .ok cs ∧ st = cs.foldl step {} := by
  unfold readAll at h
  suffices H : ∀ (lines : List Str) (st0 st : RState), lines.foldlM (readLine A o) st0 = .ok st →
      ∃ cs, lines.mapM (classify A o) = .ok cs ∧ st = cs.foldl step st0 from H lines {} st h
  intro lines
  induction lines with
  | nil => intro st0 st h; simp [List.foldlM, pure, Except.pure] at h; exact ⟨[], by simp [pure, Except.pure], h.symm⟩
  | cons l ls ih =>
    intro st0 st h
    simp only [List.foldlM_cons, bind, Except.bind, readLine] at h
    cases hc : classify A o l with
    | error e => simp [hc] at h
    | ok c =>
      simp only [hc, pure, Except.pure] at h
      obtain ⟨cs, hcs, hst⟩ := ih _ _ h
      refine ⟨c :: cs, ?_, by simpa using hst⟩
      simp [List.mapM_cons, hc, hcs, bind, Except.bind, pure, Except.pure]


theorem products_openSetup (st : RState) : (openSetup st).products = st.products := by
  unfold openSetup; split <;> rfl
theorem products_openOther (st : RState) : (openOther st).products = st.products := by
  unfold openOther; split <;> rfl
theorem final_openSetup (st : RState) : (openSetup st).final = st.final := by
  unfold openSetup; split <;> rfl
theorem final_openOther (st : RState) : (openOther st).final = st.final := by
  unfold openOther; split <;> rfl

theorem products_step (st : RState) (c : Classified) :
    (step st c).products = st.products ++ c.prod.toList := by
  cases c with
  | blank raw => simp [step, pushLine, Classified.prod]
  | eups t => simp [step, products_openSetup, Classified.prod]
  | setup t p => cases p <;> simp [step, pushLine, products_openSetup, Classified.prod]
  | other t => simp [step, pushLine, products_openOther, Classified.prod]

theorem final_step (st : RState) (c : Classified) :
    (step st c).final = st.final ++ c.finalLine.toList := by
  cases c with
  | blank raw => simp [step, pushLine, Classified.finalLine]
  | eups t => simp [step, final_openSetup, Classified.finalLine]
  | setup t p => cases p <;> simp [step, pushLine, final_openSetup, Classified.finalLine]
  | other t => simp [step, pushLine, final_openOther, Classified.finalLine]

theorem products_foldl (cs : List Classified) (st : RState) :
    (cs.foldl step st).products = st.products ++ cs.filterMap Classified.prod := by
  induction cs generalizing st with
  | nil => simp
  | cons c cs ih =>
    simp only [List.foldl_cons, ih, products_step, List.append_assoc]
    cases h : c.prod <;> simp [h]

theorem final_foldl (cs : List Classified) (st : RState) :
    (cs.foldl step st).final = st.final ++ cs.filterMap Classified.finalLine := by
  induction cs generalizing st with
  | nil => simp
  | cons c cs ih =>
    simp only [List.foldl_cons, ih, final_step, List.append_assoc]
    cases h : c.finalLine <;> simp [h]

/-! ### kinds: setup blocks hold no `other` line, the other blocks no `setup` line -/

def Block.KindsOk (b : Block) : Prop :=
  ∀ l ∈ b.lines, if b.isSetup then l.kind ≠ .other else l.kind ≠ .setup

def RState.KindsOk (st : RState) : Prop := ∀ b ∈ st.blocks, b.KindsOk

theorem kindsOk_init : (({} : RState)).KindsOk := by
  intro b hb; simp [RState.blocks] at hb; subst hb; intro l hl; simp at hl

theorem kindsOk_pushLine {st : RState} (h : st.KindsOk) (k : LKind)
    (hk : if st.cur.isSetup then k ≠ .other else k ≠ .setup) (t : Str) : (pushLine st k t).KindsOk := by
  intro b hb
  simp only [RState.blocks, pushLine, List.mem_append, List.mem_singleton] at hb
  rcases hb with hb | rfl
  · exact h b (by simp [RState.blocks, hb])
  · intro l hl
    simp only [List.mem_append, List.mem_singleton] at hl
    rcases hl with hl | rfl
    · exact h st.cur (by simp [RState.blocks]) l hl
    · exact hk

theorem kindsOk_openSetup {st : RState} (h : st.KindsOk) : (openSetup st).KindsOk ∧ (openSetup st).cur.isSetup = true := by
  unfold openSetup
  split
  · refine ⟨?_, rfl⟩
    intro b hb
    simp only [RState.blocks, List.mem_append, List.mem_singleton] at hb
    rcases hb with (hb | rfl) | rfl
    · exact h b (by simp [RState.blocks, hb])
    · exact h _ (by simp [RState.blocks])
    · intro l hl; simp at hl
  · rename_i hc; exact ⟨h, by simpa using hc⟩

theorem kindsOk_openOther {st : RState} (h : st.KindsOk) : (openOther st).KindsOk ∧ (openOther st).cur.isSetup = false := by
  unfold openOther
  split
  · refine ⟨?_, rfl⟩
    intro b hb
    simp only [RState.blocks, List.mem_append, List.mem_singleton] at hb
    rcases hb with (hb | rfl) | rfl
    · exact h b (by simp [RState.blocks, hb])
    · exact h _ (by simp [RState.blocks])
    · intro l hl; simp at hl
  · rename_i hc; exact ⟨h, by simpa using hc⟩

theorem kindsOk_step {st : RState} (h : st.KindsOk) (c : Classified) : (step st c).KindsOk := by
  cases c with
  | blank raw => exact kindsOk_pushLine h _ (by split <;> simp) _
  | eups t =>
    have := (kindsOk_openSetup h).1
    intro b hb; exact this b (by simpa [step, RState.blocks] using hb)
  | setup t p =>
    obtain ⟨h1, h2⟩ := kindsOk_openSetup h
    cases p with
    | none => exact kindsOk_pushLine h1 _ (by simp [h2]) _
    | some p =>
      have h1' : ({ openSetup st with products := (openSetup st).products ++ [p] } : RState).KindsOk := by
        intro b hb; exact h1 b (by simpa [RState.blocks] using hb)
      exact kindsOk_pushLine h1' _ (by simp [h2]) _
  | other t =>
    obtain ⟨h1, h2⟩ := kindsOk_openOther h
    exact kindsOk_pushLine h1 _ (by simp [h2]) _

theorem kindsOk_foldl (cs : List Classified) {st : RState} (h : st.KindsOk) : (cs.foldl step st).KindsOk := by
  induction cs generalizing st with
  | nil => exact h
  | cons c cs ih => exact ih (kindsOk_step h c)


/-! ## the emission, block by block -/

def enumFrom : Nat → List Block → List (Nat × Block)
  | _, [] => []
  | i, b :: rest => (i, b) :: enumFrom (i + 1) rest

/-- no block is taken for a pre-existing `if (type == exact) {` block (the fragile `i += 3` path) -/
def NoPreExact (blocks : List Block) : Prop := ∀ b ∈ blocks, isPreExact b = false

theorem visit_noPre (blocks : List Block) (i : Nat) (h : NoPreExact blocks) :
    visit i blocks = .ok (enumFrom i blocks) := by
  induction blocks generalizing i with
  | nil => rfl
  | cons b rest ih =>
    have hb : isPreExact b = false := h b (by simp)
    have hr : NoPreExact rest := fun x hx => h x (by simp [hx])
    unfold visit
    simp [hb, ih (i + 1) hr, enumFrom, bind, Except.bind, pure, Except.pure]

/-- the text of an item that is an input line of kind `k` -/
def origOf (k : LKind) : Item → Option Str
  | .orig _ k' t => if k' = k then some t else none
  | _ => none

theorem origOf_map_orig (k : LKind) (f : BLine → Int) (lines : List BLine) :
    (lines.map fun x => Item.orig (f x) x.kind x.text).filterMap (origOf k)
      = (lines.filter (·.kind = k)).map (·.text) := by
  induction lines with
  | nil => rfl
  | cons l rest ih =>
    by_cases hk : l.kind = k <;> simp [List.filterMap_cons, origOf, hk, ih]

theorem origOf_emitPlain (k : LKind) (ind : Int) (lines : List BLine) :
    (emitPlain ind lines).1.filterMap (origOf k) = (lines.filter (·.kind = k)).map (·.text) := by
  unfold emitPlain
  split
  · rfl
  · rename_i l rest
    split
    · have := origOf_map_orig k (fun _ => ind + 1) rest
      by_cases hk : l.kind = k <;> simp [List.filterMap_cons, origOf, hk, this]
    · split
      · have := origOf_map_orig k (fun _ => ind - 1) rest
        by_cases hk : l.kind = k <;> simp [List.filterMap_cons, origOf, hk, this]
      · exact origOf_map_orig k (fun _ => ind) (l :: rest)

/-- a setup block holds no line of kind `other`, so it emits none -/
theorem origOf_other_emitSetupLines (ind : Int) (lines : List BLine) (h : ∀ l ∈ lines, l.kind ≠ .other) :
    (emitSetupLines ind lines).filterMap (origOf .other) = [] := by
  induction lines using emitSetupLines.induct ind with
  | case1 => rfl
  | case2 l t hx => simp [emitSetupLines, t, hx]
  | case3 l t h1 h2 => simp [emitSetupLines, t, h1, h2]
  | case4 l t h1 h2 =>
    have := h l (by simp)
    simp [emitSetupLines, t, h1, h2, origOf, this]
  | case5 l l2 rest ih =>
    have hl := h l (by simp)
    have := ih (fun x hx => h x (by simp [hx]))
    simp only [emitSetupLines, List.filterMap_append, this, List.append_nil]
    split <;> simp [origOf, hl]

/-- the setup lines a setup block emits: all of them except those labelled `--external` -/
theorem origOf_setup_emitSetupLines (ind : Int) (lines : List BLine)
    (h : ∀ l ∈ lines, l.kind = .setup → strip l.text ≠ []) :
    (emitSetupLines ind lines).filterMap (origOf .setup)
      = (lines.filter fun l => l.kind = .setup && !contains sExternal (strip l.text)).map (fun l => strip l.text) := by
  induction lines using emitSetupLines.induct ind with
  | case1 => rfl
  | case2 l t hx => simp [emitSetupLines, t, hx]
  | case3 l t h1 h2 =>
    have : l.kind ≠ .setup := fun hk => h l (by simp) hk (by simp at h2; simpa using h2.1)
    simp [emitSetupLines, t, h1, h2, this]
  | case4 l t h1 h2 =>
    by_cases hk : l.kind = .setup <;> simp [emitSetupLines, t, h1, h2, origOf, hk]
  | case5 l l2 rest ih =>
    have := ih (fun x hx => h x (by simp [hx]))
    simp only [emitSetupLines, List.filterMap_append, this]
    by_cases hx : contains sExternal (strip l.text) = true
    · simp [hx, List.filter_cons]
    · by_cases hk : l.kind = .setup <;> simp [hx, hk, origOf, List.filter_cons]

theorem origOf_gen (k : LKind) (ind : Int) (t : Str) : origOf k (.gen ind t) = none := rfl

theorem origOf_pinItems (k : LKind) (ind : Int) (c : CState) : (pinItems ind c).filterMap (origOf k) = [] := by
  unfold pinItems
  induction c.desired with
  | nil => rfl
  | cons p rest ih => obtain ⟨n, v⟩ := p; simpa [List.filterMap_cons, origOf] using ih

theorem origOf_emitSetup (k : LKind) (o : Opts) (isLast : Bool) (c : CState) (ind : Int) (lines : List BLine) :
    (emitSetup o isLast c ind lines).filterMap (origOf k)
      = (emitSetupLines (if o.addExactBlock then ind + 1 else ind) lines).filterMap (origOf k) := by
  unfold emitSetup
  split
  · rename_i h
    cases isLast <;> simp [List.filterMap_append, List.filterMap_cons, origOf_pinItems, origOf, h]
  · rename_i h; simp [h]


theorem origOf_other_emitVisited (o : Opts) (ls : Option Nat) (c : CState) (vis : List (Nat × Block)) (ind : Int)
    (hk : ∀ ib ∈ vis, ib.2.KindsOk) :
    (emitVisited o ls c ind vis).filterMap (origOf .other)
      = vis.flatMap (fun ib => (ib.2.lines.filter (·.kind = .other)).map (·.text)) := by
  induction vis generalizing ind with
  | nil => rfl
  | cons ib rest ih =>
    obtain ⟨i, b⟩ := ib
    have hb : b.KindsOk := hk (i, b) (by simp)
    have hr := fun ind => ih ind (fun x hx => hk x (by simp [hx]))
    unfold emitVisited
    split
    · rename_i hs
      have hno : ∀ l ∈ b.lines, l.kind ≠ .other := fun l hl => by have := hb l hl; simpa [hs] using this
      have hf : b.lines.filter (·.kind = .other) = [] := by
        simp only [List.filter_eq_nil_iff]; intro l hl; simpa using hno l hl
      simp [List.filterMap_append, origOf_emitSetup, origOf_other_emitSetupLines _ _ hno, hr, hf]
    · simp [List.filterMap_append, origOf_emitPlain, hr]

theorem origOf_setup_emitVisited (o : Opts) (ls : Option Nat) (c : CState) (vis : List (Nat × Block)) (ind : Int)
    (hk : ∀ ib ∈ vis, ib.2.KindsOk)
    (hne : ∀ ib ∈ vis, ∀ l ∈ ib.2.lines, l.kind = .setup → strip l.text ≠ []) :
    (emitVisited o ls c ind vis).filterMap (origOf .setup)
      = vis.flatMap (fun ib => (ib.2.lines.filter fun l => l.kind = .setup && !contains sExternal (strip l.text)).map
          (fun l => strip l.text)) := by
  induction vis generalizing ind with
  | nil => rfl
  | cons ib rest ih =>
    obtain ⟨i, b⟩ := ib
    have hb : b.KindsOk := hk (i, b) (by simp)
    have hr := fun ind => ih ind (fun x hx => hk x (by simp [hx])) (fun x hx => hne x (by simp [hx]))
    unfold emitVisited
    split
    · simp [List.filterMap_append, origOf_emitSetup, origOf_setup_emitSetupLines _ _ (hne (i, b) (by simp)), hr]
    · rename_i hs
      have hno : ∀ l ∈ b.lines, l.kind ≠ .setup := fun l hl => by have := hb l hl; simpa [hs] using this
      have hf : b.lines.filter (·.kind = .setup) = [] := by
        simp only [List.filter_eq_nil_iff]; intro l hl; simpa using hno l hl
      have hf2 : (b.lines.filter fun l => l.kind = .setup && !contains sExternal (strip l.text)) = [] := by
        simp only [List.filter_eq_nil_iff]; intro l hl; simp [hno l hl]
      simp [List.filterMap_append, origOf_emitPlain, hr, hf, hf2]

theorem flatMap_enumFrom {β : Type} (f : Block → List β) (i : Nat) (l : List Block) :
    (enumFrom i l).flatMap (fun ib => f ib.2) = l.flatMap f := by
  induction l generalizing i with
  | nil => rfl
  | cons b rest ih => simp [enumFrom, ih]

theorem mem_enumFrom {i : Nat} {l : List Block} {ib : Nat × Block} (h : ib ∈ enumFrom i l) : ib.2 ∈ l := by
  induction l generalizing i with
  | nil => simp [enumFrom] at h
  | cons b rest ih =>
    simp only [enumFrom, List.mem_cons] at h
    rcases h with rfl | h
    · simp
    · simp [ih h]

theorem flatMap_blocks_filter_map {β : Type} (p : BLine → Bool) (g : BLine → β) (blocks : List Block) :
    blocks.flatMap (fun b => (b.lines.filter p).map g) = ((blocks.flatMap (·.lines)).filter p).map g := by
  induction blocks with
  | nil => rfl
  | cons b rest ih => simp [ih]


/-! ## string facts about the reader's regular expression -/

theorem sReqP_eq : sReqP = [115, 101, 116, 117, 112, 82, 101, 113, 117, 105, 114, 101, 100, 40] := by decide
theorem sOptP_eq : sOptP = [115, 101, 116, 117, 112, 79, 112, 116, 105, 111, 110, 97, 108, 40] := by decide

/-- a match of `rex` starts with the letter `s` -/
theorem matchRexAt_head {c : Nat} {cs : Str} {m : RexMatch} (h : matchRexAt (c :: cs) = some m) : c = 115 := by
  unfold matchRexAt at h
  by_cases hc : c = 115
  · exact hc
  · have h1 : sReqP.isPrefixOf (c :: cs) = false := by
      rw [sReqP_eq]; simp [List.isPrefixOf]; intro h; exact absurd h.symm hc
    have h2 : sOptP.isPrefixOf (c :: cs) = false := by
      rw [sOptP_eq]; simp [List.isPrefixOf]; intro h; exact absurd h.symm hc
    simp [h1, h2] at h

theorem searchRex_allSpace (t : Str) (h : ∀ c ∈ t, Str.isSpace c = true) : searchRex t = none := by
  induction t with
  | nil => rfl
  | cons c cs ih =>
    unfold searchRex
    cases hm : matchRexAt (c :: cs) with
    | some m =>
      have := matchRexAt_head hm
      subst this
      have := h 115 (by simp)
      simp [Str.isSpace] at this
    | none => simpa using ih (fun x hx => h x (by simp [hx]))

theorem all_of_dropWhile_nil {p : Nat → Bool} {l : List Nat} (h : l.dropWhile p = []) : ∀ x ∈ l, p x = true := by
  induction l with
  | nil => simp
  | cons a rest ih =>
    by_cases ha : p a = true
    · simp only [List.dropWhile_cons, ha, if_true] at h
      intro x hx; simp only [List.mem_cons] at hx
      rcases hx with rfl | hx
      · exact ha
      · exact ih h x hx
    · simp [List.dropWhile_cons, ha] at h

theorem dropWhile_nil_of_all {p : Nat → Bool} {l : List Nat} (h : ∀ x ∈ l.dropWhile p, p x = true) :
    l.dropWhile p = [] := by
  induction l with
  | nil => rfl
  | cons a rest ih =>
    by_cases ha : p a = true
    · simp only [List.dropWhile_cons, ha, if_true] at h ⊢; exact ih h
    · have := h a (by simp [List.dropWhile_cons, ha]); exact absurd this ha

theorem strip_eq_nil {t : Str} (h : strip t = []) : ∀ c ∈ t, Str.isSpace c = true := by
  unfold strip rstrip lstrip at h
  simp only [List.reverse_eq_nil_iff] at h
  have h1 := all_of_dropWhile_nil h
  have h2 : t.dropWhile Str.isSpace = [] := dropWhile_nil_of_all (fun x hx => h1 x (by simpa using hx))
  exact all_of_dropWhile_nil h2

/-- a line on which `rex` matches is not blank -/
theorem strip_ne_nil_of_searchRex {t : Str} {m : RexMatch} (h : searchRex t = some m) : strip t ≠ [] := by
  intro hs
  have := searchRex_allSpace t (strip_eq_nil hs)
  simp [this] at h

/-- without a match `re.sub` changes nothing -/
theorem subGo_id (A : Answers) (o : Opts) (s : Str) (h : searchRex s = none) : subGo A o 0 s = .ok s := by
  induction s with
  | nil => rfl
  | cons c cs ih =>
    unfold searchRex at h
    cases hm : matchRexAt (c :: cs) with
    | some m => simp [hm] at h
    | none =>
      simp only [hm] at h
      simp [subGo, hm, ih h, bind, Except.bind, pure, Except.pure]

/-! ### what `classify` says about a line -/

theorem classify_other_of_noMatch (A : Answers) (o : Opts) (raw : Str) (hb : isBlankOrComment raw = false)
    (hm : searchRex (stripComment raw) = none) : classify A o raw = .ok (.other (stripComment raw)) := by
  unfold classify
  simp [hb, subAll, subGo_id A o _ hm, hm, bind, Except.bind, pure, Except.pure]

theorem classify_blank (A : Answers) (o : Opts) (raw : Str) (hb : isBlankOrComment raw = true) :
    classify A o raw = .ok (.blank raw) := by
  unfold classify; simp [hb, pure, Except.pure]

/-- every classified line that is not blank is the comment-stripped, substituted input line, and
`setup`/`eups` lines are exactly those on which `rex` matches afterwards -/
theorem classify_spec {A : Answers} {o : Opts} {raw : Str} {c : Classified} (h : classify A o raw = .ok c) :
    (isBlankOrComment raw = true ∧ c = .blank raw) ∨
    (isBlankOrComment raw = false ∧ ∃ t, subAll A o (stripComment raw) = .ok t ∧
      ((searchRex t = none ∧ c = .other t) ∨
       (∃ m, searchRex t = some m ∧ (c = .eups t ∨ ∃ p, c = .setup t p)))) := by
  unfold classify at h
  by_cases hb : isBlankOrComment raw = true
  · simp [hb, pure, Except.pure] at h; exact .inl ⟨hb, h.symm⟩
  · simp only [hb, Bool.false_eq_true, if_false, bind, Except.bind] at h
    right
    refine ⟨by simpa using hb, ?_⟩
    cases hs : subAll A o (stripComment raw) with
    | error e => simp [hs] at h
    | ok t =>
      refine ⟨t, rfl, ?_⟩
      simp only [hs] at h
      cases hm : searchRex t with
      | none => simp [hm, pure, Except.pure] at h; exact .inl ⟨rfl, h.symm⟩
      | some m =>
        right
        refine ⟨m, rfl, ?_⟩
        simp only [hm] at h
        split at h
        · split at h
          · simp [pure, Except.pure] at h; exact .inl h.symm
          · simp [pure, Except.pure] at h; exact .inr ⟨_, h.symm⟩
        · simp [pure, Except.pure] at h; exact .inr ⟨_, h.symm⟩


/-! ## the table-level statements: which input lines are in the output, in which order -/

theorem mapM_ok_mem {α β : Type} {f : α → Except Err β} {l : List α} {cs : List β} (h : l.mapM f = .ok cs) :
    ∀ c ∈ cs, ∃ a ∈ l, f a = .ok c := by
  induction l generalizing cs with
  | nil => simp [pure, Except.pure] at h; subst h; simp
  | cons a rest ih =>
    simp only [List.mapM_cons, bind, Except.bind] at h
    cases ha : f a with
    | error e => simp [ha] at h
    | ok b =>
      simp only [ha] at h
      cases hr : rest.mapM f with
      | error e => simp [hr] at h
      | ok bs =>
        simp [hr, pure, Except.pure] at h
        subst h
        intro c hc
        simp only [List.mem_cons] at hc
        rcases hc with rfl | hc
        · exact ⟨a, by simp, ha⟩
        · obtain ⟨x, hx, hfx⟩ := ih hr c hc
          exact ⟨x, by simp [hx], hfx⟩

def Classified.otherText : Classified → Option Str
  | .other t => some t
  | _ => none

def Classified.setupText : Classified → Option Str
  | .setup t _ => some t
  | _ => none

/-- no line of the table, as the reader stores it, matches `if (type == exact) {` -/
def noExactLine (A : Answers) (o : Opts) (lines : List Str) : Bool :=
  match lines.mapM (classify A o) with
  | .ok cs => cs.all fun c => match c.bline with
    | some l => !preExactRe l.text
    | none => true
  | .error _ => true

theorem isPreExact_line {b : Block} (h : isPreExact b = true) : ∃ l ∈ b.lines, preExactRe l.text = true := by
  unfold isPreExact at h
  simp only [Bool.and_eq_true] at h
  obtain ⟨_, h2⟩ := h
  split at h2
  · rename_i l hl; exact ⟨l, by simp [hl], h2⟩
  · simp at h2

theorem mem_allLines {st : RState} {b : Block} {l : BLine} (hb : b ∈ st.blocks) (hl : l ∈ b.lines) : l ∈ st.allLines := by
  simp only [RState.allLines, List.mem_flatMap]; exact ⟨b, hb, hl⟩

theorem allLines_init : (({} : RState)).allLines = [] := by simp [RState.allLines, RState.blocks]

theorem noPre_of_noExactLine {A : Answers} {o : Opts} {lines : List Str} {cs : List Classified}
    (hn : noExactLine A o lines = true) (hcs : lines.mapM (classify A o) = .ok cs) :
    NoPreExact (cs.foldl step {}).blocks := by
  intro b hb
  by_cases hp : isPreExact b = true
  · obtain ⟨l, hl, hre⟩ := isPreExact_line hp
    have hmem := mem_allLines hb hl
    rw [allLines_foldl, allLines_init, List.nil_append, List.mem_filterMap] at hmem
    obtain ⟨c, hc, hcl⟩ := hmem
    unfold noExactLine at hn
    simp only [hcs, List.all_eq_true] at hn
    have := hn c hc
    simp [hcl, hre] at this
  · simpa using hp

theorem filter_other_bline (cs : List Classified) :
    ((cs.filterMap Classified.bline).filter (·.kind = .other)).map (·.text) = cs.filterMap Classified.otherText := by
  induction cs with
  | nil => rfl
  | cons c cs ih =>
    cases c with
    | blank raw => simpa [List.filterMap_cons, Classified.bline, Classified.otherText] using ih
    | eups t => simpa [List.filterMap_cons, Classified.bline, Classified.otherText] using ih
    | setup t p => simpa [List.filterMap_cons, Classified.bline, Classified.otherText] using ih
    | other t => simpa [List.filterMap_cons, Classified.bline, Classified.otherText] using ih

theorem filter_setup_bline (cs : List Classified) :
    ((cs.filterMap Classified.bline).filter fun l => l.kind = .setup && !contains sExternal (strip l.text)).map
        (fun l => strip l.text)
      = ((cs.filterMap Classified.setupText).filter fun t => !contains sExternal (strip t)).map strip := by
  induction cs with
  | nil => rfl
  | cons c cs ih =>
    cases c with
    | blank raw => simpa [List.filterMap_cons, Classified.bline, Classified.setupText] using ih
    | eups t => simpa [List.filterMap_cons, Classified.bline, Classified.setupText] using ih
    | other t => simpa [List.filterMap_cons, Classified.bline, Classified.setupText] using ih
    | setup t p =>
      simp only [List.filterMap_cons, Classified.bline, Classified.setupText]
      by_cases hx : contains sExternal (strip t) = true <;> simp [List.filter_cons, hx, ih]

theorem origOf_fin (k : LKind) (l : List Str) : (l.map Item.fin).filterMap (origOf k) = [] := by
  induction l with
  | nil => rfl
  | cons a rest ih => simpa [List.filterMap_cons, origOf] using ih

/-- **Order and completeness of the non-setup lines**: the items that are input lines of kind `other` are,
in order and each once, the lines the reader classified as `other`. -/
theorem expand_other_lines {A : Answers} {o : Opts} {lines : List Str} {items : List Item}
    (h : expandItems A o lines = .ok items) (hn : noExactLine A o lines = true) :
    ∃ cs, lines.mapM (classify A o) = .ok cs ∧
      items.filterMap (origOf .other) = cs.filterMap Classified.otherText := by
  obtain ⟨st, c, vis, hr, _, hv, rfl⟩ := expandItems_ok h
  obtain ⟨cs, hcs, rfl⟩ := readAll_ok hr
  refine ⟨cs, hcs, ?_⟩
  have hnp := noPre_of_noExactLine hn hcs
  rw [visit_noPre _ 0 hnp] at hv
  cases hv
  have hk : ∀ ib ∈ enumFrom 0 (cs.foldl step {}).blocks, ib.2.KindsOk :=
    fun ib hib => kindsOk_foldl cs kindsOk_init _ (mem_enumFrom hib)
  rw [List.filterMap_append, origOf_fin, List.append_nil, origOf_other_emitVisited _ _ _ _ _ hk,
    flatMap_enumFrom (fun b => (b.lines.filter (·.kind = .other)).map (·.text)),
    flatMap_blocks_filter_map]
  have : (cs.foldl step {}).blocks.flatMap (·.lines) = (cs.foldl step {}).allLines := rfl
  rw [this, allLines_foldl, allLines_init, List.nil_append, filter_other_bline]

/-- **Order and completeness of the setup lines**: the items that are input lines of kind `setup` are, in
order and each once, the (rewritten, stripped) setup lines of the table except those labelled `--external`. -/
theorem expand_setup_lines {A : Answers} {o : Opts} {lines : List Str} {items : List Item}
    (h : expandItems A o lines = .ok items) (hn : noExactLine A o lines = true) :
    ∃ cs, lines.mapM (classify A o) = .ok cs ∧
      items.filterMap (origOf .setup)
        = ((cs.filterMap Classified.setupText).filter fun t => !contains sExternal (strip t)).map strip := by
  obtain ⟨st, c, vis, hr, _, hv, rfl⟩ := expandItems_ok h
  obtain ⟨cs, hcs, rfl⟩ := readAll_ok hr
  refine ⟨cs, hcs, ?_⟩
  have hnp := noPre_of_noExactLine hn hcs
  rw [visit_noPre _ 0 hnp] at hv
  cases hv
  have hk : ∀ ib ∈ enumFrom 0 (cs.foldl step {}).blocks, ib.2.KindsOk :=
    fun ib hib => kindsOk_foldl cs kindsOk_init _ (mem_enumFrom hib)
  have hne : ∀ ib ∈ enumFrom 0 (cs.foldl step {}).blocks, ∀ l ∈ ib.2.lines, l.kind = .setup → strip l.text ≠ [] := by
    intro ib hib l hl hkind
    have hmem := mem_allLines (mem_enumFrom hib) hl
    rw [allLines_foldl, allLines_init, List.nil_append, List.mem_filterMap] at hmem
    obtain ⟨cl, hcl, hb⟩ := hmem
    obtain ⟨raw, _, hraw⟩ := mapM_ok_mem hcs cl hcl
    rcases classify_spec hraw with ⟨_, rfl⟩ | ⟨_, t, _, ⟨_, rfl⟩ | ⟨m, hm, rfl | ⟨p, rfl⟩⟩⟩
    · simp [Classified.bline] at hb; subst hb; simp at hkind
    · simp [Classified.bline] at hb; subst hb; simp at hkind
    · simp [Classified.bline] at hb
    · simp [Classified.bline] at hb; subst hb; exact strip_ne_nil_of_searchRex hm
  rw [List.filterMap_append, origOf_fin, List.append_nil, origOf_setup_emitVisited _ _ _ _ _ hk hne,
    flatMap_enumFrom (fun b => (b.lines.filter fun l => l.kind = .setup && !contains sExternal (strip l.text)).map
      (fun l => strip l.text)),
    flatMap_blocks_filter_map]
  have : (cs.foldl step {}).blocks.flatMap (·.lines) = (cs.foldl step {}).allLines := rfl
  rw [this, allLines_foldl, allLines_init, List.nil_append, filter_setup_bline]

end EupsModel.Expand
