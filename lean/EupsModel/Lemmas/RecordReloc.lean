import EupsModel.Lemmas.Record
/-! The two halves of `C16_relocate`, each by cases on the placement: what `Database.declare` stores
(`canon_spec`) and what a reader at another root makes of it (`resolve_spec`). -/
set_option linter.unusedSimpArgs false
set_option linter.unusedVariables false
namespace EupsModel.Record

macro "canon_simp" "[" facts:Lean.Parser.Tactic.simpLemma,* "]" : tactic =>
  `(tactic| simp [declaredProd, DirPl.at, TabPl.at, canonInfo, canonDir, canonTab, tableName, absP, Path.rel, Path.subpath, Path.under,
        isPrefixOf_append_self, PVal.truthy, addFlavorPaths, trimInfo, orderNew, trimKey, PInfo.getK, PInfo.setK,
        PVal.asPath, Path.join, Path.dirname, Path.basename, Except.map, $facts,*])

theorem canon_spec (ex : Path → Bool) (root : List Str) (name version flavor : Str) (d : DirPl) (t : TabPl)
    (hp : PlaceOK root name version flavor d t) (hx : DeclEx ex root name version flavor d t) :
    (declarePaths ex (declaredProd root name version flavor d t) none).map (·.2)
      = .ok (canonInfo name version flavor d t) := by
  obtain ⟨hroot, hname, hname', hflav, hver, hdir, htab⟩ := hp
  obtain ⟨hexr, hext⟩ := hx
  have hsr : stackRoot { abs := true, segs := root ++ [sUpsDb] } = ⟨true, root⟩ := stackRoot_db root
  have hex : ex ⟨true, root⟩ = true := hexr
  cases d with
  | inside rel =>
    obtain ⟨hrel, hne, hdb⟩ := hdir
    have hlen : 0 < rel.length := List.length_pos_iff.mpr hne
    cases t with
    | inUps =>
      have h1 : (root ++ [sUpsDb]).isPrefixOf (root ++ (rel ++ [sUps, name ++ sDotTable])) = false := by
        rw [isPrefixOf_append_left, singleton_isPrefixOf_append _ _ _ hne]; simpa using hdb
      have hext2 : ex ⟨true, root ++ (rel ++ [sUps, name ++ sDotTable])⟩ = true := by
        have := hext (by simp) _ rfl
        simpa [absP, DirPl.at] using this
      unfold declarePaths canonicalizePaths
      canon_simp [hsr, h1, hne, hex, hlen, hext2]
    | absInside trel =>
      obtain ⟨htrel, htne, htdb, hnu⟩ := htab
      have htlen : 0 < trel.length := List.length_pos_iff.mpr htne
      have h1 : (root ++ [sUpsDb]).isPrefixOf (root ++ trel) = false := by
        rw [isPrefixOf_append_left]
        have := singleton_isPrefixOf_append sUpsDb trel [] htne
        simp only [List.append_nil] at this; rw [this]; simpa using htdb
      have hext2 : ex ⟨true, root ++ trel⟩ = true := by
        have := hext (by simp) _ rfl
        simpa [absP] using this
      unfold declarePaths canonicalizePaths
      canon_simp [hsr, h1, hne, hex, hlen, hext2, htlen, htne, hnu]
    | absOutside s =>
      obtain ⟨hs, hnr, hnr', _⟩ := htab
      have h1 : (root ++ [sUpsDb]).isPrefixOf s = false := isPrefixOf_append_false _ _ _ hnr
      unfold declarePaths canonicalizePaths
      canon_simp [hsr, h1, hne, hex, hlen, hnr]
    | interned =>
      unfold declarePaths canonicalizePaths
      canon_simp [hsr, hne, hex, hlen]
    | none =>
      unfold declarePaths canonicalizePaths
      canon_simp [hsr, hne, hex, hlen, sNone]
  | outside s =>
    obtain ⟨hs, hnr, hnr'⟩ := hdir
    cases t with
    | inUps =>
      have h1 : (root ++ [sUpsDb]).isPrefixOf (s ++ [sUps, name ++ sDotTable]) = false :=
        isPrefixOf_diverge _ _ _ _ hnr hnr'
      unfold declarePaths canonicalizePaths
      canon_simp [hsr, h1, hex, hnr]
    | absInside trel =>
      obtain ⟨htrel, htne, htdb, _⟩ := htab
      have htlen : 0 < trel.length := List.length_pos_iff.mpr htne
      have h1 : (root ++ [sUpsDb]).isPrefixOf (root ++ trel) = false := by
        rw [isPrefixOf_append_left]
        have := singleton_isPrefixOf_append sUpsDb trel [] htne
        simp only [List.append_nil] at this; rw [this]; simpa using htdb
      have h2 : s.isPrefixOf (root ++ trel) = false := by
        have := isPrefixOf_diverge s root [] trel hnr' hnr
        simpa using this
      have hext2 : ex ⟨true, root ++ trel⟩ = true := by
        have := hext (by simp) _ rfl
        simpa [absP] using this
      unfold declarePaths canonicalizePaths
      canon_simp [hsr, h1, h2, hex, hext2, htlen, htne, hnr]
    | absOutside s' =>
      obtain ⟨hs', hnr2, hnr2', hnd⟩ := htab
      have h1 : (root ++ [sUpsDb]).isPrefixOf s' = false := isPrefixOf_append_false _ _ _ hnr2
      unfold declarePaths canonicalizePaths
      canon_simp [hsr, h1, hex, hnr, hnr2, hnd]
    | interned =>
      unfold declarePaths canonicalizePaths
      canon_simp [hsr, hex, hnr]
    | none =>
      unfold declarePaths canonicalizePaths
      canon_simp [hsr, hex, hnr, sNone]
  | none =>
    cases t with
    | inUps => exact absurd rfl htab
    | absInside trel =>
      obtain ⟨htrel, htne, htdb, hnu⟩ := htab
      have htlen : 0 < trel.length := List.length_pos_iff.mpr htne
      have h1 : (root ++ [sUpsDb]).isPrefixOf (root ++ trel) = false := by
        rw [isPrefixOf_append_left]
        have := singleton_isPrefixOf_append sUpsDb trel [] htne
        simp only [List.append_nil] at this; rw [this]; simpa using htdb
      have hext2 : ex ⟨true, root ++ trel⟩ = true := by
        have := hext (by simp) _ rfl
        simpa [absP] using this
      unfold declarePaths canonicalizePaths
      have hnu' : [sNone, sUps].isPrefixOf trel = false := hnu
      have hnn : sNone.isEmpty = false := rfl
      canon_simp [hsr, h1, hex, hext2, htlen, htne, hnu', hnn]
    | absOutside s' =>
      obtain ⟨hs', hnr2, hnr2', _⟩ := htab
      have h1 : (root ++ [sUpsDb]).isPrefixOf s' = false := isPrefixOf_append_false _ _ _ hnr2
      unfold declarePaths canonicalizePaths
      canon_simp [hsr, h1, hex, hnr2, sNone]
    | interned =>
      unfold declarePaths canonicalizePaths
      canon_simp [hsr, hex, sNone]
    | none =>
      unfold declarePaths canonicalizePaths
      canon_simp [hsr, hex, sNone]

macro "resolve_simp" "[" facts:Lean.Parser.Tactic.simpLemma,* "]" : tactic =>
  `(tactic| simp [resolveInfo, resolvePaths, Prod.init, canonInfo, canonDir, canonTab, DirPl.at, TabPl.at, tableName, absP, Path.rel,
        PVal.truthy, PVal.isReal, Path.join, Except.map, $facts,*])

theorem resolve_spec (ex' : Path → Bool) (root root' : List Str) (name version flavor : Str) (d : DirPl) (t : TabPl)
    (hp : PlaceOK root name version flavor d t) (hroot' : SegsOK root')
    (hx : ReadEx ex' root' name version flavor d t) :
    (resolveInfo ex' name version flavor (absP (root' ++ [sUpsDb])) (canonInfo name version flavor d t)).map
        (fun p => (p.dir, p.table))
      = .ok (d.at root', t.at root' name version flavor d) := by
  obtain ⟨hroot, hname, hname', hflav, hver, hdir, htab⟩ := hp
  obtain ⟨hext, hshadow⟩ := hx
  have hsr : stackRoot { abs := true, segs := root' ++ [sUpsDb] } = ⟨true, root'⟩ := stackRoot_db root'
  have hnn : sNone.isEmpty = false := rfl
  have hr' : No36 root' := hroot'.no36'
  have hnm : 36 ∉ name ++ sDotTable := hname.2.2
  have hn36 : 36 ∉ name := hname'.2.2
  have hf36 : 36 ∉ flavor := hflav.2.2
  have hv36 : 36 ∉ version := hver.2.2
  have hu36 : 36 ∉ sUps := by decide
  have hdb36 : 36 ∉ sUpsDb := by decide
  have hmt : isMacroPath ⟨false, [name ++ sDotTable]⟩ = false := isMacroPath_false _ _ (by simpa [No36] using hnm)
  have hmu : isMacroPath ⟨false, [sUps]⟩ = false := by decide
  have hrm := fun m b v h => resolveMacros_plain m b v h
  have hhd := fun a l (h : No36 l) => hasDollar_false a l h
  cases d with
  | inside rel =>
    obtain ⟨hrel, hne, hdb⟩ := hdir
    have hrel36 : No36 rel := hrel.no36'
    have hmr : isMacroPath ⟨false, rel⟩ = false := isMacroPath_false _ _ hrel36
    have hd := hrm
    cases t with
    | inUps =>
      have hex : ex' ⟨true, root' ++ (rel ++ [sUps, name ++ sDotTable])⟩ = true := by
        have := hext _ rfl
        simpa [absP, DirPl.at] using this
      have e1 := fun m b => hrm m b ⟨true, root' ++ rel⟩ (by simp [hr', hrel36])
      have e2 := fun m b => hrm m b ⟨true, root' ++ (rel ++ [sUps])⟩ (by simp [hr', hrel36, hu36])
      have e3 := fun m b => hrm m b ⟨true, root' ++ (rel ++ [sUps, name ++ sDotTable])⟩ (by simp [hr', hrel36, hu36, hnm])
      have d1 := hhd true (root' ++ rel) (by simp [hr', hrel36])
      have d3 := hhd true (root' ++ (rel ++ [sUps, name ++ sDotTable])) (by simp [hr', hrel36, hu36, hnm])
      resolve_simp [hsr, hnn, hmt, hmu, hmr, e1, e2, e3, d1, d3, hex]
    | absInside trel =>
      obtain ⟨htrel, htne, htdb, hnu⟩ := htab
      have ht36 : No36 trel := htrel.no36'
      have hmtr : isMacroPath ⟨false, trel⟩ = false := isMacroPath_false _ _ ht36
      have hex : ex' ⟨true, root' ++ trel⟩ = true := by
        have := hext _ rfl
        simpa [absP] using this
      have hsh : ex' ⟨true, root' ++ (rel ++ (sUps :: trel))⟩ = false := by
        simpa [absP] using hshadow
      have e1 := fun m b => hrm m b ⟨true, root' ++ rel⟩ (by simp [hr', hrel36])
      have e2 := fun m b => hrm m b ⟨true, root' ++ (rel ++ [sUps])⟩ (by simp [hr', hrel36, hu36])
      have e3 := fun m b => hrm m b ⟨true, root' ++ trel⟩ (by simp [hr', ht36])
      have d1 := hhd true (root' ++ rel) (by simp [hr', hrel36])
      have d3 := hhd true (root' ++ trel) (by simp [hr', ht36])
      resolve_simp [hsr, hnn, hmtr, hmu, hmr, e1, e2, e3, d1, d3, hex, hsh, htne]
    | absOutside s =>
      obtain ⟨hs, _⟩ := htab
      have hs36 : No36 s := hs.no36'
      have e1 := fun m b => hrm m b ⟨true, root' ++ rel⟩ (by simp [hr', hrel36])
      have e2 := fun m b => hrm m b ⟨true, root' ++ (rel ++ [sUps])⟩ (by simp [hr', hrel36, hu36])
      have d1 := hhd true (root' ++ rel) (by simp [hr', hrel36])
      have d3 := hhd true s hs36
      resolve_simp [hsr, hnn, hmu, hmr, e1, e2, d1, d3]
    | interned =>
      have hmi : isMacroPath ⟨false, [mUPS_DB, flavor, name, version, sUps]⟩ = true := by
        simp [isMacroPath, headStartsWith, mUPS_DB, mUPS_, mPROD_]
      have hex : ex' ⟨true, root' ++ [sUpsDb, flavor, name, version, sUps, name ++ sDotTable]⟩ = true := by
        have := hext _ rfl
        simpa [absP] using this
      have e1 := fun m b => hrm m b ⟨true, root' ++ rel⟩ (by simp [hr', hrel36])
      have e2 := fun (m : Macros) b (h : m.upsDb = ⟨true, root' ++ [sUpsDb]⟩) =>
        resolveMacros_upsdb m b (root' ++ [sUpsDb]) [flavor, name, version, sUps] h (by simp [hf36, hn36, hv36, hu36])
      have e3 := fun m b => hrm m b ⟨true, root' ++ [sUpsDb, flavor, name, version, sUps, name ++ sDotTable]⟩
        (by simp [hr', hdb36, hf36, hn36, hv36, hu36, hnm])
      have d1 := hhd true (root' ++ rel) (by simp [hr', hrel36])
      have d3 := hhd true (root' ++ [sUpsDb, flavor, name, version, sUps, name ++ sDotTable])
        (by simp [hr', hdb36, hf36, hn36, hv36, hu36, hnm])
      resolve_simp [hsr, hnn, hmt, hmi, hmr, e1, e2, e3, d1, d3, hex]
    | none =>
      have e1 := fun m b => hrm m b ⟨true, root' ++ rel⟩ (by simp [hr', hrel36])
      have d1 := hhd true (root' ++ rel) (by simp [hr', hrel36])
      resolve_simp [hsr, hnn, hmr, e1, d1]
  | outside s =>
    obtain ⟨hs, hnr, hnr'⟩ := hdir
    have hs36 : No36 s := hs.no36'
    have d1 := hhd true s hs36
    cases t with
    | inUps =>
      have hex : ex' ⟨true, s ++ [sUps, name ++ sDotTable]⟩ = true := by
        have := hext _ rfl
        simpa [absP, DirPl.at] using this
      have e2 := fun m b => hrm m b ⟨true, s ++ [sUps]⟩ (by simp [hs36, hu36])
      have e3 := fun m b => hrm m b ⟨true, s ++ [sUps, name ++ sDotTable]⟩ (by simp [hs36, hu36, hnm])
      have d3 := hhd true (s ++ [sUps, name ++ sDotTable]) (by simp [hs36, hu36, hnm])
      resolve_simp [hsr, hnn, hmt, hmu, e2, e3, d1, d3, hex]
    | absInside trel =>
      obtain ⟨htrel, htne, htdb, hnu⟩ := htab
      have ht36 : No36 trel := htrel.no36'
      have hmtr : isMacroPath ⟨false, trel⟩ = false := isMacroPath_false _ _ ht36
      have hex : ex' ⟨true, root' ++ trel⟩ = true := by
        have := hext _ rfl
        simpa [absP] using this
      have hsh : ex' ⟨true, s ++ (sUps :: trel)⟩ = false := by
        simpa [absP] using hshadow
      have e2 := fun m b => hrm m b ⟨true, s ++ [sUps]⟩ (by simp [hs36, hu36])
      have e3 := fun m b => hrm m b ⟨true, root' ++ trel⟩ (by simp [hr', ht36])
      have d3 := hhd true (root' ++ trel) (by simp [hr', ht36])
      resolve_simp [hsr, hnn, hmtr, hmu, e2, e3, d1, d3, hex, hsh, htne]
    | absOutside s' =>
      obtain ⟨hs', _⟩ := htab
      have e2 := fun m b => hrm m b ⟨true, s ++ [sUps]⟩ (by simp [hs36, hu36])
      have d3 := hhd true s' hs'.no36'
      resolve_simp [hsr, hnn, hmu, e2, d1, d3]
    | interned =>
      have hmi : isMacroPath ⟨false, [mUPS_DB, flavor, name, version, sUps]⟩ = true := by
        simp [isMacroPath, headStartsWith, mUPS_DB, mUPS_, mPROD_]
      have hex : ex' ⟨true, root' ++ [sUpsDb, flavor, name, version, sUps, name ++ sDotTable]⟩ = true := by
        have := hext _ rfl
        simpa [absP] using this
      have e2 := fun (m : Macros) b (h : m.upsDb = ⟨true, root' ++ [sUpsDb]⟩) =>
        resolveMacros_upsdb m b (root' ++ [sUpsDb]) [flavor, name, version, sUps] h (by simp [hf36, hn36, hv36, hu36])
      have e3 := fun m b => hrm m b ⟨true, root' ++ [sUpsDb, flavor, name, version, sUps, name ++ sDotTable]⟩
        (by simp [hr', hdb36, hf36, hn36, hv36, hu36, hnm])
      have d3 := hhd true (root' ++ [sUpsDb, flavor, name, version, sUps, name ++ sDotTable])
        (by simp [hr', hdb36, hf36, hn36, hv36, hu36, hnm])
      resolve_simp [hsr, hnn, hmt, hmi, e2, e3, d1, d3, hex]
    | none =>
      resolve_simp [hsr, hnn, d1]
  | none =>
    cases t with
    | inUps => exact absurd rfl htab
    | absInside trel =>
      obtain ⟨htrel, htne, htdb, hnu⟩ := htab
      have ht36 : No36 trel := htrel.no36'
      have hmtr : isMacroPath ⟨false, trel⟩ = false := isMacroPath_false _ _ ht36
      have hex : ex' ⟨true, root' ++ trel⟩ = true := by
        have := hext _ rfl
        simpa [absP] using this
      have hsh : ex' ⟨false, sUps :: trel⟩ = false := by
        simpa [Path.rel] using hshadow
      have e2 := fun m b => hrm m b ⟨false, [sUps]⟩ (by simp [hu36])
      have e3 := fun m b => hrm m b ⟨true, root' ++ trel⟩ (by simp [hr', ht36])
      have d3 := hhd true (root' ++ trel) (by simp [hr', ht36])
      resolve_simp [hsr, hnn, hmtr, hmu, e2, e3, d3, hex, hsh, htne]
    | absOutside s' =>
      obtain ⟨hs', _⟩ := htab
      have e2 := fun m b => hrm m b ⟨false, [sUps]⟩ (by simp [hu36])
      have d3 := hhd true s' hs'.no36'
      resolve_simp [hsr, hnn, hmu, e2, d3]
    | interned =>
      have hmi : isMacroPath ⟨false, [mUPS_DB, flavor, name, version, sUps]⟩ = true := by
        simp [isMacroPath, headStartsWith, mUPS_DB, mUPS_, mPROD_]
      have hex : ex' ⟨true, root' ++ [sUpsDb, flavor, name, version, sUps, name ++ sDotTable]⟩ = true := by
        have := hext _ rfl
        simpa [absP] using this
      have e2 := fun (m : Macros) b (h : m.upsDb = ⟨true, root' ++ [sUpsDb]⟩) =>
        resolveMacros_upsdb m b (root' ++ [sUpsDb]) [flavor, name, version, sUps] h (by simp [hf36, hn36, hv36, hu36])
      have e3 := fun m b => hrm m b ⟨true, root' ++ [sUpsDb, flavor, name, version, sUps, name ++ sDotTable]⟩
        (by simp [hr', hdb36, hf36, hn36, hv36, hu36, hnm])
      have d3 := hhd true (root' ++ [sUpsDb, flavor, name, version, sUps, name ++ sDotTable])
        (by simp [hr', hdb36, hf36, hn36, hv36, hu36, hnm])
      resolve_simp [hsr, hnn, hmt, hmi, e2, e3, d3, hex]
    | none =>
      resolve_simp [hsr, hnn]

/-! ## Other flavors of a version file -/

theorem dget_dset_other {β : Type} (l : List (Str × β)) (k k' : Str) (v : β) (h : k' ≠ k) :
    dget (dset l k v) k' = dget l k' := by
  induction l with
  | nil =>
    have : ¬ k = k' := fun e => h e.symm
    simp [dset, dget, this]
  | cons x r ih =>
    obtain ⟨a, b⟩ := x
    by_cases ha : a = k
    · subst ha
      have : ¬ a = k' := fun e => h e.symm
      simp [dset, dget, this]
    · by_cases hb : a = k'
      · subst hb
        simp [dset, dget, ha]
      · simp [dset, dget, ha, hb, ih]

theorem dget_map {β : Type} (l : List (Str × β)) (g : Str → β → β) (k : Str) :
    dget (l.map fun (f, i) => (f, g f i)) k = (dget l k).map (g k) := by
  induction l with
  | nil => simp [dget]
  | cons x r ih =>
    obtain ⟨a, b⟩ := x
    by_cases ha : a = k
    · subst ha; simp [dget]
    · simp [dget, ha, ih]

theorem canon_db (p c : Prod) (h : canonicalizePaths p = .ok c) : c.db = p.db := by
  unfold canonicalizePaths at h
  simp only at h
  split at h
  · cases h
  · cases h; rfl

theorem declarePaths_db (ex : Path → Bool) (p : Prod) (old : Option PInfo) (c : Prod) (pi : PInfo)
    (h : declarePaths ex p old = .ok (c, pi)) : c.db = p.db := by
  unfold declarePaths at h
  cases hc : canonicalizePaths p with
  | error e => simp [hc] at h
  | ok c0 =>
    simp only [hc] at h
    split at h
    · cases h
    · split at h
      · cases h
      · cases h; exact canon_db p _ hc

/-- no path-valued entry of the block is an existing absolute path below `td` (what the trimming loop of
`VersionFile.write` would rewrite) -/
def TrimStable (ex : Path → Bool) (td : Path) (i : Info) : Prop :=
  ∀ k v, i.paths.getK k = some (.path v) → (v.abs && ex v) = true → v.under td = none

theorem trimKey_stable (ex : Path → Bool) (td : Option Path) (pi : PInfo) (k : PKey)
    (h : ∀ t, td = some t → ∀ v, pi.getK k = some (.path v) → (v.abs && ex v) = true → v.under t = none) :
    trimKey ex td pi k = pi := by
  unfold trimKey
  split
  · rename_i v t hk
    split
    · rename_i hv
      rw [h t rfl v hk hv]
    · rfl
  · rfl

theorem withTrim_self (i : Info) : i.withTrim i.paths = i := by
  simp [Info.withTrim, Info.paths]

theorem trimInfo_stable (ex : Path → Bool) (td : Option Path) (i : Info)
    (h : ∀ t, td = some t → TrimStable ex t i) : trimInfo ex td orderFile i.paths = i.paths := by
  have hk : ∀ k, trimKey ex td i.paths k = i.paths := fun k =>
    trimKey_stable ex td i.paths k (fun t ht v hv hex => h t ht k v hv hex)
  simp [trimInfo, orderFile, hk]

/-- redeclaring one flavor leaves every other flavor's block exactly as it was, provided that block holds no
existing absolute path below the stack root (true of every block eups itself wrote for the listed placements:
inside paths are relative, outside paths are not below the root) -/
theorem other_flavors_untouched (ex : Path → Bool) (who now : Str) (vr vr' : VRec) (p : Prod)
    (h : declareRec ex who now vr p = .ok vr') (f' : Str) (hf : f' ≠ p.flavor) (i : Info)
    (hi : dget vr.flavors f' = some i) (hs : TrimStable ex (stackRoot p.db) i) :
    dget vr'.flavors f' = some i := by
  unfold declareRec at h
  simp only at h
  cases hd : declarePaths ex p (Option.map Info.paths (dget vr.flavors p.flavor)) with
  | error e => simp [hd] at h
  | ok cp =>
    obtain ⟨c, pi⟩ := cp
    simp only [hd] at h
    cases h
    simp only
    rw [dget_dset_other _ _ _ _ hf]
    have hdb := declarePaths_db ex p _ c pi hd
    rw [dget_map vr.flavors (fun f i => if f = p.flavor then i else
      i.withTrim (trimInfo ex (if ex (stackRoot c.db) = true then some (stackRoot c.db) else none) orderFile i.paths)) f']
    simp only [hi, Option.map_some, hf, if_false]
    rw [trimInfo_stable ex _ i, withTrim_self]
    intro t ht
    split at ht
    · cases ht; rw [hdb]; exact hs
    · cases ht

end EupsModel.Record
