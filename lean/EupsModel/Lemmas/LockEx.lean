import EupsModel.Lemmas.LockStep
/-! C09 — invariant behind `C09_mutex_exclusive_only`: among exclusive requesters that do not re-enter a parent's
lock (no `EUPS_LOCK_PID`), for any number of processes, any `ntry` and every interleaving of their file-system
calls, at most one process is "inside" (between its successful `mkdir` and the end of its `giveLocks`); the lock
directory exists exactly while somebody is inside and holds exactly the file of the process that has one.
Ported from the design-round spike (`LockFull2.lean`) to the registered model (retries, re-entry tests). -/
namespace EupsModel.Lock

/-- owns the directory: entered through a successful `mkdir`, has not finished `giveLocks` -/
def inside : PC → Bool
  | .scan | .create | .hold | .isdir | .rexists | .remove | .count | .rmdir => true
  | _ => false

/-- its lock file exists -/
def hasFile : PC → Bool
  | .hold | .isdir | .rexists | .remove => true
  | _ => false

theorem hasFile_inside {p : PC} (h : hasFile p = true) : inside p = true := by
  cases p <;> simp_all [hasFile, inside]

theorem not_hasFile_of_not_inside {p : PC} (h : inside p = false) : hasFile p = false := by
  cases hh : hasFile p with
  | false => rfl
  | true => rw [hasFile_inside hh] at h; exact absurd h (by simp)

/-- program counters only a shared requester or a re-entering child can reach -/
def okPC (v : PC) : Prop := v ≠ .existsChk ∧ v ≠ .scan2 ∧ v ≠ .unlocked ∧ ∀ e, v ≠ .failedRel e

structure ExInv (s : St) : Prop where
  allEx  : ∀ i, s.kind i = .ex
  noLp   : ∀ i, s.lp i = none
  noSh   : ∀ i, okPC (s.pc i)
  uniq   : ∀ i j, inside (s.pc i) = true → inside (s.pc j) = true → i = j
  dirIff : s.dir = true ↔ ∃ i, inside (s.pc i) = true
  filesH : ∀ i, hasFile (s.pc i) = true → s.files = [(.ex, i)]
  filesN : (∀ i, hasFile (s.pc i) = false) → s.files = []

theorem exInv_init (kind : Pid → Kind) (lp : Pid → Option Pid) (tries : Pid → Nat)
    (hk : ∀ i, kind i = .ex) (hl : ∀ i, lp i = none) : ExInv (init kind lp tries) := by
  constructor <;> simp [init, inside, hasFile, okPC, hk, hl]

namespace ExInv
variable {s : St}

theorem others_not_inside (h : ExInv s) {i : Pid} (hi : inside (s.pc i) = true) :
    ∀ j, j ≠ i → inside (s.pc j) = false := by
  intro j hj
  cases hjj : inside (s.pc j) with
  | false => rfl
  | true => exact absurd (h.uniq j i hjj hi) hj

theorem others_no_file (h : ExInv s) {i : Pid} (hi : inside (s.pc i) = true) :
    ∀ j, j ≠ i → hasFile (s.pc j) = false :=
  fun j hj => not_hasFile_of_not_inside (h.others_not_inside hi j hj)

theorem files_nil_of_noFile (h : ExInv s) {i : Pid} (hi : inside (s.pc i) = true)
    (hf : hasFile (s.pc i) = false) : s.files = [] :=
  h.filesN (fun j => by
    by_cases hji : j = i
    · subst hji; exact hf
    · exact h.others_no_file hi j hji)

/-- process `i` stays inside, moving to `v`; the file set becomes `files'` -/
theorem upd_inside (h : ExInv s) (i : Pid) (v : PC) (files' : List (Kind × Pid))
    (hin : inside (s.pc i) = true) (hv : inside v = true) (hok : okPC v)
    (hH : hasFile v = true → files' = [(.ex, i)]) (hN : hasFile v = false → files' = []) :
    ExInv { s with files := files', pc := upd s.pc i v } := by
  have hoi := h.others_not_inside hin
  have hof := h.others_no_file hin
  refine ⟨h.allEx, h.noLp, ?_, ?_, ?_, ?_, ?_⟩
  · intro j; by_cases hj : j = i
    · subst hj; simpa using hok
    · simpa [upd, hj] using h.noSh j
  · intro a b ha hb
    by_cases haa : a = i <;> by_cases hbb : b = i
    · exact haa.trans hbb.symm
    · simp [upd, hbb, hoi b hbb] at hb
    · simp [upd, haa, hoi a haa] at ha
    · simp [upd, haa, hoi a haa] at ha
  · constructor
    · intro _; exact ⟨i, by simpa using hv⟩
    · intro _; exact h.dirIff.mpr ⟨i, hin⟩
  · intro j hj; by_cases hji : j = i
    · subst hji; simp at hj; exact hH hj
    · simp [upd, hji, hof j hji] at hj
  · intro hall
    have : hasFile v = false := by simpa using hall i
    exact hN this

/-- process `i`, not inside, moves to another program counter that is not inside -/
theorem upd_outside (h : ExInv s) (i : Pid) (v : PC)
    (hin : inside (s.pc i) = false) (hv : inside v = false) (hok : okPC v) :
    ExInv (setPC s i v) := by
  have hvf : hasFile v = false := not_hasFile_of_not_inside hv
  have hif : hasFile (s.pc i) = false := not_hasFile_of_not_inside hin
  refine ⟨h.allEx, h.noLp, ?_, ?_, ?_, ?_, ?_⟩
  · intro j; by_cases hj : j = i
    · subst hj; simpa [setPC] using hok
    · simpa [setPC, upd, hj] using h.noSh j
  · intro a b ha hb
    by_cases haa : a = i
    · subst haa; simp [setPC, hv] at ha
    · by_cases hbb : b = i
      · subst hbb; simp [setPC, hv] at hb
      · simp [setPC, upd, haa] at ha; simp [setPC, upd, hbb] at hb; exact h.uniq a b ha hb
  · constructor
    · intro hd
      obtain ⟨j, hj⟩ := h.dirIff.mp hd
      have : j ≠ i := by intro e; subst e; simp [hin] at hj
      exact ⟨j, by simpa [setPC, upd, this] using hj⟩
    · rintro ⟨j, hj⟩
      by_cases hji : j = i
      · subst hji; simp [setPC, hv] at hj
      · exact h.dirIff.mpr ⟨j, by simpa [setPC, upd, hji] using hj⟩
  · intro j hj; by_cases hji : j = i
    · subst hji; simp [setPC, hvf] at hj
    · simp [setPC, upd, hji] at hj; exact h.filesH j hj
  · intro hall; apply h.filesN; intro j; by_cases hji : j = i
    · subst hji; exact hif
    · have := hall j; simpa [setPC, upd, hji] using this

/-- a requester finds the directory free and creates it -/
theorem enter (h : ExInv s) (i : Pid) (hin : inside (s.pc i) = false) (hd : s.dir = false) :
    ExInv { s with dir := true, pc := upd s.pc i .scan } := by
  have noIn : ∀ j, inside (s.pc j) = false := by
    intro j
    cases hj : inside (s.pc j) with
    | false => rfl
    | true => exact absurd (h.dirIff.mpr ⟨j, hj⟩) (by simp [hd])
  have noFile : ∀ j, hasFile (s.pc j) = false := fun j => not_hasFile_of_not_inside (noIn j)
  refine ⟨h.allEx, h.noLp, ?_, ?_, ?_, ?_, ?_⟩
  · intro j; by_cases hj : j = i
    · subst hj; simp [okPC]
    · simpa [upd, hj] using h.noSh j
  · intro a b ha hb
    by_cases haa : a = i <;> by_cases hbb : b = i
    · exact haa.trans hbb.symm
    · simp [upd, hbb, noIn b] at hb
    · simp [upd, haa, noIn a] at ha
    · simp [upd, haa, noIn a] at ha
  · simp only [true_iff]; exact ⟨i, by simp [inside]⟩
  · intro j hj; by_cases hji : j = i
    · subst hji; simp [hasFile] at hj
    · simp [upd, hji, noFile j] at hj
  · intro _; exact h.filesN noFile

/-- the releaser removes the directory and leaves -/
theorem leave (h : ExInv s) (i : Pid) (hpc : s.pc i = .rmdir) :
    ExInv { s with dir := false, pc := upd s.pc i .done } := by
  have hin : inside (s.pc i) = true := by simp [hpc, inside]
  have hoi := h.others_not_inside hin
  have hof := h.others_no_file hin
  have hfiles : s.files = [] := h.files_nil_of_noFile hin (by simp [hpc, hasFile])
  refine ⟨h.allEx, h.noLp, ?_, ?_, ?_, ?_, ?_⟩
  · intro j; by_cases hj : j = i
    · subst hj; simp [okPC]
    · simpa [upd, hj] using h.noSh j
  · intro a b ha hb
    by_cases haa : a = i
    · subst haa; simp [inside] at ha
    · simp [upd, haa, hoi a haa] at ha
  · constructor
    · intro hd; simp at hd
    · rintro ⟨j, hj⟩
      by_cases hji : j = i
      · subst hji; simp [inside] at hj
      · simp [upd, hji, hoi j hji] at hj
  · intro j hj; by_cases hji : j = i
    · subst hji; simp [hasFile] at hj
    · simp [upd, hji, hof j hji] at hj
  · intro _; exact hfiles

end ExInv

theorem exInv_step (s : St) (i : Pid) (h : ExInv s) : ExInv (step s i) := by
  have hk := h.allEx i
  have hl := h.noLp i
  have hns := h.noSh i
  cases hpc : s.pc i with
  | mkdir left =>
    have hout : inside (s.pc i) = false := by simp [hpc, inside]
    rw [step_mkdir hpc]
    by_cases hd : s.dir = true
    · simp only [hd, if_true, hk]
      exact h.upd_outside i (.scanAll left) hout rfl (by simp [okPC])
    · have hd' : s.dir = false := by simpa using hd
      simp only [hd', Bool.false_eq_true, if_false]
      exact h.enter i hout hd'
  | scanAll left =>
    have hout : inside (s.pc i) = false := by simp [hpc, inside]
    rw [step_scanAll hpc, hl, parentHolds_none]
    exact h.upd_outside i (.scanMsg left) hout rfl (by simp [okPC])
  | scanMsg left =>
    have hout : inside (s.pc i) = false := by simp [hpc, inside]
    cases left with
    | zero => rw [step_scanMsg_zero hpc]; exact h.upd_outside i (.failedAcq .runtime) hout rfl (by simp [okPC])
    | succ n => rw [step_scanMsg_succ hpc]; exact h.upd_outside i (.mkdir n) hout rfl (by simp [okPC])
  | existsChk => rw [hpc] at hns; exact absurd rfl hns.1
  | scan2 => rw [hpc] at hns; exact absurd rfl hns.2.1
  | unlocked => rw [hpc] at hns; exact absurd rfl hns.2.2.1
  | scan =>
    have hin : inside (s.pc i) = true := by simp [hpc, inside]
    have hfiles : s.files = [] := h.files_nil_of_noFile hin (by simp [hpc, hasFile])
    rw [step_scan hpc]
    simp only [hfiles, exFiles, List.filter_nil, List.length_nil, if_true]
    have := h.upd_inside i .create [] hin rfl (by simp [okPC]) (by simp [hasFile]) (by simp)
    simpa [hfiles, setPC] using this
  | create =>
    have hin : inside (s.pc i) = true := by simp [hpc, inside]
    have hd : s.dir = true := h.dirIff.mpr ⟨i, hin⟩
    have hfiles : s.files = [] := h.files_nil_of_noFile hin (by simp [hpc, hasFile])
    rw [step_create hpc]
    simp only [hd, if_true, hfiles, hk]
    have := h.upd_inside i .hold [(.ex, i)] hin rfl (by simp [okPC]) (by simp) (by simp [hasFile])
    simpa [hd] using this
  | hold =>
    have hin : inside (s.pc i) = true := by simp [hpc, inside]
    have hfiles : s.files = [(.ex, i)] := h.filesH i (by simp [hpc, hasFile])
    rw [step_hold hpc]
    have := h.upd_inside i .isdir [(.ex, i)] hin rfl (by simp [okPC]) (by simp) (by simp [hasFile])
    simpa [hfiles, setPC] using this
  | isdir =>
    have hin : inside (s.pc i) = true := by simp [hpc, inside]
    have hd : s.dir = true := h.dirIff.mpr ⟨i, hin⟩
    have hfiles : s.files = [(.ex, i)] := h.filesH i (by simp [hpc, hasFile])
    rw [step_isdir hpc]
    simp only [hd, if_true]
    have := h.upd_inside i .rexists [(.ex, i)] hin rfl (by simp [okPC]) (by simp) (by simp [hasFile])
    simpa [hfiles, hd, setPC] using this
  | rexists =>
    have hin : inside (s.pc i) = true := by simp [hpc, inside]
    have hfiles : s.files = [(.ex, i)] := h.filesH i (by simp [hpc, hasFile])
    rw [step_rexists hpc]
    simp only [hfiles, hk, List.contains_cons, beq_self_eq_true, Bool.true_or, if_true]
    have := h.upd_inside i .remove [(.ex, i)] hin rfl (by simp [okPC]) (by simp) (by simp [hasFile])
    simpa [hfiles, setPC] using this
  | remove =>
    have hin : inside (s.pc i) = true := by simp [hpc, inside]
    have hfiles : s.files = [(.ex, i)] := h.filesH i (by simp [hpc, hasFile])
    rw [step_remove hpc]
    simp only [hfiles, hk, List.contains_cons, beq_self_eq_true, Bool.true_or, if_true]
    have := h.upd_inside i .count [] hin rfl (by simp [okPC]) (by simp [hasFile]) (by simp)
    simpa using this
  | count =>
    have hin : inside (s.pc i) = true := by simp [hpc, inside]
    have hd : s.dir = true := h.dirIff.mpr ⟨i, hin⟩
    have hfiles : s.files = [] := h.files_nil_of_noFile hin (by simp [hpc, hasFile])
    rw [step_count hpc]
    simp only [hd, if_true, hfiles, List.isEmpty_nil]
    have := h.upd_inside i .rmdir [] hin rfl (by simp [okPC]) (by simp [hasFile]) (by simp)
    simpa [hfiles, hd, setPC] using this
  | rmdir =>
    have hin : inside (s.pc i) = true := by simp [hpc, inside]
    have hd : s.dir = true := h.dirIff.mpr ⟨i, hin⟩
    have hfiles : s.files = [] := h.files_nil_of_noFile hin (by simp [hpc, hasFile])
    rw [step_rmdir hpc]
    simp only [hd, hfiles, List.isEmpty_nil, if_true]
    have := h.leave i hpc
    simpa [hfiles] using this
  | done => rw [step_done hpc]; exact h
  | failedAcq e => rw [step_failedAcq hpc]; exact h
  | failedRel e => rw [hpc] at hns; exact absurd rfl (hns.2.2.2 e)

theorem exInv_run (s : St) (h : ExInv s) (sched : List Pid) : ExInv (run s sched) := by
  induction sched generalizing s with
  | nil => simpa using h
  | cons i rest ih => simpa using ih (step s i) (exInv_step s i h)

end EupsModel.Lock
