import EupsModel.Lemmas.VersionConv
/-! `Eups.version_match` (C10): the tokeniser on rendered `||` chains, the loop on their tokens;
`latest` picks a maximum. -/
set_option linter.unusedVariables false
set_option linter.unusedSimpArgs false
namespace EupsModel.VersionCmp
open EupsModel EupsModel.Order

/-! ## chains of relational terms -/

/-- a character of a well-formed name: `[A-Za-z0-9._+-]` -/
def nameChar (c : Nat) : Bool := Str.isAlnum c || c == 46 || c == 95 || c == 43 || c == 45
/-- a well-formed name -/
def wfName (v : Str) : Prop := v ≠ [] ∧ ∀ c ∈ v, nameChar c = true
/-- one of `<  <=  ==  >=  >` -/
def isRelop (op : Str) : Prop := op = opLt ∨ op = opLe ∨ op = opEq ∨ op = opGe ∨ op = opGt

/-- a term `op v` -/
abbrev Term := Str × Str
def WfTerm (t : Term) : Prop := isRelop t.1 ∧ wfName t.2

/-- `op v` -/
def renderTerm (t : Term) : Str := t.1 ++ 32 :: t.2
/-- ` || op v || op v …` -/
def tailRender : List Term → Str
  | [] => []
  | t :: ts => [32, 124, 124, 32] ++ (renderTerm t ++ tailRender ts)
/-- the expression `op v || op v || …` -/
def render (t : Term) (ts : List Term) : Str := renderTerm t ++ tailRender ts

def tailToks : List Term → List Str
  | [] => []
  | t :: ts => sBarBar :: t.1 :: t.2 :: tailToks ts

/-! ## the tokeniser -/

theorem nameChar_plain {c : Nat} (h : nameChar c = true) :
    Str.isSpace c = false ∧ c ≠ 60 ∧ c ≠ 61 ∧ c ≠ 62 ∧ c ≠ 124 := by
  simp [nameChar, Str.isAlnum, Str.isAlpha, Str.isUpper, Str.isLower, Str.isDigit, Str.isSpace] at *
  omega

theorem opLen_plain {c : Nat} {xs : Str} (h1 : c ≠ 60) (h2 : c ≠ 61) (h3 : c ≠ 62) (h4 : c ≠ 124) :
    opLen (c :: xs) = 0 := by
  unfold opLen
  split <;> simp_all

theorem tokGo_name (v cur rest : Str) (hv : ∀ c ∈ v, nameChar c = true) :
    tokGo 0 cur (v ++ rest) = tokGo 0 (v.reverse ++ cur) rest := by
  induction v generalizing cur with
  | nil => rfl
  | cons c cs ih =>
    obtain ⟨hs, h1, h2, h3, h4⟩ := nameChar_plain (hv c (by simp))
    simp only [List.cons_append, tokGo, hs, Bool.false_eq_true, if_false, opLen_plain h1 h2 h3 h4, ne_eq,
      not_true_eq_false]
    rw [ih (c :: cur) (fun x hx => hv x (by simp [hx]))]
    simp

theorem tokGo_op {op : Str} (h : isRelop op) (rest : Str) :
    tokGo 0 [] (op ++ 32 :: rest) = op :: tokGo 0 [] rest := by
  rcases h with rfl | rfl | rfl | rfl | rfl <;>
    simp [tokGo, opLen, Str.isSpace, opLt, opLe, opEq, opGe, opGt]

theorem tokGo_barbar (cur rest : Str) (hc : cur ≠ []) :
    tokGo 0 cur (32 :: 124 :: 124 :: 32 :: rest) = cur.reverse :: sBarBar :: tokGo 0 [] rest := by
  cases cur with
  | nil => exact absurd rfl hc
  | cons a as => simp [tokGo, opLen, Str.isSpace, sBarBar]

theorem tokGo_tail (v : Str) (hv : wfName v) (ts : List Term) (hts : ∀ t ∈ ts, WfTerm t) :
    tokGo 0 v.reverse (tailRender ts) = v :: tailToks ts := by
  induction ts generalizing v with
  | nil =>
    have : v.reverse ≠ [] := by simpa using hv.1
    cases h : v.reverse with
    | nil => exact absurd h this
    | cons a as =>
      simp only [tailRender, tokGo, List.isEmpty_cons, Bool.false_eq_true, if_false, tailToks]
      rw [← h]; simp
  | cons t ts ih =>
    obtain ⟨hop, hname⟩ := hts t (by simp)
    simp only [tailRender, tailToks, List.cons_append, List.nil_append]
    rw [tokGo_barbar _ _ (by simpa using hv.1)]
    simp only [List.reverse_reverse, renderTerm, List.append_assoc, List.cons_append]
    rw [tokGo_op hop, tokGo_name _ _ _ hname.2]
    simp only [List.append_nil]
    rw [ih t.2 hname (fun x hx => hts x (by simp [hx]))]

/-- the tokeniser on a rendered chain -/
theorem tokenize_render (t : Term) (ts : List Term) (ht : WfTerm t) (hts : ∀ x ∈ ts, WfTerm x) :
    tokenize (render t ts) = t.1 :: t.2 :: tailToks ts := by
  simp only [tokenize, render, renderTerm, List.append_assoc, List.cons_append]
  rw [tokGo_op ht.1, tokGo_name _ _ _ ht.2.2]
  simp only [List.append_nil]
  rw [tokGo_tail t.2 ht.2 ts hts]

/-! ## the loop -/

/-- the term holds in the order `cmp` (false when the comparison fails) -/
def termHolds (cmp : Str → Str → Except Err Int) (x : Str) (t : Term) : Bool :=
  match cmp x t.2 with
  | .ok r => relHolds t.1 r == some true
  | .error _ => false

theorem hasRelop_relop {op : Str} (h : isRelop op) : hasRelop op = true := by
  rcases h with rfl | rfl | rfl | rfl | rfl <;> decide

theorem matchLoop_first (cmp : Str → Str → Except Err Int) (x : Str) (t : Term) (rest : List Str)
    (hop : isRelop t.1) (r : Int) (hr : cmp x t.2 = .ok r) :
    matchLoop cmp x (t.1 :: t.2 :: rest) none none = matchLoop cmp x rest none (relHolds t.1 r) := by
  simp [matchLoop, hasRelop_relop hop, matchPrim, hr]

theorem matchLoop_or (cmp : Str → Str → Except Err Int) (x : Str) (t : Term) (rest : List Str)
    (hop : isRelop t.1) (r : Int) (hr : cmp x t.2 = .ok r) (lg : Option LogOp) (b : Bool) :
    matchLoop cmp x (sBarBar :: t.1 :: t.2 :: rest) lg (some b) =
      if b || termHolds cmp x t then .ok true else matchLoop cmp x rest (some .or) (some false) := by
  have h1 : hasRelop sBarBar = false := by decide
  have h2 : plainTok sBarBar = false := by decide
  rw [matchLoop]
  simp only [h1, h2, Bool.false_eq_true, if_false, Bool.false_and, beq_self_eq_true, Bool.true_or, if_true]
  rw [matchLoop]
  simp only [hasRelop_relop hop, if_true, matchPrim, hr, termHolds]
  cases b <;> simp

theorem matchLoop_tail (cmp : Str → Str → Except Err Int) (x : Str) (ts : List Term)
    (hts : ∀ t ∈ ts, isRelop t.1 ∧ ∃ r, cmp x t.2 = .ok r) (lg : Option LogOp) (b : Bool) :
    matchLoop cmp x (tailToks ts) lg (some b) = .ok (b || ts.any (termHolds cmp x)) := by
  induction ts generalizing lg b with
  | nil => cases b <;> simp [tailToks, matchLoop]
  | cons t ts ih =>
    obtain ⟨hop, r, hr⟩ := hts t (by simp)
    simp only [tailToks]
    rw [matchLoop_or cmp x t _ hop r hr]
    by_cases h : (b || termHolds cmp x t) = true
    · simp only [h, if_true, List.any_cons]
      rw [← Bool.or_assoc, h]; simp
    · simp only [h, Bool.false_eq_true, if_false, List.any_cons]
      rw [ih (fun y hy => hts y (by simp [hy]))]
      simp only [Bool.not_eq_true, Bool.or_eq_false_iff] at h
      simp [h.1, h.2]

/-- the loop on the tokens of a chain whose comparisons all succeed: the disjunction of its terms -/
theorem matchLoop_chain (cmp : Str → Str → Except Err Int) (x : Str) (t : Term) (ts : List Term)
    (hts : ∀ y ∈ t :: ts, isRelop y.1 ∧ ∃ r, cmp x y.2 = .ok r) :
    matchLoop cmp x (t.1 :: t.2 :: tailToks ts) none none = .ok ((t :: ts).any (termHolds cmp x)) := by
  obtain ⟨hop, r, hr⟩ := hts t (by simp)
  rw [matchLoop_first cmp x t _ hop r hr]
  have hrel : relHolds t.1 r = some (termHolds cmp x t) := by
    simp only [termHolds, hr]
    rcases hop with h | h | h | h | h <;> rw [h] <;> simp [relHolds, opLt, opLe, opEq, opGe, opGt]
  rw [hrel, matchLoop_tail cmp x ts (fun y hy => hts y (by simp [hy]))]
  simp

/-! ## latest -/

theorem lexPairs_spec {names : List Str} {ps : List (Str × Lexed)} (h : lexPairs names = .ok ps) :
    ps.map Prod.fst = names ∧ ∀ p ∈ ps, lex p.1 = .ok p.2 := by
  induction names generalizing ps with
  | nil => simp [lexPairs] at h; subst h; simp
  | cons v vs ih =>
    simp only [lexPairs] at h
    cases hl : lex v with
    | error e => simp [hl] at h
    | ok l =>
      cases hr : lexPairs vs with
      | error e => simp [hl, hr] at h
      | ok ls =>
        simp only [hl, hr, Except.ok.injEq] at h
        subst h
        obtain ⟨h1, h2⟩ := ih hr
        refine ⟨by simp [h1], ?_⟩
        intro p hp
        rcases List.mem_cons.mp hp with rfl | hp'
        · exact hl
        · exact h2 p hp'

theorem lexPairs_of_conv {names : List Str} (h : ∀ v ∈ names, convName v = true) :
    ∃ ps, lexPairs names = .ok ps ∧ ∀ p ∈ ps, convLexed p.2 = true := by
  induction names with
  | nil => exact ⟨[], rfl, by simp⟩
  | cons v vs ih =>
    obtain ⟨ps, hps, hc⟩ := ih (fun x hx => h x (by simp [hx]))
    have hv := h v (by simp)
    simp only [convName] at hv
    cases hl : lex v with
    | error e => simp [hl] at hv
    | ok l =>
      refine ⟨(v, l) :: ps, by simp [lexPairs, hl, hps], ?_⟩
      intro p hp
      rcases List.mem_cons.mp hp with rfl | hp'
      · simpa [hl] using hv
      · exact hc p hp'

/-- the pass keeps a maximum of what it has seen -/
theorem lastMax_spec (seen xs : List (Str × Lexed)) (b : Str × Lexed)
    (hconv : ∀ p ∈ seen ++ xs, convLexed p.2 = true) (hb : b ∈ seen) (hmax : ∀ y ∈ seen, cmpSort y.2 b.2 ≤ 0) :
    ∃ m, lastMax (some b) xs = some m ∧ m ∈ seen ++ xs ∧ ∀ y ∈ seen ++ xs, cmpSort y.2 m.2 ≤ 0 := by
  induction xs generalizing seen b with
  | nil => exact ⟨b, rfl, by simpa using hb, by simpa using hmax⟩
  | cons x xs ih =>
    have hx : convLexed x.2 = true := hconv x (by simp)
    have hbc : convLexed b.2 = true := hconv b (by simp [hb])
    have e : seen ++ x :: xs = (seen ++ [x]) ++ xs := by simp
    simp only [lastMax]
    by_cases hge : cmpSort x.2 b.2 ≥ 0
    · simp only [hge, if_true]
      have hbx : cmpSort b.2 x.2 ≤ 0 := by rw [cmpSort_antisym]; omega
      rw [e] at hconv ⊢
      apply ih (seen ++ [x]) x hconv (by simp)
      intro y hy
      rcases List.mem_append.mp hy with hy | hy
      · exact good_cmpSort.trans y.2 b.2 x.2 (hconv y (by simp [hy])) hbc hx (hmax y hy) hbx
      · simp only [List.mem_singleton] at hy; subst hy; rw [cmpSort_self]; exact Int.le_refl 0
    · simp only [hge, if_false]
      rw [e] at hconv ⊢
      apply ih (seen ++ [x]) b hconv (by simp [hb])
      intro y hy
      rcases List.mem_append.mp hy with hy | hy
      · exact hmax y hy
      · simp only [List.mem_singleton] at hy; subst hy; omega

theorem lastMax_none_spec (xs : List (Str × Lexed)) (hne : xs ≠ []) (hconv : ∀ p ∈ xs, convLexed p.2 = true) :
    ∃ m, lastMax none xs = some m ∧ m ∈ xs ∧ ∀ y ∈ xs, cmpSort y.2 m.2 ≤ 0 := by
  cases xs with
  | nil => exact absurd rfl hne
  | cons x xs =>
    simp only [lastMax]
    have := lastMax_spec [x] xs x (by simpa using hconv) (by simp)
      (by intro y hy; simp only [List.mem_singleton] at hy; subst hy; rw [cmpSort_self]; exact Int.le_refl 0)
    simpa using this

theorem findIdx_beq_spec (l : List Str) (v : Str) (hv : v ∈ l) :
    l[l.findIdx (· == v)]? = some v ∧ ∀ j, j < l.findIdx (· == v) → l[j]? ≠ some v := by
  induction l with
  | nil => simp at hv
  | cons a as ih =>
    rw [List.findIdx_cons]
    by_cases h : a = v
    · subst h; simp
    · have hb : (a == v) = false := by simpa using h
      have hv' : v ∈ as := by
        rcases List.mem_cons.mp hv with e | e
        · exact absurd e.symm h
        · exact e
      obtain ⟨h1, h2⟩ := ih hv'
      simp only [hb, cond_false]
      refine ⟨by simpa using h1, ?_⟩
      intro j hj
      cases j with
      | zero => simpa using h
      | succ j => simpa using h2 j (by omega)

/-! ## more on the loop: a single unsortable term, the implicit `==` -/

theorem hasRelop_name {v : Str} (hv : ∀ c ∈ v, nameChar c = true) : hasRelop v = false := by
  induction v with
  | nil => rfl
  | cons c cs ih =>
    obtain ⟨_, h1, h2, h3, _⟩ := nameChar_plain (hv c (by simp))
    simp [hasRelop, h1, h2, h3, ih (fun x hx => hv x (by simp [hx]))]

theorem plainTok_name {v : Str} (hv : wfName v) : plainTok v = true := by
  obtain ⟨hne, hc⟩ := hv
  cases v with
  | nil => exact absurd rfl hne
  | cons a as =>
    simp only [plainTok, List.isEmpty_cons, Bool.not_false, Bool.true_and, List.all_eq_true]
    intro c hcm
    have := hc c hcm
    simp only [nameChar, Bool.or_eq_true] at this
    simp only [Bool.or_eq_true]
    rcases this with (((h | h) | h) | h) | h <;> simp [h]

theorem tokenize_name {v : Str} (hv : wfName v) : tokenize v = [v] := by
  have := tokGo_name v [] [] hv.2
  simp only [List.append_nil] at this
  rw [tokenize, this]
  cases h : v.reverse with
  | nil => exact absurd (by simpa using h) hv.1
  | cons a as => simp only [tokGo, List.isEmpty_cons, Bool.false_eq_true, if_false]; rw [← h]; simp

/-! ## latest through the stacks -/

/-- what the loop over the stacks maintains: the candidate is a seen version that no seen version exceeds -/
def AcrossInv (out : Option (Nat × Str × Lexed)) (seen : List Str) : Prop :=
  match out with
  | none => seen = []
  | some (_, w, lw) => lex w = .ok lw ∧ convLexed lw = true ∧ w ∈ seen ∧
      ∀ y ∈ seen, ∃ ly, lex y = .ok ly ∧ convLexed ly = true ∧ cmpSort ly lw ≤ 0

theorem latestAcrossGo_spec (rest : List (List Str)) :
    ∀ (i : Nat) (out : Option (Nat × Str × Lexed)) (seen : List Str),
      (∀ st ∈ rest, ∀ v ∈ st, convName v = true) → AcrossInv out seen →
      ∃ out', latestAcrossGo none i out rest = .ok out' ∧ AcrossInv out' (seen ++ rest.flatten) := by
  induction rest with
  | nil => intro i out seen _ h; exact ⟨out, rfl, by simpa using h⟩
  | cons st rest ih =>
    intro i out seen hconv hinv
    obtain ⟨ps, hps, hc⟩ := lexPairs_of_conv (hconv st (by simp))
    obtain ⟨hmap, hlex⟩ := lexPairs_spec hps
    have hrest : ∀ st' ∈ rest, ∀ v ∈ st', convName v = true := fun st' h' => hconv st' (by simp [h'])
    have hflat : seen ++ (st :: rest).flatten = (seen ++ st) ++ rest.flatten := by simp
    rw [hflat]
    simp only [latestAcrossGo, hps]
    by_cases hne : ps = []
    · subst hne
      simp only [List.map_nil] at hmap
      subst hmap
      simp only [lastMax, List.append_nil]
      exact ih (i + 1) out seen hrest hinv
    · obtain ⟨m, hm, hmem, hmax⟩ := lastMax_none_spec ps hne hc
      obtain ⟨v, l⟩ := m
      have hvst : v ∈ st := by rw [← hmap]; exact List.mem_map_of_mem (f := Prod.fst) hmem
      have hst : ∀ y ∈ st, ∃ ly, lex y = .ok ly ∧ convLexed ly = true ∧ cmpSort ly l ≤ 0 := by
        intro y hy
        rw [← hmap] at hy
        obtain ⟨p, hp, rfl⟩ := List.mem_map.mp hy
        exact ⟨p.2, hlex p hp, hc p hp, hmax p hp⟩
      have hl : lex v = .ok l := hlex (v, l) hmem
      have hcl : convLexed l = true := hc (v, l) hmem
      simp only [hm, belowMin]
      cases out with
      | none =>
        simp only [AcrossInv] at hinv
        subst hinv
        apply ih (i + 1) _ _ hrest
        simp only [AcrossInv, List.nil_append]
        exact ⟨hl, hcl, hvst, hst⟩
      | some o =>
        obtain ⟨j, w, lw⟩ := o
        obtain ⟨hw, hcw, hwm, hall⟩ := hinv
        simp only
        by_cases hgt : cmpSort l lw > 0
        · simp only [hgt, if_true]
          apply ih (i + 1) _ _ hrest
          refine ⟨hl, hcl, by simp [hvst], ?_⟩
          intro y hy
          rcases List.mem_append.mp hy with hy | hy
          · obtain ⟨ly, h1, h2, h3⟩ := hall y hy
            have : cmpSort lw l ≤ 0 := by rw [cmpSort_antisym]; omega
            exact ⟨ly, h1, h2, good_cmpSort.trans ly lw l h2 hcw hcl h3 this⟩
          · exact hst y hy
        · simp only [hgt, if_false]
          apply ih (i + 1) _ _ hrest
          refine ⟨hw, hcw, by simp [hwm], ?_⟩
          intro y hy
          rcases List.mem_append.mp hy with hy | hy
          · exact hall y hy
          · obtain ⟨ly, h1, h2, h3⟩ := hst y hy
            exact ⟨ly, h1, h2, good_cmpSort.trans ly l lw h2 hcl hcw h3 (by omega)⟩

/-! ## the database branch enumerates the same versions -/

theorem mem_insertStr (x v : Str) (l : List Str) : v ∈ insertStr x l ↔ v = x ∨ v ∈ l := by
  induction l with
  | nil => simp [insertStr]
  | cons y ys ih =>
    simp only [insertStr]
    split
    · simp
    · simp only [List.mem_cons, ih]
      constructor
      · rintro (h | h | h)
        · exact Or.inr (Or.inl h)
        · exact Or.inl h
        · exact Or.inr (Or.inr h)
      · rintro (h | h | h)
        · exact Or.inr (Or.inl h)
        · exact Or.inl h
        · exact Or.inr (Or.inr h)

theorem mem_dbOrder (v : Str) (l : List Str) : v ∈ dbOrder l ↔ v ∈ l := by
  induction l with
  | nil => simp [dbOrder]
  | cons x xs ih => simp only [dbOrder, mem_insertStr, ih, List.mem_cons]

theorem mem_flatten_dbOrder (v : Str) (stacks : List (List Str)) :
    v ∈ (stacks.map dbOrder).flatten ↔ v ∈ stacks.flatten := by
  simp only [List.mem_flatten, List.mem_map]
  constructor
  · rintro ⟨l, ⟨st, hst, rfl⟩, hv⟩
    exact ⟨st, hst, (mem_dbOrder v st).mp hv⟩
  · rintro ⟨st, hst, hv⟩
    exact ⟨dbOrder st, ⟨st, hst, rfl⟩, (mem_dbOrder v st).mpr hv⟩

end EupsModel.VersionCmp
