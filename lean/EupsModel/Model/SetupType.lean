import EupsModel.Model.TableParse
/-! Model of the glue between the command line and `Table.actions(flavor, setupType)`:
`Eups.__init__`'s normalisation of its `setupType` argument (`Eups.py`: `None`/`""` → no type; a string with white
space or commas is split at runs of them, `re.split(r"[\s,]+", …)`; any other string is one type; a list is taken as
it is; every type must be one of the valid setup types, else `EupsException`; `exact_version` adds `exact`;
`self.exact_version` is "`exact` is among the types") — `setup --type "build exact"` passes the option string,
`eups <cmd> -T "build exact"` passes `str.split()` of it — and `Table.dependencies`' removal of `exact` when it does
not follow exact versions. -/
namespace EupsModel.SetupType
open EupsModel.Cond

/-- the `setupType` argument of `Eups(...)` -/
inductive Arg | none | str (s : Str) | list (l : List Str)
  deriving DecidableEq, Repr

/-- `[\s,]` -/
def sepCh (c : Nat) : Bool := Str.isSpace c || c == 44

/-- `re.split(r"[\s,]+", s)`: the pieces between maximal runs of separators (empty pieces at the ends when the
string starts or ends with one).  `inSep`: the previous character was a separator. -/
def splitRuns : Str → Str → Bool → List Str
  | cur, [], _ => [cur]
  | cur, c :: cs, inSep =>
    if sepCh c then (if inSep then splitRuns cur cs true else cur :: splitRuns [] cs true)
    else splitRuns (cur ++ [c]) cs false

/-- `str.split()`: the non-empty pieces between runs of white space -/
def splitWs : Str → Str → List Str
  | cur, [] => if cur.isEmpty then [] else [cur]
  | cur, c :: cs =>
    if Str.isSpace c then (if cur.isEmpty then splitWs [] cs else cur :: splitWs [] cs) else splitWs (cur ++ [c]) cs

def sExact : Str := Str.ofString "exact"

/-- the types named by the argument, before validation -/
def argTypes : Arg → List Str
  | .none => []
  | .str s => if s.isEmpty then [] else if s.any sepCh then splitRuns [] s false else [s]
  | .list l => l

/-- `Eups.__init__`: `none` = `EupsException` (unknown setup type); else `(self.setupType, self.exact_version)` -/
def normTypes (valid : List Str) (arg : Arg) (exactOpt : Bool) : Option (List Str × Bool) :=
  let ts := argTypes arg
  if ts.all (fun t => valid.contains t) then
    let ts := if exactOpt && !ts.contains sExact then ts ++ [sExact] else ts
    some (ts, ts.contains sExact)
  else none

/-- `eups <cmd> -T opt`: `cmd.py` passes `opt.split()` -/
def cmdArg (opt : Str) : Arg := .list (splitWs [] opt)

/-- `setup --type opt`: `setupcmd.py` passes the string -/
def setupArg (opt : Str) : Arg := .str opt

/-- `Table.dependencies`: `setupType = [t for t in setupType if t != "exact"]` unless it follows exact versions -/
def depTypes (followExact : Bool) (types : List Str) : List Str :=
  if followExact then types else types.filter (· != sExact)

/-! ## sequences on one live `Eups` object

`Eups.setupType` is one list shared by every later evaluation of a table through the same object
(`Table.dependencies(Eups, …)`, `table.actions(flavor, setupType=self.setupType)` in `Eups.setup`).
`Table.dependencies` builds a *new* list when it drops `exact`; the list of the object is never changed. -/

/-- a step: a dependency walk over the table (`followExact` given or `None` = `Eups.exact_version`), or the
evaluation of the table as `Eups.setup` does it -/
inductive Step | deps (fe : Option Bool) | acts
  deriving DecidableEq, Repr

structure StepOut where
  state : List Str                                   -- `Eups.setupType` after the step
  asked : Option (List Str)                          -- deps: the types `Table.actions` was called with
  actions : Option (Res (List TableParse.Action))    -- acts: the action list
  deriving Repr

/-- one step from the state `types`: its observables and the state after it -/
def stepOut (exactVersion : Bool) (pdir : Option Str) (flavor text : Str) (types : List Str) : Step → StepOut × List Str
  | .deps fe => (⟨types, some (depTypes (fe.getD exactVersion) types), none⟩, types)
  | .acts => (⟨types, none, some (TableParse.tableActions TableParse.repaired pdir ⟨flavor, types⟩ text)⟩, types)

def runSeq (exactVersion : Bool) (pdir : Option Str) (flavor text : Str) : List Str → List Step → List StepOut
  | _, [] => []
  | ts, s :: r =>
    let o := stepOut exactVersion pdir flavor text ts s
    o.1 :: runSeq exactVersion pdir flavor text o.2 r

end EupsModel.SetupType
