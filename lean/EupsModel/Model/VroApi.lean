import EupsModel.Model.Vro
/-! The lookup entry points of `Eups` beside the VRO walk (python/eups/Eups.py):
`findProduct` (l.1015), `findPreferredProduct` (l.1404), `_findPreferredProductByExpr` / `_selectPreferredProduct`
with the instance's preferred tags (l.1326, l.1371), `findTaggedProduct` (l.1087) and the tag files it falls back to,
`_findTaggedProductFromFile` (l.1185) — a text file of `product version` or `setupRequired(product … version)` lines.

These are the pre-VRO interfaces; the VRO walk (`findProductFromVRO`) does not go through them, except that a tag
file entry and the `setup` pseudo-tag end in `findProduct`.  They read the same views (`Ctx`) as the walk. -/
namespace EupsModel.Vro

/-! ## the text of a tag file -/

/-- `re.sub(r"^[|\s]*", "", line)` -/
def stripLead : Str → Str
  | [] => []
  | c :: cs => if c == 124 || Str.isSpace c then stripLead cs else c :: cs

/-- `re.sub(r"\s*$", "", line)` -/
def stripTrail (s : Str) : Str := (skipSpaces s.reverse).reverse

/-- `str.split()`: maximal runs of non-whitespace -/
def splitWsGo : Str → Str → List Str
  | cur, [] => flushTok cur
  | cur, c :: cs => if Str.isSpace c then flushTok cur ++ splitWsGo [] cs else splitWsGo (c :: cur) cs

def splitWs (s : Str) : List Str := splitWsGo [] s

/-- `re.sub(r"(?<!\S)-\S+\s+", "", s)` (fix D92): every word that starts with `-`, with the blanks behind it, when
blanks do follow.  A scanner structural on the text: `start` = at the beginning of the text or behind a blank,
`mid` = inside a word, `inOpt buf` = a `-` at a word start and the non-blanks behind it have been read (`buf`,
reversed; given back if no blank follows), `inWs` = behind a removed option. -/
inductive OptState where
  | start
  | mid
  | inOpt (buf : Str)
  | inWs
deriving Repr

def dropOptionsGo : OptState → Str → Str
  | .start, [] => []
  | .mid, [] => []
  | .inOpt buf, [] => buf.reverse
  | .inWs, [] => []
  | .start, c :: cs =>
    if c == 45 then dropOptionsGo (.inOpt [45]) cs
    else c :: dropOptionsGo (if Str.isSpace c then .start else .mid) cs
  | .mid, c :: cs => c :: dropOptionsGo (if Str.isSpace c then .start else .mid) cs
  | .inOpt buf, c :: cs =>
    if Str.isSpace c then
      if 2 ≤ buf.length then dropOptionsGo .inWs cs          -- `-word` and a blank: matched, swallow the blanks
      else buf.reverse ++ c :: dropOptionsGo .start cs        -- a lone `-`
    else dropOptionsGo (.inOpt (c :: buf)) cs
  | .inWs, c :: cs =>
    if Str.isSpace c then dropOptionsGo .inWs cs
    else if c == 45 then dropOptionsGo (.inOpt [45]) cs
    else c :: dropOptionsGo .mid cs

def dropOptions (s : Str) : Str := dropOptionsGo .start s

/-- the pinned tree: `re.sub(r"-\S+\s+", "", s)` — a `-` *inside* a word started an "option" too, so
`p 2.0-rc1 [>= 1.0]` lost `-rc1 ` (D92) -/
inductive OptStatePinned where
  | normal
  | inOpt (buf : Str)
  | inWs
deriving Repr

def dropOptionsPinnedGo : OptStatePinned → Str → Str
  | .normal, [] => []
  | .inOpt buf, [] => buf.reverse
  | .inWs, [] => []
  | .normal, c :: cs => if c == 45 then dropOptionsPinnedGo (.inOpt [45]) cs else c :: dropOptionsPinnedGo .normal cs
  | .inOpt buf, c :: cs =>
    if Str.isSpace c then
      if 2 ≤ buf.length then dropOptionsPinnedGo .inWs cs
      else buf.reverse ++ c :: dropOptionsPinnedGo .normal cs
    else dropOptionsPinnedGo (.inOpt (c :: buf)) cs
  | .inWs, c :: cs =>
    if Str.isSpace c then dropOptionsPinnedGo .inWs cs
    else if c == 45 then dropOptionsPinnedGo (.inOpt [45]) cs
    else c :: dropOptionsPinnedGo .normal cs

def dropOptionsPinned (s : Str) : Str := dropOptionsPinnedGo .normal s

/-- `re.sub(r"\s*\[[^]]+\]", "", s)`: `ws` = blanks read that go away with a bracket that follows them,
`inBr ws buf` = inside `[…` (given back if no `]` comes or the bracket is empty) -/
inductive BrState where
  | normal (ws : Str)
  | inBr (ws buf : Str)
deriving Repr

def dropBracketsGo : BrState → Str → Str
  | .normal ws, [] => ws.reverse
  | .inBr ws buf, [] => ws.reverse ++ buf.reverse
  | .normal ws, c :: cs =>
    if Str.isSpace c then dropBracketsGo (.normal (c :: ws)) cs
    else if c == 91 then dropBracketsGo (.inBr ws [91]) cs
    else ws.reverse ++ c :: dropBracketsGo (.normal []) cs
  | .inBr ws buf, c :: cs =>
    if c == 93 then
      if 2 ≤ buf.length then dropBracketsGo (.normal []) cs           -- `[body]` matched, with the blanks before it
      else ws.reverse ++ 91 :: 93 :: dropBracketsGo (.normal []) cs   -- `[]` does not match
    else dropBracketsGo (.inBr ws (c :: buf)) cs

def dropBrackets (s : Str) : Str := dropBracketsGo (.normal []) s

def kSetupRequiredParen : Str :=
  [115, 101, 116, 117, 112, 82, 101, 113, 117, 105, 114, 101, 100, 40]  -- 'setupRequired('

inductive FileErr where
  | suspicious      -- TagNotRecognized("Suspicious line …"): more than two words inside setupRequired(...)
  | invalid         -- TagNotRecognized("Invalid line …"): fewer than two words
deriving DecidableEq, Repr

/-- one line (without its newline): `none` = blank or comment, else the (product, version) it lists;
`dropOpt` = the option-stripping substitution (`dropOptions`; `dropOptionsPinned` before fix D92) -/
def tagFileLineWith (dropOpt : Str → Str) (line : Str) : Except FileErr (Option (Str × Str)) :=
  let l := stripTrail (stripLead line)
  if l.isEmpty || l.head? == some 35 then .ok none
  else
    -- `^setupRequired\(([^)]+)\)`
    let inner : Option Str :=
      if kSetupRequiredParen.isPrefixOf l then
        let after := l.drop kSetupRequiredParen.length
        let body := after.takeWhile (· != 41)
        if !body.isEmpty && body.length < after.length then some body else none
      else none
    match inner with
    | some body =>
      match splitWs (dropBrackets (dropOpt body)) with
      | [p, v] => .ok (some (p, v))
      | [] => .error .invalid
      | [_] => .error .invalid
      | _ => .error .suspicious
    | none =>
      match splitWs l with
      | p :: v :: _ => .ok (some (p, v))
      | _ => .error .invalid

def tagFileLine (line : Str) : Except FileErr (Option (Str × Str)) := tagFileLineWith dropOptions line

/-- the same on the pinned tree (D92) -/
def tagFileLinePinned (line : Str) : Except FileErr (Option (Str × Str)) := tagFileLineWith dropOptionsPinned line

/-- `fd.readlines()` (the newline stays on the line; it is blank, so it does not matter) -/
def splitLines : Str → Str → List Str
  | cur, [] => if cur.isEmpty then [] else [cur.reverse]
  | cur, c :: cs => if c == 10 then (c :: cur).reverse :: splitLines [] cs else splitLines (c :: cur) cs

/-- the version the file lists for `name`: the first line naming it; an ill-formed line *before* it raises -/
def tagFileVersionGo (name : Str) : List Str → Except FileErr (Option Str)
  | [] => .ok none
  | l :: ls =>
    match tagFileLine l with
    | .error e => .error e
    | .ok none => tagFileVersionGo name ls
    | .ok (some (p, v)) => if p == name then .ok (some v) else tagFileVersionGo name ls

def tagFileVersion (content name : Str) : Except FileErr (Option Str) :=
  tagFileVersionGo name (splitLines [] content)

/-! ## `findProduct` and the preferred-tags interface -/

inductive ApiErr where
  | tagNotRecognized    -- `Tags.getTag` on an entry of the preferred tags that is not a tag (`type:exact`, `warn:1`, …)
  | walk (e : Err)      -- an error of the VRO walk itself (`walkF`)
  | badExpr
  | notFound            -- RuntimeError("Unable to find product … specified in <file>")
  | file (e : FileErr)
  | unsupported
deriving DecidableEq, Repr

/-- the instance state the older interface reads: `self.preferredTags` (= the VRO since `selectVRO`) -/
structure ApiReq where
  name : Str
  flavor : Str
  ignoreVersions : Bool
  preferred : List Str
  force : Bool := false
deriving Repr

/-- `findProduct(name, Tag)` = `_findTaggedProduct` for the tag kept under `key` -/
def findTagged (C : Ctx) (q : ApiReq) (key : Str) : Except ApiErr (Option Prod) :=
  if key == kLatest then .ok (lookupLatest C.ord.cmp C.dbLatest q.name q.flavor)
  else if key == kSetup then .error .unsupported
  else .ok (lookupTag C.db key q.name q.flavor)

/-- `findPreferredProduct`: the first preferred tag that designates a version.  Entries `:`, all-digit entries and
entries containing `type:` are passed over; any other entry must be a tag (`getTag` raises otherwise). -/
def findPreferred (C : Ctx) (q : ApiReq) : List Str → Except ApiErr (Option Prod)
  | [] => .ok none
  | e :: rest =>
    if e == [colon] || allDigits e || hasInfix kTypeColon e then findPreferred C q rest
    else
      match C.tagKey e with
      | none => .error .tagNotRecognized
      | some key =>
        match findTagged C q key with
        | .error err => .error err
        | .ok (some p) => .ok (some p)
        | .ok none => findPreferred C q rest

/-- `_selectPreferredProduct(products, self.preferredTags)`: the first preferred tag some candidate carries
(in its own stack); `latest` picks the newest candidate. -/
def selectPreferred (C : Ctx) (q : ApiReq) (cands : List (Nat × Str)) : List Str → Except ApiErr (Option Prod)
  | [] => .ok none
  | e :: rest =>
    match C.tagKey e with
    | none => .error .tagNotRecognized
    | some key =>
      if key == kLatest then .ok (selectLatest C.ord.cmp q.flavor cands)
      else if key == kSetup then .error .unsupported
      else
        match cands.find? (fun c =>
            match C.db[c.1]? with
            | some st => tagVersion st key q.name q.flavor == some c.2
            | none => false) with
        | some c => .ok (some ⟨c.2, q.flavor, c.1⟩)
        | none => selectPreferred C q cands rest

/-- `Eups.findProduct(name, version, flavor=…, noCache=…)` with `version` a string or absent -/
def findProductApi (C : Ctx) (q : ApiReq) (version : Option Str) : Except ApiErr (Option Prod) :=
  match version with
  | none => findPreferred C q q.preferred
  | some v =>
    if v.isEmpty || q.ignoreVersions then findPreferred C q q.preferred
    else
      match isExpr v with
      | .error _ => .error .badExpr
      | .ok true =>
        let cands := exprCands C.ord.vmatch C.db q.name q.flavor v
        if cands.isEmpty then .ok none else selectPreferred C q cands q.preferred
      | .ok false => .ok (lookupVersion C.db q.name v q.flavor)

/-- `Eups.findTaggedProduct(name, fileName)` for a name that is not a registered tag: the tag file says which
version, `findProduct` finds it; a version no stack declares is an error unless `--force` (or it is a `LOCAL:`
directory that exists, `Product.createLocal`). -/
def findTaggedFromFile (C : Ctx) (q : ApiReq) (content : Str) : Except ApiErr (Option Prod) :=
  match tagFileVersion content q.name with
  | .error e => .error (.file e)
  | .ok none => .ok none
  | .ok (some v) =>
    match findProductApi C q (some v) with
    | .error e => .error e
    | .ok (some p) => .ok (some p)
    | .ok none =>
      -- `Product.createLocal(name, version)`: a `LOCAL:<dir>` version of an existing directory is the directory itself
      match localProd C v with
      | some p => .ok (some p)
      | none => if q.force then .ok none else .error .notFound

/-! ## a VRO entry that names a tag file (`os.path.isfile(vroTag)`, Eups.py l.944-955)

`findProductFromVRO` treats an entry that is the name of an existing file as a tag file: the file says which version,
`findProduct` finds it; "not listed" means `continue`, an ill-formed line or a version declared nowhere is an exception that
leaves the walk.  The file test comes behind the directives (`path`, `keep`, `commandLine`, the version entries, `warn`) and
in front of the tag lookup, so a file wins over a tag of the same name.  `files`: the files that exist, with their text. -/

def isDirective (r : Req) (e : Str) : Bool :=
  e == kPath || (0 < r.depth && e == kKeep) || e == kCommandLine || isVT e || isWarn e

def lookupEntryF (C : Ctx) (files : List (Str × Str)) (q : ApiReq) (r : Req) (e : Str) (post : List Str) :
    Except ApiErr Outcome :=
  match (if isDirective r e then none else lookupKey e files) with
  | some content =>
    match findTaggedFromFile C q content with
    | .error err => .error err
    | .ok (some p) => .ok (.hit p e)
    | .ok none => .ok .skip
  | none =>
    match lookupEntry C r e post with
    | .error err => .error (.walk err)
    | .ok o => .ok o

def walkF (C : Ctx) (files : List (Str × Str)) (q : ApiReq) (r : Req) : List Str → Except ApiErr (Option Hit)
  | [] => .ok none
  | e :: post =>
    match lookupEntryF C files q r e post with
    | .error err => .error err
    | .ok .skip => walkF C files q r post
    | .ok .abort => .ok none
    | .ok (.hit p reason) => .ok (some ⟨p, reason, e⟩)

/-- `findProductFromVRO` when some entries of the VRO may name tag files -/
def findF (C : Ctx) (files : List (Str × Str)) (q : ApiReq) (r : Req) (vro : List Str) : Except ApiErr (Option Hit) :=
  match walkF C files q r vro with
  | .error err => .error err
  | .ok none => .ok none
  | .ok (some h) => .ok (some (applyAlready r vro h))

end EupsModel.Vro
