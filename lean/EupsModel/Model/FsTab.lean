import EupsModel.Model.FsEff
/-!
# Database-held table files under a kill (C08)

`eups declare … -M <stream>` (a table file handed over as a file object) *interns* the table file: after the
version and chain records are written, `Eups.declare` (l.2707-2728) copies it to
`ups_db/<flavor>/<product>/<version>/ups/<product>.table` with `utils.copyfile` (utils.py l.583-600).  Mirrors

* `utils.copyfile` — repaired (D47): copy to a temporary name beside the destination, then rename; the pinned
  function (`atomic := false`) unlinks the destination and then copies in place;
* the order in `Eups.declare`: record, tags, then the extra files.

The table files live in their own directories, so the state is the record store `Fs` of `Model/FsEff.lean` beside a
store of table files.  The commands are those of `FsEff` plus `declareTab` = `Eups(flavor=f, force=True).declare(p, v,
dir, tablefile=<stream with content n>, tag=tag)`.  (The directories `ups_db/<flavor>/…/ups` that `os.makedirs` creates
first hold nothing a reader looks at and are not modelled.)
-/
namespace EupsModel.FsEff

/-- the interned table file of `(p, v, f)` -/
structure TKey where
  p : Id
  v : Id
  f : Id
  deriving DecidableEq, Repr

inductive TFile where
  | empty
  | part
  | full (n : Nat)          -- complete, content number `n`
  deriving DecidableEq, Repr

inductive TPath where
  | main (k : TKey)
  | tmp (k : TKey)          -- the temporary file of the running command, or one left by a killed command
  deriving DecidableEq, Repr

abbrev TabFs := List (TPath × TFile)

def tget (t : TabFs) (f : TPath) : Option TFile :=
  match t.find? (·.1 = f) with
  | some x => some x.2
  | none => none

def tset : TabFs → TPath → TFile → TabFs
  | [], f, c => [(f, c)]
  | (g, d) :: r, f, c => if g = f then (f, c) :: r else (g, d) :: tset r f c

def tdel : TabFs → TPath → TabFs
  | [], _ => []
  | (g, d) :: r, f => if g = f then tdel r f else (g, d) :: tdel r f

inductive TEff where
  | creat (f : TPath)                    -- `open(dst, "wb")` inside `shutil.copy2`
  | write (f : TPath) (n : Nat) (last : Bool)
  | close (f : TPath)
  | rename (a b : TPath)
  | unlink (f : TPath)
  deriving DecidableEq, Repr

def applyTEff (t : TabFs) : TEff → TabFs
  | .creat f => tset t f .empty
  | .write f n last => tset t f (if last then .full n else .part)
  | .close _ => t
  | .rename a b => match tget t a with
    | some c => tset (tdel t a) b c
    | none => t
  | .unlink f => tdel t f

/-- `utils.copyfile(stream copy, table file of k)` -/
def copyEffects (atomic : Bool) (k : TKey) (n : Nat) : List TEff :=
  if atomic then [.creat (.tmp k), .write (.tmp k) n true, .close (.tmp k), .rename (.tmp k) (.main k)]
  else [.unlink (.main k), .creat (.main k), .write (.main k) n true, .close (.main k)]

/-- record store and table-file store -/
structure Db where
  fs : Fs
  tabs : TabFs
  deriving DecidableEq, Repr

inductive Cmd2 where
  | plain (c : Cmd)
  /-- `Eups(flavor=f, force=True).declare(p, v, dir, tablefile=<stream n>, tag=tag)` -/
  | declareTab (p v f : Id) (tag : Option Id) (n : Nat)
  deriving DecidableEq, Repr

/-- what the command does to the records -/
def Cmd2.onRecords : Cmd2 → Cmd
  | .plain c => c
  | .declareTab p v f tag _ => .declare p v f tag true

/-- the table file the command replaces, with its new content -/
def Cmd2.tab : Cmd2 → Option (TKey × Nat)
  | .plain _ => none
  | .declareTab p v f _ n => some (⟨p, v, f⟩, n)

inductive Eff2 where
  | onRec (e : Eff)
  | onTab (e : TEff)
  deriving DecidableEq, Repr

def applyEff2 (db : Db) : Eff2 → Db
  | .onRec e => { db with fs := applyEff db.fs e }
  | .onTab e => { db with tabs := applyTEff db.tabs e }

def applyAll2 (db : Db) (es : List Eff2) : Db := es.foldl applyEff2 db

def tabEffects (cfg : Cfg) (c : Cmd2) : List TEff :=
  match c.tab with
  | some (k, n) => copyEffects cfg.atomic k n
  | none => []

/-- the file-system effects of a command, in order: the records first, the table file last -/
def effects2 (cfg : Cfg) (db : Db) (c : Cmd2) : List Eff2 :=
  (effects cfg db.fs c.onRecords).map .onRec ++ (tabEffects cfg c).map .onTab

/-- the state a kill before effect number `k` leaves behind -/
def crashAt2 (cfg : Cfg) (db : Db) (c : Cmd2) (k : Nat) : Db := applyAll2 db ((effects2 cfg db c).take k)

/-- what a reader makes of a table file -/
inductive TSeen where
  | absent
  | garbled
  | content (n : Nat)
  deriving DecidableEq, Repr

def readTab (db : Db) (k : TKey) : TSeen :=
  match tget db.tabs (.main k) with
  | none => .absent
  | some (.full n) => .content n
  | some _ => .garbled

end EupsModel.FsEff
